import PdeVerif.Num
import PdeVerif.Model.Controller
/-
Heap-level model of `Controller.run` (pde/solvers/controller.py:410-439) and of the in-place
stepping of the working state (`fixed_stepper`: `state_data[:] = state`, pde/solvers/base.py;
the compiled numba stepper writes into `state.data` as well).

`Model/Controller.lean` has value semantics: the simulated state is a value that is passed along.
Here field objects live in a heap (`address -> content`, allocation counter `next`):

* `Controller.run` executes `state = initial_state.copy()` (or `copy(dtype=complex)`): ONE
  allocation; the new object gets the address `next`, its content is the content of the caller's
  object at that moment;
* every tracker `handle` call is handed the working object (it sees its current content);
* every stepper call reads the working object, performs its steps and writes the result back into
  the SAME object (`state_data[:] = state`) - the only writes of the run;
* the returned state is the working object.

`runHeapAt` is the main process on a given working address (what `_run_serial(state, dt)` does);
`runHeap` composes it with the copy.  Core Lean only, same generic number type / state type /
schedule type as `Model/Controller.lean`; the loop body repeats `iterOnce` branch by branch.
-/
namespace PdeVerif.Controller
open PdeVerif PdeVerif.Interrupts

/-- the objects of the Python process that hold field data: content per address; addresses
`< next` are allocated -/
structure Heap (S : Type) where
  cell : Nat → S
  next : Nat

namespace Heap
variable {S : Type}

/-- in-place assignment `obj.data[:] = v` -/
def write (h : Heap S) (a : Nat) (v : S) : Heap S :=
  { h with cell := fun b => if b = a then v else h.cell b }

/-- `obj.copy()`: a new object (address `next`) with the content of `a` -/
def copy (h : Heap S) (a : Nat) : Heap S × Nat :=
  ({ cell := fun b => if b = h.next then h.cell a else h.cell b, next := h.next + 1 }, h.next)

/-- a heap from a list of objects (address = list position); `d` pads the unallocated part -/
def ofList (l : List S) (d : S) : Heap S := { cell := fun b => l.getD b d, next := l.length }

/-- contents of the allocated objects, in address order -/
def toList (h : Heap S) : List S := (List.range h.next).map h.cell

end Heap

/-- state of the main loop, the working state being an object of the heap -/
structure HLState (K S σ : Type) where
  heap : Heap S
  t : K
  steps : Nat
  trs : List (Tracker K S σ)
  trace : List (Event K S)
  iters : Nat

section
variable {K S σ : Type} [Add K] [Sub K] [Mul K] [Div K] [Neg K] [NatCast K] [IntCast K]
variable [LT K] [DecidableLT K] [LE K] [DecidableLE K] [HasFloor K]

/-- one pass through the body of `while t < t_end - stepper_atol`, the working state being the
object at address `w`: the trackers are handed that object, the stepper updates it in place -/
def iterOnceH (c : Cfg K S σ) (w : Nat) (hs : HLState K S σ) : HLState K S σ × Option Exit :=
  if hs.t < c.tEnd - c.eps * c.dt then
    let h := handleAll c.nxt (half * c.dt) hs.t (hs.heap.cell w) 0 hs.trs
    match h.2.2 with
    | some r => ({ hs with trs := h.1, trace := hs.trace ++ h.2.1 }, some (.stopped r))
    | none =>
      let s := clip (nextAction h.1) c.tEnd
      let n := nsteps hs.t s c.dt
      ({ heap := hs.heap.write w (stepN c.step c.dt hs.t n 0 (hs.heap.cell w)),
         t := stepperTime hs.t c.dt n, steps := hs.steps + n, trs := h.1,
         trace := hs.trace ++ h.2.1, iters := hs.iters + 1 }, none)
  else (hs, some .final)

def loopH (c : Cfg K S σ) (w : Nat) : Nat → HLState K S σ → HLState K S σ × Exit
  | 0, hs => (hs, .fuel)
  | fuel + 1, hs =>
    match iterOnceH c w hs with
    | (hs', none) => loopH c w fuel hs'
    | (hs', some e) => (hs', e)

/-- the final handle (`atol = stepper_atol`) on the working object -/
def finalHandleH (c : Cfg K S σ) (w : Nat) (p : HLState K S σ × Exit) : HLState K S σ × Exit :=
  match p.2 with
  | .final =>
    let h := handleAll c.nxt (c.eps * c.dt) p.1.t (p.1.heap.cell w) 0 p.1.trs
    ({ p.1 with trs := h.1, trace := p.1.trace ++ h.2.1 },
      match h.2.2 with
      | some r => .finalStopped r
      | none => .final)
  | _ => p

/-- what a caller can observe after `Controller.run` -/
structure HResult (K S σ : Type) where
  /-- all field objects after the run -/
  heap : Heap S
  /-- address of the returned state object -/
  obj : Nat
  tFinal : K
  steps : Nat
  trackers : List (Tracker K S σ)
  trace : List (Event K S)
  exit : Exit
  iters : Nat

/-- `_run_serial(state, dt)`: the main process working on the object at address `w` -/
def runHeapAt (c : Cfg K S σ) (h : Heap S) (w : Nat) (trs : List (Tracker K S σ)) (fuel : Nat) :
    HResult K S σ :=
  let p := finalHandleH c w (loopH c w fuel
    { heap := h, t := c.tStart, steps := 0, trs := trs, trace := [], iters := 0 })
  { heap := p.1.heap, obj := w, tFinal := p.1.t, steps := p.1.steps,
    trackers := finalizeAll p.1.trs, trace := p.1.trace, exit := p.2, iters := p.1.iters }

/-- `Controller.run(initial_state)`, `initial_state` being the object at address `a`:
`state = initial_state.copy()`, then the main process on the copy -/
def runHeapFuel (c : Cfg K S σ) (h : Heap S) (a : Nat) (trs : List (Tracker K S σ)) (fuel : Nat) :
    HResult K S σ :=
  let cp := h.copy a
  runHeapAt c cp.1 cp.2 trs fuel

def runHeap (c : Cfg K S σ) (h : Heap S) (a : Nat) (trs : List (Tracker K S σ)) : HResult K S σ :=
  runHeapFuel c h a trs (defaultFuel c)

/-- `Controller.run` on the heap with the concrete interrupt classes (cf. `runSpec`) -/
def runHeapSpec (dt tStart tEnd eps : K) (step : S → K → S) (h : Heap S) (a : Nat)
    (specs : List (TrackerSpec K S)) : HResult K S (Sched K) :=
  runHeap { dt := dt, tStart := tStart, tEnd := tEnd, eps := eps, step := step, nxt := Sched.next }
    h a (specs.map (fun s => s.init tStart))

end
end PdeVerif.Controller
