import PdeVerif.Num
/-
Model of the deterministic interrupt schedules of `pde/trackers/interrupts.py`
(`ConstantInterrupts`, `LogarithmicInterrupts`, `FixedInterrupts`, `GeometricInterrupts`).
Core Lean only; generic in the number type.
-/
namespace PdeVerif.Interrupts
open PdeVerif

section
variable {K : Type} [Add K] [Sub K] [Mul K] [Div K] [Neg K] [NatCast K] [IntCast K]
variable [LT K] [DecidableLT K] [LE K] [DecidableLE K] [HasFloor K]

/-- Python `max(a, b)`: returns `b` only if `b > a`. -/
def pyMax (a b : K) : K := if a < b then b else a

/-- `ConstantInterrupts.initialize` (interrupts.py): first action time. -/
def constInit (tStart : Option K) (t : K) : K :=
  match tStart with
  | none => t
  | some s => pyMax t s

/-- `ConstantInterrupts.next`: state `tn = _t_next`, period `D = dt`, query `t`. -/
def constNext (tn D t : K) : K :=
  let a := tn + D
  if a ≤ t then
    let n : Int := ceilI ((t - a) / D)
    let b := a + D * (n : K)
    if b < t then b + D else b
  else a

/-- answers of a constant schedule to a list of queries (state threaded through) -/
def runConst (D : K) : K → List K → List K
  | _, [] => []
  | tn, t :: ts => constNext tn D t :: runConst D (constNext tn D t) ts

/-- `LogarithmicInterrupts.next`: `dt *= factor` and then the constant rule.
State `(dt, tn)`. -/
def logNext (f : K) (st : K × K) (t : K) : K × K :=
  let dt' := st.1 * f
  (dt', constNext st.2 dt' t)

def runLog (f : K) : K × K → List K → List K
  | _, [] => []
  | st, t :: ts => (logNext f st t).2 :: runLog f (logNext f st t) ts

/-- state after a list of `next` calls -/
def logFinal (f : K) : K × K → List K → K × K
  | st, [] => st
  | st, t :: ts => logFinal f (logNext f st t) ts

/-- `initialize` on a logarithmic schedule that was used before (a tracker reused for a second run): the inherited
`ConstantInterrupts.initialize` only sets `_t_next` anew - the period `dt`, grown during the earlier run, is KEPT
(the code that exists; the schedule of the second run starts with the grown period) -/
def logReinit (tStart : Option K) (st : K × K) (t : K) : K × K := (st.1, constInit tStart t)

/-- `FixedInterrupts.next` on a list: `idx` is the value of `_index + 1` *before* the call
(number of entries consumed so far).  Returns the new count and the answer
(`none` = `math.inf`).  The `while t_next < t` loop is the `dropWhile`. -/
def fixedSkip (t : K) : List K → Nat × Option K
  | [] => (1, none)            -- IndexError: `_index` was already incremented once
  | x :: xs => if x < t then
      (match fixedSkip t xs with | (n, r) => (n + 1, r))
    else (1, some x)

def fixedNext (l : List K) (idx : Nat) (t : K) : Nat × Option K :=
  if idx > l.length then (idx, none)      -- reading `interrupts[_index]` for `t_last` fails
  else
    match fixedSkip t (l.drop idx) with
    | (n, r) => (idx + n, r)

def runFixed (l : List K) : Nat → List K → List (Option K)
  | _, [] => []
  | idx, t :: ts => (fixedNext l idx t).2 :: runFixed l (fixedNext l idx t).1 ts

/-- Geometric schedule in exact arithmetic.  `t_min = max(t, last*sqrt f)` and the answer
`scale*f^ceil(log_f(t_min/scale))` is the least lattice point `scale*f^k ≥ t` with
`k > k_last` (`k ≥ 0` on the first call), because `scale*f^k ≥ scale*f^(kl+1/2) ↔ k ≥ kl+1`.
The state is the last answer; the candidate walks up the lattice. `none` = fuel exhausted. -/
def geomSearch (f t : K) : Nat → K → Nat → Option (K × Nat)
  | 0, _, _ => none
  | fuel + 1, cand, k => if t ≤ cand then some (cand, k) else geomSearch f t fuel (cand * f) (k + 1)

def geomNext (scale f : K) (last : Option (K × Nat)) (t : K) (fuel : Nat) : Option (K × Nat) :=
  match last with
  | none => geomSearch f t fuel scale 0
  | some (v, k) => geomSearch f t fuel (v * f) (k + 1)

def runGeom (scale f : K) (fuel : Nat) : Option (K × Nat) → List K → List (Option (K × Nat))
  | _, [] => []
  | last, t :: ts =>
    match geomNext scale f last t fuel with
    | none => [none]
    | some r => some r :: runGeom scale f fuel (some r) ts

/-! ### `GeometricInterrupts.next` as the code computes it

```
t_min = scale * factor**-0.5            (first call)      |  self._t_next * factor**0.5   (later)
t_min = max(t, t_min)
i = np.log(t_min / scale) / np.log(factor)
self._t_next = scale * factor ** np.ceil(i)
```
`log` is external (libm / numpy): the value `np.ceil(i)` enters the model as an oracle parameter `e`
(an integer); `sq`, `sqInv` are the values of `factor**0.5`, `factor**-0.5` (external `pow` as well).
Everything else is the code's own arithmetic.  `Props/C09.lean` proves the property for *every*
oracle that is a ceiling of the logarithm up to a relative tolerance of its argument. -/

/-- `f ** n` for a natural exponent -/
def powNat (f : K) : Nat → K
  | 0 => ((1 : Nat) : K)
  | n + 1 => powNat f n * f

/-- `factor ** e` for an integer exponent -/
def powInt (f : K) (e : Int) : K :=
  if 0 ≤ e then powNat f e.toNat else ((1 : Nat) : K) / powNat f (-e).toNat

/-- the estimate `t_min` before `max(t, t_min)`; `last = self._t_next` (`none` before the first call) -/
def geomTmin0 (scale sq sqInv : K) : Option K → K
  | none => scale * sqInv
  | some v => v * sq

/-- `t_min` of `GeometricInterrupts.next` -/
def geomTmin (scale sq sqInv : K) (last : Option K) (t : K) : K :=
  pyMax t (geomTmin0 scale sq sqInv last)

/-- the answer for the oracle value `e = ceil(log(t_min/scale)/log(factor))` -/
def geomCodeAnswer (scale f : K) (e : Int) : K := scale * powInt f e

/-- a history of calls `(query, oracle value)`: the list of `(t_min, answer)` -/
def runGeomCode (scale f sq sqInv : K) : Option K → List (K × Int) → List (K × K)
  | _, [] => []
  | last, (t, e) :: rest =>
    let a := geomCodeAnswer scale f e
    (geomTmin scale sq sqInv last t, a) :: runGeomCode scale f sq sqInv (some a) rest

end
end PdeVerif.Interrupts
