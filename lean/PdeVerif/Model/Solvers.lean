import PdeVerif.Num
import PdeVerif.Generated.Tableau
/-
Model of the time steppers of py-pde:
  pde/solvers/base.py (fixed_stepper, adaptive_stepper, single_step_error_estimate,
  _make_dt_adjuster), euler.py, runge_kutta.py, implicit.py, crank_nicolson.py,
  adams_bashforth.py and the compiled copies of the loops in pde/backends/numba/_solvers.py.

Core Lean only; generic in the number type.  A state is the list of its cell values; the
equations used by the check are cell-wise (`Rate K = K → K → K`, `f u t`), so explicit steps
act cell by cell, while the convergence test of the implicit solvers and the error norm of
the adaptive solvers couple the cells exactly as the code does (mean square, maximum).
The numeric coefficients are parameters (`RK4Tab`, `RKFTab`, `AB2Tab`, `Ctl`); their values
are the ones extractor E1 reads from the sources (`Generated/Tableau.lean`), assembled at
the end of this file.
-/
namespace PdeVerif.Solvers
open PdeVerif

/-- `(conj(x) * x).real` of the convergence tests (real types: `x*x`) -/
class HasNormSq (K : Type) where
  nsq : K → K

instance : HasNormSq Rat := ⟨fun x => x * x⟩
instance : HasNormSq Float := ⟨fun x => x * x⟩

/-- right-hand side evaluated on one cell: `f u t` -/
abbrev Rate (K : Type) := K → K → K

section
variable {K : Type} [Add K] [Sub K] [Mul K] [Div K] [Neg K] [NatCast K] [IntCast K]

/-- the test equations of the check: `u' = a u + b0 + b1 t + b2 t^2 + b3 t^3` -/
def linRate (a b0 b1 b2 b3 : K) : Rate K :=
  fun u t => a * u + (b0 + b1 * t + b2 * (t * t) + b3 * (t * t * t))

/-! ### single steps of the explicit schemes -/

/-- euler.py `single_step`: `state_data += dt * rhs_pde(state_data, t)` -/
def eulerStep (f : Rate K) (dt u t : K) : K := u + dt * f u t

/-- coefficients of a four-stage explicit Runge-Kutta step as applied by
`RungeKuttaSolver._make_single_step_fixed_dt.single_step` -/
structure RK4Tab (K : Type) where
  c1 : K
  a21 : K
  c2 : K
  a31 : K
  a32 : K
  c3 : K
  a41 : K
  a42 : K
  a43 : K
  c4 : K
  w1 : K
  w2 : K
  w3 : K
  w4 : K

/-- runge_kutta.py `single_step` (k_i = dt * rhs(state + sum a_ij k_j, t + c_i dt)) -/
def rk4Step (T : RK4Tab K) (f : Rate K) (dt u t : K) : K :=
  let k1 := dt * f u (t + T.c1 * dt)
  let k2 := dt * f (u + T.a21 * k1) (t + T.c2 * dt)
  let k3 := dt * f (u + T.a31 * k1 + T.a32 * k2) (t + T.c3 * dt)
  let k4 := dt * f (u + T.a41 * k1 + T.a42 * k2 + T.a43 * k3) (t + T.c4 * dt)
  u + (T.w1 * k1 + T.w2 * k2 + T.w3 * k3 + T.w4 * k4)

/-- coefficients of the Runge-Kutta-Fehlberg step of
`RungeKuttaSolver._make_single_step_error_estimate` (names as in the source: `a` stage times,
`b` stage matrix, `c` weights of the returned state, `r` weights of the error estimate) -/
structure RKFTab (K : Type) where
  a1 : K
  a2 : K
  b21 : K
  a3 : K
  b31 : K
  b32 : K
  a4 : K
  b41 : K
  b42 : K
  b43 : K
  a5 : K
  b51 : K
  b52 : K
  b53 : K
  b54 : K
  a6 : K
  b61 : K
  b62 : K
  b63 : K
  b64 : K
  b65 : K
  c1 : K
  c2 : K
  c3 : K
  c4 : K
  c5 : K
  c6 : K
  r1 : K
  r2 : K
  r3 : K
  r4 : K
  r5 : K
  r6 : K

/-- the six stages `k1..k6` of the Fehlberg step on one cell -/
def rkfStages (T : RKFTab K) (f : Rate K) (dt u t : K) : K × K × K × K × K × K :=
  let k1 := dt * f u (t + T.a1 * dt)
  let k2 := dt * f (u + T.b21 * k1) (t + T.a2 * dt)
  let k3 := dt * f (u + T.b31 * k1 + T.b32 * k2) (t + T.a3 * dt)
  let k4 := dt * f (u + T.b41 * k1 + T.b42 * k2 + T.b43 * k3) (t + T.a4 * dt)
  let k5 := dt * f (u + T.b51 * k1 + T.b52 * k2 + T.b53 * k3 + T.b54 * k4) (t + T.a5 * dt)
  let k6 := dt * f (u + T.b61 * k1 + T.b62 * k2 + T.b63 * k3 + T.b64 * k4 + T.b65 * k5) (t + T.a6 * dt)
  (k1, k2, k3, k4, k5, k6)

/-- runge_kutta.py `single_step_error_estimate` on one cell: `(state_new, error_local)` -/
def rkf45Step (T : RKFTab K) (f : Rate K) (dt u t : K) : K × K :=
  match rkfStages T f dt u t with
  | (k1, k2, k3, k4, k5, k6) =>
    (u + (T.c1 * k1 + T.c2 * k2 + T.c3 * k3 + T.c4 * k4 + T.c5 * k5 + T.c6 * k6),
     T.r1 * k1 + T.r2 * k2 + T.r3 * k3 + T.r4 * k4 + T.r5 * k5 + T.r6 * k6)

/-- the value the error estimate is the difference to: the same stages combined with the
weights `c_i + r_i` (the embedded 5th-order solution) -/
def rkf45High (T : RKFTab K) (f : Rate K) (dt u t : K) : K :=
  match rkfStages T f dt u t with
  | (k1, k2, k3, k4, k5, k6) =>
    u + ((T.c1 + T.r1) * k1 + (T.c2 + T.r2) * k2 + (T.c3 + T.r3) * k3 + (T.c4 + T.r4) * k4
        + (T.c5 + T.r5) * k5 + (T.c6 + T.r6) * k6)

/-! ### implicit Euler and Crank-Nicolson: predictor + fixed-point iteration -/

/-- implicit.py predictor: `state_data[:] = state_t + dt * rhs(state_data, t)` -/
def implicitPredict (f : Rate K) (dt t u : K) : K := u + dt * f u t

/-- implicit.py iteration: `state_data[:] = state_t + dt * rhs(state_data, t + dt)` -/
def implicitIter (f : Rate K) (dt t u x : K) : K := u + dt * f x (t + dt)

/-- crank_nicolson.py: `state_cn = state_t + dt / 2 * (rhs(state_data, t + dt) + rate_t)`,
`state_data[:] = α * state_data + (1 - α) * state_cn` with `rate_t = rhs(state_t, t)`;
the code runs this once before the loop (on `state_data = state_t`) and once per iteration -/
def cnIter (α : K) (f : Rate K) (dt t u x : K) : K :=
  α * x + (((1:Nat) : K) - α) * (u + dt / ((2:Nat) : K) * (f x (t + dt) + f u t))

/-- mean squared difference of two iterates
(`err = 0.0; for j: err += (conj(diff) * diff).real; err /= size`) -/
def msqDiff [HasNormSq K] (xs ys : List K) : K :=
  (List.zipWith (fun x y => HasNormSq.nsq (x - y)) xs ys).foldl (· + ·) ((0:Nat) : K)
    / ((xs.length : Nat) : K)

/-- `for n in range(maxiter): prev = cur; cur = it(cur); if err < maxerror2: break
else: raise ConvergenceError`.  Returns the converged iterate and the number of iterations
performed (`n + 1`); `none` is the `ConvergenceError`. -/
def fixpointLoop [HasNormSq K] [LT K] [DecidableLT K] (it : List K → List K) (maxerr2 : K) :
    Nat → List K → Nat → Option (List K × Nat)
  | 0, _, _ => none
  | m + 1, xs, n =>
    let ys := it xs
    if msqDiff ys xs < maxerr2 then some (ys, n + 1) else fixpointLoop it maxerr2 m ys (n + 1)

/-- implicit.py `implicit_step` on a whole state -/
def implicitStep [HasNormSq K] [LT K] [DecidableLT K] (f : Rate K) (maxiter : Nat) (maxerror dt : K)
    (us : List K) (t : K) : Option (List K × Nat) :=
  fixpointLoop (fun xs => List.zipWith (implicitIter f dt t) us xs) (maxerror * maxerror) maxiter
    (us.map (implicitPredict f dt t)) 0

/-- crank_nicolson.py `crank_nicolson_step` on a whole state -/
def cnStep [HasNormSq K] [LT K] [DecidableLT K] (α : K) (f : Rate K) (maxiter : Nat) (maxerror dt : K)
    (us : List K) (t : K) : Option (List K × Nat) :=
  fixpointLoop (fun xs => List.zipWith (cnIter α f dt t) us xs) (maxerror * maxerror) maxiter
    (us.map (fun u => cnIter α f dt t u u)) 0

/-! ### the fixed-step loop -/

section loops
variable [LT K] [DecidableLT K] [LE K] [DecidableLE K] [HasFloor K]

/-- `steps = max(1, round((t_end - t_start) / dt))` -/
def stepCount (dt tStart tEnd : K) : Nat :=
  let r : Int := roundHE ((tEnd - tStart) / dt)
  (if 1 < r then r else 1).toNat

/-- `for i in range(steps): t = t_start + i * dt; state = single_step(state, t)`;
`n` steps remain, `i` is the loop index.  `none`: a step raised (ConvergenceError). -/
def fixedLoop {σ : Type} (step : σ → K → Option σ) (dt tStart : K) : Nat → Nat → σ → Option σ
  | 0, _, s => some s
  | n + 1, i, s =>
    match step s (tStart + ((i : Nat) : K) * dt) with
    | none => none
    | some s' => fixedLoop step dt tStart n (i + 1) s'

/-- base.py `fixed_stepper` (= numba `_make_fixed_stepper`): new state and the returned time
`t + dt` with `t` the time of the last loop iteration -/
def fixedStepper {σ : Type} (step : σ → K → Option σ) (dt tStart tEnd : K) (s : σ) : Option (σ × K) :=
  let n := stepCount dt tStart tEnd
  match fixedLoop step dt tStart n 0 s with
  | none => none
  | some s' => some (s', (tStart + (((n - 1 : Nat) : Nat) : K) * dt) + dt)

end loops

/-! ### Adams-Bashforth -/

/-- coefficients as applied by adams_bashforth.py / the compiled loop: weights of the current
and the previous rate, their time offsets in units of `dt`, coefficient of `dt * rate` in the
first-call estimate of the previous state -/
structure AB2Tab (K : Type) where
  wCur : K
  wPrev : K
  tCur : K
  tPrev : K
  init : K

/-- one Adams-Bashforth update of a cell: `(new state, new previous state)`;
`rhs_prev = rhs(state_prev, t - dt)`, `rhs_cur = rhs(state, t)`, `state_prev = state`,
`state += dt * (1.5 * rhs_cur - 0.5 * rhs_prev)` -/
def ab2Step (T : AB2Tab K) (f : Rate K) (dt t u p : K) : K × K :=
  let rp := f p (t + T.tPrev * dt)
  let rc := f u (t + T.tCur * dt)
  (u + dt * (T.wCur * rc + T.wPrev * rp), u)

/-- first call only: `state_prev[:] = state_data - dt * rhs_pde(state_data, t_start)` -/
def ab2Init (T : AB2Tab K) (f : Rate K) (dt tStart u : K) : K := u + T.init * (dt * f u tStart)

/-- state of the Adams-Bashforth stepper between calls: cells and the persistent previous
state (`none` until the first call) -/
structure AB2State (K : Type) where
  us : List K
  prev : Option (List K)

def ab2StepAll (T : AB2Tab K) (f : Rate K) (dt : K) (s : List K × List K) (t : K) : Option (List K × List K) :=
  let r := List.zipWith (ab2Step T f dt t) s.1 s.2
  some (r.map Prod.fst, r.map Prod.snd)

/-- adams_bashforth.py `fixed_stepper` (= numba `_make_adams_bashforth_stepper`) -/
def ab2Stepper [LT K] [DecidableLT K] [LE K] [DecidableLE K] [HasFloor K]
    (T : AB2Tab K) (f : Rate K) (dt tStart tEnd : K) (s : AB2State K) : Option (AB2State K × K) :=
  let prev := match s.prev with
    | some p => p
    | none => s.us.map (ab2Init T f dt tStart)
  match fixedStepper (ab2StepAll T f dt) dt tStart tEnd (s.us, prev) with
  | none => none
  | some ((us, p), t) => some (⟨us, some p⟩, t)

/-! ### the times at which the steps evaluate the rate, in the order of the code

(compared by the check with the times a recording rate function sees in the real steppers) -/

/-- euler.py: one evaluation at `t` -/
def eulerTimes (t _dt : K) : List K := [t]

/-- runge_kutta.py `single_step`: `k_i` at `t + c_i dt` -/
def rk4Times (T : RK4Tab K) (t dt : K) : List K :=
  [t + T.c1 * dt, t + T.c2 * dt, t + T.c3 * dt, t + T.c4 * dt]

/-- runge_kutta.py error-estimating step: `k_i` at `t + a_i dt` -/
def rkfTimes (T : RKFTab K) (t dt : K) : List K :=
  [t + T.a1 * dt, t + T.a2 * dt, t + T.a3 * dt, t + T.a4 * dt, t + T.a5 * dt, t + T.a6 * dt]

/-- adams_bashforth.py: `rhs(state_prev, t - dt)`, then `rhs(state, t)` -/
def ab2Times (T : AB2Tab K) (t dt : K) : List K := [t + T.tPrev * dt, t + T.tCur * dt]

/-- implicit.py / crank_nicolson.py: the distinct times of a step (`t` once, `t + dt` once per iteration) -/
def implicitTimes (t dt : K) : List K := [t, t + dt]

/-- all rate-evaluation times of a fixed-step call of `n` steps: the stage times of the steps started at
`t_start + i dt` -/
def callTimes (stage : K → K → List K) (dt tStart : K) (n : Nat) : List K :=
  (List.range n).flatMap (fun i => stage (tStart + ((i : Nat) : K) * dt) dt)

/-! ### adaptive stepping -/

section adaptive
variable [LT K] [DecidableLT K] [LE K] [DecidableLE K]

/-- Python `max(a, b)`: `b` only if `b > a` -/
def pmax (a b : K) : K := if a < b then b else a
/-- Python `min(a, b)`: `b` only if `b < a` -/
def pmin (a b : K) : K := if b < a then b else a
/-- `abs` of a real number -/
def absK (x : K) : K := if x < ((0:Nat) : K) then -x else x
/-- `np.abs(xs).max()` -/
def maxAbs (xs : List K) : K := xs.foldl (fun m x => pmax m (absK x)) ((0:Nat) : K)

/-- constants and external functions of the step-size controller
(`pow x p` is `x**p`, `isNan` is `np.isnan`) -/
structure Ctl (K : Type) where
  tol : K
  dtMin : K
  dtMax : K
  small : K
  up : K
  nan : K
  safety : K
  expo : K
  down : K
  pow : K → K → K
  isNan : K → Bool

/-- the two `RuntimeError`s of `adjust_dt` -/
inductive AdjErr where
  | belowMin
  | nanBelowMin
  deriving Repr, DecidableEq

/-- base.py `_make_dt_adjuster.adjust_dt` -/
def adjustDt (C : Ctl K) (dt errRel : K) : Except AdjErr K :=
  let dt1 :=
    if errRel < C.small then dt * C.up
    else if C.isNan errRel then dt * C.nan
    else dt * pmax (C.safety * C.pow errRel C.expo) C.down
  if C.dtMax < dt1 then .ok C.dtMax
  else if dt1 < C.dtMin then .error (if C.isNan errRel then .nanBelowMin else .belowMin)
  else .ok dt1

/-- one iteration of an adaptive loop, as recorded for the correspondence check -/
structure Rec (K : Type) where
  t : K
  dt : K
  errRel : K
  accepted : Bool

/-- loop variables of `adaptive_stepper` -/
structure AState (K : Type) where
  us : List K
  t : K
  dtOpt : K
  steps : Nat
  trace : List (Rec K)   -- newest first

inductive AOut (K : Type) where
  | done (s : AState K)               -- `break`: returned to the controller
  | fuel (s : AState K)               -- model fuel exhausted (the code would keep looping)
  | error (e : AdjErr) (s : AState K) -- `adjust_dt` raised

/-- `dt_step = max(min(dt_opt, t_end - t), dt_min)` -/
def dtStep (C : Ctl K) (dtOpt tEnd t : K) : K := pmax (pmin dtOpt (tEnd - t)) C.dtMin

/-- `t = t_end if dt_step == t_end - t else t + dt_step`: an accepted step that was clipped to the
remaining interval lands exactly on `t_end` (in IEEE arithmetic `t + (t_end - t)` may be the float
below `t_end`).  `==` is expressed through `<` (the model's only order primitive); the two differ for
NaN only, which a time never is. -/
def landT (tEnd t h : K) : K :=
  if h < tEnd - t then t + h else if tEnd - t < h then t + h else tEnd

/-- base.py `adaptive_stepper` (= numba `_make_adaptive_stepper_general`) for an error
estimating single step `est us t dt = (new state, error)` -/
def adaptiveLoop (C : Ctl K) (est : List K → K → K → List K × K) (tEnd : K) : Nat → AState K → AOut K
  | 0, s => .fuel s
  | n + 1, s =>
    let h := dtStep C s.dtOpt tEnd s.t
    let r := est s.us s.t h
    let errRel := r.2 / C.tol
    let acc : Bool := errRel ≤ ((1:Nat) : K)
    let us' := if acc then r.1 else s.us
    let t' := if acc then landT tEnd s.t h else s.t
    let steps' := if acc then s.steps + 1 else s.steps
    let tr := ⟨s.t, h, errRel, acc⟩ :: s.trace
    if t' < tEnd then
      match adjustDt C h errRel with
      | .ok d => adaptiveLoop C est tEnd n ⟨us', t', d, steps', tr⟩
      | .error e => .error e ⟨us', t', s.dtOpt, steps', tr⟩
    else .done ⟨us', t', s.dtOpt, steps', tr⟩

/-- `adaptive_stepper(state, t_start, t_end)` with the time step carried over from the last call -/
def adaptiveStepper (C : Ctl K) (est : List K → K → K → List K × K) (fuel : Nat)
    (us : List K) (tStart tEnd dt0 : K) : AOut K :=
  adaptiveLoop C est tEnd fuel ⟨us, tStart, dt0, 0, []⟩

/-- base.py `single_step_error_estimate` for a variable-dt single step (step doubling):
`k1 = step(u,t,dt)`, `k2 = step(step(u,t,dt/2), t+dt/2, dt/2)`, returns `(k2, max|k1-k2|)` -/
def richardson (step : K → K → K → K) (us : List K) (t dt : K) : List K × K :=
  let half : K := ((1:Nat) : K) / ((2:Nat) : K)
  let k1 := us.map (fun u => step u t dt)
  let k2 := us.map (fun u => step (step u t (half * dt)) (t + half * dt) (half * dt))
  (k2, maxAbs (List.zipWith (· - ·) k1 k2))

/-- base.py `_make_single_step_variable_dt`: `state + dt * rhs(state, t)` -/
def eulerVar (f : Rate K) (u t dt : K) : K := u + dt * f u t

/-- the Euler-Richardson estimate used by a plain `AdaptiveSolverBase` -/
def eulerRichardson (f : Rate K) : List K → K → K → List K × K := richardson (eulerVar f)

/-- runge_kutta.py estimate on a whole state: `(state_new, abs(error_local).max())` -/
def rkf45Est (T : RKFTab K) (f : Rate K) (us : List K) (t dt : K) : List K × K :=
  let r := us.map (fun u => rkf45Step T f dt u t)
  (r.map Prod.fst, maxAbs (r.map Prod.snd))

/-- loop variables of the specialised adaptive Euler loop (euler.py `adaptive_stepper`
= numba `_make_adaptive_stepper_euler`): additionally the rate carried between iterations -/
structure EState (K : Type) where
  s : AState K
  rate : List K

/-- one pass of the adaptive Euler loop.  Mirrors the code: the rate of an accepted state, which the
next step reuses as its first stage, is evaluated at the time the step ends
(`rate = rhs_pde(step_small, t + dt_step)`, then `t += dt_step`). -/
def eulerAdaptiveLoop (C : Ctl K) (f : Rate K) (tEnd : K) : Nat → EState K → AOut K
  | 0, e => .fuel e.s
  | n + 1, e =>
    let s := e.s
    let half : K := ((1:Nat) : K) / ((2:Nat) : K)
    let h := dtStep C s.dtOpt tEnd s.t
    let large := List.zipWith (fun u r => u + h * r) s.us e.rate
    let small0 := List.zipWith (fun u r => u + half * h * r) s.us e.rate
    let small := small0.map (fun x => x + half * h * f x (s.t + half * h))
    let errRel := maxAbs (List.zipWith (· - ·) large small) / C.tol
    let acc : Bool := errRel ≤ ((1:Nat) : K)
    let rate' := if acc then small.map (fun x => f x (s.t + h)) else e.rate
    let us' := if acc then small else s.us
    let t' := if acc then landT tEnd s.t h else s.t
    let steps' := if acc then s.steps + 1 else s.steps
    let tr := ⟨s.t, h, errRel, acc⟩ :: s.trace
    if t' < tEnd then
      match adjustDt C h errRel with
      | .ok d => eulerAdaptiveLoop C f tEnd n ⟨⟨us', t', d, steps', tr⟩, rate'⟩
      | .error err => .error err ⟨us', t', s.dtOpt, steps', tr⟩
    else .done ⟨us', t', s.dtOpt, steps', tr⟩

/-- euler.py adaptive `adaptive_stepper(state, t_start, t_end)`:
`rate = rhs_pde(state_cur, t_start)` and then the loop -/
def eulerAdaptiveStepper (C : Ctl K) (f : Rate K) (fuel : Nat)
    (us : List K) (tStart tEnd dt0 : K) : AOut K :=
  eulerAdaptiveLoop C f tEnd fuel ⟨⟨us, tStart, dt0, 0, []⟩, us.map (fun u => f u tStart)⟩

end adaptive

/-! ### the coefficients read from the sources by extractor E1 -/

def rk4Tab : RK4Tab K :=
  { c1 := Generated.rk4_c1, a21 := Generated.rk4_a21, c2 := Generated.rk4_c2,
    a31 := Generated.rk4_a31, a32 := Generated.rk4_a32, c3 := Generated.rk4_c3,
    a41 := Generated.rk4_a41, a42 := Generated.rk4_a42, a43 := Generated.rk4_a43,
    c4 := Generated.rk4_c4, w1 := Generated.rk4_w1, w2 := Generated.rk4_w2,
    w3 := Generated.rk4_w3, w4 := Generated.rk4_w4 }

def rkfTab : RKFTab K :=
  { a1 := Generated.rkf_a1, a2 := Generated.rkf_a2, b21 := Generated.rkf_b21,
    a3 := Generated.rkf_a3, b31 := Generated.rkf_b31, b32 := Generated.rkf_b32,
    a4 := Generated.rkf_a4, b41 := Generated.rkf_b41, b42 := Generated.rkf_b42, b43 := Generated.rkf_b43,
    a5 := Generated.rkf_a5, b51 := Generated.rkf_b51, b52 := Generated.rkf_b52, b53 := Generated.rkf_b53,
    b54 := Generated.rkf_b54,
    a6 := Generated.rkf_a6, b61 := Generated.rkf_b61, b62 := Generated.rkf_b62, b63 := Generated.rkf_b63,
    b64 := Generated.rkf_b64, b65 := Generated.rkf_b65,
    c1 := Generated.rkf_c1, c2 := Generated.rkf_c2, c3 := Generated.rkf_c3, c4 := Generated.rkf_c4,
    c5 := Generated.rkf_c5, c6 := Generated.rkf_c6,
    r1 := Generated.rkf_r1, r2 := Generated.rkf_r2, r3 := Generated.rkf_r3, r4 := Generated.rkf_r4,
    r5 := Generated.rkf_r5, r6 := Generated.rkf_r6 }

/-- adams_bashforth.py (numpy backend) -/
def ab2Tab : AB2Tab K :=
  { wCur := Generated.ab2_w_cur, wPrev := Generated.ab2_w_prev, tCur := Generated.ab2_t_cur,
    tPrev := Generated.ab2_t_prev, init := Generated.ab2_init }

/-- backends/numba/_solvers.py (numba backend) -/
def ab2TabNumba : AB2Tab K :=
  { wCur := Generated.ab2nb_w_cur, wPrev := Generated.ab2nb_w_prev, tCur := Generated.ab2nb_t_cur,
    tPrev := Generated.ab2nb_t_prev, init := Generated.ab2nb_init }

/-- the controller with the constants of the source; tolerance, `dt_min`, `dt_max` are
attributes of the solver object and are passed per case -/
def ctlOf (tol dtMin dtMax : K) (pow : K → K → K) (isNan : K → Bool) : Ctl K :=
  { tol := tol, dtMin := dtMin, dtMax := dtMax,
    small := Generated.ctl_small, up := Generated.ctl_up, nan := Generated.ctl_nan,
    safety := Generated.ctl_safety, expo := Generated.ctl_expo, down := Generated.ctl_down,
    pow := pow, isNan := isNan }

end
end PdeVerif.Solvers
