import PdeVerif.Model.PDEs
/-
Explicit time dependence of the right-hand sides (C10, gap round).

In `Model/PDEs.lean` an operator with its boundary condition is an `Op ι K` at a FROZEN time.
Here the time is a parameter: a time-dependent operator is a family `TOp ι K = K → Op ι K`
(`laplace` with the condition `{"value_expression": "sin(t)"}` is a different affine map at
every time), a time-dependent operator table of the generic `PDE` is a family of tables, and
the time-parameterised rates / right-hand-side values are the definitions of `Model/PDEs.lean`
instantiated at the operators of time `t`, with the symbol `t` bound to the SAME `t` in the
environment (`PDE._compile_rhs_single` passes `t` both to the boundary conditions, `bc_args`,
and to the expression).

`sampled` is how the driver builds a time-dependent object from measurements at finitely many
times; `constOp` is the operator of the `{"values": [..]}` request (an operator result that was
measured for the state itself).

Core Lean only; generic in the number type and in the index type of the cells.
-/
namespace PdeVerif.PDEs
open PdeVerif PdeVerif.Ex

section
variable {ι K : Type} [Add K] [Sub K] [Mul K] [Div K] [Neg K] [NatCast K] [IntCast K]

/-- an operator with its own (time-dependent) boundary condition: one map on states per time -/
abbrev TOp (ι K : Type) := K → Op ι K

/-- the operator that answers with a fixed field whatever its argument is: the `{"values"}`
operator of the driver (the result of an operator measured for the state itself) -/
def constOp (v : St ι K) : Op ι K := fun _ => v

/-- a time-dependent object known at sampled times (first sample of a time wins; `dflt`
elsewhere): what the driver builds from the operators measured at the times of a case -/
def sampled {α : Type} [BEq K] (samples : List (K × α)) (dflt : α) : K → α :=
  fun t => (samples.lookup t).getD dflt

/-! ### class rates at time `t` -/

def diffusionRateAt (D : K) (lap_bc : TOp ι K) (t : K) (c : St ι K) : St ι K :=
  diffusionRate D (lap_bc t) c

def allenCahnRateAt (γ mob : K) (lap_bc : TOp ι K) (t : K) (c : St ι K) : St ι K :=
  allenCahnRate γ mob (lap_bc t) c

def cahnHilliardRateAt (γ : K) (lap_c lap_mu : TOp ι K) (t : K) (c : St ι K) : St ι K :=
  cahnHilliardRate γ (lap_c t) (lap_mu t) c

def kpzRateAt (ν lam : K) (lap_bc gradsq : TOp ι K) (t : K) (c : St ι K) : St ι K :=
  kpzRate ν lam (lap_bc t) (gradsq t) c

def ksRateAt (ν : K) (lap_bc lap_bc_lap gradsq : TOp ι K) (t : K) (c : St ι K) : St ι K :=
  ksRate ν (lap_bc t) (lap_bc_lap t) (gradsq t) c

def swiftHohenbergRateAt (ε kc2 δ : K) (lap_bc lap_bc_lap : TOp ι K) (t : K) (c : St ι K) :
    St ι K :=
  swiftHohenbergRate ε kc2 δ (lap_bc t) (lap_bc_lap t) c

def waveRateAt (speed : K) (lap_bc : TOp ι K) (t : K) (u v : St ι K) : St ι K × St ι K :=
  waveRate speed (lap_bc t) u v

def kleinGordonRateAt (speed mass : K) (lap_bc : TOp ι K) (t : K) (u v : St ι K) :
    St ι K × St ι K :=
  kleinGordonRate speed mass (lap_bc t) u v

/-! ### right-hand-side texts at time `t` -/

/-- value at time `t` of a right-hand-side text with the operators `laplace` and
`gradient_squared` (the advertised texts of the predefined classes read as a `PDE`): the
operators are the instances of time `t` and the symbol `t` denotes the same `t` -/
def rhsValueAt (T : FunTab K) (lap gradsq : TOp ι K) (vars : List (String × St ι K)) (t : K)
    (e : Expr) : St ι K :=
  rhsValueOps T [("laplace", lap t), ("gradient_squared", gradsq t)] vars [("t", t)] e

/-- operator table of the generic `PDE` (see `pdeOp`) -/
abbrev OpTable (ι K : Type) := List (String × String × List (Option (Op ι K)))

/-- value at time `t` of the right-hand side of the equation of `var` in a generic `PDE`:
`table t` holds the operator instances at time `t`, the numeric constants come first and the
time is bound to the symbol `t` after them (`PDE` rejects a FIELD named `t`; the theorems about
the symbol `t` assume that no field and no constant is called `t`) -/
def rhsValuePdeAt (T : FunTab K) (keys : List (String × String)) (table : K → OpTable ι K)
    (var : String) (vars : List (String × St ι K)) (consts : List (String × K)) (t : K)
    (e : Expr) : St ι K :=
  rhsValuePde T keys (table t) var vars (consts ++ [("t", t)]) e

end

end PdeVerif.PDEs
