import PdeVerif.Model.Stencil
import PdeVerif.Model.BC
/-
Volume-weighted sums of operator results (the quantity `field.integral` of py-pde computes:
`grid.integrate(data) = Σ cell_volume * data`).  Cell volumes are given without the factor `π`
(`pde/grids/spherical.py: cell_volume_data`, `cylindrical.py: cell_volume_data`,
`cartesian.py`: product of the spacings).  Core Lean only.
-/
namespace PdeVerif.Conserve
open PdeVerif PdeVerif.Stencil

section
variable {K : Type} [Add K] [Sub K] [Mul K] [Div K] [Neg K] [NatCast K] [IntCast K]

/-- `Σ_{i=1}^{n} f i` -/
def sumTo (f : Nat → K) : Nat → K
  | 0 => ((0:Nat):K)
  | n + 1 => sumTo f n + f (n + 1)

/-- annulus `π (rh² - rl²)` without `π` -/
def volPolar (r : Int → K) (dr : K) (i : Int) : K :=
  (r i + dr / ((2:Nat):K)) * (r i + dr / ((2:Nat):K)) - (r i - dr / ((2:Nat):K)) * (r i - dr / ((2:Nat):K))

/-- spherical shell `4/3 π (rh³ - rl³)` without `π` -/
def volSph (r : Int → K) (dr : K) (i : Int) : K :=
  ((4:Nat):K) * shellThird (r i - dr / ((2:Nat):K)) (r i + dr / ((2:Nat):K))

/-- cylindrical cell `2 π r dr dz` without `π` (the form used by `cell_volume_data`) -/
def volCyl (r : Int → K) (dr dz : K) (i : Int) : K := ((2:Nat):K) * dr * r i * dz

/-! ### integrals (volume-weighted sums) of operator results over all valid cells -/

def intCart1Laplace (dx : K) (a : Arr K) (n : Nat) : K :=
  sumTo (fun i => dx * cartLaplace [dx] a [] [(i:Int)]) n

def intCart2Laplace (dx dy : K) (a : Arr K) (n m : Nat) : K :=
  sumTo (fun i => sumTo (fun j => dx * dy * cartLaplace [dx, dy] a [] [(i:Int), (j:Int)]) m) n

def intCart3Laplace (dx dy dz : K) (a : Arr K) (n m l : Nat) : K :=
  sumTo (fun i => sumTo (fun j => sumTo (fun k =>
    dx * dy * dz * cartLaplace [dx, dy, dz] a [] [(i:Int), (j:Int), (k:Int)]) l) m) n

def intPolarLaplace (r : Int → K) (dr : K) (a : Arr K) (n : Nat) : K :=
  sumTo (fun i => volPolar r dr i * polarLaplace r dr a i) n

def intSphLaplace (conservative : Bool) (r : Int → K) (dr : K) (a : Arr K) (n : Nat) : K :=
  sumTo (fun i => volSph r dr i * sphLaplace conservative r dr a i) n

def intCylLaplace (r : Int → K) (dr dz : K) (a : Arr K) (n m : Nat) : K :=
  sumTo (fun i => sumTo (fun j => volCyl r dr dz i * cylLaplace r dr dz a i j) m) n

def intCart1Divergence (mth : Method) (dx : K) (a : Arr K) (n : Nat) : K :=
  sumTo (fun i => dx * cartDivergence mth [dx] a [] [(i:Int)]) n

def intCart2Divergence (mth : Method) (dx dy : K) (a : Arr K) (n m : Nat) : K :=
  sumTo (fun i => sumTo (fun j => dx * dy * cartDivergence mth [dx, dy] a [] [(i:Int), (j:Int)]) m) n

def intCart3Divergence (mth : Method) (dx dy dz : K) (a : Arr K) (n m l : Nat) : K :=
  sumTo (fun i => sumTo (fun j => sumTo (fun k =>
    dx * dy * dz * cartDivergence mth [dx, dy, dz] a [] [(i:Int), (j:Int), (k:Int)]) l) m) n

def intSphDivergence (conservative : Bool) (mth : Method) (r : Int → K) (dr : K) (a : Arr K) (n : Nat) : K :=
  sumTo (fun i => volSph r dr i * sphDivergence conservative mth r dr a i) n

def intPolarDivergence (r : Int → K) (dr : K) (a : Arr K) (n : Nat) : K :=
  sumTo (fun i => volPolar r dr i * polarDivergence r dr a i) n

/-- cylindrical divergence (components `(r, z, φ)`; the stencil is *not* in flux form, see `Props/C05d.lean`) -/
def intCylDivergence (r : Int → K) (dr dz : K) (a : Arr K) (n m : Nat) : K :=
  sumTo (fun i => sumTo (fun j => volCyl r dr dz i * cylDivergence r dr dz a i j) m) n

/-! ### the boundary faces of the conserving conditions (what `grid.get_boundary_conditions` builds for
`"periodic"`, `{"derivative": 0}`, `{"normal_value": 0}`), as input of `BC.setGhostAll` -/

open PdeVerif.BC in
/-- all faces of a grid in the order of `BoundariesList.set_ghost_cells` (axes in order, upper side first):
conditions `cu ax` / `cl ax` on the upper / lower face of axis `ax`, `nu`/`nl` = normal-only condition -/
def gridFaces (shape : List Nat) (rank : Nat) (dx : Nat → K) (cu cl : Nat → Cond K) (nu nl : Nat → Bool) :
    List (Face × K × Cond K) :=
  (List.range shape.length).flatMap fun ax =>
    [(⟨shape, rank, ax, .upper, nu ax⟩, dx ax, cu ax), (⟨shape, rank, ax, .lower, nl ax⟩, dx ax, cl ax)]

open PdeVerif.BC in
/-- the condition of a conserving axis: periodic, or zero flux (`{"derivative": 0}`) for a scalar field,
or vanishing normal component (`{"normal_value": 0}`) for a vector field -/
def consCond (vector per : Bool) : Cond K :=
  if per then .periodic false
  else if vector then .dirichlet (fun _ => ((0:Nat):K)) else .neumann (fun _ => ((0:Nat):K))

open PdeVerif.BC in
/-- conserving conditions on all faces of a grid with the given shape -/
def consFaces (shape : List Nat) (vector : Bool) (dxs : List K) (pers : List Bool) : List (Face × K × Cond K) :=
  gridFaces shape (if vector then 1 else 0) (fun ax => dxs.getD ax ((1:Nat):K))
    (fun ax => consCond vector (pers.getD ax false)) (fun ax => consCond vector (pers.getD ax false))
    (fun ax => vector && !pers.getD ax false) (fun ax => vector && !pers.getD ax false)

open PdeVerif.BC in
/-- faces of a radially symmetric grid (`r`, then `z` for the cylinder): conserving conditions everywhere,
except that the inner face (`r` lower) carries an arbitrary condition `cin` (normal-only flag `nin`) -/
def radialFaces (shape : List Nat) (vector : Bool) (dxs : List K) (pers : List Bool) (cin : Cond K) (nin : Bool) :
    List (Face × K × Cond K) :=
  gridFaces shape (if vector then 1 else 0) (fun ax => dxs.getD ax ((1:Nat):K))
    (fun ax => consCond vector (pers.getD ax false))
    (fun ax => if ax = 0 then cin else consCond vector (pers.getD ax false))
    (fun ax => vector && !pers.getD ax false)
    (fun ax => if ax = 0 then nin else vector && !pers.getD ax false)

end
end PdeVerif.Conserve
