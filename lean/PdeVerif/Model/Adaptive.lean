import PdeVerif.Num
import PdeVerif.Model.Controller
/-
Model of a run with an ADAPTIVE stepper (C08, clause "exactly at it for adaptive steppers"):

* `pde/solvers/base.py`  `AdaptiveSolverBase._make_inner_stepper` / `adaptive_stepper` (lines 468-509): the inner
  loop `dt_step = max(min(dt_opt, t_end - t), dt_min)`, a step is accepted iff `error_rel <= 1`, an accepted step
  that was clipped to the remaining interval lands on `t_end` itself (`t = t_end if dt_step == t_end - t else
  t + dt_step`), `dt_opt = adjust_dt(dt_step, error_rel)` only while `t < t_end`, `info["dt"] = dt_opt` on return;
* `pde/solvers/controller.py`  `_run_main_process` (lines 211-232, 262-270): the same loop as for fixed steppers, but
  after every stepper call both tolerances follow the solver's current time step
  (`stepper_atol = 1e-6*dt`, `tracker_atol = 0.5*dt` with `dt = solver.info["dt"]`), the final handle included.

What the error estimator decides is not modelled: each attempt of the inner loop is an oracle entry
`(accepted?, time step proposed by adjust_dt)`; everything the controller and the stepper do WITH those answers
(clipping, landing, tolerances, due tests) is.  Core Lean only, generic in the number type.
-/
namespace PdeVerif.Controller
open PdeVerif PdeVerif.Interrupts

/-- one attempt of the inner loop of `adaptive_stepper`: `error_rel <= 1`, and `adjust_dt(dt_step, error_rel)` -/
structure Attempt (K : Type) where
  accept : Bool
  dtNext : K

/-- state of the main loop with an adaptive stepper: loop state, `solver.info["dt"]`, unused oracle entries -/
structure AState (K S σ : Type) where
  st : LState K S σ
  dt : K
  att : List (Attempt K)

section
variable {K S σ : Type} [Add K] [Sub K] [Mul K] [Div K] [Neg K] [NatCast K] [IntCast K]
variable [LT K] [DecidableLT K] [LE K] [DecidableLE K] [HasFloor K]

/-- `dt_step = max(min(dt_opt, t_end - t), dt_min)` (Python's `min(a, b)` is `b if b < a else a`,
`max(a, b)` is `b if b > a else a`) -/
def dtStep (dtMin dtOpt rem : K) : K :=
  let m := if rem < dtOpt then rem else dtOpt
  if m < dtMin then dtMin else m

/-- `adaptive_stepper(state, t, t_end)`: consumes oracle entries; answer = (unused entries, returned time,
`info["dt"]`, number of accepted steps); `none` = oracle exhausted.  `dt_step == t_end - t` is written with the
order (`K` need not have decidable equality; for IEEE doubles without NaN it is `==`). -/
def adaptiveStepper (dtMin tEnd : K) : List (Attempt K) → K → K → Nat → Option (List (Attempt K) × K × K × Nat)
  | [], _, _, _ => none
  | a :: rest, t, dtOpt, steps =>
    let rem := tEnd - t
    let d := dtStep dtMin dtOpt rem
    let t' := if a.accept then (if d < rem ∨ rem < d then t + d else tEnd) else t
    let steps' := if a.accept then steps + 1 else steps
    if t' < tEnd then adaptiveStepper dtMin tEnd rest t' a.dtNext steps'
    else some (rest, t', dtOpt, steps')

/-- one pass through `while t < t_end - stepper_atol` with the tolerances of the current `dt`;
`flow u t s` = the state after integrating from `t` to `s` -/
def iterOnceAdaptive (c : Cfg K S σ) (dtMin : K) (flow : S → K → K → S) (a : AState K S σ) :
    AState K S σ × Option Exit :=
  if a.st.t < c.tEnd - c.eps * a.dt then
    let h := handleAll c.nxt (half * a.dt) a.st.t a.st.u 0 a.st.trs
    match h.2.2 with
    | some r => ({ a with st := { a.st with trs := h.1, trace := a.st.trace ++ h.2.1 } }, some (.stopped r))
    | none =>
      let s := clip (nextAction h.1) c.tEnd
      match adaptiveStepper dtMin s a.att a.st.t a.dt 0 with
      | none => ({ a with st := { a.st with trs := h.1, trace := a.st.trace ++ h.2.1 } }, some .fuel)
      | some r =>
        ({ st := { t := r.2.1, u := flow a.st.u a.st.t r.2.1, steps := a.st.steps + r.2.2.2, trs := h.1,
                   trace := a.st.trace ++ h.2.1, iters := a.st.iters + 1 },
           dt := r.2.2.1, att := r.1 }, none)
  else (a, some .final)

def loopAdaptive (c : Cfg K S σ) (dtMin : K) (flow : S → K → K → S) :
    Nat → AState K S σ → AState K S σ × Exit
  | 0, a => (a, .fuel)
  | fuel + 1, a =>
    match iterOnceAdaptive c dtMin flow a with
    | (a', none) => loopAdaptive c dtMin flow fuel a'
    | (a', some e) => (a', e)

/-- the final handle uses `stepper_atol = 1e-6 * dt` of the LAST time step -/
def finalHandleAdaptive (c : Cfg K S σ) (p : AState K S σ × Exit) : AState K S σ × Exit :=
  let q := finalHandle { c with dt := p.1.dt } (p.1.st, p.2)
  ({ p.1 with st := q.1 }, q.2)

/-- `Controller.run` with an adaptive stepper; `c.dt` is the initial time step (`solve(dt=...)`);
the second component is the last `solver.info["dt"]` -/
def runAdaptiveFuel (c : Cfg K S σ) (dtMin : K) (flow : S → K → K → S) (att : List (Attempt K)) (u0 : S)
    (trs : List (Tracker K S σ)) (fuel : Nat) : Result K S σ × K :=
  let p := finalHandleAdaptive c (loopAdaptive c dtMin flow fuel
    { st := { t := c.tStart, u := u0, steps := 0, trs := trs, trace := [], iters := 0 }, dt := c.dt, att := att })
  ({ tFinal := p.1.st.t, state := p.1.st.u, initial := u0, steps := p.1.st.steps,
     trackers := finalizeAll p.1.st.trs, trace := p.1.st.trace, exit := p.2, iters := p.1.st.iters }, p.1.dt)

def runAdaptiveSpec (dt tStart tEnd eps dtMin : K) (flow : S → K → K → S) (att : List (Attempt K)) (u0 : S)
    (specs : List (TrackerSpec K S)) (fuel : Nat) : Result K S (Sched K) × K :=
  runAdaptiveFuel { dt := dt, tStart := tStart, tEnd := tEnd, eps := eps, step := fun u _ => u,
                    nxt := Sched.next } dtMin flow att u0 (specs.map (fun s => s.init tStart)) fuel

end
end PdeVerif.Controller
