import PdeVerif.Model.BC
/-
Model of the **compiled** ghost-cell setter (`pde/backends/numba/backend.py: _make_local_ghost_cell_setter`,
`_make_axis_ghost_cell_setter`, `make_ghost_cell_setter` with its recursive `chain`; virtual-point evaluators of
`pde/backends/numba/_boundaries.py`), structured as the code is:

* a *sequential loop* over the points of the face, in row-major order of the other axes; every pass evaluates the virtual
  point from the **current** array (`vp_value(data_valid, idx)`, `data_valid` is a view of `data_full`) for all tensor
  components at once and then assigns `data_full[..., vp_idx, j + 1] = val` (`data_full[..., axis, vp_idx, j + 1]` for
  `normal` conditions);
* per axis: upper side, then lower side;
* all axes: `chain(fs, inner)` - the recursion with an accumulator that wraps `inner; first`.

The interpreted setter (`pde/grids/boundaries/local.py: set_ghost_cells`, one vectorised numpy assignment per face whose
right-hand side is evaluated before anything is stored; `BoundaryPair.set_ghost_cells`; `BoundariesList.set_ghost_cells`,
a plain loop) is `BC.setGhost` / `BC.setGhostAll`.  The two are different definitions; `Props/C03b.lean` proves them equal.
Core Lean only.
-/
namespace PdeVerif.BC
open PdeVerif

section
variable {K : Type} [Add K] [Sub K] [Mul K] [Div K] [Neg K] [NatCast K] [IntCast K]

/-- store one element -/
def updAt (a : List Int → K) (i : List Int) (v : K) : List Int → K := fun j => if j = i then v else a j

/-- one pass of the loop body: the values of all components `grp` of one face point are computed from the current array,
then stored one after the other -/
def setPoint (f : Face) (dx : K) (c : Cond K) (a : List Int → K) (grp : List (List Int)) : List Int → K :=
  (grp.map (fun p => (p, ghostValue f dx c a p))).foldl (fun acc w => updAt acc w.1 w.2) a

/-- the loop over the face points -/
def setGhostLoop (f : Face) (dx : K) (c : Cond K) (pts : List (List (List Int))) (a : List Int → K) : List Int → K :=
  pts.foldl (fun acc g => setPoint f dx c acc g) a

/-- row-major product of coordinate lists (nested `for` loops, first list = outermost loop) -/
def prodLists : List (List Int) → List (List Int)
  | [] => [[]]
  | l :: ls => l.flatMap (fun x => (prodLists ls).map (fun t => x :: t))

/-- full-array coordinates visited along grid axis `j`: the ghost coordinate `vp_idx` on the own axis,
`j + 1` for `j in range(num_j)` on the others -/
def Face.axisCoords (f : Face) (j : Nat) : List Int :=
  if j = f.axis then [ghostIdx f.N f.side] else (List.range (f.shape.getD j 0)).map (fun (k : Nat) => (k:Int) + 1)

/-- spatial full-array positions of the face points in loop order -/
def Face.spatialPts (f : Face) : List (List Int) :=
  prodLists ((List.range f.shape.length).map f.axisCoords)

/-- the component indices addressed by `...` (followed by `axis` for `normal` conditions) of a field whose tensor indices
run over `dim` values -/
def Face.comps (f : Face) (dim : Nat) : List (List Int) :=
  let r : List Int := (List.range dim).map (fun (k : Nat) => (k:Int))
  if f.normal then (prodLists (List.replicate (f.rank - 1) r)).map (fun t => t ++ [(f.axis : Int)])
  else prodLists (List.replicate f.rank r)

/-- the padded indices written in each pass of the loop, in loop order -/
def Face.points (f : Face) (dim : Nat) : List (List (List Int)) :=
  f.spatialPts.map (fun sp => (f.comps dim).map (fun t => t ++ sp))

abbrev Setter (K : Type) := (List Int → K) → (List Int → K)

/-- `_make_local_ghost_cell_setter` -/
def compiledLocal (dim : Nat) (fc : Face × K × Cond K) : Setter K :=
  setGhostLoop fc.1 fc.2.1 fc.2.2 (fc.1.points dim)

/-- `_make_axis_ghost_cell_setter`: `ghost_cell_setter_high` then `ghost_cell_setter_low` -/
def compiledAxis (dim : Nat) (lo hi : Face × K × Cond K) : Setter K :=
  fun a => compiledLocal dim lo (compiledLocal dim hi a)

/-- `chain(fs, inner)` of `make_ghost_cell_setter` (`fs[0]` of an empty sequence raises; grids have at least one axis);
generic in the state the setters act on -/
def chain {σ : Type} : List (σ → σ) → Option (σ → σ) → σ → σ
  | [], inner => inner.getD id
  | first :: rest, inner =>
    let wrap : σ → σ := match inner with
      | none => first
      | some g => fun a => first (g a)
    match rest with
    | [] => wrap
    | _ :: _ => chain rest (some wrap)

/-- `make_ghost_cell_setter(BoundariesList)`: `axes` = (lower, upper) face of every axis in order -/
def compiledSetter (dim : Nat) (axes : List ((Face × K × Cond K) × (Face × K × Cond K))) : Setter K :=
  chain (axes.map (fun p => compiledAxis dim p.1 p.2)) none

/-- the faces in the order in which `BoundariesList.set_ghost_cells` (interpreted) processes them -/
def interpretedOrder (axes : List ((Face × K × Cond K) × (Face × K × Cond K))) : List (Face × K × Cond K) :=
  axes.flatMap (fun p => [p.2, p.1])

/-! ### the same setter on an explicit store log

The driver evaluates the compiled setter in this form: the live array is the initial array `a` plus the list of stores
executed so far (newest first); a read looks the element up in the log first.  `Props/C03b.lean` proves
`readLog (compiledSetterLog dim axes a) a = compiledSetter dim axes a`. -/

/-- read an element of the live array = initial array overlaid with the executed stores -/
def readLog (log : List (List Int × K)) (a : List Int → K) (idx : List Int) : K :=
  match log.find? (fun w => w.1 = idx) with
  | some w => w.2
  | none => a idx

/-- one pass of the loop body on the log -/
def setPointLog (f : Face) (dx : K) (c : Cond K) (a : List Int → K) (log : List (List Int × K))
    (grp : List (List Int)) : List (List Int × K) :=
  (grp.map (fun p => (p, ghostValue f dx c (readLog log a) p))).reverse ++ log

def localLog (dim : Nat) (a : List Int → K) (fc : Face × K × Cond K) (log : List (List Int × K)) : List (List Int × K) :=
  (fc.1.points dim).foldl (fun lg g => setPointLog fc.1 fc.2.1 fc.2.2 a lg g) log

def axisLog (dim : Nat) (a : List Int → K) (lo hi : Face × K × Cond K) (log : List (List Int × K)) : List (List Int × K) :=
  localLog dim a lo (localLog dim a hi log)

/-- the stores of `make_ghost_cell_setter(bcs)(data_full)`, newest first -/
def compiledSetterLog (dim : Nat) (axes : List ((Face × K × Cond K) × (Face × K × Cond K))) (a : List Int → K) :
    List (List Int × K) :=
  chain (axes.map (fun p => axisLog dim a p.1 p.2)) none []

end
end PdeVerif.BC
