/-
Model of how boundary-condition *specifications* are resolved to one condition per side
(`BoundariesList.from_data` / `_parse_from_dict` in pde/grids/boundaries/axes.py,
`get_boundary_axis` / `BoundaryPair.from_data` in axis.py, `BCBase.from_data/from_dict/from_str`
in local.py).  Values are opaque ids (`Nat`); what is modelled is *which* specification ends up
on which side, which class it denotes, and which error class is raised.  Core Lean only.
-/
namespace PdeVerif.BCParse

/-- the registered local condition classes -/
inductive Kind
  | user | exprVirtual | exprValue | exprDerivative | exprMixed
  | dirichlet | neumann | mixed | curvature
  | normalDirichlet | normalNeumann | normalMixed | normalCurvature
  deriving DecidableEq, Repr

/-- `registered_boundary_condition_names()` (compared with the real table on every run) -/
def aliasTable : List (String × Kind) := [
  ("user", .user), ("virtual_point", .exprVirtual),
  ("value_expression", .exprValue), ("value_expr", .exprValue),
  ("derivative_expression", .exprDerivative), ("derivative_expr", .exprDerivative),
  ("mixed_expression", .exprMixed), ("mixed_expr", .exprMixed),
  ("robin_expression", .exprMixed), ("robin_expr", .exprMixed),
  ("value", .dirichlet), ("dirichlet", .dirichlet),
  ("derivative", .neumann), ("neumann", .neumann),
  ("mixed", .mixed), ("robin", .mixed),
  ("curvature", .curvature), ("second_derivative", .curvature), ("extrapolate", .curvature),
  ("normal_value", .normalDirichlet), ("normal_dirichlet", .normalDirichlet),
  ("dirichlet_normal", .normalDirichlet),
  ("normal_derivative", .normalNeumann), ("normal_neumann", .normalNeumann),
  ("neumann_normal", .normalNeumann),
  ("normal_mixed", .normalMixed), ("normal_robin", .normalMixed),
  ("normal_curvature", .normalCurvature)]

def kindOf (name : String) : Option Kind := aliasTable.lookup name

/-- one specification as the user writes it for a side, an axis or everything -/
inductive Spec
  | periodic | antiperiodic
  | auto (name : String) (vid : Nat)   -- the string "auto_periodic_<name>"
  | named (name : String) (vid : Nat)  -- "<name>", {"<name>": v}, {"type": "<name>", "value": v}
  deriving DecidableEq, Repr

inductive Err | bcdata | periodicity | key
  deriving DecidableEq, Repr

/-- result for one axis -/
inductive AxisBC
  | periodic | antiperiodic
  | pair (lo hi : Kind × Nat)
  deriving DecidableEq, Repr

/-- `BCBase.from_data` for one side (`periodicAxis` = `grid.periodic[axis]`) -/
def sideBC (periodicAxis : Bool) (s : Option Spec) : Except Err (Kind × Nat) :=
  match s with
  | some (.named n v) =>
    match kindOf n with
    | some k => if periodicAxis then .error .periodicity else .ok (k, v)
    | none => .error .bcdata
  | _ => .error .bcdata   -- None, "periodic"/"anti-periodic"/"auto_periodic_*" are not local names

/-- `BoundaryPair.from_data` for two side specifications -/
def pairOf (periodicAxis : Bool) (lo hi : Option Spec) : Except Err AxisBC :=
  match sideBC periodicAxis lo with
  | .error e => .error e
  | .ok l =>
    match sideBC periodicAxis hi with
    | .error e => .error e
    | .ok h => .ok (.pair l h)

/-- `get_boundary_axis` for a single specification (or two identical ones) -/
def single (periodicAxis : Bool) (s : Option Spec) : Except Err AxisBC :=
  match s with
  | some .periodic => if periodicAxis then .ok .periodic else .error .periodicity
  | some .antiperiodic => if periodicAxis then .ok .antiperiodic else .error .periodicity
  | some (.auto n v) =>
    if periodicAxis then .ok .periodic else pairOf periodicAxis (some (.named n v)) (some (.named n v))
  | s => pairOf periodicAxis s s

/-- `get_boundary_axis(grid, axis, (lo, hi))` -/
def axisBC (periodicAxis : Bool) (lo hi : Option Spec) : Except Err AxisBC :=
  if lo = hi then single periodicAxis lo   -- two identical conditions are treated like one
  else if lo = some .periodic ∨ hi = some .periodic then .error .bcdata
  else pairOf periodicAxis lo hi

/-- names a grid offers: axes, alternative axis names, named boundaries, periodicity -/
structure GridNames where
  axes : List String
  alt : List (String × String)          -- `_axes_alt_repl`: pattern -> axis name
  sides : List (String × Nat × Bool)    -- `boundary_names`: name -> (axis, upper)
  periodic : List Bool

abbrev Data := List (String × Spec)     -- a dict (keys unique)

def pop (d : Data) (k : String) : Option Spec × Data :=
  (d.lookup k, d.filter (fun e => e.1 != k))

/-- "replace synonymous axes names" loop -/
def renameAlt (alt : List (String × String)) (d : Data) : Except Err Data :=
  alt.foldlM (fun d pr =>
    ["", "-", "+"].foldlM (fun d ext =>
      match d.lookup (pr.1 ++ ext) with
      | none => pure d
      | some s =>
        if (d.lookup (pr.2 ++ ext)).isSome then .error .key
        else pure ((pr.2 ++ ext, s) :: d.filter (fun e => e.1 != pr.1 ++ ext))) d) d

/-- the imperative resolution of `_parse_from_dict` for one (axis, side): start from the
wildcard, overwrite by the axis entry, then by the `axis-`/`axis+` entry, then by the named
boundary -/
def resolveSide (g : GridNames) (d : Data) (ax : Nat) (upper : Bool) : Option Spec :=
  let axName := g.axes.getD ax ""
  let s0 := d.lookup "*"
  let s1 := d.lookup axName <|> s0                                           -- overwrite by axis
  let s2 := d.lookup (axName ++ (if upper then "+" else "-")) <|> s1         -- overwrite by side
  let names := g.sides.filter (fun e => e.2.1 == ax && e.2.2 == upper)
  names.foldl (fun acc e => d.lookup e.1 <|> acc) s2                          -- named boundaries

/-- top-level formats of `BoundariesList.from_data` -/
inductive Top
  | all (s : Spec)          -- a string, or a dict that itself is a local condition
  | dict (d : Data)

def parse (g : GridNames) (t : Top) : Except Err (List AxisBC) :=
  match t with
  | .all s => (List.range g.axes.length).mapM (fun ax => axisBC (g.periodic.getD ax false) (some s) (some s))
  | .dict d => do
    let d' ← renameAlt g.alt d
    (List.range g.axes.length).mapM (fun ax =>
      axisBC (g.periodic.getD ax false) (resolveSide g d' ax false) (resolveSide g d' ax true))

end PdeVerif.BCParse
