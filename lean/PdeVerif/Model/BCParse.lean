/-
Model of how boundary-condition *specifications* are resolved to one condition per side
(`BoundariesList.from_data` / `_parse_from_dict` in pde/grids/boundaries/axes.py,
`get_boundary_axis` / `BoundaryPair.from_data` in axis.py, `BCBase.from_data/from_dict/from_str`
in local.py).  Values are opaque ids (`Nat`); what is modelled is *which* specification ends up
on which side, which class it denotes, and which error class is raised - for every accepted
format: one string / condition dictionary for everything, a dictionary keyed by `*`, axis names,
`axis-`/`axis+` and boundary names whose values are one condition, `{"low": .., "high": ..}` or
a two-element sequence, and the legacy top-level `{"low","high"}` and list formats.  Core Lean only.
-/
namespace PdeVerif.BCParse

/-- the registered local condition classes -/
inductive Kind
  | user | exprVirtual | exprValue | exprDerivative | exprMixed
  | dirichlet | neumann | mixed | curvature
  | normalDirichlet | normalNeumann | normalMixed | normalCurvature
  deriving DecidableEq, Repr

/-- `registered_boundary_condition_names()` (compared with the real table on every run) -/
def aliasTable : List (String × Kind) := [
  ("user", .user), ("virtual_point", .exprVirtual),
  ("value_expression", .exprValue), ("value_expr", .exprValue),
  ("derivative_expression", .exprDerivative), ("derivative_expr", .exprDerivative),
  ("mixed_expression", .exprMixed), ("mixed_expr", .exprMixed),
  ("robin_expression", .exprMixed), ("robin_expr", .exprMixed),
  ("value", .dirichlet), ("dirichlet", .dirichlet),
  ("derivative", .neumann), ("neumann", .neumann),
  ("mixed", .mixed), ("robin", .mixed),
  ("curvature", .curvature), ("second_derivative", .curvature), ("extrapolate", .curvature),
  ("normal_value", .normalDirichlet), ("normal_dirichlet", .normalDirichlet),
  ("dirichlet_normal", .normalDirichlet),
  ("normal_derivative", .normalNeumann), ("normal_neumann", .normalNeumann),
  ("neumann_normal", .normalNeumann),
  ("normal_mixed", .normalMixed), ("normal_robin", .normalMixed),
  ("normal_curvature", .normalCurvature)]

def kindOf (name : String) : Option Kind := aliasTable.lookup name

/-- one specification as the user writes it for a side, an axis or everything -/
inductive Spec
  | periodic | antiperiodic
  | auto (name : String) (vid : Nat)   -- the string "auto_periodic_<name>"
  | named (name : String) (vid : Nat)  -- "<name>", {"<name>": v}, {"type": "<name>", "value": v}
  deriving DecidableEq, Repr

inductive Err | bcdata | periodicity | key
  deriving DecidableEq, Repr

/-- result for one axis -/
inductive AxisBC
  | periodic | antiperiodic
  | pair (lo hi : Kind × Nat)
  deriving DecidableEq, Repr

/-- what can be written for an axis (under an axis key, `*`, a side key or a named boundary):
one condition, the dictionary `{"low": .., "high": ..}` (a missing key is `none`; `extra` = the
dictionary has further items), or a list/tuple of conditions -/
inductive Entry
  | one (s : Spec)
  | lowHigh (lo hi : Option Spec) (extra : Bool)
  | seq (l : List Spec)
  deriving DecidableEq, Repr

/-- Python truthiness of an entry (`if bc := data.pop(key, None)`): only the empty list/tuple is
falsy (strings and dictionaries of the modelled formats are never empty) -/
def Entry.truthy : Entry → Bool
  | .seq [] => false
  | _ => true

/-- `BCBase.from_data` for one side (`periodicAxis` = `grid.periodic[axis]`) -/
def sideBC (periodicAxis : Bool) (s : Option Spec) : Except Err (Kind × Nat) :=
  match s with
  | some (.named n v) =>
    match kindOf n with
    | some k => if periodicAxis then .error .periodicity else .ok (k, v)
    | none => .error .bcdata
  | _ => .error .bcdata   -- None, "periodic"/"anti-periodic"/"auto_periodic_*" are not local names

/-- `BoundaryPair.from_data` for two side specifications -/
def pairOf (periodicAxis : Bool) (lo hi : Option Spec) : Except Err AxisBC :=
  match sideBC periodicAxis lo with
  | .error e => .error e
  | .ok l =>
    match sideBC periodicAxis hi with
    | .error e => .error e
    | .ok h => .ok (.pair l h)

/-- `get_boundary_axis` for a single specification -/
def single (periodicAxis : Bool) (s : Option Spec) : Except Err AxisBC :=
  match s with
  | some .periodic => if periodicAxis then .ok .periodic else .error .periodicity
  | some .antiperiodic => if periodicAxis then .ok .antiperiodic else .error .periodicity
  | some (.auto n v) =>
    if periodicAxis then .ok .periodic else pairOf periodicAxis (some (.named n v)) (some (.named n v))
  | s => pairOf periodicAxis s s

/-- `get_boundary_axis(grid, axis, (lo, hi))` for two conditions -/
def axisBC (periodicAxis : Bool) (lo hi : Option Spec) : Except Err AxisBC :=
  if lo = hi then single periodicAxis lo   -- two identical conditions are treated like one
  else if lo = some .periodic ∨ hi = some .periodic then .error .bcdata
  else pairOf periodicAxis lo hi

/-- `BoundaryPair.from_data` for the dictionary `{"low": lo, "high": hi, ...}`: `pop("low")`
(`KeyError` if missing), the lower condition is built, `pop("high")`, the upper condition is built,
then left-over items are an error -/
def lowHighBC (periodicAxis : Bool) (lo hi : Option Spec) (extra : Bool) : Except Err AxisBC :=
  match lo with
  | none => .error .key
  | some l =>
    match sideBC periodicAxis (some l) with
    | .error e => .error e
    | .ok L =>
      match hi with
      | none => .error .key
      | some h =>
        match sideBC periodicAxis (some h) with
        | .error e => .error e
        | .ok H => if extra then .error .bcdata else .ok (.pair L H)

/-- `get_boundary_axis(grid, axis, data)` when `data` is ONE entry (after the reduction of two
identical entries, or an element of the legacy list format): no further reduction takes place,
so `("periodic", "periodic")` written as an entry is the error "only one side ... periodic" -/
def entryBC (periodicAxis : Bool) : Entry → Except Err AxisBC
  | .one s => single periodicAxis (some s)
  | .lowHigh lo hi extra => lowHighBC periodicAxis lo hi extra
  | .seq [a, b] =>
    if a = .periodic ∨ b = .periodic then .error .bcdata else pairOf periodicAxis (some a) (some b)
  | .seq _ => .error .bcdata

/-- the condition an entry denotes when it stands for ONE side (`BCBase.from_data`): anything but
a single condition is `BCDataError` there -/
def Entry.asSide : Option Entry → Option Spec
  | some (.one s) => some s
  | _ => none

/-- is the side entry the string "periodic"? (`data[0] == "periodic" or data[1] == "periodic"`) -/
def Entry.isPeriodic : Option Entry → Bool
  | some (.one .periodic) => true
  | _ => false

/-- `get_boundary_axis(grid, axis, (lo, hi))` for the two resolved side entries -/
def axisOfSides (periodicAxis : Bool) (lo hi : Option Entry) : Except Err AxisBC :=
  if lo = hi then
    match lo with
    | none => .error .bcdata           -- nothing specified at all
    | some e => entryBC periodicAxis e -- two identical entries are treated like one
  else if Entry.isPeriodic lo ∨ Entry.isPeriodic hi then .error .bcdata
  else pairOf periodicAxis (Entry.asSide lo) (Entry.asSide hi)

/-- `get_boundary_axis(grid, axis, data)` for an element of the legacy list format: a list of two
identical conditions is first reduced to that condition -/
def axisOfData (periodicAxis : Bool) : Entry → Except Err AxisBC
  | .seq [a, b] => if a = b then single periodicAxis (some a) else entryBC periodicAxis (.seq [a, b])
  | e => entryBC periodicAxis e

/-- names a grid offers: axes, alternative axis names, named boundaries, periodicity -/
structure GridNames where
  axes : List String
  alt : List (String × String)          -- `_axes_alt_repl`: pattern -> axis name
  sides : List (String × Nat × Bool)    -- `boundary_names`: name -> (axis, upper)
  periodic : List Bool

abbrev Data := List (String × Entry)    -- a dict (keys unique)

/-- "replace synonymous axes names" loop -/
def renameAlt (alt : List (String × String)) (d : Data) : Except Err Data :=
  alt.foldlM (fun d pr =>
    ["", "-", "+"].foldlM (fun d ext =>
      match d.lookup (pr.1 ++ ext) with
      | none => pure d
      | some s =>
        if (d.lookup (pr.2 ++ ext)).isSome then .error .key
        else pure ((pr.2 ++ ext, s) :: d.filter (fun e => e.1 != pr.1 ++ ext))) d) d

/-- `if bc := data.pop(key, None)`: a missing key and a falsy value are both skipped -/
def get (d : Data) (k : String) : Option Entry := (d.lookup k).filter Entry.truthy

/-- the imperative resolution of `_parse_from_dict` for one (axis, side): start from the
wildcard (taken as it is), overwrite by the axis entry, then by the `axis-`/`axis+` entry, then
by the named boundary; keys the grid does not know are never looked at -/
def resolveSide (g : GridNames) (d : Data) (ax : Nat) (upper : Bool) : Option Entry :=
  let axName := g.axes.getD ax ""
  let s0 := d.lookup "*"
  let s1 := get d axName <|> s0                                              -- overwrite by axis
  let s2 := get d (axName ++ (if upper then "+" else "-")) <|> s1            -- overwrite by side
  let names := g.sides.filter (fun e => e.2.1 == ax && e.2.2 == upper)
  names.foldl (fun acc e => get d e.1 <|> acc) s2                             -- named boundaries

/-- top-level formats of `BoundariesList.from_data` -/
inductive Top
  | all (s : Spec)          -- a string, or a dict that itself is a local condition
  | lowHigh (lo hi : Option Spec) (extra : Bool)   -- legacy: a dict with "low"/"high" for every axis
  | dict (d : Data)
  | list (l : List Entry)   -- legacy: one entry per axis, or the two sides of a 1-axis grid

def parse (g : GridNames) (t : Top) : Except Err (List AxisBC) :=
  let n := g.axes.length
  match t with
  | .all s => (List.range n).mapM (fun ax => axisBC (g.periodic.getD ax false) (some s) (some s))
  | .lowHigh lo hi extra =>
    (List.range n).mapM (fun ax => lowHighBC (g.periodic.getD ax false) lo hi extra)
  | .dict d => do
    let d' ← renameAlt g.alt d
    (List.range n).mapM (fun ax =>
      axisOfSides (g.periodic.getD ax false) (resolveSide g d' ax false) (resolveSide g d' ax true))
  | .list l =>
    if l.length = n then
      (List.range n).mapM (fun ax =>
        match l[ax]? with
        | some e => axisOfData (g.periodic.getD ax false) e
        | none => .error .bcdata)
    else if n = 1 ∧ l.length = 2 then
      match l with
      | [a, b] => do pure [← axisOfSides (g.periodic.getD 0 false) (some a) (some b)]
      | _ => .error .bcdata
    else .error .bcdata

end PdeVerif.BCParse
