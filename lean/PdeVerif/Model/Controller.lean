import PdeVerif.Num
import PdeVerif.Model.Interrupts
/-
Model of the simulation controller of py-pde for fixed-step solvers:

* `pde/solvers/controller.py`  `Controller._run_main_process` (main loop, tolerances
  `stepper_atol = 1e-6*dt`, `tracker_atol = 0.5*dt`, stop handling, final handle, finalize) and
  `Controller.run` (initial copy);
* `pde/solvers/base.py` / `pde/backends/numba/_solvers.py`  `fixed_stepper`
  (`steps = max(1, round((t_end - t_start)/dt))`, step `i` at time `t_start + i*dt`, returns
  `t + dt`);
* `pde/trackers/base.py`  `TrackerCollection.initialize/handle/finalize` (due test
  `t > t_next - atol`, deferred stop - the *last* raised exception wins -, `interrupt.next(t)`
  for every handled tracker, `min` of the action times);
* trackers: a recording callback tracker, `StorageTracker` (+ `MemoryStorage.append`),
  `DataTracker` (`times.append(t)` *before* the callback is called).

Core Lean only; generic in the number type `K`, in the simulated state `S` (the one-step map
`step : S → K → S` is arbitrary) and in the schedule state `σ` (the interrupt state machine
`nxt : σ → K → σ × Option K` is arbitrary; `none` is `math.inf`).  The concrete schedule type
`Sched K` instantiates `σ` with the interrupt classes of `Model/Interrupts.lean`.
-/
namespace PdeVerif.Controller
open PdeVerif PdeVerif.Interrupts

/-- what a tracker's `handle` raises: `StopIteration(msg)` or `FinishedSimulation(msg)`
(`msg = ""` models a missing / falsy `err.value`) -/
inductive StopReq where
  | stopIteration (msg : String)
  | finished (msg : String)
deriving Repr, DecidableEq, Inhabited

/-- tracker classes that are modelled -/
inductive Kind where
  | callback   -- `CallbackTracker`-like: calls a function, records nothing itself
  | storage    -- `StorageTracker` writing to a `MemoryStorage`
  | data       -- `DataTracker`
deriving Repr, DecidableEq, Inhabited

/-- how `_run_main_process` left the `try` statement -/
inductive Exit where
  | final                        -- `else:` branch, final handle raised nothing
  | stopped (r : StopReq)        -- `except StopIteration` of the main loop
  | finalStopped (r : StopReq)   -- `StopIteration` raised by the final handle
  | fuel                         -- model artefact: loop fuel exhausted (proved unreachable)
deriving Repr, DecidableEq, Inhabited

/-- `_handle_stop_iteration`: the text stored in `info["stop_reason"]` -/
def StopReq.reason : StopReq → String
  | .finished m => if m = "" then "Tracker raised FinishedSimulation" else m
  | .stopIteration m => if m = "" then "Tracker raised StopIteration" else m

/-- `_handle_stop_iteration`: `info["successful"]` -/
def StopReq.successful : StopReq → Bool
  | .finished _ => true
  | .stopIteration _ => false

def Exit.reason : Exit → String
  | .final => "Reached final time"
  | .stopped r => r.reason
  | .finalStopped r => r.reason
  | .fuel => "model fuel exhausted"

def Exit.successful : Exit → Bool
  | .final => true
  | .stopped r => r.successful
  | .finalStopped r => r.successful
  | .fuel => false

/-- one tracker of a `TrackerCollection`: its class, the state of its interrupt object, its
entry of `tracker_action_times` (`none` = `math.inf`), its behaviour (`stopAt n t u`: what the
`n`-th call, at time `t` with state `u`, raises) and what it has recorded -/
structure Tracker (K S σ : Type) where
  kind : Kind
  sched : σ
  due : Option K
  stopAt : Nat → K → S → Option StopReq
  calls : Nat
  times : List K
  frames : List S
  finalized : Nat

/-- a `handle` call seen from outside: `(index of the tracker, t, state)` -/
abbrev Event (K S : Type) := Nat × K × S

/-- parameters of a run -/
structure Cfg (K S σ : Type) where
  dt : K
  tStart : K
  tEnd : K
  /-- the `1e-6` of `stepper_atol = 1e-6 * dt` -/
  eps : K
  /-- one step of the scheme: `single_step(state, t)` -/
  step : S → K → S
  /-- `interrupt.next(t)` -/
  nxt : σ → K → σ × Option K

/-- state of the main loop -/
structure LState (K S σ : Type) where
  t : K
  u : S
  steps : Nat
  trs : List (Tracker K S σ)
  trace : List (Event K S)
  iters : Nat

section
variable {K S σ : Type}

/-- `tracker.handle(state, t)` of the three modelled classes.  `StorageTracker.handle` is
`storage.append(self._transform(field, t), time=t)`: a raising transformation prevents the
append.  `DataTracker.handle` appends the time first and the data only if the callback
returns. -/
def Tracker.handle (tr : Tracker K S σ) (t : K) (u : S) : Tracker K S σ × Option StopReq :=
  let err := tr.stopAt tr.calls t u
  match tr.kind, err with
  | .callback, _ => ({ tr with calls := tr.calls + 1 }, err)
  | .storage, none =>
    ({ tr with calls := tr.calls + 1, times := tr.times ++ [t], frames := tr.frames ++ [u] }, none)
  | .storage, some r => ({ tr with calls := tr.calls + 1 }, some r)
  | .data, none =>
    ({ tr with calls := tr.calls + 1, times := tr.times ++ [t], frames := tr.frames ++ [u] }, none)
  | .data, some r => ({ tr with calls := tr.calls + 1, times := tr.times ++ [t] }, some r)

/-- `TrackerCollection.finalize` -/
def finalizeAll (trs : List (Tracker K S σ)) : List (Tracker K S σ) :=
  trs.map (fun tr => { tr with finalized := tr.finalized + 1 })

/-- the later exception overwrites the saved one (`stop_iteration_err = err`) -/
def lastErr (first later : Option StopReq) : Option StopReq :=
  match later with
  | some r => some r
  | none => first

end

section
variable {K S σ : Type} [Add K] [Sub K] [Mul K] [Div K] [Neg K] [NatCast K] [IntCast K]
variable [LT K] [DecidableLT K] [LE K] [DecidableLE K] [HasFloor K]

/-- the due test of `TrackerCollection.handle`: `t > t_next - atol` (`inf - atol = inf`) -/
def isDue (due : Option K) (atol t : K) : Bool :=
  match due with
  | none => false
  | some tn => decide (tn - atol < t)

/-- `TrackerCollection.handle`, the loop over the trackers (list position `i` onwards):
new trackers, the `handle` calls made, and the saved exception -/
def handleAll (nxt : σ → K → σ × Option K) (atol t : K) (u : S) :
    Nat → List (Tracker K S σ) → List (Tracker K S σ) × List (Event K S) × Option StopReq
  | _, [] => ([], [], none)
  | i, tr :: rest =>
    if isDue tr.due atol t then
      let h := tr.handle t u
      let n := nxt tr.sched t
      let r := handleAll nxt atol t u (i + 1) rest
      ({ h.1 with sched := n.1, due := n.2 } :: r.1, (i, t, u) :: r.2.1, lastErr h.2 r.2.2)
    else
      let r := handleAll nxt atol t u (i + 1) rest
      (tr :: r.1, r.2.1, r.2.2)

/-- `min` of two action times, `none` = `inf` -/
def optMin : Option K → Option K → Option K
  | none, b => b
  | some a, none => some a
  | some a, some b => some (if b < a then b else a)

/-- `min(self.tracker_action_times)` (`inf` for an empty collection) -/
def nextAction : List (Tracker K S σ) → Option K
  | [] => none
  | tr :: rest => optMin tr.due (nextAction rest)

/-- `min(t_next_action, t_end)` -/
def clip (a : Option K) (tEnd : K) : K :=
  match a with
  | none => tEnd
  | some x => if tEnd < x then tEnd else x

/-- `steps = max(1, round((t_end - t_start) / dt))` of the fixed stepper -/
def nsteps (t s dt : K) : Nat := (max 1 (roundHE ((s - t) / dt))).toNat

/-- the `for i in range(steps)` loop of the fixed stepper: step `i` is taken at `t_start + i*dt` -/
def stepN (step : S → K → S) (dt tS : K) : Nat → Nat → S → S
  | 0, _, u => u
  | n + 1, i, u => stepN step dt tS n (i + 1) (step u (tS + ((i : Nat) : K) * dt))

/-- value returned by the fixed stepper: `t + dt` with `t = t_start + (steps-1)*dt` -/
def stepperTime (tS dt : K) (n : Nat) : K := tS + (((n - 1 : Nat)) : K) * dt + dt

/-- `0.5` -/
def half : K := ((1 : Nat) : K) / ((2 : Nat) : K)

/-- one pass through the body of `while t < t_end - stepper_atol` (or the exit of the loop) -/
def iterOnce (c : Cfg K S σ) (st : LState K S σ) : LState K S σ × Option Exit :=
  if st.t < c.tEnd - c.eps * c.dt then
    let h := handleAll c.nxt (half * c.dt) st.t st.u 0 st.trs
    match h.2.2 with
    | some r => ({ st with trs := h.1, trace := st.trace ++ h.2.1 }, some (.stopped r))
    | none =>
      let s := clip (nextAction h.1) c.tEnd
      let n := nsteps st.t s c.dt
      ({ t := stepperTime st.t c.dt n, u := stepN c.step c.dt st.t n 0 st.u,
         steps := st.steps + n, trs := h.1, trace := st.trace ++ h.2.1,
         iters := st.iters + 1 }, none)
  else (st, some .final)

/-- the main loop -/
def loop (c : Cfg K S σ) : Nat → LState K S σ → LState K S σ × Exit
  | 0, st => (st, .fuel)
  | fuel + 1, st =>
    match iterOnce c st with
    | (st', none) => loop c fuel st'
    | (st', some e) => (st', e)

/-- the `else:` branch of the `try` statement: final handle with `atol = stepper_atol` -/
def finalHandle (c : Cfg K S σ) (p : LState K S σ × Exit) : LState K S σ × Exit :=
  match p.2 with
  | .final =>
    let h := handleAll c.nxt (c.eps * c.dt) p.1.t p.1.u 0 p.1.trs
    ({ p.1 with trs := h.1, trace := p.1.trace ++ h.2.1 },
      match h.2.2 with
      | some r => .finalStopped r
      | none => .final)
  | _ => p

/-- result of `Controller.run` -/
structure Result (K S σ : Type) where
  /-- `info["controller"]["t_final"]` -/
  tFinal : K
  /-- the returned state -/
  state : S
  /-- the caller's `initial_state` object after the run -/
  initial : S
  /-- `info["solver"]["steps"]` -/
  steps : Nat
  trackers : List (Tracker K S σ)
  trace : List (Event K S)
  exit : Exit
  iters : Nat

/-- `Controller.run`: `state = initial_state.copy()`, main loop, final handle, finalize.
The trackers are given after `TrackerCollection.initialize` (field `due`). -/
def runFuel (c : Cfg K S σ) (u0 : S) (trs : List (Tracker K S σ)) (fuel : Nat) : Result K S σ :=
  let work := u0   -- the copy: every write below goes to `work`
  let p := finalHandle c (loop c fuel
    { t := c.tStart, u := work, steps := 0, trs := trs, trace := [], iters := 0 })
  { tFinal := p.1.t, state := p.1.u, initial := u0, steps := p.1.steps,
    trackers := finalizeAll p.1.trs, trace := p.1.trace, exit := p.2, iters := p.1.iters }

/-- enough fuel for every run (theorem `run_terminates`) -/
def defaultFuel (c : Cfg K S σ) : Nat := (ceilI ((c.tEnd - c.tStart) / c.dt)).toNat + 2

def run (c : Cfg K S σ) (u0 : S) (trs : List (Tracker K S σ)) : Result K S σ :=
  runFuel c u0 trs (defaultFuel c)

/-! ### the concrete interrupt classes as schedule state -/

/-- constructor arguments of the interrupt classes (`oracle`: an arbitrary list of answers,
consumed one per call, `inf` afterwards) -/
inductive SchedSpec (K : Type) where
  | const (D : K) (tStart : Option K)
  | log (dtInitial f : K) (tStart : Option K)
  | fixed (l : List K)
  | geom (scale f : K) (fuel : Nat)
  | oracle (answers : List (Option K))

/-- state of an initialised interrupt object -/
inductive Sched (K : Type) where
  | const (D tn : K)
  | log (f d tn : K)
  | fixed (l : List K) (idx : Nat)
  | geom (scale f : K) (fuel : Nat) (last : Option (K × Nat))
  | oracle (answers : List (Option K))
  | broken   -- geometric search ran out of fuel (reported as an error by the driver)

/-- `interrupt.next(t)` -/
def Sched.next : Sched K → K → Sched K × Option K
  | .const D tn, t => let a := constNext tn D t; (.const D a, some a)
  | .log f d tn, t => let r := logNext f (d, tn) t; (.log f r.1 r.2, some r.2)
  | .fixed l idx, t => let r := fixedNext l idx t; (.fixed l r.1, r.2)
  | .geom scale f fuel last, t =>
    match geomNext scale f last t fuel with
    | none => (.broken, none)
    | some r => (.geom scale f fuel (some r), some r.1)
  | .oracle [], _ => (.oracle [], none)
  | .oracle (a :: as), _ => (.oracle as, a)
  | .broken, _ => (.broken, none)

/-- `interrupt.initialize(t)` -/
def SchedSpec.init : SchedSpec K → K → Sched K × Option K
  | .const D ts, t => let tn := constInit ts t; (.const D tn, some tn)
  | .log d0 f ts, t => let tn := constInit ts t; (.log f (d0 / f) tn, some tn)
  | .fixed l, t => Sched.next (.fixed l 0) t
  | .geom scale f fuel, t => Sched.next (.geom scale f fuel none) t
  | .oracle l, t => Sched.next (.oracle l) t

/-- a tracker before `initialize` -/
structure TrackerSpec (K S : Type) where
  kind : Kind
  sched : SchedSpec K
  stopAt : Nat → K → S → Option StopReq

/-- `TrackerBase.initialize`: `interrupt.initialize(info["controller"]["t_start"])` -/
def TrackerSpec.init (ts : TrackerSpec K S) (tStart : K) : Tracker K S (Sched K) :=
  let i := ts.sched.init tStart
  { kind := ts.kind, sched := i.1, due := i.2, stopAt := ts.stopAt, calls := 0, times := [],
    frames := [], finalized := 0 }

/-- `Controller.run` with the concrete interrupt classes -/
def runSpec (dt tStart tEnd eps : K) (step : S → K → S) (u0 : S) (specs : List (TrackerSpec K S)) :
    Result K S (Sched K) :=
  run { dt := dt, tStart := tStart, tEnd := tEnd, eps := eps, step := step, nxt := Sched.next }
    u0 (specs.map (fun s => s.init tStart))

/-! ### steppers that reach their target exactly

`ScipySolver.make_stepper` (and the adaptive steppers, which shorten their last step) return
`t_end` of the call itself.  The controller loop is the same; with a time step `dt` known to the
controller (`ScipySolver(dt=...)`: `info["dt"]` stays `dt`) the tolerances are the same
`1e-6*dt` and `0.5*dt`.  `flow u t s` is the state after integrating from `t` to `s`. -/

def iterOnceExact (c : Cfg K S σ) (flow : S → K → K → S) (st : LState K S σ) :
    LState K S σ × Option Exit :=
  if st.t < c.tEnd - c.eps * c.dt then
    let h := handleAll c.nxt (half * c.dt) st.t st.u 0 st.trs
    match h.2.2 with
    | some r => ({ st with trs := h.1, trace := st.trace ++ h.2.1 }, some (.stopped r))
    | none =>
      let s := clip (nextAction h.1) c.tEnd
      ({ t := s, u := flow st.u st.t s, steps := st.steps + 1, trs := h.1,
         trace := st.trace ++ h.2.1, iters := st.iters + 1 }, none)
  else (st, some .final)

def loopExact (c : Cfg K S σ) (flow : S → K → K → S) : Nat → LState K S σ → LState K S σ × Exit
  | 0, st => (st, .fuel)
  | fuel + 1, st =>
    match iterOnceExact c flow st with
    | (st', none) => loopExact c flow fuel st'
    | (st', some e) => (st', e)

/-- `Controller.run` with a stepper that reaches its target exactly (`steps` counts stepper calls) -/
def runExactFuel (c : Cfg K S σ) (flow : S → K → K → S) (u0 : S) (trs : List (Tracker K S σ))
    (fuel : Nat) : Result K S σ :=
  let p := finalHandle c (loopExact c flow fuel
    { t := c.tStart, u := u0, steps := 0, trs := trs, trace := [], iters := 0 })
  { tFinal := p.1.t, state := p.1.u, initial := u0, steps := p.1.steps,
    trackers := finalizeAll p.1.trs, trace := p.1.trace, exit := p.2, iters := p.1.iters }

def runExactSpec (dt tStart tEnd eps : K) (flow : S → K → K → S) (u0 : S)
    (specs : List (TrackerSpec K S)) (fuel : Nat) : Result K S (Sched K) :=
  runExactFuel { dt := dt, tStart := tStart, tEnd := tEnd, eps := eps, step := fun u _ => u,
                 nxt := Sched.next } flow u0 (specs.map (fun s => s.init tStart)) fuel

end
end PdeVerif.Controller
