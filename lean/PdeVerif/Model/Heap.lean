import PdeVerif.Num
/-
Heap model of how py-pde field objects share memory (`pde/fields/base.py`,
`datafield_base.py`, `collection.py`, `scalar.py`, `vectorial.py`, `tensorial.py`; storage
frames of `pde/storage/base.py`/`memory.py`).  Core Lean only; generic in the value type.

* `Store`  : numpy allocations.  Buffer ids are allocation numbers (`next` = allocation
             counter); a buffer is a flat list of cells, `none` = never written (`np.empty`).
* `View`   : what an ndarray is for this purpose: `(buffer id, offset, length)` - every array
             the anchored code hands out is a C-contiguous block of whole components.
* `Obj`    : a Python object (`ScalarField`, `VectorField`, `Tensor2Field`, `FieldCollection`, or
             a raw ndarray such as a stored frame) = a *mutable* reference to a view
             (`_data_full`), plus class, grid, number of components and, for collections, the
             list of member objects.  Object ids are creation numbers.
* `Op`/`step` : the operations of the anchored code, branch by branch.
Value lists travelling with operations are always *view shaped* (one entry per cell of the
padded array, entries at positions the operation does not write are ignored).
-/
namespace PdeVerif.Heap

/-! ### dtypes (only what decides casting errors and result dtypes) -/

inductive DType | i64 | f32 | f64 | c64 | c128
deriving DecidableEq, Repr, Inhabited

namespace DType
def isComplex : DType → Bool
  | c64 | c128 => true
  | _ => false
/-- numpy kind order of `same_kind` casting: int < float < complex -/
def kind : DType → Nat
  | i64 => 0
  | f32 | f64 => 1
  | c64 | c128 => 2
def single : DType → Bool
  | f32 | c64 => true
  | _ => false
/-- `tools.misc.get_common_dtype`: cdouble if complex, otherwise double -/
def common (d : DType) : DType := if d.isComplex then c128 else f64
/-- `np.result_type` of two arrays -/
def result (a b : DType) : DType :=
  if a = i64 ∧ b = i64 then i64
  else
    let wide := !(a.single && b.single) || a = i64 || b = i64
    if a.isComplex || b.isComplex then (if wide then c128 else c64)
    else (if wide then f64 else f32)
/-- `np.result_type(array, python scalar)` (weak promotion); `k` = 0 int, 1 float, 2 complex -/
def resultScalar (a : DType) (k : Nat) : DType :=
  if k ≤ a.kind then a
  else if k = 1 then f64
  else if a = f32 then c64 else c128
/-- `np.can_cast(a, b, casting="safe")` -/
def safeCast (a b : DType) : Bool :=
  a == b ||
  match a, b with
  | i64, f64 | i64, c128 => true
  | f32, f64 | f32, c64 | f32, c128 => true
  | f64, c128 => true
  | c64, c128 => true
  | _, _ => false
end DType

/-- what numpy stores when a value is converted to a dtype (`ndarray.astype`, `np.array(.., dtype=..)`):
rounding to single precision for `f32`/`c64`, the real part for real dtypes.  The model only says
*where* conversions happen (`copy(dtype=..)`, the array of a collection); the function itself is a
parameter (exact complex rationals in the driver, arbitrary in the theorems). -/
class DCast (K : Type) where
  dcast : DType → K → K

/-- conversion to `dt` if a dtype is given (`dtype=None`: the array is copied as it is) -/
def castCells {K : Type} [DCast K] (dt : Option DType) (cells : List (Option K)) : List (Option K) :=
  match dt with
  | none => cells
  | some d => cells.map (fun x => x.map (DCast.dcast d))

theorem length_castCells {K : Type} [DCast K] (dt : Option DType) (cells : List (Option K)) :
    (castCells dt cells).length = cells.length := by
  unfold castCells; split <;> simp

/-! ### store -/

structure Buf (K : Type) where
  cells : List (Option K)
  dt : DType

structure Store (K : Type) where
  bufs : List (Buf K) := []

structure View where
  buf : Nat
  off : Nat
  len : Nat
deriving DecidableEq, Repr, Inhabited

/-- cell `i` of buffer `b` belongs to the view -/
def View.Mem (v : View) (b i : Nat) : Prop := b = v.buf ∧ v.off ≤ i ∧ i < v.off + v.len

/-- two views share at least one cell (`np.shares_memory`) -/
def View.overlaps (v w : View) : Bool :=
  v.buf == w.buf && decide (v.off < w.off + w.len) && decide (w.off < v.off + v.len)
    && decide (0 < v.len) && decide (0 < w.len)

namespace Store
variable {K : Type}

/-- allocation counter: the id the next allocation gets -/
def next (s : Store K) : Nat := s.bufs.length

def size (s : Store K) (b : Nat) : Nat :=
  match s.bufs[b]? with
  | some B => B.cells.length
  | none => 0

def dtOf (s : Store K) (b : Nat) : DType :=
  match s.bufs[b]? with
  | some B => B.dt
  | none => .f64

/-- content of cell `i` of buffer `b` (`none`: never written, or no such cell) -/
def read (s : Store K) (b i : Nat) : Option K :=
  match s.bufs[b]? with
  | some B => (B.cells[i]?).join
  | none => none

/-- a new buffer; its id is `s.next` -/
def alloc (s : Store K) (cells : List (Option K)) (dt : DType) : Store K :=
  ⟨s.bufs ++ [⟨cells, dt⟩]⟩

/-- rewrite buffer `b` cell by cell -/
def update (s : Store K) (b : Nat) (f : Nat → Option K → Option K) : Store K :=
  ⟨s.bufs.modify b (fun B => { B with cells := B.cells.mapIdx f })⟩

/-- all cells seen through a view, in order -/
def readView (s : Store K) (v : View) : List (Option K) :=
  match s.bufs[v.buf]? with
  | some B => (B.cells.drop v.off).take v.len
  | none => []

end Store

/-! ### objects -/

inductive Cls | scalar | vector | tensor | coll | raw
deriving DecidableEq, Repr, Inhabited

/-- number of components of a field class on a grid of dimension `dim` -/
def Cls.ncomp (c : Cls) (dim : Nat) : Nat :=
  match c with
  | .scalar => 1
  | .vector => dim
  | .tensor => dim * dim
  | _ => 0

/-- a grid as far as memory is concerned: which cells of the flattened padded array are valid
(`grid._idx_valid`), and the space dimension -/
structure Grid where
  mask : List Bool
  dim : Nat
deriving Repr, Inhabited

structure Obj where
  cls : Cls
  grid : Nat
  ncomp : Nat
  view : View
  members : List Nat := []
deriving Repr, Inhabited

structure State (K : Type) where
  store : Store K := {}
  objs : List Obj := []
  /-- per object: the array its `_data_valid` (what the property `data` returns) was carved from.
  The code keeps it in a separate attribute: the setter of `_data_full` re-creates it
  (base.py:175-176) and `__setstate__` restores it (base.py:95-100).  "`data` is a live view of
  the padded array" is the statement `dviews[i] = objs[i].view` (`DataLive`). -/
  dviews : List View := []

/-- position `p` of an object's padded array is a valid cell (raw arrays have no ghost cells) -/
def validSel (G : List Grid) (o : Obj) (p : Nat) : Bool :=
  match o.cls with
  | .raw => true
  | _ =>
    match G[o.grid]? with
    | some g => (g.mask[p % g.mask.length]?).getD false
    | none => false

/-- an object's valid cells are a subset of the cells of its view: `data` is a view of
`_data_full` (base.py:163) -/
def Obj.validCell (G : List Grid) (o : Obj) (b i : Nat) : Prop :=
  o.view.Mem b i ∧ validSel G o (i - o.view.off) = true

namespace State
variable {K : Type}

/-! four primitive state changes; every operation is a composition of these -/

/-- a new Python object looking at existing memory (`cls(grid, data=arr, with_ghost_cells=True)`:
`self._data_full = data`, whose setter also sets `_data_valid`) -/
def pushObj (s : State K) (o : Obj) : State K :=
  { s with objs := s.objs ++ [o], dviews := s.dviews ++ [o.view] }

/-- a new array together with a new Python object owning it; object id = `s.objs.length` -/
def allocObj (s : State K) (cells : List (Option K)) (dt : DType) (o : Obj) : State K :=
  { store := s.store.alloc cells dt
    objs := s.objs ++ [{ o with view := ⟨s.store.next, 0, cells.length⟩ }]
    dviews := s.dviews ++ [⟨s.store.next, 0, cells.length⟩] }

/-- `field._data_full = <other array>` (base.py:147-176): the object now looks at other memory,
and the setter re-creates `_data_valid` from the new array -/
def relink (s : State K) (m : Nat) (v : View) : State K :=
  { s with objs := s.objs.modify m (fun o => { o with view := v })
           dviews := s.dviews.modify m (fun _ => v) }

/-- write through view `v` at the positions selected by `sel`; `g p old` is the new content -/
def writeSel (s : State K) (v : View) (sel : Nat → Bool) (g : Nat → Option K → Option K) :
    State K :=
  { s with store := s.store.update v.buf (fun i old =>
      if v.off ≤ i ∧ i < v.off + v.len ∧ sel (i - v.off) = true then g (i - v.off) old else old) }

/-- what is read through handle `h` (`h._data_full`, flattened) -/
def denote (s : State K) (h : Nat) : List (Option K) :=
  match s.objs[h]? with
  | some o => s.store.readView o.view
  | none => []

end State

/-! ### operations -/

inductive Err
  | badHandle | badArg | empty | gridMismatch | nested | classMismatch | notScalar | broadcast | cast
deriving DecidableEq, Repr, Inhabited

inductive BinOp | add | sub | rsub | mul | div | rdiv | pow (n : Nat)
deriving DecidableEq, Repr, Inhabited

def BinOp.isDiv : BinOp → Bool
  | .div | .rdiv => true
  | _ => false

/-- `scalar_second` flag of `_binary_operation` -/
def BinOp.scalarSecond : BinOp → Bool
  | .div | .rdiv | .pow _ => true
  | _ => false

inductive Operand (K : Type)
  | obj (h : Nat)
  | num (v : K) (kind : Nat)

inductive Init (K : Type)
  | zeros
  | valid (vals : List K)   -- `cls(grid, data)`: np.empty, then `self.data = data`
  | full (vals : List K)    -- `cls(grid, data, with_ghost_cells=True)` on a private array

inductive Op (K : Type)
  /-- `cls(grid, data, dtype=dt)`; `cplx`: the given data are complex -/
  | mkField (cls : Cls) (grid : Nat) (dt : Option DType) (cplx : Bool) (init : Init K)
  /-- `h.data = vals` -/
  | writeData (h : Nat) (vals : List K)
  /-- `h._data_full[...] = vals` -/
  | writeFull (h : Nat) (vals : List K)
  /-- `h._data_full.flat[p] = v` (marker) -/
  | writeCell (h : Nat) (p : Nat) (v : K)
  /-- `h.set_ghost_cells(bc)`: the boundary-condition setter writes virtual points only; the
  values are an oracle (`none` = left alone) -/
  | setGhosts (h : Nat) (vals : List (Option K))
  /-- `vector[c]` (also: flat component `c` of a tensor) -/
  | component (h : Nat) (c : Nat)
  /-- `tensor[i, j]`: component `tensorSlot dim i j = i*dim + j` (row-major) -/
  | tcomponent (h : Nat) (i j : Nat)
  /-- `FieldCollection(fields, copy_fields=.., dtype=..)` -/
  | mkColl (hs : List Nat) (copyFields : Bool) (dt : Option DType)
  /-- `collection[i:j:k]`; `idx = range(*slice(i,j,k).indices(len(collection)))` -/
  | slice (c : Nat) (idx : List Nat)
  /-- `collection.append(*hs)` -/
  | append (c : Nat) (hs : List Nat)
  /-- `h.copy(dtype=dt)` -/
  | copy (h : Nat) (dt : Option DType)
  /-- `copy.deepcopy(h)` / `pickle.loads(pickle.dumps(h))` (base.py:90-100, collection.py:222-227) -/
  | deepcopy (h : Nat)
  /-- `-h` -/
  | neg (h : Nat)
  /-- `a <op> b` -/
  | binop (op : BinOp) (a : Nat) (b : Operand K)
  /-- `a <op>= b` -/
  | inplace (op : BinOp) (a : Nat) (b : Operand K)
  /-- `storage.append(h)`: `np.array(h.data)` is kept (memory.py:207-218); `into` is the dtype of the
  storage: data that cannot be cast to it (`same_kind`) are rejected (storage/base.py:149-155) -/
  | storeFrame (h : Nat) (into : Option DType)
  /-- `f = template.copy(dtype=..); f.data = frame`: what `storage[i]` returns (`loadDType`) -/
  | loadFrame (template : Nat) (frame : Nat)
  /-- `h.apply_operator(name, bc, out=out)` (datafield_base.py:935-963): the boundary condition
  writes virtual points of the operand (`ghosts`: oracle values, `none` = left alone); the result
  (`vals`: oracle values of the stencil) goes to the valid cells of a new
  `out_cls(grid, "empty", dtype=h.dtype)` or of `out` -/
  | applyOperator (h : Nat) (ghosts : List (Option K)) (outCls : Cls) (out : Option Nat)
      (vals : List K)
  /-- `cls(grid, data=f(h.data))`: `to_scalar`, `real`, `imag`, `conjugate` (base.py:461-471
  `_unary_operation`, scalar/vectorial/tensorial `to_scalar`): a new padded array, valid cells
  only, dtype re-derived from the data -/
  | derive (h : Nat) (cls : Cls) (cplx : Bool) (vals : List K)
  /-- `h.apply(func, out=out)` (base.py:716-722), `tensor.transpose()` (tensorial.py:416,431):
  `out = h.copy()` unless given, then `out.data[...] = vals` -/
  | applyFn (h : Nat) (out : Option Nat) (vals : List K)

section
variable {K : Type} [Add K] [Sub K] [Mul K] [Div K] [Neg K] [NatCast K] [DCast K]

def npow (x : K) : Nat → K
  | 0 => ((1 : Nat) : K)
  | n + 1 => npow x n * x

/-- one cell of a ufunc; an undefined input gives an undefined output -/
def opv (op : BinOp) (x y : Option K) : Option K :=
  match x, y with
  | some x, some y =>
    some (match op with
      | .add => x + y
      | .sub => x - y
      | .rsub => y - x
      | .mul => x * y
      | .div => x / y
      | .rdiv => y / x
      | .pow n => npow x n)
  | _, _ => none

def getObj (s : State K) (h : Nat) : Except Err Obj :=
  match s.objs[h]? with
  | some o => .ok o
  | none => .error .badHandle

def getObjs (s : State K) : List Nat → Except Err (List Obj)
  | [] => .ok []
  | h :: hs =>
    match getObj s h, getObjs s hs with
    | .ok o, .ok os => .ok (o :: os)
    | .error e, _ => .error e
    | _, .error e => .error e

/-- content and dtype of `-f` = `cls(grid, data=np.negative(f.data))`: a new padded array whose
ghost cells are never written; the dtype is re-derived from the data (`number_array`) -/
def mkNeg (G : List Grid) (st : Store K) (o : Obj) : List (Option K) × DType :=
  ((st.readView o.view).mapIdx (fun p x => if validSel G o p then x.map (fun y => -y) else none),
   (st.dtOf o.view.buf).common)

/-- `DataFieldBase.copy(dtype=dt)` = `np.array(self._data_full, dtype=dt, copy=True)`: a new array
with the whole padded data (ghost cells included) converted to `dt`, a new object; id = `s.objs.length` -/
def copyField (s : State K) (o : Obj) (dt : Option DType) : State K :=
  s.allocObj (castCells dt (s.store.readView o.view)) (dt.getD (s.store.dtOf o.view.buf))
    { o with members := [] }

/-- `[make(f) for f in fields]` where `make` builds a new field on a new array from an existing
one (`mk` gives content and dtype of the new array); returns the ids of the new objects -/
def mapEach (mk : Store K → Obj → List (Option K) × DType) (s : State K) :
    List Obj → State K × List Nat
  | [] => (s, [])
  | o :: os =>
    let r := mapEach mk (s.allocObj (mk s.store o).1 (mk s.store o).2 { o with members := [] }) os
    (r.1, s.objs.length :: r.2)

/-- content and dtype of `f.copy()` -/
def mkCopy (st : Store K) (o : Obj) : List (Option K) × DType :=
  (st.readView o.view, st.dtOf o.view.buf)

/-- `[f.copy() for f in fields]` -/
def copyEach (s : State K) (os : List Obj) : State K × List Nat := mapEach mkCopy s os

/-- collection.py:123-134: `field._data_flat = self._data_full[self._slices[i]]` for every member -/
def relinkAll (s : State K) (b : Nat) : List Nat → List Nat → Nat → State K
  | m :: ms, l :: ls, off => relinkAll (s.relink m ⟨b, off, l⟩) b ms ls (off + l)
  | _, _, _ => s

/-- content of the new collection array: gathered from the members and converted to the dtype of
the collection (`number_array(fields_data, dtype=dtype)`, ghost cells included), or the copy of an
existing collection array (deep copy) -/
def collCells (s : State K) (os : List Obj) (src : Option (View × DType)) (dtOut : DType) :
    List (Option K) :=
  match src with
  | none => castCells (some dtOut) (os.flatMap (fun o => s.store.readView o.view))
  | some (v, _) => s.store.readView v

/-- dtype of the new collection array: `dtype=` if given, else `number_array`'s default (cdouble if
any member is complex, otherwise double); kept as it is by a deep copy -/
def collDType (s : State K) (os : List Obj) (src : Option (View × DType)) (dt : Option DType) :
    DType :=
  match src with
  | none => dt.getD
      (if os.any (fun o => (s.store.dtOf o.view.buf).isComplex) then .c128 else .f64)
  | some (_, d) => d

/-- collection.py:101-134 for the final list of member objects `ms`: one new array holding the
flattened data of all members (fields in order, components row-major), the collection object,
every member re-linked to its slice.  Collection id = `s.objs.length`.

`src = none`: the constructor - the data are gathered from the members and the dtype is `dt` or
derived from the members.  `src = some (v, d)`: `FieldCollection.__setstate__` (deep copy, pickle) -
the new array is the copy of the old collection array (view `v`, dtype `d`) and the freshly copied
members are re-linked to its slices (collection.py:222-227). -/
def linkFrom (s : State K) (ms : List Nat) (grid : Nat) (src : Option (View × DType))
    (dt : Option DType) : Except Err (State K) :=
  match getObjs s ms with
  | .error e => .error e
  | .ok os =>
    -- collection.py:79-88 and 105-110: at least one field, one grid, members are data fields
    if os.isEmpty then .error .empty
    else if os.any (fun o => o.grid != grid) then .error .gridMismatch
    else if os.any (fun o => o.cls == .coll || o.cls == .raw) then .error .nested
    else
    let dtOut := collDType s os src dt
    let cells := collCells s os src dtOut
    -- the slices of the members tile the array (always true; keeps the model total)
    if cells.length != (os.map (·.view.len)).sum then .error .badArg else
    let c : Obj := { cls := .coll, grid := grid, ncomp := (os.map (·.ncomp)).sum,
                     view := ⟨0, 0, 0⟩, members := ms }
    .ok (relinkAll (s.allocObj cells dtOut c) s.store.next ms (os.map (·.view.len)) 0)

/-- the constructor proper -/
abbrev linkColl (s : State K) (ms : List Nat) (grid : Nat) (dt : Option DType) :
    Except Err (State K) := linkFrom s ms grid none dt

/-- `FieldCollection.__init__` -/
def mkColl (s : State K) (hs : List Nat) (copyFields : Bool) (dt : Option DType) :
    Except Err (State K) :=
  match hs, getObjs s hs with
  | [], _ => .error .empty
  | _, .error e => .error e
  | _ :: _, .ok os =>
    let g := (os.headD default).grid
    if os.any (fun o => o.cls == .raw) then .error .badArg
    else if os.any (fun o => o.grid != g) then .error .gridMismatch
    else if os.any (fun o => o.cls == .coll) then .error .nested
    else if copyFields || !(decide hs.Nodup) then
      let r := copyEach s os
      linkColl r.1 r.2 g dt
    else linkColl s hs g dt

/-- `FieldCollection.copy` (collection.py:552-580): the members are copied, the constructor is
called with `dtype` or, by default, the dtype of the collection -/
def copyColl (s : State K) (o : Obj) (dt : Option DType) : Except Err (State K) :=
  match getObjs s o.members with
  | .error e => .error e
  | .ok os =>
    let r := copyEach s os
    linkColl r.1 r.2 o.grid (some (dt.getD (s.store.dtOf o.view.buf)))

/-- `h.copy(dtype=dt)` for any field object; the result is the *last* object of the new state -/
def copyAny (s : State K) (o : Obj) (dt : Option DType) : Except Err (State K) :=
  match o.cls with
  | .raw => .error .badArg
  | .coll => copyColl s o dt
  | _ => .ok (copyField s o dt)

/-- `FieldBase.assert_field_compatible` / `FieldCollection.assert_field_compatible` -/
def fieldCompat (a b : Obj) : Except Err Unit :=
  if !(a.cls == b.cls || b.cls == .scalar) then .error .classMismatch
  else if a.grid != b.grid then .error .gridMismatch
  else .ok ()

def membersCompat : List Obj → List Obj → Except Err Unit
  | a :: as, b :: bs =>
    match fieldCompat a b with
    | .error e => .error e
    | .ok _ => membersCompat as bs
  | _, _ => .ok ()

def assertCompat (s : State K) (a b : Obj) : Except Err Unit :=
  match fieldCompat a b with
  | .error e => .error e
  | .ok _ =>
    if a.cls == .coll && b.cls == .coll then
      match getObjs s a.members, getObjs s b.members with
      | .ok as, .ok bs => membersCompat as bs
      | .error e, _ => .error e
      | _, .error e => .error e
    else .ok ()

/-- dtype a ufunc computes in, given the promoted dtype of its inputs -/
def ufuncType (op : BinOp) (t : DType) : DType := if op.isDiv && t == .i64 then .f64 else t

/-- cell `p` of the padded result of `op(a.data, b.data)` with numpy broadcasting of whole
components (`p % len`) -/
def cellOf (vals : List (Option K)) (p : Nat) : Option K := (vals[p % vals.length]?).join

/-- positions of an object's padded array that are valid cells, as a list -/
def selList (G : List Grid) (o : Obj) : List Bool := (List.range o.view.len).map (validSel G o)

/-- keep the entries at selected positions (`arr[mask]`) -/
def compact {α : Type} : List Bool → List α → List α
  | true :: bs, x :: xs => x :: compact bs xs
  | false :: bs, _ :: xs => compact bs xs
  | _, _ => []

/-- put the entries of a compact list back at the selected positions -/
def scatter {α : Type} : List Bool → List α → List (Option α)
  | true :: bs, x :: xs => some x :: scatter bs xs
  | true :: bs, [] => none :: scatter bs []
  | false :: bs, xs => none :: scatter bs xs
  | [], _ => []

def lastId (s : State K) : Nat := s.objs.length - 1

/-- `result = src.copy(dtype=dt)` followed by a ufunc writing the valid cells of `result`
(`out=result.data`); `g s1 r p old` is the new content of position `p`, computed in the state
`s1` after the copy for the result object `r` -/
def copyThenWrite (G : List Grid) (s : State K) (src : Obj) (dt : Option DType)
    (g : State K → Obj → Nat → Option K → Option K) : Except Err (State K) :=
  match copyAny s src dt with
  | .error e => .error e
  | .ok s1 =>
    match getObj s1 (lastId s1) with
    | .error e => .error e
    | .ok r => .ok (s1.writeSel r.view (validSel G r) (g s1 r))

/-- base.py:517-540: the checks of `_binary_operation` with a field as second operand; the answer
is the operand that is copied to hold the result -/
def binopSrc (s : State K) (op : BinOp) (oa ob : Obj) : Except Err Obj :=
  if op.scalarSecond then
    (if ob.cls != .scalar then .error .notScalar
     else if oa.grid != ob.grid then .error .gridMismatch else .ok oa)
  else if oa.cls == .scalar then
    (if oa.grid != ob.grid then .error .gridMismatch else .ok ob)
  else
    match assertCompat s oa ob with
    | .error e => .error e
    | .ok _ => .ok oa

/-- base.py:568-580: the checks of `_binary_operation_inplace` -/
def inplaceChk (s : State K) (op : BinOp) (oa ob : Obj) : Except Err Unit :=
  if op.scalarSecond then
    (if ob.cls != .scalar then .error .notScalar
     else if oa.grid != ob.grid then .error .gridMismatch else .ok ())
  else assertCompat s oa ob

/-- `a <op> b` (base.py:498-550) -/
def binop (G : List Grid) (s : State K) (op : BinOp) (a : Nat) (b : Operand K) :
    Except Err (State K) :=
  match getObj s a with
  | .error e => .error e
  | .ok oa =>
    if oa.cls == .raw then .error .badArg else
    let dta := s.store.dtOf oa.view.buf
    match b with
    | .num v k =>
      let t := dta.resultScalar k
      if t.kind < (ufuncType op t).kind then .error .cast else
      copyThenWrite G s oa (some t) (fun s1 _ p _ =>
        opv op (cellOf (s1.store.readView oa.view) p) (some v))
    | .obj hb =>
      match getObj s hb with
      | .error e => .error e
      | .ok ob =>
        if ob.cls == .raw then .error .badArg else
        let t := dta.result (s.store.dtOf ob.view.buf)
        match binopSrc s op oa ob with
        | .error e => .error e
        | .ok osrc =>
          if t.kind < (ufuncType op t).kind then .error .cast
          else if !((oa.ncomp == osrc.ncomp || oa.ncomp == 1) &&
                    (ob.ncomp == osrc.ncomp || ob.ncomp == 1)) then .error .broadcast
          else
            copyThenWrite G s osrc (some t) (fun s1 _ p _ =>
              opv op (cellOf (s1.store.readView oa.view) p) (cellOf (s1.store.readView ob.view) p))

/-- `a <op>= b` (base.py:552-589): only the valid cells of `a` are written -/
def inplace (G : List Grid) (s : State K) (op : BinOp) (a : Nat) (b : Operand K) :
    Except Err (State K) :=
  match getObj s a with
  | .error e => .error e
  | .ok oa =>
    if oa.cls == .raw then .error .badArg else
    let dta := s.store.dtOf oa.view.buf
    let A := s.store.readView oa.view
    match b with
    | .num v k =>
      if dta.kind < (ufuncType op (dta.resultScalar k)).kind then .error .cast
      else .ok (s.writeSel oa.view (validSel G oa) (fun p _ => opv op (cellOf A p) (some v)))
    | .obj hb =>
      match getObj s hb with
      | .error e => .error e
      | .ok ob =>
        if ob.cls == .raw then .error .badArg else
        match inplaceChk s op oa ob with
        | .error e => .error e
        | .ok _ =>
          if dta.kind < (ufuncType op (dta.result (s.store.dtOf ob.view.buf))).kind then
            .error .cast
          else if !(ob.ncomp == oa.ncomp || ob.ncomp == 1) then .error .broadcast
          else
            let B := s.store.readView ob.view
            .ok (s.writeSel oa.view (validSel G oa)
              (fun p _ => opv op (cellOf A p) (cellOf B p)))

/-- `cls(grid, data, dtype=dt)` (datafield_base.py:52-126) -/
def mkField (G : List Grid) (s : State K) (cls : Cls) (g : Nat) (dt : Option DType) (cplx : Bool)
    (init : Init K) : Except Err (State K) :=
  match G[g]? with
  | none => .error .badArg
  | some gr =>
    if cls == .coll || cls == .raw then .error .badArg else
    let nc := cls.ncomp gr.dim
    let n := nc * gr.mask.length
    let o : Obj := { cls := cls, grid := g, ncomp := nc, view := ⟨0, 0, 0⟩ }
    let dtOut := dt.getD (if cplx then .c128 else .f64)
    match init with
    | .zeros => .ok (s.allocObj (List.replicate n (some ((0 : Nat) : K))) (dt.getD .f64) o)
    | .valid vals =>
      .ok (s.allocObj ((List.range n).map (fun p =>
        if validSel G o p then vals[p]? else none)) dtOut o)
    | .full vals => .ok (s.allocObj ((List.range n).map (fun p => vals[p]?)) dtOut o)

/-- `-h` (base.py:461-471, collection.py:632-643) -/
def negate (G : List Grid) (s : State K) (o : Obj) : Except Err (State K) :=
  if o.cls == .raw then .error .badArg
  else if o.cls == .coll then
    match getObjs s o.members with
    | .error e => .error e
    | .ok os => linkColl (mapEach (mkNeg G) s os).1 (mapEach (mkNeg G) s os).2 o.grid none
  else .ok (s.allocObj (mkNeg G s.store o).1 (mkNeg G s.store o).2 { o with members := [] })

/-- `copy.deepcopy(h)` / unpickling: every array of the object is duplicated (dtype kept); for a
collection the member objects are deep-copied first and then re-linked to the slices of the
copied collection array by `__setstate__` -/
def deepcopy (s : State K) (o : Obj) : Except Err (State K) :=
  if o.cls == .raw then .error .badArg
  else if o.cls == .coll then
    match getObjs s o.members with
    | .error e => .error e
    | .ok os =>
      linkFrom (mapEach mkCopy s os).1 (mapEach mkCopy s os).2 o.grid
        (some (o.view, s.store.dtOf o.view.buf)) none
  else .ok (copyField s o none)

/-- `vector[c]` / `tensor[i, j]`: a new scalar field object looking at block `c` of the padded
array (vectorial.py:165-179, tensorial.py:149-156) -/
def compObj (o : Obj) (c : Nat) : Obj :=
  { cls := .scalar, grid := o.grid, ncomp := 1,
    view := ⟨o.view.buf, o.view.off + c * (o.view.len / o.ncomp), o.view.len / o.ncomp⟩ }

/-- row-major position of component `(i, j)` of a rank-2 tensor field: `self._data_full[i, j]` of a
C-contiguous array of shape `(dim, dim, *grid)` (tensorial.py:149-156) -/
def tensorSlot (dim i j : Nat) : Nat := i * dim + j

/-- the component view on block `c` -/
def componentAt (s : State K) (o : Obj) (c : Nat) : Except Err (State K) :=
  if (o.cls == .vector || o.cls == .tensor) && decide (c < o.ncomp) then
    .ok (s.pushObj (compObj o c))
  else .error .badArg

/-- storage/base.py:286-293 (`_get_field`, since /repo d0418b1): the field returned for a stored frame
is a copy of the template if the template's dtype can hold the frame (`np.can_cast(.., "safe")`),
otherwise a copy converted to `np.result_type(frame, template)` - frames are never narrowed -/
def loadDType (s : State K) (ot fr : Obj) : Option DType :=
  let dtf := s.store.dtOf fr.view.buf
  let dtt := s.store.dtOf ot.view.buf
  if dtf.safeCast dtt then none else some (dtf.result dtt)

/-- storage/base.py:149-155: `not np.can_cast(field.dtype, storage.dtype, casting="same_kind")` -/
def storeRejected (into : Option DType) (d : DType) : Bool :=
  match into with
  | some t => decide (t.kind < d.kind)
  | none => false

/-- one operation; an error leaves the state as it was -/
def step (G : List Grid) (s : State K) (op : Op K) : Except Err (State K) :=
  match op with
  | .mkField cls g dt cplx init => mkField G s cls g dt cplx init
  | .writeData h vals =>
    match getObj s h with
    | .error e => .error e
    | .ok o => .ok (s.writeSel o.view (validSel G o) (fun p old =>
        match vals[p]? with | some x => some x | none => old))
  | .writeFull h vals =>
    match getObj s h with
    | .error e => .error e
    | .ok o => .ok (s.writeSel o.view (fun _ => true) (fun p old =>
        match vals[p]? with | some x => some x | none => old))
  | .writeCell h p v =>
    match getObj s h with
    | .error e => .error e
    | .ok o => .ok (s.writeSel o.view (fun q => q == p) (fun _ _ => some v))
  | .setGhosts h vals =>
    match getObj s h with
    | .error e => .error e
    | .ok o => .ok (s.writeSel o.view (fun p => !validSel G o p) (fun p old =>
        match vals[p]? with | some (some x) => some x | _ => old))
  | .component h c =>
    match getObj s h with
    | .error e => .error e
    | .ok o => componentAt s o c
  | .tcomponent h i j =>
    match getObj s h with
    | .error e => .error e
    | .ok o =>
      match G[o.grid]? with
      | none => .error .badArg
      | some gr =>
        if o.cls == .tensor && decide (i < gr.dim) && decide (j < gr.dim) then
          componentAt s o (tensorSlot gr.dim i j)
        else .error .badArg
  | .mkColl hs cp dt => mkColl s hs cp dt
  | .slice c idx =>
    match getObj s c with
    | .error e => .error e
    | .ok o =>
      if o.cls == .coll then mkColl s (idx.filterMap (fun k => o.members[k]?)) true none
      else .error .badArg
  | .append c hs =>
    match getObj s c, getObjs s hs with
    | .error e, _ => .error e
    | _, .error e => .error e
    | .ok o, .ok os =>
      if o.cls == .coll then
        mkColl s (o.members ++ (hs.zip os).flatMap (fun ho =>
          if ho.2.cls == .coll then ho.2.members else [ho.1])) true none
      else .error .badArg
  | .copy h dt =>
    match getObj s h with
    | .error e => .error e
    | .ok o => copyAny s o dt
  | .deepcopy h =>
    match getObj s h with
    | .error e => .error e
    | .ok o => deepcopy s o
  | .neg h =>
    match getObj s h with
    | .error e => .error e
    | .ok o => negate G s o
  | .binop op a b => binop G s op a b
  | .inplace op a b => inplace G s op a b
  | .storeFrame h into =>
    match getObj s h with
    | .error e => .error e
    | .ok o =>
      if storeRejected into (s.store.dtOf o.view.buf) then .error .cast else
      .ok (s.allocObj (compact (selList G o) (s.store.readView o.view))
        (s.store.dtOf o.view.buf) { o with cls := .raw, members := [] })
  | .loadFrame t f =>
    match getObj s t, getObj s f with
    | .error e, _ => .error e
    | _, .error e => .error e
    | .ok ot, .ok fr =>
      if fr.cls != .raw then .error .badArg else
      copyThenWrite G s ot (loadDType s ot fr) (fun s1 r p old =>
        match (scatter (selList G r) (s1.store.readView fr.view))[p]? with
        | some (some x) => x
        | _ => old)
  | .applyOperator h ghosts outCls out vals =>
    match getObj s h with
    | .error e => .error e
    | .ok o =>
      if o.cls == .raw || o.cls == .coll then .error .badArg else
      -- `self.set_ghost_cells(bc)`: virtual points of the operand
      let s1 := s.writeSel o.view (fun p => !validSel G o p) (fun p old =>
        match ghosts[p]? with | some (some x) => some x | _ => old)
      match out with
      | none => mkField G s1 outCls o.grid (some (s.store.dtOf o.view.buf)) false (.valid vals)
      | some j =>
        match getObj s1 j with
        | .error e => .error e
        | .ok oj =>
          if oj.cls != outCls then .error .classMismatch
          else if oj.grid != o.grid then .error .gridMismatch
          else .ok (s1.writeSel oj.view (validSel G oj) (fun p old =>
            match vals[p]? with | some x => some x | none => old))
  | .derive h cls cplx vals =>
    match getObj s h with
    | .error e => .error e
    | .ok o =>
      if o.cls == .raw || o.cls == .coll then .error .badArg
      else mkField G s cls o.grid none cplx (.valid vals)
  | .applyFn h out vals =>
    match getObj s h with
    | .error e => .error e
    | .ok o =>
      if o.cls == .raw then .error .badArg else
      match out with
      | none => copyThenWrite G s o none (fun _ _ p old =>
          match vals[p]? with | some x => some x | none => old)
      | some j =>
        match getObj s j with
        | .error e => .error e
        | .ok oj =>
          if oj.cls != o.cls then .error .classMismatch
          else if oj.grid != o.grid then .error .gridMismatch
          else .ok (s.writeSel oj.view (validSel G oj) (fun p old =>
            match vals[p]? with | some x => some x | none => old))

/-- a whole history; failing operations are skipped (they leave the state unchanged) -/
def run (G : List Grid) (s : State K) : List (Op K) → State K
  | [] => s
  | op :: ops =>
    match step G s op with
    | .ok s' => run G s' ops
    | .error _ => run G s ops

end

/-- the aliasing relation between two handles (`np.shares_memory` of their `_data_full`) -/
def aliases {K : Type} (s : State K) (h₁ h₂ : Nat) : Bool :=
  match s.objs[h₁]?, s.objs[h₂]? with
  | some a, some b => a.view.overlaps b.view
  | _, _ => false

end PdeVerif.Heap
