/-
Model of the `out=` contract of the operator routes (memory level: buffers that may alias).

* `make_operator(...)(arr, out=None|out)` of every backend (`pde/backends/numpy/backend.py`, `numba/backend.py`; the
  scipy backend inherits the numpy wrapper): `arr_full = np.empty/zeros(...)` is a **fresh buffer**,
  `arr_full[valid] = arr`, `bcs.set_ghost_cells(arr_full)`, `operator_raw(arr_full, out)`, `return out`;
* `DataFieldBase.apply_operator(..., out=field)` (`pde/fields/datafield_base.py`): the boundary conditions are set in
  the field's own padded buffer and the kernel is called as `op(self._data_full, out=out.data)` - `out.data` is the
  valid-cell **view** of `out._data_full`; no copy is made, so for `out is self` the kernel reads the buffer it writes.

A store maps a buffer id and a flat element index to a value.  A kernel is a sequential loop over the output cells; each
iteration computes its value from the *current* content of the source buffer and stores it.  Core Lean only.
-/
namespace PdeVerif.OutAlias

variable {V : Type}

abbrev Store (V : Type) := Nat → Nat → V

/-- store one element of one buffer -/
def updS (s : Store V) (b i : Nat) (v : V) : Store V := fun b' i' => if b' = b ∧ i' = i then v else s b' i'

/-- `operator_raw(src, out)`: for every output cell `c` in loop order `out[view c] = k(src)(c)`; `view` maps an output cell
to its element in the output buffer (identity for a plain array, the offset of the valid-cell view for `field.data`) -/
def runKernel (k : (Nat → V) → Nat → V) (view : Nat → Nat) (src out : Nat) (cells : List Nat) (s : Store V) : Store V :=
  cells.foldl (fun st c => updS st out (view c) (k (st src) c)) s

/-- the wrapper returned by `make_operator`: the padded input is built in the fresh buffer `tmp` (`prep` = copy into the valid
cells + ghost-cell setter), the kernel reads `tmp` and writes `out` (a plain array: identity view) -/
def wrapperRoute (prep : (Nat → V) → (Nat → V)) (k : (Nat → V) → Nat → V) (arr tmp out : Nat) (cells : List Nat)
    (s : Store V) : Store V :=
  runKernel k id tmp out cells (fun b => if b = tmp then prep (s arr) else s b)

/-- `field.apply_operator(..., out=outField)`: ghost cells are set in place in the field's buffer `self` (`setg`), then the
kernel reads `self` and writes the valid-cell view of the buffer `out` -/
def fieldRoute (setg : (Nat → V) → (Nat → V)) (k : (Nat → V) → Nat → V) (view : Nat → Nat) (self out : Nat)
    (cells : List Nat) (s : Store V) : Store V :=
  runKernel k view self out cells (fun b => if b = self then setg (s self) else s b)

/-- the 3-point Laplacian kernel of a 1-d Cartesian grid on a padded line (cell `c` sits at padded position `c + 1`) -/
def lap1 [Add V] [Sub V] [Mul V] (scale : V) (two : V) (src : Nat → V) (c : Nat) : V :=
  (src c - two * src (c + 1) + src (c + 2)) * scale

end PdeVerif.OutAlias
