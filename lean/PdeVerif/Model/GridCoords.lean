import PdeVerif.Model.Grid
/-
Model of the point-level geometry of grids (pde/grids/base.py):
`transform` (cell <-> grid <-> cartesian), `contains_point`, `normalize_point` (periodic `%` and
the `reflect` formula), `_difference_vector` (the list of periodic flags is zipped against the
*Cartesian components* exactly as the loop `for i, per in enumerate(periodic)` does),
`difference_vector` of every grid class, `distance` (squared), the draw of `get_random_point`
and the algebraic part of the coordinate maps of pde/grids/coordinates/{polar,spherical,
cylindrical}.py, where an angle enters as a pair `(c, s) = (cos, sin)`.
Core Lean only; generic in the number type.
-/
namespace PdeVerif.Grids
open PdeVerif

section
variable {K : Type} [Add K] [Sub K] [Mul K] [Div K] [Neg K] [NatCast K] [IntCast K]

/-! ### cell <-> grid coordinates -/

/-- `transform(cell -> grid)` along one axis: `c_min + cells * discretization` -/
def cellToGrid1 (lo d c : K) : K := lo + c * d

/-- `transform(grid -> cell)` along one axis: `(grid_coords - c_min) / discretization` -/
def gridToCell1 (lo d x : K) : K := (x - lo) / d

def Grid.cellToGrid (g : Grid K) (cs : List K) : List K :=
  g.axes.zipWith (fun a c => cellToGrid1 a.lo (g.dxOf a) c) cs

def Grid.gridToCell (g : Grid K) (xs : List K) : List K :=
  g.axes.zipWith (fun a x => gridToCell1 a.lo (g.dxOf a) x) xs

/-! ### coordinate maps (algebraic part) -/

/-- `PolarCoordinates._pos_to_cart`: `(r cos φ, r sin φ)` -/
def polarToCart (r c s : K) : List K := [r * c, r * s]

/-- `CylindricalCoordinates._pos_to_cart`: `(r cos φ, r sin φ, z)` -/
def cylToCart (r c s z : K) : List K := [r * c, r * s, z]

/-- `SphericalCoordinates._pos_to_cart`: `(r sin θ cos φ, r sin θ sin φ, r cos θ)` -/
def sphToCart (r ct st cp sp : K) : List K := [r * st * cp, r * st * sp, r * ct]

/-- squared Euclidean norm of a list of components -/
def normSq : List K → K
  | [] => ((0:Nat) : K)
  | x :: xs => x * x + normSq xs

/-- `grid.point_to_cartesian`: `_coords_full` fills the symmetric (angular) coordinates with the
value 0, i.e. `(cos, sin) = (1, 0)`, then `c.pos_to_cart` -/
def Grid.toCartesian (g : Grid K) (xs : List K) : List K :=
  let one : K := ((1:Nat) : K)
  let zero : K := ((0:Nat) : K)
  match g.cls, xs with
  | .polar, [r] => polarToCart r one zero
  | .spherical, [r] => sphToCart r one zero one zero
  | .cylindrical, [r, z] => cylToCart r one zero z
  | _, xs => xs

/-- the radial coordinate `point_from_cartesian` has to produce, squared (`hypot`/`norm` are
external): `x^2+y^2` (polar, cylindrical), `x^2+y^2+z^2` (spherical) -/
def Grid.radiusSq (g : Grid K) (x : List K) : K :=
  match g.cls with
  | .polar | .cylindrical => normSq (x.take 2)
  | .spherical => normSq (x.take 3)
  | _ => ((0:Nat) : K)

/-- `grid.point_from_cartesian` given the value `r` returned by the external `hypot`/`norm`:
`_coords_symmetric` drops the angles -/
def Grid.fromCartesian (g : Grid K) (r : K) (x : List K) : List K :=
  match g.cls with
  | .polar | .spherical => [r]
  | .cylindrical => [r, (x.drop 2).headD ((0:Nat) : K)]
  | _ => x

/-- `transform(cell -> cartesian)`: cell -> grid -> Cartesian -/
def Grid.cellToCartesian (g : Grid K) (cs : List K) : List K := g.toCartesian (g.cellToGrid cs)

/-- `transform(cartesian -> cell)` given the value `r` of the external `hypot`/`norm`:
Cartesian -> grid -> cell -/
def Grid.cartesianToCell (g : Grid K) (r : K) (x : List K) : List K := g.gridToCell (g.fromCartesian r x)

variable [LT K] [DecidableLT K] [LE K] [DecidableLE K]

/-- `np.abs` -/
def absK (x : K) : K := if x < ((0:Nat) : K) then -x else x

/-! ### contains_point -/

/-- `contains_point` on cell coordinates: `all((cell >= 0) & (cell <= shape))` -/
def containsCell : List Nat → List K → Bool
  | n :: ns, c :: cs => (decide (((0:Nat) : K) ≤ c) && decide (c ≤ (n : K))) && containsCell ns cs
  | _, _ => true

/-- `grid.contains_point(p, coords="grid")` -/
def Grid.containsGrid (g : Grid K) (xs : List K) : Bool := containsCell g.shape (g.gridToCell xs)

/-- `grid.contains_point(p, coords="cell")` -/
def Grid.containsCellPoint (g : Grid K) (cs : List K) : Bool := containsCell g.shape cs

/-- `grid.contains_point(p, coords="cartesian")` (the API default) given the value `r` of the
external `hypot`/`norm` -/
def Grid.containsCartesian (g : Grid K) (r : K) (x : List K) : Bool := g.containsGrid (g.fromCartesian r x)

variable [HasFloor K]

/-! ### normalize_point -/

/-- numpy's `x % L` for `L > 0`: `x - L * floor(x / L)` -/
def pymod (x L : K) : K := x - L * ((HasFloor.floor (x / L) : Int) : K)

/-- `normalize_point` along one axis:
`(p - xmin) % xdim + xmin` if periodic, else (with `reflect`)
`xmin + |(p - xmax) % (2 xdim) - xdim|`, else unchanged -/
def normAxis (lo hi : K) (periodic reflect : Bool) (p : K) : K :=
  if periodic then pymod (p - lo) (hi - lo) + lo
  else if reflect then lo + absK (pymod (p - hi) (((2:Nat) : K) * (hi - lo)) - (hi - lo))
  else p

/-- `grid.normalize_point(point, reflect=...)` -/
def Grid.normalizePoint (g : Grid K) (reflect : Bool) (p : List K) : List K :=
  g.axes.zipWith (fun a x => normAxis a.lo a.hi a.periodic reflect x) p

/-! ### difference vectors and distances -/

/-- the wrap of `_difference_vector`: `(d + size/2) % size - size/2` -/
def wrap (d L : K) : K := pymod (d + L / ((2:Nat) : K)) L - L / ((2:Nat) : K)

/-- the loop `for i, per in enumerate(periodic): if per: diff[..., i] = wrap(diff[..., i],
axes_bounds[i][1] - axes_bounds[i][0])`.  Flags, bounds and components are consumed in lock step
by *position*; components beyond the flags are left alone.  (A `True` flag without a bound or a
component would be an `IndexError` in the code; no grid class produces that.) -/
def wrapComponents : List Bool → List (K × K) → List K → List K
  | per :: ps, b :: bs, d :: ds => (if per then wrap d (b.2 - b.1) else d) :: wrapComponents ps bs ds
  | _, _, ds => ds

/-- `GridBase._difference_vector` on Cartesian points: `x2 - x1` followed by the wrap loop -/
def diffVec (periodic : List Bool) (bounds : List (K × K)) (x1 x2 : List K) : List K :=
  wrapComponents periodic bounds (List.zipWith (fun b a => b - a) x2 x1)

/-- the `periodic=` argument each grid class hands to `_difference_vector` -/
def Grid.diffFlags (g : Grid K) : List Bool :=
  match g.cls, g.axes with
  | .unit, axes | .cartesian, axes => axes.map (·.periodic)       -- `self.periodic`
  | .cylindrical, [_, z] => [false, false, z.periodic]            -- cylindrical.py:281 (after fix F3)
  | c, axes => List.replicate (c.dim axes.length) false           -- base.py:603 `[False] * self.dim`

/-- the `axes_bounds=` argument each grid class hands to `_difference_vector` -/
def Grid.diffBounds (g : Grid K) : List (K × K) :=
  match g.cls, g.axes with
  | .cylindrical, [_, z] => [(z.lo, z.hi), (z.lo, z.hi), (z.lo, z.hi)]   -- cylindrical.py:282
  | _, axes => axes.map fun a => (a.lo, a.hi)                     -- `self.axes_bounds`

/-- `grid.difference_vector(p1, p2, coords="cartesian")` -/
def Grid.differenceVector (g : Grid K) (x1 x2 : List K) : List K :=
  diffVec g.diffFlags g.diffBounds x1 x2

/-- `grid.difference_vector(p1, p2, coords="grid")`: the points are first mapped to Cartesian -/
def Grid.differenceVectorGrid (g : Grid K) (p1 p2 : List K) : List K :=
  g.differenceVector (g.toCartesian p1) (g.toCartesian p2)

/-- `grid.distance(p1, p2, coords="cartesian")`, squared -/
def Grid.distSq (g : Grid K) (x1 x2 : List K) : K := normSq (g.differenceVector x1 x2)

/-- `grid.distance(p1, p2, coords="grid")`, squared -/
def Grid.distSqGrid (g : Grid K) (p1 p2 : List K) : K := normSq (g.differenceVectorGrid p1 p2)

/-- `grid.difference_vector(p1, p2, coords="cell")`: cell -> grid -> Cartesian first -/
def Grid.differenceVectorCell (g : Grid K) (c1 c2 : List K) : List K :=
  g.differenceVectorGrid (g.cellToGrid c1) (g.cellToGrid c2)

/-- `grid.distance(p1, p2, coords="cell")`, squared -/
def Grid.distSqCell (g : Grid K) (c1 c2 : List K) : K := normSq (g.differenceVectorCell c1 c2)

/-- the pairing the cylindrical grid used before fix F3 (4d67e68): `periodic=self.periodic`
(two flags `[False, pz]`) and `axes_bounds=self.axes_bounds` against three components -/
def cylOldDistSq (r z : Axis K) (x1 x2 : List K) : K :=
  normSq (diffVec [r.periodic, z.periodic] [(r.lo, r.hi), (z.lo, z.hi)] x1 x2)

/-! ### get_random_point -/

/-- `CartesianGrid.get_random_point`: `cuboid.buffer(-b)` then `pos + u * size` for a uniform draw
`u` in `[0, 1)` per axis (grid = Cartesian coordinates) -/
def randomCoord (lo hi b u : K) : K := (lo + b) + u * ((hi - lo) - ((2:Nat) : K) * b)

/-- `rng.uniform(a, b)` = `a + (b - a) * u` -/
def uniformDraw (a b u : K) : K := a + (b - a) * u

/-- radial bounds used by the spherical/cylindrical `get_random_point` -/
def randomRadialBounds (rin rout b : K) (avoidCenter : Bool) : K × K :=
  (if avoidCenter then rin + b else rin, rout - b)

/-- `x ** n` by repeated multiplication (core Lean, generic number type) -/
def powN (x : K) : Nat → K
  | 0 => ((1:Nat) : K)
  | n + 1 => x * powN x n

/-- `CartesianGrid.get_random_point(boundary_distance=b, coords="grid")` for the uniform variates
`us` (one per axis) -/
def Grid.randomPointCart (g : Grid K) (b : K) (us : List K) : List K :=
  g.axes.zipWith (fun a u => randomCoord a.lo a.hi b u) us

/-- the uniform draws of the radial `get_random_point`: `rng.uniform(r_min**d, r_max**d)` with
`d = dim` for polar / spherical grids (the `d`-th root taken afterwards is external), and
`rng.uniform(r_min**2, r_max**2)`, `rng.uniform(z_min, z_max)` for cylindrical grids -/
def Grid.randomRadialDraw (g : Grid K) (b : K) (avoid : Bool) (us : List K) : List K :=
  let zero : K := ((0:Nat) : K)
  match g.cls, g.axes with
  | .polar, [a] | .spherical, [a] =>
    let rb := randomRadialBounds a.lo a.hi b avoid
    [uniformDraw (powN rb.1 g.dim) (powN rb.2 g.dim) (us.headD zero)]
  | .cylindrical, [a, z] =>
    let rb := randomRadialBounds a.lo a.hi b avoid
    [uniformDraw (powN rb.1 2) (powN rb.2 2) (us.headD zero),
     uniformDraw (z.lo + b) (z.hi - b) (us.tail.headD zero)]
  | _, _ => []

end
end PdeVerif.Grids
