import PdeVerif.Num
/-
One-step maps of the fixed-step solvers of py-pde, as the controller model
(`Model/Controller.lean`, field `Cfg.step`) is instantiated with by the driver `c07.run`:

* `pde/solvers/euler.py`            `state_data += dt * rhs(state_data, t)`
* `pde/solvers/runge_kutta.py`      `single_step` (k1..k4, `(k1 + 2*k2 + 2*k3 + k4) / 6`)
* `pde/solvers/implicit.py`         `implicit_step` (predictor, fixed-point loop, mean-square test)
* `pde/solvers/crank_nicolson.py`   `crank_nicolson_step` (explicit fraction 0)
* `pde/solvers/adams_bashforth.py` / `pde/backends/numba/_solvers.py::_make_adams_bashforth_stepper`
  (`state_prev` lives in the closure of the stepper and survives from one stepper call to the next)

Core Lean only, generic in the number type; every definition performs the float operations of
the source in the order of the source, so that the `Float` instantiation replays a real run of
the interpreted code bit for bit.  The simulated state of the controller model is
`SolverState K = Option (K × K)`: the value of one cell (all cells of the test equations evolve
alike), the persistent auxiliary state of the stepper (Adams-Bashforth: the previous state;
unused by the other schemes), and `none` once a step raised `ConvergenceError`.
-/
namespace PdeVerif.StepMaps
open PdeVerif

/-- right-hand side evaluated on one cell: `f u t` -/
abbrev Rate (K : Type) := K → K → K

/-- state of a run as the controller model sees it (see the header) -/
abbrev SolverState (K : Type) := Option (K × K)

section
variable {K : Type} [Add K] [Sub K] [Mul K] [Div K] [Neg K] [NatCast K] [IntCast K]

/-- `0.5` -/
def c05 : K := ((1 : Nat) : K) / ((2 : Nat) : K)
/-- `1.5` -/
def c15 : K := ((3 : Nat) : K) / ((2 : Nat) : K)

/-- the test equations of C07/C08: `u' = 1`, `u' = t`, `u' = a*u`, `u' = a*u + t`
(written as the harness's `CountingPDE` computes them) -/
def rateOne : Rate K := fun _ _ => ((1 : Nat) : K)
def rateTime : Rate K := fun _ t => t
def rateLin (a : K) : Rate K := fun u _ => a * u
def rateLinT (a : K) : Rate K := fun u t => a * u + t

/-- euler.py -/
def eulerStep (f : Rate K) (dt u t : K) : K := u + dt * f u t

/-- runge_kutta.py `single_step` -/
def rk4Step (f : Rate K) (dt u t : K) : K :=
  let k1 := dt * f u t
  let k2 := dt * f (u + c05 * k1) (t + c05 * dt)
  let k3 := dt * f (u + c05 * k2) (t + c05 * dt)
  let k4 := dt * f (u + k3) (t + dt)
  u + (k1 + ((2 : Nat) : K) * k2 + ((2 : Nat) : K) * k3 + k4) / ((6 : Nat) : K)

/-- `err = 0.0; for j in range(size): err += (conj(diff) * diff).real` with all cells alike -/
def sumRep (x : K) : Nat → K → K
  | 0, acc => acc
  | n + 1, acc => sumRep x n (acc + x)

variable [LT K] [DecidableLT K]

/-- `for n in range(maxiter): prev = cur; cur = it(cur); err = mean |cur - prev|^2;
if err < maxerror2: break` / `else: raise ConvergenceError` (`none`) -/
def fixLoop (it : K → K) (cells : Nat) (maxerr2 : K) : Nat → K → Option K
  | 0, _ => none
  | m + 1, x =>
    let y := it x
    let d := y - x
    let err := sumRep (d * d) cells ((0 : Nat) : K) / ((cells : Nat) : K)
    if err < maxerr2 then some y else fixLoop it cells maxerr2 m y

/-- implicit.py `implicit_step` -/
def implicitStep (f : Rate K) (cells maxiter : Nat) (maxerr2 dt u t : K) : Option K :=
  fixLoop (fun x => u + dt * f x (t + dt)) cells maxerr2 maxiter (u + dt * f u t)

/-- crank_nicolson.py `crank_nicolson_step` with `explicit_fraction = 0`
(`0 * state_data + 1 * state_cn` is `state_cn`) -/
def cnStep (f : Rate K) (cells maxiter : Nat) (maxerr2 dt u t : K) : Option K :=
  let rt := f u t
  let it : K → K := fun x => u + dt / ((2 : Nat) : K) * (f x (t + dt) + rt)
  fixLoop it cells maxerr2 maxiter (it u)

/-- adams_bashforth.py `single_step`: `(new state, new previous state)` -/
def ab2Step (f : Rate K) (dt : K) (s : K × K) (t : K) : K × K :=
  let rp := f s.2 (t - dt)
  let rc := f s.1 t
  (s.1 + dt * (c15 * rc - c05 * rp), s.1)

/-- first stepper call: `state_prev[:] = state_data - dt * rhs_pde(state_data, t_start)` -/
def ab2Init (f : Rate K) (dt tStart u : K) : K := u - dt * f u tStart

/-- the fixed-step solvers -/
inductive Scheme where
  | euler | rk4 | implicit | cn | ab2
deriving Repr, DecidableEq, Inhabited

/-- parameters of the implicit solvers and of the state: number of cells, `maxiter`,
`maxerror**2` -/
structure Params (K : Type) where
  cells : Nat
  maxiter : Nat
  maxerr2 : K

/-- the one-step map on `SolverState` -/
def stepOf (sch : Scheme) (f : Rate K) (p : Params K) (dt : K) : SolverState K → K → SolverState K
  | none, _ => none
  | some s, t =>
    match sch with
    | .euler => some (eulerStep f dt s.1 t, s.2)
    | .rk4 => some (rk4Step f dt s.1 t, s.2)
    | .implicit => (implicitStep f p.cells p.maxiter p.maxerr2 dt s.1 t).map (fun u => (u, s.2))
    | .cn => (cnStep f p.cells p.maxiter p.maxerr2 dt s.1 t).map (fun u => (u, s.2))
    | .ab2 => some (ab2Step f dt s t)

/-- state handed to the controller: the copy of the initial state, and what the first
Adams-Bashforth stepper call (always at `(u0, t_start)`) puts into `state_prev` -/
def initState (sch : Scheme) (f : Rate K) (dt tStart u0 : K) : SolverState K :=
  match sch with
  | .ab2 => some (u0, ab2Init f dt tStart u0)
  | _ => some (u0, u0)

end
end PdeVerif.StepMaps
