import PdeVerif.Num
/-
Model of the uniform discretisation of one grid axis (`discretize_interval`, pde/grids/base.py:88),
of the bound normalisation done by `Cuboid` (pde/tools/cuboid.py) for Cartesian grids and of the
grid classes `UnitGrid`, `CartesianGrid`, `PolarSymGrid`, `SphericalSymGrid`, `CylindricalSymGrid`
as far as their geometry is concerned.  Core Lean only; generic in the number type.

Conventions: an axis is `(lo, hi, n, periodic)`; cells are numbered `i = 0 .. n-1` as in
`grid.axes_coords[ax][i]`; multi-indices are lists `[i_0, i_1, ...]` in axis order.
-/
namespace PdeVerif.Grids
open PdeVerif

/-- the grid classes of py-pde (`UnitGrid` keeps its own branch because it overwrites the
discretisation with literal ones and the centres with `arange(n) + 0.5`) -/
inductive GridClass
  | unit | cartesian | polar | spherical | cylindrical
  deriving DecidableEq, Repr, Inhabited

/-- one described axis of a grid: `_axes_bounds[ax]`, `shape[ax]`, `periodic[ax]` -/
structure Axis (K : Type) where
  lo : K
  hi : K
  n : Nat
  periodic : Bool := false

/-- a grid: its class and its described (non-symmetric) axes.  Polar and spherical grids have
the single axis `r`, cylindrical grids the axes `r, z`. -/
structure Grid (K : Type) where
  cls : GridClass
  axes : List (Axis K)

/-- `grid.dim`: dimension of the space the grid lives in -/
def GridClass.dim (c : GridClass) (numAxes : Nat) : Nat :=
  match c with
  | .unit | .cartesian => numAxes
  | .polar => 2
  | .spherical | .cylindrical => 3

def Grid.numAxes {K : Type} (g : Grid K) : Nat := g.axes.length
def Grid.dim {K : Type} (g : Grid K) : Nat := g.cls.dim g.axes.length
def Grid.shape {K : Type} (g : Grid K) : List Nat := g.axes.map (·.n)

section
variable {K : Type} [Add K] [Sub K] [Mul K] [Div K] [Neg K] [NatCast K] [IntCast K]

/-- the literal `1/2` -/
def half : K := ((1:Nat) : K) / ((2:Nat) : K)

/-- `discretize_interval`: `dx = (x_max - x_min) / num` -/
def dx (lo hi : K) (n : Nat) : K := (hi - lo) / (n : K)

/-- `discretize_interval`: midpoint of interval `i`, `(arange(num) + 0.5) * dx + x_min` -/
def centre (lo hi : K) (n : Nat) (i : Nat) : K := ((i : K) + half) * dx lo hi n + lo

/-- all midpoints of an axis -/
def centreList (lo hi : K) (n : Nat) : List K := (List.range n).map (centre lo hi n)

/-- lower face of cell `i` as the volume code computes it: `rs - 0.5 * dr` -/
def cellLo (lo hi : K) (n : Nat) (i : Nat) : K := centre lo hi n i - half * dx lo hi n

/-- upper face of cell `i` as the volume code computes it: `rs + 0.5 * dr` -/
def cellHi (lo hi : K) (n : Nat) (i : Nat) : K := centre lo hi n i + half * dx lo hi n

/-- the `i`-th grid line `lo + i dx` (`i = 0..n`): the faces of the cells expressed from the bounds -/
def face (lo hi : K) (n : Nat) (i : Nat) : K := lo + (i : K) * dx lo hi n

/-- `UnitGrid`: `_discretization = ones`, `_axes_coords = arange(n) + 0.5`, bounds `(0, n)` -/
def unitDx : K := ((1:Nat) : K)
def unitCentre (i : Nat) : K := (i : K) + half
def unitAxis (n : Nat) (periodic : Bool) : Axis K := ⟨((0:Nat) : K), (n : K), n, periodic⟩

/-- `grid.discretization[ax]` -/
def Grid.dxOf (g : Grid K) (a : Axis K) : K :=
  match g.cls with
  | .unit => unitDx
  | _ => dx a.lo a.hi a.n

/-- `grid.axes_coords[ax][i]` -/
def Grid.centreOf (g : Grid K) (a : Axis K) (i : Nat) : K :=
  match g.cls with
  | .unit => unitCentre i
  | _ => centre a.lo a.hi a.n i

def Grid.discretization (g : Grid K) : List K := g.axes.map g.dxOf
def Grid.axesCoords (g : Grid K) : List (List K) :=
  g.axes.map (fun a => (List.range a.n).map (g.centreOf a))

variable [LT K] [DecidableLT K]

/-- `Cuboid.from_bounds` + the `size` setter: `pos = lo`, `size = hi - lo`; a negative size flips
the cuboid (`pos += size; size = |size|`).  Returned are the corners `(pos, pos + size)`, which
become `_axes_bounds` of a `CartesianGrid`. -/
def cuboidBounds (lo hi : K) : K × K :=
  let s := hi - lo
  if s < ((0:Nat) : K) then (lo + s, (lo + s) + (-s)) else (lo, lo + s)

end
end PdeVerif.Grids
