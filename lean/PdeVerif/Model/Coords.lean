import PdeVerif.Model.GridCoords
/-
Model of the local bases of the coordinate systems and of everything in py-pde that gives a
meaning to the *position* of a vector/tensor component:

* `pde/grids/coordinates/{polar,spherical,cylindrical,bipolar,bispherical,cartesian}.py`:
  `_mapping_jacobian`, `_scale_factors`, `_basis_rotation` as matrices (lists of rows).  An angle
  enters as a pair `(c, s) = (cos, sin)`, a hyperbolic angle as `(ch, sh) = (cosh, sinh)`.
* `pde/grids/base.py:166-171` (`axes`, `axes_symmetric`), `:248-274` (`get_axis_index`): the
  component order of a grid class is `axes ++ axes_symmetric`; the order of its coordinate system
  is `c.axes`.
* `pde/grids/base.py:705-739` `GridBase._vector_to_cartesian` = `einsum("j...,ji...->i...",
  components, c.basis_rotation(points))`: component `j` is contracted with **row `j` of the
  coordinate system's matrix** (this is the order the code uses; for cylindrical grids it differs
  from the order of the operators, finding F7).  `vectorToCartesianOp` is the alternative
  contraction that looks the rows up by axis *name*.
* `pde/fields/vectorial.py:165-184` `VectorField.__getitem__` (index from `get_axis_index`, label
  from `c.axes[index]`), `Tensor2Field.__getitem__`.
* `VectorField.dot`, `Tensor2Field.dot`, `VectorField.outer_product` (the four einsum patterns).
* `from_expression`: expression `i` becomes component `i`.

Core Lean only; generic in the number type.  Vectors are lists, matrices lists of rows.
-/
namespace PdeVerif.Coords
open PdeVerif PdeVerif.Grids

abbrev Vec (K : Type) := List K
abbrev Mat (K : Type) := List (List K)

/-! ### axis names and component orders (no arithmetic) -/

/-- names of coordinate axes -/
inductive Ax
  | r | θ | φ | z | x | y | σ | τ
  deriving DecidableEq, Repr, Inhabited

def Ax.name : Ax → String
  | .r => "r" | .θ => "θ" | .φ => "φ" | .z => "z" | .x => "x" | .y => "y" | .σ => "σ" | .τ => "τ"

/-- `grid.c.axes`: the axes of the coordinate system of a grid class, in the order in which
`basis_rotation`, `mapping_jacobian` and `scale_factors` list them (`n` = number of axes of a
Cartesian grid, at most 3 here) -/
def csAxes : GridClass → Nat → List Ax
  | .polar, _ => [.r, .φ]
  | .spherical, _ => [.r, .θ, .φ]
  | .cylindrical, _ => [.r, .φ, .z]
  | .unit, n | .cartesian, n => [Ax.x, .y, .z].take n

/-- `grid._axes_symmetric`: indices (into `c.axes`) of the axes that are not described -/
def symIdx : GridClass → List Nat
  | .polar => [1]
  | .spherical => [1, 2]
  | .cylindrical => [1]
  | .unit | .cartesian => []

/-- `grid._axes_described = tuple(i for i in range(dim) if i not in _axes_symmetric)` -/
def describedIdx (c : GridClass) (n : Nat) : List Nat :=
  (List.range (csAxes c n).length).filter (fun i => !(symIdx c).contains i)

/-- `grid.axes = [c.axes[i] for i in _axes_described]` -/
def gridAxes (c : GridClass) (n : Nat) : List Ax :=
  (describedIdx c n).filterMap (fun i => (csAxes c n)[i]?)

/-- `grid.axes_symmetric = [c.axes[i] for i in _axes_symmetric]` -/
def gridAxesSym (c : GridClass) (n : Nat) : List Ax :=
  (symIdx c).filterMap (fun i => (csAxes c n)[i]?)

/-- the component order of a grid: `grid.axes + grid.axes_symmetric`.  This is the order of the
differential operators (`arr[0], arr[1] = arr_r, arr_z` in `cylindrical_sym.py`) and of
`get_axis_index` -/
def componentOrder (c : GridClass) (n : Nat) : List Ax := gridAxes c n ++ gridAxesSym c n

/-- `list.index` -/
def indexOf? (a : Ax) : List Ax → Option Nat
  | [] => none
  | b :: bs => if a = b then some 0 else (indexOf? a bs).map (· + 1)

/-- `grid.get_axis_index(name, allow_symmetric)`; `none` = `IndexError` -/
def getAxisIndex (c : GridClass) (n : Nat) (a : Ax) (allowSymmetric : Bool := true) : Option Nat :=
  indexOf? a (if allowSymmetric then componentOrder c n else gridAxes c n)

/-- `VectorField.__getitem__(name)`: the component picked -/
def getitem {α : Type} (c : GridClass) (n : Nat) (a : Ax) (comps : List α) : Option α :=
  (getAxisIndex c n a).bind (comps[·]?)

/-- `VectorField.__getitem__`: the axis the *label* of the returned field names:
`comp_name = (self.grid.axes + self.grid.axes_symmetric)[axis]` (component order, the order `axis` was
looked up in) -/
def getitemLabel (c : GridClass) (n : Nat) (a : Ax) : Option Ax :=
  (getAxisIndex c n a).bind ((componentOrder c n)[·]?)

/-- `Tensor2Field.__getitem__((a, b))` -/
def getitem2 {α : Type} (c : GridClass) (n : Nat) (a b : Ax) (comps : List (List α)) : Option α :=
  (getAxisIndex c n a).bind fun i => (getAxisIndex c n b).bind fun j => (comps[i]?).bind (·[j]?)

/-- `VectorField.from_expression(grid, exprs)` / `Tensor2Field.from_expression`: the value of
expression `i` is stored as component `i` (`data.append(values)`); `none` = `DimensionError` when
the number of expressions is not `grid.dim` -/
def fromExpressions {α : Type} (c : GridClass) (n : Nat) (vals : List α) : Option (List α) :=
  if vals.length = (csAxes c n).length then some vals else none

def fromExpressions2 {α : Type} (c : GridClass) (n : Nat) (vals : List (List α)) : Option (List (List α)) :=
  let d := (csAxes c n).length
  if vals.length = d ∧ vals.all (fun row => row.length = d) then some vals else none

/-- position of axis `a` in the coordinate system's list -/
def csIndex (c : GridClass) (n : Nat) (a : Ax) : Option Nat := indexOf? a (csAxes c n)

section
variable {K : Type} [Add K] [Sub K] [Mul K] [Div K] [Neg K] [NatCast K] [IntCast K]

def zero : K := ((0:Nat) : K)
def one : K := ((1:Nat) : K)

/-! ### small linear algebra on lists (the einsum patterns of the code) -/

def sumL : List K → K
  | [] => zero
  | x :: xs => x + sumL xs

/-- `einsum("i,i->", u, v)` -/
def dotL (u v : Vec K) : K := sumL (List.zipWith (fun a b => a * b) u v)

/-- entrywise sum; the longer tail survives (so that `[]` is neutral) -/
def addV : Vec K → Vec K → Vec K
  | a :: as, b :: bs => (a + b) :: addV as bs
  | as, [] => as
  | [], bs => bs

def smulV (a : K) (v : Vec K) : Vec K := v.map (fun x => a * x)

/-- `einsum("j,ji->i", v, m)` = `Σ_j v_j • row_j(m)` (row vector times matrix) -/
def vecMat : Vec K → Mat K → Vec K
  | c :: cs, row :: rows => addV (smulV c row) (vecMat cs rows)
  | _, _ => []

/-- `einsum("ij,j->i", m, v)` -/
def matVec (m : Mat K) (v : Vec K) : Vec K := m.map (fun row => dotL row v)

/-- `einsum("ij,jk->ik", a, b)` -/
def matMul (a b : Mat K) : Mat K := a.map (fun row => vecMat row b)

/-- prepend the entries of a row to the columns collected so far -/
def consCols : Vec K → Mat K → Mat K
  | x :: xs, c :: cs => (x :: c) :: consCols xs cs
  | x :: xs, [] => [x] :: consCols xs []
  | [], _ => []

def transpose : Mat K → Mat K
  | [] => []
  | row :: rows => consCols row (transpose rows)

/-- `einsum("i,j->ij", u, v)` -/
def outer (u v : Vec K) : Mat K := u.map (fun a => smulV a v)

def unitVec (n i : Nat) : Vec K := (List.range n).map (fun j => if j = i then one else zero)

def identity (n : Nat) : Mat K := (List.range n).map (fun i => unitVec n i)

/-- `diag(h) * m`: row `j` scaled by `h_j` -/
def scaleRows (h : Vec K) (m : Mat K) : Mat K := List.zipWith (fun a row => smulV a row) h m

def traceFrom : Nat → Mat K → K
  | _, [] => zero
  | i, row :: rows => row.getD i zero + traceFrom (i + 1) rows

def trace (m : Mat K) : K := traceFrom 0 m

def det2 (m : Mat K) : K :=
  match m with
  | [[a, b], [c, d]] => a * d - b * c
  | _ => zero

def det3 (m : Mat K) : K :=
  match m with
  | [[a1, a2, a3], [b1, b2, b3], [c1, c2, c3]] =>
    a1 * (b2 * c3 - b3 * c2) - a2 * (b1 * c3 - b3 * c1) + a3 * (b1 * c2 - b2 * c1)
  | _ => zero

/-- determinant of a 2x2 or 3x3 matrix -/
def det (m : Mat K) : K := if m.length = 2 then det2 m else det3 m

/-! ### the coordinate systems: Jacobian of `pos_to_cart`, scale factors, basis rotation

`_mapping_jacobian` returns `J[i][j] = ∂x_i/∂q_j` (rows = Cartesian components),
`_basis_rotation` returns `B[j][i]` = Cartesian component `i` of the unit vector of coordinate
`j` (rows = basis vectors, in the order of `c.axes`). -/

/-- `PolarCoordinates._mapping_jacobian`, `(c, s) = (cos φ, sin φ)` -/
def polarJac (r c s : K) : Mat K := [[c, -(r * s)], [s, r * c]]
/-- `PolarCoordinates._scale_factors` -/
def polarScale (r : K) : Vec K := [one, r]
/-- `PolarCoordinates._basis_rotation`: rows `e_r, e_φ` -/
def polarBasis (c s : K) : Mat K := [[c, s], [-s, c]]

/-- `CylindricalCoordinates._mapping_jacobian` (coordinates `r, φ, z`) -/
def cylJac (r c s : K) : Mat K := [[c, -(r * s), zero], [s, r * c, zero], [zero, zero, zero + one]]
/-- `CylindricalCoordinates._scale_factors` -/
def cylScale (r : K) : Vec K := [one, r, one]
/-- `CylindricalCoordinates._basis_rotation`: rows `e_r, e_φ, e_z` -/
def cylBasis (c s : K) : Mat K := [[c, s, zero], [-s, c, zero], [zero, zero, zero + one]]

/-- `SphericalCoordinates._mapping_jacobian`, `(ct, st) = (cos θ, sin θ)`, `(cp, sp) = (cos φ, sin φ)` -/
def sphJac (r ct st cp sp : K) : Mat K :=
  [[cp * st, r * cp * ct, -r * sp * st],
   [sp * st, r * sp * ct, r * cp * st],
   [ct, -r * st, zero]]
/-- `SphericalCoordinates._scale_factors` -/
def sphScale (r st : K) : Vec K := [one, r, r * st]
/-- `SphericalCoordinates._basis_rotation`: rows `e_r, e_θ, e_φ` -/
def sphBasis (ct st cp sp : K) : Mat K :=
  [[cp * st, sp * st, ct], [cp * ct, sp * ct, -st], [-sp, cp, zero]]

/-- `BipolarCoordinates._mapping_jacobian`, scale parameter `a`, `(c, s) = (cos σ, sin σ)`,
`(ch, sh) = (cosh τ, sinh τ)`: `a (c - ch)^-2 * [...]` -/
def bipolarJac (a c s ch sh : K) : Mat K :=
  let f := a / ((c - ch) * (c - ch))
  [[f * (-s * sh), f * (one - c * ch)], [f * (c * ch - one), f * (-s * sh)]]
/-- `BipolarCoordinates._scale_factors`: `a / (cosh τ - cos σ)` twice -/
def bipolarScale (a c ch : K) : Vec K := [a / (ch - c), a / (ch - c)]
/-- `BipolarCoordinates._basis_rotation`: `1/(c - ch) * [...]`, rows `e_σ, e_τ` -/
def bipolarBasis (c s ch sh : K) : Mat K :=
  let f := one / (c - ch)
  [[f * (s * sh), f * (one - c * ch)], [f * (c * ch - one), f * (s * sh)]]

/-- `BisphericalCoordinates._mapping_jacobian` (coordinates `σ, τ, φ`), `d = cos σ - cosh τ` -/
def bisphJac (a c s ch sh cp sp : K) : Mat K :=
  let d := c - ch
  let f := a / (d * d)
  [[f * (cp * (c * ch - one)), f * (-cp * s * sh), f * (sp * s * d)],
   [f * (sp * (c * ch - one)), f * (-sp * s * sh), f * (-cp * s * d)],
   [f * (-s * sh), f * (one - c * ch), f * zero]]
/-- `BisphericalCoordinates._scale_factors` -/
def bisphScale (a c s ch : K) : Vec K := [a / (ch - c), a / (ch - c), a / (ch - c) * s]
/-- `BisphericalCoordinates._basis_rotation`: rows `e_σ, e_τ, e_φ` -/
def bisphBasis (c s ch sh cp sp : K) : Mat K :=
  let d := c - ch
  [[cp * (one - c * ch) / d, sp * (one - c * ch) / d, s * sh / d],
   [cp * s * sh / d, sp * s * sh / d, (c * ch - one) / d],
   [-sp, cp, zero]]

/-- `CoordinatesBase.metric`: diagonal matrix of the squared scale factors -/
def metric (h : Vec K) : Mat K :=
  (List.range h.length).map fun i => (List.range h.length).map fun j =>
    if i = j then (h.getD i zero) * (h.getD i zero) else zero

/-- `CoordinatesBase.vec_to_cart` (same einsum as `_vector_to_cartesian`) -/
def vecToCart (basis : Mat K) (comps : Vec K) : Vec K := vecMat comps basis

/-! ### grids: conversion of vector and tensor components to the Cartesian basis -/

/-- the trigonometric data of the full coordinates of a point: `(cos θ, sin θ)`, `(cos φ, sin φ)`
(polar and cylindrical grids only use the second pair) -/
structure Angles (K : Type) where
  cθ : K
  sθ : K
  cφ : K
  sφ : K

/-- `grid.c.basis_rotation(points)` of a grid class (rows in the order of `c.axes`) -/
def basis (cl : GridClass) (n : Nat) (a : Angles K) : Mat K :=
  match cl with
  | .polar => polarBasis a.cφ a.sφ
  | .cylindrical => cylBasis a.cφ a.sφ
  | .spherical => sphBasis a.cθ a.sθ a.cφ a.sφ
  | .unit | .cartesian => identity n       -- `np.eye(dim)`

/-- `grid.c.mapping_jacobian(points)` -/
def jacobian (cl : GridClass) (n : Nat) (r : K) (a : Angles K) : Mat K :=
  match cl with
  | .polar => polarJac r a.cφ a.sφ
  | .cylindrical => cylJac r a.cφ a.sφ
  | .spherical => sphJac r a.cθ a.sθ a.cφ a.sφ
  | .unit | .cartesian => identity n

/-- `grid.c.scale_factors(points)` -/
def scaleFactors (cl : GridClass) (n : Nat) (r : K) (a : Angles K) : Vec K :=
  match cl with
  | .polar => polarScale r
  | .cylindrical => cylScale r
  | .spherical => sphScale r a.sθ
  | .unit | .cartesian => List.replicate n one

/-- `GridBase._vector_to_cartesian(points, components)`:
`einsum("j...,ji...->i...", components, c.basis_rotation(points))`.  Component `j` is paired with
row `j` of the coordinate system's matrix, i.e. it is read as the component along `c.axes[j]`. -/
def vectorToCartesian (cl : GridClass) (n : Nat) (a : Angles K) (comps : Vec K) : Vec K :=
  vecMat comps (basis cl n a)

/-- `_vector_to_cartesian` with its two shape checks (`pde/grids/base.py:724-731`): `none` = `DimensionError`
when the point does not have `dim` coordinates (`nCoords`) or the number of components is not `dim` -/
def vectorToCartesianChecked (cl : GridClass) (n : Nat) (a : Angles K) (nCoords : Nat) (comps : Vec K) :
    Option (Vec K) :=
  if nCoords = (csAxes cl n).length ∧ comps.length = (csAxes cl n).length then
    some (vectorToCartesian cl n a comps)
  else none

/-- the rows of the basis matrix looked up by axis *name* in the grid's own component order
(`axes ++ axes_symmetric`) -/
def basisOp (cl : GridClass) (n : Nat) (a : Angles K) : Mat K :=
  (componentOrder cl n).filterMap fun ax => (csIndex cl n ax).bind ((basis cl n a)[·]?)

/-- the conversion that reads component `j` as the component along `componentOrder[j]` (the order
of the operators and of access by name).  NOT what the code does on cylindrical grids. -/
def vectorToCartesianOp (cl : GridClass) (n : Nat) (a : Angles K) (comps : Vec K) : Vec K :=
  vecMat comps (basisOp cl n a)

/-- conversion of a rank-2 tensor with the same pairing as `_vector_to_cartesian`:
`T_cart = Bᵀ T B`.  (py-pde raises `NotImplementedError` in `Tensor2Field.interpolate_to_grid`;
this definition is what the vector rule extends to, used for the invariance theorems.) -/
def tensorToCartesian (cl : GridClass) (n : Nat) (a : Angles K) (t : Mat K) : Mat K :=
  matMul (transpose (basis cl n a)) (matMul t (basis cl n a))

def tensorToCartesianOp (cl : GridClass) (n : Nat) (a : Angles K) (t : Mat K) : Mat K :=
  matMul (transpose (basisOp cl n a)) (matMul t (basisOp cl n a))

/-- `grid.c.pos_to_cart` of the full coordinates `(r, angles[, z])` -/
def posToCart (cl : GridClass) (r z : K) (a : Angles K) : Vec K :=
  match cl with
  | .polar => polarToCart r a.cφ a.sφ
  | .cylindrical => cylToCart r a.cφ a.sφ z
  | .spherical => sphToCart r a.cθ a.sθ a.cφ a.sφ
  | .unit | .cartesian => []

/-! ### products of fields (pointwise) -/

/-- `VectorField.dot(VectorField)`: `einsum("i...,i...->...")` (real data) -/
def dotVV (u v : Vec K) : K := dotL u v
/-- `VectorField.dot(Tensor2Field)`: the same pattern broadcast over the second tensor index:
`out_j = Σ_i u_i T_ij` -/
def dotVT (u : Vec K) (t : Mat K) : Vec K := vecMat u t
/-- `Tensor2Field.dot(VectorField)`: `einsum("ij...,j...->i...")` -/
def dotTV (t : Mat K) (v : Vec K) : Vec K := matVec t v
/-- `Tensor2Field.dot(Tensor2Field)`: the same pattern broadcast: `out_ik = Σ_j A_ij B_jk` -/
def dotTT (a b : Mat K) : Mat K := matMul a b
/-- `VectorField.outer_product`: `einsum("i...,j...->ij...")` -/
def outerVV (u v : Vec K) : Mat K := outer u v

end
end PdeVerif.Coords
