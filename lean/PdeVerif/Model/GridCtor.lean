import PdeVerif.Model.Grid
/-
Model of the grid *constructors* (`UnitGrid.__init__`, `CartesianGrid.__init__`,
`SphericalSymGridBase.__init__` for `PolarSymGrid`/`SphericalSymGrid`, `CylindricalSymGrid.__init__`):
how the constructor arguments (bounds / radius / shape / periodic) become the described axes
`(_axes_bounds, shape, periodic)` of the grid, and which argument errors are raised.
Core Lean only; generic in the number type.

Modelled argument checks (in the order of the code): `_check_shape` (`ValueError` for an empty shape or
an entry `< 1`), `DimensionError` when `shape` / `periodic` do not have one entry per axis, radius
checks `r_inner < 0` and `r_inner >= r_outer` (`ValueError`).  Not modelled: scalar broadcasting of
`shape` / `periodic`, the one-column `bounds` form, non-numeric arguments.  `CartesianGrid` accepts
reversed bounds (the cuboid is flipped, `cuboidBounds`); `CylindricalSymGrid` takes `bounds_z` as
given (no flip, no check).
-/
namespace PdeVerif.Grids
open PdeVerif

/-- the `radius` argument: a number (outer radius, inner radius 0) or the pair (inner, outer) -/
inductive Radius (K : Type) where
  | outer (r : K)
  | pair (ri ro : K)

/-- constructor call of one of the five grid classes -/
inductive Ctor (K : Type) where
  | unit (shape : List Nat) (periodic : List Bool)
  | cartesian (bounds : List (K × K)) (shape : List Nat) (periodic : List Bool)
  | polar (radius : Radius K) (shape : List Nat)
  | spherical (radius : Radius K) (shape : List Nat)
  | cylindrical (radius : Radius K) (zlo zhi : K) (shape : List Nat) (periodicZ : Bool)

/-- `ValueError` / `DimensionError` -/
inductive CtorErr | value | dimension
  deriving DecidableEq, Repr

section
variable {K : Type} [Add K] [Sub K] [Mul K] [Div K] [Neg K] [NatCast K] [IntCast K]
variable [LT K] [DecidableLT K] [LE K] [DecidableLE K]

/-- `r_inner, r_outer = radius` or `0, radius` -/
def Radius.bounds : Radius K → K × K
  | .outer r => (((0:Nat) : K), r)
  | .pair a b => (a, b)

/-- `_check_shape`: at least one entry, every entry `>= 1` -/
def checkShape (shape : List Nat) : Except CtorErr Unit :=
  if shape.isEmpty || shape.any (· == 0) then .error .value else .ok ()

/-- the radius checks of the spherically / cylindrically symmetric grids -/
def checkRadius (r : Radius K) : Except CtorErr (K × K) :=
  let b := r.bounds
  if b.1 < ((0:Nat) : K) then .error .value
  else if b.2 ≤ b.1 then .error .value
  else .ok b

/-- axes of a Cartesian grid: the cuboid built from the bounds (flipped where reversed) -/
def cartesianAxes : List (K × K) → List Nat → List Bool → List (Axis K)
  | b :: bs, n :: ns, p :: ps =>
    let c := cuboidBounds b.1 b.2
    ⟨c.1, c.2, n, p⟩ :: cartesianAxes bs ns ps
  | _, _, _ => []

/-- axes of a `UnitGrid` -/
def unitAxes : List Nat → List Bool → List (Axis K)
  | n :: ns, p :: ps => unitAxis n p :: unitAxes ns ps
  | _, _ => []

/-- the grid a constructor call creates, or the error it raises -/
def Grid.construct : Ctor K → Except CtorErr (Grid K)
  | .unit shape per => do
    checkShape shape
    if per.length ≠ shape.length then .error .dimension
    else .ok ⟨.unit, unitAxes shape per⟩
  | .cartesian bounds shape per => do
    checkShape shape
    if bounds.length ≠ shape.length then .error .dimension
    else if per.length ≠ shape.length then .error .dimension
    else .ok ⟨.cartesian, cartesianAxes bounds shape per⟩
  | .polar radius shape => do
    checkShape shape
    match shape with
    | [n] => do
      let b ← checkRadius radius
      .ok ⟨.polar, [⟨b.1, b.2, n, false⟩]⟩
    | _ => .error .value
  | .spherical radius shape => do
    checkShape shape
    match shape with
    | [n] => do
      let b ← checkRadius radius
      .ok ⟨.spherical, [⟨b.1, b.2, n, false⟩]⟩
    | _ => .error .value
  | .cylindrical radius zlo zhi shape pz => do
    checkShape shape
    match shape with
    | [n] => do            -- "the same number is used for both if a single value is given"
      if ¬ (zlo < zhi) then .error .value   -- "Upper bound of the axial coordinate must be larger than lower bound"
      else
        let b ← checkRadius radius
        .ok ⟨.cylindrical, [⟨b.1, b.2, n, false⟩, ⟨zlo, zhi, n, pz⟩]⟩
    | [nr, nz] => do
      if ¬ (zlo < zhi) then .error .value
      else
        let b ← checkRadius radius
        .ok ⟨.cylindrical, [⟨b.1, b.2, nr, false⟩, ⟨zlo, zhi, nz, pz⟩]⟩
    | _ => .error .dimension

end
end PdeVerif.Grids
