import PdeVerif.Model.Coords
/-
Model of `_pos_to_cart` of the two bipolar-type coordinate systems
(`pde/grids/coordinates/bipolar.py:44-49`, `pde/grids/coordinates/bispherical.py:44-50`), operation
by operation as the code computes it:

    denom = cosh τ - cos σ
    bipolar:      x = a * sinh τ / denom            y = a * sin σ / denom
    bispherical:  x = a * sin σ / denom * cos φ     y = a * sin σ / denom * sin φ     z = a * sinh τ / denom

An angle enters as the pair `(c, s) = (cos, sin)`, a hyperbolic angle as `(ch, sh) = (cosh, sinh)`
(as in `bipolarJac`, `bisphJac` of `Model/Coords.lean`).  Note that `_pos_to_cart` divides by
`cosh τ - cos σ` whereas `_mapping_jacobian` uses `cos σ - cosh τ` (squared).

Core Lean only; generic in the number type.
-/
namespace PdeVerif.Coords

section
variable {K : Type} [Add K] [Sub K] [Mul K] [Div K] [Neg K] [NatCast K] [IntCast K]

/-- `BipolarCoordinates._pos_to_cart`, scale parameter `a`, `(c, s) = (cos σ, sin σ)`,
`(ch, sh) = (cosh τ, sinh τ)` -/
def bipolarToCart (a c s ch sh : K) : Vec K :=
  let denom := ch - c
  [a * sh / denom, a * s / denom]

/-- `BisphericalCoordinates._pos_to_cart` (coordinates `σ, τ, φ`), `(cp, sp) = (cos φ, sin φ)` -/
def bisphToCart (a c s ch sh cp sp : K) : Vec K :=
  let denom := ch - c
  [a * s / denom * cp, a * s / denom * sp, a * sh / denom]

end
end PdeVerif.Coords
