import PdeVerif.Num
/-
Model of the grid decomposition of `pde/grids/_mesh.py` (`_subdivide`, `_subdivide_along_axis`,
`GridMesh.from_grid`, `_id2idx`/`_idx2id`, `_get_data_indices_1d`, `_get_data_indices`,
`get_neighbor`, `extract_field_data`, `combine_field_data`), of the index pairs of `_MPIBC`
(`pde/grids/boundaries/local.py`) and of a radius-1 stencil applied to a sub-array with ghost
cells.  Core Lean only; generic in the number type where numbers occur.

Conventions
* chunk sizes along one axis: a `List Nat`; a mesh is one such list per axis (`Mesh.axes`);
* multi-indices (node index, cell index, index into a padded array) are `List Nat`, one entry
  per axis; node ids are row-major (C order) like `np.unravel_index`/`np.ravel_multi_index`;
* an array is a shape plus a total function from multi-indices to values (`Arr`); the leading
  component axes of tensor data (the `...` of the numpy index expressions) are carried by the
  value type;
* `np.empty` contents are `none`, so *which* entries `combine_field_data` writes is part of
  the modelled behaviour.
-/
namespace PdeVerif.Mesh
open PdeVerif

/-! ## `_subdivide`: chunk sizes -/

/-- reference cut positions `floor(i*num/chunks)` -/
def cut (num chunks i : Nat) : Nat := i * num / chunks

/-- reference formula for `_subdivide(num, chunks)`: differences of consecutive cuts.  (The
real code truncates `np.linspace(0, num, chunks+1)`; it is compared against the *contract*
below, and against this formula only informatively.) -/
def subdivide (num chunks : Nat) : List Nat :=
  (List.range chunks).map fun i => cut num chunks (i + 1) - cut num chunks i

/-- `_subdivide` raises `RuntimeError` when `chunks > num` -/
def subdivideChecked (num chunks : Nat) : Option (List Nat) :=
  if chunks > num then none else some (subdivide num chunks)

/-! ### the formula the code really uses: `np.diff(np.linspace(0, num, chunks + 1).astype(int))`

`np.linspace(0, num, chunks + 1)` computes `step = (num - 0) / chunks` once, point `i` as
`i * step + 0.0`, and overwrites the last point by `num`; `astype(int)` truncates (the points are
non-negative, so truncation is `floor`).  The same operations in the same order, generic in the
number type: at `Float` this is bit for bit what numpy computes, over an exact ordered field it
is `floor(i*num/chunks)` (theorem `linCut_exact`). -/
section
variable (K : Type) [Mul K] [Div K] [NatCast K] [HasFloor K]

/-- `np.linspace(0, num, chunks + 1).astype(int)[i]` -/
def linCut (num chunks i : Nat) : Int :=
  if i = chunks then (num : Int)
  else HasFloor.floor (((i : Nat) : K) * (((num : Nat) : K) / ((chunks : Nat) : K)))

/-- `_subdivide(num, chunks)` as the code computes it -/
def subdivideLin (num chunks : Nat) : List Int :=
  (List.range chunks).map fun i => linCut K num chunks (i + 1) - linCut K num chunks i

/-- `_subdivide` with its guard -/
def subdivideLinChecked (num chunks : Nat) : Option (List Int) :=
  if chunks > num then none else some (subdivideLin K num chunks)
end

/-- chunk sizes obtained from arbitrary cut positions `c 0, .., c chunks` -/
def sizesOfCuts (c : Nat → Nat) (chunks : Nat) : List Nat :=
  (List.range chunks).map fun i => c (i + 1) - c i

/-- the contract the rest of the mesh code relies on: positive sizes with the right sum -/
def Contract (sizes : List Nat) (num : Nat) : Prop := (∀ s ∈ sizes, 0 < s) ∧ sizes.sum = num

instance (sizes : List Nat) (num : Nat) : Decidable (Contract sizes num) := by unfold Contract; infer_instance

/-- executable form of `Contract` -/
def contractB (sizes : List Nat) (num : Nat) : Bool := sizes.all (fun s => decide (0 < s)) && sizes.sum == num

/-- sizes differ by at most one: every size is at most the smallest one plus one -/
def balancedB (sizes : List Nat) : Bool :=
  let lo := sizes.foldl min (sizes.headD 0)
  sizes.all fun a => decide (a ≤ lo + 1)

/-! ## per-axis slices (`_get_data_indices_1d`) -/

/-- `i_add = 2 if with_ghost_cells else 0` -/
def gadd (ghost : Bool) : Nat := if ghost then 2 else 0

/-- the loop `data.append(slice(last, last + n + i_add)); last += n` -/
def slicesFrom (ghost : Bool) : Nat → List Nat → List (Nat × Nat)
  | _, [] => []
  | last, n :: ns => (last, last + n + gadd ghost) :: slicesFrom ghost (last + n) ns

/-- slices of all chunks along one axis -/
def slices1d (ghost : Bool) (sizes : List Nat) : List (Nat × Nat) := slicesFrom ghost 0 sizes

/-- start offset of chunk `i`: the sum of the sizes before it (closed form of `last`) -/
def offset (sizes : List Nat) (i : Nat) : Nat := (sizes.take i).sum

/-- size of chunk `i` (0 outside) -/
def sizeAt (sizes : List Nat) (i : Nat) : Nat := sizes.getD i 0

/-- slice of chunk `i` along one axis -/
def sliceAt (ghost : Bool) (sizes : List Nat) (i : Nat) : Nat × Nat := (slices1d ghost sizes).getD i (0, 0)

/-- one axis, data as a list: the chunks `data[a:b]` of all slices (list form of
`extract_field_data` for every node of a 1-d mesh) -/
def extractAll {α : Type} (data : List α) : List (Nat × Nat) → List (List α)
  | [] => []
  | (a, b) :: r => ((data.drop a).take (b - a)) :: extractAll data r

/-! ## node id <-> node multi-index -/

/-- `np.unravel_index(id, shape)` (C order; total: no range check) -/
def unravel : List Nat → Nat → List Nat
  | [], _ => []
  | _ :: rest, id => id / rest.prod :: unravel rest (id % rest.prod)

/-- `np.ravel_multi_index(idx, shape)` (C order) -/
def ravel : List Nat → List Nat → Nat
  | _ :: rest, i :: is => i * rest.prod + ravel rest is
  | _, _ => 0

/-! ## the mesh -/

structure Mesh where
  /-- chunk sizes along every axis -/
  axes : List (List Nat)
  /-- periodic flags of the base grid -/
  periodic : List Bool

namespace Mesh
/-- `GridMesh.shape`: number of sub-grids along each axis -/
def dec (m : Mesh) : List Nat := m.axes.map List.length
/-- shape of the base grid -/
def shape (m : Mesh) : List Nat := m.axes.map List.sum
/-- `len(mesh)` -/
def len (m : Mesh) : Nat := m.dec.prod
/-- `_id2idx` -/
def id2idx (m : Mesh) (id : Nat) : List Nat := unravel m.dec id
/-- `_idx2id` -/
def idx2id (m : Mesh) (idx : List Nat) : Nat := ravel m.dec idx
end Mesh

/-- `indices[idx] = tuple(indices_1d[n][i] for n, i in enumerate(idx))` -/
def boxOf (ghost : Bool) : List (List Nat) → List Nat → List (Nat × Nat)
  | sizes :: ax, i :: is => sliceAt ghost sizes i :: boxOf ghost ax is
  | _, _ => []

/-- shape of a sub-grid: the chunk sizes selected by the node index -/
def subShapeOf : List (List Nat) → List Nat → List Nat
  | sizes :: ax, i :: is => sizeAt sizes i :: subShapeOf ax is
  | _, _ => []

namespace Mesh
/-- index box of node `id` in the base array (`_get_data_indices`) -/
def box (m : Mesh) (ghost : Bool) (id : Nat) : List (Nat × Nat) := boxOf ghost m.axes (m.id2idx id)
/-- shape of the sub-grid of node `id` -/
def subShape (m : Mesh) (id : Nat) : List Nat := subShapeOf m.axes (m.id2idx id)
/-- shape of the base array with (`_shape_full`) or without ghost cells -/
def arrShape (m : Mesh) (ghost : Bool) : List Nat := m.shape.map (· + gadd ghost)
/-- periodic flags of the sub-grids: an axis that is split (`chunks > 1`) becomes
non-periodic, an unsplit axis keeps the flag of the base grid (`chunks == 1` returns the grid
itself) -/
def subPeriodic (m : Mesh) : List Bool :=
  List.zipWith (fun sizes p => if sizes.length = 1 then p else false) m.axes m.periodic
end Mesh

/-! ## `get_neighbor` -/

/-- `GridMesh.get_neighbor(axis, upper, node_id=id)`; `none` = Python `None` -/
def neighbor (m : Mesh) (axis : Nat) (upper : Bool) (id : Nat) : Option Nat :=
  let size := m.dec.getD axis 0
  if size = 1 then none
  else
    let idx := m.id2idx id
    let k := idx.getD axis 0
    if upper then
      if k < size - 1 then some (m.idx2id (idx.set axis (k + 1)))
      else if m.periodic.getD axis false then some (m.idx2id (idx.set axis 0))
      else none
    else
      if k > 0 then some (m.idx2id (idx.set axis (k - 1)))
      else if m.periodic.getD axis false then some (m.idx2id (idx.set axis (size - 1)))
      else none

/-- `MPIFlags.boundary_lower(my_id, other_id)` -/
def flagLower (my other : Nat) : Nat := if my ≤ other then 2 * my + 8 else 2 * other + 9
/-- `MPIFlags.boundary_upper(my_id, other_id)` -/
def flagUpper (my other : Nat) : Nat := if my ≤ other then 2 * my + 9 else 2 * other + 8
/-- `get_boundary_flag` of node `my` -/
def boundaryFlag (my other : Nat) (upper : Bool) : Nat := if upper then flagUpper my other else flagLower my other

/-! ## arrays, `extract_field_data`, `combine_field_data` -/

/-- pointwise sum / truncated difference of multi-indices -/
def vadd : List Nat → List Nat → List Nat
  | a :: as, b :: bs => (a + b) :: vadd as bs
  | _, _ => []
def vsub : List Nat → List Nat → List Nat
  | a :: as, b :: bs => (a - b) :: vsub as bs
  | _, _ => []

/-- `p` is a valid multi-index of an array of the given shape -/
def inShape : List Nat → List Nat → Bool
  | [], [] => true
  | p :: ps, n :: ns => decide (p < n) && inShape ps ns
  | _, _ => false

/-- `g` lies in the index box -/
def inBox : List (Nat × Nat) → List Nat → Bool
  | [], [] => true
  | (a, b) :: bx, g :: gs => decide (a ≤ g) && decide (g < b) && inBox bx gs
  | _, _ => false

structure Arr (α : Type) where
  shape : List Nat
  get : List Nat → α

/-- read with bounds check -/
def Arr.get? {α : Type} (a : Arr α) (p : List Nat) : Option α := if inShape p a.shape then some (a.get p) else none

/-- length of `a[s.1 : s.2]` along an axis of length `n` (numpy clips) -/
def sliceLen (n : Nat) (s : Nat × Nat) : Nat := min s.2 n - min s.1 n

def sliceShape : List Nat → List (Nat × Nat) → List Nat
  | n :: ns, s :: ss => sliceLen n s :: sliceShape ns ss
  | _, _ => []

def starts (box : List (Nat × Nat)) : List Nat := box.map Prod.fst

/-- numpy basic slicing `a[..., s0:e0, s1:e1, ...]` -/
def Arr.slice {α : Type} (a : Arr α) (box : List (Nat × Nat)) : Arr α :=
  { shape := sliceShape a.shape box, get := fun p => a.get (vadd (starts box) p) }

namespace Mesh
/-- `extract_field_data(field_data, node_id, with_ghost_cells=ghost)` -/
def extract {α : Type} (m : Mesh) (ghost : Bool) (data : Arr α) (id : Nat) : Arr α := data.slice (m.box ghost id)
end Mesh

/-- `out[(...,) + box] = sub` -/
def writeBox {α : Type} (out : List Nat → Option α) (box : List (Nat × Nat)) (sub : List Nat → α) :
    List Nat → Option α :=
  fun g => if inBox box g then some (sub (vsub g (starts box))) else out g

namespace Mesh
/-- the first `n` iterations of the loop of `combine_field_data` on `out = np.empty(...)` -/
def combineUpTo {α : Type} (m : Mesh) (ghost : Bool) (subs : Nat → List Nat → α) (n : Nat) : List Nat → Option α :=
  (List.range n).foldl (fun out i => writeBox out (m.box ghost i) (subs i)) (fun _ => none)

/-- `combine_field_data(subfields, with_ghost_cells=ghost)`; `none` = never written -/
def combine {α : Type} (m : Mesh) (ghost : Bool) (subs : Nat → List Nat → α) : List Nat → Option α :=
  m.combineUpTo ghost subs m.len
end Mesh

/-! ## ghost-cell exchange (`_MPIBC`) -/

/-- `_idx_read`: index along the axis of the valid layer that is sent (`-2` / `1`) for a
sub-grid with `n` cells along the axis (padded length `n + 2`) -/
def mpiRead (upper : Bool) (n : Nat) : Nat := if upper then n else 1
/-- `_idx_write`: index along the axis of the ghost layer that is received (`-1` / `0`) -/
def mpiWrite (upper : Bool) (n : Nat) : Nat := if upper then n + 1 else 0

/-- the node sits at the outer face of the base grid on this side of the axis; if it has a
neighbour there, the face is the seam of a periodic axis -/
def atSeam (m : Mesh) (axis : Nat) (upper : Bool) (id : Nat) : Bool :=
  if upper then decide ((m.id2idx id).getD axis 0 + 1 = m.dec.getD axis 0)
  else decide ((m.id2idx id).getD axis 0 = 0)

/-- `flip_sign` of the `_MPIBC` that `extract_boundary_conditions` creates for a face with a
neighbour: set exactly at the seam of an axis whose condition is anti-periodic (`anti`), never
at a face between two sub-grids in the interior.  (py-pde before the repair of finding
`flip_sign dropped` behaved like `anti = []`.) -/
def mpiFlip (m : Mesh) (anti : List Bool) (axis : Nat) (upper : Bool) (id : Nat) : Bool :=
  anti.getD axis false && atSeam m axis upper id

/-- the received ghost layer is multiplied by `-1` when `flip_sign` is set -/
def sgn {α : Type} [Neg α] (flip : Bool) (v : α) : α := if flip then -v else v

/-- every coordinate of the local padded index `q` addresses a valid cell (`slice(1, -1)`) -/
def interiorAll : List Nat → List Nat → Bool
  | [], [] => true
  | n :: ns, q :: qs => decide (1 ≤ q) && decide (q ≤ n) && interiorAll ns qs
  | _, _ => false

/-- every coordinate of `q` except the one of `axis` addresses a valid cell: the transversal
`slice(1, -1)` of `_MPIBC._idx_read/_idx_write` (corners and edges are never exchanged) -/
def interiorExcept : Nat → List Nat → List Nat → Bool
  | _, [], [] => true
  | 0, _ :: ns, _ :: qs => interiorAll ns qs
  | a + 1, n :: ns, q :: qs => decide (1 ≤ q) && decide (q ≤ n) && interiorExcept a ns qs
  | _, _, _ => false

/-- `q` lies in the ghost layer `_idx_write` of a sub-grid with the given shape -/
def onFace (shape : List Nat) (axis : Nat) (upper : Bool) (q : List Nat) : Bool :=
  decide (axis < shape.length) && interiorExcept axis shape q &&
    decide (q.getD axis 0 = mpiWrite upper (shape.getD axis 0))

namespace Mesh
/-- the padded array of node `id` before any ghost cell is set: the node's share of the valid
data (addressed in the padded base array `full`), every ghost cell unwritten (`none`) -/
def initSub {α : Type} (m : Mesh) (full : Arr α) (id : Nat) (q : List Nat) : Option α :=
  if interiorAll (m.subShape id) q then some (full.get (vadd (starts (m.box false id)) q)) else none

/-- one axis of the ghost-cell exchange, all nodes at once (`BoundaryAxisBase.set_ghost_cells` for
the two `_MPIBC` sides): node `a` writes into its layer `_idx_write` what the neighbour read from
its layer `_idx_read` of valid cells (transversal `slice(1, -1)`), with the sign of `flip_sign`;
faces without a neighbour and all other cells are left alone -/
def exchangeAxis {α : Type} [Neg α] (m : Mesh) (anti : List Bool) (axis : Nat)
    (s : Nat → List Nat → Option α) : Nat → List Nat → Option α :=
  fun a q =>
    if onFace (m.subShape a) axis false q then
      match neighbor m axis false a with
      | some b => (s b (q.set axis (mpiRead true ((m.subShape b).getD axis 0)))).map
                    (sgn (mpiFlip m anti axis false a))
      | none => s a q
    else if onFace (m.subShape a) axis true q then
      match neighbor m axis true a with
      | some b => (s b (q.set axis (mpiRead false ((m.subShape b).getD axis 0)))).map
                    (sgn (mpiFlip m anti axis true a))
      | none => s a q
    else s a q

/-- the exchange along the first `n` axes, in the order of `BoundariesList.set_ghost_cells` -/
def exchangeUpTo {α : Type} [Neg α] (m : Mesh) (anti : List Bool) (s : Nat → List Nat → Option α) (n : Nat) :
    Nat → List Nat → Option α :=
  (List.range n).foldl (fun st ax => m.exchangeAxis anti ax st) s

/-- the complete exchange -/
def exchange {α : Type} [Neg α] (m : Mesh) (anti : List Bool) (s : Nat → List Nat → Option α) :
    Nat → List Nat → Option α :=
  m.exchangeUpTo anti s m.axes.length

/-- ghost cells at the outer faces come from the global boundary condition: here they are taken
from the padded base array `full` (on which the global condition has been imposed); faces with a
neighbour, corners and valid cells are left alone -/
def setOuter {α : Type} (m : Mesh) (full : Arr α) (s : Nat → List Nat → Option α) : Nat → List Nat → Option α :=
  fun a q =>
    if (List.range m.axes.length).any (fun ax =>
        (onFace (m.subShape a) ax false q && (neighbor m ax false a).isNone) ||
        (onFace (m.subShape a) ax true q && (neighbor m ax true a).isNone))
    then some (full.get (vadd (starts (m.box false a)) q)) else s a q
end Mesh

/-! ## radius-1 stencils on padded arrays -/

/-- all offsets `{0,1,2}^rank` (relative to `cell index`; the cell itself is at offset `1,..,1`
of the padded array) -/
def offs : Nat → List (List Nat)
  | 0 => [[]]
  | r + 1 => (offs r).flatMap fun t => [0 :: t, 1 :: t, 2 :: t]

/-- read all listed positions; `none` if one of the reads fails -/
def readAll {α : Type} (f : List Nat → Option α) : List (List Nat) → Option (List α)
  | [] => some []
  | d :: ds =>
    match f d, readAll f ds with
    | some x, some xs => some (x :: xs)
    | _, _ => none

/-- read the listed offsets around cell `c` from a padded array; `none` if one of them is
outside the array -/
def readNb {α : Type} (a : Arr α) (reads : List (List Nat)) (c : List Nat) : Option (List α) :=
  readAll (fun d => a.get? (vadd c d)) reads

/-- apply the stencil `S` (which may depend on the position `pos` of the cell in the base grid)
at cell `c` of the padded array `a` -/
def applyStencil {α β : Type} (S : List Nat → List α → β) (reads : List (List Nat)) (a : Arr α)
    (pos c : List Nat) : Option β :=
  (readNb a reads c).map (S pos)

/-- the same stencil on a padded sub-array given cell by cell (`none` = never written): a read of
an unwritten cell fails -/
def applyStencilOn {α β : Type} (S : List Nat → List α → β) (reads : List (List Nat))
    (t : List Nat → Option α) (pos c : List Nat) : Option β :=
  (readAll (fun d => t (vadd c d)) reads).map (S pos)

/-- a read offset of a plus-shaped stencil: all coordinates `1` (the cell itself) except at most
one, which is `0` or `2` (the package's operators never read corners or edges) -/
def plusOffset : List Nat → Bool
  | [] => true
  | d :: ds => (decide (d = 1) && plusOffset ds) || (decide (d ≤ 2) && ds.all (fun x => decide (x = 1)))

/-- the plus-shaped read set of rank `r`: the cell, then lower and upper neighbour per axis -/
def plusReads (r : Nat) : List (List Nat) :=
  List.replicate r 1 :: (List.range r).flatMap fun ax => [(List.replicate r 1).set ax 0, (List.replicate r 1).set ax 2]

/-- the Cartesian Laplacian as a function of the reads `plusReads r` (`coef = 1/dx^2` per axis):
`sum_ax (lower - 2*centre + upper) * coef_ax` -/
def laplaceOfReads {K : Type} [Add K] [Sub K] [Mul K] [NatCast K] (coef : List K) : List K → K
  | c :: rest =>
    let rec go : List K → List K → K
      | cf :: cfs, l :: h :: more => (l - ((2:Nat) : K) * c + h) * cf + go cfs more
      | _, _ => ((0:Nat) : K)
    go coef rest
  | [] => ((0:Nat) : K)

/-! ## sub-grid bounds and geometry -/
section
variable {K : Type} [Add K] [Sub K] [Mul K] [Div K] [NatCast K]

/-- `np.linspace(lo, hi, n + 1)[k]`: `k*step + lo` with the last point set to `hi` -/
def lattice (lo hi : K) (n k : Nat) : K :=
  if k = n then hi else lo + (k : K) * ((hi - lo) / (n : K))

/-- the loop of `_subdivide_along_axis`: `(cell_bounds[start], cell_bounds[end])` per chunk -/
def boundsFrom (lo hi : K) (n : Nat) : Nat → List Nat → List (K × K)
  | _, [] => []
  | start, s :: ss => (lattice lo hi n start, lattice lo hi n (start + s)) :: boundsFrom lo hi n (start + s) ss

/-- bounds of all chunks along one axis (`chunks == 1` returns the grid itself) -/
def bounds1d (lo hi : K) (sizes : List Nat) : List (K × K) :=
  if sizes.length = 1 then [(lo, hi)] else boundsFrom lo hi sizes.sum 0 sizes

/-- centre of cell `p` of a uniform axis `(a, b)` with `n` cells -/
def cellCoord (a b : K) (n p : Nat) : K :=
  a + ((p : K) + ((1:Nat) : K) / ((2:Nat) : K)) * ((b - a) / (n : K))

/-- lower edge of cell `p` of a uniform axis `(a, b)` with `n` cells (`p = n`: the upper bound) -/
def cellEdge (a b : K) (n p : Nat) : K := a + (p : K) * ((b - a) / (n : K))

/-- bounds of the sub-grid with node index `idx`, axis by axis -/
def subBounds : List (K × K) → List (List Nat) → List Nat → List (K × K)
  | (lo, hi) :: bs, sizes :: ax, i :: is => (bounds1d lo hi sizes).getD i (lo, hi) :: subBounds bs ax is
  | _, _, _ => []

end

/-! ## admissibility (`from_grid`) -/

inductive GridKind where
  | cartesian | spherical | polar | cylindrical
  deriving DecidableEq, Repr

section
variable {K : Type} [Add K] [Sub K] [Mul K] [NatCast K]
/-- volume of a grid with the given bounds, up to the constant factor of its class
(`1`, `4 pi/3`, `pi`, `pi`) -/
def volCoef (kind : GridKind) (b : List (K × K)) : K :=
  match kind, b with
  | .cartesian, _ => b.foldr (fun p acc => (p.2 - p.1) * acc) ((1:Nat) : K)
  | .spherical, [(r0, r1)] => r1 * r1 * r1 - r0 * r0 * r0
  | .polar, [(r0, r1)] => r1 * r1 - r0 * r0
  | .cylindrical, [(r0, r1), (z0, z1)] => (r1 * r1 - r0 * r0) * (z1 - z0)
  | _, _ => ((0:Nat) : K)
end

section
variable {K : Type} [Sub K] [Mul K] [NatCast K]
/-- volume of a grid whose volume element is a product of one-axis measures with antiderivatives
`Fs` (up to the constant of the class): Cartesian `F = id` on every axis, polar `[r^2]`, spherical
`[r^3]`, cylindrical `[r^2, id]` -/
def volGen : List (K → K) → List (K × K) → K
  | F :: Fs, p :: ps => (F p.2 - F p.1) * volGen Fs ps
  | _, _ => ((1:Nat) : K)
end

inductive Outcome where
  | ok
  | unknownSize        -- RuntimeError "Unknown size"
  | twoUnknown         -- ValueError "Can only specify one unknown dimension"
  | notEnoughNodes     -- RuntimeError "Not enough nodes to satisfy decomposition"
  | tooManyChunks      -- RuntimeError "Cannot divide in more chunks than support points"
  | notImplemented     -- NotImplementedError "Cylinders with hollow core are not implemented."
  | indexError         -- decomposition longer than the number of axes, extra entry > 1
  | assertionError     -- decomposition longer than the number of axes, extra entries all 1
  | nodeCount          -- RuntimeError "Node count (n) incompatible with decomposition" (mpi.size > 1)
  deriving DecidableEq, Repr

/-- parsing of `decomposition` in `from_grid` for `mpi.size = mpiSize`: `-1` is replaced by
`mpiSize // (product of the others)`, missing axes are filled with 1 -/
def parseDecomposition (mpiSize numAxes : Nat) (d : List Int) : Except Outcome (List Nat) :=
  if d.any (fun x => x = 0 ∨ x < -1) then
    -- the scan stops at the first offending entry; a second `-1` before it wins
    let pre := d.takeWhile (fun x => ¬ (x = 0 ∨ x < -1))
    if (pre.filter (· = -1)).length ≥ 2 then .error .twoUnknown else .error .unknownSize
  else if (d.filter (· = -1)).length ≥ 2 then .error .twoUnknown
  else
    let size := (d.filter (· > 0)).foldl (fun a x => a * x.toNat) 1
    let filled : Except Outcome (List Nat) :=
      if d.any (· = -1) then
        let dim := mpiSize / size
        if dim > 0 then .ok (d.map fun x => if x = -1 then dim else x.toNat) else .error .notEnoughNodes
      else .ok (d.map Int.toNat)
    match filled with
    | .error e => .error e
    | .ok l => .ok (l ++ List.replicate (numAxes - l.length) 1)

/-- outcome of subdividing axis after axis.  `r0nz`: the lower bound of axis 0 of the grids
being subdivided is non-zero (only relevant for cylinders, whose `from_bounds` refuses a
hollow core). -/
def subdivideAxes (kind : GridKind) : Bool → Nat → List Nat → List Nat → Outcome
  | r0nz, axis, n :: ns, c :: cs =>
    if c = 1 then subdivideAxes kind r0nz (axis + 1) ns cs
    else if c > n then .tooManyChunks
    else if kind = .cylindrical ∧ (axis = 0 ∨ r0nz) then .notImplemented
    else subdivideAxes kind r0nz (axis + 1) ns cs
  | r0nz, axis, [], c :: cs =>
    -- more entries than axes: `grid.shape[axis]` fails unless `chunks == 1`
    if c = 1 then subdivideAxes kind r0nz (axis + 1) [] cs else .indexError
  | _, _, _, [] => .ok

/-- outcome of `GridMesh.from_grid(grid, dec)` for an already parsed decomposition; the
constructor asserts `basegrid.num_axes == subgrids.ndim` at the very end -/
def fromGridOutcome (kind : GridKind) (r0nz : Bool) (shape dec : List Nat) : Outcome :=
  match subdivideAxes kind r0nz 0 shape dec with
  | .ok => if dec.length > shape.length then .assertionError else .ok
  | e => e

/-- `GridMesh.from_grid(grid, d)` on `mpiSize` MPI nodes, from the raw decomposition list: parse,
check the node count (`mpi.size > 1 and prod(decomposition) != mpi.size`), subdivide -/
def fromGridMpi (mpiSize : Nat) (kind : GridKind) (r0nz : Bool) (shape : List Nat) (d : List Int) :
    Outcome × Option (List Nat) :=
  match parseDecomposition mpiSize shape.length d with
  | .error e => (e, none)
  | .ok dec =>
    if mpiSize > 1 ∧ dec.prod ≠ mpiSize then (.nodeCount, some dec)
    else (fromGridOutcome kind r0nz shape dec, some dec)

/-! ## `extract_subfield`: fields and collections

A field is its padded array (`_data_full`, one `Arr` per component).  `extract_subfield(field, id, with_ghost_cells=g)`:
with `g` the sub-field's padded array is the block of the base padded array (ghost cells = the neighbours' data or the base
ghost cells); without, only the valid data are cut out of `field.data` and the new field's ghost cells are whatever
`np.empty` held (`none`).  A collection is split member by member **with the same flag** and re-assembled. -/

def Arr.map {α β : Type} (g : α → β) (a : Arr α) : Arr β := { shape := a.shape, get := fun p => g (a.get p) }

/-- `field.data`: the interior of the padded array -/
def Arr.interior {α : Type} (a : Arr α) : Arr α :=
  { shape := a.shape.map (· - 2), get := fun p => a.get (p.map (· + 1)) }

/-- every index at least one -/
def allPos (p : List Nat) : Bool := p.all (fun i => decide (1 ≤ i))

/-- `cls(grid, data=valid)`: a fresh padded array whose interior is `valid`; ghost cells undefined -/
def Arr.padUndefined {α : Type} (a : Arr α) : Arr (Option α) :=
  { shape := a.shape.map (· + 2),
    get := fun p => if allPos p && inShape (p.map (· - 1)) a.shape then some (a.get (p.map (· - 1))) else none }

namespace Mesh
/-- padded array of `extract_subfield(field, id, with_ghost_cells=ghost)` (one component) -/
def subfield {α : Type} (m : Mesh) (ghost : Bool) (full : Arr α) (id : Nat) : Arr (Option α) :=
  if ghost then (m.extract true full id).map some else (m.extract false full.interior id).padUndefined

/-- a field with several components: the same cut for every component -/
def subfieldComps {α : Type} (m : Mesh) (ghost : Bool) (comps : List (Arr α)) (id : Nat) : List (Arr (Option α)) :=
  comps.map (fun c => m.subfield ghost c id)

/-- `extract_subfield(FieldCollection, id, with_ghost_cells=ghost)`: member by member, same flag -/
def subcollection {α : Type} (m : Mesh) (ghost : Bool) (members : List (List (Arr α))) (id : Nat) :
    List (List (Arr (Option α))) :=
  members.map (fun comps => m.subfieldComps ghost comps id)
end Mesh

end PdeVerif.Mesh
