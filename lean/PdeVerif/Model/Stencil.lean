import PdeVerif.Num
/-
Model of the finite-difference kernels of py-pde
(`pde/backends/numba/operators/{cartesian,common,polar_sym,spherical_sym,cylindrical_sym}.py`;
the scipy Cartesian operators compute the same stencils through `ndimage`).  Core Lean only.

A padded array is a total function on multi-indices `List Int` = tensor component indices
(grid axes followed by symmetric axes: `(x,y,z)`, `(r,φ)`, `(r,θ,φ)`, `(r,z,φ)`) followed by one
full-array coordinate per grid axis (valid cells `1..N`, ghost cells `0`, `N+1`).  An operator
maps the padded input to the value at one valid output position `sp` (full-array coordinates)
and output component(s).
-/
namespace PdeVerif.Stencil
open PdeVerif

inductive Method | central | forward | backward
  deriving DecidableEq, Repr

/-- add `d` to entry `pos` of a multi-index -/
def shift (idx : List Int) (pos : Nat) (d : Int) : List Int :=
  idx.set pos (idx.getD pos 0 + d)

section
variable {K : Type} [Add K] [Sub K] [Mul K] [Div K] [Neg K] [NatCast K] [IntCast K]

abbrev Arr (K : Type) := List Int → K

/-- sum of a list (right fold, `0` as `((0:Nat):K)`) -/
def lsum (l : List K) : K := l.foldr (· + ·) ((0:Nat):K)

/-! ### one-dimensional building blocks (`common.py`: `make_derivative`, `make_derivative2`) -/

/-- first derivative along the array position `pos` of the multi-index -/
def d1 (m : Method) (dx : K) (a : Arr K) (idx : List Int) (pos : Nat) : K :=
  match m with
  | .central => (a (shift idx pos 1) - a (shift idx pos (-1))) / (((2:Nat):K) * dx)
  | .forward => (a (shift idx pos 1) - a idx) / dx
  | .backward => (a idx - a (shift idx pos (-1))) / dx

/-- second derivative `(a[i+1] - 2 a[i] + a[i-1]) / dx²` -/
def d2 (dx : K) (a : Arr K) (idx : List Int) (pos : Nat) : K :=
  (a (shift idx pos 1) - ((2:Nat):K) * a idx + a (shift idx pos (-1))) / (dx * dx)

/-- squared first derivative used by `gradient_squared` (`central` flag) -/
def d1sq (central : Bool) (dx : K) (a : Arr K) (idx : List Int) (pos : Nat) : K :=
  if central then
    let t := a (shift idx pos 1) - a (shift idx pos (-1))
    t * t / (((4:Nat):K) * (dx * dx))
  else
    let f := a (shift idx pos 1) - a idx
    let b := a idx - a (shift idx pos (-1))
    (f * f + b * b) / (((2:Nat):K) * (dx * dx))

/-! ### Cartesian grids (any number of axes; `dxs` = spacing per axis)

`pre` are leading component indices of the *input* that are held fixed. -/

def cartLaplace (dxs : List K) (a : Arr K) (pre sp : List Int) : K :=
  lsum ((List.range dxs.length).map fun ax => d2 (dxs.getD ax ((1:Nat):K)) a (pre ++ sp) (pre.length + ax))

/-- component `c` of the gradient of a scalar -/
def cartGradient (m : Method) (dxs : List K) (a : Arr K) (pre : List Int) (c : Nat) (sp : List Int) : K :=
  d1 m (dxs.getD c ((1:Nat):K)) a (pre ++ sp) (pre.length + c)

def cartGradientSquared (central : Bool) (dxs : List K) (a : Arr K) (sp : List Int) : K :=
  lsum ((List.range dxs.length).map fun ax => d1sq central (dxs.getD ax ((1:Nat):K)) a sp ax)

/-- divergence of the vector whose components are `a (pre ++ [c] ++ sp)` -/
def cartDivergence (m : Method) (dxs : List K) (a : Arr K) (pre sp : List Int) : K :=
  lsum ((List.range dxs.length).map fun c =>
    d1 m (dxs.getD c ((1:Nat):K)) a (pre ++ [(c:Int)] ++ sp) (pre.length + 1 + c))

/-- `vector_gradient[i, j] = ∂_j v_i` (`_vectorize_operator(make_gradient)`) -/
def cartVectorGradient (m : Method) (dxs : List K) (a : Arr K) (i j : Nat) (sp : List Int) : K :=
  cartGradient m dxs a [(i:Int)] j sp

/-- `vector_laplace[i] = laplace(v_i)` -/
def cartVectorLaplace (dxs : List K) (a : Arr K) (i : Nat) (sp : List Int) : K :=
  cartLaplace dxs a [(i:Int)] sp

/-- `tensor_divergence[i] = Σ_j ∂_j t_ij` -/
def cartTensorDivergence (m : Method) (dxs : List K) (a : Arr K) (i : Nat) (sp : List Int) : K :=
  cartDivergence m dxs a [(i:Int)] sp

/-! ### 2-d Cartesian 9-point Laplacian (`_make_laplace_numba_2d` with `corner_weight ≠ 0`)

The kernel first overwrites the four corner ghost points of the padded `(nx+2) × (ny+2)` array
(`make_corner_point_setter_2d`: copied across a periodic axis, interpolated otherwise) and then applies the
3 × 3 stencil. -/

/-- the value written to the corner `(ci, cj)` (`false` = index 0, `true` = index `n+1`) -/
def cornerValue (px py : Bool) (nx ny : Nat) (a : Arr K) (ci cj : Bool) : K :=
  let I : Int := if ci then (nx:Int) + 1 else 0
  let J : Int := if cj then (ny:Int) + 1 else 0
  if px then a [if ci then 1 else (nx:Int), J]
  else if py then a [I, if cj then 1 else (ny:Int)]
  else (a [I, if cj then (ny:Int) else 1] + a [if ci then (nx:Int) else 1, J]) / ((2:Nat):K)

/-- the padded array after `set_corner_points` -/
def withCorners (px py : Bool) (nx ny : Nat) (a : Arr K) : Arr K := fun idx =>
  match idx with
  | [i, j] =>
    if i = 0 ∧ j = 0 then cornerValue px py nx ny a false false
    else if i = (nx:Int) + 1 ∧ j = 0 then cornerValue px py nx ny a true false
    else if i = 0 ∧ j = (ny:Int) + 1 then cornerValue px py nx ny a false true
    else if i = (nx:Int) + 1 ∧ j = (ny:Int) + 1 then cornerValue px py nx ny a true true
    else a idx
  | _ => a idx

/-- the 3 × 3 stencil with corner weight `w` applied to an array (no corner treatment) -/
def stencil9 (w dx dy : K) (b : Arr K) (i j : Int) : K :=
  let dxm2 := ((1:Nat):K) / (dx * dx)
  let dym2 := ((1:Nat):K) / (dy * dy)
  let dm2 := dxm2 + dym2
  let cw := dm2 * w / ((4:Nat):K)
  cw * (b [i-1, j-1] + b [i-1, j+1] + b [i+1, j-1] + b [i+1, j+1])
    + dxm2 * (((1:Nat):K) - w) * (b [i-1, j] + b [i+1, j])
    + dym2 * (((1:Nat):K) - w) * (b [i, j-1] + b [i, j+1])
    + dm2 * (w - ((2:Nat):K)) * b [i, j]

/-- the operator: corner points set, then the stencil -/
def cartLaplace9 (w dx dy : K) (px py : Bool) (nx ny : Nat) (a : Arr K) (i j : Int) : K :=
  stencil9 w dx dy (withCorners px py nx ny a) i j

/-! ### radially symmetric grids: `r i` is the centre of full-array cell `i`, `dr` the spacing -/

/-- cell centre `r_min + (i - 1/2) dr` of full-array index `i` -/
def centre (rmin dr : K) (i : Int) : K := rmin + ((i:K) - ((1:Nat):K) / ((2:Nat):K)) * dr

/-! #### polar (components `(r, φ)`) -/

def polarLaplace (r : Int → K) (dr : K) (a : Arr K) (i : Int) : K :=
  (a [i+1] - ((2:Nat):K) * a [i] + a [i-1]) / (dr * dr)
    + (a [i+1] - a [i-1]) / (((2:Nat):K) * r i * dr)

def polarGradient (m : Method) (dr : K) (a : Arr K) (c : Nat) (i : Int) : K :=
  if c = 0 then d1 m dr a [i] 0 else ((0:Nat):K)

def polarDivergence (r : Int → K) (dr : K) (a : Arr K) (i : Int) : K :=
  (a [0, i+1] - a [0, i-1]) / (((2:Nat):K) * dr) + a [0, i] / r i

/-- `out[c1, c2]` of the polar `vector_gradient` -/
def polarVectorGradient (r : Int → K) (dr : K) (a : Arr K) (c1 c2 : Nat) (i : Int) : K :=
  match c1, c2 with
  | 0, 0 => (a [0, i+1] - a [0, i-1]) / (((2:Nat):K) * dr)
  | 0, 1 => -(a [1, i]) / r i
  | 1, 0 => (a [1, i+1] - a [1, i-1]) / (((2:Nat):K) * dr)
  | 1, 1 => a [0, i] / r i
  | _, _ => ((0:Nat):K)

def polarTensorDivergence (r : Int → K) (dr : K) (a : Arr K) (c : Nat) (i : Int) : K :=
  match c with
  | 0 => (a [0, 0, i+1] - a [0, 0, i-1]) / (((2:Nat):K) * dr) + (a [0, 0, i] - a [1, 1, i]) / r i
  | 1 => (a [1, 0, i+1] - a [1, 0, i-1]) / (((2:Nat):K) * dr) + (a [0, 1, i] + a [1, 0, i]) / r i
  | _ => ((0:Nat):K)

/-! #### spherical (components `(r, θ, φ)`) -/

/-- `(rh³ - rl³)/3`: the quantity called `volumes` in the conservative kernels -/
def shellThird (rl rh : K) : K := (rh * rh * rh - rl * rl * rl) / ((3:Nat):K)

def sphLaplace (conservative : Bool) (r : Int → K) (dr : K) (a : Arr K) (i : Int) : K :=
  if conservative then
    let rl := r i - dr / ((2:Nat):K)
    let rh := r i + dr / ((2:Nat):K)
    let vol := shellThird rl rh
    rh * rh / (dr * vol) * (a [i+1] - a [i]) - rl * rl / (dr * vol) * (a [i] - a [i-1])
  else
    (a [i+1] - ((2:Nat):K) * a [i] + a [i-1]) / (dr * dr) + (a [i+1] - a [i-1]) / (r i * dr)

def sphGradient (m : Method) (dr : K) (a : Arr K) (c : Nat) (i : Int) : K :=
  if c = 0 then d1 m dr a [i] 0 else ((0:Nat):K)

def sphDivergence (conservative : Bool) (m : Method) (r : Int → K) (dr : K) (a : Arr K) (i : Int) : K :=
  if conservative then
    let rl := r i - dr / ((2:Nat):K)
    let rh := r i + dr / ((2:Nat):K)
    let vol := shellThird rl rh
    let fl := rl * rl / (((2:Nat):K) * vol)
    let fh := rh * rh / (((2:Nat):K) * vol)
    match m with
    | .central => fh * (a [0, i] + a [0, i+1]) - fl * (a [0, i-1] + a [0, i])
    | .forward => ((2:Nat):K) * fh * a [0, i+1] - ((2:Nat):K) * fl * a [0, i]
    | .backward => ((2:Nat):K) * fh * a [0, i] - ((2:Nat):K) * fl * a [0, i-1]
  else
    d1 m dr a [0, i] 1 + ((2:Nat):K) / r i * a [0, i]

def sphVectorGradient (m : Method) (r : Int → K) (dr : K) (a : Arr K) (c1 c2 : Nat) (i : Int) : K :=
  match c1, c2 with
  | 0, 0 => d1 m dr a [0, i] 1
  | 1, 1 => a [0, i] / r i
  | 2, 2 => a [0, i] / r i
  | _, _ => ((0:Nat):K)

def sphTensorDivergence (conservative : Bool) (r : Int → K) (dr : K) (a : Arr K) (c : Nat) (i : Int) : K :=
  if conservative then
    let rl := r i - dr / ((2:Nat):K)
    let rh := r i + dr / ((2:Nat):K)
    let vol := shellThird rl rh
    let fl := rl * rl / (((2:Nat):K) * vol)
    let fh := rh * rh / (((2:Nat):K) * vol)
    let area := (rh * rh - rl * rl) / vol
    match c with
    | 0 => fh * (a [0, 0, i] + a [0, 0, i+1]) - fl * (a [0, 0, i-1] + a [0, 0, i]) - area * a [2, 2, i]
    | _ => ((0:Nat):K)
  else
    let dc (p q : Int) : K := (a [p, q, i+1] - a [p, q, i-1]) / (((2:Nat):K) * dr)
    match c with
    | 0 => dc 0 0 + ((2:Nat):K) * (a [0, 0, i] - a [2, 2, i]) / r i
    | 1 => dc 1 0 + ((2:Nat):K) * a [1, 0, i] / r i
    | 2 => dc 2 0 + (((2:Nat):K) * a [2, 0, i] + a [0, 2, i]) / r i
    | _ => ((0:Nat):K)

def sphTensorDoubleDivergence (conservative : Bool) (r : Int → K) (dr : K) (a : Arr K) (i : Int) : K :=
  if conservative then
    let rl := r i - dr / ((2:Nat):K)
    let rh := r i + dr / ((2:Nat):K)
    let vol := shellThird rl rh
    let fl := rl / vol
    let fh := rh / vol
    let f2l := rl * rl / (dr * vol)
    let f2h := rh * rh / (dr * vol)
    let rrh := fh * (a [0, 0, i] + a [0, 0, i+1]) + f2h * (a [0, 0, i+1] - a [0, 0, i])
    let rrl := fl * (a [0, 0, i-1] + a [0, 0, i]) + f2l * (a [0, 0, i] - a [0, 0, i-1])
    let pp := fh * (a [2, 2, i] + a [2, 2, i+1]) - fl * (a [2, 2, i-1] + a [2, 2, i])
    (rrh - rrl) - pp
  else
    let rrdr := (a [0, 0, i+1] - a [0, 0, i-1]) / (((2:Nat):K) * dr)
    let ppdr := (a [2, 2, i+1] - a [2, 2, i-1]) / (((2:Nat):K) * dr)
    let term1 := (a [0, 0, i+1] - a [0, 0, i-1]) / (r i * dr)
    let term2 := (a [0, 0, i+1] - ((2:Nat):K) * a [0, 0, i] + a [0, 0, i-1]) / (dr * dr)
    let enum := (a [0, 0, i] - a [2, 2, i]) / r i + rrdr - ppdr
    term1 + term2 + ((2:Nat):K) * enum / r i

/-! #### cylindrical (axes `(r, z)`, components `(r, z, φ)`) -/

def cylLaplace (r : Int → K) (dr dz : K) (a : Arr K) (i j : Int) : K :=
  (a [i+1, j] - ((2:Nat):K) * a [i, j] + a [i-1, j]) / (dr * dr)
    + (a [i+1, j] - a [i-1, j]) / (((2:Nat):K) * r i * dr)
    + (a [i, j-1] - ((2:Nat):K) * a [i, j] + a [i, j+1]) / (dz * dz)

def cylGradient (dr dz : K) (a : Arr K) (c : Nat) (i j : Int) : K :=
  match c with
  | 0 => (a [i+1, j] - a [i-1, j]) / (((2:Nat):K) * dr)
  | 1 => (a [i, j+1] - a [i, j-1]) / (((2:Nat):K) * dz)
  | _ => ((0:Nat):K)

def cylGradientSquared (central : Bool) (dr dz : K) (a : Arr K) (i j : Int) : K :=
  d1sq central dr a [i, j] 0 + d1sq central dz a [i, j] 1

def cylDivergence (r : Int → K) (dr dz : K) (a : Arr K) (i j : Int) : K :=
  a [0, i, j] / r i + (a [0, i+1, j] - a [0, i-1, j]) / (((2:Nat):K) * dr)
    + (a [1, i, j+1] - a [1, i, j-1]) / (((2:Nat):K) * dz)

def cylVectorGradient (r : Int → K) (dr dz : K) (a : Arr K) (c1 c2 : Nat) (i j : Int) : K :=
  let ddr (c : Int) : K := (a [c, i+1, j] - a [c, i-1, j]) / (((2:Nat):K) * dr)
  let ddz (c : Int) : K := (a [c, i, j+1] - a [c, i, j-1]) / (((2:Nat):K) * dz)
  match c1, c2 with
  | 0, 0 => ddr 0
  | 2, 0 => ddr 2
  | 1, 0 => ddr 1
  | 0, 2 => -(a [2, i, j]) / r i
  | 2, 2 => a [0, i, j] / r i
  | 1, 2 => ((0:Nat):K)
  | 0, 1 => ddz 0
  | 2, 1 => ddz 2
  | 1, 1 => ddz 1
  | _, _ => ((0:Nat):K)

def cylVectorLaplace (r : Int → K) (dr dz : K) (a : Arr K) (c : Nat) (i j : Int) : K :=
  let zz (c : Int) : K := (a [c, i, j+1] - ((2:Nat):K) * a [c, i, j] + a [c, i, j-1]) / (dz * dz)
  let rr (c : Int) : K := (a [c, i+1, j] - ((2:Nat):K) * a [c, i, j] + a [c, i-1, j]) / (dr * dr)
  let r1 (c : Int) : K := (a [c, i+1, j] - a [c, i-1, j]) / (((2:Nat):K) * dr) / r i
  match c with
  | 0 => zz 0 - a [0, i, j] / (r i * r i) + r1 0 + rr 0
  | 2 => zz 2 - a [2, i, j] / (r i * r i) + r1 2 + rr 2
  | 1 => zz 1 + r1 1 + rr 1
  | _ => ((0:Nat):K)

def cylTensorDivergence (r : Int → K) (dr dz : K) (a : Arr K) (c : Nat) (i j : Int) : K :=
  let ddr (p q : Int) : K := (a [p, q, i+1, j] - a [p, q, i-1, j]) / (((2:Nat):K) * dr)
  let ddz (p q : Int) : K := (a [p, q, i, j+1] - a [p, q, i, j-1]) / (((2:Nat):K) * dz)
  match c with
  | 0 => ddz 0 1 + ddr 0 0 + (a [0, 0, i, j] - a [2, 2, i, j]) / r i
  | 2 => ddz 2 1 + ddr 2 0 + (a [0, 2, i, j] + a [2, 0, i, j]) / r i
  | 1 => ddz 1 1 + ddr 1 0 + a [1, 0, i, j] / r i
  | _ => ((0:Nat):K)

end
end PdeVerif.Stencil
