import PdeVerif.Num
/-
Model of the caches of py-pde (property C04).  Core Lean only.

(i)   `PyObj`: the Python object graphs that reach `hash_mutable` (`pde/tools/cache.py`).
(ii)  `hashMutableG`: `hash_mutable` branch by branch.  The builtin `hash` is idealised as
      injective on canonical forms, so a key is a canonical *term* (`Key`), not an integer.
      What CPython's `hash` does systematically (not by chance) is modelled exactly
      (`builtinKey`): the numeric hash (`pyHashNum`: reduction modulo `2^61-1`,
      `hash(-1) = -2`, a float hashes like the equal integer/fraction), `hash(None)`,
      `hash(inf)`, the complex combination, `hash('') = hash(b'') = 0`, ASCII `str` and
      `bytes` with the same bytes hash alike; lists and tuples hash alike.
      The derivation is parametrised by `Deriv`: `Deriv.cur` is the code as it is now
      (the `__dict__` fallback includes the class name - fix F1; numbers are keyed by the
      text of their exact value - fix A; arrays by `(dtype.str, shape, tobytes())`
      - fix B; `GridBase._cache_hash` hashes its tuple through `hash_mutable` - fix D);
      switching one flag off gives the derivation before the respective fix (used for the
      regression witnesses).
(iii) `_class_cache`: the per-instance `_cache_methods` dictionary, `lookup-or-compute`
      keyed by that hash, `ignore_args`/`extra_args`, finite-capacity factories, and the
      invalidation (`__dict__.pop("_cache_methods")`).
(iv)  the object graphs of the arguments that reach the cached methods: grids
      (`_cache_hash`), `BoundariesList -> BoundaryPair/BoundaryPeriodic -> BCBase`
      subclasses with their instance attributes, `OperatorInfo`, dtype, kwargs.
(v)   cached helpers that captured a buffer identity (`make_interpolator`, and the prepared
      right-hand side of a `PDE` with a field-valued constant), and the numba-compiled
      right-hand side, which carries a COPY of the constant's content made at compile time.
(vi)  the operator registry (`BackendBase._operators`, `register_operator`, `get_operator_info`)
      and the caches that can be asked with an operator NAME: `GridBase.make_operator_no_bc`
      (per grid object), `NumbaBackend.make_operator` (per backend), the prepared right-hand
      side of a `PDE` object.  A request carries the registration table of the moment of the
      call; the key is derived either from the name only (`NameKey.byName`) or from the
      `OperatorInfo` the name resolves to (`NameKey.byInfo`: the registration is part of the key).
(vii) the operator table `PDE._prepare_cache` builds for the right-hand sides of the variables
      (`_add_operators_to_expr`: `if func in ops: continue`), parametrised by the key of the
      table: `(variable, operator)` (every variable gets its own `.copy()` of the general table:
      the code as it is) or the operator name only (one table for all variables), and the
      selection of the boundary condition for `VARIABLE:OPERATOR` (`PDE.bcs`, first match in
      dictionary order, wildcard `*`).
-/
namespace PdeVerif.Cache

/-! ## (i) object graphs -/

/-- the value of a number: finite real `m * 2^e` (`int`, `bool`: `e = 0`; a complex number with
zero imaginary part counts as its real part), infinity, a complex number with non-zero imaginary
part `(rm*2^re) + (im*2^ie) j` together with the text `repr(complex(x) + 0.0)`, or a NaN (hashed
by identity by the builtin `hash`) -/
inductive NumVal where
  | fin (m e : Int)
  | inf (neg : Bool)
  | cplx (rm re im ie : Int) (txt : String)
  | nan (ident : Nat)
deriving Repr, DecidableEq, Inhabited

/-- Python objects as seen by `hash_mutable`. -/
inductive PyObj where
  /-- `None` -/
  | none
  /-- `numpy.bool_`: not a `numbers.Number`, hashed by the builtin `hash` -/
  | bool (b : Bool)
  /-- a `numbers.Number` (including Python's `bool`): class `__name__`, `repr(obj)`, value -/
  | num (cls : String) (repr : String) (v : NumVal)
  | str (s : String)
  /-- `bytes` given by the byte values -/
  | bytes (b : List Nat)
  | tuple (l : List PyObj)
  | list (l : List PyObj)
  /-- `dict` (or another unordered mapping) with string keys, in insertion order -/
  | dict (l : List (String × PyObj))
  /-- `collections.OrderedDict` with string keys -/
  | odict (l : List (String × PyObj))
  /-- `numpy.ndarray`: dtype, shape and the bytes of `tobytes()` -/
  | ndarray (dtype : String) (shape : List Nat) (b : List Nat)
  | slice (start stop step : PyObj)
  /-- any other hashable leaf (function, class, `numpy.dtype`, sympy expression, `nan`, ...):
  `tag` is a canonical name of its equality class under `==`/`hash` (identity for
  functions and plain objects) -/
  | atom (tag : String)
  /-- an object with a `_cache_hash` method returning the builtin `hash(ch)` (`_MPIBC`) -/
  | hobj (cls : String) (ch : PyObj)
  /-- a grid: `GridBase._cache_hash` hashes the tuple `ch` -/
  | gridObj (cls : String) (ch : PyObj)
  /-- any other object: class `__qualname__`, whether the class defines `__eq__` without
  `__hash__` (then it is unhashable), its identity, its `__dict__` in insertion order -/
  | obj (cls : String) (eqDefined : Bool) (ident : Nat) (attrs : List (String × PyObj))
deriving Repr, Inhabited

/-! ## keys: canonical terms -/

inductive Leaf where
  /-- an integer hash value (numbers, `None`, empty buffers) -/
  | int (h : Int)
  /-- the hash of a non-empty byte buffer (bytes, ASCII str, `ndarray.tobytes()`) -/
  | raw (b : List Nat)
  /-- a `str` with non-ASCII characters -/
  | ustr (s : String)
  | atom (tag : String)
  /-- identity hash of a plain object -/
  | ident (n : Nat)
  /-- a dictionary key inside the pair `(k, hash_mutable(v))` -/
  | name (s : String)
deriving DecidableEq, Repr

inductive Key where
  | leaf (l : Leaf)
  /-- `hash(tuple(...))` -/
  | tup (l : List Key)
  /-- `hash(frozenset(...))` of pairs, canonical order -/
  | fset (l : List Key)
deriving Repr, Inhabited

mutual
def Key.decEq : (a b : Key) → Decidable (a = b)
  | .leaf x, .leaf y =>
    if h : x = y then isTrue (by rw [h]) else isFalse (by intro e; cases e; exact h rfl)
  | .tup x, .tup y => match Key.decEqList x y with
    | isTrue h => isTrue (by rw [h])
    | isFalse h => isFalse (by intro e; cases e; exact h rfl)
  | .fset x, .fset y => match Key.decEqList x y with
    | isTrue h => isTrue (by rw [h])
    | isFalse h => isFalse (by intro e; cases e; exact h rfl)
  | .leaf _, .tup _ => isFalse nofun
  | .leaf _, .fset _ => isFalse nofun
  | .tup _, .leaf _ => isFalse nofun
  | .tup _, .fset _ => isFalse nofun
  | .fset _, .leaf _ => isFalse nofun
  | .fset _, .tup _ => isFalse nofun
def Key.decEqList : (a b : List Key) → Decidable (a = b)
  | [], [] => isTrue rfl
  | [], _ :: _ => isFalse nofun
  | _ :: _, [] => isFalse nofun
  | x :: xs, y :: ys => match Key.decEq x y, Key.decEqList xs ys with
    | isTrue h, isTrue h' => isTrue (by rw [h, h'])
    | isFalse h, _ => isFalse (by intro e; cases e; exact h rfl)
    | _, isFalse h => isFalse (by intro e; cases e; exact h rfl)
end
instance : DecidableEq Key := Key.decEq

/-! ## CPython's systematic hash values -/

/-- `sys.hash_info.modulus = 2^61 - 1` -/
def hashModulus : Nat := 2305843009213693951

/-- `hash(x)` of the finite real number `x = m * 2^e` (`int`, `bool`, `float`, `Fraction`,
numpy scalars): `|m| * 2^e` reduced modulo the Mersenne prime `2^61-1` (where
`2^61 = 1`, so `2^e = 2^(e mod 61)` also for negative `e`), with the sign of `m`, and
`-1` replaced by `-2`. -/
def pyHashNum (m e : Int) : Int :=
  let a : Nat := m.natAbs % hashModulus
  let k : Nat := (e % 61).toNat
  let h : Nat := (a * 2 ^ k) % hashModulus
  let s : Int := if m < 0 then -(h : Int) else (h : Int)
  if s = -1 then -2 else s

/-- `hash(float('inf')) = sys.hash_info.inf` -/
def pyHashInf (neg : Bool) : Int := if neg then -314159 else 314159

/-- reinterpretation of an integer as a signed 64-bit value (`Py_hash_t`) -/
def wrap64 (x : Int) : Int :=
  let u := x % 18446744073709551616
  if u < 9223372036854775808 then u else u - 18446744073709551616

/-- `hash(complex)`: `hash(re) + sys.hash_info.imag * hash(im)` in 64-bit arithmetic -/
def pyHashComplex (hr hi : Int) : Int :=
  let s := wrap64 (hr + 1000003 * hi)
  if s = -1 then -2 else s

/-- `hash(None)` (CPython 3.12+: a constant) -/
def pyHashNone : Int := 4238894112

/-- hash of a byte buffer: the empty buffer hashes to 0 -/
def rawKey (b : List Nat) : Key := if b = [] then .leaf (.int 0) else .leaf (.raw b)

/-- `hash(str)`: the hash of the bytes for ASCII strings (CPython stores them one byte per
character and hashes the buffer), otherwise a value of its own -/
def strKey (s : String) : Key :=
  if s.toList.all (fun c => c.toNat < 128) then rawKey (s.toList.map Char.toNat)
  else .leaf (.ustr s)

/-- builtin `hash` of a number -/
def pyHashVal : NumVal → Leaf
  | .fin m e => .int (pyHashNum m e)
  | .inf neg => .int (pyHashInf neg)
  | .cplx rm re im ie _ => .int (pyHashComplex (pyHashNum rm re) (pyHashNum im ie))
  | .nan ident => .ident ident

/-- number of factors 2 that can be cancelled between `m` and `2^k` -/
def cancel2 : Nat → Int → Nat
  | 0, _ => 0
  | k + 1, m => if m % 2 = 0 then cancel2 k (m / 2) + 1 else 0

/-- `str(fractions.Fraction(x))` for `x = m * 2^e`: the integer, or `p/q` in lowest terms -/
def fracText (m e : Int) : String :=
  if 0 ≤ e then Int.repr (m * 2 ^ e.toNat)
  else
    let k := e.natAbs
    let t := cancel2 k m
    let p := m / 2 ^ t
    let q : Nat := 2 ^ (k - t)
    if q = 1 then Int.repr p else Int.repr p ++ "/" ++ Nat.repr q

/-- the text of the exact value hashed by the number branch of `hash_mutable`:
`str(Fraction(x))` for finite reals, `repr(complex(x) + 0.0)` otherwise -/
def numText : NumVal → String
  | .fin m e => fracText m e
  | .inf neg => if neg then "(-inf+0j)" else "(inf+0j)"
  | .cplx _ _ _ _ txt => txt
  | .nan _ => "(nan+0j)"

def boolKey (b : Bool) : Key := .leaf (.int (if b then 1 else 0))

/-! ## (ii) `hash_mutable` -/

/-- which key derivation: the flags are the three repairs of `hash_mutable` -/
structure Deriv where
  /-- fix F1: `hash((qualname, hash_mutable(__dict__)))` instead of `hash_mutable(__dict__)` -/
  withClass : Bool
  /-- fix A: numbers (incl. `bool`) keyed by `("number", text of the exact value)` instead of the
  builtin numeric hash -/
  numRepr : Bool
  /-- fix B: arrays keyed by `(dtype.str, shape, tobytes())` instead of `tobytes()` -/
  arrMeta : Bool
  /-- `GridBase._cache_hash` goes through `hash_mutable` (numbers keyed by repr) instead of the
  builtin `hash` of the tuple -/
  gridRepr : Bool
deriving Repr, DecidableEq

/-- the code as it is now -/
def Deriv.cur : Deriv := ⟨true, true, true, true⟩
def Deriv.beforeF1 : Deriv := { Deriv.cur with withClass := false }
def Deriv.beforeA : Deriv := { Deriv.cur with numRepr := false }
def Deriv.beforeB : Deriv := { Deriv.cur with arrMeta := false }
/-- before fix D: grids hashed with the builtin `hash` -/
def Deriv.beforeD : Deriv := { Deriv.cur with gridRepr := false }

/-- canonical order of the pairs of a frozenset built from a `dict`: by key name -/
def insertAttr (a : String × Key) : List (String × Key) → List (String × Key)
  | [] => [a]
  | b :: bs => if a.1 ≤ b.1 then a :: b :: bs else b :: insertAttr a bs

def sortAttrs : List (String × Key) → List (String × Key)
  | [] => []
  | a :: as => insertAttr a (sortAttrs as)

/-- the element `(k, hash_mutable(v))` -/
def pairKey (p : String × Key) : Key := .tup [.leaf (.name p.1), p.2]

/-- `hash(frozenset((k, hash_mutable(v)) for k, v in sorted(d.items()) if ...))` -/
def dictKey (l : List (String × Key)) : Key := .fset ((sortAttrs l).map pairKey)

/-- `_hash_iter((k, hash_mutable(v)) for k, v in od.items() if ...)` (order matters) -/
def odictKey (l : List (String × Key)) : Key := .tup (l.map pairKey)

/-- `isinstance(k, str) and k.startswith("_cache")` -/
def isCacheAttr (k : String) : Bool := "_cache".toList.isPrefixOf k.toList

/-- key of an `ndarray` -/
def arrKey (d : Deriv) (dtype : String) (shape : List Nat) (b : List Nat) : Key :=
  if d.arrMeta then
    .tup [strKey dtype, .tup (shape.map fun (n : Nat) => .leaf (.int (pyHashNum (n : Int) 0))), rawKey b]
  else rawKey b

/-- key of a `numbers.Number`: `hash(("number", str(Fraction(x))))` resp. `hash(("number",
repr(complex(x) + 0.0)))`; equal numbers of different classes share the key -/
def numKey (d : Deriv) (v : NumVal) : Key :=
  if d.numRepr then .tup [strKey "number", strKey (numText v)] else .leaf (pyHashVal v)

mutual
/-- the builtin `hash(obj)` of a hashable object (as used inside the `_cache_hash` methods and
in the last branch of `hash_mutable`); unhashable arguments raise `TypeError` -/
def builtinKey (d : Deriv) : PyObj → Key
  | .none => .leaf (.int pyHashNone)
  | .bool b => boolKey b
  | .num _ _ v => .leaf (pyHashVal v)
  | .str s => strKey s
  | .bytes b => rawKey b
  | .atom tag => .leaf (.atom tag)
  | .tuple l => .tup (builtinList d l)
  -- the integer returned by `x._cache_hash()` as an element of a hashed tuple
  | .hobj _ ch => builtinKey d ch
  | .gridObj _ ch => if d.gridRepr then hashMutableG d ch else builtinKey d ch
  | .obj _ false ident _ => .leaf (.ident ident)
  | _ => .leaf (.atom "TypeError: unhashable type")
def builtinList (d : Deriv) : List PyObj → List Key
  | [] => []
  | x :: xs => builtinKey d x :: builtinList d xs
/-- `hash_mutable(obj)` -/
def hashMutableG (d : Deriv) : PyObj → Key
  -- `if hasattr(obj, "_cache_hash"): return int(obj._cache_hash())`
  | .hobj _ ch => builtinKey d ch
  | .gridObj _ ch => if d.gridRepr then hashMutableG d ch else builtinKey d ch
  -- `isinstance(obj, (list, tuple))`
  | .tuple l => .tup (hashListG d l)
  | .list l => .tup (hashListG d l)
  -- `collections.OrderedDict`
  | .odict l => odictKey (hashAttrsG d l)
  -- unordered mappings
  | .dict l => dictKey (hashAttrsG d l)
  -- `np.ndarray`
  | .ndarray dtype shape b => arrKey d dtype shape b
  -- `slice`: `hash((start, stop, step))`
  | .slice a b c => .tup [builtinKey d a, builtinKey d b, builtinKey d c]
  -- `isinstance(obj, numbers.Number)`
  | .num _ _ v => numKey d v
  -- `hash(obj)` succeeds
  | .none => .leaf (.int pyHashNone)
  | .bool b => boolKey b
  | .str s => strKey s
  | .bytes b => rawKey b
  | .atom tag => .leaf (.atom tag)
  | .obj cls eqDefined ident attrs =>
    if eqDefined then
      -- `hash(obj)` raises TypeError, `sha1(obj)` raises TypeError: the `__dict__` fallback
      if d.withClass then .tup [strKey cls, dictKey (hashAttrsG d attrs)]
      else dictKey (hashAttrsG d attrs)
    else .leaf (.ident ident)
def hashListG (d : Deriv) : List PyObj → List Key
  | [] => []
  | x :: xs => hashMutableG d x :: hashListG d xs
/-- the generator `(k, hash_mutable(v)) for k, v in ... if not k.startswith("_cache")` -/
def hashAttrsG (d : Deriv) : List (String × PyObj) → List (String × Key)
  | [] => []
  | (k, v) :: xs =>
    if isCacheAttr k then hashAttrsG d xs
    else (k, hashMutableG d v) :: hashAttrsG d xs
end

/-- `hash_mutable` of the current tree -/
abbrev hashMutable : PyObj → Key := hashMutableG Deriv.cur
/-- `hash_mutable` before fix F1 (class name missing in the `__dict__` fallback) -/
abbrev hashMutableOld : PyObj → Key := hashMutableG Deriv.beforeF1

/-- the key computed by `_class_cache.wrapper`:
`hash_key(tuple([args, kwargs_without_ignored] + [getattr(obj, a) for a in extra_args]))` -/
def cacheKeyG (d : Deriv) (ignore : List String) (extra : List PyObj)
    (args : List PyObj) (kwargs : List (String × PyObj)) : Key :=
  hashMutableG d
    (.tuple ([.tuple args, .dict (kwargs.filter (fun kv => !ignore.contains kv.1))] ++ extra))

abbrev cacheKey := cacheKeyG Deriv.cur

/-! ## (iii) the method cache as a state machine -/

section Machine
variable {Req κ V : Type} [DecidableEq κ]

/-- one cached call on the dictionary of one method: look up by key, otherwise compute and
store.  `cap`: capacity of a `DictFiniteCapacity` factory (`none` for a plain `dict`);
the list is newest-first, `check_length` drops the oldest entries. -/
def call (cap : Option Nat) (key : Req → κ) (sem : Req → V) (c : List (κ × V)) (r : Req) :
    List (κ × V) × V :=
  match c.lookup (key r) with
  | some v => (c, v)
  | none =>
    let c' := (key r, sem r) :: c
    ((match cap with | none => c' | some n => c'.take n), sem r)

/-- all answers of a history of requests on one method cache -/
def runAll (cap : Option Nat) (key : Req → κ) (sem : Req → V) :
    List (κ × V) → List Req → List V
  | _, [] => []
  | c, r :: rs => (call cap key sem c r).2 :: runAll cap key sem (call cap key sem c r).1 rs

/-- `obj._cache_methods`: `none` = the attribute does not exist -/
abbrev Methods (κ V : Type) := Option (List (String × List (κ × V)))

/-- `obj._cache_methods[name]`, created empty on AttributeError/KeyError -/
def methodCache (m : Methods κ V) (name : String) : List (κ × V) :=
  match m with
  | none => []
  | some d => (d.lookup name).getD []

def setMethodCache (m : Methods κ V) (name : String) (c : List (κ × V)) : Methods κ V :=
  match m with
  | none => some [(name, c)]
  | some d => some ((name, c) :: d.filter (fun p => p.1 != name))

/-- a call of the cached method `name` of one instance -/
def callMethod (cap : Option Nat) (key : String → Req → κ) (sem : String → Req → V)
    (m : Methods κ V) (name : String) (r : Req) : Methods κ V × V :=
  let res := call cap (key name) (sem name) (methodCache m name) r
  (setMethodCache m name res.1, res.2)

/-- events on one instance: a cached call, or the invalidation
`self.__dict__.pop("_cache_methods", None)` (also: `_cache_methods = {}`) -/
inductive Ev (Req : Type) where
  | call (name : String) (r : Req)
  | drop
deriving Repr

def runEvents (cap : Option Nat) (key : String → Req → κ) (sem : String → Req → V) :
    Methods κ V → List (Ev Req) → List V
  | _, [] => []
  | m, .call n r :: es =>
    (callMethod cap key sem m n r).2 :: runEvents cap key sem (callMethod cap key sem m n r).1 es
  | _, .drop :: es => runEvents cap key sem none es

/-- what a history of events returns without any cache -/
def freshEvents (sem : String → Req → V) : List (Ev Req) → List V
  | [] => []
  | .call n r :: es => sem n r :: freshEvents sem es
  | .drop :: es => freshEvents sem es

end Machine

/-! ## (viii) the process: any number of objects, each with its own caches

The concrete registries of the package: every object (the backend singletons, every grid, every
field, every toy instance of the decorator) owns its dictionary `obj._cache_methods`
(`_class_cache.wrapper`); a `PDE` object owns `self._cache`, a dictionary with ONE slot per
backend name (`cache = self._cache[backend.name] = {}` on a miss, reused while
`state.attributes == cache["state_attributes"]`), i.e. a method cache of capacity 1 whose
"method name" is the backend name.  A history of a process is a list of events, each on some
object; the capacity may depend on the object and the method. -/

section Process
variable {Req κ V : Type} [DecidableEq κ]

/-- the caches of a process: object id -> its `_cache_methods` (absent = never touched) -/
abbrev Proc (κ V : Type) := List (Nat × Methods κ V)

def Proc.get (p : Proc κ V) (o : Nat) : Methods κ V :=
  match p.lookup o with
  | some m => m
  | none => none

def Proc.set (p : Proc κ V) (o : Nat) (m : Methods κ V) : Proc κ V :=
  (o, m) :: p.filter (fun q => q.1 != o)

/-- all answers of a history of events on any objects of a process -/
def procRun (cap : Nat → String → Option Nat) (key : Nat → String → Req → κ) (sem : Nat → String → Req → V) :
    Proc κ V → List (Nat × Ev Req) → List V
  | _, [] => []
  | p, (o, .call n r) :: es =>
    (callMethod (cap o n) (key o) (sem o) (p.get o) n r).2
      :: procRun cap key sem (p.set o (callMethod (cap o n) (key o) (sem o) (p.get o) n r).1) es
  | p, (o, .drop) :: es => procRun cap key sem (p.set o none) es

/-- what the history returns when nothing is cached -/
def procFresh (sem : Nat → String → Req → V) : List (Nat × Ev Req) → List V
  | [] => []
  | (o, .call n r) :: es => sem o n r :: procFresh sem es
  | (_, .drop) :: es => procFresh sem es

/-- the events of one object, in order -/
def eventsOf (o : Nat) (es : List (Nat × Ev Req)) : List (Ev Req) :=
  (es.filter (fun e => e.1 == o)).map (·.2)

/-- one request to a `PDE` object: `evolution_rate` / `make_pde_rhs` / `solve` of PDE object `pde` on
the backend `backend` for a state with the attributes `attrs` and the input `input` (data, time
range, solver parameters: everything else the call depends on) -/
structure SolveReq (A D : Type) where
  pde : Nat
  backend : String
  attrs : A
  input : D

/-- `PDE._cache`: one slot per backend name -/
def pdeCap : Nat → String → Option Nat := fun _ _ => some 1

/-- the results of a history of requests to PDE objects: `_prepare_cache` hands out the prepared
right-hand side of the slot (or prepares it), the call applies it to its input -/
def solveRun {A D R : Type} (key : A → κ) (prepare : Nat → String → A → D → R) :
    Proc κ (D → R) → List (SolveReq A D) → List R
  | _, [] => []
  | p, q :: qs =>
    (callMethod (pdeCap q.pde q.backend) (fun _ => key) (prepare q.pde) (p.get q.pde) q.backend q.attrs).2 q.input
      :: solveRun key prepare
          (p.set q.pde (callMethod (pdeCap q.pde q.backend) (fun _ => key) (prepare q.pde) (p.get q.pde) q.backend q.attrs).1) qs

/-- the prepared right-hand sides the same history hands out (what the check observes) -/
def solveEvents {A D : Type} (qs : List (SolveReq A D)) : List (Nat × Ev A) :=
  qs.map (fun q => (q.pde, Ev.call q.backend q.attrs))

end Process

/-! ## (v) cached helpers that captured a buffer identity

A field owns a current buffer (`_data_full`).  `make_interpolator(**kw)` is a cached method
whose result reads the buffer *address* captured when it was created
(`make_array_constructor`).  A `PDE` with the field as a constant keeps the data array it saw
when its right-hand side was prepared (`PDE._prepare_cache`).  The heap maps buffer ids to
contents. -/

section Heap
variable {κ V : Type} [DecidableEq κ] [DecidableEq V]

structure FieldSt (κ V : Type) where
  /-- heap: buffer id ↦ content (abandoned buffers stay alive: the helpers keep references) -/
  bufs : Nat → V
  /-- id of the buffer `_data_full` refers to -/
  cur : Nat
  /-- next fresh id -/
  next : Nat
  /-- `_cache_methods["make_interpolator"]`: key ↦ captured buffer id -/
  helpers : List (κ × Nat)
  /-- `PDE._cache["numpy"]` of a PDE using the field as a constant: the captured buffer id
  (`none`: not prepared yet); the interpreted rhs reads the live array -/
  pde : Option Nat
  /-- `PDE._cache["numba"]` of the same PDE: the buffer id seen when the rhs was compiled and the
  CONTENT the buffer had at that moment (numba freezes closure arrays: the compiled function
  carries a copy) -/
  pdeJit : Option (Nat × V) := none

inductive HEv (κ V : Type) where
  /-- `f.data[...] = v` / `f.data = v`: in-place write into the current buffer -/
  | write (v : V)
  /-- `FieldCollection([.., f, ..])`: the collection allocates a new buffer with a copy of the
  content and re-links the member (`field._data_flat = self._data_full[slice]`) -/
  | relink
  /-- `f._data_full = new_array` (a different array object with content `v`) -/
  | assignNew (v : V)
  /-- `f._data_full = f._data_full` (the very same array object) -/
  | assignSame
  /-- `f.interpolate(p, **kw)` with kwargs key `k`: returns what the helper reads -/
  | interp (k : κ)
  /-- `eq.evolution_rate(state)` of a PDE that has `f` as a constant: what the rate reads -/
  | rate
  /-- `eq.make_pde_rhs(state, backend="numba")(data, t)` of the same PDE with the JIT enabled:
  what the compiled rate reads -/
  | rateJit
deriving Repr

/-- which repairs are present: `inval` = the `_data_full` setter drops `_cache_methods` when the
array object changes (fix F2); `check` = `_prepare_cache` compares the identity of the constant's
data array (fix C); `content` = `_prepare_cache` of a compiling backend also compares the
constant's content with the copy it compiled in (proposed fix E,
`notes/proposed_fixes/C04-frozen-const.diff`) -/
structure HeapFix where
  inval : Bool
  check : Bool
  content : Bool := false
deriving Repr, DecidableEq

/-- the code as it is now -/
def HeapFix.cur : HeapFix := ⟨true, true, false⟩
/-- with the proposed fix E -/
def HeapFix.fixE : HeapFix := ⟨true, true, true⟩

/-- rebinding `_data_full` to another array object -/
def rebind (fx : HeapFix) (s : FieldSt κ V) (v : V) : FieldSt κ V :=
  { s with
    bufs := fun i => if i = s.next then v else s.bufs i
    cur := s.next
    next := s.next + 1
    helpers := if fx.inval then [] else s.helpers }

/-- one event: new state and the value returned by an interpolation / rate evaluation -/
def hstep (fx : HeapFix) (s : FieldSt κ V) : HEv κ V → FieldSt κ V × Option V
  | .write v => ({ s with bufs := fun i => if i = s.cur then v else s.bufs i }, none)
  | .relink => (rebind fx s (s.bufs s.cur), none)
  | .assignNew v => (rebind fx s v, none)
  | .assignSame => (s, none)
  | .interp k =>
    match s.helpers.lookup k with
    | some b => (s, some (s.bufs b))
    | none => ({ s with helpers := (k, s.cur) :: s.helpers }, some (s.bufs s.cur))
  | .rate =>
    match s.pde with
    | some b =>
      if fx.check && b != s.cur then ({ s with pde := some s.cur }, some (s.bufs s.cur))
      else (s, some (s.bufs b))
    | none => ({ s with pde := some s.cur }, some (s.bufs s.cur))
  | .rateJit =>
    match s.pdeJit with
    | some (b, c) =>
      -- `_prepare_cache`: prepared again (compiled again) iff the array object changed (fix C) or,
      -- with fix E, the content differs from the compiled-in copy; otherwise the compiled function
      -- returns what it froze
      if (fx.check && b != s.cur) || (fx.content && decide (c ≠ s.bufs s.cur)) then
        ({ s with pdeJit := some (s.cur, s.bufs s.cur) }, some (s.bufs s.cur))
      else (s, some c)
    | none => ({ s with pdeJit := some (s.cur, s.bufs s.cur) }, some (s.bufs s.cur))

/-- the values returned by the interpolations and rates of a history -/
def hrun (fx : HeapFix) : FieldSt κ V → List (HEv κ V) → List V
  | _, [] => []
  | s, e :: es =>
    match (hstep fx s e).2 with
    | some v => v :: hrun fx (hstep fx s e).1 es
    | none => hrun fx (hstep fx s e).1 es

/-- reference semantics: only the logical content of the field matters -/
def href : V → List (HEv κ V) → List V
  | _, [] => []
  | _, .write v :: es => href v es
  | c, .relink :: es => href c es
  | _, .assignNew v :: es => href v es
  | c, .assignSame :: es => href c es
  | c, .interp _ :: es => c :: href c es
  | c, .rate :: es => c :: href c es
  | c, .rateJit :: es => c :: href c es

/-- a freshly created field with content `v` -/
def newField (v : V) : FieldSt κ V :=
  { bufs := fun _ => v, cur := 0, next := 1, helpers := [], pde := none, pdeJit := none }

end Heap

/-! ## (iv) the object graphs that reach the cached methods -/

/-- a finite float as `m * 2^e` together with its class name (`float`, `float64`, ...) and `repr` -/
structure FloatSpec where
  cls : String
  repr : String
  m : Int
  e : Int
deriving Repr, Inhabited, DecidableEq

def floatObj (x : FloatSpec) : PyObj := .num x.cls x.repr (.fin x.m x.e)
/-- a Python `int` (`repr(n)` is the decimal text) -/
def natObj (n : Nat) : PyObj := .num "int" (Nat.repr n) (.fin (n : Int) 0)
/-- a Python `bool` -/
def boolObj (b : Bool) : PyObj := .num "bool" (if b then "True" else "False") (.fin (if b then 1 else 0) 0)

structure GridSpec where
  /-- `self.__class__.__name__` -/
  cls : String
  shape : List Nat
  /-- `axes_bounds`: per axis (low, high) -/
  bounds : List (FloatSpec × FloatSpec)
  periodic : List Bool
deriving Repr, Inhabited

/-- `GridBase._cache_hash`: `hash((class name, shape, axes_bounds, tuple(periodic)))` -/
def gridGraph (g : GridSpec) : PyObj :=
  .gridObj g.cls (.tuple [.str g.cls, .tuple (g.shape.map natObj),
    .tuple (g.bounds.map fun b => .tuple [floatObj b.1, floatObj b.2]),
    .tuple (g.periodic.map boolObj)])

structure ArrSpec where
  dtype : String
  shape : List Nat
  bytes : List Nat
deriving Repr, Inhabited, DecidableEq

def arrObj (a : ArrSpec) : PyObj := .ndarray a.dtype a.shape a.bytes

/-- the classes of local boundary conditions with constant data -/
inductive BCClass where
  | DirichletBC | NeumannBC | MixedBC | CurvatureBC
  | NormalDirichletBC | NormalNeumannBC | NormalMixedBC | NormalCurvatureBC
  | PeriodicBC | UserBC
deriving Repr, DecidableEq, Inhabited

/-- `__qualname__` -/
def BCClass.name : BCClass → String
  | .DirichletBC => "DirichletBC" | .NeumannBC => "NeumannBC" | .MixedBC => "MixedBC"
  | .CurvatureBC => "CurvatureBC" | .NormalDirichletBC => "NormalDirichletBC"
  | .NormalNeumannBC => "NormalNeumannBC" | .NormalMixedBC => "NormalMixedBC"
  | .NormalCurvatureBC => "NormalCurvatureBC" | .PeriodicBC => "_PeriodicBC" | .UserBC => "UserBC"

/-- class attribute `normal` -/
def BCClass.normal : BCClass → Bool
  | .NormalDirichletBC | .NormalNeumannBC | .NormalMixedBC | .NormalCurvatureBC => true
  | _ => false

def BCClass.hasValue : BCClass → Bool
  | .UserBC => false
  | _ => true

def BCClass.hasConst : BCClass → Bool
  | .MixedBC | .NormalMixedBC => true
  | _ => false

structure BCSpec where
  cls : BCClass
  grid : GridSpec
  axis : Nat
  upper : Bool
  rank : Nat
  /-- `_shape_tensor`, `_shape_boundary` -/
  shapeTensor : List Nat
  shapeBoundary : List Nat
  /-- `_value` (classes derived from `ConstBCBase`) -/
  value : ArrSpec
  homogeneous : Bool
  valueIsLinked : Bool
  /-- `const` (`MixedBC`) -/
  const : ArrSpec
  /-- `flip_sign` (`_PeriodicBC`) -/
  flipSign : Bool
deriving Repr, Inhabited

/-- the instance `__dict__` of a boundary condition (`BCBase.__init__`, `ConstBCBase.value`
setter, `MixedBC.__init__`, `_PeriodicBC.__init__`).  `normal` is an instance attribute only
for rank 0 (`if self.rank == 0: self.normal = False`), otherwise the class attribute is used
and is not part of `__dict__`. -/
def bcAttrs (b : BCSpec) : List (String × PyObj) :=
  [("grid", gridGraph b.grid), ("axis", natObj b.axis), ("upper", boolObj b.upper),
   ("rank", natObj b.rank)]
  ++ (if b.rank = 0 then [("normal", boolObj false)] else [])
  ++ [("_shape_tensor", .tuple (b.shapeTensor.map natObj)),
      ("_shape_boundary", .tuple (b.shapeBoundary.map natObj))]
  ++ (if b.cls.hasValue then
        [("_value", arrObj b.value), ("homogeneous", boolObj b.homogeneous),
         ("value_is_linked", boolObj b.valueIsLinked)] else [])
  ++ (if b.cls.hasConst then [("const", arrObj b.const)] else [])
  ++ (if b.cls = .PeriodicBC then [("flip_sign", boolObj b.flipSign)] else [])

/-- BC classes define `__eq__` and no `__hash__`: unhashable, `__dict__` fallback -/
def bcGraph (b : BCSpec) : PyObj := .obj b.cls.name true 0 (bcAttrs b)

/-- `BoundaryPair` / `BoundaryPeriodic`: `__dict__ = {low, high}`; `__eq__` defined -/
structure AxisSpec where
  periodic : Bool
  low : BCSpec
  high : BCSpec
deriving Repr, Inhabited

def axisGraph (a : AxisSpec) : PyObj :=
  .obj (if a.periodic then "BoundaryPeriodic" else "BoundaryPair") true 0
    [("low", bcGraph a.low), ("high", bcGraph a.high)]

/-- `BoundariesList`: `__dict__ = {grid, rank, _axes}`; `__eq__` defined -/
structure BcsSpec where
  grid : GridSpec
  rank : Nat
  axes : List AxisSpec
deriving Repr, Inhabited

def bcsGraph (b : BcsSpec) : PyObj :=
  .obj "BoundariesList" true 0
    [("grid", gridGraph b.grid), ("rank", natObj b.rank), ("_axes", .list (b.axes.map axisGraph))]

/-- `OperatorInfo(factory, rank_in, rank_out, name)`: a NamedTuple, hashed as a tuple; the
factory is a function (identity hash) -/
structure OpSpec where
  factoryId : String
  rankIn : Nat
  rankOut : Nat
  name : String
deriving Repr, Inhabited, DecidableEq

def opGraph (o : OpSpec) : PyObj :=
  .tuple [.atom o.factoryId, natObj o.rankIn, natObj o.rankOut, .str o.name]

/-- a request to the cached `NumbaBackend.make_operator(grid, operator_info, *, bcs, dtype,
**kwargs)`: positional `(grid, operator_info)`, keywords `bcs`, `dtype` and the extra ones -/
structure OpReq where
  grid : GridSpec
  op : OpSpec
  bcs : BcsSpec
  dtype : PyObj
  kwargs : List (String × PyObj)
deriving Repr, Inhabited

def opReqArgs (r : OpReq) : List PyObj := [gridGraph r.grid, opGraph r.op]
def opReqKwargs (r : OpReq) : List (String × PyObj) :=
  [("bcs", bcsGraph r.bcs), ("dtype", r.dtype)] ++ r.kwargs

/-- the cache key of the request under a derivation -/
def opReqKeyG (d : Deriv) (r : OpReq) : Key :=
  cacheKeyG d [] [] (opReqArgs r) (opReqKwargs r)

abbrev opReqKey := opReqKeyG Deriv.cur

/-! ## (vi) the operator registry and caches asked with an operator name

`BackendBase._operators[grid_cls][name] = OperatorInfo(factory, ...)` is a class attribute:
`register_operator` overwrites the entry of one (backend class, grid class) slot,
`get_operator_info(grid, name)` walks the backend classes (outer loop) and the grid classes (inner
loop) in method-resolution order and returns the first entry with that name.  For one querying
(backend, grid class) pair the slots are numbered by their position in that walk (`level`); a
factory is identified by a number. -/

/-- entries `((level, name), factory id)` -/
abbrev Registry := List ((Nat × String) × Nat)

/-- `register_operator`: the entry of the slot is overwritten -/
def Registry.register (r : Registry) (level : Nat) (name : String) (fid : Nat) : Registry :=
  ((level, name), fid) :: r.filter (fun e => !(e.1 == (level, name)))

/-- `del backend._operators[grid_cls][name]` -/
def Registry.unregister (r : Registry) (level : Nat) (name : String) : Registry :=
  r.filter (fun e => !(e.1 == (level, name)))

/-- the better of two candidates: the one found earlier in the walk -/
def Registry.better (best : Option (Nat × Nat)) (e : (Nat × String) × Nat) : Option (Nat × Nat) :=
  match best with
  | none => some (e.1.1, e.2)
  | some b => if e.1.1 < b.1 then some (e.1.1, e.2) else some b

/-- `get_operator_info`: the factory the name denotes now (`none`: `NotImplementedError`) -/
def Registry.resolve (r : Registry) (name : String) : Option Nat :=
  ((r.filter (fun e => e.1.2 == name)).foldl Registry.better none).map (·.2)

/-- a call of a cached method with an operator name.  `cache`: the object whose cache is asked (a
grid object, the backend, a `PDE` object); `rest`: everything else of the call (backend, boundary
conditions, keyword arguments, state attributes), abstracted to a number; `reg`: the registration
table at the time of the call -/
structure NameReq where
  cache : Nat
  name : String
  rest : Nat
  reg : Registry
deriving Repr

/-- what a fresh construction hands out: the implementation made by the factory that the name
denotes NOW (`none`: the call raises `NotImplementedError`) -/
def NameReq.sem (q : NameReq) : Option Nat := q.reg.resolve q.name

/-- how the key of the cache treats the operator: `byName` - the name itself is hashed
(`grid.make_operator_no_bc("op")`, `backend.make_operator(grid, "op", bcs=...)`, and - with the
empty key contribution - a `PDE` object, whose cache is validated by the state attributes only);
`byInfo` - the name is resolved first and the `OperatorInfo` (a tuple containing the factory
function, hashed by identity) is hashed (`DataFieldBase.apply_operator`, `GridBase.make_operator`) -/
inductive NameKey where
  | byName
  | byInfo
deriving Repr, DecidableEq

abbrev NameK := Nat × String × Nat × Option (Option Nat)

def NameReq.key (k : NameKey) (q : NameReq) : NameK :=
  match k with
  | .byName => (q.cache, q.name, q.rest, none)
  | .byInfo => (q.cache, q.name, q.rest, some (q.reg.resolve q.name))

/-- one cached call.  A call that raises stores nothing (the wrapper stores the result after the
method returned). -/
def regCall (k : NameKey) (c : List (NameK × Nat)) (q : NameReq) : List (NameK × Nat) × Option Nat :=
  match c.lookup (q.key k) with
  | some v => (c, some v)
  | none =>
    match q.sem with
    | none => (c, none)
    | some fid => ((q.key k, fid) :: c, some fid)

def regRunAll (k : NameKey) : List (NameK × Nat) → List NameReq → List (Option Nat)
  | _, [] => []
  | c, q :: qs => (regCall k c q).2 :: regRunAll k (regCall k c q).1 qs

/-- events of a history: registrations, removals, and queries -/
inductive RegEv where
  | register (level : Nat) (name : String) (fid : Nat)
  | unregister (level : Nat) (name : String)
  | query (cache : Nat) (name : String) (rest : Nat)
deriving Repr

/-- the requests of a history, each with the registration table of its moment -/
def regRequests : Registry → List RegEv → List NameReq
  | _, [] => []
  | r, .register l n f :: es => regRequests (r.register l n f) es
  | r, .unregister l n :: es => regRequests (r.unregister l n) es
  | r, .query c n x :: es => ⟨c, n, x, r⟩ :: regRequests r es

/-- what the queries of a history return through the cache -/
def regRun (k : NameKey) (es : List RegEv) : List (Option Nat) := regRunAll k [] (regRequests [] es)

/-- what they return without any cache (= in a fresh process that performed the registrations) -/
def regRef (es : List RegEv) : List (Option Nat) := (regRequests [] es).map NameReq.sem

/-! ## (vii) the operator table of a `PDE` with several variables -/

/-- one equation: the variable and the operator names its expression uses (`PDE._operators[var]`) -/
structure VarSpec where
  name : String
  ops : List String
deriving Repr, DecidableEq

section OpTable
variable {κ V : Type} [DecidableEq κ]

/-- `_add_operators_to_expr` for one variable: `for func in ops_of_var: if func in table: continue;
table[func] = make_operator(func, bc selected for (var, func))` -/
def addOpsK (key : String → String → κ) (build : String → String → V) (tab : List (κ × V)) (v : VarSpec) :
    List (κ × V) :=
  v.ops.foldl (fun t o => match t.lookup (key v.name o) with
    | some _ => t
    | none => (key v.name o, build v.name o) :: t) tab

/-- the table after all variables were prepared, in the order of the variables.  (An entry is never
overwritten or removed, so what the expression of a variable finds under its keys when it is compiled
is what the final table holds.) -/
def prepareK (key : String → String → κ) (build : String → String → V) (init : List (κ × V))
    (vars : List VarSpec) : List (κ × V) :=
  vars.foldl (addOpsK key build) init

/-- the operator the expression of `var` calls under the name `op` -/
def servedK (key : String → String → κ) (build : String → String → V) (init : List (κ × V))
    (vars : List VarSpec) (var op : String) : Option V :=
  (prepareK key build init vars).lookup (key var op)

end OpTable

/-- the key of the table: every variable has its own copy of the general table (the code as it is:
`ops_general.copy()`), i.e. the table is keyed by (variable, operator) - or one table for all
variables, keyed by the operator name only -/
inductive TableKey where
  | perVar
  | shared
deriving Repr, DecidableEq

def TableKey.key : TableKey → String → String → String × String
  | .perVar, v, o => (v, o)
  | .shared, _, o => ("", o)

/-- `PDE.bcs` in dictionary order: (variable pattern, operator pattern) -/
abbrev BcKeys := List (String × String)

def patMatch (pat x : String) : Bool := pat == "*" || pat == x

/-- the boundary condition chosen for an operator in the equation of a variable: index of the first
entry in dictionary order whose patterns match (`none`: `RuntimeError`) -/
def selectBC (bcs : BcKeys) (var op : String) : Option Nat :=
  let i := bcs.findIdx (fun e => patMatch e.1 var && patMatch e.2 op)
  if i < bcs.length then some i else none

/-- which boundary-condition entry the operator `op` in the equation of `var` is built with -/
def servedBC (k : TableKey) (bcs : BcKeys) (vars : List VarSpec) (var op : String) : Option (Option Nat) :=
  servedK k.key (selectBC bcs) [] vars var op

/-- `diagnostics["pde"]["bcs_used"]`: the entries some operator was built with -/
def bcsUsed (k : TableKey) (bcs : BcKeys) (vars : List VarSpec) : List Nat :=
  ((prepareK k.key (selectBC bcs) [] vars).filterMap (·.2)).eraseDups

end PdeVerif.Cache
