import PdeVerif.Num
/-
Model of the local boundary conditions of py-pde (`pde/grids/boundaries/local.py`, mirrored by
`pde/backends/numba/_boundaries.py`): the virtual-point ("ghost cell") law and which entries of
the padded array `_data_full` a condition writes.  Core Lean only.

Padded arrays are total functions on multi-indices `List Int` = tensor component indices
followed by one full-array coordinate per grid axis (valid cells `1..N`, ghost cells `0`, `N+1`).
-/
namespace PdeVerif.BC
open PdeVerif

inductive Side | lower | upper
  deriving DecidableEq, Repr

/-- full-array coordinate of the ghost cell (`idx_write`: 0 / -1) -/
def ghostIdx (N : Nat) : Side → Int
  | .lower => 0
  | .upper => (N : Int) + 1

/-- full-array coordinate of the adjacent valid cell (`index + 1` with `index = 0 / N-1`) -/
def nearIdx (N : Nat) : Side → Int
  | .lower => 1
  | .upper => (N : Int)

/-- second cell used by 2nd-order conditions (`i2 + 1` with `i2 = 1 / N-2`) -/
def near2Idx (N : Nat) : Side → Int
  | .lower => 2
  | .upper => (N : Int) - 1

/-- cell read by a periodic condition: the valid cell at the opposite end
(`index = N-1` for the lower, `0` for the upper side) -/
def oppIdx (N : Nat) : Side → Int
  | .lower => (N : Int)
  | .upper => 1

section
variable {K : Type} [Add K] [Sub K] [Mul K] [Div K] [Neg K] [NatCast K] [IntCast K]

/-! ### virtual point data `(const, factor)` of `get_virtual_point_data` -/

/-- `DirichletBC`: `const = 2*value`, `factor = -1` -/
def vpDirichlet (v : K) : K × K := (((2:Nat):K) * v, -((1:Nat):K))
/-- `NeumannBC`: `const = dx*value`, `factor = 1` -/
def vpNeumann (dx d : K) : K × K := (dx * d, ((1:Nat):K))
/-- `MixedBC` (finite `gamma`): `const = 2 dx beta/(2+dx gamma)`, `factor = (2-dx gamma)/(2+dx gamma)` -/
def vpMixed (dx g b : K) : K × K :=
  (((2:Nat):K) * dx * b / (((2:Nat):K) + dx * g), (((2:Nat):K) - dx * g) / (((2:Nat):K) + dx * g))
/-- `MixedBC` at places where the factor is not finite: `(0, -1)`
(`const[~np.isfinite(factor)] = 0; factor[~np.isfinite(factor)] = -1`) -/
def vpMixedInf : K × K := (((0:Nat):K), -((1:Nat):K))
/-- `MixedBC.get_virtual_point_data` at one point, given the outcome `nf` of the test
`~np.isfinite(factor)` at that point -/
def vpMixedSel (nf : Bool) (dx g b : K) : K × K := if nf then vpMixedInf else vpMixed dx g b

/-! ### `UserBC`: the data arrive at call time through `args = {TARGET: value}` -/
/-- the key of `args` a user-controlled condition reads -/
inductive UserTarget | virtualPoint | value | derivative
  deriving DecidableEq, Repr

/-- `UserBC.set_ghost_cells(args={target: v})` and the compiled `_make_user_virtual_point_evaluator`: the value written into
the ghost cell next to the valid cell `cell` (`virtual_point`: `v` itself; `value`: `2*v - cell`; `derivative`: `dx*v + cell`) -/
def userGhost (t : UserTarget) (dx v cell : K) : K :=
  match t with
  | .virtualPoint => v
  | .value => ((2:Nat):K) * v - cell
  | .derivative => dx * v + cell

/-- a Robin coefficient `gamma` as the user can give it: a number or `±inf` -/
inductive Coef (K : Type) where
  | fin (x : K)
  | inf

/-- the number stored for a coefficient (irrelevant where the coefficient is infinite) -/
def Coef.val : Coef K → K
  | .fin x => x
  | .inf => ((0:Nat):K)

/-- the test `~np.isfinite(factor)` of `MixedBC.get_virtual_point_data` (and of the compiled
`_get_virtual_point_data_1storder`): `factor = (2 - dx*gamma)/(2 + dx*gamma)` is `nan` for
`gamma = ±inf` (`∓inf/±inf`) and `±inf` for a finite `gamma` with `2 + dx*gamma = 0`
(`4/0`); for every other `gamma` it is a finite number -/
def Coef.nonFinite [DecidableEq K] (dx : K) : Coef K → Bool
  | .inf => true
  | .fin g => decide (((2:Nat):K) + dx * g = ((0:Nat):K))

/-- a *finite* coefficient for which the discrete Robin equation is singular -/
def Coef.singular [DecidableEq K] (dx : K) : Coef K → Bool
  | .inf => false
  | .fin g => decide (((2:Nat):K) + dx * g = ((0:Nat):K))

/-- `MixedBC.get_virtual_point_data` at one point: `(const, factor)` -/
def vpMixedCode [DecidableEq K] (dx : K) (g : Coef K) (b : K) : K × K :=
  vpMixedSel (g.nonFinite dx) dx g.val b
/-- `_PeriodicBC`: `(0, ±1)` reading the opposite cell -/
def vpPeriodic (flip : Bool) : K × K := (((0:Nat):K), if flip then -((1:Nat):K) else ((1:Nat):K))
/-- `CurvatureBC`: `(value*dx^2, 2, -1)` on the two adjacent cells -/
def vpCurvature (dx k : K) : K × K × K := (k * (dx * dx), ((2:Nat):K), -((1:Nat):K))

/-- first-order law: `ghost = const + factor * cell` -/
def ghost1 (cf : K × K) (cell : K) : K := cf.1 + cf.2 * cell
/-- second-order law: `ghost = const + f1 * c1 + f2 * c2` -/
def ghost2 (d : K × K × K) (c1 c2 : K) : K := d.1 + d.2.1 * c1 + d.2.2 * c2

/-! ### `ExpressionBC` targets (expression strings assembled in `ExpressionBC.__init__`) -/
/-- target `value`: `2*(v) - value` -/
def exprValue (v cell : K) : K := ((2:Nat):K) * v - cell
/-- target `derivative`: `dx*(v) + value` -/
def exprDerivative (dx v cell : K) : K := dx * v + cell
/-- target `mixed`: `(2*dx*(const) + (2 - (value)*dx)*cell) / ((value)*dx + 2)` -/
def exprMixed (dx g b cell : K) : K :=
  (((2:Nat):K) * dx * b + (((2:Nat):K) - g * dx) * cell) / (g * dx + ((2:Nat):K))

/-! ### boundary conditions on one face and their action on a padded array -/

/-- a local condition; values are functions of the *value index* = component indices
(without the last one for `normal` conditions) followed by the face position (the spatial
full-array coordinates with the entry of the boundary's own axis removed), which covers
constants, tensors, per-face arrays and expressions of the boundary coordinates and time -/
inductive Cond (K : Type) where
  | dirichlet (v : List Int → K)
  | neumann (d : List Int → K)
  /-- `nf` = outcome of the test `~np.isfinite(factor)` at each value index (see `Cond.robin`) -/
  | mixed (nf : List Int → Bool) (g b : List Int → K)
  | curvature (k : List Int → K)
  | periodic (flip : Bool)
  | exprValue (v : List Int → K)
  | exprDerivative (v : List Int → K)
  | exprMixed (g b : List Int → K)

/-- the `MixedBC` on a face with grid spacing `dx`, coefficient `g` (numbers or `±inf`) and
constant `b`: the branch taken at each point is decided as in the code -/
def Cond.robin [DecidableEq K] (dx : K) (g : List Int → Coef K) (b : List Int → K) : Cond K :=
  .mixed (fun vi => (g vi).nonFinite dx) (fun vi => (g vi).val) b

/-- replace entry `i` of a list -/
def setAt (l : List Int) (i : Nat) (x : Int) : List Int := l.set i x

/-- remove entry `i` of a list -/
def removeAt (l : List Int) (i : Nat) : List Int := l.eraseIdx i

/-- geometry of one boundary face of a field of tensor rank `rank` on a grid with `shape` -/
structure Face where
  shape : List Nat     -- number of valid cells per grid axis
  rank : Nat           -- tensor rank of the field (number of leading component indices)
  axis : Nat
  side : Side
  normal : Bool        -- `normal_*` condition: only components whose last index equals `axis`

def Face.N (f : Face) : Nat := f.shape.getD f.axis 0

/-- does the padded index `idx` (components ++ spatial) lie in the set written by
`set_ghost_cells` of this face?  (`idx_write`: ghost coordinate on the own axis, valid cells
`1..N_j` on all other axes, and for normal conditions last component index = axis) -/
def Face.writes (f : Face) (idx : List Int) : Bool :=
  let comps := idx.take f.rank
  let sp := idx.drop f.rank
  idx.length == f.rank + f.shape.length &&
  sp.getD f.axis 0 == ghostIdx f.N f.side &&
  (List.range f.shape.length).all (fun j =>
    j == f.axis || (1 ≤ sp.getD j 0 && sp.getD j 0 ≤ (f.shape.getD j 0 : Int))) &&
  (!f.normal || (f.rank ≥ 1 && comps.getD (f.rank - 1) 0 == (f.axis : Int)))

/-- the index at which the *value arrays* of the condition are read for padded index `idx` -/
def Face.valueIdx (f : Face) (idx : List Int) : List Int :=
  let comps := idx.take f.rank
  let sp := idx.drop f.rank
  (if f.normal then comps.take (f.rank - 1) else comps) ++ removeAt sp f.axis

/-- padded index with the own-axis coordinate replaced by `c` -/
def Face.at (f : Face) (idx : List Int) (c : Int) : List Int :=
  idx.take f.rank ++ setAt (idx.drop f.rank) f.axis c

/-- value written to the ghost cell at padded index `idx` -/
def ghostValue (f : Face) (dx : K) (c : Cond K) (a : List Int → K) (idx : List Int) : K :=
  let vi := f.valueIdx idx
  let cell := a (f.at idx (nearIdx f.N f.side))
  match c with
  | .dirichlet v => ghost1 (vpDirichlet (v vi)) cell
  | .neumann d => ghost1 (vpNeumann dx (d vi)) cell
  | .mixed nf g b => ghost1 (vpMixedSel (nf vi) dx (g vi) (b vi)) cell
  | .curvature k => ghost2 (vpCurvature dx (k vi)) cell (a (f.at idx (near2Idx f.N f.side)))
  | .periodic flip => ghost1 (vpPeriodic flip) (a (f.at idx (oppIdx f.N f.side)))
  | .exprValue v => exprValue (v vi) cell
  | .exprDerivative v => exprDerivative dx (v vi) cell
  | .exprMixed g b => exprMixed dx (g vi) (b vi) cell

/-- does the expression evaluated for the ghost cell at `idx` divide by zero?  (only the target
`mixed` of `ExpressionBC` contains a division: by `(value)*dx + 2`; numpy then yields `±inf`/`nan`,
the compiled setter raises `ZeroDivisionError`) -/
def divByZero [DecidableEq K] (f : Face) (dx : K) (c : Cond K) (idx : List Int) : Bool :=
  match c with
  | .exprMixed g _ => decide (g (f.valueIdx idx) * dx + ((2:Nat):K) = ((0:Nat):K))
  | _ => false

/-- `BCBase.set_ghost_cells` for one face: the new padded array -/
def setGhost (f : Face) (dx : K) (c : Cond K) (a : List Int → K) : List Int → K :=
  fun idx => if f.writes idx then ghostValue f dx c a idx else a idx

/-- all faces of a grid in the order used by `BoundariesList.set_ghost_cells`
(axes in order; within an axis the upper side first, then the lower side as in
`BoundaryPair.set_ghost_cells`) - the order is irrelevant, see `Props/C02` -/
def setGhostAll (faces : List (Face × K × Cond K)) (a : List Int → K) : List Int → K :=
  faces.foldl (fun acc fc => setGhost fc.1 fc.2.1 fc.2.2 acc) a

/-! ### the complete setter of a grid: `BoundariesList.set_ghost_cells` -/

/-- the two conditions of one grid axis (`BoundaryPair` / `BoundaryPeriodic`): the spacing of the
axis and, per side, whether the condition is a `normal_*` one and the condition itself -/
structure AxisSpec (K : Type) where
  dx : K
  lo : Bool × Cond K
  hi : Bool × Cond K

/-- `BoundaryAxisBase.set_ghost_cells`: `self.high.set_ghost_cells(..)` first, then `self.low` -/
def axisFaces (shape : List Nat) (rank ax : Nat) (s : AxisSpec K) : List (Face × K × Cond K) :=
  [({ shape := shape, rank := rank, axis := ax, side := .upper, normal := s.hi.1 }, s.dx, s.hi.2),
   ({ shape := shape, rank := rank, axis := ax, side := .lower, normal := s.lo.1 }, s.dx, s.lo.2)]

/-- `for b in self._axes: b.set_ghost_cells(data_full)` for the axes `ax, ax+1, ..` -/
def boundaryFacesFrom (shape : List Nat) (rank : Nat) : Nat → List (AxisSpec K) → List (Face × K × Cond K)
  | _, [] => []
  | ax, s :: ss => axisFaces shape rank ax s ++ boundaryFacesFrom shape rank (ax + 1) ss

/-- all faces of a grid with `shape` in the order of `BoundariesList.set_ghost_cells` -/
def boundaryFaces (shape : List Nat) (rank : Nat) (specs : List (AxisSpec K)) : List (Face × K × Cond K) :=
  boundaryFacesFrom shape rank 0 specs

/-- `BoundariesList.set_ghost_cells` (and the compiled setter made from it): every axis, both
sides, one after the other on the same padded array -/
def setBoundaries (shape : List Nat) (rank : Nat) (specs : List (AxisSpec K)) (a : List Int → K) :
    List Int → K :=
  setGhostAll (boundaryFaces shape rank specs) a

/-! ### linked values (`ConstBCBase.link_value`)

A constant condition either owns its value array or reads external memory that the user may
overwrite between two calls of the setter.  What the setter imposes is decided by the content of
that memory *at the time of the call*. -/

/-- where a constant condition reads its value: its own array (numbers + which entries are `±inf`)
or the external array in `slot` -/
inductive ValRef (K : Type) where
  | own (v : List Int → K) (inf : List Int → Bool)
  | linked (slot : Nat)

/-- the external memory at the time of a setter call: per slot the numbers and the `±inf` flags -/
structure Store (K : Type) where
  val : Nat → List Int → K
  inf : Nat → List Int → Bool

def ValRef.val (st : Store K) : ValRef K → List Int → K
  | .own v _ => v
  | .linked k => st.val k

def ValRef.inf (st : Store K) : ValRef K → List Int → Bool
  | .own _ i => i
  | .linked k => st.inf k

/-- a condition whose value may be linked (only the constant conditions have `link_value`; for
`MixedBC` the linked array is the coefficient `value`, `const` stays its own) -/
inductive LCond (K : Type) where
  | dirichlet (v : ValRef K)
  | neumann (v : ValRef K)
  | curvature (v : ValRef K)
  | robin (g : ValRef K) (b : List Int → K)
  | fixed (c : Cond K)

/-- the condition the setter imposes while the external memory is `st` -/
def LCond.resolve [DecidableEq K] (dx : K) (st : Store K) : LCond K → Cond K
  | .dirichlet v => .dirichlet (v.val st)
  | .neumann v => .neumann (v.val st)
  | .curvature v => .curvature (v.val st)
  | .robin g b => Cond.robin dx (fun vi => if g.inf st vi then .inf else .fin (g.val st vi)) b
  | .fixed c => c

structure LAxisSpec (K : Type) where
  dx : K
  lo : Bool × LCond K
  hi : Bool × LCond K

def LAxisSpec.resolve [DecidableEq K] (st : Store K) (s : LAxisSpec K) : AxisSpec K :=
  ⟨s.dx, (s.lo.1, s.lo.2.resolve s.dx st), (s.hi.1, s.hi.2.resolve s.dx st)⟩

/-- `BoundariesList.set_ghost_cells` called while the external memory is `st` -/
def setBoundariesLinked [DecidableEq K] (shape : List Nat) (rank : Nat) (specs : List (LAxisSpec K))
    (st : Store K) (a : List Int → K) : List Int → K :=
  setBoundaries shape rank (specs.map (·.resolve st)) a

end
end PdeVerif.BC
