import PdeVerif.Num
/-
Model of `pde/storage/memory.py` (`MemoryStorage`) and of the generic methods it inherits from
`pde/storage/base.py` (`StorageBase`, `StorageTracker`, `StorageView`).  Core Lean only.

Three layers, all executable:

* `Store K F`   - the state of one storage, generic in the time type `K` and in the type `F` of
                  a stored frame.  Every method of the storage that does not look *into* a frame
                  is a function on `Store K F` for arbitrary `F` (the storage logic never
                  inspects frame contents: it compares shapes and grids of the *fields*).
* value level   - `F = List V`: slicing of collection frames (`extract_field`, `view_field`).
* `World K`     - a heap of buffers, live field objects owning a buffer, and storages whose
                  frames are buffer ids (`F = Nat`).  This is the explicit aliasing component:
                  `append` allocates a fresh buffer holding a copy, `extract_time_range` shares
                  the buffers of its source, `from_fields` aliases the buffers of the given
                  fields, writing to a field (`setField`) or directly to `storage.data[i]`
                  (`poke`) overwrites one buffer and is seen through every alias.

The model mirrors the code that exists, branch by branch (comments give the Python lines); it does
not contain a "writing" flag because the code has none: `append` works whenever a data shape is
known, also outside `start_writing`/`end_writing` (since fd5b417 not in `readonly` mode, and not
for data whose dtype numpy cannot cast to the dtype of the storage).
-/
namespace PdeVerif.Storage

/-- exception classes of the real code.  `bad` is not a py-pde outcome: the *request* refers to
an object (field/storage index) that does not exist or to a combination the model does not
cover (`copy(out=self)`); the harness never generates such requests on purpose. -/
inductive Err | runtime | value | index | type | key | bad
  deriving DecidableEq, Repr

/-- `write_mode`; `other` is any string that is none of the four documented ones -/
inductive Mode | truncate | truncateOnce | append | readonly | other
  deriving DecidableEq, Repr

/-- one member field of a `FieldCollection` (what `extract_field`/`view_field` need) -/
structure Member where
  label : Option String
  cls : Nat              -- 0 ScalarField, 1 VectorField, 2 Tensor2Field
  shape : List Nat       -- `member.data.shape`
  ncomp : Nat            -- rows of the collection's data that belong to it (`dim ** rank`)
  deriving DecidableEq, Repr

/-- what the storage looks at in a field, apart from the numbers in `field.data` -/
structure FieldInfo where
  grid : Nat             -- equality class of `field.grid` under `==`
  ncell : Nat            -- number of grid cells (`prod grid.shape`)
  shape : List Nat       -- `field.data.shape`
  cls : Nat              -- 0 ScalarField, 1 VectorField, 2 Tensor2Field, 3 FieldCollection
  label : Option String
  members : List Member  -- members of a collection (`[]` otherwise)
  deriving DecidableEq, Repr

def FieldInfo.isColl (fi : FieldInfo) : Bool := fi.cls == 3

/-- state of a storage (`times`, `data`, `write_mode`, `_data_shape`, `_dtype is not None`,
`_grid`, `_field`) -/
structure Store (K F : Type) where
  times : List K
  frames : List F
  mode : Mode
  dataShape : Option (List Nat)
  dtypeSet : Bool
  grid : Option Nat
  template : Option FieldInfo
  deriving Repr

section generic
variable {K F G : Type}

/-- `MemoryStorage(write_mode=m)` -/
def Store.new (m : Mode) : Store K F :=
  { times := [], frames := [], mode := m, dataShape := none, dtypeSet := false, grid := none,
    template := none }

def Store.mapFrames (g : F → G) (s : Store K F) : Store K G :=
  { times := s.times, frames := s.frames.map g, mode := s.mode, dataShape := s.dataShape,
    dtypeSet := s.dtypeSet, grid := s.grid, template := s.template }

/-- the stored (time, frame) pairs in storage order -/
def Store.contents (s : Store K F) : List (K × F) := s.times.zip s.frames

/-- `MemoryStorage.__init__(times, data, field_obj=tmpl, write_mode=m)` (memory.py:52-69).
`_data_shape` comes from `field_obj`; the branch `data[0].shape` (no `field_obj`) is not
representable for generic frames and is not reachable from the modelled operations. -/
def construct (times : List K) (frames : List F) (tmpl : Option FieldInfo) (m : Mode) :
    Except Err (Store K F) :=
  if times.length ≠ frames.length then .error .value
  else .ok { times := times, frames := frames, mode := m, dataShape := tmpl.map (·.shape),
             dtypeSet := false, grid := tmpl.map (·.grid), template := tmpl }

/-- `MemoryStorage.clear` + `StorageBase.clear` (memory.py:161-170, base.py:147-156) -/
def clear (s : Store K F) (clearShape : Bool) : Store K F :=
  { s with times := [], frames := [],
           dataShape := if clearShape then none else s.dataShape,
           dtypeSet := if clearShape then false else s.dtypeSet }

/-- `StorageBase.start_writing` (base.py:343-368) -/
def baseStart (s : Store K F) (fi : FieldInfo) : Store K F × Option Err :=
  if s.mode = Mode.readonly then (s, some .runtime)
  else
    match s.dataShape with
    | none =>
      ({ s with dataShape := some fi.shape, dtypeSet := true, grid := some fi.grid,
                template := some fi }, none)
    | some sh =>
      if sh ≠ fi.shape then (s, some .value)
      else ({ s with dtypeSet := true, grid := some fi.grid, template := some fi }, none)

/-- `MemoryStorage.start_writing` (memory.py:172-205) -/
def startWriting (s : Store K F) (fi : FieldInfo) : Store K F × Option Err :=
  match baseStart s fi with
  | (s1, some e) => (s1, some e)
  | (s1, none) =>
    match s1.mode with
    | .truncateOnce => ({ clear s1 false with mode := .append }, none)
    | .truncate => (clear s1 false, none)
    | .readonly => (s1, some .runtime)
    | .append => (s1, none)
    | .other => (s1, some .value)

section
variable [Add K] [NatCast K]

/-- `time is None`: `0 if len(self) == 0 else self.times[-1] + 1` (base.py:137-138) -/
def defaultTime (times : List K) : K :=
  match times.getLast? with
  | none => ((0 : Nat) : K)
  | some t => t + ((1 : Nat) : K)

/-- `MemoryStorage._append_data` (memory.py:207-218); `frame` is the copy `np.array(data)` -/
def appendData (s : Store K F) (fi : FieldInfo) (t : K) (frame : F) : Store K F × Option Err :=
  match s.dataShape with
  | none => (s, some .runtime)                       -- `data_shape was not set`
  | some sh =>
    if fi.shape ≠ sh then (s, some .value)
    else ({ s with frames := s.frames ++ [frame], times := s.times ++ [t] }, none)

/-- the dtype rule of `StorageBase.append`: `canCast` is numpy's verdict
`np.can_cast(field.dtype, self._dtype, casting="same_kind")` (external, abstract here); it is only
consulted when `_dtype` is set -/
def appendCast (s : Store K F) (fi : FieldInfo) (t : K) (frame : F) (canCast : Bool) :
    Store K F × Option Err :=
  if s.dtypeSet && !canCast then (s, some .type)      -- `Cannot store data of type ... as ...`
  else appendData s fi t frame

/-- `StorageBase.append` (base.py:128-157, after fd5b417): read-only check first, default
time, grid (stays set when a later check raises), dtype rule, then `_append_data`. -/
def append (s : Store K F) (fi : FieldInfo) (time : Option K) (frame : F) (canCast : Bool) :
    Store K F × Option Err :=
  if s.mode = Mode.readonly then (s, some .runtime)   -- `Cannot write in read-only mode`
  else
    let t := match time with
      | some t => t
      | none => defaultTime s.times
    match s.grid with
    | none => appendCast { s with grid := some fi.grid } fi t frame canCast
    | some g => if g ≠ fi.grid then (s, some .value) else appendCast s fi t frame canCast

/-- the state-changing methods of one storage as an operation alphabet -/
inductive SOp (K F : Type)
  | start (fi : FieldInfo)
  | append (fi : FieldInfo) (t : Option K) (frame : F) (canCast : Bool)
  | endW
  | clear (clearShape : Bool)
  | setMode (m : Mode)

def sstep (s : Store K F) : SOp K F → Store K F × Option Err
  | .start fi => startWriting s fi
  | .append fi t f c => append s fi t f c
  | .endW => (s, none)                               -- `end_writing` does nothing (base.py:370)
  | .clear b => (clear s b, none)
  | .setMode m => ({ s with mode := m }, none)

def srun (s : Store K F) (ops : List (SOp K F)) : Store K F :=
  ops.foldl (fun s op => (sstep s op).1) s

end

/-- Python index normalisation of `_get_field` (base.py:263-268) -/
def normIndex (n : Nat) (i : Int) : Except Err Nat :=
  let j : Int := if i < 0 then i + (n : Int) else i
  if 0 ≤ j ∧ j < (n : Int) then .ok j.toNat else .error .index

/-- `StorageBase._get_field` (base.py:250-277): the template and the stored frame; the caller
turns this into a *new* field object holding a copy of the frame
(`field = self._field.copy(); field.data = self.data[t_index]`).
`template = none` with data present is the `_init_field` route, which fails with
`RuntimeError` for storages without `info["field_attributes"]`; it is not reachable from the
modelled operations (theorem `template_present`). -/
def getField (s : Store K F) (i : Int) : Except Err (FieldInfo × F) :=
  match normIndex s.times.length i with
  | .error e => .error e
  | .ok j =>
    match s.template with
    | none => .error .runtime
    | some fi =>
      match s.frames[j]? with
      | none => .error .index
      | some f => .ok (fi, f)

/-- `StorageBase.items` (base.py:293-296): `for i in range(len(self)): yield times[i], self[i]` -/
def items (s : Store K F) : Except Err (List (K × FieldInfo × F)) :=
  s.times.zipIdx.mapM (fun p =>
    match getField s (p.2 : Int) with
    | .error e => .error e
    | .ok r => .ok (p.1, r.1, r.2))

/-- one bound of `slice.indices(n)` for step 1 -/
def sliceBound (n : Nat) (b : Option Int) (dflt : Nat) : Nat :=
  match b with
  | none => dflt
  | some i => if i < 0 then (i + (n : Int)).toNat else min i.toNat n

/-- `storage[a:b]` (base.py:283-284) -/
def getSlice (s : Store K F) (a b : Option Int) : Except Err (List (FieldInfo × F)) :=
  let n := s.times.length
  let lo := sliceBound n a 0
  let hi := sliceBound n b n
  ((List.range (hi - lo)).map (· + lo)).mapM (fun (i : Nat) => getField s (i : Int))

/-- numpy's binary search for one key (`npy_binsearch`, the branch-free variant of numpy >= 2.3,
observed on numpy 2.5.3) on an array that need not be sorted; `goRight v` says that the key
belongs to the right of an element `v`.  State: `base`, `len`:
`while len > 1: half = len // 2; base += half if goRight(a[base + half]); len -= half`. -/
def bisectGo (goRight : K → Bool) (ts : List K) : Nat → Nat → Nat → Nat
  | 0, base, _ => base
  | fuel + 1, base, len =>
    if 1 < len then
      let half := len / 2
      match ts[base + half]? with
      | none => base
      | some v => bisectGo goRight ts fuel (if goRight v then base + half else base) (len - half)
    else base

/-- `... ; return base + goRight(a[base])` (0 for an empty array) -/
def bisect (goRight : K → Bool) (ts : List K) : Nat :=
  let base := bisectGo goRight ts ts.length 0 ts.length
  match ts[base]? with
  | some v => if goRight v then base + 1 else base
  | none => base

section
variable [LT K] [DecidableLT K]

/-- `np.searchsorted(ts, x, side="left")`: right of `v` iff `v < x` -/
def bisectLeft (ts : List K) (x : K) : Nat := bisect (fun v => decide (v < x)) ts

/-- `np.searchsorted(ts, x, side="right")`: right of `v` iff not `x < v` -/
def bisectRight (ts : List K) (x : K) : Nat := bisect (fun v => !decide (x < v)) ts

/-- argument of `extract_time_range`: `None`, a single number, or a pair with optional ends -/
inductive TRange (K : Type) | all | upto (t : K) | pair (a b : Option K)

/-- `StorageBase.extract_time_range` (base.py:445-484).  The result holds *the same* frame
objects (`self.data[i_start:i_end]`), a copy of the template, and the default write mode. -/
def extractTimeRange (s : Store K F) (r : TRange K) : Except Err (Store K F) :=
  let ab : Option K × Option K := match r with
    | .all => (none, none)
    | .upto t => (none, some t)
    | .pair a b => (a, b)
  let tS : Except Err K := match ab.1 with
    | some t => .ok t
    | none => match s.times.head? with
      | some t => .ok t
      | none => .error .index                       -- `self.times[0]` on an empty list
  let tE : Except Err K := match ab.2 with
    | some t => .ok t
    | none => match s.times.getLast? with
      | some t => .ok t
      | none => .error .index
  match tS, tE with
  | .error e, _ => .error e
  | .ok _, .error e => .error e
  | .ok a, .ok b =>
    let i := bisectLeft s.times a
    let j := bisectRight s.times b
    construct ((s.times.drop i).take (j - i)) ((s.frames.drop i).take (j - i)) s.template
      .truncateOnce

end

/-! ### collections: `extract_field`, `view_field` -/

/-- field selector of `extract_field`/`view_field`: an integer or a label -/
inductive FieldId | idx (i : Int) | name (s : String)
  deriving DecidableEq, Repr

/-- `_FieldLabels.index` (collection.py:1177-1191): first member carrying the label -/
def labelIndex (ms : List Member) (l : String) : Option Nat :=
  ms.findIdx? (fun m => m.label == some l)

/-- Python list indexing `fields[i]` -/
def pyIndex (n : Nat) (i : Int) : Except Err Nat :=
  let j : Int := if i < 0 then i + (n : Int) else i
  if 0 ≤ j ∧ j < (n : Int) then .ok j.toNat else .error .index

/-- first row of member `i` in the collection's data (`_slices[i].start`) -/
def memberOffset (ms : List Member) (i : Nat) : Nat := ((ms.take i).map (·.ncomp)).sum

/-- `data_timepoint[field_slice].reshape(...)` on the C-order flattened frame -/
def sliceFrame {V : Type} (fi : FieldInfo) (i : Nat) (vals : List V) : List V :=
  let n := match fi.members[i]? with
    | some m => m.ncomp
    | none => 0
  (vals.drop (memberOffset fi.members i * fi.ncell)).take (n * fi.ncell)

/-- the template of an extracted member; `if label: field_obj.label = label` -/
def memberInfo (fi : FieldInfo) (m : Member) (label : Option String) : FieldInfo :=
  { grid := fi.grid, ncell := fi.ncell, shape := m.shape, cls := m.cls,
    label := (match label with
      | some l => if l = "" then m.label else some l
      | none => m.label),
    members := [] }

/-- first half of `StorageBase.extract_field` (base.py:411-434): which member, and the
template of the result.  `template = none`: `_init_field` raises `RuntimeError` when no grid is
known and otherwise fails on `self.data[0]` (`IndexError`) because no data can be present. -/
def extractFieldPlan (s : Store K F) (fid : FieldId) (label : Option String) :
    Except Err (FieldInfo × Nat × FieldInfo) :=
  match s.template with
  | none =>
    match s.grid with
    | none => .error .runtime
    | some _ => if s.frames.isEmpty then .error .index else .error .runtime
  | some fi =>
    if fi.cls ≠ 3 then .error .type
    else
      let idx : Except Err Nat := match fid with
        | .name l => match labelIndex fi.members l with
          | some i => .ok i
          | none => .error .value
        | .idx i => pyIndex fi.members.length i
      match idx with
      | .error e => .error e
      | .ok i =>
        match fi.members[i]? with
        | none => .error .index
        | some m => .ok (fi, i, memberInfo fi m label)

/-- second half (base.py:435-443): `newFrames` are the freshly allocated copies of the slices -/
def extractFieldBuild (s : Store K F) (tmpl : FieldInfo) (newFrames : List G) :
    Except Err (Store K G) :=
  construct s.times newFrames (some tmpl) .truncateOnce

/-- `StorageView.__init__` (base.py:645-664): `has_collection`, then the label lookup.
Returns the stored `field_index`. -/
def viewCreate (s : Store K F) (fid : FieldId) : Except Err Int :=
  let coll : Except Err Bool := match s.template with
    | some fi => .ok (fi.cls == 3)
    | none => .error .runtime                      -- `Storage is empty` (or `_init_field`)
  match coll with
  | .error e => .error e
  | .ok false => .error .runtime
  | .ok true =>
    match fid, s.template with
    | .idx i, _ => .ok i
    | .name l, some fi =>
      (match labelIndex fi.members l with
        | some i => .ok (i : Int)
        | none => .error .value)
    | .name _, none => .error .runtime

/-- `StorageView.__getitem__` (base.py:677-679): `self.storage[key][self.field_index]`:
template, frame, member index and member -/
def viewGet (s : Store K F) (fieldIndex : Int) (k : Int) :
    Except Err (FieldInfo × F × Nat × Member) :=
  match getField s k with
  | .error e => .error e
  | .ok (fi, f) =>
    if fi.cls ≠ 3 then .error .type
    else
      match pyIndex fi.members.length fieldIndex with
      | .error e => .error e
      | .ok j =>
        match fi.members[j]? with
        | none => .error .index
        | some m => .ok (fi, f, j, m)

/-! ### `apply` / `copy` -/

section
variable [Add K] [NatCast K]

/-- `if out is None: out = MemoryStorage(field_obj=transformed)` (base.py:529-532) -/
def outOrNew (out : Option (Store K F)) (fi' : FieldInfo) : Store K F :=
  match out with
  | some o => o
  | none => { times := [], frames := [], mode := .truncateOnce, dataShape := some fi'.shape,
              dtypeSet := false, grid := some fi'.grid, template := some fi' }

/-- loop of `StorageBase.apply` (base.py:514-541) for `out` of the same frame type.
`todo` lists the time indices still to visit together with the frame that `out.append` will
store for it (the copy of the transformed field's data); `finfo` is the effect of the user
function on the field description.  Returns the state of `out` (if it exists yet) and the
error that aborted the loop. -/
def applyLoop (s : Store K F) (finfo : FieldInfo → FieldInfo) (canCast : Bool) :
    List (Nat × F) → Option (Store K F) → Bool → Option (Store K F) × Option Err
  | [], out, _ => (out, none)
  | (i, newFrame) :: rest, out, writing =>
    match getField s (i : Int), s.times[i]? with
    | .error e, _ => (out, some e)
    | .ok _, none => (out, some .index)
    | .ok (fi, _), some t =>
      let fi' := finfo fi
      let out1 : Store K F := outOrNew out fi'
      -- `if not writing: out.start_writing(transformed)`
      let r2 : Store K F × Option Err := if writing then (out1, none) else startWriting out1 fi'
      match r2 with
      | (out2, some e) => (some out2, some e)
      | (out2, none) =>
        match append out2 fi' (some t) newFrame canCast with
        | (out3, some e) => (some out3, some e)
        | (out3, none) => applyLoop s finfo canCast rest (some out3) true

/-- `StorageBase.apply` (base.py:486-549) / `copy` (`finfo = id`) -/
def applyTo (s : Store K F) (finfo : FieldInfo → FieldInfo) (newFrames : List F)
    (out : Option (Store K F)) (canCast : Bool) : Option (Store K F) × Option Err :=
  match applyLoop s finfo canCast ((List.range s.times.length).zip newFrames) out false with
  | (o, some e) => (o, some e)
  | (some o, none) => (some o, none)
  | (none, none) => (some (Store.new .truncateOnce), none)  -- `if out is None: out = MemoryStorage()`

end
end generic

/-! ### user functions handed to `apply` by the harness -/

/-- vocabulary of the functions the harness passes to `apply`:
`ident`: `lambda f: f`; `scale c`: copy with `data *= c`; `addTime`: `lambda f, t:` copy with
`data += t`; `member i`: `lambda f: f[i]` for collections with more than `i` members (else `f`). -/
inductive Func (K : Type) | ident | scale (c : K) | addTime | member (i : Nat)

def Func.info {K : Type} : Func K → FieldInfo → FieldInfo
  | .member i, fi =>
    if fi.cls = 3 then
      match fi.members[i]? with
      | some m => memberInfo fi m none
      | none => fi
    else fi
  | _, fi => fi

def Func.vals {K : Type} [Add K] [Mul K] : Func K → K → FieldInfo → List K → List K
  | .ident, _, _, v => v
  | .scale c, _, _, v => v.map (fun x => x * c)
  | .addTime, t, _, v => v.map (fun x => x + t)
  | .member i, _, fi, v =>
    if fi.cls = 3 then
      match fi.members[i]? with
      | some _ => sliceFrame fi i v
      | none => v
    else v


/-! ### `MemoryStorage.from_collection` -/

section fromCollection
variable {K : Type} [Add K] [Sub K] [Mul K] [Neg K] [NatCast K] [LT K] [DecidableLT K] [LE K] [DecidableLE K]

def absK (x : K) : K := if x < ((0 : Nat) : K) then -x else x

/-- `np.allclose(a, b, rtol, atol)` on two 1-d arrays with numpy's broadcasting
(`|a - b| <= atol + rtol * |b|` elementwise); `none`: the shapes cannot be broadcast (ValueError) -/
def allclose (rtol atol : K) (a b : List K) : Option Bool :=
  let close : K → K → Bool := fun x y => decide (absK (x - y) ≤ atol + rtol * absK y)
  if a.length = b.length then some ((a.zip b).all (fun p => close p.1 p.2))
  else
    match a, b with
    | _, [y] => some (a.all (fun x => close x y))
    | [x], _ => some (b.all (fun y => close x y))
    | _, _ => none

/-- `for i, field in enumerate(storage): data[i].append(field)` (memory.py:153-154) -/
def gatherInto {α : Type} : List (List α) → List α → Nat → Except Err (List (List α))
  | data, [], _ => .ok data
  | data, f :: fs, i =>
    match data[i]? with
    | none => .error .index
    | some d => gatherInto (data.set i (d ++ [f])) fs (i + 1)

/-- the loop over `storages[1:]` (memory.py:149-154): times check, then gathering -/
def gatherAll {F : Type} (rtol atol : K) (times : List K) :
    List (List (FieldInfo × F)) → List (Store K F) → Except Err (List (List (FieldInfo × F)))
  | data, [] => .ok data
  | data, s :: rest =>
    match allclose rtol atol times s.times with
    | none => .error .value                       -- numpy cannot broadcast the two time lists
    | some false => .error .value                 -- `Storages have incompatible times`
    | some true =>
      match items s with
      | .error e => .error e
      | .ok its =>
        match gatherInto data (its.map (fun r => (r.2.1, r.2.2))) 0 with
        | .error e => .error e
        | .ok data' => gatherAll rtol atol times data' rest

/-- rows a field contributes to a collection: `dim ** rank` = product of the tensor axes -/
def rowsOf (fi : FieldInfo) : Nat := (fi.shape.take fi.cls).foldl (· * ·) 1

/-- `FieldCollection(d, label=label)` (collection.py:38-136) on the descriptions of the
members: incompatible grids -> RuntimeError, a nested collection -> TypeError -/
def collInfo (label : Option String) : List FieldInfo → Except Err FieldInfo
  | [] => .error .value                            -- `At least one field must be defined`
  | fi0 :: rest =>
    if rest.any (fun fi => fi.grid ≠ fi0.grid) then .error .runtime
    else if (fi0 :: rest).any (fun fi => fi.cls == 3) then .error .type
    else .ok
      { grid := fi0.grid, ncell := fi0.ncell,
        shape := ((fi0 :: rest).map rowsOf).foldl (· + ·) 0 :: fi0.shape.drop fi0.cls,
        cls := 3, label := label,
        members := (fi0 :: rest).map (fun fi => ⟨fi.label, fi.cls, fi.shape, rowsOf fi⟩) }

end fromCollection

/-! ### the world: heap, live fields, storages -/

/-- buffers are identified by their index in `heap`; a live field owns one buffer; storages
hold buffer ids -/
structure World (K : Type) where
  heap : List (List K)
  fields : List (FieldInfo × Nat)
  stores : List (Store K Nat)

def World.empty {K : Type} : World K := { heap := [], fields := [], stores := [] }

/-- what an operation hands back to the caller -/
inductive Obs (K : Type)
  | unit
  | field (fi : FieldInfo) (vals : List K)                 -- a new field object (registered live)
  | fields (l : List (FieldInfo × List K))                 -- fields that are only looked at
  | items (l : List (K × FieldInfo × List K))
  | store (sid : Nat)                                      -- index of the resulting storage

inductive Op (K : Type)
  | newField (fi : FieldInfo) (vals : List K)
  | setField (fid : Nat) (vals : List K)                   -- in-place write to a live field
  | newStore (m : Mode)
  | setMode (sid : Nat) (m : Mode)
  | start (sid fid : Nat)
  | append (sid fid : Nat) (t : Option K) (canCast : Bool)   -- `canCast`: numpy's `can_cast` verdict
  | endW (sid : Nat)
  | clear (sid : Nat) (clearShape : Bool)
  | read (sid : Nat) (i : Int)                             -- `storage[i]`, kept as a live field
  | items (sid : Nat)
  | slice (sid : Nat) (a b : Option Int)
  | extractTimeRange (sid : Nat) (r : TRange K)
  | extractField (sid : Nat) (fid : FieldId) (label : Option String)
  | viewRead (sid : Nat) (fid : FieldId) (k : Int)         -- `storage.view_field(fid)[k]`, kept live
  | viewItems (sid : Nat) (fid : FieldId)                  -- `list(storage.view_field(fid).items())`
  | apply (sid : Nat) (f : Func K) (out : Option Nat) (canCast : Bool)  -- `copy` is `apply ident`
  | fromFields (times : List K) (fids : List Nat) (m : Mode)
  | fromCollection (sids : List Nat) (label : Option String) (rtol atol : K)
  | poke (sid : Nat) (i : Nat) (vals : List K)             -- `storage.data[i][...] = vals`

section world
variable {K : Type}

def World.deref (w : World K) (id : Nat) : List K := w.heap.getD id []

/-- the storage `sid` with every frame replaced by its current content -/
def World.view (w : World K) (sid : Nat) : Option (Store K (List K)) :=
  (w.stores[sid]?).map (Store.mapFrames w.deref)

def updStore (w : World K) (sid : Nat) (f : Store K Nat → Store K Nat × Option Err) :
    World K × Except Err (Obs K) :=
  match w.stores[sid]? with
  | none => (w, .error .bad)
  | some s =>
    match f s with
    | (s', none) => ({ w with stores := w.stores.set sid s' }, .ok .unit)
    | (s', some e) => ({ w with stores := w.stores.set sid s' }, .error e)

variable [Add K] [Sub K] [Mul K] [Neg K] [NatCast K] [LT K] [DecidableLT K] [LE K] [DecidableLE K]

/-- the data every `out.append(transformed, t)` of `apply` will copy: the user function applied
to the field read back from frame `k` -/
def applyNewVals (w : World K) (f : Func K) (s : Store K Nat) : List (List K) :=
  (s.times.zip s.frames).map (fun p =>
    match s.template with
    | some fi => f.vals p.1 fi (w.deref p.2)
    | none => w.deref p.2)

/-- one operation on the world.  Buffers are allocated at the end of the heap; a buffer that is
allocated but not referenced afterwards (an operation that fails after the allocation) is
unobservable garbage. -/
def step (w : World K) : Op K → World K × Except Err (Obs K)
  | .newField fi vals =>
    ({ w with heap := w.heap ++ [vals], fields := w.fields ++ [(fi, w.heap.length)] }, .ok .unit)
  | .setField fid vals =>
    match w.fields[fid]? with
    | none => (w, .error .bad)
    | some p => ({ w with heap := w.heap.set p.2 vals }, .ok .unit)
  | .newStore m => ({ w with stores := w.stores ++ [Store.new m] }, .ok (.store w.stores.length))
  | .setMode sid m => updStore w sid (fun s => ({ s with mode := m }, none))
  | .start sid fid =>
    match w.fields[fid]? with
    | none => (w, .error .bad)
    | some p => updStore w sid (fun s => startWriting s p.1)
  | .append sid fid t c =>
    match w.fields[fid]? with
    | none => (w, .error .bad)
    | some p =>
      -- `np.array(data)`: a fresh buffer with the current content of the field's buffer
      updStore { w with heap := w.heap ++ [w.deref p.2] } sid
        (fun s => Storage.append s p.1 t w.heap.length c)
  | .endW sid => updStore w sid (fun s => (s, none))
  | .clear sid b => updStore w sid (fun s => (Storage.clear s b, none))
  | .read sid i =>
    match w.stores[sid]? with
    | none => (w, .error .bad)
    | some s =>
      match getField s i with
      | .error e => (w, .error e)
      | .ok (fi, id) =>
        ({ w with heap := w.heap ++ [w.deref id], fields := w.fields ++ [(fi, w.heap.length)] },
         .ok (.field fi (w.deref id)))
  | .items sid =>
    match w.stores[sid]? with
    | none => (w, .error .bad)
    | some s =>
      match Storage.items s with
      | .error e => (w, .error e)
      | .ok l => (w, .ok (.items (l.map (fun r => (r.1, r.2.1, w.deref r.2.2)))))
  | .slice sid a b =>
    match w.stores[sid]? with
    | none => (w, .error .bad)
    | some s =>
      match getSlice s a b with
      | .error e => (w, .error e)
      | .ok l => (w, .ok (.fields (l.map (fun r => (r.1, w.deref r.2)))))
  | .extractTimeRange sid r =>
    match w.stores[sid]? with
    | none => (w, .error .bad)
    | some s =>
      match Storage.extractTimeRange s r with
      | .error e => (w, .error e)
      | .ok s' => ({ w with stores := w.stores ++ [s'] }, .ok (.store w.stores.length))
  | .extractField sid fid label =>
    match w.stores[sid]? with
    | none => (w, .error .bad)
    | some s =>
      match extractFieldPlan s fid label with
      | .error e => (w, .error e)
      | .ok (fi, i, tmpl) =>
        let newVals := s.frames.map (fun id => sliceFrame fi i (w.deref id))
        match extractFieldBuild s tmpl (List.range' w.heap.length newVals.length) with
        | .error e => (w, .error e)
        | .ok s' =>
          ({ w with heap := w.heap ++ newVals, stores := w.stores ++ [s'] },
           .ok (.store w.stores.length))
  | .viewRead sid fid k =>
    match w.stores[sid]? with
    | none => (w, .error .bad)
    | some s =>
      match viewCreate s fid with
      | .error e => (w, .error e)
      | .ok fidx =>
        match viewGet s fidx k with
        | .error e => (w, .error e)
        | .ok (fi, id, j, m) =>
          let vals := sliceFrame fi j (w.deref id)
          ({ w with heap := w.heap ++ [vals],
                    fields := w.fields ++ [(memberInfo fi m none, w.heap.length)] },
           .ok (.field (memberInfo fi m none) vals))
  | .viewItems sid fid =>
    match w.stores[sid]? with
    | none => (w, .error .bad)
    | some s =>
      match viewCreate s fid with
      | .error e => (w, .error e)
      | .ok fidx =>
        -- `for k, v in self.storage.items(): yield k, v[self.field_index]`
        let r : Except Err (List (K × FieldInfo × List K)) := s.times.zipIdx.mapM (fun p =>
            match viewGet s fidx (p.2 : Int) with
            | .error e => .error e
            | .ok (fi, id, j, m) =>
              .ok (p.1, memberInfo fi m none, sliceFrame fi j (w.deref id)))
        match r with
        | .error e => (w, .error e)
        | .ok l => (w, .ok (.items l))
  | .apply sid f out c =>
    match w.stores[sid]? with
    | none => (w, .error .bad)
    | some s =>
      if out = some sid then (w, .error .bad)
      else
        let outS : Option (Option (Store K Nat)) := match out with
          | none => some none
          | some o => (w.stores[o]?).map some
        match outS with
        | none => (w, .error .bad)
        | some outS =>
          -- the data every `out.append(transformed, t)` will copy
          let newVals : List (List K) := applyNewVals w f s
          let w1 := { w with heap := w.heap ++ newVals }
          match applyTo s f.info (List.range' w.heap.length newVals.length) outS c, out with
          | (some o, none), none =>
            ({ w1 with stores := w1.stores ++ [o] }, .ok (.store w.stores.length))
          | (some o, none), some oid =>
            ({ w1 with stores := w1.stores.set oid o }, .ok (.store oid))
          | (some o, some e), some oid => ({ w1 with stores := w1.stores.set oid o }, .error e)
          | (_, some e), _ => (w1, .error e)
          | (none, none), _ => (w1, .error .bad)
  | .fromFields times fids m =>
    match fids.mapM (fun f => w.fields[f]?) with
    | none => (w, .error .bad)
    | some [] => (w, .error .index)                  -- `fields[0]`
    | some (p0 :: rest) =>
      if rest.any (fun p => p.1.grid ≠ p0.1.grid) then (w, .error .value)
      else if rest.any (fun p => p.1.shape ≠ p0.1.shape) then (w, .error .bad)
      else
        -- `data = [f.data for f in fields]`: the storage aliases the buffers of the fields
        match construct times (p0.2 :: rest.map (·.2)) (some p0.1) m with
        | .error e => (w, .error e)
        | .ok s' => ({ w with stores := w.stores ++ [s'] }, .ok (.store w.stores.length))
  | .fromCollection sids label rtol atol =>
    match sids.mapM (fun i => w.stores[i]?) with
    | none => (w, .error .bad)
    | some [] =>                                     -- `return cls()`
      ({ w with stores := w.stores ++ [Store.new .truncateOnce] }, .ok (.store w.stores.length))
    | some (s0 :: rest) =>
      -- `data = [[field] for field in storages[0]]`
      match Storage.items s0 with
      | .error e => (w, .error e)
      | .ok it0 =>
        match gatherAll rtol atol s0.times (it0.map (fun r => [(r.2.1, r.2.2)])) rest with
        | .error e => (w, .error e)
        | .ok data =>
          -- `fields = [FieldCollection(d, label=label) for d in data]`
          match data.mapM (fun d => collInfo label (d.map (·.1))) with
          | .error e => (w, .error e)
          | .ok infos =>
            -- `from_fields(times, fields)`: `fields[0]`, grid check, aliasing of the (temporary)
            -- collections' data = fresh buffers holding the concatenated member data
            match infos with
            | [] => (w, .error .index)
            | fi0 :: more =>
              if more.any (fun fi => fi.grid ≠ fi0.grid) then (w, .error .value)
              -- numpy broadcasting of the time lists lets storages with fewer frames through; the
              -- result is then ragged (frames of different shapes, some unreadable) - outside the
              -- model (`bad`)
              else if data.any (fun d => d.length ≠ rest.length + 1) then (w, .error .bad)
              else
                let newVals : List (List K) := data.map (fun d => (d.map (fun p => w.deref p.2)).flatten)
                match construct s0.times (List.range' w.heap.length newVals.length) (some fi0)
                    .truncateOnce with
                | .error e => (w, .error e)
                | .ok s' =>
                  ({ w with heap := w.heap ++ newVals, stores := w.stores ++ [s'] },
                   .ok (.store w.stores.length))
  | .poke sid i vals =>
    match w.stores[sid]? with
    | none => (w, .error .bad)
    | some s =>
      match s.frames[i]? with
      | none => (w, .error .index)
      | some id => ({ w with heap := w.heap.set id vals }, .ok .unit)

def run (w : World K) (ops : List (Op K)) : World K := ops.foldl (fun w op => (step w op).1) w

end world
end PdeVerif.Storage
