import PdeVerif.Model.BC
import PdeVerif.Model.Stencil
/-
Model of the sparse-matrix assembly of the Laplacian with boundary conditions used by the
Poisson/Laplace solvers (`pde/backends/scipy/operators/{cartesian,polar_sym,spherical_sym,
cylindrical_sym}.py: _get_laplace_matrix`, `pde/grids/boundaries/local.py:
get_sparse_matrix_data`, `axis.py: BoundaryPair.get_sparse_matrix_data`).

A matrix row is a *program* of dok-matrix operations in source order, with the source's
assignment (`=`, `setdiag`) versus accumulate (`+=`) semantics.  Core Lean only.
-/
namespace PdeVerif.Matrix
open PdeVerif PdeVerif.BC PdeVerif.Stencil

/-- one dok-matrix operation on the current row -/
inductive Op (K : Type) where
  | set (col : Nat) (v : K)     -- `matrix[row, col]  = v`
  | add (col : Nat) (v : K)     -- `matrix[row, col] += v`

section
variable {K : Type} [Add K] [Sub K] [Mul K] [Div K] [Neg K] [NatCast K] [IntCast K]

/-- final entry of column `c` after running the row program on a zero row -/
def rowEntry (ops : List (Op K)) (c : Nat) : K :=
  ops.foldl (fun acc op => match op with
    | .set k v => if k = c then v else acc
    | .add k v => if k = c then acc + v else acc) ((0:Nat):K)

/-- what `get_sparse_matrix_data` returns for a virtual point: `ghost = const + Σ factor_k x_k`
(0-based cell indices along the boundary's axis) -/
structure BCData (K : Type) where
  const : K
  entries : List (Nat × K)

/-- 0-based index of the cell adjacent to a side / the second cell / the opposite cell -/
def near0 (N : Nat) : Side → Nat
  | .lower => 0
  | .upper => N - 1
def near20 (N : Nat) : Side → Nat
  | .lower => 1
  | .upper => N - 2
def opp0 (N : Nat) : Side → Nat
  | .lower => N - 1
  | .upper => 0

/-- scalar boundary condition at one face point -/
inductive PCond (K : Type) where
  | dirichlet (v : K) | neumann (d : K) | mixed (g b : K) | curvature (k : K) | periodic (flip : Bool)

/-- `get_sparse_matrix_data` of each condition class (via `get_virtual_point_data`) -/
def bcData (N : Nat) (s : Side) (dx : K) : PCond K → BCData K
  | .dirichlet v => ⟨(vpDirichlet v).1, [(near0 N s, (vpDirichlet v).2)]⟩
  | .neumann d => ⟨(vpNeumann dx d).1, [(near0 N s, (vpNeumann dx d).2)]⟩
  | .mixed g b => ⟨(vpMixed dx g b).1, [(near0 N s, (vpMixed dx g b).2)]⟩
  | .curvature k => ⟨(vpCurvature dx k).1, [(near0 N s, (vpCurvature dx k).2.1), (near20 N s, (vpCurvature dx k).2.2)]⟩
  | .periodic flip => ⟨(vpPeriodic flip : K × K).1, [(opp0 N s, (vpPeriodic flip : K × K).2)]⟩

/-- the generic three-point row along one axis: weights `wl, wh` for the lower/upper neighbour;
at the first/last cell the neighbour is a virtual point and its `BCData` is inserted, scaled by
the weight (`col` maps a 0-based index along this axis to the flat column).
Returns (contribution to the vector, operations). -/
def axisOps (N i : Nat) (wl wh : K) (lo hi : BCData K) (col : Nat → Nat) : K × List (Op K) :=
  let (cl, ol) := if i = 0 then (lo.const * wl, lo.entries.map (fun e => Op.add (col e.1) (e.2 * wl)))
                  else (((0:Nat):K), [Op.add (col (i - 1)) wl])
  let (ch, oh) := if i = N - 1 then (hi.const * wh, hi.entries.map (fun e => Op.add (col e.1) (e.2 * wh)))
                  else (((0:Nat):K), [Op.add (col (i + 1)) wh])
  (cl + ch, ol ++ oh)

/-! ### the assembly loops -/

/-- `_get_laplace_matrix_1d` (the final scaling `matrix *= dx^-2` is applied to every value) -/
def cart1Row (N : Nat) (dx : K) (lo hi : BCData K) (i : Nat) : K × List (Op K) :=
  let s : K := ((1:Nat):K) / (dx * dx)
  let (c, ops) := axisOps N i s s lo hi id
  (c, Op.add i (-(((2:Nat):K)) * s) :: ops)

/-- an empty virtual point (used where the source skips the inner boundary for `r_min == 0`:
`pass` - nothing is added for the lower neighbour) -/
def noBC : BCData K := ⟨((0:Nat):K), []⟩

/-- polar `_get_laplace_matrix`; `rmin0` is the branch `r_min == 0`, in which the first row gets no
contribution from the inner virtual point (its coefficient `scale - scale_i` vanishes) -/
def polarRow (N : Nat) (r : Int → K) (dr : K) (rmin0 : Bool) (lo hi : BCData K) (i : Nat) : K × List (Op K) :=
  let s : K := ((1:Nat):K) / (dr * dr)
  let si : K := ((1:Nat):K) / (((2:Nat):K) * r ((i:Int) + 1) * dr)
  let lo' := if i = 0 ∧ rmin0 then noBC else lo
  let (c, ops) := axisOps N i (s - si) (s + si) lo' hi id
  (c, Op.add i (-(((2:Nat):K)) * s) :: ops)

/-- spherical `_get_laplace_matrix` (always the conservative stencil); for `r_min == 0` the inner
virtual point of the first row is skipped (`factor_l[0] = 0`) -/
def sphRow (N : Nat) (r : Int → K) (dr : K) (rmin0 : Bool) (lo hi : BCData K) (i : Nat) : K × List (Op K) :=
  let ρ := r ((i:Int) + 1)
  let rl := ρ - dr / ((2:Nat):K)
  let rh := ρ + dr / ((2:Nat):K)
  let vol := shellThird rl rh
  let fl := rl * rl / (dr * vol)
  let fh := rh * rh / (dr * vol)
  let lo' := if i = 0 ∧ rmin0 then noBC else lo
  let (c, ops) := axisOps N i fl fh lo' hi id
  (c, Op.add i (-fl - fh) :: ops)

/-- `_get_laplace_matrix_2d`: row of cell `(x, y)`, flat index `x * dimY + y`; conditions may
depend on the position along the face -/
def cart2Row (nx ny : Nat) (dx dy : K) (xlo xhi : Nat → BCData K) (ylo yhi : Nat → BCData K)
    (x y : Nat) : K × List (Op K) :=
  let sx : K := ((1:Nat):K) / (dx * dx)
  let sy : K := ((1:Nat):K) / (dy * dy)
  let (cx, ox) := axisOps nx x sx sx (xlo y) (xhi y) (fun k => k * ny + y)
  let (cy, oy) := axisOps ny y sy sy (ylo x) (yhi x) (fun k => x * ny + k)
  (cx + cy, Op.set (x * ny + y) (-(((2:Nat):K)) * (sx + sy)) :: (ox ++ oy))   -- `setdiag` first

/-- `_get_laplace_matrix_3d` -/
def cart3Row (nx ny nz : Nat) (dx dy dz : K)
    (xlo xhi ylo yhi zlo zhi : Nat → Nat → BCData K) (x y z : Nat) : K × List (Op K) :=
  let sx : K := ((1:Nat):K) / (dx * dx)
  let sy : K := ((1:Nat):K) / (dy * dy)
  let sz : K := ((1:Nat):K) / (dz * dz)
  let idx (a b c : Nat) : Nat := (a * ny + b) * nz + c
  let (cx, ox) := axisOps nx x sx sx (xlo y z) (xhi y z) (fun k => idx k y z)
  let (cy, oy) := axisOps ny y sy sy (ylo x z) (yhi x z) (fun k => idx x k z)
  let (cz, oz) := axisOps nz z sz sz (zlo x y) (zhi x y) (fun k => idx x y k)
  (cx + cy + cz, Op.set (idx x y z) (-(((2:Nat):K)) * (sx + sy + sz)) :: (ox ++ oy ++ oz))

/-- cylindrical `_get_laplace_matrix`: radial weights `scale_r ∓ factor_r`, axial `scale_z` -/
def cylRow (nr nz : Nat) (r : Int → K) (dr dz : K) (rlo rhi : Nat → BCData K) (zlo zhi : Nat → BCData K)
    (x z : Nat) : K × List (Op K) :=
  let sr : K := ((1:Nat):K) / (dr * dr)
  let sz : K := ((1:Nat):K) / (dz * dz)
  let fr : K := ((1:Nat):K) / (((2:Nat):K) * r ((x:Int) + 1) * dr)
  let (cr, or_) := axisOps nr x (sr - fr) (sr + fr) (rlo z) (rhi z) (fun k => k * nz + z)
  let (cz, oz) := axisOps nz z sz sz (zlo x) (zhi x) (fun k => x * nz + k)
  (cr + cz, Op.set (x * nz + z) (-(((2:Nat):K)) * (sr + sz)) :: (or_ ++ oz))

end
end PdeVerif.Matrix
