import PdeVerif.Model.Volume
/-
Model of the stochastic time steps of py-pde:

* `EulerSolver._make_single_step_fixed_dt_stochastic`   (pde/solvers/euler.py:66-147)
* `MilsteinSolver._make_single_step_fixed_dt_stochastic` (pde/solvers/milstein.py:58-132)
* `ImplicitSolver._make_single_step_fixed_dt_stochastic` (pde/solvers/implicit.py:113-195)
* `SDEBase.make_noise_variance` (pde/pdes/base.py:656-722): layout of the variance per tensor
  component of a field / per field of a collection
* `NOISE_INTERPRETATIONS`, `PDEBase._noise_drift_factor` (pde/pdes/base.py:45-53, 155-158)
* the fixed-step loop `SolverBase._make_inner_stepper.fixed_stepper` (pde/solvers/base.py:260-276)
  as far as it feeds one `gaussian_noise()` array per step into the single step
  (`NumpyBackend.make_gaussian_noise`, pde/backends/numpy/backend.py:388-406:
  `rng.standard_normal(data_shape)`, one call per step).

Core Lean only; generic in the number type.  Square roots are *parameters*: the single steps
take the per-entry roots as arrays, the runs take a root function `sqrt : K → K` (Float:
`Float.sqrt`; Rat: exact rational root; theorems: hypothesis `sqrt x * sqrt x = x`).

Arrays are the flat C-order data arrays `state.data.ravel()`: entry `i = comp * ncell + cell`
(`comp` runs over the tensor components of all fields of a collection in storage order, `cell`
over the grid cells).  `inv_cell = 1 / grid.cell_volumes` has one entry per cell and is
broadcast over the components (`i % ncell`).  Every expression keeps the operation order of the
Python source, so that the `Float` instantiation replays the IEEE arithmetic.
-/
namespace PdeVerif.Noise
open PdeVerif PdeVerif.Grids

section
variable {K : Type} [Add K] [Sub K] [Mul K] [Div K] [Neg K] [NatCast K] [IntCast K]

def zero : K := ((0:Nat) : K)
/-- the literal `0.25` -/
def quarter : K := ((1:Nat) : K) / ((4:Nat) : K)

/-- tabulate `f` on `0..n-1` -/
def tab (n : Nat) (f : Nat → K) : Array K := (Array.range n).map f
/-- read entry `i` (`0` outside; the drivers only read inside) -/
def get (a : Array K) (i : Nat) : K := a.getD i zero

/-! ### noise interpretation (`NOISE_INTERPRETATIONS`) -/

inductive Interp
  | ito | stratonovich | antiIto
  deriving DecidableEq, Repr, Inhabited

/-- `_noise_drift_factor`: 0.0, 0.5, 1.0 -/
def Interp.alpha : Interp → K
  | .ito => zero
  | .stratonovich => half
  | .antiIto => ((1:Nat) : K)

/-- `has_noise_drift_term = noise_drift_factor != 0` (euler.py:87) -/
def Interp.hasDrift : Interp → Bool
  | .ito => false
  | _ => true

/-! ### one entry of one step -/

/-- deterministic explicit Euler update `state_data += dt * rhs` (euler.py:174) -/
def eulerCell (dt u rate : K) : K := u + dt * rate

/-- second noise interface (euler.py:124-127, milstein.py:113-116):
`state_data += dt_sqrt * noise_realization` before anything else is added -/
def realizeCell (s u : K) (real : Option K) : K :=
  match real with
  | none => u
  | some r => u + s * r

/-- Euler-Maruyama, one entry (euler.py:116-140).  `s = sqrt(dt)`, `sq = sqrt(v * inv)`.
```
state_data += dt * evolution_rate
state_data += dt_sqrt * sqrt(noise_var_field * inv_cell) * dW
if has_noise_drift_term:
    state_data += 0.5 * dt * noise_drift_factor * noise_var_diff_field * inv_cell
``` -/
def emCell (dt s alpha : K) (hasDrift : Bool) (u rate vd xi sq inv : K) : K :=
  let u1 := u + dt * rate
  let u2 := u1 + s * sq * xi
  if hasDrift then u2 + half * dt * alpha * vd * inv else u2

/-- Milstein, one entry (milstein.py:119-125).
```
dW = dt_sqrt * gaussian_noise()
state_data += (dt * evolution_rate
               + 0.5 * dt * noise_drift_factor * noise_var_diff_field * inv_cell
               + sqrt(noise_var_field * inv_cell) * dW
               + 0.25 * noise_var_diff_field * inv_cell * (dW**2 - dt))
``` -/
def milCell (dt s alpha : K) (u rate vd xi sq inv : K) : K :=
  let dW := s * xi
  u + (dt * rate + half * dt * alpha * vd * inv + sq * dW
        + quarter * vd * inv * (dW * dW - dt))

/-- semi-implicit: the reference state `state_t += sqrt(dt * noise_var_field * inv_cell) * xi`
(implicit.py:166).  `sqn = sqrt(dt * v * inv)`.  No drift term exists in this solver. -/
def siRefCell (u xi sqn : K) : K := u + sqn * xi

/-! ### whole arrays -/

/-- the square roots the Euler and Milstein steps take: `sqrt(noise_var_field * inv_cell)` -/
def rootsEM (sqrt : K → K) (n ncell : Nat) (v inv : Array K) : Array K :=
  tab n fun i => sqrt (get v i * get inv (i % ncell))

/-- the square roots the semi-implicit step takes: `sqrt(dt * noise_var_field * inv_cell)` -/
def rootsSI (sqrt : K → K) (n ncell : Nat) (dt : K) (v inv : Array K) : Array K :=
  tab n fun i => sqrt (dt * get v i * get inv (i % ncell))

def realAt (real : Option (Array K)) (i : Nat) : Option K := real.map (fun r => get r i)

def eulerStep (n : Nat) (dt : K) (u rate : Array K) : Array K :=
  tab n fun i => eulerCell dt (get u i) (get rate i)

def emStep (n ncell : Nat) (dt s alpha : K) (hasDrift : Bool)
    (u rate vd xi sq inv : Array K) (real : Option (Array K)) : Array K :=
  tab n fun i => emCell dt s alpha hasDrift (realizeCell s (get u i) (realAt real i))
    (get rate i) (get vd i) (get xi i) (get sq i) (get inv (i % ncell))

def milStep (n ncell : Nat) (dt s alpha : K)
    (u rate vd xi sq inv : Array K) (real : Option (Array K)) : Array K :=
  tab n fun i => milCell dt s alpha (realizeCell s (get u i) (realAt real i))
    (get rate i) (get vd i) (get xi i) (get sq i) (get inv (i % ncell))

def siRef (n : Nat) (u xi sqn : Array K) : Array K :=
  tab n fun i => siRefCell (get u i) (get xi i) (get sqn i)

/-- `state_t + dt * rate` (implicit.py:167, 173) -/
def siGuess (n : Nat) (dt : K) (base rate : Array K) : Array K :=
  tab n fun i => get base i + dt * get rate i

/-- the convergence measure of the fixed-point iteration (implicit.py:176-180):
`err = 0.0; for j: diff = new[j] - prev[j]; err += diff*diff; err /= size` -/
def mse (n : Nat) (a b : Array K) : K :=
  sumN n (fun j => (get a j - get b j) * (get a j - get b j)) / (n : K)

/-! ### variance layout (`SDEBase.make_noise_variance`) -/

/-- `np.broadcast_to(self.noise, state.data_shape)` for a noise array whose shape is a suffix of
`data_shape` (scalar: one entry; full shape: one entry per tensor component), flattened -/
def fieldVars (noise : List K) (ncomp : Nat) : List K :=
  (List.range ncomp).map fun c => noise.getD (c % noise.length) zero

/-- collections: `noise_var = np.broadcast_to(self.noise, len(state))` and
`noise_vars[state._slices[i]] = var`: the `i`-th field owns `ncomps[i]` consecutive components -/
def collVarsFrom (noise : List K) : Nat → List Nat → List K
  | _, [] => []
  | f, m :: ms =>
    List.replicate m (noise.getD (f % noise.length) zero) ++ collVarsFrom noise (f + 1) ms

def collVars (noise : List K) (ncomps : List Nat) : List K := collVarsFrom noise 0 ncomps

/-- `noise_vars.reshape(data_shape + (1,)*num_axes)` broadcast against the grid: constant over
the cells of one component -/
def constVar (ncell : Nat) (perComp : List K) : Array K :=
  tab (perComp.length * ncell) fun i => perComp.getD (i / ncell) zero

/-- `inv_cell = 1 / grid.cell_volumes`, flat over the cells in C order; the volumes come from
the grid model of C12 (`Grid.cellVolume`) -/
def multiIdx : List Nat → Nat → List Nat
  | [], _ => []
  | _ :: rest, flat =>
    let stride := rest.foldl (· * ·) 1
    (flat / stride) :: multiIdx rest (flat % stride)

def numCells (g : Grid K) : Nat := g.shape.foldl (· * ·) 1

def cellVolumes (pi : K) (g : Grid K) : Array K :=
  tab (numCells g) fun c => g.cellVolume pi (multiIdx g.shape c)

def invCell (vol : Array K) : Array K := vol.map fun v => ((1:Nat) : K) / v

/-! ### the stepper closure and whole runs -/

inductive Solver
  | euler | milstein | implicit
  deriving DecidableEq, Repr, Inhabited

/-- what the single-step closures capture -/
structure Sys (K : Type) where
  n : Nat                             -- `state.data.size`
  ncell : Nat                         -- number of grid cells
  dt : K
  s : K                               -- `dt_sqrt = np.sqrt(dt)`
  interp : Interp
  inv : Array K                       -- `inv_cell`
  rate : Nat → Array K → Array K      -- `rhs_pde(state_data, t)`, `t = t_start + k dt` ↦ step index `k`
  var : Array K → Array K             -- `noise_var(state_data, t)[0]`
  varDiff : Array K → Array K         -- `noise_var(state_data, t)[1]`
  real : Option (Array K → Array K)   -- `rhs_noise(state_data, t)` of the second interface
  sqrt : K → K
  maxiter : Nat                       -- `ImplicitSolver.maxiter`
  maxerr2 : K                         -- `maxerror**2`

variable [LT K] [DecidableLT K]

/-- fixed-point iteration of the (semi-)implicit Euler step (implicit.py:170-188):
`state_data[:] = state_t + dt * rhs(state_data, t + dt)` until the mean squared change is below
`maxerror**2`; `none` = `ConvergenceError` -/
def siIterate (S : Sys K) (k : Nat) (base : Array K) : Nat → Array K → Option (Array K)
  | 0, _ => none
  | fuel + 1, cur =>
    let nxt := siGuess S.n S.dt base (S.rate (k + 1) cur)
    if mse S.n nxt cur < S.maxerr2 then some nxt else siIterate S k base fuel nxt

/-- deterministic implicit Euler step from `u` (implicit.py:74-108) -/
def Sys.detImplicitStep (S : Sys K) (k : Nat) (u : Array K) : Option (Array K) :=
  siIterate S k u S.maxiter (siGuess S.n S.dt u (S.rate k u))

/-- explicit deterministic Euler step -/
def Sys.eulerStep (S : Sys K) (k : Nat) (u : Array K) : Array K :=
  Noise.eulerStep S.n S.dt u (S.rate k u)

/-- one stochastic step of the chosen solver with the normal numbers `xi`.
All field-dependent terms are evaluated on the unchanged state `u` first. -/
def Sys.step (S : Sys K) (sol : Solver) (k : Nat) (u xi : Array K) : Option (Array K) :=
  let rate := S.rate k u
  let v := S.var u
  match sol with
  | .euler =>
    some (emStep S.n S.ncell S.dt S.s S.interp.alpha S.interp.hasDrift u rate (S.varDiff u) xi
      (rootsEM S.sqrt S.n S.ncell v S.inv) S.inv (S.real.map (· u)))
  | .milstein =>
    some (milStep S.n S.ncell S.dt S.s S.interp.alpha u rate (S.varDiff u) xi
      (rootsEM S.sqrt S.n S.ncell v S.inv) S.inv (S.real.map (· u)))
  | .implicit =>
    -- `make_noise_realization` raises NotImplementedError for this solver: `S.real` is not read
    let base := siRef S.n u xi (rootsSI S.sqrt S.n S.ncell S.dt v S.inv)
    siIterate S k base S.maxiter (siGuess S.n S.dt base rate)

/-- `m` steps starting with step index `k`: every step takes the *head* of the stream of
standard-normal arrays (`gaussian_noise()` is called exactly once per step) and hands the tail
on.  Returned: final state and the unconsumed rest of the stream.  `none`: the stream ran dry or
the implicit iteration did not converge. -/
def Sys.run (S : Sys K) (sol : Solver) : Nat → Nat → Array K → List (Array K) →
    Option (Array K × List (Array K))
  | _, 0, u, xs => some (u, xs)
  | _, _ + 1, _, [] => none
  | k, m + 1, u, x :: xs =>
    match S.step sol k u x with
    | none => none
    | some u' => Sys.run S sol (k + 1) m u' xs

/-- deterministic run (`is_sde = False`): no array of the stream is consumed -/
def Sys.runDet (S : Sys K) : Nat → Nat → Array K → Array K
  | _, 0, u => u
  | k, m + 1, u => Sys.runDet S (k + 1) m (S.eulerStep k u)

/-! ### the generator as a state (stream model of `pde.rng`)

`NumpyBackend.make_gaussian_noise` closes over the equation's generator and calls
`rng.standard_normal(data_shape)` once per invocation; `fixed_stepper` invokes it once per step.
`next : σ → Array K × σ` is one such call (the array drawn and the generator state after it). -/

/-- the first `m` draws of the generator and its state after them -/
def draws {σ : Type} (next : σ → Array K × σ) : Nat → σ → List (Array K) × σ
  | 0, g => ([], g)
  | m + 1, g =>
    let (x, g1) := next g
    let (xs, g2) := draws next m g1
    (x :: xs, g2)

/-- `m` steps with the generator threaded through the loop: every step performs exactly one call
of `next` *before* the single step is computed (euler.py:123 / milstein.py:119 / implicit.py:166
call `gaussian_noise()` once), the state after the call is handed to the following step.
Returned: final state and final generator state. -/
def Sys.runGen {σ : Type} (S : Sys K) (sol : Solver) (next : σ → Array K × σ) :
    Nat → Nat → Array K → σ → Option (Array K × σ)
  | _, 0, u, g => some (u, g)
  | k, m + 1, u, g =>
    let (x, g1) := next g
    match S.step sol k u x with
    | none => none
    | some u' => Sys.runGen S sol next (k + 1) m u' g1

/-! ### additive noise on a collection (`SDEBase.make_noise_variance`, collection branch)

The closure data for a `FieldCollection` whose fields have `ncomps[f]` tensor components on a grid
with cell volumes `vol`, with one variance per field (`noise`; a single entry is broadcast):
the variance array is constant in the state, its derivative vanishes.  The driver builds every
collection case through this definition. -/
def collSys (sqrt : K → K) (dt : K) (interp : Interp) (vol : Array K) (noise : List K)
    (ncomps : List Nat) (rate : Nat → Array K → Array K) (real : Option (Array K → Array K))
    (maxiter : Nat) (maxerr2 : K) : Sys K :=
  let ncell := vol.size
  let n := ncomps.sum * ncell
  { n := n, ncell := ncell, dt := dt, s := sqrt dt, interp := interp, inv := invCell vol,
    rate := rate, var := fun _ => constVar ncell (collVars noise ncomps),
    varDiff := fun _ => tab n fun _ => zero, real := real, sqrt := sqrt,
    maxiter := maxiter, maxerr2 := maxerr2 }

/-- additive noise on a single field with `ncomp` tensor components (`SDEBase.make_noise_variance`, field branch:
`np.broadcast_to(noise, data_shape)`, flattened: component `c` carries `noise[c % len]`).  The driver builds every
`field` case through this definition. -/
def fieldSys (sqrt : K → K) (dt : K) (interp : Interp) (vol : Array K) (noise : List K)
    (ncomp : Nat) (rate : Nat → Array K → Array K) (real : Option (Array K → Array K))
    (maxiter : Nat) (maxerr2 : K) : Sys K :=
  let ncell := vol.size
  let n := ncomp * ncell
  { n := n, ncell := ncell, dt := dt, s := sqrt dt, interp := interp, inv := invCell vol,
    rate := rate, var := fun _ => constVar ncell (fieldVars noise ncomp),
    varDiff := fun _ => tab n fun _ => zero, real := real, sqrt := sqrt,
    maxiter := maxiter, maxerr2 := maxerr2 }

/-! ### the rate and variance families the driver instantiates -/

/-- local reaction rate `a + b*u + c*(u*u*u)` with one coefficient triple per component -/
def localRate (n ncell : Nat) (a b c : Array K) (u : Array K) : Array K :=
  tab n fun i =>
    let x := get u i
    let j := i / ncell
    get a j + get b j * x + get c j * (x * x * x)

/-- field-dependent variance `g0 + g2*(u*u)` per component ... -/
def quadVar (n ncell : Nat) (g0 g2 : Array K) (u : Array K) : Array K :=
  tab n fun i =>
    let x := get u i
    let j := i / ncell
    get g0 j + get g2 j * (x * x)

/-- ... and its derivative `(2*g2)*u` -/
def quadVarDiff (n ncell : Nat) (g2 : Array K) (u : Array K) : Array K :=
  tab n fun i => ((2:Nat) : K) * get g2 (i / ncell) * get u i

/-- the closure for the field-dependent variance family `g0 + g2*u²` (one coefficient pair per component) on a grid
with cell volumes `vol`; `n = state.data.size`.  The driver builds every `quad` case through this definition. -/
def quadSys (sqrt : K → K) (dt : K) (interp : Interp) (n : Nat) (vol g0 g2 : Array K)
    (rate : Nat → Array K → Array K) (real : Option (Array K → Array K))
    (maxiter : Nat) (maxerr2 : K) : Sys K :=
  { n := n, ncell := vol.size, dt := dt, s := sqrt dt, interp := interp, inv := invCell vol,
    rate := rate, var := quadVar n vol.size g0 g2, varDiff := quadVarDiff n vol.size g2,
    real := real, sqrt := sqrt, maxiter := maxiter, maxerr2 := maxerr2 }

end
end PdeVerif.Noise
