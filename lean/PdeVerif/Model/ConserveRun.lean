import PdeVerif.Model.Conserve
import PdeVerif.Model.Solvers
/-
Whole-state runs of the explicit fixed-step solvers with a cell-coupling right-hand side (C05, simulation clause).

The step maps of `Model/Solvers.lean` (`eulerStep`, `rk4Step` with the extracted tableau `rk4Tab`) are generic in the
number type.  Here they are instantiated at the type of padded arrays `Arr K = List Int → K` with pointwise
arithmetic (what numpy does with `state.data`), the right-hand side is "ghost cells of the potential by
`BC.setGhostAll`, then the Laplacian stencil" (`DiffusionPDE`, `CahnHilliardPDE` with `auto_periodic_neumann`), and the
loop is `Solvers.fixedStepper`.  Between two steps the state is the list of the values of the valid cells in row-major
order (`state.data.ravel()`), so the driver can evaluate a run step by step.  Core Lean only.
-/
namespace PdeVerif.Conserve
open PdeVerif PdeVerif.Stencil PdeVerif.BC PdeVerif.Solvers

section
variable {K : Type} [Add K] [Sub K] [Mul K] [Div K] [Neg K] [NatCast K] [IntCast K]

/-! ### pointwise arithmetic on padded arrays (local to this file) -/

local instance arrAdd : Add (Arr K) := ⟨fun a b i => a i + b i⟩
local instance arrSub : Sub (Arr K) := ⟨fun a b i => a i - b i⟩
local instance arrMul : Mul (Arr K) := ⟨fun a b i => a i * b i⟩
local instance arrDiv : Div (Arr K) := ⟨fun a b i => a i / b i⟩
local instance arrNeg : Neg (Arr K) := ⟨fun a i => -a i⟩
local instance arrNatCast : NatCast (Arr K) := ⟨fun n _ => (n : K)⟩
local instance arrIntCast : IntCast (Arr K) := ⟨fun n _ => (n : K)⟩

inductive RunScheme | euler | rk4
  deriving DecidableEq, Repr

/-- one step of the whole padded state: `Solvers.eulerStep` / `Solvers.rk4Step rk4Tab` at the number type `Arr K`;
the scalars `dt`, `t` are the constant arrays -/
def wholeStep (sch : RunScheme) (f : Rate (Arr K)) (dt : K) (u : Arr K) (t : K) : Arr K :=
  match sch with
  | .euler => eulerStep f (fun _ => dt) u (fun _ => t)
  | .rk4 => rk4Step rk4Tab f (fun _ => dt) u (fun _ => t)

/-! ### the state between two steps: the values of the valid cells -/

/-- full-array indices of the valid cells of a grid, row-major (`1..n` on every axis) -/
def validCells : List Nat → List (List Int)
  | [] => [[]]
  | n :: rest => (List.range n).flatMap fun (i : Nat) => (validCells rest).map fun tl => ((i : Int) + 1) :: tl

/-- the padded array holding `vals` in the given cells (and `0` elsewhere: ghost cells are written by the rate) -/
def ofCells : List (List Int) → List K → Arr K
  | c :: cs, v :: vs => fun idx => if idx = c then v else ofCells cs vs idx
  | _, _ => fun _ => ((0 : Nat) : K)

def readCells (cells : List (List Int)) (u : Arr K) : List K := cells.map u

/-- `single_step` of the solver acting on `state.data` -/
def cellStep (cells : List (List Int)) (sch : RunScheme) (f : Rate (Arr K)) (dt : K) (s : List K) (t : K) :
    Option (List K) :=
  some (readCells cells (wholeStep sch f dt (ofCells cells s) t))

/-- implicit.py `implicit_step` on `state.data` with a cell-coupling right-hand side: predictor, then the fixed-point
loop `Solvers.fixpointLoop` over `Solvers.implicitIter` at the padded-array type; `none` = `ConvergenceError` -/
def cellImplicitStep [HasNormSq K] [LT K] [DecidableLT K] (cells : List (List Int)) (f : Rate (Arr K))
    (maxiter : Nat) (maxerror dt : K) (s : List K) (t : K) : Option (List K) :=
  match fixpointLoop
      (fun xs => readCells cells (implicitIter f (fun _ => dt) (fun _ => t) (ofCells cells s) (ofCells cells xs)))
      (maxerror * maxerror) maxiter
      (readCells cells (implicitPredict f (fun _ => dt) (fun _ => t) (ofCells cells s))) 0 with
  | none => none
  | some (ys, _) => some ys

/-- crank_nicolson.py `crank_nicolson_step` on `state.data` (`α` = `explicit_fraction`) -/
def cellCNStep [HasNormSq K] [LT K] [DecidableLT K] (cells : List (List Int)) (f : Rate (Arr K)) (α : K)
    (maxiter : Nat) (maxerror dt : K) (s : List K) (t : K) : Option (List K) :=
  match fixpointLoop
      (fun xs => readCells cells
        (cnIter (fun _ => α) f (fun _ => dt) (fun _ => t) (ofCells cells s) (ofCells cells xs)))
      (maxerror * maxerror) maxiter
      (readCells cells (cnIter (fun _ => α) f (fun _ => dt) (fun _ => t) (ofCells cells s) (ofCells cells s))) 0 with
  | none => none
  | some (ys, _) => some ys

/-- the fixed-step solvers of the run model -/
inductive RunSolver (K : Type)
  | explicit (sch : RunScheme)
  | implicit (maxiter : Nat) (maxerror : K)
  | crankNicolson (α : K) (maxiter : Nat) (maxerror : K)

def solverStep [HasNormSq K] [LT K] [DecidableLT K] (cells : List (List Int)) (sol : RunSolver K) (f : Rate (Arr K))
    (dt : K) (s : List K) (t : K) : Option (List K) :=
  match sol with
  | .explicit sch => cellStep cells sch f dt s t
  | .implicit mi me => cellImplicitStep cells f mi me dt s t
  | .crankNicolson α mi me => cellCNStep cells f α mi me dt s t

/-- the run `fixed_stepper(state, t_start, t_end)`: new `state.data` and the returned time -/
def solverRun [HasNormSq K] [LT K] [DecidableLT K] [LE K] [DecidableLE K] [HasFloor K]
    (cells : List (List Int)) (sol : RunSolver K) (f : Rate (Arr K)) (dt ts te : K) (s : List K) : Option (List K × K) :=
  fixedStepper (solverStep cells sol f dt) dt ts te s

/-- `Controller.run` without trackers: `while t < t_end - atol: t = stepper(state, t, t_end)` (`atol = 1e-6 dt`); a call of
the stepper makes `stepCount` (a rounding) steps, so the loop may call it again.  `fuel` bounds the number of calls;
returns `state.data`, the final time and the total number of steps -/
def solverRuns [HasNormSq K] [LT K] [DecidableLT K] [LE K] [DecidableLE K] [HasFloor K]
    (cells : List (List Int)) (sol : RunSolver K) (f : Rate (Arr K)) (dt te atol : K) :
    Nat → K → List K → Nat → Option (List K × K × Nat)
  | 0, t, s, k => some (s, t, k)
  | fuel + 1, t, s, k =>
    if t < te - atol then
      match solverRun cells sol f dt t te s with
      | none => none
      | some (s', t') => solverRuns cells sol f dt te atol fuel t' s' (k + stepCount dt t te)
    else some (s, t, k)

/-! ### the right-hand sides -/

inductive GridCls | cart | polar | sph | cyl
  deriving DecidableEq, Repr

/-- the Laplacian of the grid class at one valid cell (spherical: the conservative stencil, the default) -/
def lapOp (cls : GridCls) (lo : K) (dxs : List K) (a : Arr K) (idx : List Int) : K :=
  match cls with
  | .cart => cartLaplace dxs a [] idx
  | .polar => polarLaplace (centre lo (dxs.getD 0 ((1 : Nat) : K))) (dxs.getD 0 ((1 : Nat) : K)) a (idx.getD 0 0)
  | .sph => sphLaplace true (centre lo (dxs.getD 0 ((1 : Nat) : K))) (dxs.getD 0 ((1 : Nat) : K)) a (idx.getD 0 0)
  | .cyl => cylLaplace (centre lo (dxs.getD 0 ((1 : Nat) : K))) (dxs.getD 0 ((1 : Nat) : K))
      (dxs.getD 1 ((1 : Nat) : K)) a (idx.getD 0 0) (idx.getD 1 0)

/-- `∂_t u = ∇² mu(u, t)` with the conserving conditions (`auto_periodic_neumann`) for the outer Laplacian -/
def consRate (cls : GridCls) (shape : List Nat) (lo : K) (dxs : List K) (pers : List Bool)
    (mu : Arr K → Arr K → Arr K) : Rate (Arr K) :=
  fun u t idx => lapOp cls lo dxs (setGhostAll (consFaces shape false dxs pers) (mu u t)) idx

/-- `DiffusionPDE`: `mu = D u` -/
def muDiffusion (D : K) : Arr K → Arr K → Arr K := fun u _ idx => D * u idx

/-- `CahnHilliardPDE`: `mu = c³ - c - γ ∇²c`, the inner Laplacian with the ghost cells of the faces `facesC` -/
def muCahnHilliard (cls : GridCls) (lo : K) (dxs : List K) (facesC : List (Face × K × Cond K)) (γ : K) :
    Arr K → Arr K → Arr K :=
  fun u _ idx => u idx * u idx * u idx - u idx - γ * lapOp cls lo dxs (setGhostAll facesC u) idx

/-! ### the conserved quantity: `state.integral` without the factor `π` -/

def massOf (cls : GridCls) (shape : List Nat) (lo : K) (dxs : List K) (u : Arr K) : K :=
  let d0 := dxs.getD 0 ((1 : Nat) : K)
  let d1 := dxs.getD 1 ((1 : Nat) : K)
  let d2 := dxs.getD 2 ((1 : Nat) : K)
  match cls, shape with
  | .cart, [n] => sumTo (fun i => d0 * u [(i : Int)]) n
  | .cart, [n, m] => sumTo (fun i => sumTo (fun j => d0 * d1 * u [(i : Int), (j : Int)]) m) n
  | .cart, [n, m, l] =>
    sumTo (fun i => sumTo (fun j => sumTo (fun k => d0 * d1 * d2 * u [(i : Int), (j : Int), (k : Int)]) l) m) n
  | .polar, [n] => sumTo (fun i => volPolar (centre lo d0) d0 (i : Int) * u [(i : Int)]) n
  | .sph, [n] => sumTo (fun i => volSph (centre lo d0) d0 (i : Int) * u [(i : Int)]) n
  | .cyl, [n, m] => sumTo (fun i => sumTo (fun j => volCyl (centre lo d0) d0 d1 (i : Int) * u [(i : Int), (j : Int)]) m) n
  | _, _ => ((0 : Nat) : K)

/-- the integral of the state held in `state.data` -/
def cellMass (cls : GridCls) (shape : List Nat) (lo : K) (dxs : List K) (s : List K) : K :=
  massOf cls shape lo dxs (ofCells (validCells shape) s)

/-! ### two coupled fields (the `PDE({"a": …, "c": …})` of the sim leg): only `c` is conserved -/

/-- two coupled scalar fields in one padded array: a leading field index (`0` = `a`, `1` = `c`) -/
def fieldOf (fld : Int) (u : Arr K) : Arr K := fun idx => u (fld :: idx)

/-- `FieldCollection([a, c]).data.ravel()`: the valid cells of `a`, then those of `c` -/
def cells2 (shape : List Nat) : List (List Int) :=
  (validCells shape).map (fun idx => (0 : Int) :: idx) ++ (validCells shape).map (fun idx => (1 : Int) :: idx)

/-- `auto_periodic_dirichlet`: periodic, or vanishing value at the walls -/
def dirFaces (shape : List Nat) (dxs : List K) (pers : List Bool) : List (Face × K × Cond K) :=
  gridFaces shape 0 (fun ax => dxs.getD ax ((1 : Nat) : K))
    (fun ax => if pers.getD ax false then .periodic false else .dirichlet (fun _ => ((0 : Nat) : K)))
    (fun ax => if pers.getD ax false then .periodic false else .dirichlet (fun _ => ((0 : Nat) : K)))
    (fun _ => false) (fun _ => false)

/-- the potential of the conserved field: `c³ - c + κ a` -/
def muTwo (κ : K) : Arr K → Arr K → Arr K :=
  fun u _ i => u (1 :: i) * u (1 :: i) * u (1 :: i) - u (1 :: i) + κ * u (0 :: i)

/-- `∂_t a = ∇²a - a` (non-conserving: vanishing value at the walls), `∂_t c = ∇²(c³ - c + κ a)` (conserving conditions) -/
def twoFieldRate (cls : GridCls) (shape : List Nat) (lo : K) (dxs : List K) (pers : List Bool) (κ : K) : Rate (Arr K) :=
  fun u t idx =>
    match idx with
    | fld :: tl =>
      if fld = 0 then lapOp cls lo dxs (setGhostAll (dirFaces shape dxs pers) (fieldOf 0 u)) tl - u idx
      else consRate cls shape lo dxs pers (muTwo κ) u t tl
    | [] => ((0 : Nat) : K)

/-- integral of the field `c` of the collection held in `state.data` -/
def cellMass2 (cls : GridCls) (shape : List Nat) (lo : K) (dxs : List K) (s : List K) : K :=
  massOf cls shape lo dxs (fieldOf 1 (ofCells (cells2 shape) s))

end
end PdeVerif.Conserve
