import PdeVerif.Props.C05b
import PdeVerif.Model.Solvers
import Mathlib.Algebra.Module.LinearMap.Defs
import Mathlib.Algebra.Module.Pi
import Mathlib.Tactic.Ring
/-
C05, third part - the simulation clause for the concrete solver models of `Model/Solvers.lean` (owned by C06).

The step maps of the solver model (`eulerStep`, `rk4Step`, `rkf45Step`, `implicitPredict`, `implicitIter`,
`cnIter`, `ab2Step`, `ab2Init`, `eulerVar`) are generic in the number type.  Instantiated at the function type
`ι → F` (`F` a field, pointwise operations: one number per cell, e.g. `ι = List Int`, the padded arrays
`Stencil.Arr F`) they are the steps of the *whole state* with a right-hand side `f : Rate (ι → F)` that couples
the cells (a discrete Laplacian with its ghost cells); the scalars `dt`, `α` and the tableau coefficients are the
constant functions `κ c`.  For every linear functional `I` (a volume-weighted sum) and every rate with
`I (f w s) = 0` the steps keep `I`.  The loops `fixedLoop`/`fixedStepper`/`adaptiveLoop` of the model keep every
quantity their single steps keep (induction over the steps).  At the end the rate is made concrete: ghost cells
by `setGhostAll`, Laplacian of an arbitrary "chemical potential" `mu u` - diffusion and Cahn-Hilliard.
-/
namespace PdeVerif.Conserve
open PdeVerif PdeVerif.Stencil PdeVerif.BC PdeVerif.Solvers

section steps
variable {F ι : Type} [Field F]

/-- a scalar of the solver (time step, coefficient) as a state: the same number in every cell -/
def κ (c : F) : ι → F := fun _ => c

/-- the right-hand side has vanishing `I` whatever the state and time -/
def Conserving (I : (ι → F) →ₗ[F] F) (f : Rate (ι → F)) : Prop := ∀ w s, I (f w s) = 0

theorem I_κ_mul (I : (ι → F) →ₗ[F] F) (c : F) (x : ι → F) : I (κ c * x) = c * I x := by
  have : (κ c * x : ι → F) = c • x := by funext i; simp [κ]
  rw [this, map_smul, smul_eq_mul]

theorem κ_natCast_div (c : F) (n : Nat) : (κ c / ((n : Nat) : ι → F)) = κ (c / (n : F)) := by
  funext i; simp [κ]

theorem κ_one_sub (c : F) : (((1 : Nat) : ι → F) - κ c) = κ (1 - c) := by
  funext i; simp [κ]

/-- explicit Euler (`euler.py`, numba `_make_fixed_stepper` body) -/
theorem euler_step_conserves (I : (ι → F) →ₗ[F] F) (f : Rate (ι → F)) (hf : Conserving I f) (dt : F) (u t : ι → F) :
    I (eulerStep f (κ dt) u t) = I u := by
  unfold eulerStep
  rw [map_add, I_κ_mul, hf]; simp

/-- the variable-step Euler used by the adaptive solvers (`_make_single_step_variable_dt`) -/
theorem euler_var_conserves (I : (ι → F) →ₗ[F] F) (f : Rate (ι → F)) (hf : Conserving I f) (dt : F) (u t : ι → F) :
    I (eulerVar f u t (κ dt)) = I u := by
  unfold eulerVar
  rw [map_add, I_κ_mul, hf]; simp

/-- a four-stage tableau with the same coefficients in every cell -/
def liftRK4 (T : RK4Tab F) : RK4Tab (ι → F) :=
  { c1 := κ T.c1, a21 := κ T.a21, c2 := κ T.c2, a31 := κ T.a31, a32 := κ T.a32, c3 := κ T.c3,
    a41 := κ T.a41, a42 := κ T.a42, a43 := κ T.a43, c4 := κ T.c4,
    w1 := κ T.w1, w2 := κ T.w2, w3 := κ T.w3, w4 := κ T.w4 }

/-- Runge-Kutta (`runge_kutta.py` fixed step), any tableau -/
theorem rk4_step_conserves (I : (ι → F) →ₗ[F] F) (f : Rate (ι → F)) (hf : Conserving I f) (T : RK4Tab F)
    (dt : F) (u t : ι → F) : I (rk4Step (liftRK4 T) f (κ dt) u t) = I u := by
  have hf' : ∀ w s, I (f w s) = 0 := hf
  unfold rk4Step liftRK4
  simp only [map_add, I_κ_mul, hf', mul_zero, add_zero]

/-- the extracted tableau of the source is such a lift -/
theorem rk4Tab_is_lift : (rk4Tab : RK4Tab (ι → F)) = liftRK4 (rk4Tab : RK4Tab F) := by
  rfl

theorem rk4_step_conserves_source_tableau (I : (ι → F) →ₗ[F] F) (f : Rate (ι → F)) (hf : Conserving I f)
    (dt : F) (u t : ι → F) : I (rk4Step rk4Tab f (κ dt) u t) = I u := by
  rw [rk4Tab_is_lift]; exact rk4_step_conserves I f hf _ dt u t

/-- the Fehlberg tableau with the same coefficients in every cell -/
def liftRKF (T : RKFTab F) : RKFTab (ι → F) :=
  { a1 := κ T.a1, a2 := κ T.a2, b21 := κ T.b21, a3 := κ T.a3, b31 := κ T.b31, b32 := κ T.b32,
    a4 := κ T.a4, b41 := κ T.b41, b42 := κ T.b42, b43 := κ T.b43,
    a5 := κ T.a5, b51 := κ T.b51, b52 := κ T.b52, b53 := κ T.b53, b54 := κ T.b54,
    a6 := κ T.a6, b61 := κ T.b61, b62 := κ T.b62, b63 := κ T.b63, b64 := κ T.b64, b65 := κ T.b65,
    c1 := κ T.c1, c2 := κ T.c2, c3 := κ T.c3, c4 := κ T.c4, c5 := κ T.c5, c6 := κ T.c6,
    r1 := κ T.r1, r2 := κ T.r2, r3 := κ T.r3, r4 := κ T.r4, r5 := κ T.r5, r6 := κ T.r6 }

theorem rkfTab_is_lift : (rkfTab : RKFTab (ι → F)) = liftRKF (rkfTab : RKFTab F) := by
  rfl

/-- adaptive Runge-Kutta-Fehlberg (`runge_kutta.py` error-estimating step): the returned state keeps `I`
(and the error estimate has vanishing `I`), any tableau -/
theorem rkf45_step_conserves (I : (ι → F) →ₗ[F] F) (f : Rate (ι → F)) (hf : Conserving I f) (T : RKFTab F)
    (dt : F) (u t : ι → F) :
    I (rkf45Step (liftRKF T) f (κ dt) u t).1 = I u ∧ I (rkf45Step (liftRKF T) f (κ dt) u t).2 = 0 := by
  have hf' : ∀ w s, I (f w s) = 0 := hf
  unfold rkf45Step rkfStages liftRKF
  simp only [map_add, I_κ_mul, hf', mul_zero, add_zero, and_self]

/-- implicit Euler (`implicit.py`): the predictor and *every* fixed-point iterate, whatever the previous
iterate `x` was - so the returned state keeps `I` for any `maxiter`/`maxerror` -/
theorem implicit_iterates_conserve (I : (ι → F) →ₗ[F] F) (f : Rate (ι → F)) (hf : Conserving I f)
    (dt : F) (t u x : ι → F) :
    I (implicitPredict f (κ dt) t u) = I u ∧ I (implicitIter f (κ dt) t u x) = I u := by
  unfold implicitPredict implicitIter
  rw [map_add, map_add, I_κ_mul, I_κ_mul, hf, hf]; simp

/-- Crank-Nicolson (`crank_nicolson.py`): one damped iteration keeps `I` if the previous iterate has it -/
theorem cn_iter_conserves (I : (ι → F) →ₗ[F] F) (f : Rate (ι → F)) (hf : Conserving I f)
    (α dt : F) (t u x : ι → F) (hx : I x = I u) : I (cnIter (κ α) f (κ dt) t u x) = I u := by
  have hf' : ∀ w s, I (f w s) = 0 := hf
  unfold cnIter
  rw [κ_one_sub, κ_natCast_div]
  simp only [map_add, I_κ_mul, hf', hx, mul_zero, add_zero]
  ring

/-- ... hence every iterate (the code starts from `x = u`), for every `explicit_fraction` α -/
theorem cn_iterates_conserve (I : (ι → F) →ₗ[F] F) (f : Rate (ι → F)) (hf : Conserving I f)
    (α dt : F) (t u : ι → F) (k : Nat) : I ((cnIter (κ α) f (κ dt) t u)^[k] u) = I u := by
  induction k with
  | zero => rfl
  | succ k ih => rw [Function.iterate_succ_apply']; exact cn_iter_conserves I f hf α dt t u _ ih

def liftAB2 (T : AB2Tab F) : AB2Tab (ι → F) :=
  { wCur := κ T.wCur, wPrev := κ T.wPrev, tCur := κ T.tCur, tPrev := κ T.tPrev, init := κ T.init }

theorem ab2Tab_is_lift : (ab2Tab : AB2Tab (ι → F)) = liftAB2 (ab2Tab : AB2Tab F) ∧
    (ab2TabNumba : AB2Tab (ι → F)) = liftAB2 (ab2TabNumba : AB2Tab F) := ⟨rfl, rfl⟩

/-- Adams-Bashforth (`adams_bashforth.py`, numba `_make_adams_bashforth_stepper`): the new state keeps `I`,
the new "previous state" is the old state, and the first-call estimate of the previous state keeps `I` -/
theorem ab2_step_conserves (I : (ι → F) →ₗ[F] F) (f : Rate (ι → F)) (hf : Conserving I f) (T : AB2Tab F)
    (dt : F) (t u p : ι → F) :
    I (ab2Step (liftAB2 T) f (κ dt) t u p).1 = I u ∧ (ab2Step (liftAB2 T) f (κ dt) t u p).2 = u ∧
      I (ab2Init (liftAB2 T) f (κ dt) t u) = I u := by
  have hf' : ∀ w s, I (f w s) = 0 := hf
  unfold ab2Step ab2Init liftAB2
  simp only [map_add, I_κ_mul, hf', mul_zero, add_zero, and_self]

end steps

/-! ### the loops keep whatever their single steps keep -/
section loops
variable {K : Type} [Add K] [Sub K] [Mul K] [Div K] [Neg K] [NatCast K] [IntCast K]

/-- `fixed_stepper`'s loop: any number of steps, any quantity `J` every successful step keeps -/
theorem fixedLoop_conserves {σ β : Type} (J : σ → β) (step : σ → K → Option σ)
    (hstep : ∀ s t s', step s t = some s' → J s' = J s) (dt ts : K) (n i : Nat) (s s' : σ)
    (h : fixedLoop step dt ts n i s = some s') : J s' = J s := by
  induction n generalizing i s with
  | zero => simp only [fixedLoop, Option.some.injEq] at h; rw [← h]
  | succ n ih =>
    simp only [fixedLoop] at h
    cases hs : step s (ts + ((i : Nat) : K) * dt) with
    | none => rw [hs] at h; cases h
    | some s1 =>
      rw [hs] at h
      rw [ih (i + 1) s1 h, hstep _ _ _ hs]

/-- base.py `fixed_stepper` / numba `_make_fixed_stepper`, for the step count the code computes -/
theorem fixedStepper_conserves [LT K] [DecidableLT K] [LE K] [DecidableLE K] [HasFloor K] {σ β : Type} (J : σ → β)
    (step : σ → K → Option σ) (hstep : ∀ s t s', step s t = some s' → J s' = J s) (dt ts te : K) (s s' : σ) (tr : K)
    (h : fixedStepper step dt ts te s = some (s', tr)) : J s' = J s := by
  unfold fixedStepper at h
  cases hl : fixedLoop step dt ts (stepCount dt ts te) 0 s with
  | none => simp only [hl] at h; cases h
  | some s1 =>
    simp only [hl, Option.some.injEq, Prod.mk.injEq] at h
    rw [← h.1]
    exact fixedLoop_conserves J step hstep dt ts _ 0 s s1 hl

/-- the state an `AOut` carries -/
def AOut.state : AOut K → AState K
  | .done s => s
  | .fuel s => s
  | .error _ s => s

/-- base.py `adaptive_stepper` / numba `_make_adaptive_stepper_general`: accepted and rejected trial steps,
every step-size adjustment, every exit (end time reached, error raised, model fuel exhausted): the state
carries the `J` of the start if every trial step keeps `J` -/
theorem adaptiveLoop_conserves [LT K] [DecidableLT K] [LE K] [DecidableLE K] {β : Type} (J : List K → β)
    (C : Ctl K) (est : List K → K → K → List K × K) (hest : ∀ us t h, J (est us t h).1 = J us) (tEnd : K)
    (fuel : Nat) (s : AState K) : J (AOut.state (adaptiveLoop C est tEnd fuel s)).us = J s.us := by
  induction fuel generalizing s with
  | zero => rfl
  | succ n ih =>
    rw [adaptiveLoop]
    generalize dtStep C s.dtOpt tEnd s.t = h
    have hJ : J (est s.us s.t h).1 = J s.us := hest _ _ _
    generalize est s.us s.t h = r at hJ ⊢
    generalize decide (r.2 / C.tol ≤ ((1:Nat) : K)) = acc
    have key : ∀ us', J us' = J s.us → ∀ t' steps' tr,
        J (AOut.state (if t' < tEnd then
          match adjustDt C h (r.2 / C.tol) with
          | .ok d => adaptiveLoop C est tEnd n ⟨us', t', d, steps', tr⟩
          | .error e => .error e ⟨us', t', s.dtOpt, steps', tr⟩
        else .done ⟨us', t', s.dtOpt, steps', tr⟩)).us = J s.us := by
      intro us' hus' t' steps' tr
      split
      · split
        · rw [ih]; exact hus'
        · exact hus'
      · exact hus'
    cases acc with
    | true => exact key r.1 hJ _ _ _
    | false => exact key s.us rfl _ _ _

/-- the fixed-point loop of the implicit solvers returns an iterate `it x`: whatever every iterate has in
common, the returned state has -/
theorem fixpointLoop_conserves [HasNormSq K] [LT K] [DecidableLT K] {β : Type} (J : List K → β)
    (it : List K → List K) (c : β) (hit : ∀ xs, J (it xs) = c) (e : K) (m : Nat) (xs : List K) (n : Nat)
    (ys : List K) (k : Nat) (h : fixpointLoop it e m xs n = some (ys, k)) : J ys = c := by
  induction m generalizing xs n with
  | zero => simp [fixpointLoop] at h
  | succ m ih =>
    rw [fixpointLoop] at h
    split at h
    · simp only [Option.some.injEq, Prod.mk.injEq] at h
      rw [← h.1]; exact hit xs
    · exact ih _ _ h

end loops

/-! ### all solvers at once, any number of steps -/
section all
variable {F ι : Type} [Field F]

/-- every single-step map of the solver model keeps `I` when the rate is conserving -/
theorem solver_steps_conserve (I : (ι → F) →ₗ[F] F) (f : Rate (ι → F)) (hf : Conserving I f) (dt α : F)
    (t u x p : ι → F) (k : Nat) :
    I (eulerStep f (κ dt) u t) = I u ∧
    I (rk4Step rk4Tab f (κ dt) u t) = I u ∧
    I (rkf45Step rkfTab f (κ dt) u t).1 = I u ∧
    I (implicitPredict f (κ dt) t u) = I u ∧ I (implicitIter f (κ dt) t u x) = I u ∧
    I ((cnIter (κ α) f (κ dt) t u)^[k] u) = I u ∧
    I (ab2Step ab2Tab f (κ dt) t u p).1 = I u ∧ I (ab2Step ab2TabNumba f (κ dt) t u p).1 = I u ∧
    I (ab2Init ab2Tab f (κ dt) t u) = I u ∧
    I (eulerVar f u t (κ dt)) = I u := by
  refine ⟨euler_step_conserves I f hf dt u t, rk4_step_conserves_source_tableau I f hf dt u t, ?_,
    (implicit_iterates_conserve I f hf dt t u x).1, (implicit_iterates_conserve I f hf dt t u x).2,
    cn_iterates_conserve I f hf α dt t u k, ?_, ?_, ?_, euler_var_conserves I f hf dt u t⟩
  · rw [rkfTab_is_lift]; exact (rkf45_step_conserves I f hf _ dt u t).1
  · rw [ab2Tab_is_lift.1]; exact (ab2_step_conserves I f hf _ dt t u p).1
  · rw [ab2Tab_is_lift.2]; exact (ab2_step_conserves I f hf _ dt t u p).1
  · rw [ab2Tab_is_lift.1]; exact (ab2_step_conserves I f hf _ dt t u p).2.2

/-- the abstract theorem of `Props/C05.lean` instantiated: the Euler step *is* of the form
`u + Σ c_j • F_j` with conserving `F_j`, so any number of Euler steps keeps `I` -/
theorem euler_steps_conserve (I : (ι → F) →ₗ[F] F) (f : Rate (ι → F)) (hf : Conserving I f) (dt : F)
    (t : ι → F) (u0 : ι → F) (n : Nat) : I ((fun u => eulerStep f (κ dt) u t)^[n] u0) = I u0 := by
  apply integral_invariant_over_steps I
  intro u
  refine ⟨[(dt, f u t)], ?_, ?_⟩
  · intro p hp
    simp only [List.mem_cons, List.not_mem_nil, or_false] at hp
    rw [hp]; exact hf u t
  · unfold eulerStep
    have : (κ dt * f u t : ι → F) = dt • f u t := by funext i; simp [κ]
    simp [this]

/-- the fixed-step loop of the model (`fixedStepper`, the step count the code computes) around a whole-state
step that keeps `I` - Euler and Runge-Kutta spelled out -/
theorem fixedStepper_euler_rk4_conserve [LT F] [DecidableLT F] [LE F] [DecidableLE F] [HasFloor F]
    (I : (ι → F) →ₗ[F] F) (f : Rate (ι → F)) (hf : Conserving I f) (dt ts te : F) (u u' : ι → F) (tr : F) :
    (fixedStepper (fun (s : ι → F) (t : F) => some (eulerStep f (κ dt) s (κ t))) dt ts te u = some (u', tr) → I u' = I u) ∧
    (fixedStepper (fun (s : ι → F) (t : F) => some (rk4Step rk4Tab f (κ dt) s (κ t))) dt ts te u = some (u', tr) → I u' = I u) := by
  constructor
  · intro h
    refine fixedStepper_conserves (fun s => I s) _ ?_ dt ts te u u' tr h
    intro s t s' hs
    simp only [Option.some.injEq] at hs
    rw [← hs]; exact euler_step_conserves I f hf dt s (κ t)
  · intro h
    refine fixedStepper_conserves (fun s => I s) _ ?_ dt ts te u u' tr h
    intro s t s' hs
    simp only [Option.some.injEq] at hs
    rw [← hs]; exact rk4_step_conserves_source_tableau I f hf dt s (κ t)

end all

/-! ### concrete conserving rates: ghost cells by `setGhostAll`, Laplacian of an arbitrary potential

`mu u t` is arbitrary: `D • u` (diffusion), `u³ - u - γ ∇²u` with whatever boundary conditions the inner
Laplacian uses (Cahn-Hilliard: only the condition of the *outer* Laplacian matters), a combination of several
fields.  The functional is the volume-weighted sum over the valid cells that `field.integral` computes. -/
section rates
variable {F : Type} [Field F] [CharZero F]

/-- `Σ_{i=1}^{n} w_i u(pos_i)` as a linear functional on states `ι → F` -/
def cellSum {ι : Type} (w : Nat → F) (pos : Nat → ι) (n : Nat) : (ι → F) →ₗ[F] F where
  toFun u := sumTo (fun i => w i * u (pos i)) n
  map_add' u v := by
    simp only [Pi.add_apply, mul_add]
    exact sumTo_add _ _ n
  map_smul' c u := by
    simp only [Pi.smul_apply, smul_eq_mul, RingHom.id_apply]
    rw [← sumTo_mul_left]
    congr 1; funext i; ring

def cellSum2 {ι : Type} (w : Nat → Nat → F) (pos : Nat → Nat → ι) (n m : Nat) : (ι → F) →ₗ[F] F where
  toFun u := sumTo (fun i => sumTo (fun j => w i j * u (pos i j)) m) n
  map_add' u v := by
    simp only [Pi.add_apply, mul_add, sumTo_add]
  map_smul' c u := by
    simp only [Pi.smul_apply, smul_eq_mul, RingHom.id_apply]
    rw [← sumTo_mul_left]
    congr 1; funext i
    rw [← sumTo_mul_left]
    congr 1; funext j; ring

def cellSum3 {ι : Type} (w : Nat → Nat → Nat → F) (pos : Nat → Nat → Nat → ι) (n m l : Nat) : (ι → F) →ₗ[F] F where
  toFun u := sumTo (fun i => sumTo (fun j => sumTo (fun k => w i j k * u (pos i j k)) l) m) n
  map_add' u v := by
    simp only [Pi.add_apply, mul_add, sumTo_add]
  map_smul' c u := by
    simp only [Pi.smul_apply, smul_eq_mul, RingHom.id_apply]
    rw [← sumTo_mul_left]
    congr 1; funext i
    rw [← sumTo_mul_left]
    congr 1; funext j
    rw [← sumTo_mul_left]
    congr 1; funext k; ring

def cart1Rate (dx : F) (n : Nat) (px : Bool) (mu : Arr F → Arr F → Arr F) : Rate (Arr F) :=
  fun u t idx => cartLaplace [dx] (setGhostAll (consFaces [n] false [dx] [px]) (mu u t)) [] idx

def cart2Rate (dx dy : F) (n m : Nat) (px py : Bool) (mu : Arr F → Arr F → Arr F) : Rate (Arr F) :=
  fun u t idx => cartLaplace [dx, dy] (setGhostAll (consFaces [n, m] false [dx, dy] [px, py]) (mu u t)) [] idx

def cart3Rate (dx dy dz : F) (n m l : Nat) (px py pz : Bool) (mu : Arr F → Arr F → Arr F) : Rate (Arr F) :=
  fun u t idx =>
    cartLaplace [dx, dy, dz] (setGhostAll (consFaces [n, m, l] false [dx, dy, dz] [px, py, pz]) (mu u t)) [] idx

theorem cart1Rate_conserving (dx : F) (hdx : dx ≠ 0) (n : Nat) (hn : 1 ≤ n) (px : Bool) (mu : Arr F → Arr F → Arr F) :
    Conserving (cellSum (fun _ => dx) (fun i => [(i:Int)]) n) (cart1Rate dx n px mu) :=
  fun w s => cart1_laplace_integral_zero_ghost dx hdx (mu w s) n hn px

theorem cart2Rate_conserving (dx dy : F) (hdx : dx ≠ 0) (hdy : dy ≠ 0) (n m : Nat) (hn : 1 ≤ n) (hm : 1 ≤ m)
    (px py : Bool) (mu : Arr F → Arr F → Arr F) :
    Conserving (cellSum2 (fun _ _ => dx * dy) (fun i j => [(i:Int), (j:Int)]) n m) (cart2Rate dx dy n m px py mu) :=
  fun w s => cart2_laplace_integral_zero_ghost dx dy hdx hdy (mu w s) n m hn hm px py

theorem cart3Rate_conserving (dx dy dz : F) (hdx : dx ≠ 0) (hdy : dy ≠ 0) (hdz : dz ≠ 0) (n m l : Nat)
    (hn : 1 ≤ n) (hm : 1 ≤ m) (hl : 1 ≤ l) (px py pz : Bool) (mu : Arr F → Arr F → Arr F) :
    Conserving (cellSum3 (fun _ _ _ => dx * dy * dz) (fun i j k => [(i:Int), (j:Int), (k:Int)]) n m l)
      (cart3Rate dx dy dz n m l px py pz mu) :=
  fun w s => cart3_laplace_integral_zero_ghost dx dy dz hdx hdy hdz (mu w s) n m l hn hm hl px py pz

end rates

section radial_rates
variable {F : Type} [Field F] [LinearOrder F] [IsStrictOrderedRing F]

def polarRate (rmin dr : F) (n : Nat) (cin : Cond F) (nin : Bool) (mu : Arr F → Arr F → Arr F) : Rate (Arr F) :=
  fun u t idx => polarLaplace (centre rmin dr) dr
    (setGhostAll (radialFaces [n] false [dr] [false] cin nin) (mu u t)) (idx.getD 0 0)

def sphRate (rmin dr : F) (n : Nat) (cin : Cond F) (nin : Bool) (mu : Arr F → Arr F → Arr F) : Rate (Arr F) :=
  fun u t idx => sphLaplace true (centre rmin dr) dr
    (setGhostAll (radialFaces [n] false [dr] [false] cin nin) (mu u t)) (idx.getD 0 0)

def cylRate (rmin dr dz : F) (n m : Nat) (pz : Bool) (cin : Cond F) (nin : Bool) (mu : Arr F → Arr F → Arr F) :
    Rate (Arr F) :=
  fun u t idx => cylLaplace (centre rmin dr) dr dz
    (setGhostAll (radialFaces [n, m] false [dr, dz] [false, pz] cin nin) (mu u t)) (idx.getD 0 0) (idx.getD 1 0)

theorem polarRate_conserving (rmin dr : F) (h0 : 0 ≤ rmin) (hdr : 0 < dr) (n : Nat) (hn : 1 ≤ n) (cin : Cond F)
    (nin : Bool) (hin : InnerOK false rmin cin nin) (hcurv : ∀ k, cin = .curvature k → 2 ≤ n)
    (mu : Arr F → Arr F → Arr F) :
    Conserving (cellSum (fun i => volPolar (centre rmin dr) dr (i:Int)) (fun i => [(i:Int)]) n)
      (polarRate rmin dr n cin nin mu) :=
  fun w s => polar_laplace_integral_zero_grid rmin dr h0 hdr (mu w s) n hn cin nin hin hcurv

theorem sphRate_conserving (rmin dr : F) (hdr : 0 < dr) (n : Nat) (hn : 1 ≤ n) (cin : Cond F)
    (nin : Bool) (hin : InnerOK false rmin cin nin) (hcurv : ∀ k, cin = .curvature k → 2 ≤ n)
    (mu : Arr F → Arr F → Arr F) :
    Conserving (cellSum (fun i => volSph (centre rmin dr) dr (i:Int)) (fun i => [(i:Int)]) n)
      (sphRate rmin dr n cin nin mu) :=
  fun w s => sph_laplace_conservative_integral_zero_grid rmin dr hdr (mu w s) n hn cin nin hin hcurv

theorem cylRate_conserving (rmin dr dz : F) (h0 : 0 ≤ rmin) (hdr : 0 < dr) (hdz : dz ≠ 0) (n m : Nat) (hn : 1 ≤ n)
    (hm : 1 ≤ m) (pz : Bool) (cin : Cond F) (nin : Bool) (hin : InnerOK false rmin cin nin)
    (hcurv : ∀ k, cin = .curvature k → 2 ≤ n) (mu : Arr F → Arr F → Arr F) :
    Conserving (cellSum2 (fun i _ => volCyl (centre rmin dr) dr dz (i:Int)) (fun i j => [(i:Int), (j:Int)]) n m)
      (cylRate rmin dr dz n m pz cin nin mu) :=
  fun w s => cyl_laplace_integral_zero_grid rmin dr dz h0 hdr hdz (mu w s) n m hn hm pz cin nin hin hcurv

/-- end to end, one instance spelled out: Cahn-Hilliard-type equation `∂_t u = ∇² mu(u)` on a polar grid with a
hole, zero-flux conditions for the outer Laplacian, explicit Euler with the loop of `fixed_stepper`: the
volume-weighted sum of the state is the same after the run, for every step size, step count and potential -/
theorem polar_euler_run_conserves [HasFloor F] (rmin dr : F) (h0 : 0 ≤ rmin) (hdr : 0 < dr) (n : Nat) (hn : 1 ≤ n)
    (mu : Arr F → Arr F → Arr F) (dt ts te : F) (u u' : Arr F) (tr : F)
    (h : fixedStepper (fun (s : Arr F) (t : F) =>
        some (eulerStep (polarRate rmin dr n (consCond false false) false mu) (κ dt) s (κ t))) dt ts te u = some (u', tr)) :
    sumTo (fun i => volPolar (centre rmin dr) dr (i:Int) * u' [(i:Int)]) n
      = sumTo (fun i => volPolar (centre rmin dr) dr (i:Int) * u [(i:Int)]) n :=
  (fixedStepper_euler_rk4_conserve (cellSum (fun i => volPolar (centre rmin dr) dr (i:Int)) (fun i => [(i:Int)]) n)
    _ (polarRate_conserving rmin dr h0 hdr n hn _ _ (Or.inr ⟨rfl, rfl⟩) (fun k hk => by simp [consCond] at hk) mu)
    dt ts te u u' tr).1 h

end radial_rates
end PdeVerif.Conserve
