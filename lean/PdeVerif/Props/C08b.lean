import PdeVerif.Model.Adaptive
import PdeVerif.Props.C08
/-
C08, theorem-gap round: clauses that were decided by a monitor / a witness only.

* `frame_count_floor_iff`: on a range that is a whole number of steps the count is `⌊T/D⌋ + 1` EXACTLY WHEN no
  scheduled time lies in the sliver `(t_end, t_end + eps*dt)` (the remaining corner is the known finding
  `sliver_frame_on_whole_range`).
* `scheduled_time_at_t_end_served_iff`, `scheduled_times_up_to_t_end_served_whole_range`: a scheduled time exactly at
  `t_end` is served unless the run ends at `t_final = t_end - eps*dt` exactly (witness of that corner:
  `corner_scheduled_time_at_t_end_missed`); on a whole range it is always served.
* adaptive steppers (`Model/Adaptive.lean`: the inner loop of `adaptive_stepper` with its clipping of the step to the
  next tracker time, and the controller loop whose tolerances follow the current `dt`):
  `adaptiveStepper_lands`, `adaptive_served_exactly_up_to_dtmin`, `adaptive_served_exactly_run`,
  witness `adaptive_overshoot_by_dtmin`; any tracker collection: `adaptive_never_late_among_trackers`,
  `adaptive_never_late_run`.
-/
set_option linter.unusedSectionVars false
set_option linter.unusedVariables false

namespace PdeVerif.Controller
open PdeVerif

section
variable {K : Type} [Field K] [LinearOrder K] [IsStrictOrderedRing K] [FloorRing K]
variable {S σ : Type}

/-! ### the frame count on a whole range: exactly when it is `⌊T/D⌋ + 1` -/

/-- **frame_count_floor_iff**: range = whole number of steps, interval `D ≥ dt` from `t_start`, run reaches its
end: the tracker is called `⌊T/D⌋ + 1` times if and only if no scheduled time lies in the sliver
`(t_end, t_end + eps*dt)`; otherwise it is called `⌊T/D⌋ + 2` times (`frame_count_whole_range_sliver`). -/
theorem frame_count_floor_iff (c : Cfg K S σ) (hdt : 0 < c.dt) (he0 : 0 < c.eps)
    (he1 : c.eps < 1 / 2) (N : Nat) (hN : c.tEnd - c.tStart = N * c.dt) (D : K) (hD : c.dt ≤ D)
    (C : σ → K → Prop) (hC : ConstLike c.nxt D C)
    (u0 : S) (trs : List (Tracker K S σ)) (j : Nat) (tr0 : Tracker K S σ) (hj : trs[j]? = some tr0)
    (hs : C tr0.sched c.tStart) (hdue : tr0.due = some c.tStart) (fuel : Nat)
    (h : (runFuel c u0 trs fuel).exit.reachedEnd) :
    (callsOf j (runFuel c u0 trs fuel).trace).length = (Int.floor ((c.tEnd - c.tStart) / D)).toNat + 1 ↔
      ∀ k : Nat, ¬ (c.tEnd - c.tStart < k * D ∧ k * D < c.tEnd - c.tStart + c.eps * c.dt) := by
  constructor
  · intro hlen k hk
    have := frame_count_whole_range_sliver c hdt he0 he1 N hN D hD C hC u0 trs j tr0 hj hs hdue fuel h k hk.1 hk.2
    omega
  · intro guard
    exact frame_count_floor c hdt he0 he1 N hN D hD C hC u0 trs j tr0 hj hs hdue fuel h guard

/-! ### a scheduled time exactly at `t_end` -/

/-- where a run that reaches the end of its loop ends: `t_end - eps*dt ≤ t_final < t_end + dt` -/
theorem run_tFinal_window (c : Cfg K S σ) (hdt : 0 < c.dt) (he0 : 0 < c.eps) (he1 : c.eps < 1 / 2)
    (hT : c.tStart ≤ c.tEnd)
    (u0 : S) (trs : List (Tracker K S σ)) (fuel : Nat) (h : (runFuel c u0 trs fuel).exit.reachedEnd) :
    c.tEnd - c.eps * c.dt ≤ (runFuel c u0 trs fuel).tFinal ∧ (runFuel c u0 trs fuel).tFinal < c.tEnd + c.dt := by
  have hsteps := run_steps_of_reachedEnd c hdt he1 u0 trs fuel h
  have hl := run_tFinal_lattice c u0 trs fuel
  set x := (c.tEnd - c.tStart) / c.dt - c.eps with hx
  have hxdt : x * c.dt = c.tEnd - c.tStart - c.eps * c.dt := by rw [hx]; field_simp
  have hcl : -1 < x := by
    have : 0 ≤ (c.tEnd - c.tStart) / c.dt := div_nonneg (by linarith) hdt.le
    rw [hx]; linarith
  have hceil0 : 0 ≤ Int.ceil x := by
    have : (-1 : Int) < Int.ceil x := by rw [Int.lt_ceil]; push_cast; exact hcl
    omega
  have hNK : ((finalStepCount c : Nat) : K) = (Int.ceil x : K) := by
    have : ((finalStepCount c : Nat) : Int) = Int.ceil x := by unfold finalStepCount; rw [← hx]; omega
    have := congrArg (fun z : Int => (z : K)) this
    simpa using this
  have h1 : x ≤ (Int.ceil x : K) := Int.le_ceil x
  have h2 : (Int.ceil x : K) < x + 1 := Int.ceil_lt_add_one x
  have hpos := mul_pos he0 hdt
  constructor
  · rw [hl, hsteps, hNK]; nlinarith
  · rw [hl, hsteps, hNK]; nlinarith

/-- **scheduled_time_at_t_end_served_iff**: any range `t_end ≥ t_start`, interval `D ≥ dt` from `t_start`, run
reaches the end of its loop.  If the `k`-th scheduled time is `t_end` itself, it is served (the tracker is called
more than `k` times; by `served_exactly_once_within_half_step` call `k` is the one within `dt/2` of it) if and only
if the run does not end exactly at `t_final = t_end - eps*dt` - the one lattice time at which the loop condition
`t < t_end - eps*dt` already fails while the strict due test `t > t_next - eps*dt` of the final handle fails too.
(`run_tFinal_window`: `t_final ≥ t_end - eps*dt` always.) -/
theorem scheduled_time_at_t_end_served_iff (c : Cfg K S σ) (hdt : 0 < c.dt) (he0 : 0 < c.eps)
    (he1 : c.eps < 1 / 2) (hT : c.tStart ≤ c.tEnd) (D : K) (hD : c.dt ≤ D)
    (C : σ → K → Prop) (hC : ConstLike c.nxt D C)
    (u0 : S) (trs : List (Tracker K S σ)) (j : Nat) (tr0 : Tracker K S σ) (hj : trs[j]? = some tr0)
    (hs : C tr0.sched c.tStart) (hdue : tr0.due = some c.tStart) (fuel : Nat)
    (h : (runFuel c u0 trs fuel).exit.reachedEnd) (k : Nat) (hk : c.tStart + k * D = c.tEnd) :
    k < (callsOf j (runFuel c u0 trs fuel).trace).length ↔
      (runFuel c u0 trs fuel).tFinal ≠ c.tEnd - c.eps * c.dt := by
  obtain ⟨m, hnear, hiff⟩ := served_exactly_once_within_half_step c hdt he0 he1.le D c.tStart hD C hC
    u0 trs j tr0 hj hs hdue (by linarith) fuel
  have hiff := hiff h
  have hlen : (callsOf j (runFuel c u0 trs fuel).trace).length = m := by
    have := hnear.length_eq; simpa using this.symm
  have hw := (run_tFinal_window c hdt he0 he1 hT u0 trs fuel h).1
  rw [hlen, ← hiff k, hk]
  constructor
  · intro h1 h2; rw [h2] at h1; linarith
  · intro h1
    have : c.tEnd - c.eps * c.dt < (runFuel c u0 trs fuel).tFinal := lt_of_le_of_ne hw (Ne.symm h1)
    linarith

/-- **scheduled_times_up_to_t_end_served_whole_range**: on a range that is a whole number of steps every scheduled
time `t_start + k*D ≤ t_end` - one exactly AT `t_end` included - is served. -/
theorem scheduled_times_up_to_t_end_served_whole_range (c : Cfg K S σ) (hdt : 0 < c.dt) (he0 : 0 < c.eps)
    (he1 : c.eps < 1 / 2) (N : Nat) (hN : c.tEnd - c.tStart = N * c.dt) (D : K) (hD : c.dt ≤ D)
    (C : σ → K → Prop) (hC : ConstLike c.nxt D C)
    (u0 : S) (trs : List (Tracker K S σ)) (j : Nat) (tr0 : Tracker K S σ) (hj : trs[j]? = some tr0)
    (hs : C tr0.sched c.tStart) (hdue : tr0.due = some c.tStart) (fuel : Nat)
    (h : (runFuel c u0 trs fuel).exit.reachedEnd) (k : Nat) (hk : c.tStart + k * D ≤ c.tEnd) :
    k < (callsOf j (runFuel c u0 trs fuel).trace).length := by
  obtain ⟨m, hnear, hiff⟩ := served_exactly_once_within_half_step c hdt he0 he1.le D c.tStart hD C hC
    u0 trs j tr0 hj hs hdue (by linarith) fuel
  have hiff := hiff h
  rw [run_tFinal_whole c hdt he0 he1 N hN u0 trs fuel h] at hiff
  have hlen : (callsOf j (runFuel c u0 trs fuel).trace).length = m := by
    have := hnear.length_eq; simpa using this.symm
  rw [hlen]
  exact (hiff k).mp (by have := mul_pos he0 hdt; linarith)

/-! ### adaptive steppers: the step is clipped to the next tracker time -/

/-- `dt_step = max(min(dt_opt, t_end - t), dt_min)` -/
theorem dtStep_eq (dtMin dtOpt rem : K) : dtStep dtMin dtOpt rem = max (min dtOpt rem) dtMin := by
  unfold dtStep
  simp only
  by_cases h1 : rem < dtOpt
  · rw [if_pos h1, min_eq_right h1.le]
    by_cases h2 : rem < dtMin
    · rw [if_pos h2, max_eq_right h2.le]
    · rw [if_neg h2, max_eq_left (not_lt.mp h2)]
  · rw [if_neg h1, min_eq_left (not_lt.mp h1)]
    by_cases h2 : dtOpt < dtMin
    · rw [if_pos h2, max_eq_right h2.le]
    · rw [if_neg h2, max_eq_left (not_lt.mp h2)]

/-- the time after one attempt of the inner loop -/
def landT (dtMin tEnd : K) (a : Attempt K) (t dtOpt : K) : K :=
  if a.accept then
    (if dtStep dtMin dtOpt (tEnd - t) < tEnd - t ∨ tEnd - t < dtStep dtMin dtOpt (tEnd - t)
      then t + dtStep dtMin dtOpt (tEnd - t) else tEnd)
  else t

theorem adaptiveStepper_cons (dtMin tEnd : K) (a : Attempt K) (rest : List (Attempt K)) (t dtOpt : K) (steps : Nat) :
    adaptiveStepper dtMin tEnd (a :: rest) t dtOpt steps =
      if landT dtMin tEnd a t dtOpt < tEnd then
        adaptiveStepper dtMin tEnd rest (landT dtMin tEnd a t dtOpt) a.dtNext (if a.accept then steps + 1 else steps)
      else some (rest, landT dtMin tEnd a t dtOpt, dtOpt, (if a.accept then steps + 1 else steps)) := rfl

/-- **adaptiveStepper_lands**: whatever the error estimator answers (which steps are accepted, which time steps are
proposed, for every number of attempts), a call `stepper(state, t, t_end)` with `t < t_end` that returns, returns
`t_end` ITSELF - or, only when an accepted step ended less than `dt_min` before `t_end`, a time less than `dt_min`
after it.  Also: the `dt` it leaves in `solver.info` is positive if the one it found and all proposals are, and the
unused oracle entries are a part of the given ones. -/
theorem adaptiveStepper_lands (dtMin tEnd : K) (hmin : 0 < dtMin) :
    ∀ (att : List (Attempt K)) (t dtOpt : K) (steps : Nat) (r : List (Attempt K) × K × K × Nat),
      t < tEnd → 0 < dtOpt → (∀ x ∈ att, 0 < x.dtNext) → adaptiveStepper dtMin tEnd att t dtOpt steps = some r →
      (r.2.1 = tEnd ∨ (tEnd < r.2.1 ∧ r.2.1 < tEnd + dtMin)) ∧ 0 < r.2.2.1 ∧ (∀ x ∈ r.1, 0 < x.dtNext) := by
  intro att
  induction att with
  | nil => intro t dtOpt steps r _ _ _ h; simp [adaptiveStepper] at h
  | cons a rest ih =>
    intro t dtOpt steps r ht hopt hatt h
    rw [adaptiveStepper_cons] at h
    by_cases hlt : landT dtMin tEnd a t dtOpt < tEnd
    · rw [if_pos hlt] at h
      exact ih _ _ _ r hlt (hatt a (List.mem_cons_self)) (fun x hx => hatt x (List.mem_cons_of_mem _ hx)) h
    · rw [if_neg hlt] at h
      have hr : r = (rest, landT dtMin tEnd a t dtOpt, dtOpt, (if a.accept then steps + 1 else steps)) := by
        injection h with h; exact h.symm
      subst hr
      refine ⟨?_, hopt, fun x hx => hatt x (List.mem_cons_of_mem _ hx)⟩
      show landT dtMin tEnd a t dtOpt = tEnd ∨ _
      have hge := not_lt.mp hlt
      unfold landT at hge ⊢
      by_cases hacc : a.accept = true
      · rw [if_pos hacc] at hge ⊢
        by_cases hne : dtStep dtMin dtOpt (tEnd - t) < tEnd - t ∨ tEnd - t < dtStep dtMin dtOpt (tEnd - t)
        · rw [if_pos hne] at hge ⊢
          right
          rw [dtStep_eq] at hne hge ⊢
          rcases le_total dtMin (min dtOpt (tEnd - t)) with hc | hc
          · rw [max_eq_left hc] at hne hge ⊢
            have : min dtOpt (tEnd - t) ≤ tEnd - t := min_le_right _ _
            rcases hne with h1 | h1
            · linarith
            · linarith
          · rw [max_eq_right hc] at hne hge ⊢
            constructor
            · rcases hne with h1 | h1
              · linarith
              · linarith
            · linarith
        · rw [if_neg hne]; left; trivial
      · rw [if_neg hacc] at hge
        exact absurd ht (not_lt.mpr hge)

/-- the `k`-th call is at the `k`-th scheduled time, or less than `dt_min` after it -/
def AdNear (D τ0 dtMin : K) (k : Nat) (x : K) : Prop := τ0 + k * D ≤ x ∧ x < τ0 + k * D + dtMin

/-- ... or it is the call of the final handle (at `t_end`, or less than `dt_min` after it) for a scheduled time
in the sliver `(t_end, t_final + eps*dt)` of the last time step `dt` -/
def AdExactOr (c : Cfg K S σ) (D τ0 dtMin dtLast : K) (k : Nat) (x : K) : Prop :=
  AdNear D τ0 dtMin k x ∨
    (c.tEnd ≤ x ∧ x < c.tEnd + dtMin ∧ c.tEnd < τ0 + k * D ∧ τ0 + k * D < x + c.eps * dtLast)

/-- loop-head invariant (single tracker with constant schedule, adaptive stepper) -/
structure AdInv (c : Cfg K S σ) (D τ0 dtMin : K) (C : σ → K → Prop) (a : AState K S σ) (m : Nat) : Prop where
  tr : ∃ tr, a.st.trs = [tr] ∧ C tr.sched (τ0 + m * D) ∧ tr.due = some (τ0 + m * D)
  pos : AdNear D τ0 dtMin m a.st.t ∨ (c.tEnd ≤ a.st.t ∧ a.st.t < c.tEnd + dtMin ∧ c.tEnd < τ0 + m * D)
  calls : List.Forall₂ (AdNear D τ0 dtMin) (List.range m) (callsOf 0 a.st.trace)
  dtpos : 0 < a.dt
  attpos : ∀ x ∈ a.att, 0 < x.dtNext

theorem adExactOr_of_near (c : Cfg K S σ) (D τ0 dtMin dtLast : K) (m : Nat) (l : List K)
    (h : List.Forall₂ (AdNear D τ0 dtMin) (List.range m) l) :
    List.Forall₂ (AdExactOr c D τ0 dtMin dtLast) (List.range m) l :=
  h.imp (fun _ _ e => Or.inl e)

/-- one `handle` (any tolerance `atol > 0`) of a single tracker whose pending time has been reached (less than `D`
ago): it is served, and advances by `D` without catch-up -/
theorem single_handle_on_time (nxt : σ → K → σ × Option K) (D τ0 : K) (C : σ → K → Prop)
    (hC : ConstLike nxt D C) (st : LState K S σ) (m : Nat) (tr : Tracker K S σ) (htrs : st.trs = [tr])
    (hs : C tr.sched (τ0 + m * D)) (hdue : tr.due = some (τ0 + m * D))
    (h1 : τ0 + m * D ≤ st.t) (h2 : st.t < τ0 + m * D + D) (atol : K) (ha : 0 < atol)
    (P : Nat → K → Prop) (hcalls : List.Forall₂ P (List.range m) (callsOf 0 st.trace)) (hP : P m st.t) :
    (∃ tr', (handleAll nxt atol st.t st.u 0 st.trs).1 = [tr'] ∧ C tr'.sched (τ0 + ((m + 1 : Nat) : K) * D) ∧
      tr'.due = some (τ0 + ((m + 1 : Nat) : K) * D)) ∧
    List.Forall₂ P (List.range (m + 1))
      (callsOf 0 (st.trace ++ (handleAll nxt atol st.t st.u 0 st.trs).2.1)) := by
  have hj : st.trs[0]? = some tr := by rw [htrs]; rfl
  have hd : isDue tr.due atol st.t = true := by
    rw [hdue]; simp [isDue]; linarith
  obtain ⟨n1, n2⟩ := hC tr.sched (τ0 + m * D) st.t hs
  have hnc : Interrupts.constNext (τ0 + m * D) D st.t = τ0 + ((m + 1 : Nat) : K) * D := by
    rw [constNext_no_catchup' _ _ _ h2]; push_cast; ring
  refine ⟨⟨served nxt st.t st.u tr, ?_, ?_, ?_⟩, ?_⟩
  · rw [handleAll_trackers, htrs]; simp [hd]
  · show C (nxt tr.sched st.t).1 _
    rw [← hnc]; exact n2
  · show (nxt tr.sched st.t).2 = _
    rw [n1, hnc]
  · rw [callsOf_append, handleAll_callsOf nxt atol st.t st.u st.trs 0 tr hj, if_pos hd, List.range_succ]
    exact List.rel_append hcalls (List.Forall₂.cons hP List.Forall₂.nil)

theorem finalHandleAdaptive_of_ne_final (c : Cfg K S σ) (a : AState K S σ) (e : Exit) (he : e ≠ .final) :
    finalHandleAdaptive c (a, e) = (a, e) := by
  unfold finalHandleAdaptive finalHandle
  cases e <;> simp_all

/-- **adaptive_served_exactly_up_to_dtmin** (adaptive stepper: the time step, and with it both tolerances of the
controller, change during the run; every answer of the error estimator is arbitrary).  A tracker with constant
interval `D ≥ dt_min`, alone in the collection: its `k`-th call is AT its `k`-th scheduled time `τ0 + k*D` or less
than `dt_min` (= 1e-10) after it - never early, never a step late, none skipped, none served twice, on every path
(stop requests, exhausted oracle included).  The only other call is the one of the final handle for a scheduled
time in the sliver `(t_end, t_final + eps*dt_last)`.  `adaptiveStepper_lands` says when the `dt_min` overshoot
happens; `adaptive_overshoot_by_dtmin` shows that it does. -/
theorem adaptive_served_exactly_up_to_dtmin (c : Cfg K S σ) (dtMin : K) (flow : S → K → K → S)
    (he0 : 0 < c.eps) (hmin : 0 < dtMin) (D τ0 : K) (hD : dtMin ≤ D) (C : σ → K → Prop)
    (hC : ConstLike c.nxt D C) :
    ∀ (fuel : Nat) (a : AState K S σ) (m : Nat), AdInv c D τ0 dtMin C a m →
      ∃ m', List.Forall₂
        (AdExactOr c D τ0 dtMin (finalHandleAdaptive c (loopAdaptive c dtMin flow fuel a)).1.dt) (List.range m')
        (callsOf 0 (finalHandleAdaptive c (loopAdaptive c dtMin flow fuel a)).1.st.trace) := by
  have hD0 : 0 < D := lt_of_lt_of_le hmin hD
  intro fuel
  induction fuel with
  | zero =>
    intro a m h
    refine ⟨m, ?_⟩
    show List.Forall₂ _ _ (callsOf 0 (finalHandleAdaptive c (a, .fuel)).1.st.trace)
    rw [finalHandleAdaptive_of_ne_final c a .fuel (by simp)]
    exact adExactOr_of_near c D τ0 dtMin _ m _ h.calls
  | succ n ih =>
    intro a m h
    have hhalf : 0 < (half : K) * a.dt := by rw [half_mul]; linarith [h.dtpos]
    have hea : 0 < c.eps * a.dt := mul_pos he0 h.dtpos
    obtain ⟨tr, htrs, hs, hdue⟩ := h.tr
    unfold loopAdaptive iterOnceAdaptive
    by_cases hc : a.st.t < c.tEnd - c.eps * a.dt
    · rw [if_pos hc]
      have ht : AdNear D τ0 dtMin m a.st.t := by
        rcases h.pos with h1 | ⟨h1, _⟩
        · exact h1
        · linarith
      obtain ⟨⟨tr', htrs', hs', hdue'⟩, hcalls'⟩ :=
        single_handle_on_time c.nxt D τ0 C hC a.st m tr htrs hs hdue ht.1 (by linarith [ht.2]) (half * a.dt) hhalf
          (AdNear D τ0 dtMin) h.calls ht
      cases herr : (handleAll c.nxt (half * a.dt) a.st.t a.st.u 0 a.st.trs).2.2 with
      | some r =>
        simp only [herr]
        rw [finalHandleAdaptive_of_ne_final c _ _ (by simp)]
        exact ⟨m + 1, adExactOr_of_near c D τ0 dtMin _ _ _ hcalls'⟩
      | none =>
        simp only [herr]
        cases hst : adaptiveStepper dtMin (clip (nextAction (handleAll c.nxt (half * a.dt) a.st.t a.st.u 0
            a.st.trs).1) c.tEnd) a.att a.st.t a.dt 0 with
        | none =>
          dsimp only
          rw [finalHandleAdaptive_of_ne_final c _ _ (by simp)]
          exact ⟨m + 1, adExactOr_of_near c D τ0 dtMin _ _ _ hcalls'⟩
        | some r =>
          dsimp only
          -- the target: the next scheduled time, or `t_end` before it
          have hclip : clip (nextAction (handleAll c.nxt (half * a.dt) a.st.t a.st.u 0 a.st.trs).1) c.tEnd =
              if c.tEnd < τ0 + ((m + 1 : Nat) : K) * D then c.tEnd else τ0 + ((m + 1 : Nat) : K) * D := by
            rw [htrs']; simp only [nextAction, hdue', optMin, clip]
          rw [hclip] at hst
          have hlt : a.st.t < (if c.tEnd < τ0 + ((m + 1 : Nat) : K) * D then c.tEnd
              else τ0 + ((m + 1 : Nat) : K) * D) := by
            split_ifs
            · linarith
            · push_cast; linarith [ht.2]
          obtain ⟨hland, hdt', hatt'⟩ := adaptiveStepper_lands dtMin _ hmin a.att a.st.t a.dt 0 r hlt h.dtpos
            h.attpos hst
          apply ih _ (m + 1)
          refine ⟨⟨tr', htrs', hs', hdue'⟩, ?_, hcalls', hdt', hatt'⟩
          show AdNear D τ0 dtMin (m + 1) r.2.1 ∨ _
          split_ifs at hland with hte
          · right
            rcases hland with e | ⟨e1, e2⟩
            · exact ⟨e.ge, by linarith, hte⟩
            · exact ⟨e1.le, e2, hte⟩
          · left
            rcases hland with e | ⟨e1, e2⟩
            · exact ⟨e.ge, by linarith⟩
            · exact ⟨e1.le, e2⟩
    · rw [if_neg hc]
      show ∃ m', List.Forall₂ _ _ (callsOf 0 (finalHandleAdaptive c (a, .final)).1.st.trace)
      have hj : a.st.trs[0]? = some tr := by rw [htrs]; rfl
      show ∃ m', List.Forall₂ (AdExactOr c D τ0 dtMin a.dt) (List.range m')
        (callsOf 0 (a.st.trace ++ (handleAll c.nxt (c.eps * a.dt) a.st.t a.st.u 0 a.st.trs).2.1))
      rcases h.pos with ht | ⟨ht1, ht2, hlt⟩
      · obtain ⟨_, hcalls'⟩ :=
          single_handle_on_time c.nxt D τ0 C hC a.st m tr htrs hs hdue ht.1 (by linarith [ht.2]) (c.eps * a.dt) hea
            (AdNear D τ0 dtMin) h.calls ht
        exact ⟨m + 1, adExactOr_of_near c D τ0 dtMin _ _ _ hcalls'⟩
      · by_cases hd : isDue tr.due (c.eps * a.dt) a.st.t = true
        · have hd' : τ0 + m * D - c.eps * a.dt < a.st.t := by
            rw [hdue] at hd; simpa [isDue] using hd
          refine ⟨m + 1, ?_⟩
          rw [callsOf_append, handleAll_callsOf c.nxt _ a.st.t a.st.u a.st.trs 0 tr hj, if_pos hd,
            List.range_succ]
          refine List.rel_append (adExactOr_of_near c D τ0 dtMin _ m _ h.calls)
            (List.Forall₂.cons ?_ List.Forall₂.nil)
          right
          exact ⟨ht1, ht2, hlt, by linarith⟩
        · refine ⟨m, ?_⟩
          rw [callsOf_append, handleAll_callsOf c.nxt _ a.st.t a.st.u a.st.trs 0 tr hj, if_neg hd,
            List.append_nil]
          exact adExactOr_of_near c D τ0 dtMin _ m _ h.calls

/-- **adaptive_served_exactly_run**: the statement for a whole `Controller.run` with an adaptive stepper and the
concrete `ConstantInterrupts(D)` from `t_start` (`initialize` included): initial step `dt > 0`, `0 < dt_min ≤ D`,
any oracle of attempts with positive proposed time steps, any fuel. -/
theorem adaptive_served_exactly_run (dt tStart tEnd eps dtMin : K) (flow : S → K → K → S)
    (att : List (Attempt K)) (u0 : S) (hdt : 0 < dt) (he0 : 0 < eps) (hmin : 0 < dtMin) (D : K) (hD : dtMin ≤ D)
    (hatt : ∀ x ∈ att, 0 < x.dtNext) (sp : TrackerSpec K S) (hsched : sp.sched = .const D none) (fuel : Nat) :
    ∃ m, List.Forall₂
      (AdExactOr ({ dt := dt, tStart := tStart, tEnd := tEnd, eps := eps, step := fun u _ => u,
                    nxt := Sched.next } : Cfg K S (Sched K)) D tStart dtMin
        (runAdaptiveSpec dt tStart tEnd eps dtMin flow att u0 [sp] fuel).2) (List.range m)
      (callsOf 0 (runAdaptiveSpec dt tStart tEnd eps dtMin flow att u0 [sp] fuel).1.trace) := by
  set c : Cfg K S (Sched K) :=
    { dt := dt, tStart := tStart, tEnd := tEnd, eps := eps, step := fun u _ => u, nxt := Sched.next }
  have hs0 : (sp.init tStart).sched = Sched.const D tStart ∧ (sp.init tStart).due = some tStart := by
    unfold TrackerSpec.init
    rw [hsched]
    exact ⟨rfl, rfl⟩
  exact adaptive_served_exactly_up_to_dtmin c dtMin flow he0 hmin D tStart hD _ (sched_constLike D) fuel
    { st := { t := tStart, u := u0, steps := 0, trs := [sp.init tStart], trace := [], iters := 0 },
      dt := dt, att := att } 0
    ⟨⟨sp.init tStart, rfl, by simpa using hs0.1, by simpa using hs0.2⟩,
      Or.inl ⟨by simp, by simpa using hmin⟩, by simp [callsOf], hdt, hatt⟩

/-! ### adaptive steppers with ANY tracker collection: never late -/

/-- a call of the adaptive stepper from `t` towards `tEnd`, both not beyond a time `B` (`t` strictly before it):
whatever the error estimator answers, the stepper returns before `B + dt_min`; time steps stay within `(0, dtMax]` -/
theorem adaptiveStepper_bound (dtMin tEnd B dtMax : K) (hmin : 0 < dtMin) (hB : tEnd ≤ B) :
    ∀ (att : List (Attempt K)) (t dtOpt : K) (steps : Nat) (r : List (Attempt K) × K × K × Nat),
      t < B → (0 < dtOpt ∧ dtOpt ≤ dtMax) → (∀ x ∈ att, 0 < x.dtNext ∧ x.dtNext ≤ dtMax) →
      adaptiveStepper dtMin tEnd att t dtOpt steps = some r →
      r.2.1 < B + dtMin ∧ (0 < r.2.2.1 ∧ r.2.2.1 ≤ dtMax) ∧ (∀ x ∈ r.1, 0 < x.dtNext ∧ x.dtNext ≤ dtMax) := by
  intro att
  induction att with
  | nil => intro t dtOpt steps r _ _ _ h; simp [adaptiveStepper] at h
  | cons a rest ih =>
    intro t dtOpt steps r ht hopt hatt h
    rw [adaptiveStepper_cons] at h
    by_cases hlt : landT dtMin tEnd a t dtOpt < tEnd
    · rw [if_pos hlt] at h
      exact ih _ _ _ r (lt_of_lt_of_le hlt hB) (hatt a (List.mem_cons_self))
        (fun x hx => hatt x (List.mem_cons_of_mem _ hx)) h
    · rw [if_neg hlt] at h
      have hr : r = (rest, landT dtMin tEnd a t dtOpt, dtOpt, (if a.accept then steps + 1 else steps)) := by
        injection h with h; exact h.symm
      subst hr
      refine ⟨?_, hopt, fun x hx => hatt x (List.mem_cons_of_mem _ hx)⟩
      show landT dtMin tEnd a t dtOpt < B + dtMin
      unfold landT
      by_cases hacc : a.accept = true
      · rw [if_pos hacc]
        by_cases hne : dtStep dtMin dtOpt (tEnd - t) < tEnd - t ∨ tEnd - t < dtStep dtMin dtOpt (tEnd - t)
        · rw [if_pos hne]
          rw [dtStep_eq] at hne ⊢
          rcases le_total dtMin (min dtOpt (tEnd - t)) with hc | hc
          · rw [max_eq_left hc]
            have : min dtOpt (tEnd - t) ≤ tEnd - t := min_le_right _ _
            linarith
          · rw [max_eq_right hc]; linarith
        · rw [if_neg hne]; linarith
      · rw [if_neg hacc]; linarith

/-- the `k`-th call is less than `dtMax/2` before the `k`-th scheduled time and less than `dt_min` after it -/
def AdWindow (D τ0 dtMin dtMax : K) (k : Nat) (x : K) : Prop :=
  τ0 + k * D - dtMax / 2 < x ∧ x < τ0 + k * D + dtMin

/-- loop-head invariant for the tracker at list position `j` (constant schedule) among any other trackers -/
structure AdInvJ (D τ0 dtMin dtMax : K) (C : σ → K → Prop) (j : Nat) (a : AState K S σ) (m : Nat) : Prop where
  tr : ∃ tr, a.st.trs[j]? = some tr ∧ C tr.sched (τ0 + m * D) ∧ tr.due = some (τ0 + m * D)
  pos : a.st.t < τ0 + m * D + dtMin
  calls : List.Forall₂ (AdWindow D τ0 dtMin dtMax) (List.range m) (callsOf j a.st.trace)
  dtb : 0 < a.dt ∧ a.dt ≤ dtMax
  attb : ∀ x ∈ a.att, 0 < x.dtNext ∧ x.dtNext ≤ dtMax

/-- one `handle` of the whole collection (tolerance `0 < atol ≤ dtMax/2`) at a state satisfying the invariant: the
tracker is served iff due, by one call inside its window, without catch-up; afterwards its pending time lies strictly
in the future -/
theorem adInvJ_handle (nxt : σ → K → σ × Option K) (D τ0 dtMin dtMax : K) (hD : dtMin ≤ D)
    (C : σ → K → Prop) (hC : ConstLike nxt D C) (j : Nat) (a : AState K S σ) (m : Nat)
    (h : AdInvJ D τ0 dtMin dtMax C j a m) (atol : K) (ha0 : 0 < atol) (ha1 : atol ≤ dtMax / 2) :
    ∃ m', (∃ tr, (handleAll nxt atol a.st.t a.st.u 0 a.st.trs).1[j]? = some tr ∧ C tr.sched (τ0 + (m' : Nat) * D) ∧
        tr.due = some (τ0 + (m' : Nat) * D)) ∧
      a.st.t < τ0 + (m' : Nat) * D ∧
      List.Forall₂ (AdWindow D τ0 dtMin dtMax) (List.range m')
        (callsOf j (a.st.trace ++ (handleAll nxt atol a.st.t a.st.u 0 a.st.trs).2.1)) := by
  obtain ⟨tr, hj, hs, hdue⟩ := h.tr
  have hget := handleAll_getElem? nxt atol a.st.t a.st.u a.st.trs 0 j tr hj
  have hcalls := handleAll_callsOf nxt atol a.st.t a.st.u a.st.trs j tr hj
  have hp := h.pos
  by_cases hd : isDue tr.due atol a.st.t = true
  · have hd' : τ0 + m * D - atol < a.st.t := by
      rw [hdue] at hd; simpa [isDue] using hd
    obtain ⟨n1, n2⟩ := hC tr.sched (τ0 + m * D) a.st.t hs
    have hnc : Interrupts.constNext (τ0 + m * D) D a.st.t = τ0 + ((m + 1 : Nat) : K) * D := by
      rw [constNext_no_catchup' _ _ _ (by linarith)]; push_cast; ring
    refine ⟨m + 1, ⟨served nxt a.st.t a.st.u tr, by rw [hget, if_pos hd], ?_, ?_⟩, ?_, ?_⟩
    · show C (nxt tr.sched a.st.t).1 _
      rw [← hnc]; exact n2
    · show (nxt tr.sched a.st.t).2 = _
      rw [n1, hnc]
    · push_cast; linarith
    · rw [callsOf_append, hcalls, if_pos hd, List.range_succ]
      refine List.rel_append h.calls (List.Forall₂.cons ⟨by linarith, hp⟩ List.Forall₂.nil)
  · have hd' : ¬ τ0 + m * D - atol < a.st.t := by
      rw [hdue] at hd; simpa [isDue] using hd
    refine ⟨m, ⟨tr, by rw [hget, if_neg hd], hs, hdue⟩, by linarith [not_lt.mp hd'], ?_⟩
    rw [callsOf_append, hcalls, if_neg hd, List.append_nil]; exact h.calls

/-- **adaptive_never_late_among_trackers** (adaptive stepper, ANY tracker collection).  A tracker at any list
position with constant interval `D ≥ dt_min`, among any other trackers with any schedules and any stop behaviour,
all time steps of the run within `(0, dtMax]`, `eps ≤ 1/2`: its `k`-th call serves its `k`-th scheduled time (none
skipped, none served twice) LESS THAN `dt_min` AFTER it - never a step late - and less than `dtMax/2` before it (it
is handled together with another tracker that is due: `adaptive_two_trackers_served_early`, known finding) - on every
path. -/
theorem adaptive_never_late_among_trackers (c : Cfg K S σ) (dtMin dtMax : K) (flow : S → K → K → S)
    (he0 : 0 < c.eps) (he1 : c.eps ≤ 1 / 2) (hmin : 0 < dtMin) (D τ0 : K) (hD : dtMin ≤ D)
    (C : σ → K → Prop) (hC : ConstLike c.nxt D C) (j : Nat) :
    ∀ (fuel : Nat) (a : AState K S σ) (m : Nat), AdInvJ D τ0 dtMin dtMax C j a m →
      ∃ m', List.Forall₂ (AdWindow D τ0 dtMin dtMax) (List.range m')
        (callsOf j (finalHandleAdaptive c (loopAdaptive c dtMin flow fuel a)).1.st.trace) := by
  intro fuel
  induction fuel with
  | zero =>
    intro a m h
    refine ⟨m, ?_⟩
    show List.Forall₂ _ _ (callsOf j (finalHandleAdaptive c (a, .fuel)).1.st.trace)
    rw [finalHandleAdaptive_of_ne_final c a .fuel (by simp)]
    exact h.calls
  | succ n ih =>
    intro a m h
    have hdtM : 0 < dtMax := lt_of_lt_of_le h.dtb.1 h.dtb.2
    have hhalf : 0 < (half : K) * a.dt ∧ (half : K) * a.dt ≤ dtMax / 2 := by
      rw [half_mul]; constructor <;> linarith [h.dtb.1, h.dtb.2]
    have hea : 0 < c.eps * a.dt ∧ c.eps * a.dt ≤ dtMax / 2 := by
      constructor
      · exact mul_pos he0 h.dtb.1
      · have := h.dtb.1; have := h.dtb.2; nlinarith
    unfold loopAdaptive iterOnceAdaptive
    by_cases hc : a.st.t < c.tEnd - c.eps * a.dt
    · rw [if_pos hc]
      obtain ⟨m', ⟨tr', hj', hs', hdue'⟩, hfut, hcalls'⟩ :=
        adInvJ_handle c.nxt D τ0 dtMin dtMax hD C hC j a m h (half * a.dt) hhalf.1 hhalf.2
      cases herr : (handleAll c.nxt (half * a.dt) a.st.t a.st.u 0 a.st.trs).2.2 with
      | some r =>
        simp only [herr]
        rw [finalHandleAdaptive_of_ne_final c _ _ (by simp)]
        exact ⟨m', hcalls'⟩
      | none =>
        simp only [herr]
        cases hst : adaptiveStepper dtMin (clip (nextAction (handleAll c.nxt (half * a.dt) a.st.t a.st.u 0
            a.st.trs).1) c.tEnd) a.att a.st.t a.dt 0 with
        | none =>
          dsimp only
          rw [finalHandleAdaptive_of_ne_final c _ _ (by simp)]
          exact ⟨m', hcalls'⟩
        | some r =>
          dsimp only
          have hmem : tr' ∈ (handleAll c.nxt (half * a.dt) a.st.t a.st.u 0 a.st.trs).1 :=
            List.mem_of_getElem? hj'
          have hclip := clip_nextAction_le _ c.tEnd tr' hmem _ hdue'
          obtain ⟨hland, hdt', hatt'⟩ := adaptiveStepper_bound dtMin _ (τ0 + (m' : Nat) * D) dtMax hmin hclip
            a.att a.st.t a.dt 0 r hfut h.dtb h.attb hst
          exact ih _ m' ⟨⟨tr', hj', hs', hdue'⟩, hland, hcalls', hdt', hatt'⟩
    · rw [if_neg hc]
      show ∃ m', List.Forall₂ _ _ (callsOf j (finalHandleAdaptive c (a, .final)).1.st.trace)
      obtain ⟨m', _, _, hcalls'⟩ :=
        adInvJ_handle c.nxt D τ0 dtMin dtMax hD C hC j a m h (c.eps * a.dt) hea.1 hea.2
      exact ⟨m', hcalls'⟩

/-- **adaptive_never_late_run**: the statement for a whole `Controller.run` with an adaptive stepper: the tracker at
list position `j` has the concrete `ConstantInterrupts(D)` from `t_start`, the others are arbitrary. -/
theorem adaptive_never_late_run (dt tStart tEnd eps dtMin dtMax : K) (flow : S → K → K → S)
    (att : List (Attempt K)) (u0 : S) (hdt : 0 < dt ∧ dt ≤ dtMax) (he0 : 0 < eps) (he1 : eps ≤ 1 / 2)
    (hmin : 0 < dtMin) (D : K) (hD : dtMin ≤ D) (hatt : ∀ x ∈ att, 0 < x.dtNext ∧ x.dtNext ≤ dtMax)
    (specs : List (TrackerSpec K S)) (j : Nat) (sp : TrackerSpec K S) (hj : specs[j]? = some sp)
    (hsched : sp.sched = .const D none) (fuel : Nat) :
    ∃ m, List.Forall₂ (AdWindow D tStart dtMin dtMax) (List.range m)
      (callsOf j (runAdaptiveSpec dt tStart tEnd eps dtMin flow att u0 specs fuel).1.trace) := by
  set c : Cfg K S (Sched K) :=
    { dt := dt, tStart := tStart, tEnd := tEnd, eps := eps, step := fun u _ => u, nxt := Sched.next }
  have hs0 : (sp.init tStart).sched = Sched.const D tStart ∧ (sp.init tStart).due = some tStart := by
    unfold TrackerSpec.init
    rw [hsched]
    exact ⟨rfl, rfl⟩
  exact adaptive_never_late_among_trackers c dtMin dtMax flow he0 he1 hmin D tStart hD _ (sched_constLike D) j fuel
    { st := { t := tStart, u := u0, steps := 0, trs := specs.map (fun s => s.init tStart), trace := [], iters := 0 },
      dt := dt, att := att } 0
    ⟨⟨sp.init tStart, by simp [List.getElem?_map, hj], by simpa using hs0.1, by simpa using hs0.2⟩,
      by simpa using hmin, by simp [callsOf], hdt, hatt⟩


end

/-! ### kernel-evaluated runs of the adaptive model -/

/-- a run in which the time step grows (1/4, 1, 4: every step accepted, `adjust_dt` answers `4*dt`), the step is
clipped to the next tracker time and every call is exactly at `k*D`, `D = 3/2`, range [0, 5]; the last scheduled
time `9/2` and nothing at `t_end = 5` -/
example :
    let R := runAdaptiveSpec (1 / 4 : Rat) 0 5 (1 / 1000000) (1 / 10000000000) (fun u t s => u + (s - t))
      [⟨true, 1⟩, ⟨true, 4⟩, ⟨true, 4⟩, ⟨false, 1⟩, ⟨true, 4⟩, ⟨true, 4⟩, ⟨true, 4⟩, ⟨true, 4⟩, ⟨true, 4⟩] (0 : Rat)
      [ { kind := .storage, sched := .const (3 / 2) none, stopAt := fun _ _ _ => none } ] 100
    R.1.exit = .final ∧ R.1.tFinal = 5 ∧ R.1.trackers.map (fun tr => tr.times) = [[0, 3 / 2, 3, 9 / 2]] ∧
      R.1.steps = 7 ∧ R.2 = 4 := by
  decide +kernel

/-- **adaptive_overshoot_by_dtmin**: "exactly at it" cannot be proved without the `dt_min` allowance.  `dt_min = 1/10`
(the class attribute `AdaptiveSolverBase.dt_min`, 1e-10 by default), interval 1, time step 19/20 accepted twice: the
first step ends at 19/20, the remaining 1/20 is below `dt_min`, so the stepper takes a step of `dt_min` and the
tracker is called at 21/20 instead of 1. -/
theorem adaptive_overshoot_by_dtmin :
    let R := runAdaptiveSpec (19 / 20 : Rat) 0 2 (1 / 1000000) (1 / 10) (fun u t s => u + (s - t))
      [⟨true, 19 / 20⟩, ⟨true, 19 / 20⟩, ⟨true, 19 / 20⟩, ⟨true, 19 / 20⟩] (0 : Rat)
      [ { kind := .storage, sched := .const 1 none, stopAt := fun _ _ _ => none } ] 100
    R.1.exit = .final ∧ R.1.tFinal = 2 ∧ R.1.trackers.map (fun tr => tr.times) = [[0, 21 / 20, 2]] := by
  decide +kernel

/-- two trackers on the adaptive model (intervals 1 and 97/100, `dt = 1/10` kept by the oracle): tracker 0 is called
at 0, 97/100, 2, 3 - the call for its scheduled time 1 is 3/100 early (`< dt/2`), none is late -/
example :
    let R := runAdaptiveSpec (1 / 10 : Rat) 0 3 (1 / 1000000) (1 / 10000000000) (fun u t s => u + (s - t))
      (List.replicate 60 ⟨true, 1 / 10⟩) (0 : Rat)
      [ { kind := .storage, sched := .const 1 none, stopAt := fun _ _ _ => none },
        { kind := .storage, sched := .const (97 / 100) none, stopAt := fun _ _ _ => none } ] 100
    R.1.exit = .final ∧ R.1.tFinal = 3 ∧
      R.1.trackers.map (fun tr => tr.times) = [[0, 97 / 100, 2, 3], [0, 97 / 100, 97 / 50, 291 / 100]] := by
  decide +kernel

/-- the hypotheses of `scheduled_times_up_to_t_end_served_whole_range` / `scheduled_time_at_t_end_served_iff` /
`frame_count_floor_iff` are satisfiable: dt = 1/2, range [0, 2] (4 whole steps), D = 1 - the scheduled time 2 = t_end
is served (the tracker is called more than twice), and the run records 0, 1, 2 -/
example : 2 < (callsOf 0 (runFuel (K := Rat) (S := Rat) (σ := Sched Rat)
    { dt := 1 / 2, tStart := 0, tEnd := 2, eps := 1 / 1000000, step := fun u _ => u + 1 / 2, nxt := Sched.next } 0
    [ { kind := .storage, sched := .const 1 0, due := some 0, stopAt := fun _ _ _ => none, calls := 0, times := [],
        frames := [], finalized := 0 } ] 10).trace).length := by
  refine scheduled_times_up_to_t_end_served_whole_range _ (by norm_num) (by norm_num) (by norm_num) 4 (by norm_num) 1
    (by norm_num) _ (sched_constLike 1) 0 _ 0 _ rfl rfl rfl 10 ?_ 2 (by norm_num)
  apply reachedEnd_of_final
  decide +kernel

example :
    let R := runSpec (1 / 2 : Rat) 0 2 (1 / 1000000) (fun u _ => u + 1 / 2) (0 : Rat)
      [ { kind := .storage, sched := .const 1 none, stopAt := fun _ _ _ => none } ]
    R.exit = .final ∧ R.tFinal = 2 ∧ R.trackers.map (fun tr => tr.times) = [[0, 1, 2]] := by decide +kernel

/-- the hypotheses of `adaptive_served_exactly_run` and `adaptive_never_late_run` are satisfiable (oracle: every step
accepted, `adjust_dt` answers 4) -/
example : True := by
  have h1 := adaptive_served_exactly_run (K := Rat) (S := Rat) (1 / 4) 0 5 (1 / 1000000) (1 / 10000000000)
    (fun u t s => u + (s - t)) (List.replicate 20 ⟨true, 4⟩) 0 (by norm_num) (by norm_num) (by norm_num) (3 / 2)
    (by norm_num) (by intro x hx; rw [List.eq_of_mem_replicate hx]; norm_num)
    { kind := .storage, sched := .const (3 / 2) none, stopAt := fun _ _ _ => none } rfl 100
  have h2 := adaptive_never_late_run (K := Rat) (S := Rat) (1 / 4) 0 5 (1 / 1000000) (1 / 10000000000) 4
    (fun u t s => u + (s - t)) (List.replicate 20 ⟨true, 4⟩) 0 (by norm_num) (by norm_num) (by norm_num)
    (by norm_num) (3 / 2) (by norm_num) (by intro x hx; rw [List.eq_of_mem_replicate hx]; norm_num)
    [ { kind := .callback, sched := .const 1 none, stopAt := fun _ _ _ => none },
      { kind := .storage, sched := .const (3 / 2) none, stopAt := fun _ _ _ => none } ] 1 _ rfl rfl 100
  trivial

end PdeVerif.Controller
