import PdeVerif.Model.ParLoop
import PdeVerif.Props.C02
import PdeVerif.Props.C18
import Mathlib.Data.List.Perm.Basic
import Mathlib.Data.List.Nodup
/-
C03 - every route to the same operator-with-BC result agrees.

Model-level equalities between the routes:
* interpreted vs compiled ghost-cell setter: two model definitions (`BC.setGhostAll` and `BC.compiledSetter` of
  `Model/SetterSeq.lean`) proved equal in `Props/C03b.lean`; field method vs `make_operator` and the `out=` contract: memory
  model `Model/OutAlias.lean`, theorems in `Props/C03c.lean`; matrix route on the array the setter produces: `Props/C18b.lean`;
* the order in which faces are processed is irrelevant (`BC.setGhostAll_perm`, re-exported);
* the sparse-matrix route equals the stencil route for every grid class (`Matrix.*_assembled_eq_laplace`, re-exported:
  statements about the assembled entries `rowEntry` that the driver evaluates);
* with or without `out`: the result is a function of the input only;
* **multi-threaded vs serial**: a kernel whose iterations write pairwise distinct cells and read only
  the input gives the same array under every permutation and every chunking of the iteration order;
  `bernstein_schedule_independent` states this for general loop bodies that may read and write the whole store (so the
  hypotheses "reads no cell another iteration writes" and "distinct written cells" are explicit, with witnesses that each is
  needed).  The hypotheses are established for the real kernels statically by extractor E2 and dynamically by the traced
  schedule leg of the harness, which also runs `runWrites (kernelWrites ..)` on the logged writes of the real kernels.
-/
namespace PdeVerif.ParLoop

variable {I V : Type} [DecidableEq I]

theorem runWrites_cons (out : I → V) (w : I × V) (ws : List (I × V)) :
    runWrites out (w :: ws) = runWrites (upd out w.1 w.2) ws := rfl

theorem upd_comm (o : I → V) (i j : I) (v w : V) (h : i ≠ j) :
    upd (upd o i v) j w = upd (upd o j w) i v := by
  funext k
  unfold upd
  by_cases h1 : k = j
  · by_cases h2 : k = i
    · exact absurd (h2.symm.trans h1) h
    · subst h1
      have : ¬ k = i := h2
      simp [this]
  · by_cases h2 : k = i
    · subst h2
      have : ¬ k = j := h1
      simp [this]
    · simp [h1, h2]

/-- a write to a cell not touched by the remaining writes commutes to the end -/
theorem runWrites_update_comm (out : I → V) (i : I) (v : V) (ws : List (I × V))
    (h : ∀ w ∈ ws, w.1 ≠ i) :
    runWrites (upd out i v) ws = upd (runWrites out ws) i v := by
  induction ws generalizing out with
  | nil => rfl
  | cons w ws ih =>
    rw [runWrites_cons, runWrites_cons]
    have hw : w.1 ≠ i := h w List.mem_cons_self
    rw [upd_comm out i w.1 v w.2 hw.symm]
    exact ih _ (fun w' hw' => h w' (List.mem_cons_of_mem _ hw'))

/-- **schedule independence**: if the iterations write pairwise distinct cells, every permutation of
the iteration order (any thread schedule that executes each iteration exactly once) gives the same
output array -/
theorem parallel_schedule_independent (out : I → V) (ws ws' : List (I × V))
    (hp : ws.Perm ws') (hnd : (ws.map Prod.fst).Nodup) :
    runWrites out ws = runWrites out ws' := by
  induction hp generalizing out with
  | nil => rfl
  | cons w _ ih =>
    rw [runWrites_cons, runWrites_cons]
    exact ih _ (List.nodup_cons.mp (by simpa using hnd)).2
  | swap a b l =>
    rw [runWrites_cons, runWrites_cons, runWrites_cons, runWrites_cons]
    have hab : b.1 ≠ a.1 := by
      have := hnd
      simp only [List.map_cons, List.nodup_cons, List.mem_cons, not_or] at this
      exact this.1.1
    rw [upd_comm out b.1 a.1 b.2 a.2 hab]
  | trans h1 h2 ih1 ih2 =>
    rw [ih1 out hnd]
    exact ih2 out ((h1.map Prod.fst).nodup_iff.mp hnd)

/-- the kernels: one write per output cell, value from the input only -> distinct cells -/
theorem kernelWrites_nodup (cells : List I) (f : I → V) (h : cells.Nodup) :
    ((kernelWrites cells f).map Prod.fst).Nodup := by
  unfold kernelWrites
  simpa [List.map_map, Function.comp_def] using h

/-- every schedule of a kernel (any permutation of its cells, hence any static or dynamic chunking
executed in any order) produces the serial result -/
theorem kernel_schedule_independent (out : I → V) (cells cells' : List I) (f : I → V)
    (h : cells.Nodup) (hp : cells.Perm cells') :
    runWrites out (kernelWrites cells f) = runWrites out (kernelWrites cells' f) :=
  parallel_schedule_independent out _ _ (hp.map _) (kernelWrites_nodup cells f h)

/-- chunked execution: splitting the cells into chunks and running the chunks in any order -/
theorem chunked_schedule_independent (out : I → V) (chunks chunks' : List (List I)) (f : I → V)
    (h : chunks.flatten.Nodup) (hp : chunks.Perm chunks') :
    runWrites out (kernelWrites chunks.flatten f) = runWrites out (kernelWrites chunks'.flatten f) :=
  kernel_schedule_independent out _ _ f h (List.Perm.flatten hp)

/-- the serial result: every cell holds the value computed from the input; other entries of `out`
are untouched (this is also the statement "with or without a supplied `out` array the valid result
is the same function of the input") -/
theorem runWrites_kernel_value (out : I → V) (cells : List I) (f : I → V) (h : cells.Nodup) (c : I) :
    runWrites out (kernelWrites cells f) c = if c ∈ cells then f c else out c := by
  induction cells generalizing out with
  | nil => simp [kernelWrites, runWrites]
  | cons d ds ih =>
    have hd := List.nodup_cons.mp h
    unfold kernelWrites at ih ⊢
    rw [List.map_cons, runWrites_cons, ih _ hd.2]
    by_cases hc : c ∈ ds
    · simp [hc]
    · by_cases hcd : c = d
      · subst hcd; simp [hc, upd]
      · simp [hc, hcd, upd]

theorem out_route_eq (out out' : I → V) (cells : List I) (f : I → V) (h : cells.Nodup) (c : I) (hc : c ∈ cells) :
    runWrites out (kernelWrites cells f) c = runWrites out' (kernelWrites cells f) c := by
  rw [runWrites_kernel_value out cells f h, runWrites_kernel_value out' cells f h]; simp [hc]

example : runWrites (fun _ => (0:Nat)) (kernelWrites [2, 0, 1] (fun c => c * c)) 2 = 4 := by decide

/-! ### general loop bodies: iterations that may read and write the whole store (Bernstein's conditions) -/

theorem runWrites_append (out : I → V) (ws ws' : List (I × V)) :
    runWrites out (ws ++ ws') = runWrites (runWrites out ws) ws' := by
  unfold runWrites; rw [List.foldl_append]

/-- cells that are not written keep their value -/
theorem runWrites_frame (out : I → V) (ws : List (I × V)) (c : I) (h : ∀ w ∈ ws, w.1 ≠ c) :
    runWrites out ws c = out c := by
  induction ws generalizing out with
  | nil => rfl
  | cons w ws ih =>
    rw [runWrites_cons, ih _ (fun w' hw' => h w' (List.mem_cons_of_mem _ hw'))]
    have : c ≠ w.1 := fun e => h w List.mem_cons_self e.symm
    simp [upd, this]

/-- iterations that read only cells outside `P` and write only cells inside `P` behave like a fixed write list -/
theorem runBodies_eq_runWrites (P : I → Prop) (s0 s : I → V) (bs : List (Body I V))
    (hread : ∀ b ∈ bs, ∀ s s' : I → V, (∀ c, ¬ P c → s c = s' c) → b s = b s')
    (hwrite : ∀ b ∈ bs, ∀ s : I → V, ∀ w ∈ b s, P w.1)
    (hs : ∀ c, ¬ P c → s c = s0 c) :
    runBodies s bs = runWrites s (bs.flatMap (fun b => b s0)) := by
  induction bs generalizing s with
  | nil => rfl
  | cons b bs ih =>
    have hb : b s = b s0 := hread b List.mem_cons_self s s0 hs
    unfold runBodies
    rw [List.foldl_cons, List.flatMap_cons, runWrites_append, hb]
    have := ih (runWrites s (b s0)) (fun b' hb' => hread b' (List.mem_cons_of_mem _ hb'))
      (fun b' hb' => hwrite b' (List.mem_cons_of_mem _ hb'))
      (fun c hc => by
        rw [runWrites_frame s (b s0) c (fun w hw e => hc (e ▸ hwrite b List.mem_cons_self s0 w hw))]
        exact hs c hc)
    unfold runBodies at this
    exact this

/-- **schedule independence under Bernstein's conditions**: if every iteration reads only cells that no iteration
writes (`hread`: its writes do not depend on the cells in `P`; `hwrite`: all writes land in `P`) and the iterations write
pairwise distinct cells, every order of the iterations gives the same store.  A kernel that reads `out`, or writes an
input cell another iteration reads, violates `hread` and is not covered (see the witness below). -/
theorem bernstein_schedule_independent (P : I → Prop) (s0 : I → V) (bs bs' : List (Body I V)) (hp : bs.Perm bs')
    (hread : ∀ b ∈ bs, ∀ s s' : I → V, (∀ c, ¬ P c → s c = s' c) → b s = b s')
    (hwrite : ∀ b ∈ bs, ∀ s : I → V, ∀ w ∈ b s, P w.1)
    (hdisj : ((bs.flatMap (fun b => b s0)).map Prod.fst).Nodup) :
    runBodies s0 bs = runBodies s0 bs' := by
  rw [runBodies_eq_runWrites P s0 s0 bs hread hwrite (fun _ _ => rfl),
    runBodies_eq_runWrites P s0 s0 bs' (fun b hb => hread b (hp.mem_iff.mpr hb))
      (fun b hb => hwrite b (hp.mem_iff.mpr hb)) (fun _ _ => rfl)]
  exact parallel_schedule_independent s0 _ _ (hp.flatMap_right _) hdisj

/-- the kernels of `kernelWrites` are the special case: one iteration per cell, value from the input only -/
theorem runBodies_kernel (out : I → V) (cells : List I) (f : I → V) :
    runBodies out (cells.map fun c => (fun _ => [(c, f c)] : Body I V)) = runWrites out (kernelWrites cells f) := by
  induction cells generalizing out with
  | nil => rfl
  | cons c cs ih =>
    unfold runBodies kernelWrites at ih ⊢
    simp only [List.map_cons, List.foldl_cons]
    rw [ih]
    rfl

/-- witness that the read hypothesis is needed: an iteration that reads the output cell of another iteration makes the
result depend on the order (what extractor E2 and the traced schedule leg exclude for the real kernels) -/
theorem schedule_dependent_if_out_is_read :
    runBodies (fun _ => (0:Nat)) [(fun _ => [(0, 1)] : Body Nat Nat), (fun s => [(1, s 0)])] 1
      ≠ runBodies (fun _ => (0:Nat)) [(fun s => [(1, s 0)] : Body Nat Nat), (fun _ => [(0, 1)])] 1 := by
  decide

/-- witness that distinct written cells are needed -/
theorem schedule_dependent_if_cells_shared :
    runWrites (fun _ => (0:Nat)) [(0, 1), (0, 2)] 0 ≠ runWrites (fun _ => (0:Nat)) [(0, 2), (0, 1)] 0 := by
  decide


end PdeVerif.ParLoop

namespace PdeVerif.Routes
open PdeVerif PdeVerif.BC PdeVerif.Matrix PdeVerif.Stencil

variable {K : Type} [Field K] [CharZero K]

/-- ghost cells: the order in which the faces are processed is irrelevant (interpreted setter: axes in
order, upper before lower; compiled setter: chained closures; MPI: neighbours first) -/
theorem ghost_route_order_irrelevant (faces faces' : List (Face × K × Cond K)) (hp : faces.Perm faces')
    (hc : Compatible faces) (hc' : Compatible faces') (a : List Int → K) :
    setGhostAll faces a = setGhostAll faces' a := setGhostAll_perm faces faces' hp hc hc' a

/-! sparse-matrix route = stencil route, for every grid class.  The statements are about `matvec`, the row-vector
product of the assembled entries `rowEntry` (what `Drv/C18.lean` evaluates and the harness compares with the real dense
matrix), with the boundary data `bcData` of `get_sparse_matrix_data`; proofs in `Props/C18.lean`. -/

theorem matrix_route_eq_stencil_route (N : Nat) (hN : 2 ≤ N) (dx : K) (cl ch : PCond K) (i : Nat) (hi' : i < N)
    (x : Nat → K) (a : Arr K) (hval : ∀ k : Nat, k < N → a [(k:Int) + 1] = x k)
    (hlo : a [0] = (bcData N .lower dx cl).eval x) (hhi : a [(N:Int) + 1] = (bcData N .upper dx ch).eval x) :
    matvec N (cart1Row N dx (bcData N .lower dx cl) (bcData N .upper dx ch) i).2 x
        + (cart1Row N dx (bcData N .lower dx cl) (bcData N .upper dx ch) i).1 = cartLaplace [dx] a [] [(i:Int) + 1] :=
  cart1_assembled_eq_laplace N hN dx cl ch i hi' x a hval hlo hhi

theorem matrix_route_eq_stencil_route_cart2 (nx ny : Nat) (hnx : 2 ≤ nx) (hny : 2 ≤ ny) (dx dy : K)
    (cxl cxh cyl cyh : Nat → PCond K) (cx cy : Nat) (hx : cx < nx) (hy : cy < ny) (u : Nat → K) (a : Arr K)
    (hval : ∀ p q : Nat, p < nx → q < ny → a [(p:Int) + 1, (q:Int) + 1] = u (p * ny + q))
    (hxlo : a [0, (cy:Int) + 1] = (bcData nx .lower dx (cxl cy)).eval (fun k => u (k * ny + cy)))
    (hxhi : a [(nx:Int) + 1, (cy:Int) + 1] = (bcData nx .upper dx (cxh cy)).eval (fun k => u (k * ny + cy)))
    (hylo : a [(cx:Int) + 1, 0] = (bcData ny .lower dy (cyl cx)).eval (fun k => u (cx * ny + k)))
    (hyhi : a [(cx:Int) + 1, (ny:Int) + 1] = (bcData ny .upper dy (cyh cx)).eval (fun k => u (cx * ny + k))) :
    matvec (nx * ny) (cart2Row nx ny dx dy (fun y => bcData nx .lower dx (cxl y)) (fun y => bcData nx .upper dx (cxh y))
        (fun x => bcData ny .lower dy (cyl x)) (fun x => bcData ny .upper dy (cyh x)) cx cy).2 u
      + (cart2Row nx ny dx dy (fun y => bcData nx .lower dx (cxl y)) (fun y => bcData nx .upper dx (cxh y))
        (fun x => bcData ny .lower dy (cyl x)) (fun x => bcData ny .upper dy (cyh x)) cx cy).1
      = cartLaplace [dx, dy] a [] [(cx:Int) + 1, (cy:Int) + 1] :=
  cart2_assembled_eq_laplace nx ny hnx hny dx dy cxl cxh cyl cyh cx cy hx hy u a hval hxlo hxhi hylo hyhi

theorem matrix_route_eq_stencil_route_polar (N : Nat) (hN : 2 ≤ N) (r : Int → K) (dr : K) (cl ch : PCond K) (i : Nat)
    (hi' : i < N) (x : Nat → K) (a : Arr K) (hval : ∀ k : Nat, k < N → a [(k:Int) + 1] = x k)
    (hlo : a [0] = (bcData N .lower dr cl).eval x) (hhi : a [(N:Int) + 1] = (bcData N .upper dr ch).eval x) :
    matvec N (polarRow N r dr false (bcData N .lower dr cl) (bcData N .upper dr ch) i).2 x
        + (polarRow N r dr false (bcData N .lower dr cl) (bcData N .upper dr ch) i).1 = polarLaplace r dr a ((i:Int) + 1) :=
  polar_assembled_eq_laplace N hN r dr cl ch i hi' x a hval hlo hhi

theorem matrix_route_eq_stencil_route_polar_disk (N : Nat) (hN : 2 ≤ N) (r : Int → K) (dr : K) (hdr : dr ≠ 0)
    (hr : r 1 = dr / 2) (cl ch : PCond K) (i : Nat) (hi' : i < N)
    (x : Nat → K) (a : Arr K) (hval : ∀ k : Nat, k < N → a [(k:Int) + 1] = x k)
    (hhi : a [(N:Int) + 1] = (bcData N .upper dr ch).eval x) :
    matvec N (polarRow N r dr true (bcData N .lower dr cl) (bcData N .upper dr ch) i).2 x
        + (polarRow N r dr true (bcData N .lower dr cl) (bcData N .upper dr ch) i).1 = polarLaplace r dr a ((i:Int) + 1) :=
  polar_disk_assembled_eq_laplace N hN r dr hdr hr cl ch i hi' x a hval hhi

theorem matrix_route_eq_stencil_route_sph (N : Nat) (hN : 2 ≤ N) (r : Int → K) (dr : K) (cl ch : PCond K) (i : Nat)
    (hi' : i < N) (x : Nat → K) (a : Arr K) (hval : ∀ k : Nat, k < N → a [(k:Int) + 1] = x k)
    (hlo : a [0] = (bcData N .lower dr cl).eval x) (hhi : a [(N:Int) + 1] = (bcData N .upper dr ch).eval x) :
    matvec N (sphRow N r dr false (bcData N .lower dr cl) (bcData N .upper dr ch) i).2 x
        + (sphRow N r dr false (bcData N .lower dr cl) (bcData N .upper dr ch) i).1 = sphLaplace true r dr a ((i:Int) + 1) :=
  sph_assembled_eq_laplace N hN r dr cl ch i hi' x a hval hlo hhi

theorem matrix_route_eq_stencil_route_sph_ball (N : Nat) (hN : 2 ≤ N) (r : Int → K) (dr : K) (hr : r 1 = dr / 2)
    (cl ch : PCond K) (i : Nat) (hi' : i < N)
    (x : Nat → K) (a : Arr K) (hval : ∀ k : Nat, k < N → a [(k:Int) + 1] = x k)
    (hhi : a [(N:Int) + 1] = (bcData N .upper dr ch).eval x) :
    matvec N (sphRow N r dr true (bcData N .lower dr cl) (bcData N .upper dr ch) i).2 x
        + (sphRow N r dr true (bcData N .lower dr cl) (bcData N .upper dr ch) i).1 = sphLaplace true r dr a ((i:Int) + 1) :=
  sph_ball_assembled_eq_laplace N hN r dr hr cl ch i hi' x a hval hhi

theorem matrix_route_eq_stencil_route_cyl (nr nz : Nat) (hnr : 2 ≤ nr) (hnz : 2 ≤ nz) (r : Int → K) (dr dz : K)
    (crl crh czl czh : Nat → PCond K) (cx cz : Nat) (hx : cx < nr) (hz : cz < nz) (u : Nat → K) (a : Arr K)
    (hval : ∀ p q : Nat, p < nr → q < nz → a [(p:Int) + 1, (q:Int) + 1] = u (p * nz + q))
    (hrlo : a [0, (cz:Int) + 1] = (bcData nr .lower dr (crl cz)).eval (fun k => u (k * nz + cz)))
    (hrhi : a [(nr:Int) + 1, (cz:Int) + 1] = (bcData nr .upper dr (crh cz)).eval (fun k => u (k * nz + cz)))
    (hzlo : a [(cx:Int) + 1, 0] = (bcData nz .lower dz (czl cx)).eval (fun k => u (cx * nz + k)))
    (hzhi : a [(cx:Int) + 1, (nz:Int) + 1] = (bcData nz .upper dz (czh cx)).eval (fun k => u (cx * nz + k))) :
    matvec (nr * nz) (cylRow nr nz r dr dz (fun z => bcData nr .lower dr (crl z)) (fun z => bcData nr .upper dr (crh z))
        (fun x => bcData nz .lower dz (czl x)) (fun x => bcData nz .upper dz (czh x)) cx cz).2 u
      + (cylRow nr nz r dr dz (fun z => bcData nr .lower dr (crl z)) (fun z => bcData nr .upper dr (crh z))
        (fun x => bcData nz .lower dz (czl x)) (fun x => bcData nz .upper dz (czh x)) cx cz).1
      = cylLaplace r dr dz a ((cx:Int) + 1) ((cz:Int) + 1) :=
  cyl_assembled_eq_laplace nr nz hnr hnz r dr dz crl crh czl czh cx cz hx hz u a hval hrlo hrhi hzlo hzhi

/-- 3-d Cartesian: see `Matrix.cart3_assembled_eq_laplace` (same statement with six faces) -/
theorem matrix_route_eq_stencil_route_cart3 (nx ny nz : Nat) (hnx : 2 ≤ nx) (hny : 2 ≤ ny) (hnz : 2 ≤ nz) (dx dy dz : K)
    (cxl cxh cyl cyh czl czh : Nat → Nat → PCond K) (cx cy cz : Nat) (hx : cx < nx) (hy : cy < ny) (hz : cz < nz)
    (u : Nat → K) (a : Arr K)
    (hval : ∀ p q s : Nat, p < nx → q < ny → s < nz → a [(p:Int) + 1, (q:Int) + 1, (s:Int) + 1] = u ((p * ny + q) * nz + s))
    (hxlo : a [0, (cy:Int) + 1, (cz:Int) + 1] = (bcData nx .lower dx (cxl cy cz)).eval (fun k => u ((k * ny + cy) * nz + cz)))
    (hxhi : a [(nx:Int) + 1, (cy:Int) + 1, (cz:Int) + 1] = (bcData nx .upper dx (cxh cy cz)).eval (fun k => u ((k * ny + cy) * nz + cz)))
    (hylo : a [(cx:Int) + 1, 0, (cz:Int) + 1] = (bcData ny .lower dy (cyl cx cz)).eval (fun k => u ((cx * ny + k) * nz + cz)))
    (hyhi : a [(cx:Int) + 1, (ny:Int) + 1, (cz:Int) + 1] = (bcData ny .upper dy (cyh cx cz)).eval (fun k => u ((cx * ny + k) * nz + cz)))
    (hzlo : a [(cx:Int) + 1, (cy:Int) + 1, 0] = (bcData nz .lower dz (czl cx cy)).eval (fun k => u ((cx * ny + cy) * nz + k)))
    (hzhi : a [(cx:Int) + 1, (cy:Int) + 1, (nz:Int) + 1] = (bcData nz .upper dz (czh cx cy)).eval (fun k => u ((cx * ny + cy) * nz + k))) :
    matvec (nx * ny * nz) (cart3Row nx ny nz dx dy dz (fun y z => bcData nx .lower dx (cxl y z)) (fun y z => bcData nx .upper dx (cxh y z))
        (fun x z => bcData ny .lower dy (cyl x z)) (fun x z => bcData ny .upper dy (cyh x z))
        (fun x y => bcData nz .lower dz (czl x y)) (fun x y => bcData nz .upper dz (czh x y)) cx cy cz).2 u
      + (cart3Row nx ny nz dx dy dz (fun y z => bcData nx .lower dx (cxl y z)) (fun y z => bcData nx .upper dx (cxh y z))
        (fun x z => bcData ny .lower dy (cyl x z)) (fun x z => bcData ny .upper dy (cyh x z))
        (fun x y => bcData nz .lower dz (czl x y)) (fun x y => bcData nz .upper dz (czh x y)) cx cy cz).1
      = cartLaplace [dx, dy, dz] a [] [(cx:Int) + 1, (cy:Int) + 1, (cz:Int) + 1] :=
  cart3_assembled_eq_laplace nx ny nz hnx hny hnz dx dy dz cxl cxh cyl cyh czl czh cx cy cz hx hy hz u a hval
    hxlo hxhi hylo hyhi hzlo hzhi

end PdeVerif.Routes
