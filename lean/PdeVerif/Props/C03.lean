import PdeVerif.Model.ParLoop
import PdeVerif.Props.C02
import PdeVerif.Props.C18
import Mathlib.Data.List.Perm.Basic
import Mathlib.Data.List.Nodup
/-
C03 - every route to the same operator-with-BC result agrees.

Model-level equalities between the routes:
* interpreted vs compiled ghost-cell setter and field method vs `make_operator`: one Lean function
  (`BC.setGhostAll` followed by the `Stencil` kernel) - the content is the correspondence check;
* the order in which faces are processed is irrelevant (`BC.setGhostAll_perm`, re-exported);
* the sparse-matrix route equals the stencil route (`Matrix.*_matrix_eq_laplace_with_bc`, re-exported);
* with or without `out`: the result is a function of the input only;
* **multi-threaded vs serial**: a kernel whose iterations write pairwise distinct cells and read only
  the input gives the same array under every permutation and every chunking of the iteration order.
-/
namespace PdeVerif.ParLoop

variable {I V : Type} [DecidableEq I]

theorem runWrites_cons (out : I → V) (w : I × V) (ws : List (I × V)) :
    runWrites out (w :: ws) = runWrites (upd out w.1 w.2) ws := rfl

theorem upd_comm (o : I → V) (i j : I) (v w : V) (h : i ≠ j) :
    upd (upd o i v) j w = upd (upd o j w) i v := by
  funext k
  unfold upd
  by_cases h1 : k = j
  · by_cases h2 : k = i
    · exact absurd (h2.symm.trans h1) h
    · subst h1
      have : ¬ k = i := h2
      simp [this]
  · by_cases h2 : k = i
    · subst h2
      have : ¬ k = j := h1
      simp [this]
    · simp [h1, h2]

/-- a write to a cell not touched by the remaining writes commutes to the end -/
theorem runWrites_update_comm (out : I → V) (i : I) (v : V) (ws : List (I × V))
    (h : ∀ w ∈ ws, w.1 ≠ i) :
    runWrites (upd out i v) ws = upd (runWrites out ws) i v := by
  induction ws generalizing out with
  | nil => rfl
  | cons w ws ih =>
    rw [runWrites_cons, runWrites_cons]
    have hw : w.1 ≠ i := h w List.mem_cons_self
    rw [upd_comm out i w.1 v w.2 hw.symm]
    exact ih _ (fun w' hw' => h w' (List.mem_cons_of_mem _ hw'))

/-- **schedule independence**: if the iterations write pairwise distinct cells, every permutation of
the iteration order (any thread schedule that executes each iteration exactly once) gives the same
output array -/
theorem parallel_schedule_independent (out : I → V) (ws ws' : List (I × V))
    (hp : ws.Perm ws') (hnd : (ws.map Prod.fst).Nodup) :
    runWrites out ws = runWrites out ws' := by
  induction hp generalizing out with
  | nil => rfl
  | cons w _ ih =>
    rw [runWrites_cons, runWrites_cons]
    exact ih _ (List.nodup_cons.mp (by simpa using hnd)).2
  | swap a b l =>
    rw [runWrites_cons, runWrites_cons, runWrites_cons, runWrites_cons]
    have hab : b.1 ≠ a.1 := by
      have := hnd
      simp only [List.map_cons, List.nodup_cons, List.mem_cons, not_or] at this
      exact this.1.1
    rw [upd_comm out b.1 a.1 b.2 a.2 hab]
  | trans h1 h2 ih1 ih2 =>
    rw [ih1 out hnd]
    exact ih2 out ((h1.map Prod.fst).nodup_iff.mp hnd)

/-- the kernels: one write per output cell, value from the input only -> distinct cells -/
theorem kernelWrites_nodup (cells : List I) (f : I → V) (h : cells.Nodup) :
    ((kernelWrites cells f).map Prod.fst).Nodup := by
  unfold kernelWrites
  simpa [List.map_map, Function.comp_def] using h

/-- every schedule of a kernel (any permutation of its cells, hence any static or dynamic chunking
executed in any order) produces the serial result -/
theorem kernel_schedule_independent (out : I → V) (cells cells' : List I) (f : I → V)
    (h : cells.Nodup) (hp : cells.Perm cells') :
    runWrites out (kernelWrites cells f) = runWrites out (kernelWrites cells' f) :=
  parallel_schedule_independent out _ _ (hp.map _) (kernelWrites_nodup cells f h)

/-- chunked execution: splitting the cells into chunks and running the chunks in any order -/
theorem chunked_schedule_independent (out : I → V) (chunks chunks' : List (List I)) (f : I → V)
    (h : chunks.flatten.Nodup) (hp : chunks.Perm chunks') :
    runWrites out (kernelWrites chunks.flatten f) = runWrites out (kernelWrites chunks'.flatten f) :=
  kernel_schedule_independent out _ _ f h (List.Perm.flatten hp)

/-- the serial result: every cell holds the value computed from the input; other entries of `out`
are untouched (this is also the statement "with or without a supplied `out` array the valid result
is the same function of the input") -/
theorem runWrites_kernel_value (out : I → V) (cells : List I) (f : I → V) (h : cells.Nodup) (c : I) :
    runWrites out (kernelWrites cells f) c = if c ∈ cells then f c else out c := by
  induction cells generalizing out with
  | nil => simp [kernelWrites, runWrites]
  | cons d ds ih =>
    have hd := List.nodup_cons.mp h
    unfold kernelWrites at ih ⊢
    rw [List.map_cons, runWrites_cons, ih _ hd.2]
    by_cases hc : c ∈ ds
    · simp [hc]
    · by_cases hcd : c = d
      · subst hcd; simp [hc, upd]
      · simp [hc, hcd, upd]

theorem out_route_eq (out out' : I → V) (cells : List I) (f : I → V) (h : cells.Nodup) (c : I) (hc : c ∈ cells) :
    runWrites out (kernelWrites cells f) c = runWrites out' (kernelWrites cells f) c := by
  rw [runWrites_kernel_value out cells f h, runWrites_kernel_value out' cells f h]; simp [hc]

example : runWrites (fun _ => (0:Nat)) (kernelWrites [2, 0, 1] (fun c => c * c)) 2 = 4 := by decide

end PdeVerif.ParLoop

namespace PdeVerif.Routes
open PdeVerif PdeVerif.BC PdeVerif.Matrix PdeVerif.Stencil

variable {K : Type} [Field K] [CharZero K]

/-- ghost cells: the order in which the faces are processed is irrelevant (interpreted setter: axes in
order, upper before lower; compiled setter: chained closures; MPI: neighbours first) -/
theorem ghost_route_order_irrelevant (faces faces' : List (Face × K × Cond K)) (hp : faces.Perm faces')
    (hc : Compatible faces) (hc' : Compatible faces') (a : List Int → K) :
    setGhostAll faces a = setGhostAll faces' a := setGhostAll_perm faces faces' hp hc hc' a

/-- sparse-matrix route = stencil route (1-d Cartesian; polar, spherical, 2-d, cylindrical: see C18) -/
theorem matrix_route_eq_stencil_route (N : Nat) (dx : K) (lo hi : BCData K) (i : Nat) (hi' : i < N)
    (x : Nat → K) (a : Arr K) (hval : ∀ k : Nat, k < N → a [(k:Int) + 1] = x k)
    (hlo : a [0] = lo.eval x) (hhi : a [(N:Int) + 1] = hi.eval x) :
    progSum (cart1Row N dx lo hi i).2 x + (cart1Row N dx lo hi i).1 = cartLaplace [dx] a [] [(i:Int) + 1] :=
  cart1_matrix_eq_laplace_with_bc N dx lo hi i hi' x a hval hlo hhi

end PdeVerif.Routes
