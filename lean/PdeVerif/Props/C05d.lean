import PdeVerif.Props.C05c
import PdeVerif.Model.ConserveRun
/-
C05, fourth part - theorems about the definitions the driver handler `c05.run` evaluates against real simulations
(`Model/ConserveRun.lean`): whole runs of the fixed-step Euler and Runge-Kutta solvers (`Solvers.fixedStepper` around
`Solvers.eulerStep` / `Solvers.rk4Step rk4Tab` at the padded-array type) with the right-hand side "ghost cells by
`setGhostAll (consFaces …)`, then the Laplacian" keep the volume-weighted sum `cellMass` of `state.data`, for every
number of steps, step size, potential, grid size and spacing.  Plus the boundary-flux identities of the Cartesian
divergence in 2-d and 3-d, and the exact defect of the (non-conservative) cylindrical divergence.
-/
namespace PdeVerif.Conserve
open PdeVerif PdeVerif.Stencil PdeVerif.BC PdeVerif.Solvers

section run
variable {F : Type} [Field F]

/-- the whole-state step of the run model *is* the step map of `Model/Solvers.lean` at the function type with the
pointwise operations (the form the step theorems of `Props/C05c.lean` are about) -/
theorem wholeStep_euler (f : Rate (Arr F)) (dt : F) (u : Arr F) (t : F) :
    wholeStep .euler f dt u t = eulerStep f (κ dt) u (κ t) := rfl

theorem wholeStep_rk4 (f : Rate (Arr F)) (dt : F) (u : Arr F) (t : F) :
    wholeStep .rk4 f dt u t = rk4Step rk4Tab f (κ dt) u (κ t) := rfl

/-- writing the values of the cells into a padded array and reading them back -/
theorem ofCells_readCells (cells : List (List Int)) (x : Arr F) (idx : List Int) (h : idx ∈ cells) :
    ofCells cells (readCells cells x) idx = x idx := by
  induction cells with
  | nil => cases h
  | cons c cs ih =>
    simp only [readCells, List.map_cons, ofCells]
    by_cases hc : idx = c
    · simp [hc]
    · rw [if_neg hc]
      exact ih (by simpa [hc] using h)

/-- the functional reads the valid cells only -/
def ReadsOnly (I : (Arr F) →ₗ[F] F) (cells : List (List Int)) : Prop :=
  ∀ x y : Arr F, (∀ idx ∈ cells, x idx = y idx) → I x = I y

/-- one `single_step` on `state.data` keeps every linear functional of the valid cells that the rate annihilates -/
theorem cellStep_conserves (I : (Arr F) →ₗ[F] F) (cells : List (List Int)) (hI : ReadsOnly I cells)
    (f : Rate (Arr F)) (hf : Conserving I f) (sch : RunScheme) (dt : F) (s s' : List F) (t : F)
    (h : cellStep cells sch f dt s t = some s') : I (ofCells cells s') = I (ofCells cells s) := by
  simp only [cellStep, Option.some.injEq] at h
  subst h
  rw [hI _ (wholeStep sch f dt (ofCells cells s) t) (fun idx hidx => ofCells_readCells cells _ idx hidx)]
  cases sch with
  | euler => rw [wholeStep_euler]; exact euler_step_conserves I f hf dt _ _
  | rk4 => rw [wholeStep_rk4]; exact rk4_step_conserves_source_tableau I f hf dt _ _

/-- **the simulation clause for the run model**: the total after the `stepCount` steps of `fixed_stepper` equals the
initial one - induction over the steps (`fixedStepper_conserves`), Euler and Runge-Kutta -/
theorem cellRun_conserves [LT F] [DecidableLT F] [LE F] [DecidableLE F] [HasFloor F]
    (I : (Arr F) →ₗ[F] F) (cells : List (List Int)) (hI : ReadsOnly I cells)
    (f : Rate (Arr F)) (hf : Conserving I f) (sch : RunScheme) (dt ts te : F) (s s' : List F) (tr : F)
    (h : cellRun cells sch f dt ts te s = some (s', tr)) : I (ofCells cells s') = I (ofCells cells s) :=
  fixedStepper_conserves (fun s => I (ofCells cells s)) (cellStep cells sch f dt)
    (fun s t s' hs => cellStep_conserves I cells hI f hf sch dt s s' t hs) dt ts te s s' tr h

/-- the loop of the controller around the stepper (any number of calls, any tolerance) -/
theorem cellRuns_conserves [LT F] [DecidableLT F] [LE F] [DecidableLE F] [HasFloor F]
    (I : (Arr F) →ₗ[F] F) (cells : List (List Int)) (hI : ReadsOnly I cells)
    (f : Rate (Arr F)) (hf : Conserving I f) (sch : RunScheme) (dt te atol : F) (fuel : Nat) (t : F) (s : List F) (k : Nat)
    (s' : List F) (t' : F) (k' : Nat)
    (h : cellRuns cells sch f dt te atol fuel t s k = some (s', t', k')) : I (ofCells cells s') = I (ofCells cells s) := by
  induction fuel generalizing t s k with
  | zero =>
    simp only [cellRuns, Option.some.injEq, Prod.mk.injEq] at h
    rw [← h.1]
  | succ fuel ih =>
    rw [cellRuns] at h
    split at h
    · cases hr : cellRun cells sch f dt t te s with
      | none => rw [hr] at h; cases h
      | some r =>
        obtain ⟨s1, t1⟩ := r
        rw [hr] at h
        rw [ih _ _ _ h]
        exact cellRun_conserves I cells hI f hf sch dt t te s s1 t1 hr
    · simp only [Option.some.injEq, Prod.mk.injEq] at h
      rw [← h.1]

/-- ... and after any number `k` of explicitly iterated steps at arbitrary times (no step-count formula) -/
theorem cellSteps_conserve (I : (Arr F) →ₗ[F] F) (cells : List (List Int)) (hI : ReadsOnly I cells)
    (f : Rate (Arr F)) (hf : Conserving I f) (sch : RunScheme) (dt : F) (times : List F) (s : List F) :
    I (ofCells cells (times.foldl (fun s t => readCells cells (wholeStep sch f dt (ofCells cells s) t)) s))
      = I (ofCells cells s) := by
  induction times generalizing s with
  | nil => rfl
  | cons t ts ih =>
    rw [List.foldl_cons, ih]
    exact cellStep_conserves I cells hI f hf sch dt s _ t rfl

end run

section cells
variable {F : Type} [Field F] [CharZero F]

theorem mem_validCells_nil : ([] : List Int) ∈ validCells [] := by simp [validCells]

theorem mem_validCells_cons (n : Nat) (rest : List Nat) (i : Nat) (tl : List Int) (h1 : 1 ≤ i) (h2 : i ≤ n)
    (ht : tl ∈ validCells rest) : ((i : Int) :: tl) ∈ validCells (n :: rest) := by
  simp only [validCells, List.mem_flatMap, List.mem_range, List.mem_map]
  exact ⟨i - 1, by omega, tl, ht, by congr 1; omega⟩

theorem cellSum_readsOnly (w : Nat → F) (pos : Nat → List Int) (n : Nat) (cells : List (List Int))
    (hpos : ∀ i, 1 ≤ i → i ≤ n → pos i ∈ cells) : ReadsOnly (cellSum w pos n) cells := by
  intro x y h
  show sumTo _ n = sumTo _ n
  apply sumTo_congr
  intro i h1 h2
  rw [h _ (hpos i h1 h2)]

theorem cellSum2_readsOnly (w : Nat → Nat → F) (pos : Nat → Nat → List Int) (n m : Nat) (cells : List (List Int))
    (hpos : ∀ i j, 1 ≤ i → i ≤ n → 1 ≤ j → j ≤ m → pos i j ∈ cells) : ReadsOnly (cellSum2 w pos n m) cells := by
  intro x y h
  show sumTo _ n = sumTo _ n
  apply sumTo_congr
  intro i h1 h2
  apply sumTo_congr
  intro j h3 h4
  rw [h _ (hpos i j h1 h2 h3 h4)]

theorem cellSum3_readsOnly (w : Nat → Nat → Nat → F) (pos : Nat → Nat → Nat → List Int) (n m l : Nat)
    (cells : List (List Int))
    (hpos : ∀ i j k, 1 ≤ i → i ≤ n → 1 ≤ j → j ≤ m → 1 ≤ k → k ≤ l → pos i j k ∈ cells) :
    ReadsOnly (cellSum3 w pos n m l) cells := by
  intro x y h
  show sumTo _ n = sumTo _ n
  apply sumTo_congr
  intro i h1 h2
  apply sumTo_congr
  intro j h3 h4
  apply sumTo_congr
  intro k h5 h6
  rw [h _ (hpos i j k h1 h2 h3 h4 h5 h6)]

end cells

/-! ### the runs the driver evaluates (`c05.run`): Cartesian 1-3 axes, every axis walls or periodic -/
section cartruns
variable {F : Type} [Field F] [CharZero F] [LT F] [DecidableLT F] [LE F] [DecidableLE F] [HasFloor F]

theorem cart1_run_conserves (dx lo : F) (hdx : dx ≠ 0) (n : Nat) (hn : 1 ≤ n) (px : Bool)
    (mu : Arr F → Arr F → Arr F) (sch : RunScheme) (dt ts te atol : F) (fuel k k' : Nat) (s s' : List F) (tr : F)
    (h : cellRuns (validCells [n]) sch (consRate .cart [n] lo [dx] [px] mu) dt te atol fuel ts s k = some (s', tr, k')) :
    cellMass .cart [n] lo [dx] s' = cellMass .cart [n] lo [dx] s :=
  cellRuns_conserves (cellSum (fun _ => dx) (fun i => [(i : Int)]) n) (validCells [n])
    (cellSum_readsOnly _ _ n _ (fun i h1 h2 => mem_validCells_cons n [] i [] h1 h2 mem_validCells_nil))
    (cart1Rate dx n px mu) (cart1Rate_conserving dx hdx n hn px mu) sch dt te atol fuel ts s k s' tr k' h

theorem cart2_run_conserves (dx dy lo : F) (hdx : dx ≠ 0) (hdy : dy ≠ 0) (n m : Nat) (hn : 1 ≤ n) (hm : 1 ≤ m)
    (px py : Bool) (mu : Arr F → Arr F → Arr F) (sch : RunScheme) (dt ts te atol : F) (fuel k k' : Nat) (s s' : List F) (tr : F)
    (h : cellRuns (validCells [n, m]) sch (consRate .cart [n, m] lo [dx, dy] [px, py] mu) dt te atol fuel ts s k = some (s', tr, k')) :
    cellMass .cart [n, m] lo [dx, dy] s' = cellMass .cart [n, m] lo [dx, dy] s :=
  cellRuns_conserves (cellSum2 (fun _ _ => dx * dy) (fun i j => [(i : Int), (j : Int)]) n m) (validCells [n, m])
    (cellSum2_readsOnly _ _ n m _ (fun i j h1 h2 h3 h4 =>
      mem_validCells_cons n [m] i [(j : Int)] h1 h2 (mem_validCells_cons m [] j [] h3 h4 mem_validCells_nil)))
    (cart2Rate dx dy n m px py mu) (cart2Rate_conserving dx dy hdx hdy n m hn hm px py mu) sch dt te atol fuel ts s k s' tr k' h

theorem cart3_run_conserves (dx dy dz lo : F) (hdx : dx ≠ 0) (hdy : dy ≠ 0) (hdz : dz ≠ 0) (n m l : Nat)
    (hn : 1 ≤ n) (hm : 1 ≤ m) (hl : 1 ≤ l) (px py pz : Bool) (mu : Arr F → Arr F → Arr F) (sch : RunScheme)
    (dt ts te atol : F) (fuel k k' : Nat) (s s' : List F) (tr : F)
    (h : cellRuns (validCells [n, m, l]) sch (consRate .cart [n, m, l] lo [dx, dy, dz] [px, py, pz] mu) dt te atol fuel ts s k
      = some (s', tr, k')) :
    cellMass .cart [n, m, l] lo [dx, dy, dz] s' = cellMass .cart [n, m, l] lo [dx, dy, dz] s :=
  cellRuns_conserves (cellSum3 (fun _ _ _ => dx * dy * dz) (fun i j k => [(i : Int), (j : Int), (k : Int)]) n m l)
    (validCells [n, m, l])
    (cellSum3_readsOnly _ _ n m l _ (fun i j k h1 h2 h3 h4 h5 h6 =>
      mem_validCells_cons n [m, l] i [(j : Int), (k : Int)] h1 h2
        (mem_validCells_cons m [l] j [(k : Int)] h3 h4 (mem_validCells_cons l [] k [] h5 h6 mem_validCells_nil))))
    (cart3Rate dx dy dz n m l px py pz mu) (cart3Rate_conserving dx dy dz hdx hdy hdz n m l hn hm hl px py pz mu)
    sch dt te atol fuel ts s k s' tr k' h

end cartruns

/-! ### radially symmetric grids (polar, spherical with the conservative stencil, cylindrical with walls or periodic `z`),
with or without a hole: zero-flux conditions on every non-periodic face -/
section radialruns
variable {F : Type} [Field F] [LinearOrder F] [IsStrictOrderedRing F] [HasFloor F]

theorem consFaces_eq_radialFaces1 (n : Nat) (dr : F) :
    consFaces [n] false [dr] [false] = radialFaces [n] false [dr] [false] (consCond false false) false := rfl

theorem consFaces_eq_radialFaces2 (n m : Nat) (dr dz : F) (pz : Bool) :
    consFaces [n, m] false [dr, dz] [false, pz]
      = radialFaces [n, m] false [dr, dz] [false, pz] (consCond false false) false := rfl

theorem polar_run_conserves (rmin dr : F) (h0 : 0 ≤ rmin) (hdr : 0 < dr) (n : Nat) (hn : 1 ≤ n)
    (mu : Arr F → Arr F → Arr F) (sch : RunScheme) (dt ts te atol : F) (fuel k k' : Nat) (s s' : List F) (tr : F)
    (h : cellRuns (validCells [n]) sch (consRate .polar [n] rmin [dr] [false] mu) dt te atol fuel ts s k = some (s', tr, k')) :
    cellMass .polar [n] rmin [dr] s' = cellMass .polar [n] rmin [dr] s :=
  cellRuns_conserves (cellSum (fun i => volPolar (centre rmin dr) dr (i : Int)) (fun i => [(i : Int)]) n) (validCells [n])
    (cellSum_readsOnly _ _ n _ (fun i h1 h2 => mem_validCells_cons n [] i [] h1 h2 mem_validCells_nil))
    (polarRate rmin dr n (consCond false false) false mu)
    (polarRate_conserving rmin dr h0 hdr n hn _ _ (Or.inr ⟨rfl, rfl⟩) (fun k hk => by simp [consCond] at hk) mu)
    sch dt te atol fuel ts s k s' tr k' h

theorem sph_run_conserves (rmin dr : F) (hdr : 0 < dr) (n : Nat) (hn : 1 ≤ n)
    (mu : Arr F → Arr F → Arr F) (sch : RunScheme) (dt ts te atol : F) (fuel k k' : Nat) (s s' : List F) (tr : F)
    (h : cellRuns (validCells [n]) sch (consRate .sph [n] rmin [dr] [false] mu) dt te atol fuel ts s k = some (s', tr, k')) :
    cellMass .sph [n] rmin [dr] s' = cellMass .sph [n] rmin [dr] s :=
  cellRuns_conserves (cellSum (fun i => volSph (centre rmin dr) dr (i : Int)) (fun i => [(i : Int)]) n) (validCells [n])
    (cellSum_readsOnly _ _ n _ (fun i h1 h2 => mem_validCells_cons n [] i [] h1 h2 mem_validCells_nil))
    (sphRate rmin dr n (consCond false false) false mu)
    (sphRate_conserving rmin dr hdr n hn _ _ (Or.inr ⟨rfl, rfl⟩) (fun k hk => by simp [consCond] at hk) mu)
    sch dt te atol fuel ts s k s' tr k' h

theorem cyl_run_conserves (rmin dr dz : F) (h0 : 0 ≤ rmin) (hdr : 0 < dr) (hdz : dz ≠ 0) (n m : Nat) (hn : 1 ≤ n)
    (hm : 1 ≤ m) (pz : Bool) (mu : Arr F → Arr F → Arr F) (sch : RunScheme) (dt ts te atol : F) (fuel k k' : Nat) (s s' : List F) (tr : F)
    (h : cellRuns (validCells [n, m]) sch (consRate .cyl [n, m] rmin [dr, dz] [false, pz] mu) dt te atol fuel ts s k = some (s', tr, k')) :
    cellMass .cyl [n, m] rmin [dr, dz] s' = cellMass .cyl [n, m] rmin [dr, dz] s :=
  cellRuns_conserves (cellSum2 (fun i _ => volCyl (centre rmin dr) dr dz (i : Int)) (fun i j => [(i : Int), (j : Int)]) n m)
    (validCells [n, m])
    (cellSum2_readsOnly _ _ n m _ (fun i j h1 h2 h3 h4 =>
      mem_validCells_cons n [m] i [(j : Int)] h1 h2 (mem_validCells_cons m [] j [] h3 h4 mem_validCells_nil)))
    (cylRate rmin dr dz n m pz (consCond false false) false mu)
    (cylRate_conserving rmin dr dz h0 hdr hdz n m hn hm pz _ _ (Or.inr ⟨rfl, rfl⟩) (fun k hk => by simp [consCond] at hk) mu)
    sch dt te atol fuel ts s k s' tr k' h

/-- the hypotheses are satisfiable and the statement has content: a run of the model evaluated - two Euler steps of the
diffusion equation on a polar grid with hole, non-constant state: the state changes, the total does not -/
example : (cellRun (validCells [3]) .euler (consRate .polar [3] (1 : Rat) [1 / 2] [false] (muDiffusion (1 / 2)))
      (1 / 64) 0 (1 / 32) [1, 4, 9]).map (fun r => (decide (r.1 = [1, 4, 9]), cellMass .polar [3] (1 : Rat) [1 / 2] r.1))
    = some (false, cellMass .polar [3] (1 : Rat) [1 / 2] [1, 4, 9]) := by decide +kernel

end radialruns

end PdeVerif.Conserve
