import PdeVerif.Props.C05c
import PdeVerif.Model.ConserveRun
/-
C05, fourth part - theorems about the definitions the driver handler `c05.run` evaluates against real simulations
(`Model/ConserveRun.lean`): whole runs of the fixed-step Euler, Runge-Kutta, implicit Euler and Crank-Nicolson solvers (`Solvers.fixedStepper` around
`Solvers.eulerStep` / `rk4Step rk4Tab` / `fixpointLoop` over `implicitIter` / `cnIter` at the padded-array type) with the right-hand side "ghost cells by
`setGhostAll (consFaces …)`, then the Laplacian" keep the volume-weighted sum `cellMass` of `state.data`, for every
number of steps, step size, potential, grid size and spacing.  Plus the boundary-flux identities of the Cartesian
divergence in 2-d and 3-d, and the exact defect of the (non-conservative) cylindrical divergence.
-/
namespace PdeVerif.Conserve
open PdeVerif PdeVerif.Stencil PdeVerif.BC PdeVerif.Solvers

section run
variable {F : Type} [Field F]

/-- the whole-state step of the run model *is* the step map of `Model/Solvers.lean` at the function type with the
pointwise operations (the form the step theorems of `Props/C05c.lean` are about) -/
theorem wholeStep_euler (f : Rate (Arr F)) (dt : F) (u : Arr F) (t : F) :
    wholeStep .euler f dt u t = eulerStep f (κ dt) u (κ t) := rfl

theorem wholeStep_rk4 (f : Rate (Arr F)) (dt : F) (u : Arr F) (t : F) :
    wholeStep .rk4 f dt u t = rk4Step rk4Tab f (κ dt) u (κ t) := rfl

/-- writing the values of the cells into a padded array and reading them back -/
theorem ofCells_readCells (cells : List (List Int)) (x : Arr F) (idx : List Int) (h : idx ∈ cells) :
    ofCells cells (readCells cells x) idx = x idx := by
  induction cells with
  | nil => cases h
  | cons c cs ih =>
    simp only [readCells, List.map_cons, ofCells]
    by_cases hc : idx = c
    · simp [hc]
    · rw [if_neg hc]
      exact ih (by simpa [hc] using h)

/-- the functional reads the valid cells only -/
def ReadsOnly (I : (Arr F) →ₗ[F] F) (cells : List (List Int)) : Prop :=
  ∀ x y : Arr F, (∀ idx ∈ cells, x idx = y idx) → I x = I y

/-- one `single_step` on `state.data` keeps every linear functional of the valid cells that the rate annihilates -/
theorem cellStep_conserves (I : (Arr F) →ₗ[F] F) (cells : List (List Int)) (hI : ReadsOnly I cells)
    (f : Rate (Arr F)) (hf : Conserving I f) (sch : RunScheme) (dt : F) (s s' : List F) (t : F)
    (h : cellStep cells sch f dt s t = some s') : I (ofCells cells s') = I (ofCells cells s) := by
  simp only [cellStep, Option.some.injEq] at h
  subst h
  rw [hI _ (wholeStep sch f dt (ofCells cells s) t) (fun idx hidx => ofCells_readCells cells _ idx hidx)]
  cases sch with
  | euler => rw [wholeStep_euler]; exact euler_step_conserves I f hf dt _ _
  | rk4 => rw [wholeStep_rk4]; exact rk4_step_conserves_source_tableau I f hf dt _ _

/-- the fixed-point loop of the implicit solvers returns an iterate: every property the starting iterate has and the
iteration map keeps, the returned state has (`fixpointLoop_conserves` of C05c needs it of *every* iterate) -/
theorem fixpointLoop_invariant {K : Type} [Add K] [Sub K] [Mul K] [Div K] [NatCast K] [HasNormSq K] [LT K] [DecidableLT K]
    (P : List K → Prop) (it : List K → List K) (hit : ∀ xs, P xs → P (it xs)) (e : K) (m : Nat) (xs : List K) (n : Nat)
    (hx : P xs) (ys : List K) (k : Nat) (h : fixpointLoop it e m xs n = some (ys, k)) : P ys := by
  induction m generalizing xs n with
  | zero => simp [fixpointLoop] at h
  | succ m ih =>
    rw [fixpointLoop] at h
    split at h
    · simp only [Option.some.injEq, Prod.mk.injEq] at h
      rw [← h.1]; exact hit xs hx
    · exact ih _ _ (hit xs hx) h

/-- implicit Euler on `state.data`: whatever `maxiter`, `maxerror` and the number of iterations performed -/
theorem cellImplicitStep_conserves [HasNormSq F] [LT F] [DecidableLT F]
    (I : (Arr F) →ₗ[F] F) (cells : List (List Int)) (hI : ReadsOnly I cells)
    (f : Rate (Arr F)) (hf : Conserving I f) (maxiter : Nat) (maxerror dt : F) (s s' : List F) (t : F)
    (h : cellImplicitStep cells f maxiter maxerror dt s t = some s') : I (ofCells cells s') = I (ofCells cells s) := by
  unfold cellImplicitStep at h
  split at h
  · cases h
  · rename_i ys k hfp
    simp only [Option.some.injEq] at h
    subst h
    refine fixpointLoop_invariant (fun xs => I (ofCells cells xs) = I (ofCells cells s)) _ ?_ _ _ _ _ ?_ _ _ hfp
    · intro xs _
      show I (ofCells cells (readCells cells _)) = _
      rw [hI _ _ (fun idx hidx => ofCells_readCells cells _ idx hidx)]
      exact (implicit_iterates_conserve I f hf dt (κ t) (ofCells cells s) (ofCells cells xs)).2
    · show I (ofCells cells (readCells cells _)) = _
      rw [hI _ _ (fun idx hidx => ofCells_readCells cells _ idx hidx)]
      exact (implicit_iterates_conserve I f hf dt (κ t) (ofCells cells s) (ofCells cells s)).1

/-- Crank-Nicolson on `state.data`, every `explicit_fraction` -/
theorem cellCNStep_conserves [HasNormSq F] [LT F] [DecidableLT F]
    (I : (Arr F) →ₗ[F] F) (cells : List (List Int)) (hI : ReadsOnly I cells)
    (f : Rate (Arr F)) (hf : Conserving I f) (α : F) (maxiter : Nat) (maxerror dt : F) (s s' : List F) (t : F)
    (h : cellCNStep cells f α maxiter maxerror dt s t = some s') : I (ofCells cells s') = I (ofCells cells s) := by
  unfold cellCNStep at h
  split at h
  · cases h
  · rename_i ys k hfp
    simp only [Option.some.injEq] at h
    subst h
    refine fixpointLoop_invariant (fun xs => I (ofCells cells xs) = I (ofCells cells s)) _ ?_ _ _ _ _ ?_ _ _ hfp
    · intro xs hxs
      show I (ofCells cells (readCells cells _)) = _
      rw [hI _ _ (fun idx hidx => ofCells_readCells cells _ idx hidx)]
      exact cn_iter_conserves I f hf α dt (κ t) (ofCells cells s) (ofCells cells xs) hxs
    · show I (ofCells cells (readCells cells _)) = _
      rw [hI _ _ (fun idx hidx => ofCells_readCells cells _ idx hidx)]
      exact cn_iter_conserves I f hf α dt (κ t) (ofCells cells s) (ofCells cells s) rfl

/-- every solver of the run model -/
theorem solverStep_conserves [HasNormSq F] [LT F] [DecidableLT F]
    (I : (Arr F) →ₗ[F] F) (cells : List (List Int)) (hI : ReadsOnly I cells)
    (f : Rate (Arr F)) (hf : Conserving I f) (sol : RunSolver F) (dt : F) (s s' : List F) (t : F)
    (h : solverStep cells sol f dt s t = some s') : I (ofCells cells s') = I (ofCells cells s) := by
  cases sol with
  | explicit sch => exact cellStep_conserves I cells hI f hf sch dt s s' t h
  | implicit mi me => exact cellImplicitStep_conserves I cells hI f hf mi me dt s s' t h
  | crankNicolson α mi me => exact cellCNStep_conserves I cells hI f hf α mi me dt s s' t h

/-- **the simulation clause for the run model**: the total after the `stepCount` steps of `fixed_stepper` equals the
initial one - induction over the steps (`fixedStepper_conserves`); Euler, Runge-Kutta, implicit Euler, Crank-Nicolson -/
theorem solverRun_conserves [HasNormSq F] [LT F] [DecidableLT F] [LE F] [DecidableLE F] [HasFloor F]
    (I : (Arr F) →ₗ[F] F) (cells : List (List Int)) (hI : ReadsOnly I cells)
    (f : Rate (Arr F)) (hf : Conserving I f) (sol : RunSolver F) (dt ts te : F) (s s' : List F) (tr : F)
    (h : solverRun cells sol f dt ts te s = some (s', tr)) : I (ofCells cells s') = I (ofCells cells s) :=
  fixedStepper_conserves (fun s => I (ofCells cells s)) (solverStep cells sol f dt)
    (fun s t s' hs => solverStep_conserves I cells hI f hf sol dt s s' t hs) dt ts te s s' tr h

/-- the loop of the controller around the stepper (any number of calls, any tolerance) -/
theorem solverRuns_conserves [HasNormSq F] [LT F] [DecidableLT F] [LE F] [DecidableLE F] [HasFloor F]
    (I : (Arr F) →ₗ[F] F) (cells : List (List Int)) (hI : ReadsOnly I cells)
    (f : Rate (Arr F)) (hf : Conserving I f) (sol : RunSolver F) (dt te atol : F) (fuel : Nat) (t : F) (s : List F) (k : Nat)
    (s' : List F) (t' : F) (k' : Nat)
    (h : solverRuns cells sol f dt te atol fuel t s k = some (s', t', k')) : I (ofCells cells s') = I (ofCells cells s) := by
  induction fuel generalizing t s k with
  | zero =>
    simp only [solverRuns, Option.some.injEq, Prod.mk.injEq] at h
    rw [← h.1]
  | succ fuel ih =>
    rw [solverRuns] at h
    split at h
    · cases hr : solverRun cells sol f dt t te s with
      | none => rw [hr] at h; cases h
      | some r =>
        obtain ⟨s1, t1⟩ := r
        rw [hr] at h
        rw [ih _ _ _ h]
        exact solverRun_conserves I cells hI f hf sol dt t te s s1 t1 hr
    · simp only [Option.some.injEq, Prod.mk.injEq] at h
      rw [← h.1]

/-- ... and after any number `k` of explicitly iterated steps at arbitrary times (no step-count formula) -/
theorem cellSteps_conserve (I : (Arr F) →ₗ[F] F) (cells : List (List Int)) (hI : ReadsOnly I cells)
    (f : Rate (Arr F)) (hf : Conserving I f) (sch : RunScheme) (dt : F) (times : List F) (s : List F) :
    I (ofCells cells (times.foldl (fun s t => readCells cells (wholeStep sch f dt (ofCells cells s) t)) s))
      = I (ofCells cells s) := by
  induction times generalizing s with
  | nil => rfl
  | cons t ts ih =>
    rw [List.foldl_cons, ih]
    exact cellStep_conserves I cells hI f hf sch dt s _ t rfl

end run

section cells
variable {F : Type} [Field F] [CharZero F]

theorem mem_validCells_nil : ([] : List Int) ∈ validCells [] := by simp [validCells]

theorem mem_validCells_cons (n : Nat) (rest : List Nat) (i : Nat) (tl : List Int) (h1 : 1 ≤ i) (h2 : i ≤ n)
    (ht : tl ∈ validCells rest) : ((i : Int) :: tl) ∈ validCells (n :: rest) := by
  simp only [validCells, List.mem_flatMap, List.mem_range, List.mem_map]
  exact ⟨i - 1, by omega, tl, ht, by congr 1; omega⟩

theorem cellSum_readsOnly (w : Nat → F) (pos : Nat → List Int) (n : Nat) (cells : List (List Int))
    (hpos : ∀ i, 1 ≤ i → i ≤ n → pos i ∈ cells) : ReadsOnly (cellSum w pos n) cells := by
  intro x y h
  show sumTo _ n = sumTo _ n
  apply sumTo_congr
  intro i h1 h2
  rw [h _ (hpos i h1 h2)]

theorem cellSum2_readsOnly (w : Nat → Nat → F) (pos : Nat → Nat → List Int) (n m : Nat) (cells : List (List Int))
    (hpos : ∀ i j, 1 ≤ i → i ≤ n → 1 ≤ j → j ≤ m → pos i j ∈ cells) : ReadsOnly (cellSum2 w pos n m) cells := by
  intro x y h
  show sumTo _ n = sumTo _ n
  apply sumTo_congr
  intro i h1 h2
  apply sumTo_congr
  intro j h3 h4
  rw [h _ (hpos i j h1 h2 h3 h4)]

theorem cellSum3_readsOnly (w : Nat → Nat → Nat → F) (pos : Nat → Nat → Nat → List Int) (n m l : Nat)
    (cells : List (List Int))
    (hpos : ∀ i j k, 1 ≤ i → i ≤ n → 1 ≤ j → j ≤ m → 1 ≤ k → k ≤ l → pos i j k ∈ cells) :
    ReadsOnly (cellSum3 w pos n m l) cells := by
  intro x y h
  show sumTo _ n = sumTo _ n
  apply sumTo_congr
  intro i h1 h2
  apply sumTo_congr
  intro j h3 h4
  apply sumTo_congr
  intro k h5 h6
  rw [h _ (hpos i j k h1 h2 h3 h4 h5 h6)]

end cells

/-! ### the runs the driver evaluates (`c05.run`): Cartesian 1-3 axes, every axis walls or periodic -/
section cartruns
variable {F : Type} [Field F] [CharZero F] [HasNormSq F] [LT F] [DecidableLT F] [LE F] [DecidableLE F] [HasFloor F]

theorem cart1_run_conserves (dx lo : F) (hdx : dx ≠ 0) (n : Nat) (hn : 1 ≤ n) (px : Bool)
    (mu : Arr F → Arr F → Arr F) (sol : RunSolver F) (dt ts te atol : F) (fuel k k' : Nat) (s s' : List F) (tr : F)
    (h : solverRuns (validCells [n]) sol (consRate .cart [n] lo [dx] [px] mu) dt te atol fuel ts s k = some (s', tr, k')) :
    cellMass .cart [n] lo [dx] s' = cellMass .cart [n] lo [dx] s :=
  solverRuns_conserves (cellSum (fun _ => dx) (fun i => [(i : Int)]) n) (validCells [n])
    (cellSum_readsOnly _ _ n _ (fun i h1 h2 => mem_validCells_cons n [] i [] h1 h2 mem_validCells_nil))
    (cart1Rate dx n px mu) (cart1Rate_conserving dx hdx n hn px mu) sol dt te atol fuel ts s k s' tr k' h

theorem cart2_run_conserves (dx dy lo : F) (hdx : dx ≠ 0) (hdy : dy ≠ 0) (n m : Nat) (hn : 1 ≤ n) (hm : 1 ≤ m)
    (px py : Bool) (mu : Arr F → Arr F → Arr F) (sol : RunSolver F) (dt ts te atol : F) (fuel k k' : Nat) (s s' : List F) (tr : F)
    (h : solverRuns (validCells [n, m]) sol (consRate .cart [n, m] lo [dx, dy] [px, py] mu) dt te atol fuel ts s k = some (s', tr, k')) :
    cellMass .cart [n, m] lo [dx, dy] s' = cellMass .cart [n, m] lo [dx, dy] s :=
  solverRuns_conserves (cellSum2 (fun _ _ => dx * dy) (fun i j => [(i : Int), (j : Int)]) n m) (validCells [n, m])
    (cellSum2_readsOnly _ _ n m _ (fun i j h1 h2 h3 h4 =>
      mem_validCells_cons n [m] i [(j : Int)] h1 h2 (mem_validCells_cons m [] j [] h3 h4 mem_validCells_nil)))
    (cart2Rate dx dy n m px py mu) (cart2Rate_conserving dx dy hdx hdy n m hn hm px py mu) sol dt te atol fuel ts s k s' tr k' h

theorem cart3_run_conserves (dx dy dz lo : F) (hdx : dx ≠ 0) (hdy : dy ≠ 0) (hdz : dz ≠ 0) (n m l : Nat)
    (hn : 1 ≤ n) (hm : 1 ≤ m) (hl : 1 ≤ l) (px py pz : Bool) (mu : Arr F → Arr F → Arr F) (sol : RunSolver F)
    (dt ts te atol : F) (fuel k k' : Nat) (s s' : List F) (tr : F)
    (h : solverRuns (validCells [n, m, l]) sol (consRate .cart [n, m, l] lo [dx, dy, dz] [px, py, pz] mu) dt te atol fuel ts s k
      = some (s', tr, k')) :
    cellMass .cart [n, m, l] lo [dx, dy, dz] s' = cellMass .cart [n, m, l] lo [dx, dy, dz] s :=
  solverRuns_conserves (cellSum3 (fun _ _ _ => dx * dy * dz) (fun i j k => [(i : Int), (j : Int), (k : Int)]) n m l)
    (validCells [n, m, l])
    (cellSum3_readsOnly _ _ n m l _ (fun i j k h1 h2 h3 h4 h5 h6 =>
      mem_validCells_cons n [m, l] i [(j : Int), (k : Int)] h1 h2
        (mem_validCells_cons m [l] j [(k : Int)] h3 h4 (mem_validCells_cons l [] k [] h5 h6 mem_validCells_nil))))
    (cart3Rate dx dy dz n m l px py pz mu) (cart3Rate_conserving dx dy dz hdx hdy hdz n m l hn hm hl px py pz mu)
    sol dt te atol fuel ts s k s' tr k' h

end cartruns

/-! ### radially symmetric grids (polar, spherical with the conservative stencil, cylindrical with walls or periodic `z`),
with or without a hole: zero-flux conditions on every non-periodic face -/
section radialruns
variable {F : Type} [Field F] [LinearOrder F] [IsStrictOrderedRing F] [HasNormSq F] [HasFloor F]

theorem consFaces_eq_radialFaces1 (n : Nat) (dr : F) :
    consFaces [n] false [dr] [false] = radialFaces [n] false [dr] [false] (consCond false false) false := rfl

theorem consFaces_eq_radialFaces2 (n m : Nat) (dr dz : F) (pz : Bool) :
    consFaces [n, m] false [dr, dz] [false, pz]
      = radialFaces [n, m] false [dr, dz] [false, pz] (consCond false false) false := rfl

theorem polar_run_conserves (rmin dr : F) (h0 : 0 ≤ rmin) (hdr : 0 < dr) (n : Nat) (hn : 1 ≤ n)
    (mu : Arr F → Arr F → Arr F) (sol : RunSolver F) (dt ts te atol : F) (fuel k k' : Nat) (s s' : List F) (tr : F)
    (h : solverRuns (validCells [n]) sol (consRate .polar [n] rmin [dr] [false] mu) dt te atol fuel ts s k = some (s', tr, k')) :
    cellMass .polar [n] rmin [dr] s' = cellMass .polar [n] rmin [dr] s :=
  solverRuns_conserves (cellSum (fun i => volPolar (centre rmin dr) dr (i : Int)) (fun i => [(i : Int)]) n) (validCells [n])
    (cellSum_readsOnly _ _ n _ (fun i h1 h2 => mem_validCells_cons n [] i [] h1 h2 mem_validCells_nil))
    (polarRate rmin dr n (consCond false false) false mu)
    (polarRate_conserving rmin dr h0 hdr n hn _ _ (Or.inr ⟨rfl, rfl⟩) (fun k hk => by simp [consCond] at hk) mu)
    sol dt te atol fuel ts s k s' tr k' h

theorem sph_run_conserves (rmin dr : F) (hdr : 0 < dr) (n : Nat) (hn : 1 ≤ n)
    (mu : Arr F → Arr F → Arr F) (sol : RunSolver F) (dt ts te atol : F) (fuel k k' : Nat) (s s' : List F) (tr : F)
    (h : solverRuns (validCells [n]) sol (consRate .sph [n] rmin [dr] [false] mu) dt te atol fuel ts s k = some (s', tr, k')) :
    cellMass .sph [n] rmin [dr] s' = cellMass .sph [n] rmin [dr] s :=
  solverRuns_conserves (cellSum (fun i => volSph (centre rmin dr) dr (i : Int)) (fun i => [(i : Int)]) n) (validCells [n])
    (cellSum_readsOnly _ _ n _ (fun i h1 h2 => mem_validCells_cons n [] i [] h1 h2 mem_validCells_nil))
    (sphRate rmin dr n (consCond false false) false mu)
    (sphRate_conserving rmin dr hdr n hn _ _ (Or.inr ⟨rfl, rfl⟩) (fun k hk => by simp [consCond] at hk) mu)
    sol dt te atol fuel ts s k s' tr k' h

theorem cyl_run_conserves (rmin dr dz : F) (h0 : 0 ≤ rmin) (hdr : 0 < dr) (hdz : dz ≠ 0) (n m : Nat) (hn : 1 ≤ n)
    (hm : 1 ≤ m) (pz : Bool) (mu : Arr F → Arr F → Arr F) (sol : RunSolver F) (dt ts te atol : F) (fuel k k' : Nat) (s s' : List F) (tr : F)
    (h : solverRuns (validCells [n, m]) sol (consRate .cyl [n, m] rmin [dr, dz] [false, pz] mu) dt te atol fuel ts s k = some (s', tr, k')) :
    cellMass .cyl [n, m] rmin [dr, dz] s' = cellMass .cyl [n, m] rmin [dr, dz] s :=
  solverRuns_conserves (cellSum2 (fun i _ => volCyl (centre rmin dr) dr dz (i : Int)) (fun i j => [(i : Int), (j : Int)]) n m)
    (validCells [n, m])
    (cellSum2_readsOnly _ _ n m _ (fun i j h1 h2 h3 h4 =>
      mem_validCells_cons n [m] i [(j : Int)] h1 h2 (mem_validCells_cons m [] j [] h3 h4 mem_validCells_nil)))
    (cylRate rmin dr dz n m pz (consCond false false) false mu)
    (cylRate_conserving rmin dr dz h0 hdr hdz n m hn hm pz _ _ (Or.inr ⟨rfl, rfl⟩) (fun k hk => by simp [consCond] at hk) mu)
    sol dt te atol fuel ts s k s' tr k' h

/-- the hypotheses are satisfiable and the statement has content: a run of the model evaluated - two Euler steps of the
diffusion equation on a polar grid with hole, non-constant state: the state changes, the total does not -/
example : (solverRun (validCells [3]) (.explicit .euler) (consRate .polar [3] (1 : Rat) [1 / 2] [false] (muDiffusion (1 / 2)))
      (1 / 64) 0 (1 / 32) [1, 4, 9]).map (fun r => (decide (r.1 = [1, 4, 9]), cellMass .polar [3] (1 : Rat) [1 / 2] r.1))
    = some (false, cellMass .polar [3] (1 : Rat) [1 / 2] [1, 4, 9]) := by decide +kernel

/-- the controller loop with a rounding step count (2.25 dt = 2 + 1 steps), Crank-Nicolson with damping 1/4, on a 2 × 2
Cartesian grid periodic in `y`: the run returns after 3 steps, the state changed, the total is the same -/
example : (solverRuns (validCells [2, 2]) (.crankNicolson (1 / 4) 100 (1 / 1024))
      (consRate .cart [2, 2] (0 : Rat) [1 / 2, 1] [false, true] (muDiffusion (1 / 2)))
      (1 / 256) (9 / 1024) (1 / 256000000) 16 0 [1, 4, -2, 0] 0).map
        (fun r => (decide (r.1 = [1, 4, -2, 0]), r.2.2, cellMass .cart [2, 2] (0 : Rat) [1 / 2, 1] r.1))
    = some (false, 3, cellMass .cart [2, 2] (0 : Rat) [1 / 2, 1] [1, 4, -2, 0]) := by decide +kernel

end radialruns

/-! ## boundary-flux identities of the divergence (arbitrary ghost cells, every variant of the difference) -/
section flux
variable {K : Type} [Field K] [CharZero K]

/-- what a first difference along a line of cells sums to: face values only (central: mean of the two cells adjacent
to a face; forward / backward: the cell behind / in front of the face) -/
def faceFlux (mth : Method) (f : Int → K) (n : Nat) : K :=
  match mth with
  | .central => (f ((n : Int) + 1) + f n) / 2 - (f 1 + f 0) / 2
  | .forward => f ((n : Int) + 1) - f 1
  | .backward => f n - f 0

theorem d1_fun_sum_flux (mth : Method) (dx : K) (hdx : dx ≠ 0) (f : Int → K) (n : Nat) :
    sumTo (fun i => dx * d1Fun mth dx f (i : Int)) n = faceFlux mth f n := by
  rw [d1_fun_sum mth dx hdx]; cases mth <;> rfl

/-- conserving ghost cells along the line: no net flux -/
theorem faceFlux_zero (mth : Method) (f : Int → K) (n : Nat) (h : DivAxisOK mth f n) : faceFlux mth f n = 0 := by
  rcases h with ⟨hm, h0, h1⟩ | ⟨h0, h1⟩
  · subst hm; simp only [faceFlux]; rw [h0, h1]; ring
  · cases mth <;> simp only [faceFlux, h0, h1] <;> ring

/-- 2-d Cartesian divergence, any ghost cells: the volume-weighted sum is the flux through the four faces -/
theorem cart2_divergence_sum (mth : Method) (dx dy : K) (hdx : dx ≠ 0) (hdy : dy ≠ 0) (a : Arr K) (n m : Nat) :
    intCart2Divergence mth dx dy a n m =
      sumTo (fun j => dy * faceFlux mth (fun i => a [0, i, (j : Int)]) n) m
      + sumTo (fun i => dx * faceFlux mth (fun j => a [1, (i : Int), j]) m) n := by
  unfold intCart2Divergence
  have split : ∀ i j : Nat, dx * dy * cartDivergence mth [dx, dy] a [] [(i:Int), (j:Int)] =
      dy * (dx * d1Fun mth dx (fun i' => a [0, i', (j:Int)]) (i:Int))
      + dx * (dy * d1Fun mth dy (fun j' => a [1, (i:Int), j']) (j:Int)) := by
    intro i j; rw [cartDivergence_2d]; ring
  simp only [split, sumTo_add]
  congr 1
  · rw [sumTo_comm]
    apply sumTo_congr
    intro j _ _
    rw [sumTo_mul_left, d1_fun_sum_flux mth dx hdx (fun i => a [0, i, (j:Int)]) n]
  · apply sumTo_congr
    intro i _ _
    rw [sumTo_mul_left, d1_fun_sum_flux mth dy hdy (fun j => a [1, (i:Int), j]) m]

/-- 3-d Cartesian divergence, any ghost cells: the flux through the six faces -/
theorem cart3_divergence_sum (mth : Method) (dx dy dz : K) (hdx : dx ≠ 0) (hdy : dy ≠ 0) (hdz : dz ≠ 0)
    (a : Arr K) (n m l : Nat) :
    intCart3Divergence mth dx dy dz a n m l =
      sumTo (fun j => sumTo (fun k => dy * dz * faceFlux mth (fun i => a [0, i, (j : Int), (k : Int)]) n) l) m
      + sumTo (fun i => sumTo (fun k => dx * dz * faceFlux mth (fun j => a [1, (i : Int), j, (k : Int)]) m) l) n
      + sumTo (fun i => sumTo (fun j => dx * dy * faceFlux mth (fun k => a [2, (i : Int), (j : Int), k]) l) m) n := by
  unfold intCart3Divergence
  have split : ∀ i j k : Nat, dx * dy * dz * cartDivergence mth [dx, dy, dz] a [] [(i:Int), (j:Int), (k:Int)] =
      dy * dz * (dx * d1Fun mth dx (fun i' => a [0, i', (j:Int), (k:Int)]) (i:Int))
      + dx * dz * (dy * d1Fun mth dy (fun j' => a [1, (i:Int), j', (k:Int)]) (j:Int))
      + dx * dy * (dz * d1Fun mth dz (fun k' => a [2, (i:Int), (j:Int), k']) (k:Int)) := by
    intro i j k; rw [cartDivergence_3d]; ring
  simp only [split, sumTo_add]
  congr 1
  · congr 1
    · rw [sumTo_comm]
      apply sumTo_congr
      intro j _ _
      rw [sumTo_comm]
      apply sumTo_congr
      intro k _ _
      rw [sumTo_mul_left, d1_fun_sum_flux mth dx hdx (fun i => a [0, i, (j:Int), (k:Int)]) n]
    · apply sumTo_congr
      intro i _ _
      rw [sumTo_comm]
      apply sumTo_congr
      intro k _ _
      rw [sumTo_mul_left, d1_fun_sum_flux mth dy hdy (fun j => a [1, (i:Int), j, (k:Int)]) m]
  · apply sumTo_congr
    intro i _ _
    apply sumTo_congr
    intro j _ _
    rw [sumTo_mul_left, d1_fun_sum_flux mth dz hdz (fun k => a [2, (i:Int), (j:Int), k]) l]

/-! ### cylindrical divergence: `v_r / r + ∂_r v_r + ∂_z v_z` with central differences is not in flux form -/

/-- any ghost cells: the radial part telescopes to `r_n v_{n+1} + r_{n+1} v_n - r_0 v_1 - r_1 v_0` (not a face value of
`r v_r`), the axial part to the face flux weighted with the ring areas -/
theorem cyl_divergence_sum (r : Int → K) (dr dz : K) (hdr : dr ≠ 0) (hdz : dz ≠ 0) (a : Arr K) (n m : Nat)
    (hlat : ∀ i : Int, r (i + 1) = r i + dr) (hr : ∀ i : Nat, 1 ≤ i → r i ≠ 0) :
    intCylDivergence r dr dz a n m =
      sumTo (fun j => dz * (r n * a [0, (n : Int) + 1, (j : Int)] + r ((n : Int) + 1) * a [0, (n : Int), (j : Int)]
                            - (r 0 * a [0, 1, (j : Int)] + r 1 * a [0, 0, (j : Int)]))) m
      + sumTo (fun i => 2 * dr * r (i : Int) * faceFlux .central (fun j => a [1, (i : Int), j]) m) n := by
  unfold intCylDivergence
  have split : ∀ i j : Nat, 1 ≤ i → volCyl r dr dz (i:Int) * cylDivergence r dr dz a (i:Int) (j:Int) =
      dz * ((r (i:Int) * a [0, (i:Int) + 1, (j:Int)] + r ((i:Int) + 1) * a [0, (i:Int), (j:Int)])
            - (r ((i:Int) - 1) * a [0, (i:Int), (j:Int)] + r (i:Int) * a [0, (i:Int) - 1, (j:Int)]))
      + 2 * dr * r (i:Int) * (dz * d1Fun .central dz (fun j' => a [1, (i:Int), j']) (j:Int)) := by
    intro i j hi
    have h1 := hlat (i:Int)
    have h2 : r ((i:Int) - 1) = r (i:Int) - dr := by
      have := hlat ((i:Int) - 1)
      rw [sub_add_cancel] at this
      rw [this]; ring
    have hri := hr i hi
    unfold volCyl cylDivergence d1Fun
    rw [h1, h2]
    push_cast
    field_simp
    ring
  rw [sumTo_congr _ (fun i => sumTo (fun j =>
      dz * ((r (i:Int) * a [0, (i:Int) + 1, (j:Int)] + r ((i:Int) + 1) * a [0, (i:Int), (j:Int)])
            - (r ((i:Int) - 1) * a [0, (i:Int), (j:Int)] + r (i:Int) * a [0, (i:Int) - 1, (j:Int)]))
      + 2 * dr * r (i:Int) * (dz * d1Fun .central dz (fun j' => a [1, (i:Int), j']) (j:Int))) m) n
    (fun i hi _ => sumTo_congr _ _ m (fun j _ _ => split i j hi))]
  simp only [sumTo_add]
  congr 1
  · rw [sumTo_comm]
    apply sumTo_congr
    intro j _ _
    rw [sumTo_mul_left]
    congr 1
    have := sumTo_telescope
      (fun i : Nat => (r (i:Int) * a [0, (i:Int) + 1, (j:Int)] + r ((i:Int) + 1) * a [0, (i:Int), (j:Int)])
            - (r ((i:Int) - 1) * a [0, (i:Int), (j:Int)] + r (i:Int) * a [0, (i:Int) - 1, (j:Int)]))
      (fun i : Nat => r (i:Int) * a [0, (i:Int) + 1, (j:Int)] + r ((i:Int) + 1) * a [0, (i:Int), (j:Int)])
      (by
        intro i
        push_cast
        have e1 : ((i:Int) + 1 - 1) = (i:Int) := by ring
        rw [e1]) n
    rw [this]
    simp
  · apply sumTo_congr
    intro i _ _
    rw [sumTo_mul_left, d1_fun_sum_flux .central dz hdz (fun j => a [1, (i:Int), j]) m]

/-- vanishing normal component on the inner and outer face, conserving `z` axis (walls or periodic): what is left is
`dr dz Σ_j (v_r[1, j] + v_r[n, j])` - the exact defect of the cylindrical divergence (the property does not claim it:
"Cartesian and (conservative) spherical grids") -/
theorem cyl_divergence_defect (r : Int → K) (dr dz : K) (hdr : dr ≠ 0) (hdz : dz ≠ 0) (a : Arr K) (n m : Nat)
    (hlat : ∀ i : Int, r (i + 1) = r i + dr) (hr : ∀ i : Nat, 1 ≤ i → r i ≠ 0)
    (hin : ∀ j : Nat, 1 ≤ j → j ≤ m → a [0, 0, (j : Int)] = -a [0, 1, (j : Int)])
    (hout : ∀ j : Nat, 1 ≤ j → j ≤ m → a [0, (n : Int) + 1, (j : Int)] = -a [0, (n : Int), (j : Int)])
    (hz : ∀ i : Nat, 1 ≤ i → i ≤ n → DivAxisOK .central (fun j => a [1, (i : Int), j]) m) :
    intCylDivergence r dr dz a n m = dr * dz * sumTo (fun j => a [0, 1, (j : Int)] + a [0, (n : Int), (j : Int)]) m := by
  rw [cyl_divergence_sum r dr dz hdr hdz a n m hlat hr]
  have h2 : sumTo (fun i : Nat => 2 * dr * r (i:Int) * faceFlux .central (fun j => a [1, (i:Int), j]) m) n = 0 := by
    apply sumTo_eq_zero
    intro i h1 h2
    rw [faceFlux_zero _ _ _ (hz i h1 h2)]; simp
  rw [h2, add_zero, ← sumTo_mul_left]
  apply sumTo_congr
  intro j h1 h2
  rw [hin j h1 h2, hout j h1 h2, hlat (n:Int)]
  have := hlat 0
  rw [zero_add] at this
  rw [this]; ring

/-- the hypotheses of `cyl_divergence_defect` with a non-vanishing defect: the cylindrical divergence does not conserve
under a vanishing normal component (full cylinder, 2 × 1 cells) -/
theorem cyl_divergence_not_conservative :
    ∃ (a : Arr Rat), a [0, 0, 1] = -a [0, 1, 1] ∧ a [0, 3, 1] = -a [0, 2, 1] ∧ a [1, 1, 0] = -a [1, 1, 1] ∧
      a [1, 1, 2] = -a [1, 1, 1] ∧ a [1, 2, 0] = -a [1, 2, 1] ∧ a [1, 2, 2] = -a [1, 2, 1] ∧
      intCylDivergence (centre (0:Rat) 1) 1 1 a 2 1 ≠ 0 := by
  refine ⟨fun idx => if idx = [0, 1, 1] then 1 else if idx = [0, 0, 1] then -1 else if idx = [0, 2, 1] then 3
    else if idx = [0, 3, 1] then -3 else 0, by decide, by decide, by decide, by decide, by decide, by decide, ?_⟩
  decide +kernel

/-- a concrete non-trivial instance of the hypotheses of `cyl_divergence_defect` (hole of radius 1, `dr = 1/2`) -/
example : (∀ i : Int, centre (1:Rat) (1/2) (i + 1) = centre (1:Rat) (1/2) i + 1/2) ∧
    (∀ i : Nat, 1 ≤ i → centre (1:Rat) (1/2) (i:Int) ≠ 0) :=
  ⟨centre_lattice 1 (1/2), fun i hi => centre_ne_zero 1 (1/2) (by norm_num) (by norm_num) i hi⟩

end flux

/-! ## two coupled fields: `a` relaxes with non-conserving conditions, `c` obeys `∂_t c = ∇²(c³ - c + κ a)` with conserving
conditions - the total of `c` is kept by every solver of the run model although the state couples both fields -/
section props
variable {F : Type} [Field F]

/-- the field `c` of a collection, as a linear map on states -/
def projC : (Arr F) →ₗ[F] (Arr F) where
  toFun u := fieldOf 1 u
  map_add' _ _ := rfl
  map_smul' _ _ := rfl

theorem twoFieldRate_c (cls : GridCls) (shape : List Nat) (lo : F) (dxs : List F) (pers : List Bool) (κ' : F)
    (u t : Arr F) : fieldOf 1 (twoFieldRate cls shape lo dxs pers κ' u t) = consRate cls shape lo dxs pers (muTwo κ') u t := by
  funext tl
  simp [fieldOf, twoFieldRate]

theorem twoField_conserving (I : (Arr F) →ₗ[F] F) (cls : GridCls) (shape : List Nat) (lo : F) (dxs : List F)
    (pers : List Bool) (κ' : F) (h : Conserving I (consRate cls shape lo dxs pers (muTwo κ'))) :
    Conserving (I.comp projC) (twoFieldRate cls shape lo dxs pers κ') := by
  intro w s
  show I (fieldOf 1 (twoFieldRate cls shape lo dxs pers κ' w s)) = 0
  rw [twoFieldRate_c]; exact h w s

theorem twoField_readsOnly (I : (Arr F) →ₗ[F] F) (shape : List Nat) (h : ReadsOnly I (validCells shape)) :
    ReadsOnly (I.comp projC) (cells2 shape) := by
  intro x y hxy
  show I (fieldOf 1 x) = I (fieldOf 1 y)
  apply h
  intro idx hidx
  exact hxy (1 :: idx) (by simp [cells2, hidx])

end props

section runs2
variable {F : Type} [Field F] [CharZero F] [HasNormSq F] [LT F] [DecidableLT F] [LE F] [DecidableLE F] [HasFloor F]

theorem cart1_run2_conserves (dx lo : F) (hdx : dx ≠ 0) (n : Nat) (hn : 1 ≤ n) (px : Bool) (κ' : F)
    (sol : RunSolver F) (dt ts te atol : F) (fuel k k' : Nat) (s s' : List F) (tr : F)
    (h : solverRuns (cells2 [n]) sol (twoFieldRate .cart [n] lo [dx] [px] κ') dt te atol fuel ts s k = some (s', tr, k')) :
    cellMass2 .cart [n] lo [dx] s' = cellMass2 .cart [n] lo [dx] s :=
  solverRuns_conserves ((cellSum (fun _ => dx) (fun i => [(i : Int)]) n).comp projC) (cells2 [n])
    (twoField_readsOnly _ [n] (cellSum_readsOnly _ _ n _ (fun i h1 h2 => mem_validCells_cons n [] i [] h1 h2 mem_validCells_nil)))
    (twoFieldRate .cart [n] lo [dx] [px] κ')
    (twoField_conserving _ .cart [n] lo [dx] [px] κ' (cart1Rate_conserving dx hdx n hn px (muTwo κ')))
    sol dt te atol fuel ts s k s' tr k' h

theorem cart2_run2_conserves (dx dy lo : F) (hdx : dx ≠ 0) (hdy : dy ≠ 0) (n m : Nat) (hn : 1 ≤ n) (hm : 1 ≤ m)
    (px py : Bool) (κ' : F) (sol : RunSolver F) (dt ts te atol : F) (fuel k k' : Nat) (s s' : List F) (tr : F)
    (h : solverRuns (cells2 [n, m]) sol (twoFieldRate .cart [n, m] lo [dx, dy] [px, py] κ') dt te atol fuel ts s k
      = some (s', tr, k')) :
    cellMass2 .cart [n, m] lo [dx, dy] s' = cellMass2 .cart [n, m] lo [dx, dy] s :=
  solverRuns_conserves ((cellSum2 (fun _ _ => dx * dy) (fun i j => [(i : Int), (j : Int)]) n m).comp projC) (cells2 [n, m])
    (twoField_readsOnly _ [n, m] (cellSum2_readsOnly _ _ n m _ (fun i j h1 h2 h3 h4 =>
      mem_validCells_cons n [m] i [(j : Int)] h1 h2 (mem_validCells_cons m [] j [] h3 h4 mem_validCells_nil))))
    (twoFieldRate .cart [n, m] lo [dx, dy] [px, py] κ')
    (twoField_conserving _ .cart [n, m] lo [dx, dy] [px, py] κ' (cart2Rate_conserving dx dy hdx hdy n m hn hm px py (muTwo κ')))
    sol dt te atol fuel ts s k s' tr k' h

theorem cart3_run2_conserves (dx dy dz lo : F) (hdx : dx ≠ 0) (hdy : dy ≠ 0) (hdz : dz ≠ 0) (n m l : Nat)
    (hn : 1 ≤ n) (hm : 1 ≤ m) (hl : 1 ≤ l) (px py pz : Bool) (κ' : F) (sol : RunSolver F)
    (dt ts te atol : F) (fuel k k' : Nat) (s s' : List F) (tr : F)
    (h : solverRuns (cells2 [n, m, l]) sol (twoFieldRate .cart [n, m, l] lo [dx, dy, dz] [px, py, pz] κ') dt te atol fuel ts s k
      = some (s', tr, k')) :
    cellMass2 .cart [n, m, l] lo [dx, dy, dz] s' = cellMass2 .cart [n, m, l] lo [dx, dy, dz] s :=
  solverRuns_conserves
    ((cellSum3 (fun _ _ _ => dx * dy * dz) (fun i j k => [(i : Int), (j : Int), (k : Int)]) n m l).comp projC) (cells2 [n, m, l])
    (twoField_readsOnly _ [n, m, l] (cellSum3_readsOnly _ _ n m l _ (fun i j k h1 h2 h3 h4 h5 h6 =>
      mem_validCells_cons n [m, l] i [(j : Int), (k : Int)] h1 h2
        (mem_validCells_cons m [l] j [(k : Int)] h3 h4 (mem_validCells_cons l [] k [] h5 h6 mem_validCells_nil)))))
    (twoFieldRate .cart [n, m, l] lo [dx, dy, dz] [px, py, pz] κ')
    (twoField_conserving _ .cart [n, m, l] lo [dx, dy, dz] [px, py, pz] κ'
      (cart3Rate_conserving dx dy dz hdx hdy hdz n m l hn hm hl px py pz (muTwo κ')))
    sol dt te atol fuel ts s k s' tr k' h
end runs2

section radialruns2
variable {F : Type} [Field F] [LinearOrder F] [IsStrictOrderedRing F] [HasNormSq F] [HasFloor F]

theorem polar_run2_conserves (rmin dr : F) (h0 : 0 ≤ rmin) (hdr : 0 < dr) (n : Nat) (hn : 1 ≤ n) (κ' : F)
    (sol : RunSolver F) (dt ts te atol : F) (fuel k k' : Nat) (s s' : List F) (tr : F)
    (h : solverRuns (cells2 [n]) sol (twoFieldRate .polar [n] rmin [dr] [false] κ') dt te atol fuel ts s k = some (s', tr, k')) :
    cellMass2 .polar [n] rmin [dr] s' = cellMass2 .polar [n] rmin [dr] s :=
  solverRuns_conserves ((cellSum (fun i => volPolar (centre rmin dr) dr (i : Int)) (fun i => [(i : Int)]) n).comp projC)
    (cells2 [n])
    (twoField_readsOnly _ [n] (cellSum_readsOnly _ _ n _ (fun i h1 h2 => mem_validCells_cons n [] i [] h1 h2 mem_validCells_nil)))
    (twoFieldRate .polar [n] rmin [dr] [false] κ')
    (twoField_conserving _ .polar [n] rmin [dr] [false] κ'
      (polarRate_conserving rmin dr h0 hdr n hn _ _ (Or.inr ⟨rfl, rfl⟩) (fun k hk => by simp [consCond] at hk) (muTwo κ')))
    sol dt te atol fuel ts s k s' tr k' h

theorem sph_run2_conserves (rmin dr : F) (hdr : 0 < dr) (n : Nat) (hn : 1 ≤ n) (κ' : F)
    (sol : RunSolver F) (dt ts te atol : F) (fuel k k' : Nat) (s s' : List F) (tr : F)
    (h : solverRuns (cells2 [n]) sol (twoFieldRate .sph [n] rmin [dr] [false] κ') dt te atol fuel ts s k = some (s', tr, k')) :
    cellMass2 .sph [n] rmin [dr] s' = cellMass2 .sph [n] rmin [dr] s :=
  solverRuns_conserves ((cellSum (fun i => volSph (centre rmin dr) dr (i : Int)) (fun i => [(i : Int)]) n).comp projC)
    (cells2 [n])
    (twoField_readsOnly _ [n] (cellSum_readsOnly _ _ n _ (fun i h1 h2 => mem_validCells_cons n [] i [] h1 h2 mem_validCells_nil)))
    (twoFieldRate .sph [n] rmin [dr] [false] κ')
    (twoField_conserving _ .sph [n] rmin [dr] [false] κ'
      (sphRate_conserving rmin dr hdr n hn _ _ (Or.inr ⟨rfl, rfl⟩) (fun k hk => by simp [consCond] at hk) (muTwo κ')))
    sol dt te atol fuel ts s k s' tr k' h

theorem cyl_run2_conserves (rmin dr dz : F) (h0 : 0 ≤ rmin) (hdr : 0 < dr) (hdz : dz ≠ 0) (n m : Nat) (hn : 1 ≤ n)
    (hm : 1 ≤ m) (pz : Bool) (κ' : F) (sol : RunSolver F) (dt ts te atol : F) (fuel k k' : Nat) (s s' : List F) (tr : F)
    (h : solverRuns (cells2 [n, m]) sol (twoFieldRate .cyl [n, m] rmin [dr, dz] [false, pz] κ') dt te atol fuel ts s k
      = some (s', tr, k')) :
    cellMass2 .cyl [n, m] rmin [dr, dz] s' = cellMass2 .cyl [n, m] rmin [dr, dz] s :=
  solverRuns_conserves
    ((cellSum2 (fun i _ => volCyl (centre rmin dr) dr dz (i : Int)) (fun i j => [(i : Int), (j : Int)]) n m).comp projC)
    (cells2 [n, m])
    (twoField_readsOnly _ [n, m] (cellSum2_readsOnly _ _ n m _ (fun i j h1 h2 h3 h4 =>
      mem_validCells_cons n [m] i [(j : Int)] h1 h2 (mem_validCells_cons m [] j [] h3 h4 mem_validCells_nil))))
    (twoFieldRate .cyl [n, m] rmin [dr, dz] [false, pz] κ')
    (twoField_conserving _ .cyl [n, m] rmin [dr, dz] [false, pz] κ'
      (cylRate_conserving rmin dr dz h0 hdr hdz n m hn hm pz _ _ (Or.inr ⟨rfl, rfl⟩) (fun k hk => by simp [consCond] at hk) (muTwo κ')))
    sol dt te atol fuel ts s k s' tr k' h

/-- the coupled run evaluated: 2 cells, `a = [1, -1]`, `c = [2, 0]`, two Euler steps: `a` and `c` change, the total of `c` does
not (the total of `a` does: its conditions are not conserving) -/
example : (solverRuns (cells2 [2]) (.explicit .euler) (twoFieldRate .cart [2] (0 : Rat) [1 / 2] [false] (1 / 2))
      (1 / 64) (1 / 32) (1 / 64000000) 16 0 [1, -1, 2, 0] 0).map
        (fun r => (decide (r.1 = [1, -1, 2, 0]), r.2.2, cellMass2 .cart [2] (0 : Rat) [1 / 2] r.1))
    = some (false, 2, cellMass2 .cart [2] (0 : Rat) [1 / 2] [1, -1, 2, 0]) := by decide +kernel

end radialruns2

end PdeVerif.Conserve
