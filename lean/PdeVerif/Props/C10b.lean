import PdeVerif.Model.PDEsTime
import PdeVerif.Props.C10
/-
C10, gap round: (1) explicit time dependence - the time is a PARAMETER of the operators
(`TOp`, `rhsValueAt`, `rhsValuePdeAt`, `*RateAt` of `Model/PDEsTime.lean`, the definitions the
driver's `c10.rate_t` / `c10.text_t` / `c10.rhs_t` evaluate) and the statements "text = class
rate" hold for EVERY time; the symbol `t` of a right-hand side denotes the time argument.
(2) `sumSquares` and the `{"values"}` operator (`constOp`).  (3) a compositional theorem for
ALL right-hand sides (constants, coordinates, several fields, operators anywhere): the value in
a cell is the scalar formula of that cell in which every maximal operator call is replaced by
the selected operator instance applied to the field value of its argument.
-/
set_option linter.unusedSectionVars false
namespace PdeVerif.PDEs
open PdeVerif PdeVerif.Ex

/-! ### the value of an expression depends only on the symbols that occur (any number type) -/
section
variable {R : Type} [Add R] [Sub R] [Mul R] [Div R] [Neg R] [NatCast R] [IntCast R]

theorem eval_env_congr (T : FunTab R) (env env' : Env R) (e : Expr)
    (h : ∀ s ∈ symbols e, env.sc s = env'.sc s ∧ env.ix s = env'.ix s) :
    eval T env e = eval T env' e := by
  induction e with
  | num q => simp only [eval]
  | var x => simpa only [eval] using (h x (by simp [symbols])).1
  | idx x i => simp only [eval, (h x (by simp [symbols])).2]
  | named c => simp only [eval]
  | neg a iha | powI a n iha | heav1 a iha | call1 f a iha =>
    simp only [eval]; rw [iha (fun s hs => h s (by simpa [symbols] using hs))]
  | add a b iha ihb | sub a b iha ihb | mul a b iha ihb | div a b iha ihb
  | call2 f a b iha ihb | heav2 a b iha ihb | cmp op a b iha ihb =>
    simp only [eval]
    rw [iha (fun s hs => h s (by simp [symbols, hs])),
      ihb (fun s hs => h s (by simp [symbols, hs]))]

end

/-! ### C10.1 explicit time dependence -/
section
variable {ι K : Type} [Field K]

/-- `expr_prod` introduces no symbols -/
theorem symbols_exprProd (f : Fac) (e : Expr) : ∀ s ∈ symbols (exprProd f e), s ∈ symbols e := by
  intro s
  unfold exprProd
  split_ifs <;> simp [symbols]

/-- a text in which the symbol `t` does not occur: its value at time `t` is the value of the
frozen-time semantics with the operator instances of time `t` -/
theorem rhsValueAt_eq_frozen (T : FunTab K) (lap g : TOp ι K) (vars : List (String × St ι K))
    (t : K) (e : Expr) (ht : "t" ∉ symbols e) :
    rhsValueAt T lap g vars t e = rhsValue T (lap t) (g t) vars e := by
  unfold rhsValueAt rhsValue rhsValueOps rhsValueF
  congr 1
  apply eval_env_congr
  intro s hs
  have hne : s ≠ "t" := fun h => ht (h ▸ hs)
  have hb : (s == "t") = false := by simpa using hne
  refine ⟨?_, rfl⟩
  simp only [fieldEnvS, List.lookup, hb]

theorem t_notin_class_texts (D γ mob ν lam a δ k2 s2 m2 : Fac) (b : Bool) :
    "t" ∉ symbols (diffusionExpr D) ∧ "t" ∉ symbols (allenCahnExpr γ mob b) ∧
    "t" ∉ symbols (cahnHilliardExpr γ) ∧ "t" ∉ symbols (kpzExpr ν lam) ∧
    "t" ∉ symbols (ksExpr ν) ∧ "t" ∉ symbols (ksExprSplit ν) ∧
    "t" ∉ symbols (swiftHohenbergExpr a δ k2) ∧ "t" ∉ symbols (swiftHohenbergExprSplit a δ k2) ∧
    "t" ∉ symbols (waveExprs s2).1 ∧ "t" ∉ symbols (waveExprs s2).2 ∧
    "t" ∉ symbols (kleinGordonExprs s2 m2 b).1 ∧ "t" ∉ symbols (kleinGordonExprs s2 m2 b).2 := by
  have key : ∀ (f : Fac) (e : Expr), "t" ∉ symbols e → "t" ∉ symbols (exprProd f e) :=
    fun f e h h' => h (symbols_exprProd f e _ h')
  have hc : "t" ∉ symbols vC := by simp [vC, symbols]
  have hu : "t" ∉ symbols vU := by simp [vU, symbols]
  have hv : "t" ∉ symbols vV := by simp [vV, symbols]
  have hl : ∀ e, "t" ∉ symbols e → "t" ∉ symbols (lapE e) := fun e h => by simpa [lapE, symbols] using h
  have hg : ∀ e, "t" ∉ symbols e → "t" ∉ symbols (gradsqE e) := fun e h => by
    simpa [gradsqE, symbols] using h
  have hp : ∀ n, "t" ∉ symbols (Expr.powI vC n) := fun n => by simpa [symbols] using hc
  refine ⟨key _ _ (hl _ hc), ?_, ?_, ?_, ?_, ?_, ?_, ?_, hv, key _ _ (hl _ hu), hv, ?_⟩
  · have h0 : "t" ∉ symbols (Expr.add (.sub (exprProd γ (lapE vC)) (.powI vC 3)) vC) := by
      simp only [symbols, List.mem_append, not_or]
      exact ⟨⟨key _ _ (hl _ hc), hp 3⟩, hc⟩
    unfold allenCahnExpr
    cases b
    · exact key _ _ h0
    · exact h0
  · unfold cahnHilliardExpr
    apply hl
    simp only [symbols, List.mem_append, not_or]
    exact ⟨⟨hp 3, hc⟩, key _ _ (hl _ hc)⟩
  · unfold kpzExpr
    simp only [symbols, List.mem_append, not_or]
    exact ⟨key _ _ (hl _ hc), key _ _ (hg _ hc)⟩
  · unfold ksExpr
    simp only [symbols, List.mem_append, not_or, List.not_mem_nil, not_false_eq_true, true_and]
    refine ⟨hl _ ?_, hg _ hc⟩
    simp only [symbols, List.mem_append, not_or]
    exact ⟨hc, key _ _ (hl _ hc)⟩
  · unfold ksExprSplit
    simp only [symbols, List.mem_append, not_or, List.not_mem_nil, not_false_eq_true, true_and]
    exact ⟨⟨key _ _ (hl _ (hl _ hc)), hl _ hc⟩, hg _ hc⟩
  · unfold swiftHohenbergExpr
    simp only [symbols, List.mem_append, not_or]
    refine ⟨⟨⟨key _ _ hc, hp 3⟩, key _ _ (hp 2)⟩, hl _ ?_⟩
    simp only [symbols, List.mem_append, not_or]
    exact ⟨key _ _ hc, hl _ hc⟩
  · unfold swiftHohenbergExprSplit
    simp only [symbols, List.mem_append, not_or]
    exact ⟨⟨⟨⟨key _ _ hc, hp 3⟩, key _ _ (hp 2)⟩, key _ _ (hl _ hc)⟩, hl _ (hl _ hc)⟩
  · unfold kleinGordonExprs
    cases b
    · simp only [Bool.false_eq_true, if_false, symbols, List.mem_append, not_or]
      exact ⟨key _ _ (hl _ hu), key _ _ hu⟩
    · simp only [if_true]
      exact key _ _ (hl _ hu)

end

section
variable {ι K : Type} [Field K] [CharZero K]

/-- **class_rate_eq_expression_at_every_time**: for every predefined class, all parameters, all
TIME-DEPENDENT operators-with-boundary-conditions (arbitrary families of maps), all states and
EVERY time `t`: the field semantics at time `t` of the advertised text (operators of time `t`,
symbol `t` bound to `t`) is the class rate at time `t`.  Conditions as in
`class_rate_eq_expression_semantics` (K-S / S-H grouped texts: the operator of time `t` linear;
their split texts: no condition). -/
theorem class_rate_eq_expression_at (T : FunTab K) (lap g : TOp ι K) (t : K) (c u v : St ι K) :
    (∀ D : Rat, rhsValueAt T lap g [("c", c)] t (diffusionExpr (Fac.exact D)) =
      diffusionRateAt (D : K) lap t c) ∧
    (∀ γ mob : Rat, rhsValueAt T lap g [("c", c)] t (allenCahnExpr (Fac.exact γ) (Fac.exact mob) false) =
        allenCahnRateAt (γ : K) (mob : K) lap t c ∧
      rhsValueAt T lap g [("c", c)] t (allenCahnExpr (Fac.exact γ) (Fac.exact mob) true) =
        allenCahnRateAt (γ : K) 1 lap t c) ∧
    (∀ γ : Rat, rhsValueAt T lap g [("c", c)] t (cahnHilliardExpr (Fac.exact γ)) =
      cahnHilliardRateAt (γ : K) lap lap t c) ∧
    (∀ ν lam : Rat, rhsValueAt T lap g [("c", c)] t (kpzExpr (Fac.exact ν) (Fac.exact lam)) =
      kpzRateAt (ν : K) (lam : K) lap g t c) ∧
    (∀ ν : Rat, IsLinearOp (lap t) → rhsValueAt T lap g [("c", c)] t (ksExpr (Fac.exact ν)) =
      ksRateAt (ν : K) lap lap g t c) ∧
    (∀ ν : Rat, rhsValueAt T lap g [("c", c)] t (ksExprSplit (Fac.exact (-ν))) =
      ksRateAt (ν : K) lap lap g t c) ∧
    (∀ (ε kc2 : K) (a δ k2 : Rat), (a : K) = ε - kc2 ^ 2 → (k2 : K) = 2 * kc2 →
      (IsLinearOp (lap t) →
        rhsValueAt T lap g [("c", c)] t (swiftHohenbergExpr (Fac.exact a) (Fac.exact δ) (Fac.exact k2)) =
          swiftHohenbergRateAt ε kc2 (δ : K) lap lap t c) ∧
      rhsValueAt T lap g [("c", c)] t (swiftHohenbergExprSplit (Fac.exact a) (Fac.exact δ) (Fac.exact k2)) =
        swiftHohenbergRateAt ε kc2 (δ : K) lap lap t c) ∧
    (∀ (speed : K) (s2 : Rat), (s2 : K) = speed ^ 2 →
      rhsValueAt T lap g [("u", u), ("v", v)] t (waveExprs (Fac.exact s2)).1 = (waveRateAt speed lap t u v).1 ∧
      rhsValueAt T lap g [("u", u), ("v", v)] t (waveExprs (Fac.exact s2)).2 = (waveRateAt speed lap t u v).2) ∧
    (∀ (speed mass : K) (s2 m2 : Rat), (s2 : K) = speed ^ 2 → (m2 : K) = mass ^ 2 →
      rhsValueAt T lap g [("u", u), ("v", v)] t (kleinGordonExprs (Fac.exact s2) (Fac.exact m2) false).1 =
        (kleinGordonRateAt speed mass lap t u v).1 ∧
      rhsValueAt T lap g [("u", u), ("v", v)] t (kleinGordonExprs (Fac.exact s2) (Fac.exact m2) false).2 =
        (kleinGordonRateAt speed mass lap t u v).2 ∧
      (mass = 0 →
        rhsValueAt T lap g [("u", u), ("v", v)] t (kleinGordonExprs (Fac.exact s2) (Fac.exact m2) true).2 =
          (kleinGordonRateAt speed mass lap t u v).2)) := by
  have nt := fun (D γ mob ν lam a δ k2 s2 m2 : Fac) (b : Bool) =>
    t_notin_class_texts D γ mob ν lam a δ k2 s2 m2 b
  have z : Fac := Fac.exact 0
  refine ⟨fun D => ?_, fun γ mob => ⟨?_, ?_⟩, fun γ => ?_, fun ν lam => ?_, fun ν hL => ?_, fun ν => ?_,
    fun ε kc2 a δ k2 ha hk => ⟨fun hL => ?_, ?_⟩, fun speed s2 h2 => ⟨?_, ?_⟩,
    fun speed mass s2 m2 h2 hm => ⟨?_, ?_, fun h0 => ?_⟩⟩
  · rw [rhsValueAt_eq_frozen _ _ _ _ _ _ (nt (Fac.exact D) z z z z z z z z z true).1]
    exact diffusion_rate_eq_expression T D (lap t) (g t) c
  · rw [rhsValueAt_eq_frozen _ _ _ _ _ _ (nt z (Fac.exact γ) (Fac.exact mob) z z z z z z z false).2.1]
    exact (allenCahn_rate_eq_expression T γ mob (lap t) (g t) c).1
  · rw [rhsValueAt_eq_frozen _ _ _ _ _ _ (nt z (Fac.exact γ) (Fac.exact mob) z z z z z z z true).2.1]
    exact (allenCahn_rate_eq_expression T γ mob (lap t) (g t) c).2
  · rw [rhsValueAt_eq_frozen _ _ _ _ _ _ (nt z (Fac.exact γ) z z z z z z z z true).2.2.1]
    exact cahnHilliard_rate_eq_expression T γ (lap t) (g t) c
  · rw [rhsValueAt_eq_frozen _ _ _ _ _ _ (nt z z z (Fac.exact ν) (Fac.exact lam) z z z z z true).2.2.2.1]
    exact kpz_rate_eq_expression T ν lam (lap t) (g t) c
  · rw [rhsValueAt_eq_frozen _ _ _ _ _ _ (nt z z z (Fac.exact ν) z z z z z z true).2.2.2.2.1]
    exact ks_rate_eq_expression_linear T ν hL (g t) c
  · rw [rhsValueAt_eq_frozen _ _ _ _ _ _ (nt z z z (Fac.exact (-ν)) z z z z z z true).2.2.2.2.2.1]
    exact ks_split_rate_eq_expression T ν (lap t) (g t) c
  · rw [rhsValueAt_eq_frozen _ _ _ _ _ _
      (nt z z z z z (Fac.exact a) (Fac.exact δ) (Fac.exact k2) z z true).2.2.2.2.2.2.1]
    exact swiftHohenberg_rate_eq_expression_linear T ε kc2 a δ k2 ha hk hL (g t) c
  · rw [rhsValueAt_eq_frozen _ _ _ _ _ _
      (nt z z z z z (Fac.exact a) (Fac.exact δ) (Fac.exact k2) z z true).2.2.2.2.2.2.2.1]
    exact swiftHohenberg_split_rate_eq_expression T ε kc2 a δ k2 ha hk (lap t) (g t) c
  · rw [rhsValueAt_eq_frozen _ _ _ _ _ _ (nt z z z z z z z z (Fac.exact s2) z true).2.2.2.2.2.2.2.2.1]
    exact (wave_rate_eq_expression T speed s2 h2 (lap t) (g t) u v).1
  · rw [rhsValueAt_eq_frozen _ _ _ _ _ _ (nt z z z z z z z z (Fac.exact s2) z true).2.2.2.2.2.2.2.2.2.1]
    exact (wave_rate_eq_expression T speed s2 h2 (lap t) (g t) u v).2
  · rw [rhsValueAt_eq_frozen _ _ _ _ _ _
      (nt z z z z z z z z (Fac.exact s2) (Fac.exact m2) false).2.2.2.2.2.2.2.2.2.2.1]
    exact (kleinGordon_rate_eq_expression T speed mass s2 m2 h2 hm (lap t) (g t) u v).1
  · rw [rhsValueAt_eq_frozen _ _ _ _ _ _
      (nt z z z z z z z z (Fac.exact s2) (Fac.exact m2) false).2.2.2.2.2.2.2.2.2.2.2]
    exact (kleinGordon_rate_eq_expression T speed mass s2 m2 h2 hm (lap t) (g t) u v).2.1
  · rw [rhsValueAt_eq_frozen _ _ _ _ _ _
      (nt z z z z z z z z (Fac.exact s2) (Fac.exact m2) true).2.2.2.2.2.2.2.2.2.2.2]
    exact (kleinGordon_rate_eq_expression T speed mass s2 m2 h2 hm (lap t) (g t) u v).2.2 h0

end

/-! ### the generic `PDE` at time `t`; the symbol `t` -/
section
variable {ι K : Type} [Field K]

/-- `rhsValuePdeAt` (what `c10.rhs_t` evaluates) at a fixed time is `rhsValuePde` with the table
of that time and the time appended to the constants (definitional: every theorem about
`rhsValuePde` / `rhsValueF` applies at every time) -/
theorem rhsValuePdeAt_def (T : FunTab K) (keys : List (String × String)) (table : K → OpTable ι K)
    (var : String) (vars : List (String × St ι K)) (consts : List (String × K)) (t : K) (e : Expr) :
    rhsValuePdeAt T keys table var vars consts t e =
      rhsValueF T (pdeOp keys (table t) var) vars (consts ++ [("t", t)]) e := rfl

/-- the environment gives the symbol `t` the value of the time argument in every cell, unless
a field or a constant is called `t` -/
theorem cellEnv_time (vars : List (String × St ι K)) (consts : List (String × K)) (t : K) (i : ι)
    (hv : vars.lookup "t" = none) (hc : consts.lookup "t" = none) :
    (cellEnv vars (consts ++ [("t", t)]) i).sc "t" = t := by
  have h : (consts ++ [("t", t)]).lookup "t" = some t := by
    induction consts with
    | nil => simp
    | cons p l ih =>
      obtain ⟨k, v⟩ := p
      rw [List.cons_append]
      by_cases hk : ("t" == k) = true
      · simp [List.lookup, hk] at hc
      · have hk' : ("t" == k) = false := by simpa using hk
        simp only [List.lookup, hk'] at hc ⊢
        exact ih hc
  simp [cellEnv, hv, h]

/-- constants and fields keep their meaning when the time is appended -/
theorem cellEnv_time_other (vars : List (String × St ι K)) (consts : List (String × K)) (t : K)
    (i : ι) (s : String) (hs : s ≠ "t") :
    (cellEnv vars (consts ++ [("t", t)]) i).sc s = (cellEnv vars consts i).sc s := by
  have hb : (s == "t") = false := by simpa using hs
  have h : (consts ++ [("t", t)]).lookup s = consts.lookup s := by
    induction consts with
    | nil => simp [List.lookup, hb]
    | cons p l ih =>
      obtain ⟨k, v⟩ := p
      simp only [List.cons_append, List.lookup]
      split <;> simp_all
  simp [cellEnv, h]

/-- **time_symbol_is_time_argument**: in every equation of a generic `PDE`, at every time, the
symbol `t` evaluates to the time argument (the same `t` that selects the operator instances) -/
theorem rhsValuePdeAt_time_symbol (T : FunTab K) (keys : List (String × String))
    (table : K → OpTable ι K) (var : String) (vars : List (String × St ι K))
    (consts : List (String × K)) (t : K) (hv : vars.lookup "t" = none)
    (hc : consts.lookup "t" = none) :
    rhsValuePdeAt T keys table var vars consts t (.var "t") = fun _ => t := by
  funext i
  rw [rhsValuePdeAt_def, rhsValueF_operator_free _ _ _ _ _ (by simp [funNames1])]
  simp only [eval]
  exact cellEnv_time vars consts t i hv hc

/-- an operator name at time `t` denotes the instance that `table t` holds for the condition
selected by `bcIndex`, applied to the value AT TIME `t` of its argument -/
theorem rhsValuePdeAt_operator (T : FunTab K) (keys : List (String × String))
    (table : K → OpTable ι K) (var name bcName : String)
    (insts : List (Option (Op ι K))) (L : Op ι K)
    (vars : List (String × St ι K)) (consts : List (String × K)) (t : K) (a : Expr)
    (h : (table t).lookup name = some (bcName, insts))
    (hL : insts[bcIndex keys var bcName]? = some (some L)) :
    rhsValuePdeAt T keys table var vars consts t (.call1 name a) =
      L (rhsValuePdeAt T keys table var vars consts t a) :=
  rhsValuePde_operator T keys (table t) var name bcName insts L vars (consts ++ [("t", t)]) a h hL

/-- an operator-free right-hand side (reaction terms with explicit time) at time `t` is the
scalar formula of the cell with `t` bound to the time -/
theorem rhsValuePdeAt_operator_free (T : FunTab K) (keys : List (String × String))
    (table : K → OpTable ι K) (var : String) (vars : List (String × St ι K))
    (consts : List (String × K)) (t : K) (e : Expr)
    (h : ∀ f ∈ funNames1 e, pdeOp keys (table t) var f = none) (i : ι) :
    rhsValuePdeAt T keys table var vars consts t e i =
      eval T (cellEnv vars (consts ++ [("t", t)]) i) e :=
  rhsValueF_operator_free T _ vars _ e h i

/-- **explicit time in a right-hand side with an operator**: `laplace(c) + sin(t) * c` at time
`t` is (the Laplacian with the condition of time `t`) applied to `c`, plus `sin` of the TIME
ARGUMENT times `c`, in every cell - for every time, every time-dependent table, every function
table (`sin` is whatever `T` says) -/
theorem rhsValuePdeAt_laplace_plus_time_term (T : FunTab K) (keys : List (String × String))
    (table : K → OpTable ι K) (insts : List (Option (Op ι K))) (L : Op ι K) (c : St ι K)
    (consts : List (String × K)) (t : K) (i : ι)
    (h : (table t).lookup "laplace" = some ("laplace", insts))
    (hL : insts[bcIndex keys "c" "laplace"]? = some (some L))
    (hs : pdeOp keys (table t) "c" "sin" = none)
    (hc : consts.lookup "t" = none) :
    rhsValuePdeAt T keys table "c" [("c", c)] consts t
        (.add (.call1 "laplace" (.var "c")) (.mul (.call1 "sin" (.var "t")) (.var "c"))) i =
      L c i + T.f1 "sin" t * c i := by
  have h1 := rhsValuePdeAt_operator T keys table "c" "laplace" "laplace" insts L [("c", c)] consts t
    (.var "c") h hL
  have h2 := rhsValuePdeAt_operator_free T keys table "c" [("c", c)] consts t
    (.mul (.call1 "sin" (.var "t")) (.var "c")) (by simpa [funNames1] using hs) i
  have h3 : rhsValuePdeAt T keys table "c" [("c", c)] consts t (.var "c") = c := by
    funext j
    rw [rhsValuePdeAt_operator_free _ _ _ _ _ _ _ _ (by simp [funNames1])]
    simp [eval, cellEnv, List.lookup]
  have ht := cellEnv_time [("c", c)] consts t i (by simp [List.lookup]) hc
  rw [h3] at h1
  have split : rhsValuePdeAt T keys table "c" [("c", c)] consts t
        (.add (.call1 "laplace" (.var "c")) (.mul (.call1 "sin" (.var "t")) (.var "c"))) i =
      rhsValuePdeAt T keys table "c" [("c", c)] consts t (.call1 "laplace" (.var "c")) i +
      rhsValuePdeAt T keys table "c" [("c", c)] consts t
        (.mul (.call1 "sin" (.var "t")) (.var "c")) i := by
    simp [rhsValuePdeAt, rhsValuePde, rhsValueF, eval]
  rw [split, h1, h2]
  simp only [eval, ht]
  simp [cellEnv, List.lookup]

end

/-! ### C10.3 every right-hand side, compositionally -/
section
variable {ι K : Type} [Field K]

/-- the scalar formula of ONE cell in which operator calls are answered by an oracle: at a call
`f(a)` for which `opval f a` answers, the answer is taken (the argument is not entered: the call
is a MAXIMAL operator call of the formula); everything else is C11's scalar evaluation -/
def evalWithCalls (T : FunTab K) (opval : String → Expr → Option K) (env : Env K) : Expr → K
  | .num q => (q : K)
  | .var x => env.sc x
  | .idx x i => env.ix x i
  | .named c => T.f0 c
  | .neg a => - evalWithCalls T opval env a
  | .add a b => evalWithCalls T opval env a + evalWithCalls T opval env b
  | .sub a b => evalWithCalls T opval env a - evalWithCalls T opval env b
  | .mul a b => evalWithCalls T opval env a * evalWithCalls T opval env b
  | .div a b => evalWithCalls T opval env a / evalWithCalls T opval env b
  | .powI a n => evalWithCalls T opval env a ^ n
  | .call1 f a => match opval f a with
    | some v => v
    | none => T.f1 f (evalWithCalls T opval env a)
  | .call2 f a b => T.f2 f (evalWithCalls T opval env a) (evalWithCalls T opval env b)
  | .heav1 a => T.heav (evalWithCalls T opval env a) ((1 / 2 : Rat) : K)
  | .heav2 a h => T.heav (evalWithCalls T opval env a) (evalWithCalls T opval env h)
  | .cmp op a b => T.cmp op (evalWithCalls T opval env a) (evalWithCalls T opval env b)

/-- **rhs_value_compositional**: for EVERY right-hand side (constants, coordinates, the time,
several fields, operators anywhere, nested), the value in cell `i` is the scalar formula of cell
`i` - fields read at the cell, constants and the time as numbers - in which every maximal
operator call `name(arg)` is replaced by the selected operator instance applied to the value of
`arg` AS A WHOLE FIELD, read at cell `i`.  Generalises `rhsValueF_operator_free` (no operator)
and `rhsValueF_operator` (operator at the root) to all expressions. -/
theorem rhsValueF_compositional (T : FunTab K) (look : String → Option (Op ι K))
    (vars : List (String × St ι K)) (scalars : List (String × K)) (e : Expr) (i : ι) :
    rhsValueF T look vars scalars e i =
      evalWithCalls T (fun f a => (look f).map (fun L => L (rhsValueF T look vars scalars a) i))
        (cellEnv vars scalars i) e := by
  induction e with
  | num q => simp [rhsValueF, eval, evalWithCalls]
  | var x => simp [rhsValueF, eval, evalWithCalls, fieldEnvS_eq_liftEnv, liftEnv]
  | idx x k => simp [rhsValueF, eval, evalWithCalls, fieldEnvS_eq_liftEnv, liftEnv]
  | named c => simp [rhsValueF, eval, evalWithCalls]
  | neg a iha | powI a n iha | heav1 a iha =>
    simp only [rhsValueF] at iha ⊢
    simp [eval, evalWithCalls, ← iha]
  | add a b iha ihb | sub a b iha ihb | mul a b iha ihb | div a b iha ihb
  | call2 f a b iha ihb | heav2 a b iha ihb | cmp op a b iha ihb =>
    simp only [rhsValueF] at iha ihb ⊢
    simp [eval, evalWithCalls, ← iha, ← ihb]
  | call1 f a iha =>
    cases hl : look f with
    | some L =>
      rw [rhsValueF_operator T look vars scalars f a L hl]
      simp [evalWithCalls, hl]
    | none =>
      simp only [rhsValueF] at iha ⊢
      simp [eval, evalWithCalls, hl, opsTabF_f1_none T look f _ hl, ← iha]

/-- the same for the equation of `var` of the generic `PDE` at time `t` -/
theorem rhsValuePdeAt_compositional (T : FunTab K) (keys : List (String × String))
    (table : K → OpTable ι K) (var : String) (vars : List (String × St ι K))
    (consts : List (String × K)) (t : K) (e : Expr) (i : ι) :
    rhsValuePdeAt T keys table var vars consts t e i =
      evalWithCalls T (fun f a => (pdeOp keys (table t) var f).map
          (fun L => L (rhsValuePdeAt T keys table var vars consts t a) i))
        (cellEnv vars (consts ++ [("t", t)]) i) e :=
  rhsValueF_compositional T _ vars _ e i

/-- an oracle that never answers: `evalWithCalls` is C11's `eval` -/
theorem evalWithCalls_no_calls (T : FunTab K) (env : Env K) (e : Expr) :
    evalWithCalls T (fun _ _ => none) env e = eval T env e := by
  induction e with
  | num q => simp [eval, evalWithCalls]
  | var x => simp [eval, evalWithCalls]
  | idx x k => simp [eval, evalWithCalls]
  | named c => simp [eval, evalWithCalls]
  | neg a iha | powI a n iha | heav1 a iha | call1 f a iha => simp [eval, evalWithCalls, iha]
  | add a b iha ihb | sub a b iha ihb | mul a b iha ihb | div a b iha ihb
  | call2 f a b iha ihb | heav2 a b iha ihb | cmp op a b iha ihb =>
    simp [eval, evalWithCalls, iha, ihb]

/-- two fields, a constant, a coordinate and an operator inside a product:
`k * x * laplace(u) * v + u` in cell `i` is `k x_i (L u)_i v_i + u_i` -/
theorem rhsValueF_multi_field_instance (T : FunTab K) (L : Op ι K) (u v x : St ι K) (k : K) (i : ι) :
    rhsValueF T (fun f => if f = "laplace" then some L else none)
        [("u", u), ("v", v), ("x", x)] [("k", k)]
        (.add (.mul (.mul (.mul (.var "k") (.var "x")) (.call1 "laplace" (.var "u"))) (.var "v"))
          (.var "u")) i =
      k * x i * L u i * v i + u i := by
  rw [rhsValueF_compositional]
  have hu : rhsValueF T (fun f => if f = "laplace" then some L else none)
      [("u", u), ("v", v), ("x", x)] [("k", k)] (.var "u") = u := by
    funext j; simp [rhsValueF, eval, fieldEnvS, List.lookup]
  simp [evalWithCalls, cellEnv, List.lookup, hu]

end

/-! ### multi-field right-hand sides: an equation sees only what it mentions -/
section
variable {ι K : Type} [Field K]

/-- an equation sees only the fields, coordinates and constants whose names occur in it: two
environments that agree, cell by cell, on the symbols of the right-hand side give the same
value (the other fields of a multi-field `PDE` and unused constants do not matter) -/
theorem rhsValueF_env_congr (T : FunTab K) (look : String → Option (Op ι K))
    (vars vars' : List (String × St ι K)) (scalars scalars' : List (String × K)) (e : Expr)
    (h : ∀ s ∈ symbols e, ∀ i, (cellEnv vars scalars i).sc s = (cellEnv vars' scalars' i).sc s) :
    rhsValueF T look vars scalars e = rhsValueF T look vars' scalars' e := by
  unfold rhsValueF
  congr 1
  apply eval_env_congr
  intro s hs
  rw [fieldEnvS_eq_liftEnv, fieldEnvS_eq_liftEnv]
  constructor
  · simp only [liftEnv]
    congr 1
    funext i
    exact h s hs i
  · rfl

/-- adding a field that the equation does not mention changes nothing -/
theorem rhsValueF_unused_field (T : FunTab K) (look : String → Option (Op ι K))
    (vars : List (String × St ι K)) (scalars : List (String × K)) (e : Expr) (name : String)
    (w : St ι K) (hn : name ∉ symbols e) :
    rhsValueF T look ((name, w) :: vars) scalars e = rhsValueF T look vars scalars e := by
  apply rhsValueF_env_congr
  intro s hs i
  have hne : s ≠ name := fun h => hn (h ▸ hs)
  have hb : (s == name) = false := by simpa using hne
  simp [cellEnv, List.lookup, hb]

end

/-! ### the grouped-text deviation and the time -/
section
variable {ι K : Type} [Field K] [CharZero K]

/-- the grouped-text finding at every time: with a time-dependent affine operator
`L(t) = A(t) + b(t)` the grouped Kuramoto-Sivashinsky / Swift-Hohenberg texts exceed the class
rates AT TIME `t` by `ν b(t)` / `2 kc2 b(t)` - the deviation follows the time dependence of the
boundary condition -/
theorem grouped_text_vs_split_class_gap_at (T : FunTab K) (A : TOp ι K) (b : K → St ι K)
    (g : TOp ι K) (t : K) (hA : IsLinearOp (A t)) (c : St ι K) (i : ι) :
    (∀ ν : Rat, rhsValueAt T (fun s => affine (A s) (b s)) g [("c", c)] t (ksExpr (Fac.exact ν)) i =
      ksRateAt (ν : K) (fun s => affine (A s) (b s)) (fun s => affine (A s) (b s)) g t c i
        + (ν : K) * b t i) ∧
    (∀ (ε kc2 : K) (a δ k2 : Rat), (a : K) = ε - kc2 ^ 2 → (k2 : K) = 2 * kc2 →
      rhsValueAt T (fun s => affine (A s) (b s)) g [("c", c)] t
          (swiftHohenbergExpr (Fac.exact a) (Fac.exact δ) (Fac.exact k2)) i =
        swiftHohenbergRateAt ε kc2 (δ : K) (fun s => affine (A s) (b s)) (fun s => affine (A s) (b s)) t c i
          + 2 * kc2 * b t i) := by
  have z : Fac := Fac.exact 0
  refine ⟨fun ν => ?_, fun ε kc2 a δ k2 ha hk => ?_⟩
  · rw [rhsValueAt_eq_frozen _ _ _ _ _ _ (t_notin_class_texts z z z (Fac.exact ν) z z z z z z true).2.2.2.2.1]
    exact ks_grouped_text_vs_split_class_gap T ν hA (b t) (g t) c i
  · rw [rhsValueAt_eq_frozen _ _ _ _ _ _
      (t_notin_class_texts z z z z z (Fac.exact a) (Fac.exact δ) (Fac.exact k2) z z true).2.2.2.2.2.2.1]
    exact swiftHohenberg_grouped_text_vs_split_class_gap T ε kc2 a δ k2 ha hk hA (b t) (g t) c i

/-- where the time enters a class rate: through the offset of the operator of that time only
(diffusion with `L(t) = A + b(t)`, time-independent linear part) -/
theorem diffusionRateAt_time_dependence (D : K) (A : Op ι K) (b : K → St ι K) (t t' : K)
    (c : St ι K) (i : ι) :
    diffusionRateAt D (fun s => affine A (b s)) t c i - diffusionRateAt D (fun s => affine A (b s)) t' c i =
      D * (b t i - b t' i) := by
  simp only [diffusionRateAt, diffusionRate, affine]; ring

end

/-! ### C10.2 `sumSquares` and the `{"values"}` operator -/
section
variable {ι K : Type} [Field K]

@[simp] theorem constOp_apply (v x : St ι K) : constOp v x = v := rfl

/-- `{"values": v}` under an operator name: the call denotes `v` whatever the argument is -/
theorem rhsValueF_constOp (T : FunTab K) (look : String → Option (Op ι K))
    (vars : List (String × St ι K)) (scalars : List (String × K)) (f : String) (a : Expr)
    (v : St ι K) (h : look f = some (constOp v)) :
    rhsValueF T look vars scalars (.call1 f a) = v := by
  rw [rhsValueF_operator T look vars scalars f a _ h]; rfl

/-- **values_operator_sound**: a class rate that applies its operators to the STATE ITSELF only
is unchanged when an operator is replaced by the `{"values"}` operator holding that operator's
result for the state (KPZ: both operators; likewise diffusion, Allen-Cahn, wave, Klein-Gordon) -/
theorem values_operator_sound (D γ mob ν lam speed mass : K) (lap g : Op ι K) (c u v : St ι K) :
    diffusionRate D (constOp (lap c)) c = diffusionRate D lap c ∧
    allenCahnRate γ mob (constOp (lap c)) c = allenCahnRate γ mob lap c ∧
    kpzRate ν lam (constOp (lap c)) (constOp (g c)) c = kpzRate ν lam lap g c ∧
    kpzRate ν lam lap (constOp (g c)) c = kpzRate ν lam lap g c ∧
    waveRate speed (constOp (lap u)) u v = waveRate speed lap u v ∧
    kleinGordonRate speed mass (constOp (lap u)) u v = kleinGordonRate speed mass lap u v :=
  ⟨rfl, rfl, rfl, rfl, rfl, rfl⟩

/-- ... and for the classes with a NESTED operator only the operators applied to the state may
be replaced: Kuramoto-Sivashinsky `gradient_squared`, not the outer Laplacian -/
theorem values_operator_sound_ks (ν : K) (lap lap2 g : Op ι K) (c : St ι K) :
    ksRate ν lap lap2 (constOp (g c)) c = ksRate ν lap lap2 g c := rfl

/-- the INNER operator of the classes with nested operators is applied to the state itself and
may be replaced by its measured values as well -/
theorem values_operator_sound_inner (γ ν ε kc2 δ : K) (lap lap2 g : Op ι K) (c : St ι K) :
    cahnHilliardRate γ (constOp (lap c)) lap2 c = cahnHilliardRate γ lap lap2 c ∧
    ksRate ν (constOp (lap c)) lap2 g c = ksRate ν lap lap2 g c ∧
    swiftHohenbergRate ε kc2 δ (constOp (lap c)) lap2 c = swiftHohenbergRate ε kc2 δ lap lap2 c :=
  ⟨rfl, rfl, rfl⟩

end

section
variable {K : Type} [Field K] [LinearOrder K] [IsStrictOrderedRing K]

/-- `gradient_squared` as the model builds it is non-negative in every cell -/
theorem sumSquares_nonneg (comps : List (Op Nat K)) (x : St Nat K) (i : Nat) :
    0 ≤ sumSquares comps x i := by
  rw [sumSquares_eq_sum]
  induction comps with
  | nil => simp
  | cons g l ih =>
    simp only [List.map_cons, List.sum_cons]
    exact add_nonneg (sq_nonneg _) ih

/-- ... and vanishes in a cell exactly when every component vanishes there -/
theorem sumSquares_eq_zero_iff (comps : List (Op Nat K)) (x : St Nat K) (i : Nat) :
    sumSquares comps x i = 0 ↔ ∀ g ∈ comps, g x i = 0 := by
  rw [sumSquares_eq_sum]
  induction comps with
  | nil => simp
  | cons g l ih =>
    have hl : 0 ≤ (l.map (fun g => g x i ^ 2)).sum := by
      rw [← sumSquares_eq_sum]; exact sumSquares_nonneg l x i
    simp only [List.map_cons, List.sum_cons, List.mem_cons, forall_eq_or_imp]
    constructor
    · intro h
      have h1 : g x i ^ 2 = 0 := by nlinarith [sq_nonneg (g x i)]
      refine ⟨by simpa using h1, ih.1 (by nlinarith [sq_nonneg (g x i)])⟩
    · rintro ⟨h1, h2⟩
      rw [h1, ih.2 h2]; simp

end

section
variable {K : Type} [Field K] [CharZero K]

/-- with homogeneous conditions (linear components) `gradient_squared` is homogeneous of degree
two: `|∇(a c)|² = a² |∇c|²`; with an offset it is not (see the example) -/
theorem sumSquares_homogeneous (comps : List (Op Nat K)) (hlin : ∀ g ∈ comps, IsLinearOp g)
    (a : K) (x : St Nat K) (i : Nat) :
    sumSquares comps (fun j => a * x j) i = a ^ 2 * sumSquares comps x i := by
  rw [sumSquares_eq_sum, sumSquares_eq_sum]
  induction comps with
  | nil => simp
  | cons g l ih =>
    simp only [List.map_cons, List.sum_cons]
    rw [ih (fun g hg => hlin g (List.mem_cons_of_mem _ hg))]
    have := congrFun ((hlin g (List.mem_cons_self ..)).smul a x) i
    rw [this]; ring

end

/-! ### the driver's time-dependent objects; non-vacuity over ℚ -/
section
variable {K : Type} [BEq K] [LawfulBEq K]

/-- `sampled` (how the driver builds a time-dependent operator / table from the measurements of
a case) returns at a sampled time the object measured at that time -/
theorem sampled_head {α : Type} (t : K) (x : α) (rest : List (K × α)) (d : α) :
    sampled ((t, x) :: rest) d t = x := by
  simp [sampled, List.lookup]

theorem sampled_second {α : Type} (t t' : K) (x y : α) (rest : List (K × α)) (d : α)
    (h : t' ≠ t) : sampled ((t, x) :: (t', y) :: rest) d t' = y := by
  have hb : (t' == t) = false := by simpa using h
  simp [sampled, List.lookup, hb]

end

section

/-- a 2-cell Laplacian whose Dirichlet-type offset grows with the time: `b(t) = (3t, 3t)` -/
def exLapT : TOp Nat ℚ := fun t => affineOp 2 exA (fun _ => 3 * t)
/-- the operator table of a `PDE` with this operator under the default condition -/
def exTableT : ℚ → OpTable Nat ℚ := fun t => [("laplace", "laplace", [some (exLapT t)])]

/-- the operator really depends on the time -/
example : exLapT 1 exC 0 ≠ exLapT 2 exC 0 := by
  simp [exLapT, affineOp, exA, exC, List.range, List.range.loop]

/-- the hypotheses of `rhsValuePdeAt_laplace_plus_time_term` hold for this table at `t = 2`:
`laplace(c) + sin(t) c` is the operator OF TIME 2 plus `sin 2 * c` -/
example : rhsValuePdeAt (algTab : FunTab ℚ) [] exTableT "c" [("c", exC)] [("k", 5)] 2
      (.add (.call1 "laplace" (.var "c")) (.mul (.call1 "sin" (.var "t")) (.var "c"))) 0 =
    exLapT 2 exC 0 + (algTab : FunTab ℚ).f1 "sin" 2 * exC 0 :=
  rhsValuePdeAt_laplace_plus_time_term _ [] exTableT [some (exLapT 2)] (exLapT 2) exC [("k", 5)] 2 0
    (by simp [exTableT]) (by simp [bcIndex]) (by simp [pdeOp, exTableT, List.lookup])
    (by simp [List.lookup])

/-- Diffusion at every time with this operator (an instance of `class_rate_eq_expression_at`),
and the two times give different rates -/
example (t : ℚ) : rhsValueAt (algTab : FunTab ℚ) exLapT (fun _ _ _ => 0) [("c", exC)] t
    (diffusionExpr (Fac.exact 2)) = diffusionRateAt 2 exLapT t exC := by
  have h := (class_rate_eq_expression_at (algTab : FunTab ℚ) exLapT (fun _ _ _ => 0) t exC exC exC).1 2
  simpa using h

example : diffusionRateAt 2 exLapT 1 exC 0 ≠ diffusionRateAt 2 exLapT 2 exC 0 := by
  simp [diffusionRateAt, diffusionRate, exLapT, affineOp, exA, exC, List.range, List.range.loop]

/-- the grouped Kuramoto-Sivashinsky text with the time-dependent operator `A + 3t`: at every
time `t` it exceeds the class rate by `ν b(t) = 3t/2` (instance of
`grouped_text_vs_split_class_gap_at`, hypothesis: the linear part is linear) -/
example (t : ℚ) :
    rhsValueAt (algTab : FunTab ℚ) (fun s => affine (affineOp 2 exA (fun _ => 0)) (fun _ => 3 * s))
        (fun _ _ _ => 0) [("c", exC)] t (ksExpr (Fac.exact (1/2))) 0 =
      ksRateAt (1/2 : ℚ) (fun s => affine (affineOp 2 exA (fun _ => 0)) (fun _ => 3 * s))
        (fun s => affine (affineOp 2 exA (fun _ => 0)) (fun _ => 3 * s)) (fun _ _ _ => 0) t exC 0
        + 3 * t / 2 := by
  have h := (grouped_text_vs_split_class_gap_at (algTab : FunTab ℚ) (fun _ => affineOp 2 exA (fun _ => 0))
    (fun s _ => 3 * s) (fun _ _ _ => 0) t (affineOp_is_affine 2 exA (fun _ => (0 : ℚ))).2 exC 0).1 (1/2)
  rw [h]; push_cast; ring

/-- the equation of `u` in a two-field `PDE` does not see the field `v` -/
example (T : FunTab ℚ) (L : Op Nat ℚ) (u v : St Nat ℚ) :
    rhsValueF T (fun f => if f = "laplace" then some L else none) [("v", v), ("u", u)] []
        (.call1 "laplace" (.var "u")) =
      rhsValueF T (fun f => if f = "laplace" then some L else none) [("u", u)] []
        (.call1 "laplace" (.var "u")) :=
  rhsValueF_unused_field T _ _ _ _ "v" v (by simp [symbols])

/-- ... but NOT the outer one: it is applied to a derived field (`mu`, `laplace(c)`), so the values
measured for the state are the wrong field (Cahn-Hilliard with the 2-cell operator `exA x + 3`) -/
theorem values_operator_not_sound_outer :
    cahnHilliardRate (1 : ℚ) (affineOp 2 exA exB) (constOp (affineOp 2 exA exB exC)) exC 0 ≠
      cahnHilliardRate (1 : ℚ) (affineOp 2 exA exB) (affineOp 2 exA exB) exC 0 := by
  simp [cahnHilliardRate, cahnHilliardMu, constOp, affineOp, exA, exB, exC, List.range, List.range.loop]
  norm_num

/-- with an offset `gradient_squared` is not homogeneous of degree two (the hypothesis of
`sumSquares_homogeneous` is needed) -/
example : sumSquares [affineOp 2 exA exB] (fun j => 2 * exC j) 0 ≠
    2 ^ 2 * sumSquares [affineOp 2 exA exB] exC 0 := by
  simp [sumSquares, affineOp, exA, exB, exC, List.range, List.range.loop, zero]
  norm_num

/-- ... and it holds for the linear part (a concrete list of linear components) -/
example : ∀ g ∈ [affineOp 2 exA (fun _ => (0 : ℚ))], IsLinearOp g := by
  intro g hg
  simp only [List.mem_singleton] at hg
  subst hg
  exact (affineOp_is_affine 2 exA (fun _ => (0 : ℚ))).2

end

section
variable {K : Type} [BEq K] [LawfulBEq K]

/-- the driver's time-dependent objects in general: for pairwise distinct times, `sampled` of the
zipped measurements returns at the `k`-th time the `k`-th measurement (so every timed answer of
`c10.rate_t` / `c10.text_t` / `c10.rhs_t` is the frozen-time definition at the operators measured
at that time) -/
theorem sampled_zip_getElem {α : Type} (times : List K) (xs : List α) (d : α)
    (hnd : times.Nodup) (k : Nat) (hk : k < times.length) (hx : k < xs.length) :
    sampled (times.zip xs) d times[k] = xs[k] := by
  induction times generalizing xs k with
  | nil => simp at hk
  | cons t ts ih =>
    cases xs with
    | nil => simp at hx
    | cons x xs =>
      cases k with
      | zero => simp [sampled]
      | succ k =>
        have hne : ts[k]'(by simpa using hk) ≠ t := by
          intro h
          have : t ∈ ts := h ▸ List.getElem_mem _
          exact (List.nodup_cons.1 hnd).1 this
        have hb : (ts[k]'(by simpa using hk) == t) = false := by simpa using hne
        have := ih xs (List.nodup_cons.1 hnd).2 k (by simpa using hk) (by simpa using hx)
        simp only [sampled] at this ⊢
        simpa [List.lookup, hb] using this

end

section
variable {ι K : Type} [Field K] [BEq K] [LawfulBEq K]

/-- what `c10.rate_t` returns for the diffusion class at the `k`-th time -/
theorem diffusionRateAt_sampled (D : K) (times : List K) (laps : List (Op ι K)) (d : Op ι K)
    (hnd : times.Nodup) (k : Nat) (hk : k < times.length) (hx : k < laps.length) (c : St ι K) :
    diffusionRateAt D (sampled (times.zip laps) d) times[k] c = diffusionRate D laps[k] c := by
  unfold diffusionRateAt
  rw [sampled_zip_getElem times laps d hnd k hk hx]

end

example : sampled ([(1 : ℚ), 2].zip ["a", "b"]) "-" 2 = "b" :=
  sampled_zip_getElem [(1 : ℚ), 2] ["a", "b"] "-" (by decide) 1 (by decide) (by decide)

end PdeVerif.PDEs
