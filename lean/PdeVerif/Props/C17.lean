import PdeVerif.Model.Mesh
import PdeVerif.Lemmas.Mesh
import PdeVerif.Lemmas.MeshNd
import PdeVerif.Lemmas.Basic
/-
C17 - splitting a grid into sub-grids changes nothing.

Theorems about `PdeVerif.Mesh` (model of `pde/grids/_mesh.py`).  The chunk sizes along an axis
are an arbitrary list meeting the contract (positive entries, right sum); the reference formula
`subdivide` is shown to meet it.
-/
namespace PdeVerif.Mesh.C17
open PdeVerif PdeVerif.Mesh

/-! ## the reference formula meets the contract -/

/-- the reference chunk sizes add up to the number of cells -/
theorem subdivide_sum (num chunks : Nat) (hc : 0 < chunks) : (subdivide num chunks).sum = num := by
  unfold subdivide
  rw [subdivide_prefix_sum]
  unfold cut
  exact Nat.mul_div_cancel_left num hc

/-- every reference chunk is non-empty as long as there are at most as many chunks as cells -/
theorem subdivide_pos (num chunks : Nat) (hc : 0 < chunks) (h : chunks ≤ num) :
    ∀ s ∈ subdivide num chunks, 0 < s := by
  intro s hs
  simp only [subdivide, List.mem_map, List.mem_range] at hs
  obtain ⟨i, _, rfl⟩ := hs
  have h1 := (cut_step num chunks i hc).1
  have h2 : 0 < num / chunks := Nat.div_pos h hc
  omega

/-- reference chunk sizes differ by at most one -/
theorem subdivide_balanced (num chunks : Nat) (hc : 0 < chunks) :
    ∀ a ∈ subdivide num chunks, ∀ b ∈ subdivide num chunks, a ≤ b + 1 := by
  intro a ha b hb
  simp only [subdivide, List.mem_map, List.mem_range] at ha hb
  obtain ⟨i, _, rfl⟩ := ha
  obtain ⟨j, _, rfl⟩ := hb
  have h1 := cut_step num chunks i hc
  have h2 := cut_step num chunks j hc
  omega

/-- the reference formula meets the contract exactly when `_subdivide` does not raise -/
theorem subdivide_contract (num chunks : Nat) (hc : 0 < chunks) (h : chunks ≤ num) :
    Contract (subdivide num chunks) num :=
  ⟨subdivide_pos num chunks hc h, subdivide_sum num chunks hc⟩

/-- `contractB` decides `Contract` (the driver evaluates `contractB` on the real chunk sizes) -/
theorem contractB_iff (sizes : List Nat) (num : Nat) : contractB sizes num = true ↔ Contract sizes num := by
  simp [contractB, Contract]

/-! ## one axis: slices tile the axis -/

/-- without ghost cells the slices of the chunks are a disjoint cover of the cells `0..num-1` -/
theorem slices_tile (sizes : List Nat) (num : Nat) (hsum : sizes.sum = num) (g : Nat) (hg : g < num) :
    ∃! i, i < sizes.length ∧ (sliceAt false sizes i).1 ≤ g ∧ g < (sliceAt false sizes i).2 := by
  subst hsum
  obtain ⟨h1, h2, h3⟩ := chunkOf_spec sizes g hg
  refine ⟨chunkOf sizes g, ⟨h1, ?_, ?_⟩, ?_⟩
  · rw [sliceAt_eq false sizes _ h1]; exact h2
  · rw [sliceAt_eq false sizes _ h1]; simpa [gadd] using h3
  · rintro j ⟨hj, a, b⟩
    rw [sliceAt_eq false sizes _ hj] at a b
    simp only [gadd, Bool.false_eq_true, if_false, Nat.add_zero] at a b
    exact chunk_unique sizes ⟨a, b⟩ ⟨h2, h3⟩


/-! ## any number of axes -/

theorem id2idx_inRange (m : Mesh) {id : Nat} (h : id < m.len) : InRange (m.id2idx id) m.dec :=
  unravel_inRange m.dec id h

/-- `_idx2id` and `_id2idx` are inverse bijections between `0..len-1` and the valid node indices -/
theorem id_idx_bijection (m : Mesh) :
    (∀ id, id < m.len → InRange (m.id2idx id) m.dec ∧ m.idx2id (m.id2idx id) = id) ∧
    (∀ idx, InRange idx m.dec → m.idx2id idx < m.len ∧ m.id2idx (m.idx2id idx) = idx) :=
  ⟨fun id h => ⟨unravel_inRange m.dec id h, ravel_unravel m.dec id h⟩,
   fun _ h => ⟨ravel_lt h, unravel_ravel h⟩⟩

/-- the boxes cover the base array: every position of the array (with or without ghost cells)
lies in the box of some node -/
theorem boxes_cover (m : Mesh) (hm : m.Pos) (ghost : Bool) (g : List Nat) (hg : InRange g (m.arrShape ghost)) :
    ∃ id, id < m.len ∧ inBox (m.box ghost id) g = true := by
  obtain ⟨idx, h1, h2⟩ := exists_box ghost m.axes hm g hg
  refine ⟨m.idx2id idx, ravel_lt h1, ?_⟩
  unfold Mesh.box Mesh.id2idx Mesh.idx2id Mesh.dec
  rw [unravel_ravel h1]; exact h2

/-- without ghost cells the boxes are pairwise disjoint -/
theorem boxes_disjoint (m : Mesh) {a b : Nat} (ha : a < m.len) (hb : b < m.len) (g : List Nat)
    (h1 : inBox (m.box false a) g = true) (h2 : inBox (m.box false b) g = true) : a = b :=
  unravel_injective m.dec ha hb
    (box_unique m.axes _ _ g (unravel_inRange m.dec a ha) (unravel_inRange m.dec b hb) h1 h2)

/-- any rank: the boxes without ghost cells are a disjoint cover of the base grid -/
theorem slices_tile_nd (m : Mesh) (g : List Nat) (hg : InRange g m.shape) :
    ∃! id, id < m.len ∧ inBox (m.box false id) g = true := by
  -- positivity of the axes follows from `g` being in range
  have hg' : InRange g (m.arrShape false) := by simpa [Mesh.arrShape, gadd] using hg
  have hpos : m.Pos := pos_of_inRange m.axes g hg
  obtain ⟨id, h1, h2⟩ := boxes_cover m hpos false g hg'
  exact ⟨id, ⟨h1, h2⟩, fun j ⟨hj1, hj2⟩ => boxes_disjoint m hj1 h1 g hj2 h2⟩

/-- the boxes stay inside the base array -/
theorem box_in_array (m : Mesh) (ghost : Bool) {id : Nat} (h : id < m.len) (g : List Nat)
    (hb : inBox (m.box ghost id) g = true) : InRange g (m.arrShape ghost) :=
  inRange_of_inBox ghost m.axes _ g (unravel_inRange m.dec id h) hb

/-! ### combine and extract -/

theorem combineUpTo_succ {α : Type} (m : Mesh) (ghost : Bool) (subs : Nat → List Nat → α) (n : Nat) (g : List Nat) :
    m.combineUpTo ghost subs (n + 1) g
      = if inBox (m.box ghost n) g then some (subs n (vsub g (starts (m.box ghost n))))
        else m.combineUpTo ghost subs n g := by
  simp [Mesh.combineUpTo, List.range_succ, List.foldl_append, writeBox]

/-- what `combine_field_data` leaves at position `g`: the value of the *last* node (highest id)
whose box contains `g`, or nothing (`np.empty` content) if no box contains it -/
theorem combineUpTo_spec {α : Type} (m : Mesh) (ghost : Bool) (subs : Nat → List Nat → α) (n : Nat) (g : List Nat) :
    (∃ i, i < n ∧ inBox (m.box ghost i) g = true ∧
        m.combineUpTo ghost subs n g = some (subs i (vsub g (starts (m.box ghost i)))) ∧
        ∀ j, i < j → j < n → inBox (m.box ghost j) g = false) ∨
    ((∀ i, i < n → inBox (m.box ghost i) g = false) ∧ m.combineUpTo ghost subs n g = none) := by
  induction n with
  | zero => right; simp [Mesh.combineUpTo]
  | succ n ih =>
    rw [combineUpTo_succ]
    by_cases hb : inBox (m.box ghost n) g = true
    · left
      refine ⟨n, Nat.lt_succ_self n, hb, by simp [hb], ?_⟩
      intro j h1 h2; omega
    · have hb' : inBox (m.box ghost n) g = false := by simpa using hb
      rcases ih with ⟨i, h1, h2, h3, h4⟩ | ⟨h1, h2⟩
      · left
        refine ⟨i, Nat.lt_succ_of_lt h1, h2, by simp [hb', h3], ?_⟩
        intro j hj1 hj2
        rcases Nat.lt_succ_iff_lt_or_eq.1 hj2 with hj | rfl
        · exact h4 j hj1 hj
        · exact hb'
      · right
        refine ⟨?_, by simp [hb', h2]⟩
        intro i hi
        rcases Nat.lt_succ_iff_lt_or_eq.1 hi with hi | rfl
        · exact h1 i hi
        · exact hb'

/-- **combine ∘ extract = id**, any rank, with and without ghost cells: splitting an array onto
the sub-grids and combining the pieces gives back every entry of the array (and leaves no entry
unwritten) -/
theorem combine_extract_id {α : Type} (m : Mesh) (hm : m.Pos) (ghost : Bool) (data : Arr α)
    (g : List Nat) (hg : InRange g (m.arrShape ghost)) :
    m.combine ghost (fun id => (m.extract ghost data id).get) g = some (data.get g) := by
  obtain ⟨id, hid, hb⟩ := boxes_cover m hm ghost g hg
  rcases combineUpTo_spec m ghost (fun id => (m.extract ghost data id).get) m.len g with ⟨i, _, h2, h3, _⟩ | ⟨h1, _⟩
  · unfold Mesh.combine
    rw [h3]
    simp only [Mesh.extract, Arr.slice, vadd_vsub_of_inBox h2]
  · rw [h1 id hid] at hb; exact absurd hb (by simp)

/-- **extract ∘ combine = id** without ghost cells, any rank, for arbitrary sub-arrays: entry `p`
of the sub-array of node `id` is found at the corresponding position of the combined array -/
theorem extract_combine_id {α : Type} (m : Mesh) (subs : Nat → List Nat → α) {id : Nat} (hid : id < m.len)
    (p : List Nat) (hp : InRange p (m.subShape id)) :
    m.combine false subs (vadd (starts (m.box false id)) p) = some (subs id p) := by
  have hidx := unravel_inRange m.dec id hid
  have hp' : InRange p ((subShapeOf m.axes (m.id2idx id)).map (· + gadd false)) := by
    simpa [gadd, Mesh.subShape] using hp
  have hb : inBox (m.box false id) (vadd (starts (m.box false id)) p) = true :=
    inBox_vadd false m.axes _ p hidx hp'
  rcases combineUpTo_spec m false subs m.len (vadd (starts (m.box false id)) p) with ⟨i, h1, h2, h3, _⟩ | ⟨h1, _⟩
  · have e : i = id := boxes_disjoint m h1 hid _ h2 hb
    subst e
    unfold Mesh.combine
    rw [h3, vsub_vadd_cancel]
    rw [starts_length, Mesh.box_length, InRange.length_eq hp, Mesh.subShape_length]
  · rw [h1 id hid] at hb; exact absurd hb (by simp)

end PdeVerif.Mesh.C17
