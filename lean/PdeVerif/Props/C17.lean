import PdeVerif.Model.Mesh
import PdeVerif.Lemmas.Mesh
import PdeVerif.Lemmas.Basic
/-
C17 - splitting a grid into sub-grids changes nothing.

Theorems about `PdeVerif.Mesh` (model of `pde/grids/_mesh.py`).  The chunk sizes along an axis
are an arbitrary list meeting the contract (positive entries, right sum); the reference formula
`subdivide` is shown to meet it.
-/
namespace PdeVerif.Mesh.C17
open PdeVerif PdeVerif.Mesh

/-! ## the reference formula meets the contract -/

/-- the reference chunk sizes add up to the number of cells -/
theorem subdivide_sum (num chunks : Nat) (hc : 0 < chunks) : (subdivide num chunks).sum = num := by
  unfold subdivide
  rw [subdivide_prefix_sum]
  unfold cut
  exact Nat.mul_div_cancel_left num hc

/-- every reference chunk is non-empty as long as there are at most as many chunks as cells -/
theorem subdivide_pos (num chunks : Nat) (hc : 0 < chunks) (h : chunks ≤ num) :
    ∀ s ∈ subdivide num chunks, 0 < s := by
  intro s hs
  simp only [subdivide, List.mem_map, List.mem_range] at hs
  obtain ⟨i, _, rfl⟩ := hs
  have h1 := (cut_step num chunks i hc).1
  have h2 : 0 < num / chunks := Nat.div_pos h hc
  omega

/-- reference chunk sizes differ by at most one -/
theorem subdivide_balanced (num chunks : Nat) (hc : 0 < chunks) :
    ∀ a ∈ subdivide num chunks, ∀ b ∈ subdivide num chunks, a ≤ b + 1 := by
  intro a ha b hb
  simp only [subdivide, List.mem_map, List.mem_range] at ha hb
  obtain ⟨i, _, rfl⟩ := ha
  obtain ⟨j, _, rfl⟩ := hb
  have h1 := cut_step num chunks i hc
  have h2 := cut_step num chunks j hc
  omega

/-- the reference formula meets the contract exactly when `_subdivide` does not raise -/
theorem subdivide_contract (num chunks : Nat) (hc : 0 < chunks) (h : chunks ≤ num) :
    Contract (subdivide num chunks) num :=
  ⟨subdivide_pos num chunks hc h, subdivide_sum num chunks hc⟩

/-- `contractB` decides `Contract` (the driver evaluates `contractB` on the real chunk sizes) -/
theorem contractB_iff (sizes : List Nat) (num : Nat) : contractB sizes num = true ↔ Contract sizes num := by
  simp [contractB, Contract]

/-! ## one axis: slices tile the axis -/

/-- without ghost cells the slices of the chunks are a disjoint cover of the cells `0..num-1` -/
theorem slices_tile (sizes : List Nat) (num : Nat) (hsum : sizes.sum = num) (g : Nat) (hg : g < num) :
    ∃! i, i < sizes.length ∧ (sliceAt false sizes i).1 ≤ g ∧ g < (sliceAt false sizes i).2 := by
  subst hsum
  obtain ⟨h1, h2, h3⟩ := chunkOf_spec sizes g hg
  refine ⟨chunkOf sizes g, ⟨h1, ?_, ?_⟩, ?_⟩
  · rw [sliceAt_eq false sizes _ h1]; exact h2
  · rw [sliceAt_eq false sizes _ h1]; simpa [gadd] using h3
  · rintro j ⟨hj, a, b⟩
    rw [sliceAt_eq false sizes _ hj] at a b
    simp only [gadd, Bool.false_eq_true, if_false, Nat.add_zero] at a b
    exact chunk_unique sizes ⟨a, b⟩ ⟨h2, h3⟩

end PdeVerif.Mesh.C17
