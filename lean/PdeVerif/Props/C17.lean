import PdeVerif.Model.Mesh
import PdeVerif.Lemmas.Mesh
import PdeVerif.Lemmas.MeshNd
import PdeVerif.Lemmas.MeshGeom
import PdeVerif.Lemmas.MeshExch
import PdeVerif.Lemmas.Basic
import Mathlib.Algebra.BigOperators.Ring.List
/-
C17 - splitting a grid into sub-grids changes nothing.

Theorems about `PdeVerif.Mesh` (model of `pde/grids/_mesh.py`).  The chunk sizes along an axis
are an arbitrary list meeting the contract (positive entries, right sum).  The formula of the code
(`subdivideLin`: `np.linspace(0, num, chunks+1).astype(int)`, the same operations in the same order)
is, over an exact ordered field, the integer formula `subdivide` (`subdivideLin_exact`), which
meets the contract; `subdivide_robust` extends the contract to every perturbation of the cuts that
double rounding can cause (`RobustCuts`).  What is NOT proven is that IEEE doubles produce only such
perturbations: the driver evaluates `subdivideLin Float`, and the harness measures it.
-/
namespace PdeVerif.Mesh.C17
open PdeVerif PdeVerif.Mesh

/-! ## the reference formula meets the contract -/

/-- the reference chunk sizes add up to the number of cells -/
theorem subdivide_sum (num chunks : Nat) (hc : 0 < chunks) : (subdivide num chunks).sum = num := by
  unfold subdivide
  rw [subdivide_prefix_sum]
  unfold cut
  exact Nat.mul_div_cancel_left num hc

/-- every reference chunk is non-empty as long as there are at most as many chunks as cells -/
theorem subdivide_pos (num chunks : Nat) (hc : 0 < chunks) (h : chunks ≤ num) :
    ∀ s ∈ subdivide num chunks, 0 < s := by
  intro s hs
  simp only [subdivide, List.mem_map, List.mem_range] at hs
  obtain ⟨i, _, rfl⟩ := hs
  have h1 := (cut_step num chunks i hc).1
  have h2 : 0 < num / chunks := Nat.div_pos h hc
  omega

/-- reference chunk sizes differ by at most one -/
theorem subdivide_balanced (num chunks : Nat) (hc : 0 < chunks) :
    ∀ a ∈ subdivide num chunks, ∀ b ∈ subdivide num chunks, a ≤ b + 1 := by
  intro a ha b hb
  simp only [subdivide, List.mem_map, List.mem_range] at ha hb
  obtain ⟨i, _, rfl⟩ := ha
  obtain ⟨j, _, rfl⟩ := hb
  have h1 := cut_step num chunks i hc
  have h2 := cut_step num chunks j hc
  omega

/-- the reference formula meets the contract exactly when `_subdivide` does not raise -/
theorem subdivide_contract (num chunks : Nat) (hc : 0 < chunks) (h : chunks ≤ num) :
    Contract (subdivide num chunks) num :=
  ⟨subdivide_pos num chunks hc h, subdivide_sum num chunks hc⟩

/-- `contractB` decides `Contract` (the driver evaluates `contractB` on the real chunk sizes) -/
theorem contractB_iff (sizes : List Nat) (num : Nat) : contractB sizes num = true ↔ Contract sizes num := by
  simp [contractB, Contract]

theorem foldl_min_le (l : List Nat) (init : Nat) :
    l.foldl min init ≤ init ∧ (∀ b ∈ l, l.foldl min init ≤ b) ∧ (l.foldl min init = init ∨ l.foldl min init ∈ l) := by
  induction l generalizing init with
  | nil => simp
  | cons x xs ih =>
    obtain ⟨h1, h2, h3⟩ := ih (min init x)
    simp only [List.foldl_cons, List.mem_cons, forall_eq_or_imp]
    refine ⟨by omega, ⟨by omega, h2⟩, ?_⟩
    rcases h3 with h3 | h3
    · rw [h3]
      rcases Nat.le_total init x with h | h
      · left; exact Nat.min_eq_left h
      · right; left; exact Nat.min_eq_right h
    · right; right; exact h3

/-- `balancedB` decides "sizes differ by at most one" -/
theorem balancedB_iff (sizes : List Nat) :
    balancedB sizes = true ↔ ∀ a ∈ sizes, ∀ b ∈ sizes, a ≤ b + 1 := by
  have key : balancedB sizes = true ↔ ∀ a ∈ sizes, a ≤ sizes.foldl min (sizes.headD 0) + 1 := by
    simp [balancedB]
  rw [key]
  cases sizes with
  | nil => simp
  | cons x xs =>
    obtain ⟨h1, h2, h3⟩ := foldl_min_le (x :: xs) x
    simp only [List.headD_cons]
    generalize List.foldl min x (x :: xs) = lo at h1 h2 h3
    constructor
    · intro h a ha b hb
      have := h a ha
      have := h2 b hb
      omega
    · intro h a ha
      rcases h3 with h3 | h3
      · subst h3; exact h a ha lo (List.mem_cons_self ..)
      · exact h a ha _ h3

/-! ## the formula of the code (`np.linspace`) -/

section lin
variable {K : Type} [Field K] [LinearOrder K] [IsStrictOrderedRing K] [FloorRing K]

/-- over an exact ordered field the cut positions the code computes with `np.linspace` are the
integer formula `floor(i*num/chunks)` -/
theorem linCut_exact (num chunks i : Nat) (hc : 0 < chunks) :
    linCut K num chunks i = ((cut num chunks i : Nat) : Int) := by
  unfold linCut cut
  split_ifs with h
  · subst h; rw [Nat.mul_div_cancel_left num hc]
  · rw [floor_def]
    have e : ((i : Nat) : K) * (((num : Nat) : K) / ((chunks : Nat) : K)) = (((i * num : Nat) : K)) / ((chunks : Nat) : K) := by
      push_cast; ring
    rw [e, Int.floor_div_natCast, Int.floor_natCast]
    norm_cast

/-- ... hence the chunk sizes of the code are the reference chunk sizes -/
theorem subdivideLin_exact (num chunks : Nat) (hc : 0 < chunks) :
    subdivideLin K num chunks = (subdivide num chunks).map (fun s : Nat => (s : Int)) := by
  unfold subdivideLin subdivide
  rw [List.map_map]
  apply List.map_congr_left
  intro i _
  simp only [Function.comp, linCut_exact (K := K) num chunks _ hc]
  have := cut_mono num chunks (Nat.le_add_right i 1)
  omega

/-- the contract for the chunk sizes the code computes (exact arithmetic): positive sizes that add
up to `num`, differing by at most one -/
theorem subdivideLin_contract (num chunks : Nat) (hc : 0 < chunks) (h : chunks ≤ num) :
    (∀ s ∈ subdivideLin K num chunks, 0 < s) ∧ (subdivideLin K num chunks).sum = (num : Int) ∧
    (∀ a ∈ subdivideLin K num chunks, ∀ b ∈ subdivideLin K num chunks, a ≤ b + 1) := by
  rw [subdivideLin_exact (K := K) num chunks hc]
  refine ⟨?_, ?_, ?_⟩
  · intro s hs
    obtain ⟨t, ht, rfl⟩ := List.mem_map.1 hs
    exact_mod_cast subdivide_pos num chunks hc h t ht
  · have key : ∀ l : List Nat, (l.map (fun s : Nat => (s : Int))).sum = ((l.sum : Nat) : Int) := by
      intro l
      induction l with
      | nil => simp
      | cons x xs ih => simp [ih]
    rw [key, subdivide_sum num chunks hc]
  · intro a ha b hb
    obtain ⟨s, hs, rfl⟩ := List.mem_map.1 ha
    obtain ⟨t, ht, rfl⟩ := List.mem_map.1 hb
    exact_mod_cast subdivide_balanced num chunks hc s hs t ht
end lin


/-- next to a cut that falls on an integer (`chunks ∣ i*num`, while `num/chunks` is not an
integer) the reference chunks have `q+1` cells below and `q` cells above, `q = num / chunks` -/
theorem cut_at_integer_point (num chunks i : Nat) (hc : 0 < chunks) (hi : 0 < i)
    (hd : chunks ∣ i * num) (hnd : ¬ chunks ∣ num) :
    cut num chunks (i + 1) = cut num chunks i + num / chunks ∧
    cut num chunks i = cut num chunks (i - 1) + num / chunks + 1 := by
  unfold cut
  obtain ⟨E, hE⟩ := hd
  have hr0 : 0 < num % chunks := Nat.pos_of_ne_zero (fun h => hnd (Nat.dvd_of_mod_eq_zero h))
  have hr : num % chunks < chunks := Nat.mod_lt _ hc
  have hn : num = chunks * (num / chunks) + num % chunks := (Nat.div_add_mod num chunks).symm
  generalize num / chunks = q at *
  generalize num % chunks = r at *
  have e0 : i * num / chunks = E := by rw [hE]; exact Nat.mul_div_cancel_left E hc
  have e1 : (i + 1) * num = r + chunks * (E + q) := by
    rw [Nat.add_mul, Nat.one_mul, hE, Nat.mul_add]; omega
  have hin : num ≤ i * num := Nat.le_mul_of_pos_left num hi
  have hEq : q + 1 ≤ E := by
    by_contra hcon
    have : E ≤ q := by omega
    have := Nat.mul_le_mul_left chunks this
    omega
  have h3 := Nat.mul_le_mul_left chunks hEq
  have e2 : (i - 1) * num = (chunks - r) + chunks * (E - q - 1) := by
    have : (i - 1) * num = i * num - num := by rw [Nat.sub_mul, Nat.one_mul]
    rw [this, hE]
    have : chunks * (E - q - 1) = chunks * E - chunks * q - chunks := by
      rw [Nat.mul_sub, Nat.mul_sub, Nat.mul_one]
    rw [this, Nat.mul_add, Nat.mul_one] at *
    omega
  rw [e0, e1, e2, Nat.add_mul_div_left _ _ hc, Nat.add_mul_div_left _ _ hc, Nat.div_eq_of_lt hr,
    Nat.div_eq_of_lt (by omega : chunks - r < chunks)]
  omega

/-- two consecutive cuts cannot both fall on integers unless `num/chunks` is an integer -/
theorem not_two_integer_points (num chunks i : Nat) (h1 : chunks ∣ i * num) (h2 : chunks ∣ (i + 1) * num) :
    chunks ∣ num := by
  have : (i + 1) * num - i * num = num := by rw [Nat.add_mul, Nat.one_mul]; omega
  rw [← this]; exact Nat.dvd_sub h2 h1


/-- cut positions that are the reference cuts `floor(i*num/chunks)`, or one less at places where
`i*num/chunks` is an integer while `num/chunks` is not: what `np.linspace(...).astype(int)` can
produce when the double product `i * (num/chunks)` lands just below an integer.  (That the real
cuts are of this form is measured by the harness, not proven: it is a statement about IEEE rounding.) -/
def RobustCuts (num chunks : Nat) (c : Nat → Nat) : Prop :=
  c 0 = 0 ∧ c chunks = num ∧ ∀ i, 0 < i → i < chunks →
    (c i = cut num chunks i ∨ (c i + 1 = cut num chunks i ∧ chunks ∣ i * num ∧ ¬ chunks ∣ num))

theorem sizesOfCuts_sum (c : Nat → Nat) (k : Nat) (hmono : ∀ i, i < k → c i ≤ c (i + 1)) :
    (sizesOfCuts c k).sum = c k - c 0 := by
  unfold sizesOfCuts
  induction k with
  | zero => simp
  | succ k ih =>
    rw [List.range_succ, List.map_append, List.sum_append, ih (fun i hi => hmono i (by omega))]
    have h1 := hmono k (by omega)
    have h2 : c 0 ≤ c k := by
      clear ih h1
      induction k with
      | zero => exact Nat.le_refl _
      | succ j ihj => exact Nat.le_trans (ihj (fun i hi => hmono i (by omega))) (hmono j (by omega))
    simp only [List.map_cons, List.map_nil, List.sum_cons, List.sum_nil]
    omega

theorem robust_size (num chunks : Nat) (hc : 0 < chunks) (c : Nat → Nat) (h : RobustCuts num chunks c)
    (i : Nat) (hi : i < chunks) :
    c i ≤ c (i + 1) ∧ (c (i + 1) - c i = num / chunks ∨ c (i + 1) - c i = num / chunks + 1) := by
  obtain ⟨h0, hN, hmid⟩ := h
  have E0 : cut num chunks 0 = 0 := by simp [cut]
  have EN : cut num chunks chunks = num := by unfold cut; exact Nat.mul_div_cancel_left num hc
  have key : ∀ j, j ≤ chunks → (c j = cut num chunks j ∨
      (c j + 1 = cut num chunks j ∧ chunks ∣ j * num ∧ ¬ chunks ∣ num ∧ 0 < j)) := by
    intro j hj
    rcases Nat.eq_zero_or_pos j with rfl | hj0
    · left; rw [h0, E0]
    · rcases Nat.lt_or_ge j chunks with hlt | hge
      · rcases hmid j hj0 hlt with a | ⟨a, b, d⟩
        · left; exact a
        · right; exact ⟨a, b, d, hj0⟩
      · have : j = chunks := by omega
        subst this; left; rw [hN, EN]
  have hstep := cut_step num chunks i hc
  have hmono := cut_mono num chunks (Nat.le_add_right i 1)
  rcases key i (by omega) with a | ⟨a, b, d, e⟩ <;> rcases key (i + 1) (by omega) with a' | ⟨a', b', d', _⟩
  · omega
  · have := (cut_at_integer_point num chunks (i + 1) hc (by omega) b' d').2
    simp only [Nat.add_sub_cancel] at this
    clear b' d' key hmid EN E0 hN h0
    generalize num / chunks = q at *
    generalize cut num chunks i = A at *
    generalize cut num chunks (i + 1) = B at *
    omega
  · have := (cut_at_integer_point num chunks i hc e b d).1
    clear b d key hmid EN E0 hN h0
    generalize num / chunks = q at *
    generalize cut num chunks i = A at *
    generalize cut num chunks (i + 1) = B at *
    omega
  · exact absurd (not_two_integer_points num chunks i b b') d

/-- **the contract is robust against the rounding of `np.linspace`**: whatever cut positions of the
form `RobustCuts` the float computation produces, the chunk sizes are positive, add up to `num`
and differ by at most one -/
theorem subdivide_robust (num chunks : Nat) (hc : 0 < chunks) (hle : chunks ≤ num) (c : Nat → Nat)
    (h : RobustCuts num chunks c) :
    Contract (sizesOfCuts c chunks) num ∧
    ∀ a ∈ sizesOfCuts c chunks, ∀ b ∈ sizesOfCuts c chunks, a ≤ b + 1 := by
  have hq : 0 < num / chunks := Nat.div_pos hle hc
  have hs := robust_size num chunks hc c h
  refine ⟨⟨?_, ?_⟩, ?_⟩
  · intro s hs'
    simp only [sizesOfCuts, List.mem_map, List.mem_range] at hs'
    obtain ⟨i, hi, rfl⟩ := hs'
    have := (hs i hi).2
    omega
  · rw [sizesOfCuts_sum c chunks (fun i hi => (hs i hi).1), h.1, h.2.1]; rfl
  · intro a ha b hb
    simp only [sizesOfCuts, List.mem_map, List.mem_range] at ha hb
    obtain ⟨i, hi, rfl⟩ := ha
    obtain ⟨j, hj, rfl⟩ := hb
    have := (hs i hi).2
    have := (hs j hj).2
    omega

/-- the reference cuts themselves are robust cuts -/
example : RobustCuts 30 22 (cut 30 22) := ⟨by decide, by decide, fun i _ _ => Or.inl rfl⟩
/-- `_subdivide(30, 22)` on IEEE doubles: `11 * (30/22) = 14.999999999999998`, so cut 11 is 14, not 15 -/
example : RobustCuts 30 22 (fun i => if i = 11 then 14 else cut 30 22 i) := by
  refine ⟨by decide, by decide, fun i h1 h2 => ?_⟩
  by_cases h : i = 11
  · subst h; right; decide
  · left; simp [h]


/-- the two ends of a ghost-cell message use the same MPI tag, and the tags of a node's two
sides towards the same neighbour (axis with two chunks) differ -/
theorem flags_match (a b : Nat) (hab : a ≠ b) :
    boundaryFlag a b true = boundaryFlag b a false ∧ boundaryFlag a b false = boundaryFlag b a true ∧
    boundaryFlag a b true ≠ boundaryFlag a b false := by
  unfold boundaryFlag flagUpper flagLower
  simp only [if_true, Bool.false_eq_true, if_false]
  split_ifs <;> omega


/-! ## one axis: slices tile the axis -/

/-- without ghost cells the slices of the chunks are a disjoint cover of the cells `0..num-1` -/
theorem slices_tile (sizes : List Nat) (num : Nat) (hsum : sizes.sum = num) (g : Nat) (hg : g < num) :
    ∃! i, i < sizes.length ∧ (sliceAt false sizes i).1 ≤ g ∧ g < (sliceAt false sizes i).2 := by
  subst hsum
  obtain ⟨h1, h2, h3⟩ := chunkOf_spec sizes g hg
  refine ⟨chunkOf sizes g, ⟨h1, ?_, ?_⟩, ?_⟩
  · rw [sliceAt_eq false sizes _ h1]; exact h2
  · rw [sliceAt_eq false sizes _ h1]; simpa [gadd] using h3
  · rintro j ⟨hj, a, b⟩
    rw [sliceAt_eq false sizes _ hj] at a b
    simp only [gadd, Bool.false_eq_true, if_false, Nat.add_zero] at a b
    exact chunk_unique sizes ⟨a, b⟩ ⟨h2, h3⟩


/-- one axis, data as a list: cutting the data into the chunks of the slices and concatenating
them again is the identity (the list form of `combine ∘ extract = id`, design appendix A.15) -/
theorem combine_extract_id_list {α : Type} (sizes : List Nat) (data : List α) (h : data.length = sizes.sum) :
    (extractAll data (slices1d false sizes)).flatten = data := by
  simpa [slices1d] using combine_extract_list_aux sizes [] data h

/-! ## any number of axes -/

theorem id2idx_inRange (m : Mesh) {id : Nat} (h : id < m.len) : InRange (m.id2idx id) m.dec :=
  unravel_inRange m.dec id h

/-- `_idx2id` and `_id2idx` are inverse bijections between `0..len-1` and the valid node indices -/
theorem id_idx_bijection (m : Mesh) :
    (∀ id, id < m.len → InRange (m.id2idx id) m.dec ∧ m.idx2id (m.id2idx id) = id) ∧
    (∀ idx, InRange idx m.dec → m.idx2id idx < m.len ∧ m.id2idx (m.idx2id idx) = idx) :=
  ⟨fun id h => ⟨unravel_inRange m.dec id h, ravel_unravel m.dec id h⟩,
   fun _ h => ⟨ravel_lt h, unravel_ravel h⟩⟩

/-- the boxes cover the base array: every position of the array (with or without ghost cells)
lies in the box of some node -/
theorem boxes_cover (m : Mesh) (hm : m.Pos) (ghost : Bool) (g : List Nat) (hg : InRange g (m.arrShape ghost)) :
    ∃ id, id < m.len ∧ inBox (m.box ghost id) g = true := by
  obtain ⟨idx, h1, h2⟩ := exists_box ghost m.axes hm g hg
  refine ⟨m.idx2id idx, ravel_lt h1, ?_⟩
  unfold Mesh.box Mesh.id2idx Mesh.idx2id Mesh.dec
  rw [unravel_ravel h1]; exact h2

/-- without ghost cells the boxes are pairwise disjoint -/
theorem boxes_disjoint (m : Mesh) {a b : Nat} (ha : a < m.len) (hb : b < m.len) (g : List Nat)
    (h1 : inBox (m.box false a) g = true) (h2 : inBox (m.box false b) g = true) : a = b :=
  unravel_injective m.dec ha hb
    (box_unique m.axes _ _ g (unravel_inRange m.dec a ha) (unravel_inRange m.dec b hb) h1 h2)

/-- any rank: the boxes without ghost cells are a disjoint cover of the base grid -/
theorem slices_tile_nd (m : Mesh) (g : List Nat) (hg : InRange g m.shape) :
    ∃! id, id < m.len ∧ inBox (m.box false id) g = true := by
  -- positivity of the axes follows from `g` being in range
  have hg' : InRange g (m.arrShape false) := by simpa [Mesh.arrShape, gadd] using hg
  have hpos : m.Pos := pos_of_inRange m.axes g hg
  obtain ⟨id, h1, h2⟩ := boxes_cover m hpos false g hg'
  exact ⟨id, ⟨h1, h2⟩, fun j ⟨hj1, hj2⟩ => boxes_disjoint m hj1 h1 g hj2 h2⟩

/-- the boxes stay inside the base array -/
theorem box_in_array (m : Mesh) (ghost : Bool) {id : Nat} (h : id < m.len) (g : List Nat)
    (hb : inBox (m.box ghost id) g = true) : InRange g (m.arrShape ghost) :=
  inRange_of_inBox ghost m.axes _ g (unravel_inRange m.dec id h) hb

/-! ### combine and extract -/

theorem combineUpTo_succ {α : Type} (m : Mesh) (ghost : Bool) (subs : Nat → List Nat → α) (n : Nat) (g : List Nat) :
    m.combineUpTo ghost subs (n + 1) g
      = if inBox (m.box ghost n) g then some (subs n (vsub g (starts (m.box ghost n))))
        else m.combineUpTo ghost subs n g := by
  simp [Mesh.combineUpTo, List.range_succ, List.foldl_append, writeBox]

/-- what `combine_field_data` leaves at position `g`: the value of the *last* node (highest id)
whose box contains `g`, or nothing (`np.empty` content) if no box contains it -/
theorem combineUpTo_spec {α : Type} (m : Mesh) (ghost : Bool) (subs : Nat → List Nat → α) (n : Nat) (g : List Nat) :
    (∃ i, i < n ∧ inBox (m.box ghost i) g = true ∧
        m.combineUpTo ghost subs n g = some (subs i (vsub g (starts (m.box ghost i)))) ∧
        ∀ j, i < j → j < n → inBox (m.box ghost j) g = false) ∨
    ((∀ i, i < n → inBox (m.box ghost i) g = false) ∧ m.combineUpTo ghost subs n g = none) := by
  induction n with
  | zero => right; simp [Mesh.combineUpTo]
  | succ n ih =>
    rw [combineUpTo_succ]
    by_cases hb : inBox (m.box ghost n) g = true
    · left
      refine ⟨n, Nat.lt_succ_self n, hb, by simp [hb], ?_⟩
      intro j h1 h2; omega
    · have hb' : inBox (m.box ghost n) g = false := by simpa using hb
      rcases ih with ⟨i, h1, h2, h3, h4⟩ | ⟨h1, h2⟩
      · left
        refine ⟨i, Nat.lt_succ_of_lt h1, h2, by simp [hb', h3], ?_⟩
        intro j hj1 hj2
        rcases Nat.lt_succ_iff_lt_or_eq.1 hj2 with hj | rfl
        · exact h4 j hj1 hj
        · exact hb'
      · right
        refine ⟨?_, by simp [hb', h2]⟩
        intro i hi
        rcases Nat.lt_succ_iff_lt_or_eq.1 hi with hi | rfl
        · exact h1 i hi
        · exact hb'

/-- **combine ∘ extract = id**, any rank, with and without ghost cells: splitting an array onto
the sub-grids and combining the pieces gives back every entry of the array (and leaves no entry
unwritten) -/
theorem combine_extract_id {α : Type} (m : Mesh) (hm : m.Pos) (ghost : Bool) (data : Arr α)
    (g : List Nat) (hg : InRange g (m.arrShape ghost)) :
    m.combine ghost (fun id => (m.extract ghost data id).get) g = some (data.get g) := by
  obtain ⟨id, hid, hb⟩ := boxes_cover m hm ghost g hg
  rcases combineUpTo_spec m ghost (fun id => (m.extract ghost data id).get) m.len g with ⟨i, _, h2, h3, _⟩ | ⟨h1, _⟩
  · unfold Mesh.combine
    rw [h3]
    simp only [Mesh.extract, Arr.slice, vadd_vsub_of_inBox h2]
  · rw [h1 id hid] at hb; exact absurd hb (by simp)

/-- **extract ∘ combine = id** without ghost cells, any rank, for arbitrary sub-arrays: entry `p`
of the sub-array of node `id` is found at the corresponding position of the combined array -/
theorem extract_combine_id {α : Type} (m : Mesh) (subs : Nat → List Nat → α) {id : Nat} (hid : id < m.len)
    (p : List Nat) (hp : InRange p (m.subShape id)) :
    m.combine false subs (vadd (starts (m.box false id)) p) = some (subs id p) := by
  have hidx := unravel_inRange m.dec id hid
  have hp' : InRange p ((subShapeOf m.axes (m.id2idx id)).map (· + gadd false)) := by
    simpa [gadd, Mesh.subShape] using hp
  have hb : inBox (m.box false id) (vadd (starts (m.box false id)) p) = true :=
    inBox_vadd false m.axes _ p hidx hp'
  rcases combineUpTo_spec m false subs m.len (vadd (starts (m.box false id)) p) with ⟨i, h1, h2, h3, _⟩ | ⟨h1, _⟩
  · have e : i = id := boxes_disjoint m h1 hid _ h2 hb
    subst e
    unfold Mesh.combine
    rw [h3, vsub_vadd_cancel]
    rw [starts_length, Mesh.box_length, InRange.length_eq hp, Mesh.subShape_length]
  · rw [h1 id hid] at hb; exact absurd hb (by simp)

/-! ### neighbours -/

/-- **neighbour relations are symmetric**: `b` is the upper neighbour of `a` along an axis exactly
when `a` is the lower neighbour of `b` (including across the periodic seam and for an axis with two
chunks, where `b` is both the upper and the lower neighbour of `a`) -/
theorem neighbor_symmetric (m : Mesh) (axis a b : Nat) (ha : a < m.len) (hb : b < m.len)
    (hax : axis < m.axes.length) :
    neighbor m axis true a = some b ↔ neighbor m axis false b = some a := by
  have hia := unravel_inRange m.dec a ha
  have hib := unravel_inRange m.dec b hb
  have hla : axis < (m.id2idx a).length := by
    unfold Mesh.id2idx; rw [unravel_length, Mesh.dec_length]; exact hax
  have hlb : axis < (m.id2idx b).length := by
    unfold Mesh.id2idx; rw [unravel_length, Mesh.dec_length]; exact hax
  have hka := inRange_getD hia axis (by rw [Mesh.dec_length]; exact hax)
  have hkb := inRange_getD hib axis (by rw [Mesh.dec_length]; exact hax)
  rw [neighbor_some_iff m axis true a b ha hb hax, neighbor_some_iff m axis false b a hb ha hax]
  constructor
  · rintro ⟨k', h1, h2⟩
    have e : (m.id2idx b).getD axis 0 = k' := by rw [h2]; exact getD_set_self _ _ _ _ hla
    refine ⟨(m.id2idx a).getD axis 0, ?_, ?_⟩
    · rw [e]; exact (nbStep_symm hka (nbStep_lt hka h1)).1 h1
    · rw [h2, List.set_set, set_getD_self]
  · rintro ⟨k', h1, h2⟩
    have e : (m.id2idx a).getD axis 0 = k' := by rw [h2]; exact getD_set_self _ _ _ _ hlb
    refine ⟨(m.id2idx b).getD axis 0, ?_, ?_⟩
    · rw [e]; exact (nbStep_symm (nbStep_lt hkb h1) hkb).2 h1
    · rw [h2, List.set_set, set_getD_self]


/-- a node lacks a neighbour on a side exactly when the axis is not split, or when the node sits
at the outer face of a non-periodic axis -/
theorem neighbor_none_iff (m : Mesh) (axis : Nat) (upper : Bool) (id : Nat) :
    neighbor m axis upper id = none ↔
      m.dec.getD axis 0 = 1 ∨ (m.periodic.getD axis false = false ∧
        if upper then ¬ (m.id2idx id).getD axis 0 < m.dec.getD axis 0 - 1 else (m.id2idx id).getD axis 0 = 0) := by
  rw [neighbor_eq_nbStep, Option.map_eq_none_iff, nbStep_none_iff]

/-- **neighbours respect periodicity**: the neighbour differs from the node only along the axis,
where its index is `k+1` resp. `k-1` modulo the number of chunks, and the seam is crossed only on
a periodic axis -/
theorem neighbor_respects_periodicity (m : Mesh) (axis : Nat) (upper : Bool) (a b : Nat) (ha : a < m.len)
    (hb : b < m.len) (hax : axis < m.axes.length) (h : neighbor m axis upper a = some b) :
    m.id2idx b = (m.id2idx a).set axis
        (if upper then ((m.id2idx a).getD axis 0 + 1) % m.dec.getD axis 0
         else ((m.id2idx a).getD axis 0 + m.dec.getD axis 0 - 1) % m.dec.getD axis 0) ∧
    ((if upper then ¬ (m.id2idx a).getD axis 0 < m.dec.getD axis 0 - 1 else (m.id2idx a).getD axis 0 = 0) →
        m.periodic.getD axis false = true) := by
  have hia := unravel_inRange m.dec a ha
  have hka := inRange_getD hia axis (by rw [Mesh.dec_length]; exact hax)
  obtain ⟨k', h1, h2⟩ := (neighbor_some_iff m axis upper a b ha hb hax).1 h
  have e := nbStep_mod hka h1
  exact ⟨by rw [h2]; exact congrArg (fun v => (m.id2idx a).set axis v) e, fun hend => nbStep_seam h1 hend⟩

/-- **neighbours are adjacent**: along the axis the upper neighbour's cells start where the node's
cells end; across the periodic seam the neighbour starts at cell 0 and the node ends at the last
cell of the base grid -/
theorem neighbor_adjacent (m : Mesh) (axis a b : Nat) (ha : a < m.len) (hb : b < m.len)
    (hax : axis < m.axes.length) (h : neighbor m axis true a = some b) :
    ((m.id2idx a).getD axis 0 < m.dec.getD axis 0 - 1 →
      ((m.box false b).getD axis (0, 0)).1 = ((m.box false a).getD axis (0, 0)).2) ∧
    (¬ (m.id2idx a).getD axis 0 < m.dec.getD axis 0 - 1 →
      ((m.box false b).getD axis (0, 0)).1 = 0 ∧ ((m.box false a).getD axis (0, 0)).2 = m.shape.getD axis 0) := by
  have hia := id2idx_inRange m ha
  have hib := id2idx_inRange m hb
  have hdl : axis < m.dec.length := by rw [Mesh.dec_length]; exact hax
  have hka := inRange_getD hia axis hdl
  have hkb := inRange_getD hib axis hdl
  obtain ⟨k', h1, h2⟩ := (neighbor_some_iff m axis true a b ha hb hax).1 h
  have hla : axis < (m.id2idx a).length := by
    unfold Mesh.id2idx; rw [unravel_length]; exact hdl
  have ekb : (m.id2idx b).getD axis 0 = k' := by rw [h2]; exact getD_set_self _ _ _ _ hla
  have hdec : m.dec.getD axis 0 = (m.axes.getD axis []).length := by
    simp only [Mesh.dec, List.getD_eq_getElem?_getD, List.getElem?_map]
    cases m.axes[axis]? <;> simp
  have hshape : m.shape.getD axis 0 = (m.axes.getD axis []).sum := by
    simp only [Mesh.shape, List.getD_eq_getElem?_getD, List.getElem?_map]
    cases m.axes[axis]? <;> simp
  have eb := boxOf_getD false m.axes (m.id2idx b) axis hib hax
  have ea := boxOf_getD false m.axes (m.id2idx a) axis hia hax
  unfold Mesh.box
  rw [eb, ea, hshape]
  rw [ekb] at hkb
  rw [hdec] at hka hkb h1 ⊢
  rw [ekb, sliceAt_eq false _ k' hkb, sliceAt_eq false _ _ hka]
  simp only [gadd, Bool.false_eq_true, if_false, Nat.add_zero]
  unfold nbStep at h1
  simp only [if_true] at h1
  constructor
  · intro c1
    rw [if_neg (by omega), if_pos c1] at h1
    simp only [Option.some.injEq] at h1
    rw [← h1, offset_succ]
  · intro c1
    split_ifs at h1 with c0 c2
    simp only [Option.some.injEq] at h1
    refine ⟨by rw [← h1]; simp, ?_⟩
    have e : (m.id2idx a).getD axis 0 + 1 = (m.axes.getD axis []).length := by omega
    rw [← offset_succ, e, offset_length]

/-! ### operators on the sub-grids -/

/-- reading the padded sub-array of a node at a local index is reading the padded base array at
the shifted index, and both reads are inside their arrays -/
theorem get?_extract_ghost {α : Type} (m : Mesh) (full : Arr α) (hfull : full.shape = m.arrShape true)
    {id : Nat} (hid : id < m.len) (q : List Nat) (hq : InRange q ((m.subShape id).map (· + 2))) :
    (m.extract true full id).get? q = some (full.get (vadd (starts (m.box false id)) q)) ∧
    full.get? (vadd (starts (m.box false id)) q) = some (full.get (vadd (starts (m.box false id)) q)) := by
  have hidx := unravel_inRange m.dec id hid
  have hs : starts (m.box true id) = starts (m.box false id) := starts_boxOf true m.axes _ hidx
  have hq' : InRange q ((subShapeOf m.axes (m.id2idx id)).map (· + gadd true)) := by
    simpa [gadd, Mesh.subShape] using hq
  have hb := inBox_vadd true m.axes _ q hidx hq'
  have hr := inRange_of_inBox true m.axes _ _ hidx hb
  constructor
  · unfold Arr.get?
    rw [m.extract_shape true full hfull hid]
    simp only [gadd, if_true]
    rw [if_pos (by simpa using hq)]
    simp only [Mesh.extract, Arr.slice, hs]
  · unfold Arr.get?
    rw [hfull, if_pos]
    have : InRange (vadd (starts (m.box true id)) q) (m.arrShape true) := hr
    rw [hs] at this
    simpa using this

/-- **the operator commutes with the split** (any rank, any radius-1 stencil, possibly with
position-dependent coefficients): applying the stencil at cell `p` of the padded sub-array that
`extract_field_data(..., with_ghost_cells=True)` cuts out of the padded base array gives exactly
the base result at the corresponding cell; all reads stay inside the sub-array (one ghost layer
suffices) -/
theorem operator_commutes_with_split {α β : Type} (m : Mesh) (S : List Nat → List α → β)
    (reads : List (List Nat)) (hreads : ∀ d ∈ reads, InRange d (m.axes.map fun _ => 3))
    (full : Arr α) (hfull : full.shape = m.arrShape true) {id : Nat} (hid : id < m.len)
    (p : List Nat) (hp : InRange p (m.subShape id)) :
    applyStencil S reads (m.extract true full id) (vadd (starts (m.box false id)) p) p
      = applyStencil S reads full (vadd (starts (m.box false id)) p) (vadd (starts (m.box false id)) p) ∧
    (applyStencil S reads full (vadd (starts (m.box false id)) p) (vadd (starts (m.box false id)) p)).isSome = true := by
  have hlen : (m.subShape id).length = m.axes.length := m.subShape_length id
  have key : ∀ d ∈ reads, InRange (vadd p d) ((m.subShape id).map (· + 2)) := by
    intro d hd
    refine inRange_vadd_offs (m.subShape id) p d hp ?_
    have h3 := hreads d hd
    have e : ((m.subShape id).map fun _ => 3) = (m.axes.map fun _ => 3) := by
      rw [List.map_const', List.map_const', hlen]
    rw [e]; exact h3
  have hread : readNb (m.extract true full id) reads p = readNb full reads (vadd (starts (m.box false id)) p) := by
    unfold readNb
    apply readAll_congr
    intro d hd
    obtain ⟨h1, h2⟩ := get?_extract_ghost m full hfull hid (vadd p d) (key d hd)
    rw [h1, vadd_assoc, h2]
  constructor
  · unfold applyStencil; rw [hread]
  · unfold applyStencil
    rw [Option.isSome_map]
    unfold readNb
    apply readAll_isSome
    intro d hd
    obtain ⟨_, h2⟩ := get?_extract_ghost m full hfull hid (vadd p d) (key d hd)
    rw [vadd_assoc, h2]; rfl


/-- **split, apply, combine = apply**: applying the stencil on every sub-grid (on the padded
sub-array cut out of the padded base array) and combining the results with `combine_field_data`
gives the result of the stencil on the whole grid, at every cell -/
theorem operator_split_combine {α β : Type} (m : Mesh) (S : List Nat → List α → β)
    (reads : List (List Nat)) (hreads : ∀ d ∈ reads, InRange d (m.axes.map fun _ => 3))
    (full : Arr α) (hfull : full.shape = m.arrShape true) (g : List Nat) (hg : InRange g m.shape) :
    m.combine false
        (fun id p => applyStencil S reads (m.extract true full id) (vadd (starts (m.box false id)) p) p) g
      = some (applyStencil S reads full g g) := by
  obtain ⟨id, ⟨hid, hb⟩, _⟩ := slices_tile_nd m g hg
  rcases combineUpTo_spec m false
      (fun id p => applyStencil S reads (m.extract true full id) (vadd (starts (m.box false id)) p) p)
      m.len g with ⟨i, h1, h2, h3, _⟩ | ⟨h1, _⟩
  · unfold Mesh.combine
    rw [h3]
    have hp : InRange (vsub g (starts (m.box false i))) (m.subShape i) :=
      inRange_vsub_of_inBox m.axes _ g (unravel_inRange m.dec i h1) h2
    have := (operator_commutes_with_split m S reads hreads full hfull h1 _ hp).1
    rw [vadd_vsub_of_inBox h2] at this
    simp only [vadd_vsub_of_inBox h2, this]
  · rw [h1 id hid] at hb; exact absurd hb (by simp)

/-- **extract ∘ combine = id with ghost cells** (and without), for sub-arrays that agree wherever
their boxes overlap (with ghost cells the boxes of neighbouring nodes overlap by two layers and
the later node overwrites the earlier one) -/
theorem extract_combine_id_consistent {α : Type} (m : Mesh) (ghost : Bool) (subs : Nat → List Nat → α)
    (hcons : ∀ i j g, i < m.len → j < m.len → inBox (m.box ghost i) g = true → inBox (m.box ghost j) g = true →
      subs i (vsub g (starts (m.box ghost i))) = subs j (vsub g (starts (m.box ghost j))))
    {id : Nat} (hid : id < m.len) (p : List Nat) (hp : InRange p ((m.subShape id).map (· + gadd ghost))) :
    m.combine ghost subs (vadd (starts (m.box ghost id)) p) = some (subs id p) := by
  have hidx := unravel_inRange m.dec id hid
  have hb : inBox (m.box ghost id) (vadd (starts (m.box ghost id)) p) = true :=
    inBox_vadd ghost m.axes _ p hidx hp
  rcases combineUpTo_spec m ghost subs m.len (vadd (starts (m.box ghost id)) p) with ⟨i, h1, h2, h3, _⟩ | ⟨h1, _⟩
  · unfold Mesh.combine
    rw [h3, hcons i id _ h1 hid h2 hb, vsub_vadd_cancel]
    rw [starts_length, Mesh.box_length, InRange.length_eq hp, List.length_map, Mesh.subShape_length]
  · rw [h1 id hid] at hb; exact absurd hb (by simp)



/-- a neighbour id is a valid node of the mesh -/
theorem neighbor_lt_len (m : Mesh) (axis : Nat) (upper : Bool) (a b : Nat) (ha : a < m.len)
    (hax : axis < m.axes.length) (h : neighbor m axis upper a = some b) : b < m.len := by
  rw [neighbor_eq_nbStep, Option.map_eq_some_iff] at h
  obtain ⟨k', h1, rfl⟩ := h
  have hia := unravel_inRange m.dec a ha
  have hka := inRange_getD hia axis (by rw [Mesh.dec_length]; exact hax)
  exact ravel_lt (inRange_set hia axis _ (nbStep_lt hka h1))


/-- the seam condition of the padded base array along a periodic axis: the two ghost layers hold
the opposite valid layers, with a minus sign for an anti-periodic condition (only positions of the
array are constrained) -/
def SeamCond {α : Type} [Neg α] (m : Mesh) (anti : List Bool) (full : Arr α) (axis : Nat) : Prop :=
  m.periodic.getD axis false = true → ∀ g : List Nat, InRange g (m.arrShape true) →
    full.get (g.set axis (m.shape.getD axis 0 + 1)) = sgn (anti.getD axis false) (full.get (g.set axis 1)) ∧
    full.get (g.set axis 0) = sgn (anti.getD axis false) (full.get (g.set axis (m.shape.getD axis 0)))

/-- **ghost cells come from the neighbours**: the layer that the `_MPIBC` of node `a` writes
(`_idx_write`) must hold - for the padded sub-array to be the block of the padded base array - the
values of the layer that the opposite `_MPIBC` of its neighbour `b` reads (`_idx_read`), at every
position of the padded sub-array, multiplied by `-1` exactly when `flip_sign` is set (`mpiFlip`: at
the seam of an anti-periodic axis, never at an interior face of the same axis).  Across the seam
this uses the (anti-)periodic condition `SeamCond` of the padded base array. -/
theorem ghost_exchange {α : Type} [Neg α] (m : Mesh) (anti : List Bool) (full : Arr α) (axis a b : Nat) (upper : Bool)
    (ha : a < m.len) (hb : b < m.len) (hax : axis < m.axes.length)
    (h : neighbor m axis upper a = some b)
    (hper : SeamCond m anti full axis)
    (q : List Nat) (hq : InRange q ((m.subShape a).map (· + 2))) :
    (m.extract true full a).get (q.set axis (mpiWrite upper ((m.subShape a).getD axis 0)))
      = sgn (mpiFlip m anti axis upper a)
          ((m.extract true full b).get (q.set axis (mpiRead (!upper) ((m.subShape b).getD axis 0)))) := by
  have hia := id2idx_inRange m ha
  have hib := id2idx_inRange m hb
  have hdl : axis < m.dec.length := by rw [Mesh.dec_length]; exact hax
  have hka := inRange_getD hia axis hdl
  obtain ⟨k', h1, h2⟩ := (neighbor_some_iff m axis upper a b ha hb hax).1 h
  have hla : axis < (m.id2idx a).length := by
    unfold Mesh.id2idx; rw [unravel_length]; exact hdl
  have ekb : (m.id2idx b).getD axis 0 = k' := by rw [h2]; exact getD_set_self _ _ _ _ hla
  have hdec : m.dec.getD axis 0 = (m.axes.getD axis []).length := by
    simp only [Mesh.dec, List.getD_eq_getElem?_getD, List.getElem?_map]
    cases m.axes[axis]? <;> simp
  have hshape : m.shape.getD axis 0 = (m.axes.getD axis []).sum := by
    simp only [Mesh.shape, List.getD_eq_getElem?_getD, List.getElem?_map]
    cases m.axes[axis]? <;> simp
  have hk' := nbStep_lt hka h1
  -- the position in the padded base array is inside the array
  have hXr : InRange (vadd (starts (m.box true a)) q) (m.arrShape true) := by
    have hq' : InRange q ((subShapeOf m.axes (m.id2idx a)).map (· + gadd true)) := by
      simpa [gadd, Mesh.subShape] using hq
    have := inRange_of_inBox true m.axes _ _ hia (inBox_vadd true m.axes _ q hia hq')
    simpa [Mesh.arrShape, Mesh.shape, Mesh.box] using this
  have hseam := fun hend => hper (nbStep_seam h1 hend) _ hXr
  have hflip : mpiFlip m anti axis upper a = (anti.getD axis false &&
      (if upper then decide ((m.id2idx a).getD axis 0 + 1 = m.dec.getD axis 0)
       else decide ((m.id2idx a).getD axis 0 = 0))) := by
    unfold mpiFlip atSeam; cases upper <;> rfl
  rw [hflip]
  rw [hshape] at hseam
  rw [hdec] at hka hk' h1 hseam ⊢
  -- start corners
  have hsb : starts (m.box true b) = (starts (m.box true a)).set axis (offset (m.axes.getD axis []) k') := by
    unfold Mesh.box; rw [h2]; exact starts_boxOf_set true m.axes _ axis k' hia hax hk'
  have hsa : (starts (m.box true a)).getD axis 0 = offset (m.axes.getD axis []) ((m.id2idx a).getD axis 0) :=
    starts_boxOf_getD true m.axes _ axis hia hax
  have ena : (m.subShape a).getD axis 0 = sizeAt (m.axes.getD axis []) ((m.id2idx a).getD axis 0) :=
    subShapeOf_getD m.axes _ axis hia hax
  have enb : (m.subShape b).getD axis 0 = sizeAt (m.axes.getD axis []) k' := by
    rw [← ekb]; exact subShapeOf_getD m.axes _ axis hib hax
  simp only [Mesh.extract, Arr.slice]
  rw [hsb, vadd_set_set, vadd_set, hsa, ena, enb]
  generalize m.axes.getD axis [] = sizes at *
  generalize (m.id2idx a).getD axis 0 = k at *
  generalize vadd (starts (m.box true a)) q = X at *
  unfold nbStep at h1
  cases upper
  · -- lower side of `a`: write index 0, the neighbour sends its last valid layer
    simp only [Bool.false_eq_true, if_false, mpiWrite, mpiRead, Bool.not_false, if_true, Nat.add_zero] at h1 hseam ⊢
    split_ifs at h1 with c0 c1 c2
    · simp only [Option.some.injEq] at h1
      subst h1
      have : offset sizes (k - 1) + sizeAt sizes (k - 1) = offset sizes k := by
        rw [← offset_succ]; congr 1; omega
      rw [this]
      have : decide (k = 0) = false := by simp; omega
      rw [this, Bool.and_false, sgn_false]
    · simp only [Option.some.injEq] at h1
      subst h1
      have e0 : k = 0 := by omega
      have e1 : offset sizes (sizes.length - 1) + sizeAt sizes (sizes.length - 1) = sizes.sum := by
        rw [← offset_succ]
        have : sizes.length - 1 + 1 = sizes.length := by omega
        rw [this, offset_length]
      rw [e1, e0, offset_zero]
      simp only [decide_true, Bool.and_true]
      exact (hseam e0).2
  · -- upper side of `a`: write index n+1, the neighbour sends its first valid layer
    simp only [if_true, mpiWrite, mpiRead, Bool.not_true, Bool.false_eq_true, if_false] at h1 hseam ⊢
    split_ifs at h1 with c0 c1 c2
    · simp only [Option.some.injEq] at h1
      subst h1
      rw [offset_succ]
      have : decide (k + 1 = sizes.length) = false := by simp; omega
      rw [this, Bool.and_false, sgn_false]
      simp only [Nat.add_assoc]
    · simp only [Option.some.injEq] at h1
      subst h1
      have e1 : offset sizes k + sizeAt sizes k = sizes.sum := by
        rw [← offset_succ]
        have : k + 1 = sizes.length := by omega
        rw [this, offset_length]
      have : decide (k + 1 = sizes.length) = true := by simp; omega
      rw [this, Bool.and_true]
      rw [offset_zero, Nat.zero_add, ← Nat.add_assoc, e1]
      exact (hseam c1).1

  /-! ### the exchange step -/

/-- every chunk has at least one cell (part of the contract of `_subdivide`) -/
def ChunksPos (m : Mesh) : Prop := ∀ sizes ∈ m.axes, ∀ s ∈ sizes, 0 < s

instance (m : Mesh) : Decidable (ChunksPos m) := by unfold ChunksPos; infer_instance

/-- sub-array state `s` holds at position `q` of node `a` what the padded base array holds there -/
def Agree {α : Type} (m : Mesh) (full : Arr α) (s : Nat → List Nat → Option α) (a : Nat) (q : List Nat) : Prop :=
  s a q = some (full.get (vadd (starts (m.box false a)) q))

theorem extract_get_eq {α : Type} (m : Mesh) (full : Arr α) {a : Nat} (ha : a < m.len) (q : List Nat) :
    (m.extract true full a).get q = full.get (vadd (starts (m.box false a)) q) := by
  have hs : starts (m.box true a) = starts (m.box false a) := starts_boxOf true m.axes _ (unravel_inRange m.dec a ha)
  simp only [Mesh.extract, Arr.slice, hs]

theorem sizeAt_pos_of_chunksPos (m : Mesh) (hpos : ChunksPos m) (axis k : Nat) (hax : axis < m.axes.length)
    (hk : k < (m.axes.getD axis []).length) : 0 < sizeAt (m.axes.getD axis []) k := by
  have hmem : m.axes.getD axis [] ∈ m.axes := by
    rw [List.getD_eq_getElem?_getD, List.getElem?_eq_getElem hax]; simp
  exact hpos _ hmem _ (sizeAt_mem _ hk)

/-- **one axis of the exchange fills the faces with a neighbour correctly**: if every node holds its
share of the valid data and the padded base array obeys the (anti-)periodic seam condition along the
axis, then after `exchangeAxis` the ghost face of node `a` towards its neighbour holds exactly what
the padded base array holds at the same place -/
theorem exchangeAxis_face {α : Type} [Neg α] (m : Mesh) (hpos : ChunksPos m) (anti : List Bool) (full : Arr α)
    (axis : Nat) (hax : axis < m.axes.length) (hseam : SeamCond m anti full axis)
    (s : Nat → List Nat → Option α)
    (hint : ∀ b, b < m.len → ∀ p, interiorAll (m.subShape b) p = true → Agree m full s b p)
    (a b : Nat) (upper : Bool) (ha : a < m.len) (h : neighbor m axis upper a = some b)
    (q : List Nat) (hq : onFace (m.subShape a) axis upper q = true) :
    Agree m full (m.exchangeAxis anti axis s) a q := by
  have hb : b < m.len := neighbor_lt_len m axis upper a b ha hax h
  have hia := id2idx_inRange m ha
  have hib := id2idx_inRange m hb
  have hdl : axis < m.dec.length := by rw [Mesh.dec_length]; exact hax
  have hka := inRange_getD hia axis hdl
  obtain ⟨k', h1, h2⟩ := (neighbor_some_iff m axis upper a b ha hb hax).1 h
  have hk' := nbStep_lt hka h1
  have hdec : m.dec.getD axis 0 = (m.axes.getD axis []).length := by
    simp only [Mesh.dec, List.getD_eq_getElem?_getD, List.getElem?_map]
    cases m.axes[axis]? <;> simp
  rw [hdec] at hk'
  -- the neighbour's sub-grid has the same shape except along the axis
  have hshb : m.subShape b = (m.subShape a).set axis (sizeAt (m.axes.getD axis []) k') := by
    unfold Mesh.subShape; rw [h2]; exact subShapeOf_set m.axes _ axis k' hia
  have hlen : axis < (m.subShape a).length := by rw [Mesh.subShape_length]; exact hax
  have hnb : (m.subShape b).getD axis 0 = sizeAt (m.axes.getD axis []) k' := by
    rw [hshb]; exact getD_set_self _ _ _ _ hlen
  have hnbpos : 0 < (m.subShape b).getD axis 0 := by
    rw [hnb]; exact sizeAt_pos_of_chunksPos m hpos axis k' hax hk'
  have hqf := hq
  unfold onFace at hqf
  simp only [Bool.and_eq_true, decide_eq_true_eq] at hqf
  obtain ⟨⟨_, hqe⟩, hqw⟩ := hqf
  have hqr : InRange q ((m.subShape a).map (· + 2)) := onFace_inRange hq
  -- the cell the neighbour reads is one of its valid cells
  have hread : interiorAll (m.subShape b) (q.set axis (mpiRead (!upper) ((m.subShape b).getD axis 0))) = true := by
    apply interiorExcept_set
    · rw [hshb, interiorExcept_set_shape]; exact hqe
    · unfold mpiRead; split_ifs <;> omega
    · unfold mpiRead; split_ifs <;> omega
  have hval := hint b hb _ hread
  have hex := ghost_exchange m anti full axis a b upper ha hb hax h hseam q hqr
  rw [← hqw, set_getD_self, extract_get_eq m full ha, extract_get_eq m full hb] at hex
  unfold Agree at hval ⊢
  unfold Mesh.exchangeAxis
  cases upper
  · rw [if_pos hq, h]
    simp only [Bool.not_false] at hval hex
    simp only [hval, Option.map_some, hex]
  · have hnot : onFace (m.subShape a) axis false q = false := by
      unfold onFace
      simp only [Bool.and_eq_false_iff, decide_eq_false_iff_not]
      right
      rw [hqw]; unfold mpiWrite; simp
    rw [hnot]
    simp only [Bool.false_eq_true, if_false]
    rw [if_pos hq, h]
    simp only [Bool.not_true] at hval hex
    simp only [hval, Option.map_some, hex]

/-- the exchange along `axis` changes nothing but the two ghost faces of that axis -/
theorem exchangeAxis_other {α : Type} [Neg α] (m : Mesh) (anti : List Bool) (axis : Nat)
    (s : Nat → List Nat → Option α) (a : Nat) (q : List Nat)
    (h1 : onFace (m.subShape a) axis false q = false) (h2 : onFace (m.subShape a) axis true q = false) :
    m.exchangeAxis anti axis s a q = s a q := by
  unfold Mesh.exchangeAxis
  rw [h1, h2]; simp

/-- a valid cell is in no ghost face -/
theorem onFace_false_of_interior {shape q : List Nat} (h : interiorAll shape q = true) (axis : Nat) (upper : Bool) :
    onFace shape axis upper q = false := by
  by_contra hc
  have hc' : onFace shape axis upper q = true := by simpa using hc
  unfold onFace at hc'
  simp only [Bool.and_eq_true, decide_eq_true_eq] at hc'
  have := interiorAll_getD h axis hc'.1.1
  rw [hc'.2] at this
  unfold mpiWrite at this
  split_ifs at this <;> omega

/-- a position in a ghost face of one axis is in no ghost face of another axis (it would be an edge) -/
theorem onFace_false_of_other {shape q : List Nat} {ax : Nat} {up : Bool} (h : onFace shape ax up q = true)
    (axis : Nat) (hne : axis ≠ ax) (upper : Bool) : onFace shape axis upper q = false := by
  by_contra hc
  have hc' : onFace shape axis upper q = true := by simpa using hc
  unfold onFace at hc' h
  simp only [Bool.and_eq_true, decide_eq_true_eq] at hc' h
  have := interiorExcept_getD hc'.1.2 ax h.1.1 (Ne.symm hne)
  rw [h.2] at this
  unfold mpiWrite at this
  split_ifs at this <;> omega

theorem exchangeUpTo_succ {α : Type} [Neg α] (m : Mesh) (anti : List Bool) (s : Nat → List Nat → Option α) (n : Nat) :
    m.exchangeUpTo anti s (n + 1) = m.exchangeAxis anti n (m.exchangeUpTo anti s n) := by
  simp [Mesh.exchangeUpTo, List.range_succ, List.foldl_append]

/-- **the exchange step** (all axes, in the order of `BoundariesList.set_ghost_cells`): started from
sub-arrays that hold only the nodes' shares of the valid data, the exchange along the first `n` axes
leaves the valid cells alone and fills every ghost face of these axes that has a neighbour with the
content of the padded base array (including the sign across an anti-periodic seam) -/
theorem exchangeUpTo_spec {α : Type} [Neg α] (m : Mesh) (hpos : ChunksPos m) (anti : List Bool) (full : Arr α)
    (hseam : ∀ axis, axis < m.axes.length → SeamCond m anti full axis)
    (s : Nat → List Nat → Option α)
    (hint : ∀ b, b < m.len → ∀ p, interiorAll (m.subShape b) p = true → Agree m full s b p)
    (n : Nat) (hn : n ≤ m.axes.length) :
    (∀ b, b < m.len → ∀ p, interiorAll (m.subShape b) p = true → Agree m full (m.exchangeUpTo anti s n) b p) ∧
    (∀ axis, axis < n → ∀ a b upper, a < m.len → neighbor m axis upper a = some b →
      ∀ q, onFace (m.subShape a) axis upper q = true → Agree m full (m.exchangeUpTo anti s n) a q) := by
  induction n with
  | zero =>
    refine ⟨?_, fun axis h => absurd h (Nat.not_lt_zero _)⟩
    simpa [Mesh.exchangeUpTo] using hint
  | succ n ih =>
    obtain ⟨ih1, ih2⟩ := ih (by omega)
    rw [exchangeUpTo_succ]
    refine ⟨?_, ?_⟩
    · intro b hb p hp
      unfold Agree
      rw [exchangeAxis_other m anti n _ b p (onFace_false_of_interior hp n false) (onFace_false_of_interior hp n true)]
      exact ih1 b hb p hp
    · intro axis hax a b upper ha hnb q hq
      rcases Nat.lt_succ_iff_lt_or_eq.1 hax with hlt | rfl
      · unfold Agree
        rw [exchangeAxis_other m anti n _ a q (onFace_false_of_other hq n (by omega) false)
          (onFace_false_of_other hq n (by omega) true)]
        exact ih2 axis hlt a b upper ha hnb q hq
      · exact exchangeAxis_face m hpos anti full axis (by omega) (hseam axis (by omega)) _ ih1 a b upper ha hnb q hq

theorem initSub_agree {α : Type} (m : Mesh) (full : Arr α) (b : Nat) (p : List Nat)
    (hp : interiorAll (m.subShape b) p = true) : Agree m full (m.initSub full) b p := by
  unfold Agree Mesh.initSub; rw [if_pos hp]

/-- **ghost cells come from the neighbours** (`initSub`, then `exchange`): after the complete exchange
every node holds, at each of its valid cells and at each ghost-face position towards a neighbour, the
value of the padded base array -/
theorem exchange_faces {α : Type} [Neg α] (m : Mesh) (hpos : ChunksPos m) (anti : List Bool) (full : Arr α)
    (hseam : ∀ axis, axis < m.axes.length → SeamCond m anti full axis) :
    (∀ b, b < m.len → ∀ p, interiorAll (m.subShape b) p = true → Agree m full (m.exchange anti (m.initSub full)) b p) ∧
    (∀ axis, axis < m.axes.length → ∀ a b upper, a < m.len → neighbor m axis upper a = some b →
      ∀ q, onFace (m.subShape a) axis upper q = true → Agree m full (m.exchange anti (m.initSub full)) a q) :=
  exchangeUpTo_spec m hpos anti full hseam _ (fun b _ => initSub_agree m full b) _ (Nat.le_refl _)

/-- after the exchange and after the outer faces have been set from the global condition, a node
holds at every valid cell and at every ghost-face position (everything but corners and edges) the
value of the padded base array -/
theorem setOuter_exchange_agree {α : Type} [Neg α] (m : Mesh) (hpos : ChunksPos m) (anti : List Bool) (full : Arr α)
    (hseam : ∀ axis, axis < m.axes.length → SeamCond m anti full axis)
    (a : Nat) (ha : a < m.len) (q : List Nat)
    (hq : interiorAll (m.subShape a) q = true ∨ ∃ axis upper, onFace (m.subShape a) axis upper q = true) :
    Agree m full (m.setOuter full (m.exchange anti (m.initSub full))) a q := by
  obtain ⟨e1, e2⟩ := exchange_faces m hpos anti full hseam
  unfold Agree Mesh.setOuter
  split_ifs with hc
  · rfl
  · rcases hq with hq | ⟨axis, upper, hq⟩
    · exact e1 a ha q hq
    · have hax : axis < m.axes.length := by
        have := hq
        unfold onFace at this
        simp only [Bool.and_eq_true, decide_eq_true_eq] at this
        rw [← Mesh.subShape_length m a]; exact this.1.1
      cases hnb : neighbor m axis upper a with
      | some b => exact e2 axis hax a b upper ha hnb q hq
      | none =>
        exfalso
        apply hc
        rw [List.any_eq_true]
        refine ⟨axis, List.mem_range.2 hax, ?_⟩
        cases upper <;> simp [hq, hnb]

/-- **the composed statement: split, exchange ghost cells with the neighbours (sign included), take
the outer faces from the global condition, apply the operator on every sub-grid, combine = apply the
operator on the whole grid.**  `S` is any stencil with position-dependent coefficients whose reads
are plus-shaped (the cell and its two neighbours along each axis - what all operators of the
package read; corners and edges are never exchanged and never read). -/
theorem operator_exchange_combine {α β : Type} [Neg α] (m : Mesh) (hpos : ChunksPos m) (anti : List Bool)
    (S : List Nat → List α → β) (reads : List (List Nat))
    (hreads : ∀ d ∈ reads, plusOffset d = true ∧ d.length = m.axes.length)
    (full : Arr α) (hfull : full.shape = m.arrShape true)
    (hseam : ∀ axis, axis < m.axes.length → SeamCond m anti full axis)
    (g : List Nat) (hg : InRange g m.shape) :
    m.combine false
        (fun id p => applyStencilOn S reads (m.setOuter full (m.exchange anti (m.initSub full)) id)
          (vadd (starts (m.box false id)) p) p) g
      = some (applyStencil S reads full g g) := by
  obtain ⟨id, ⟨hid, hb⟩, _⟩ := slices_tile_nd m g hg
  rcases combineUpTo_spec m false
      (fun id p => applyStencilOn S reads (m.setOuter full (m.exchange anti (m.initSub full)) id)
        (vadd (starts (m.box false id)) p) p)
      m.len g with ⟨i, h1, h2, h3, _⟩ | ⟨h1, _⟩
  · unfold Mesh.combine
    rw [h3]
    have hp : InRange (vsub g (starts (m.box false i))) (m.subShape i) :=
      inRange_vsub_of_inBox m.axes _ g (unravel_inRange m.dec i h1) h2
    simp only [vadd_vsub_of_inBox h2]
    congr 1
    unfold applyStencilOn applyStencil readNb
    congr 1
    apply readAll_congr
    intro d hd
    obtain ⟨hplus, hdl⟩ := hreads d hd
    have hpos' := plus_read_position (m.subShape i) _ d hp hplus (by rw [hdl, Mesh.subShape_length])
    have hag := setOuter_exchange_agree m hpos anti full hseam i h1 _ hpos'
    have hr : InRange (vadd (vsub g (starts (m.box false i))) d) ((m.subShape i).map (· + 2)) := by
      rcases hpos' with h | ⟨ax, up, h⟩
      · exact interiorAll_inRange h
      · exact onFace_inRange h
    obtain ⟨_, hget⟩ := get?_extract_ghost m full hfull h1 _ hr
    unfold Agree at hag
    rw [hag]
    rw [← vadd_assoc, vadd_vsub_of_inBox h2] at hget
    rw [hget, ← vadd_assoc, vadd_vsub_of_inBox h2]
  · rw [h1 id hid] at hb; exact absurd hb (by simp)

theorem vadd_getD (s q : List Nat) (axis : Nat) (h1 : axis < s.length) (h2 : axis < q.length) :
    (vadd s q).getD axis 0 = s.getD axis 0 + q.getD axis 0 := by
  induction s generalizing q axis with
  | nil => simp at h1
  | cons x xs ih =>
    cases q with
    | nil => simp at h2
    | cons y ys =>
      cases axis with
      | zero => simp
      | succ axis => simpa using ih ys axis (by simpa using h1) (by simpa using h2)

/-- a node without a neighbour on a side sits at the outer face of the base grid on that side -/
theorem outer_of_no_neighbor (m : Mesh) (axis : Nat) (upper : Bool) (a : Nat) (ha : a < m.len)
    (hax : axis < m.axes.length) (h : neighbor m axis upper a = none) : atSeam m axis upper a = true := by
  have hia := id2idx_inRange m ha
  have hka := inRange_getD hia axis (by rw [Mesh.dec_length]; exact hax)
  rcases (neighbor_none_iff m axis upper a).1 h with h1 | ⟨_, h2⟩
  · unfold atSeam; cases upper
    · simp only [Bool.false_eq_true, if_false, decide_eq_true_eq]; omega
    · simp only [if_true, decide_eq_true_eq]; omega
  · unfold atSeam; cases upper
    · simp only [Bool.false_eq_true, if_false] at h2
      simp only [Bool.false_eq_true, if_false, decide_eq_true_eq]; exact h2
    · simp only [if_true] at h2
      simp only [if_true, decide_eq_true_eq]; omega

/-- **outer faces: the global boundary condition on a sub-grid gives the ghost cells of the whole
grid.**  For a local condition of first order - the ghost cell is a function `bc` (which may depend
on the position in the base grid, e.g. through the coordinates along the face) of the adjacent valid
cell - applying the same `bc` to a sub-array that holds the node's share of the valid data yields, at
a face without a neighbour, exactly the ghost value of the padded base array.  (That `to_subgrid`
hands the sub-grid this same function is what the harness monitors; conditions of second order read
a second valid cell, which a one-cell chunk does not have - see the known finding.) -/
theorem outer_face_local {α : Type} (m : Mesh) (full : Arr α) (bc : List Nat → α → α)
    (axis a : Nat) (upper : Bool) (ha : a < m.len) (hax : axis < m.axes.length)
    (hnone : neighbor m axis upper a = none)
    (hbase : ∀ g, g.getD axis 0 = mpiWrite upper (m.shape.getD axis 0) →
      full.get g = bc g (full.get (g.set axis (mpiRead upper (m.shape.getD axis 0)))))
    (s : Nat → List Nat → Option α)
    (hint : ∀ p, interiorAll (m.subShape a) p = true → Agree m full s a p)
    (hn : 0 < (m.subShape a).getD axis 0)
    (q : List Nat) (hq : onFace (m.subShape a) axis upper q = true) :
    (s a (q.set axis (mpiRead upper ((m.subShape a).getD axis 0)))).map (bc (vadd (starts (m.box false a)) q))
      = some (full.get (vadd (starts (m.box false a)) q)) := by
  have hia := id2idx_inRange m ha
  have hdl : axis < m.dec.length := by rw [Mesh.dec_length]; exact hax
  have hka := inRange_getD hia axis hdl
  have hout := outer_of_no_neighbor m axis upper a ha hax hnone
  have hqf := hq
  unfold onFace at hqf
  simp only [Bool.and_eq_true, decide_eq_true_eq] at hqf
  obtain ⟨⟨_, hqe⟩, hqw⟩ := hqf
  have hread : interiorAll (m.subShape a) (q.set axis (mpiRead upper ((m.subShape a).getD axis 0))) = true := by
    apply interiorExcept_set hqe
    · unfold mpiRead; split_ifs <;> omega
    · unfold mpiRead; split_ifs <;> omega
  have hval := hint _ hread
  unfold Agree at hval
  rw [hval, Option.map_some]
  congr 1
  have hdec : m.dec.getD axis 0 = (m.axes.getD axis []).length := by
    simp only [Mesh.dec, List.getD_eq_getElem?_getD, List.getElem?_map]
    cases m.axes[axis]? <;> simp
  have hshape : m.shape.getD axis 0 = (m.axes.getD axis []).sum := by
    simp only [Mesh.shape, List.getD_eq_getElem?_getD, List.getElem?_map]
    cases m.axes[axis]? <;> simp
  have hsa : (starts (m.box false a)).getD axis 0 = offset (m.axes.getD axis []) ((m.id2idx a).getD axis 0) :=
    starts_boxOf_getD false m.axes _ axis hia hax
  have ena : (m.subShape a).getD axis 0 = sizeAt (m.axes.getD axis []) ((m.id2idx a).getD axis 0) :=
    subShapeOf_getD m.axes _ axis hia hax
  have hls : axis < (starts (m.box false a)).length := by rw [starts_length, Mesh.box_length]; exact hax
  have hlq : axis < q.length := by
    rw [InRange.length_eq (onFace_inRange hq), List.length_map, Mesh.subShape_length]; exact hax
  have hg := vadd_getD _ _ axis hls hlq
  rw [vadd_set, hsa]
  rw [hsa] at hg
  unfold atSeam at hout
  rw [hdec] at hka hout
  rw [hshape] at hbase
  rw [ena] at hqw ⊢
  generalize m.axes.getD axis [] = sizes at *
  generalize (m.id2idx a).getD axis 0 = k at *
  cases upper
  · simp only [Bool.false_eq_true, if_false, decide_eq_true_eq] at hout
    subst hout
    simp only [mpiWrite, mpiRead, Bool.false_eq_true, if_false, offset_zero, Nat.zero_add] at hbase hqw hg ⊢
    exact (hbase _ (by rw [hg, hqw])).symm
  · simp only [if_true, decide_eq_true_eq] at hout
    have e1 : offset sizes k + sizeAt sizes k = sizes.sum := by
      rw [← offset_succ, hout, offset_length]
    simp only [mpiWrite, mpiRead, if_true] at hbase hqw hg ⊢
    rw [e1]
    exact (hbase _ (by rw [hg, hqw, ← Nat.add_assoc, e1])).symm


/-! ## geometry of the sub-grids -/

section bounds
variable {K : Type} [Field K] [LinearOrder K] [IsStrictOrderedRing K]

/-- **sub-grid bounds tile the axis**: consecutive chunks share their bound, the first chunk starts
at the lower bound of the base grid and the last one ends at its upper bound -/
theorem bounds_tile (lo hi : K) (sizes : List Nat) (hpos : 0 < sizes.sum) (d : K × K) :
    (∀ i, i + 1 < sizes.length →
      ((bounds1d lo hi sizes).getD i d).2 = ((bounds1d lo hi sizes).getD (i + 1) d).1) ∧
    ((bounds1d lo hi sizes).getD 0 d).1 = lo ∧
    ((bounds1d lo hi sizes).getD (sizes.length - 1) d).2 = hi := by
  have hN : (sizes.sum : K) ≠ 0 := by exact_mod_cast (Nat.pos_iff_ne_zero.1 hpos)
  have hlen : 0 < sizes.length := by
    cases sizes with
    | nil => simp at hpos
    | cons _ _ => simp
  refine ⟨fun i hi1 => ?_, ?_, ?_⟩
  · rw [bounds1d_getD lo hi sizes hpos i d (by omega), bounds1d_getD lo hi sizes hpos (i + 1) d hi1]
  · rw [bounds1d_getD lo hi sizes hpos 0 d hlen]; simp [lat]
  · rw [bounds1d_getD lo hi sizes hpos _ d (by omega)]
    have e : sizes.length - 1 + 1 = sizes.length := by omega
    simp only [e, offset_length, lat]
    field_simp; ring

/-- a sub-grid has the spacing of the base grid -/
theorem subgrid_spacing (lo hi : K) (sizes : List Nat) (hpos : 0 < sizes.sum) (d : K × K) (i : Nat)
    (hi' : i < sizes.length) (hs : 0 < sizeAt sizes i) :
    (((bounds1d lo hi sizes).getD i d).2 - ((bounds1d lo hi sizes).getD i d).1) / (sizeAt sizes i : K)
      = (hi - lo) / (sizes.sum : K) := by
  have hN : (sizes.sum : K) ≠ 0 := by exact_mod_cast (Nat.pos_iff_ne_zero.1 hpos)
  have hn : (sizeAt sizes i : K) ≠ 0 := by exact_mod_cast (Nat.pos_iff_ne_zero.1 hs)
  rw [bounds1d_getD lo hi sizes hpos i d hi', offset_succ]
  simp only [lat]; push_cast
  field_simp; ring

/-- **cell coordinates agree**: cell `p` of chunk `i` has the coordinate of cell `offset i + p` of
the base grid -/
theorem cell_coords_agree (lo hi : K) (sizes : List Nat) (hpos : 0 < sizes.sum) (d : K × K) (i p : Nat)
    (hi' : i < sizes.length) (hs : 0 < sizeAt sizes i) :
    cellCoord ((bounds1d lo hi sizes).getD i d).1 ((bounds1d lo hi sizes).getD i d).2 (sizeAt sizes i) p
      = cellCoord lo hi sizes.sum (offset sizes i + p) := by
  have hN : (sizes.sum : K) ≠ 0 := by exact_mod_cast (Nat.pos_iff_ne_zero.1 hpos)
  have hn : (sizeAt sizes i : K) ≠ 0 := by exact_mod_cast (Nat.pos_iff_ne_zero.1 hs)
  unfold cellCoord
  rw [subgrid_spacing lo hi sizes hpos d i hi' hs, bounds1d_getD lo hi sizes hpos i d hi']
  simp only [lat]; push_cast
  ring

theorem boundsFrom_telescope (F : K → K) (lo hi : K) (n : Nat) (sizes : List Nat) (start : Nat) :
    ((boundsFrom lo hi n start sizes).map fun b => F b.2 - F b.1).sum
      = F (lattice lo hi n (start + sizes.sum)) - F (lattice lo hi n start) := by
  induction sizes generalizing start with
  | nil => simp [boundsFrom]
  | cons s ss ih =>
    simp only [boundsFrom, List.map_cons, List.sum_cons, ih (start + s), Nat.add_assoc]
    ring

/-- **volumes add up** (one axis, any volume measure with antiderivative `F`: `F = id` for a
Cartesian axis, `r^2` polar, `r^3` spherical): the sub-grids' volumes sum to the base volume -/
theorem volumes_add_up (F : K → K) (lo hi : K) (sizes : List Nat) (hpos : 0 < sizes.sum) :
    ((bounds1d lo hi sizes).map fun b => F b.2 - F b.1).sum = F hi - F lo := by
  unfold bounds1d
  split_ifs with h1
  · simp
  · rw [boundsFrom_telescope, Nat.zero_add]
    have e1 : lattice lo hi sizes.sum sizes.sum = hi := by simp [lattice]
    have e2 : lattice lo hi sizes.sum 0 = lo := by
      rw [lattice_eq_lat _ _ _ _ hpos]; simp [lat]
    rw [e1, e2]

theorem sum_range_mul (f g : Nat → K) (n P : Nat) :
    ((List.range (n * P)).map fun id => f (id / P) * g (id % P)).sum
      = ((List.range n).map f).sum * ((List.range P).map g).sum := by
  rcases Nat.eq_zero_or_pos P with hP | hP
  · subst hP; simp
  induction n with
  | zero => simp
  | succ n ih =>
    have e : (n + 1) * P = n * P + P := by ring
    rw [e, List.range_add, List.map_append, List.sum_append, ih, List.range_succ, List.map_append,
      List.sum_append, List.map_map]
    have : (List.range P).map ((fun id => f (id / P) * g (id % P)) ∘ fun x => n * P + x)
        = (List.range P).map fun r => f n * g r := by
      apply List.map_congr_left
      intro r hr
      have hr' : r < P := List.mem_range.1 hr
      simp only [Function.comp]
      have e1 : (n * P + r) / P = n := by
        rw [Nat.add_comm, Nat.add_mul_div_right _ _ hP, Nat.div_eq_of_lt hr', Nat.zero_add]
      have e2 : (n * P + r) % P = r := by
        rw [Nat.add_comm, Nat.add_mul_mod_self_right, Nat.mod_eq_of_lt hr']
      rw [e1, e2]
    rw [this, List.sum_map_mul_left]
    simp
    ring

theorem map_range_getD {α β : Type} (l : List α) (d : α) (h : α → β) :
    (List.range l.length).map (fun i => h (l.getD i d)) = l.map h := by
  induction l with
  | nil => simp
  | cons x xs ih =>
    rw [List.length_cons, List.range_succ_eq_map, List.map_cons, List.map_map]
    simp only [List.getD_cons_zero, List.map_cons]
    congr 1

theorem bounds1d_length (lo hi : K) (sizes : List Nat) : (bounds1d lo hi sizes).length = sizes.length := by
  unfold bounds1d
  split_ifs with h
  · simp [h]
  · exact boundsFrom_length lo hi _ 0 sizes

/-- **volumes add up, any number of axes** (Cartesian grids): the volumes of all sub-grids of the
mesh sum to the volume of the base grid -/
theorem volumes_add_up_nd (axes : List (List Nat)) (hpos : ∀ sizes ∈ axes, 0 < sizes.sum)
    (bs : List (K × K)) (hlen : bs.length = axes.length) :
    ((List.range (axes.map List.length).prod).map fun id =>
        volCoef .cartesian (subBounds bs axes (unravel (axes.map List.length) id))).sum
      = volCoef .cartesian bs := by
  induction axes generalizing bs with
  | nil =>
    cases bs with
    | nil => simp [volCoef, subBounds, unravel]
    | cons _ _ => simp at hlen
  | cons sizes ax ih =>
    cases bs with
    | nil => simp at hlen
    | cons b bs' =>
      obtain ⟨lo, hi⟩ := b
      have hlen' : bs'.length = ax.length := by simpa using hlen
      have ih' := ih (fun s hs => hpos s (List.mem_cons_of_mem _ hs)) bs' hlen'
      have hs := hpos sizes (List.mem_cons_self ..)
      simp only [List.map_cons, List.prod_cons, unravel, subBounds]
      have step : ∀ id, volCoef GridKind.cartesian
            ((bounds1d lo hi sizes).getD (id / (ax.map List.length).prod) (lo, hi) ::
              subBounds bs' ax (unravel (ax.map List.length) (id % (ax.map List.length).prod)))
          = (fun i => ((bounds1d lo hi sizes).getD i (lo, hi)).2 - ((bounds1d lo hi sizes).getD i (lo, hi)).1)
              (id / (ax.map List.length).prod)
            * (fun r => volCoef GridKind.cartesian (subBounds bs' ax (unravel (ax.map List.length) r)))
              (id % (ax.map List.length).prod) := by
        intro id; simp [volCoef]
      simp only [step]
      refine (sum_range_mul
        (fun i => ((bounds1d lo hi sizes).getD i (lo, hi)).2 - ((bounds1d lo hi sizes).getD i (lo, hi)).1)
        (fun r => volCoef GridKind.cartesian (subBounds bs' ax (unravel (ax.map List.length) r))) _ _).trans ?_
      rw [ih']
      have e := map_range_getD (bounds1d lo hi sizes) (lo, hi) (fun b : K × K => b.2 - b.1)
      rw [bounds1d_length] at e
      rw [e, volumes_add_up (fun x => x) lo hi sizes hs]
      simp [volCoef]


/-- **cell edges agree**: edge `p` of chunk `i` is edge `offset i + p` of the base grid -/
theorem cell_edges_agree (lo hi : K) (sizes : List Nat) (hpos : 0 < sizes.sum) (d : K × K) (i p : Nat)
    (hi' : i < sizes.length) (hs : 0 < sizeAt sizes i) :
    cellEdge ((bounds1d lo hi sizes).getD i d).1 ((bounds1d lo hi sizes).getD i d).2 (sizeAt sizes i) p
      = cellEdge lo hi sizes.sum (offset sizes i + p) := by
  have hN : (sizes.sum : K) ≠ 0 := by exact_mod_cast (Nat.pos_iff_ne_zero.1 hpos)
  have hn : (sizeAt sizes i : K) ≠ 0 := by exact_mod_cast (Nat.pos_iff_ne_zero.1 hs)
  unfold cellEdge
  rw [subgrid_spacing lo hi sizes hpos d i hi' hs, bounds1d_getD lo hi sizes hpos i d hi']
  simp only [lat]; push_cast
  ring

/-- **per-cell volumes agree** (one axis, any volume measure with antiderivative `F`): cell `p` of
chunk `i` has the volume of cell `offset i + p` of the base grid -/
theorem cell_volumes_agree (F : K → K) (lo hi : K) (sizes : List Nat) (hpos : 0 < sizes.sum) (d : K × K) (i p : Nat)
    (hi' : i < sizes.length) (hs : 0 < sizeAt sizes i) :
    F (cellEdge ((bounds1d lo hi sizes).getD i d).1 ((bounds1d lo hi sizes).getD i d).2 (sizeAt sizes i) (p + 1))
      - F (cellEdge ((bounds1d lo hi sizes).getD i d).1 ((bounds1d lo hi sizes).getD i d).2 (sizeAt sizes i) p)
    = F (cellEdge lo hi sizes.sum (offset sizes i + p + 1)) - F (cellEdge lo hi sizes.sum (offset sizes i + p)) := by
  rw [cell_edges_agree lo hi sizes hpos d i p hi' hs, cell_edges_agree lo hi sizes hpos d i (p + 1) hi' hs,
    Nat.add_assoc]

/-- **volumes add up, any number of axes, any product measure** (`Fs`: one antiderivative per axis -
Cartesian `id,..`, polar `[r^2]`, spherical `[r^3]`, cylindrical `[r^2, id]`): the volumes of all
sub-grids of the mesh sum to the volume of the base grid -/
theorem volumes_add_up_gen (Fs : List (K → K)) (axes : List (List Nat)) (hpos : ∀ sizes ∈ axes, 0 < sizes.sum)
    (bs : List (K × K)) (hlen : bs.length = axes.length) (hF : Fs.length = axes.length) :
    ((List.range (axes.map List.length).prod).map fun id =>
        volGen Fs (subBounds bs axes (unravel (axes.map List.length) id))).sum
      = volGen Fs bs := by
  induction axes generalizing bs Fs with
  | nil =>
    cases bs with
    | nil => cases Fs <;> simp [volGen, subBounds]
    | cons _ _ => simp at hlen
  | cons sizes ax ih =>
    cases bs with
    | nil => simp at hlen
    | cons b bs' =>
      cases Fs with
      | nil => simp at hF
      | cons F Fs' =>
        obtain ⟨lo, hi⟩ := b
        have hlen' : bs'.length = ax.length := by simpa using hlen
        have hF' : Fs'.length = ax.length := by simpa using hF
        have ih' := ih Fs' (fun s hs => hpos s (List.mem_cons_of_mem _ hs)) bs' hlen' hF'
        have hs := hpos sizes (List.mem_cons_self ..)
        simp only [List.map_cons, List.prod_cons, unravel, subBounds]
        have step : ∀ id, volGen (F :: Fs')
              ((bounds1d lo hi sizes).getD (id / (ax.map List.length).prod) (lo, hi) ::
                subBounds bs' ax (unravel (ax.map List.length) (id % (ax.map List.length).prod)))
            = (fun i => F ((bounds1d lo hi sizes).getD i (lo, hi)).2 - F ((bounds1d lo hi sizes).getD i (lo, hi)).1)
                (id / (ax.map List.length).prod)
              * (fun r => volGen Fs' (subBounds bs' ax (unravel (ax.map List.length) r)))
                (id % (ax.map List.length).prod) := by
          intro id; simp [volGen]
        simp only [step]
        refine (sum_range_mul
          (fun i => F ((bounds1d lo hi sizes).getD i (lo, hi)).2 - F ((bounds1d lo hi sizes).getD i (lo, hi)).1)
          (fun r => volGen Fs' (subBounds bs' ax (unravel (ax.map List.length) r))) _ _).trans ?_
        rw [ih']
        have e := map_range_getD (bounds1d lo hi sizes) (lo, hi) (fun b : K × K => F b.2 - F b.1)
        rw [bounds1d_length] at e
        rw [e, volumes_add_up F lo hi sizes hs]
        simp [volGen]

omit [LinearOrder K] [IsStrictOrderedRing K] in
/-- the volume coefficients of the grid classes are product measures -/
theorem volCoef_eq_volGen (r0 r1 z0 z1 : K) :
    volCoef .cylindrical [(r0, r1), (z0, z1)] = volGen [fun r => r * r, fun z => z] [(r0, r1), (z0, z1)] ∧
    volCoef .polar [(r0, r1)] = volGen [fun r => r * r] [(r0, r1)] ∧
    volCoef .spherical [(r0, r1)] = volGen [fun r => r * r * r] [(r0, r1)] := by
  simp [volCoef, volGen]

/-- **volumes add up on a cylindrical mesh** (any chunking the model can express: the package only
allows z-splits) -/
theorem volumes_add_up_cylinder (sr sz : List Nat) (hr : 0 < sr.sum) (hz : 0 < sz.sum) (r0 r1 z0 z1 : K) :
    ((List.range (sr.length * (sz.length * 1))).map fun id =>
        volGen [fun r : K => r * r, fun z => z] (subBounds [(r0, r1), (z0, z1)] [sr, sz] (unravel [sr.length, sz.length] id))).sum
      = volCoef .cylindrical [(r0, r1), (z0, z1)] := by
  rw [(volCoef_eq_volGen r0 r1 z0 z1).1]
  have := volumes_add_up_gen [fun r : K => r * r, fun z => z] [sr, sz]
    (by intro s hs; simp at hs; rcases hs with rfl | rfl <;> assumption) [(r0, r1), (z0, z1)] rfl rfl
  simpa using this

end bounds

/-! ## admissibility -/

/-- **more chunks than cells must raise**: if some axis is asked for more chunks than it has
cells, `from_grid` does not return a mesh (whatever the grid class) -/
theorem too_many_chunks_raises (kind : GridKind) (r0nz : Bool) (axis : Nat) (shape dec : List Nat)
    (hpos : ∀ n ∈ shape, 0 < n)
    (h : ∃ k, k < shape.length ∧ k < dec.length ∧ shape.getD k 0 < dec.getD k 0) :
    subdivideAxes kind r0nz axis shape dec ≠ .ok := by
  induction shape generalizing dec axis with
  | nil => obtain ⟨k, h1, _⟩ := h; simp at h1
  | cons n ns ih =>
    cases dec with
    | nil => obtain ⟨k, _, h2, _⟩ := h; simp at h2
    | cons c cs =>
      unfold subdivideAxes
      obtain ⟨k, h1, h2, h3⟩ := h
      have hn := hpos n (List.mem_cons_self ..)
      cases k with
      | zero =>
        simp only [List.getD_cons_zero] at h3
        rw [if_neg (by omega), if_pos (by omega)]
        simp
      | succ k =>
        simp only [List.length_cons, Nat.add_lt_add_iff_right, List.getD_cons_succ] at h1 h2 h3
        have := ih (axis + 1) cs (fun x hx => hpos x (List.mem_cons_of_mem _ hx)) ⟨k, h1, h2, h3⟩
        split_ifs <;> simp_all

theorem fromGrid_too_many_chunks (kind : GridKind) (r0nz : Bool) (shape dec : List Nat)
    (hpos : ∀ n ∈ shape, 0 < n)
    (h : ∃ k, k < shape.length ∧ k < dec.length ∧ shape.getD k 0 < dec.getD k 0) :
    fromGridOutcome kind r0nz shape dec ≠ .ok := by
  unfold fromGridOutcome
  have := too_many_chunks_raises kind r0nz 0 shape dec hpos h
  split <;> simp_all

/-- **a cylinder cannot be split radially**, and a hollow cylinder cannot be split at all -/
theorem cylinder_split_raises (r0nz : Bool) (nr nz cr cz : Nat)
    (h : 1 < cr ∨ (r0nz = true ∧ 1 < cz)) :
    fromGridOutcome .cylindrical r0nz [nr, nz] [cr, cz] ≠ .ok := by
  unfold fromGridOutcome subdivideAxes subdivideAxes subdivideAxes
  rcases h with h | ⟨h1, h2⟩
  · rw [if_neg (by omega)]
    split_ifs <;> simp_all
  · subst h1
    split_ifs <;> simp_all

/-- **admissible decompositions are accepted**: at most as many chunks as cells on every axis,
for every grid class but the cylinder -/
theorem admissible_ok (kind : GridKind) (hk : kind ≠ .cylindrical) (r0nz : Bool) (axis : Nat) (shape dec : List Nat)
    (hlen : dec.length = shape.length) (h : ∀ k, k < shape.length → dec.getD k 0 ≤ shape.getD k 0) :
    subdivideAxes kind r0nz axis shape dec = .ok := by
  induction shape generalizing dec axis with
  | nil => cases dec <;> simp_all [subdivideAxes]
  | cons n ns ih =>
    cases dec with
    | nil => simp at hlen
    | cons c cs =>
      unfold subdivideAxes
      have h0 := h 0 (by simp)
      simp only [List.getD_cons_zero] at h0
      have hrest := ih (axis + 1) cs (by simpa using hlen) (fun k hk' => by
        have := h (k + 1) (by simpa using hk')
        simpa using this)
      split_ifs with a1 a2 a3
      · exact hrest
      · omega
      · exact absurd a3.1 hk
      · exact hrest

/-- a z-split of a full cylinder is accepted -/
theorem cylinder_z_split_ok (nr nz cz : Nat) (h : cz ≤ nz) :
    fromGridOutcome .cylindrical false [nr, nz] [1, cz] = .ok := by
  unfold fromGridOutcome subdivideAxes subdivideAxes subdivideAxes
  simp only [if_true]
  split_ifs <;> simp_all <;> omega

/-! ## non-vacuity: the hypotheses are satisfiable by non-trivial meshes -/

/-- the 5x4 grid of the design probe, chunks (1,2,2) x (2,2), periodic along x -/
def exMesh : Mesh := { axes := [[1, 2, 2], [2, 2]], periodic := [true, false] }

example : exMesh.Pos := by decide
example : Contract [1, 2, 2] 5 ∧ Contract (subdivide 5 3) 5 := by decide
example : exMesh.len = 6 ∧ exMesh.shape = [5, 4] ∧ exMesh.dec = [3, 2] := by decide
example : neighbor exMesh 0 true 4 = some 0 ∧ neighbor exMesh 0 false 0 = some 4 ∧
    neighbor exMesh 1 true 1 = none ∧ neighbor exMesh 1 false 1 = some 0 := by decide
example : exMesh.box false 3 = [(1, 3), (2, 4)] ∧ exMesh.box true 3 = [(1, 5), (2, 6)] := by decide
example : InRange [4, 3] exMesh.shape ∧ inBox (exMesh.box false 5) [4, 3] = true := by decide
/-- the full 3^rank neighbourhood and the plus-shaped one are admissible read sets -/
example : ∀ d ∈ offs 2, InRange d (exMesh.axes.map fun _ => 3) := by decide
example : ∀ d ∈ [[1, 1], [0, 1], [2, 1], [1, 0], [1, 2]], InRange d (exMesh.axes.map fun _ => 3) := by decide
/-- an uneven reference subdivision where `linspace` truncation and the formula agree -/
example : subdivide 12 5 = [2, 2, 3, 2, 3] := by decide
/-- the plus-shaped read sets the driver uses meet the hypothesis of `operator_exchange_combine` -/
example : ∀ d ∈ plusReads 1, plusOffset d = true ∧ d.length = 1 := by decide
example : ∀ d ∈ plusReads 2, plusOffset d = true ∧ d.length = 2 := by decide
example : ∀ d ∈ plusReads 3, plusOffset d = true ∧ d.length = 3 := by decide
/-- a corner read is not plus-shaped -/
example : plusOffset [0, 0] = false ∧ plusOffset [2, 1, 0] = false := by decide

/-- an anti-periodic axis with 4 cells split into 2 + 2: padded base array `[-4, 1, 2, 3, 4, -1]` -/
def exAnti : Mesh := { axes := [[2, 2]], periodic := [true] }
def exAntiFull : Arr Int :=
  { shape := [6], get := fun p => match p with | [i] => [-4, 1, 2, 3, 4, -1].getD i 0 | _ => 0 }

example : ChunksPos exAnti := by decide
/-- the hypotheses of `ghost_exchange` / `exchange_faces` / `operator_exchange_combine` are satisfiable
with an anti-periodic condition -/
example : ∀ axis, axis < exAnti.axes.length → SeamCond exAnti [true] exAntiFull axis := by
  intro axis hax _ g hg
  have : axis = 0 := by simp [exAnti] at hax; omega
  subst this
  match g, hg with
  | [x], _ => simp [exAntiFull, exAnti, Mesh.shape]
  | [], h => simp [exAnti, Mesh.arrShape, Mesh.shape] at h
  | _ :: _ :: _, h => simp [exAnti, Mesh.arrShape, Mesh.shape] at h
/-- the exchange computes the sign across the seam and none at the interior face (node 0: lower ghost
`-4` from node 1's last cell `4`, upper ghost `3` from node 1's first cell) -/
example : exAnti.exchange [true] (exAnti.initSub exAntiFull) 0 [0] = some (-4) ∧
    exAnti.exchange [true] (exAnti.initSub exAntiFull) 0 [3] = some 3 ∧
    exAnti.exchange [true] (exAnti.initSub exAntiFull) 1 [3] = some (-1) := by decide
/-- py-pde before the repair of `extract_boundary_conditions` behaved like `anti = []` (no `flip_sign`
on any `_MPIBC`): the ghost cell across the seam gets `4` where the whole grid has `-4` - the last
clause of the property fails for anti-periodic conditions on a split axis -/
example : exAnti.exchange [] (exAnti.initSub exAntiFull) 0 [0] = some 4 ∧ exAntiFull.get [0] = -4 := by decide

/-- with ghost cells neighbouring boxes overlap: the later node wins (here node 1 overwrites the
last valid cell of node 0), so `extract ∘ combine = id` needs consistent sub-arrays -/
example : ({ axes := [[1, 2]], periodic := [false] } : Mesh).combine true
    (fun id _ => id) [1] = some 1 := by decide


end PdeVerif.Mesh.C17
