import PdeVerif.Props.C20
/-
C20, gap file - `MemoryStorage.from_collection` END TO END (review list item 4) at the level of the world
machine `Storage.step` (the definition the driver `c20.replay` evaluates against the real code after every
operation of every generated sequence), and the boundary statement for `extract_time_range` on unsorted
times (review list item 1).

`from_collection_world`: whenever `from_collection` returns a storage, the storages given to it all have as many
frames as the first one (>= 1), their time lists are `allclose` to the first one's, the new storage has the times
of the first storage, the `FieldCollection` of the members' templates as template, the default write mode, and
its `j`-th frame is a FRESH buffer holding the concatenation - over the given storages in the given order - of
the current content of their `j`-th frames; nothing else in the world changes.  `from_collection_read` composes
this with `read_world`/`items_world`: what `result[j]` and `result.items()` RETURN.  `from_collection_succeeds`
is the converse: the conditions under which the call succeeds.

Further sections: `bisect_local` / `extract_time_range_any_times(_world)` (item 1: on ANY times the run found starts
and ends at crossing points of the stored times), `world_slice_returns_appended` and
`world_view_read_returns_appended` (items 2, 3: what `storage[a:b]` and `storage.view_field(fid)[i]` RETURN, against
the specification log of a storage created in any reachable world), `view_items_world` (`view_field(fid).items()`).
-/
namespace PdeVerif.Storage

section fromCollectionE2E
variable {K : Type} [Add K] [Sub K] [Mul K] [Neg K] [NatCast K] [LT K] [DecidableLT K] [LE K] [DecidableLE K]

/-- what storage `s` contributes to row `k` of `from_collection`: its template and its `k`-th frame -/
def memberAt {F : Type} (s : Store K F) (k : Nat) : Option (FieldInfo × F) :=
  match s.template, s.frames[k]? with
  | some fi, some f => some (fi, f)
  | _, _ => none

omit [Sub K] [Mul K] [Neg K] [LT K] [DecidableLT K] [LE K] [DecidableLE K] in
theorem items_memberAt {F : Type} (s : Store K F) (h : WF s) :
    ∃ l, items s = .ok l ∧ l.length = s.frames.length ∧
      ∀ j (hj : j < l.length), memberAt s j = some ((l[j]).2.1, (l[j]).2.2) := by
  obtain ⟨l, h1, h2, h3⟩ := items_eq_contents s h
  have hlen : l.length = s.frames.length := by
    have := congrArg List.length h2
    simp [Store.contents, h.1] at this
    exact this
  refine ⟨l, h1, hlen, ?_⟩
  intro j hj
  have ht := h3 l[j] (List.getElem_mem hj)
  have hj' : j < s.frames.length := by omega
  have hc : (l.map (fun r => (r.1, r.2.2)))[j]'(by simpa using hj) = s.contents[j]'(by
      simp [Store.contents, h.1]; omega) := by
    simp only [h2]
  simp only [List.getElem_map, Store.contents, List.getElem_zip] at hc
  have hf : (l[j]).2.2 = s.frames[j] := (Prod.mk.inj hc).2
  unfold memberAt
  rw [ht, List.getElem?_eq_getElem hj', hf]

theorem gatherInto_ok_spec {α : Type} (fs : List α) (data data' : List (List α))
    (h : gatherInto data fs 0 = .ok data') :
    fs.length ≤ data.length ∧ data'.length = data.length ∧
      ∀ k (hk : k < data.length) (hk' : k < data'.length), data'[k] = data[k] ++ (fs[k]?).toList := by
  by_cases hle : fs.length ≤ data.length
  · obtain ⟨d, e1, e2, e3⟩ := gatherInto_spec fs data 0 (by omega)
    rw [e1] at h
    cases h
    refine ⟨hle, e2, ?_⟩
    intro k hk hk'
    rw [e3 k hk hk']
    by_cases hc : k < fs.length
    · simp [hc]
    · simp [hc]
  · rw [gatherInto_too_long fs data 0 (by omega) (by omega)] at h
    cases h

theorem gatherAll_spec {F : Type} (rtol atol : K) (times : List K) :
    ∀ (rest : List (Store K F)) (data data' : List (List (FieldInfo × F))),
      (∀ s ∈ rest, WF s) → gatherAll rtol atol times data rest = .ok data' →
      data'.length = data.length ∧
      (∀ s ∈ rest, allclose rtol atol times s.times = some true ∧ s.frames.length ≤ data.length) ∧
      ∀ k (hk : k < data.length) (hk' : k < data'.length),
        data'[k] = data[k] ++ rest.filterMap (fun s => memberAt s k) := by
  intro rest
  induction rest with
  | nil =>
    intro data data' _ h
    simp only [gatherAll] at h
    cases h
    exact ⟨rfl, by simp, by simp⟩
  | cons s rest ih =>
    intro data data' hwf h
    have hs := hwf s (by simp)
    obtain ⟨l, hl1, hl2, hl3⟩ := items_memberAt s hs
    unfold gatherAll at h
    cases hac : allclose rtol atol times s.times with
    | none => rw [hac] at h; cases h
    | some b =>
      cases b with
      | false => rw [hac] at h; cases h
      | true =>
        rw [hac, hl1] at h
        simp only at h
        cases hg : gatherInto data (l.map (fun r => (r.2.1, r.2.2))) 0 with
        | error e => rw [hg] at h; cases h
        | ok d1 =>
          rw [hg] at h
          simp only at h
          obtain ⟨g1, g2, g3⟩ := gatherInto_ok_spec _ _ _ hg
          obtain ⟨i1, i2, i3⟩ := ih d1 data' (fun s hs => hwf s (by simp [hs])) h
          refine ⟨by omega, ?_, ?_⟩
          · intro s' hs'
            rcases List.mem_cons.mp hs' with rfl | hm
            · exact ⟨hac, by simpa [hl2] using g1⟩
            · have := i2 s' hm
              exact ⟨this.1, by omega⟩
          · intro k hk hk'
            rw [i3 k (by omega) hk', g3 k hk (by omega)]
            simp only [List.filterMap_cons, List.append_assoc]
            congr 1
            by_cases hkl : k < l.length
            · rw [hl3 k hkl]
              simp [hkl]
            · have : memberAt s k = none := by
                unfold memberAt
                rw [List.getElem?_eq_none (by omega)]
                cases s.template <;> rfl
              rw [this]
              simp
              omega

theorem filterMap_full {α β : Type} (f : α → Option β) :
    ∀ l : List α, (l.filterMap f).length = l.length → ∀ x ∈ l, (f x).isSome = true := by
  intro l
  induction l with
  | nil => intro _ x hx; cases hx
  | cons a l ih =>
    intro h x hx
    have hle := List.length_filterMap_le f l
    cases hfa : f a with
    | none =>
      rw [List.filterMap_cons_none hfa] at h
      simp only [List.length_cons] at h
      omega
    | some b =>
      rw [List.filterMap_cons_some hfa] at h
      simp only [List.length_cons] at h
      rcases List.mem_cons.mp hx with rfl | hm
      · simp [hfa]
      · exact ih (by omega) x hm

omit [Add K] [Sub K] [Mul K] [Neg K] [NatCast K] [LT K] [DecidableLT K] [LE K] [DecidableLE K] in
theorem memberAt_isSome {F : Type} (s : Store K F) (k : Nat) (h : (memberAt s k).isSome = true) :
    k < s.frames.length ∧ ∃ fi, s.template = some fi := by
  unfold memberAt at h
  cases ht : s.template with
  | none => rw [ht] at h; simp at h
  | some fi =>
    by_cases hk : k < s.frames.length
    · exact ⟨hk, fi, rfl⟩
    · rw [ht, List.getElem?_eq_none (by omega)] at h; simp at h

omit [Add K] [Sub K] [Mul K] [Neg K] [NatCast K] [LT K] [DecidableLT K] [LE K] [DecidableLE K] in
theorem memberAt_proj (k : Nat) : ∀ ss : List (Store K Nat),
    (∀ s ∈ ss, (memberAt s k).isSome = true) →
    (ss.filterMap (fun s => memberAt s k)).map (·.2) = ss.map (fun s => s.frames.getD k 0) ∧
    (ss.filterMap (fun s => memberAt s k)).map (·.1) = ss.filterMap (·.template) := by
  intro ss
  induction ss with
  | nil => intro _; simp
  | cons s ss ih =>
    intro h
    obtain ⟨i1, i2⟩ := ih (fun s hs => h s (by simp [hs]))
    obtain ⟨hk, fi, hfi⟩ := memberAt_isSome s k (h s (by simp))
    have hm : memberAt s k = some (fi, s.frames[k]) := by
      unfold memberAt; rw [hfi, List.getElem?_eq_getElem hk]
    simp only [List.filterMap_cons, hm, hfi, List.map_cons, i1, i2]
    simp [hk]

/-- the storage `from_fields(times, fields)` builds at the end of `from_collection` -/
def collStore {F : Type} (times : List K) (frames : List F) (tmpl : FieldInfo) : Store K F :=
  { times := times, frames := frames, mode := .truncateOnce, dataShape := some tmpl.shape,
    dtypeSet := false, grid := some tmpl.grid, template := some tmpl }

/-- **`MemoryStorage.from_collection` end to end** (world level).  For well-formed storages `s0 :: rest`
(every storage of every reachable world: `allwf_run`, see `from_collection_args_wf`): if the call returns a
storage `k`, then
* `k` is a new storage, there is at least one frame, EVERY given storage has exactly `n = len(s0)` frames and
  times, and the times of every later storage are `allclose` to those of the first;
* the template is `FieldCollection(templates of the storages, label)`;
* the heap grows by exactly `n` fresh buffers (no stored frame, no live field is touched or aliased), row `j`
  being the concatenation of the current contents of the `j`-th frames of `s0 :: rest`, in that order;
* the new storage has the times of `s0`, these buffers as frames, the default mode `truncate_once`, data
  shape / grid of the template and no dtype; as a reader sees it (`World.view`): times of `s0`, frames = rows. -/
theorem from_collection_world (w : World K) (sids : List Nat) (label : Option String)
    (rtol atol : K) (s0 : Store K Nat) (rest : List (Store K Nat))
    (hss : sids.mapM (fun i => w.stores[i]?) = some (s0 :: rest))
    (hwf : ∀ s ∈ s0 :: rest, WF s)
    (w' : World K) (k : Nat)
    (hstep : step w (.fromCollection sids label rtol atol) = (w', .ok (.store k))) :
    let n := s0.times.length
    let rows : List (List K) := (List.range n).map (fun j =>
      ((s0 :: rest).map (fun s => w.deref (s.frames.getD j 0))).flatten)
    k = w.stores.length ∧ 1 ≤ n ∧
    (∀ s ∈ s0 :: rest, s.frames.length = n ∧ s.times.length = n) ∧
    (∀ s ∈ rest, allclose rtol atol s0.times s.times = some true) ∧
    ∃ tmpl, collInfo label ((s0 :: rest).filterMap (·.template)) = .ok tmpl ∧
      w'.heap = w.heap ++ rows ∧ w'.fields = w.fields ∧
      w'.stores = w.stores ++ [collStore s0.times (List.range' w.heap.length n) tmpl] ∧
      w'.view k = some (collStore s0.times rows tmpl) := by
  intro n rows
  have hs0 := hwf s0 (by simp)
  obtain ⟨it0, hi1, hi2, hi3⟩ := items_memberAt s0 hs0
  simp only [step, hss, hi1] at hstep
  cases hg : gatherAll rtol atol s0.times (it0.map (fun r => [(r.2.1, r.2.2)])) rest with
  | error e => rw [hg] at hstep; simp at hstep
  | ok data =>
    rw [hg] at hstep
    simp only at hstep
    obtain ⟨g1, g2, g3⟩ := gatherAll_spec rtol atol s0.times rest _ data
      (fun s hs => hwf s (by simp [hs])) hg
    simp only [List.length_map] at g1 g2 g3
    cases hm : data.mapM (fun d => collInfo label (d.map (·.1))) with
    | error e => rw [hm] at hstep; simp at hstep
    | ok infos =>
      rw [hm] at hstep
      simp only at hstep
      cases infos with
      | nil => simp at hstep
      | cons fi0 more =>
        simp only at hstep
        split_ifs at hstep with hc1 hc2
        · simp at hstep
        · simp at hstep
        · have hn : it0.length = n := by rw [hi2, ← hs0.1]
          -- every row is the list of the members' contributions
          have hrow : ∀ j (hj : j < n), data[j]'(by omega) =
              (s0 :: rest).filterMap (fun s => memberAt s j) := by
            intro j hj
            rw [g3 j (by omega) (by omega)]
            simp only [List.getElem_map, List.filterMap_cons, hi3 j (by omega)]
            rfl
          have hlenrow : ∀ j (hj : j < n), (data[j]'(by omega)).length = rest.length + 1 := by
            intro j hj
            have hmem : data[j]'(by omega) ∈ data := List.getElem_mem _
            by_contra hne
            exact hc2 (List.any_eq_true.mpr ⟨_, hmem, by simpa using hne⟩)
          have hall : ∀ j (hj : j < n), ∀ s ∈ s0 :: rest, (memberAt s j).isSome = true := by
            intro j hj
            apply filterMap_full
            rw [← hrow j hj, hlenrow j hj]
            simp
          -- there is at least one row
          have hhead : 1 ≤ n ∧ collInfo label ((data[0]?.getD []).map (·.1)) = .ok fi0 := by
            cases data with
            | nil => simp [pure, Except.pure] at hm
            | cons d0 dr =>
              rw [List.mapM_cons] at hm
              cases hc : collInfo label (d0.map (·.1)) with
              | error e => simp [hc, bind, Except.bind] at hm
              | ok c =>
                simp only [hc, bind, Except.bind] at hm
                cases hr : dr.mapM (fun d => collInfo label (d.map (·.1))) with
                | error e => simp [hr] at hm
                | ok cs =>
                  simp only [hr, pure, Except.pure, Except.ok.injEq, List.cons.injEq] at hm
                  simp only [List.length_cons] at g1
                  exact ⟨by omega, by simp only [List.getElem?_cons_zero, Option.getD_some]; rw [hc, hm.1]⟩
          obtain ⟨hn1, hfi0⟩ := hhead
          have hsame : ∀ s ∈ s0 :: rest, s.frames.length = n ∧ s.times.length = n := by
            intro s hs
            have hw := (hwf s hs).1
            rcases List.mem_cons.mp hs with rfl | hr
            · exact ⟨by omega, rfl⟩
            · have h1 := (memberAt_isSome s (n - 1) (hall (n - 1) (by omega) s hs)).1
              have h2 := (g2 s hr).2
              omega
          have hrows : data.map (fun d => (d.map (fun p => w.deref p.2)).flatten) = rows := by
            apply List.ext_getElem
            · simp [rows]; omega
            · intro j h1 h2
              have hj : j < n := by simpa [rows] using h2
              simp only [rows, List.getElem_map, List.getElem_range]
              congr 1
              have := (memberAt_proj j (s0 :: rest) (hall j hj)).1
              rw [← hrow j hj] at this
              have h3 : (data[j]'(by omega)).map (fun p => w.deref p.2) =
                  ((data[j]'(by omega)).map (·.2)).map w.deref := by
                simp [List.map_map, Function.comp_def]
              rw [h3, this]
              simp [List.map_map, Function.comp_def]
          have htm : collInfo label ((s0 :: rest).filterMap (·.template)) = .ok fi0 := by
            rw [← hfi0, List.getElem?_eq_getElem (by omega : 0 < data.length)]
            simp only [Option.getD_some]
            rw [hrow 0 (by omega), (memberAt_proj 0 (s0 :: rest) (hall 0 (by omega))).2]
          rw [hrows] at hstep
          have hrl : rows.length = n := by simp [rows]
          rw [construct_ok _ _ _ _ (by simp [hrl]; rfl)] at hstep
          simp only [Prod.mk.injEq, Except.ok.injEq, Obs.store.injEq] at hstep
          obtain ⟨hw', hk⟩ := hstep
          subst hw'
          subst hk
          refine ⟨rfl, hn1, hsame, fun s hs => (g2 s hs).1, fi0, htm, rfl, rfl, ?_, ?_⟩
          · simp only [hrl]; rfl
          · rw [view_push]
            simp only [Option.some.injEq, Store.mapFrames, collStore, Option.map_some]
            congr 1
            have := map_deref_fresh w rows
            rw [hrl] at this ⊢
            exact this

theorem mapM_some_mem {α β : Type} (f : α → Option β) :
    ∀ (l : List α) (r : List β), l.mapM f = some r → ∀ x ∈ r, ∃ a ∈ l, f a = some x := by
  intro l
  induction l with
  | nil => intro r h x hx; simp at h; subst h; cases hx
  | cons a l ih =>
    intro r h x hx
    rw [List.mapM_cons] at h
    cases hfa : f a with
    | none => simp [hfa] at h
    | some b =>
      cases hl : l.mapM f with
      | none => simp [hfa, hl] at h
      | some bs =>
        simp [hfa, hl] at h
        subst h
        rcases List.mem_cons.mp hx with rfl | hm
        · exact ⟨a, by simp, hfa⟩
        · obtain ⟨a', ha', hf'⟩ := ih bs hl x hm
          exact ⟨a', by simp [ha'], hf'⟩

omit [Add K] [Sub K] [Mul K] [Neg K] [NatCast K] [LT K] [DecidableLT K] [LE K] [DecidableLE K] in
/-- the storages handed to `from_collection` in a world whose storages are all well formed (every
reachable world: `allwf_run`) are well formed -/
theorem from_collection_args_wf (w : World K) (hwf : w.AllWF) (sids : List Nat)
    (ss : List (Store K Nat)) (hss : sids.mapM (fun i => w.stores[i]?) = some ss) :
    ∀ s ∈ ss, WF s := by
  intro s hs
  obtain ⟨i, _, hi⟩ := mapM_some_mem _ sids ss hss s hs
  exact hwf s (List.mem_of_getElem? hi)

omit [Add K] [Sub K] [Mul K] [Neg K] [NatCast K] [LT K] [DecidableLT K] [LE K] [DecidableLE K] in
theorem wf_collStore {F : Type} (times : List K) (frames : List F) (tmpl : FieldInfo)
    (h : times.length = frames.length) : WF (collStore times frames tmpl) := by
  refine ⟨h, by simp [collStore], ?_⟩
  intro _
  exact ⟨tmpl, rfl, rfl⟩

/-- **reading the result of `from_collection`**: in every world whose storages are well formed, when
`from_collection` returns a storage `k`, then `k[j]` RETURNS, for every `j < n`, a collection field (the
`FieldCollection` of the members' templates) whose data is the concatenation over the given storages, in
the given order, of the current content of their `j`-th frames; `k[n]` is `IndexError`; `items()` returns
these fields with the times of the first storage -/
theorem from_collection_read (w : World K) (hwf : w.AllWF) (sids : List Nat) (label : Option String)
    (rtol atol : K) (s0 : Store K Nat) (rest : List (Store K Nat))
    (hss : sids.mapM (fun i => w.stores[i]?) = some (s0 :: rest))
    (w' : World K) (k : Nat)
    (hstep : step w (.fromCollection sids label rtol atol) = (w', .ok (.store k))) :
    let n := s0.times.length
    let row : Nat → List K := fun j => ((s0 :: rest).map (fun s => w.deref (s.frames.getD j 0))).flatten
    ∃ tmpl, collInfo label ((s0 :: rest).filterMap (·.template)) = .ok tmpl ∧
      (∀ j, j < n → (step w' (.read k (j : Int))).2 = .ok (.field tmpl (row j))) ∧
      (step w' (.read k (n : Int))).2 = .error .index ∧
      ∃ l, (step w' (.items k)).2 = .ok (.items l) ∧
        l.map (fun r => (r.1, r.2.2)) = s0.times.zip ((List.range n).map row) := by
  intro n row
  obtain ⟨_, _, _, _, tmpl, h1, _, _, _, hv⟩ := from_collection_world w sids label rtol atol s0 rest hss
    (from_collection_args_wf w hwf sids _ hss) w' k hstep
  have hlen : s0.times.length = ((List.range n).map row).length := by simp [n]
  have hw := wf_collStore s0.times ((List.range n).map row) tmpl hlen
  refine ⟨tmpl, h1, ?_, ?_, ?_⟩
  · intro j hj
    rw [read_world w' k _ _ hv]
    obtain ⟨fi, hfi, hg⟩ := getField_nat _ hw j (by simpa [collStore] using hj)
    rw [hg]
    simp only [collStore, Option.some.injEq] at hfi
    subst hfi
    simp [collStore]
  · rw [read_world w' k _ _ hv]
    have := getField_out_of_range (collStore s0.times ((List.range n).map row) tmpl) (n : Int) (Or.inr (by simp [collStore, n]))
    rw [this]
  · obtain ⟨l, hl1, hl2, _⟩ := items_eq_contents _ hw
    refine ⟨l, ?_, ?_⟩
    · rw [(items_world w' k _ hv).1, hl1]
    · rw [hl2]; rfl

/-- `from_collection([])` is `cls()`: a new empty storage in the default mode -/
theorem from_collection_nil (w : World K) (label : Option String) (rtol atol : K) :
    step w (.fromCollection [] label rtol atol) =
      ({ w with stores := w.stores ++ [Store.new .truncateOnce] }, .ok (.store w.stores.length)) := by
  simp [step]

theorem gatherAll_ok {F : Type} (rtol atol : K) (times : List K) :
    ∀ (rest : List (Store K F)) (data : List (List (FieldInfo × F))),
      (∀ s ∈ rest, WF s ∧ s.frames.length = data.length ∧ allclose rtol atol times s.times = some true) →
      ∃ data', gatherAll rtol atol times data rest = .ok data' := by
  intro rest
  induction rest with
  | nil => intro data _; exact ⟨data, rfl⟩
  | cons s rest ih =>
    intro data h
    obtain ⟨hw, hl, hc⟩ := h s (by simp)
    obtain ⟨l, hl1, hl2, _⟩ := items_memberAt s hw
    obtain ⟨d1, e1, e2, _⟩ := gatherInto_spec (l.map (fun r => (r.2.1, r.2.2))) data 0 (by simp; omega)
    obtain ⟨d2, hd2⟩ := ih d1 (fun s' hs' => by
      obtain ⟨a, b, c⟩ := h s' (by simp [hs'])
      exact ⟨a, by omega, c⟩)
    refine ⟨d2, ?_⟩
    unfold gatherAll
    rw [hc, hl1]
    simp only [e1]
    exact hd2

/-- **when `from_collection` succeeds** (converse of `from_collection_world`): well-formed storages with the same
number `n >= 1` of frames, times of every later storage `allclose` to those of the first, and templates from which
`FieldCollection(...)` can be built (same grid, no nested collection) - then the call returns a new storage. -/
theorem from_collection_succeeds (w : World K) (sids : List Nat) (label : Option String)
    (rtol atol : K) (s0 : Store K Nat) (rest : List (Store K Nat))
    (hss : sids.mapM (fun i => w.stores[i]?) = some (s0 :: rest))
    (hwf : ∀ s ∈ s0 :: rest, WF s) (hn : 1 ≤ s0.times.length)
    (hlen : ∀ s ∈ rest, s.times.length = s0.times.length)
    (hclose : ∀ s ∈ rest, allclose rtol atol s0.times s.times = some true)
    (tmpl : FieldInfo) (htm : collInfo label ((s0 :: rest).filterMap (·.template)) = .ok tmpl) :
    ∃ w', step w (.fromCollection sids label rtol atol) = (w', .ok (.store w.stores.length)) := by
  have hs0 := hwf s0 (by simp)
  obtain ⟨it0, hi1, hi2, hi3⟩ := items_memberAt s0 hs0
  have hn0 : it0.length = s0.times.length := by rw [hi2, ← hs0.1]
  obtain ⟨data, hg⟩ := gatherAll_ok rtol atol s0.times rest (it0.map (fun r => [(r.2.1, r.2.2)]))
    (fun s hs => ⟨hwf s (by simp [hs]), by
      have := (hwf s (by simp [hs])).1
      have := hlen s hs
      simp only [List.length_map]; omega, hclose s hs⟩)
  obtain ⟨g1, g2, g3⟩ := gatherAll_spec rtol atol s0.times rest _ data
    (fun s hs => hwf s (by simp [hs])) hg
  simp only [List.length_map] at g1 g2 g3
  have hrow : ∀ j (hj : j < s0.times.length), data[j]'(by omega) =
      (s0 :: rest).filterMap (fun s => memberAt s j) := by
    intro j hj
    rw [g3 j (by omega) (by omega)]
    simp only [List.getElem_map, List.filterMap_cons, hi3 j (by omega)]
    rfl
  have hall : ∀ j (hj : j < s0.times.length), ∀ s ∈ s0 :: rest, (memberAt s j).isSome = true := by
    intro j hj s hs
    have hw := hwf s hs
    have hfl : j < s.frames.length := by
      rcases List.mem_cons.mp hs with rfl | hr
      · have := hw.1; omega
      · have := hw.1; have := hlen s hr; omega
    obtain ⟨fi, hfi, _⟩ := template_present s hw (by intro h0; rw [h0] at hfl; simp at hfl)
    unfold memberAt
    rw [hfi, List.getElem?_eq_getElem hfl]
    rfl
  have hrows : ∀ d ∈ data, d.map (·.1) = (s0 :: rest).filterMap (·.template) ∧
      d.length = rest.length + 1 := by
    intro d hd
    obtain ⟨j, hj, rfl⟩ := List.getElem_of_mem hd
    have hj' : j < s0.times.length := by omega
    obtain ⟨p1, p2⟩ := memberAt_proj j (s0 :: rest) (hall j hj')
    rw [hrow j hj']
    refine ⟨p2, ?_⟩
    have := congrArg List.length p1
    simpa using this
  have hm : data.mapM (fun d => collInfo label (d.map (·.1))) = .ok (data.map (fun _ => tmpl)) := by
    apply mapM_ok
    intro d hd
    rw [(hrows d hd).1, htm]
  simp only [step, hss, hi1, hg, hm]
  cases data with
  | nil => simp at g1; omega
  | cons d0 dr =>
    simp only [List.map_cons]
    rw [if_neg (by simp), if_neg]
    · rw [construct_ok _ _ _ _ (by simp; simp at g1; omega)]
      exact ⟨_, rfl⟩
    · simp only [List.any_eq_true, decide_eq_true_eq, not_exists, not_and, not_not]
      intro d hd
      exact (hrows d hd).2

end fromCollectionE2E

/-! non-vacuity -/
def exCollWorld : World Rat :=
  run World.empty [.newField exInfo [1, 2], .newField ⟨0, 2, [1, 2], 1, some "w", []⟩ [7, 8],
    .newStore .truncateOnce, .newStore .append, .start 0 0, .start 1 1, .append 0 0 (some 0) true,
    .append 1 1 (some 0) true, .setField 0 [3, 4], .append 0 0 (some 2) true, .append 1 1 (some 2) true]

example : exCollWorld.AllWF := allwf_run _ _ allwf_empty

example : (([0, 1, 0] : List Nat).mapM (fun i => exCollWorld.stores[i]?)).map (·.map (·.times)) =
    some [[0, 2], [0, 2], [0, 2]] := by decide +kernel

example : (match (step exCollWorld (.fromCollection [0, 1, 0] (some "L") (1/100000) (1/100000000))).2 with
    | .ok (.store k) => some k
    | _ => none) = some 2 := by decide +kernel

/-- the hypotheses of `from_collection_succeeds` on the same world: equal frame counts, `allclose` times, and a
`FieldCollection` of the three templates exists (3 rows: scalar + vector + scalar) -/
example : allclose (1/100000 : Rat) (1/100000000) [0, 2] [0, 2] = some true := by decide +kernel

example : (match ([0, 1, 0] : List Nat).mapM (fun i => exCollWorld.stores[i]?) with
    | some ss => (collInfo (some "L") (ss.filterMap (·.template))).toOption.map (·.shape)
    | none => none) = some [3, 2] := by decide +kernel

/-! ### `extract_time_range` on unsorted times: the boundaries are crossing points -/

section bisectLocal
variable {K : Type}

/-- numpy's branch-free search on ANY array (sorted or not), ANY predicate: the loop ends at a position
`b < n` with "`b = 0` or go right of `a[b]`" and "`b + 1 = n` or go left of `a[b + 1]`".  Invariant: the lower
end was accepted, and the element at the upper end `base + len` - or, after an odd split, the LAST element of
the range - was refused. -/
theorem bisectGo_local (go : K → Bool) (ts : List K) :
    ∀ fuel base len, 1 ≤ len → len ≤ fuel + 1 → base + len ≤ ts.length →
      (base = 0 ∨ (ts[base]?).map go = some true) →
      (∃ u, (u = base + len ∨ (u + 1 = base + len ∧ base < u)) ∧
        (u = ts.length ∨ (ts[u]?).map go = some false)) →
      bisectGo go ts fuel base len < ts.length ∧
      (bisectGo go ts fuel base len = 0 ∨ (ts[bisectGo go ts fuel base len]?).map go = some true) ∧
      (bisectGo go ts fuel base len + 1 = ts.length ∨
        (ts[bisectGo go ts fuel base len + 1]?).map go = some false) := by
  intro fuel
  induction fuel with
  | zero =>
    intro base len h1 h2 h3 hlo ⟨u, hu1, hu2⟩
    have : len = 1 := by omega
    subst this
    simp only [bisectGo]
    refine ⟨by omega, hlo, ?_⟩
    rcases hu1 with rfl | ⟨_, _⟩
    · exact hu2
    · omega
  | succ n ih =>
    intro base len h1 h2 h3 hlo ⟨u, hu1, hu2⟩
    by_cases hl : 1 < len
    · have hlt : base + len / 2 < ts.length := by omega
      have hstep : bisectGo go ts (n + 1) base len =
          bisectGo go ts n (if go ts[base + len / 2] then base + len / 2 else base) (len - len / 2) := by
        rw [bisectGo, if_pos hl]
        simp only [List.getElem?_eq_getElem hlt]
      rw [hstep]
      by_cases hg : go ts[base + len / 2] = true
      · rw [if_pos hg]
        apply ih (base + len / 2) (len - len / 2) (by omega) (by omega) (by omega)
        · right; simp [List.getElem?_eq_getElem hlt, hg]
        · refine ⟨u, ?_, hu2⟩
          rcases hu1 with rfl | ⟨e, hlt'⟩
          · left; omega
          · by_cases h2' : len = 2
            · subst h2'
              have hu : u = base + 2 / 2 := by omega
              subst hu
              rcases hu2 with hn | hf
              · omega
              · simp [List.getElem?_eq_getElem hlt, hg] at hf
            · right; omega
      · rw [if_neg hg]
        apply ih base (len - len / 2) (by omega) (by omega) (by omega) hlo
        refine ⟨base + len / 2, by omega, Or.inr ?_⟩
        simp only [List.getElem?_eq_getElem hlt, Option.map_some, Option.some.injEq]
        simpa using hg
    · have : len = 1 := by omega
      subst this
      have hstep : bisectGo go ts (n + 1) base 1 = base := by
        rw [bisectGo, if_neg (by omega)]
      rw [hstep]
      refine ⟨by omega, hlo, ?_⟩
      rcases hu1 with rfl | ⟨_, _⟩
      · exact hu2
      · omega

/-- `np.searchsorted` (the modelled loop) on ANY array: the answer `r` is a crossing point of the predicate -
`r = 0` or the element before `r` is accepted, and `r = n` or the element at `r` is refused -/
theorem bisect_local (go : K → Bool) (ts : List K) :
    bisect go ts ≤ ts.length ∧
    (bisect go ts = 0 ∨ (ts[bisect go ts - 1]?).map go = some true) ∧
    (bisect go ts = ts.length ∨ (ts[bisect go ts]?).map go = some false) := by
  by_cases hn : ts.length = 0
  · have : ts = [] := List.eq_nil_of_length_eq_zero hn
    subst this
    simp [bisect, bisectGo]
  · obtain ⟨h1, h2, h3⟩ := bisectGo_local go ts ts.length 0 ts.length (by omega) (by omega) (by omega)
      (Or.inl rfl) ⟨ts.length, Or.inl (by omega), Or.inl rfl⟩
    unfold bisect
    simp only
    rw [List.getElem?_eq_getElem h1]
    simp only
    by_cases hg : go ts[bisectGo go ts ts.length 0 ts.length] = true
    · rw [if_pos hg]
      refine ⟨by omega, Or.inr ?_, ?_⟩
      · simp [List.getElem?_eq_getElem h1, hg]
      · rcases h3 with h | h
        · left; omega
        · right; exact h
    · rw [if_neg hg]
      refine ⟨by omega, ?_, Or.inr ?_⟩
      · rcases h2 with h | h
        · left; exact h
        · simp [List.getElem?_eq_getElem h1, hg] at h
      · simp only [List.getElem?_eq_getElem h1, Option.map_some, Option.some.injEq]
        simpa using hg

section etr
variable {F : Type} [LinearOrder K]

/-- **`extract_time_range(a, b)` on ANY time stamps (sorted or not) - the full statement** (review list item 1;
`extract_time_range_consistent` only says "a contiguous run").  The call never fails and returns the pairs
`i .. j-1` (the same frame objects, same template, default mode) where `i`, `j` are numpy's answers, and these
are CROSSING POINTS of the stored times: the pair before the run (if any) is earlier than `a` and the first pair
from `i` on (if any) is not; the pair before `j` (if any) is not later than `b` and the pair at `j` (if any) is
later than `b`.  On sorted times the crossing points are unique and the run is the interval filter
(`extract_time_range_consistent`); on unsorted times WHICH crossing is found depends on the search loop
(`extract_time_range_is_slice`: exactly the modelled one). -/
theorem extract_time_range_any_times (s : Store K F) (hlen : s.times.length = s.frames.length) (a b : K) :
    ∃ s' i j, extractTimeRange s (.pair (some a) (some b)) = .ok s' ∧
      i = bisectLeft s.times a ∧ j = bisectRight s.times b ∧
      i ≤ s.times.length ∧ j ≤ s.times.length ∧
      s'.contents = (s.contents.drop i).take (j - i) ∧ s'.frames = (s.frames.drop i).take (j - i) ∧
      s'.template = s.template ∧ s'.mode = .truncateOnce ∧
      (i = 0 ∨ ∃ t, s.times[i - 1]? = some t ∧ t < a) ∧
      (i = s.times.length ∨ ∃ t, s.times[i]? = some t ∧ a ≤ t) ∧
      (j = 0 ∨ ∃ t, s.times[j - 1]? = some t ∧ t ≤ b) ∧
      (j = s.times.length ∨ ∃ t, s.times[j]? = some t ∧ b < t) := by
  obtain ⟨s', i, n, h1, hi, hn, hc, hf, ht, hm, _⟩ := extract_time_range_is_slice s hlen a b
  obtain ⟨l1, l2, l3⟩ := bisect_local (fun v => decide (v < a)) s.times
  obtain ⟨r1, r2, r3⟩ := bisect_local (fun v => !decide (b < v)) s.times
  refine ⟨s', bisectLeft s.times a, bisectRight s.times b, h1, rfl, rfl, l1, r1, ?_, ?_, ht, hm,
    ?_, ?_, ?_, ?_⟩
  · rw [hc, hi, hn]
  · rw [hf, hi, hn]
  · rcases l2 with h | h
    · exact Or.inl h
    · right
      obtain ⟨t, e1, e2⟩ := Option.map_eq_some_iff.mp h
      exact ⟨t, e1, by simpa using e2⟩
  · rcases l3 with h | h
    · exact Or.inl h
    · right
      obtain ⟨t, e1, e2⟩ := Option.map_eq_some_iff.mp h
      exact ⟨t, e1, by simpa using e2⟩
  · rcases r2 with h | h
    · exact Or.inl h
    · right
      obtain ⟨t, e1, e2⟩ := Option.map_eq_some_iff.mp h
      exact ⟨t, e1, by simpa using e2⟩
  · rcases r3 with h | h
    · exact Or.inl h
    · right
      obtain ⟨t, e1, e2⟩ := Option.map_eq_some_iff.mp h
      exact ⟨t, e1, by simpa using e2⟩

/-- a concrete unsorted instance: the run found is `[3, 7)`; before it `-1/2 < 1/2`, at its start `1/2`, and it
runs to the end of the list -/
example : (bisectLeft ([1/2, 5/2, -1/2, 1/2, 1/2, -5/2, -3] : List Rat) (1/2),
    bisectRight ([1/2, 5/2, -1/2, 1/2, 1/2, -5/2, -3] : List Rat) (1/2)) = (3, 7) := by decide +kernel

end etr

end bisectLocal

/-! ### `extract_time_range` on any times, in the world -/

section etrWorld
variable {K : Type} [Add K] [Sub K] [Mul K] [Neg K] [NatCast K] [LinearOrder K]

/-- **`extract_time_range(a, b)` in the world, ANY time stamps** (`extract_time_range_any_times` composed with
`extract_time_range_world`): the operation returns a new storage, allocates nothing (it shares the frame objects),
and a reader of the new storage sees the pairs `i .. j-1` of what a reader of the source sees, `i`/`j` crossing
points of the stored times as in `extract_time_range_any_times` -/
theorem extract_time_range_any_times_world (w : World K) (sid : Nat) (a b : K) (sv : Store K (List K))
    (hv : w.view sid = some sv) (hlen : sv.times.length = sv.frames.length) :
    ∃ sv' i j,
      (step w (.extractTimeRange sid (.pair (some a) (some b)))).2 = .ok (.store w.stores.length) ∧
      (step w (.extractTimeRange sid (.pair (some a) (some b)))).1.view w.stores.length = some sv' ∧
      (step w (.extractTimeRange sid (.pair (some a) (some b)))).1.heap = w.heap ∧
      i = bisectLeft sv.times a ∧ j = bisectRight sv.times b ∧
      i ≤ sv.times.length ∧ j ≤ sv.times.length ∧
      sv'.contents = (sv.contents.drop i).take (j - i) ∧
      sv'.template = sv.template ∧ sv'.mode = .truncateOnce ∧
      (i = 0 ∨ ∃ t, sv.times[i - 1]? = some t ∧ t < a) ∧
      (i = sv.times.length ∨ ∃ t, sv.times[i]? = some t ∧ a ≤ t) ∧
      (j = 0 ∨ ∃ t, sv.times[j - 1]? = some t ∧ t ≤ b) ∧
      (j = sv.times.length ∨ ∃ t, sv.times[j]? = some t ∧ b < t) := by
  obtain ⟨s, hs, rfl⟩ := view_some w sid sv hv
  have hlen' : s.times.length = s.frames.length := by simpa [Store.mapFrames] using hlen
  obtain ⟨s', _, _, hr, _⟩ := extract_time_range_any_times s hlen' a b
  obtain ⟨w1, w2, w3⟩ := extract_time_range_world w sid _ s s' hs hr
  obtain ⟨s'', i, j, hr', hi, hj, r⟩ := extract_time_range_any_times (s.mapFrames w.deref) hlen a b
  rw [w2] at hr'
  cases hr'
  obtain ⟨r1, r2, r3, _, r5, r6, r7⟩ := r
  refine ⟨_, i, j, ?_, w1, w3, hi, hj, r1, r2, r3, r5, r6, r7⟩
  simp only [step, hs, hr]

end etrWorld

/-- the hypotheses of `extract_time_range_any_times_world` hold for storage 0 of the example world -/
example : (exCollWorld.view 0).map (fun sv => (sv.times, decide (sv.times.length = sv.frames.length))) =
    some ([0, 2], true) := by decide +kernel

/-! ### composed observations: `storage[a:b]` and `view_field(fid)[i]` against the specification log -/

section composed
variable {K : Type} [Add K] [Sub K] [Mul K] [Neg K] [NatCast K] [LT K] [DecidableLT K] [LE K] [DecidableLE K]

/-- **`storage[a:b]`, observed through the operation itself** (review list item 2, the slice half that
`world_read_returns_appended` leaves out): for a storage created in any reachable world, after any safe
continuation, the slice RETURNS the data of the pairs `lo .. hi-1` of the specification log, in order (`lo`, `hi`:
Python's `slice.indices` bounds), never raises, and leaves the world as it is -/
theorem world_slice_returns_appended (w : World K) (h : w.Inv) (hwf : w.AllWF) (m : Mode)
    (ops : List (Op K)) (hops : ∀ op ∈ ops, op.safe = true) (a b : Option Int) :
    let w0 := (step w (.newStore m)).1
    let sid := w.stores.length
    let w1 := run w0 ops
    let log := (runBoth (Store.new m) (Spec.init m) (wtraceL sid w0 ops)).2.log
    ∃ l, (step w1 (.slice sid a b)).2 = .ok (.fields l) ∧
      l.map Prod.snd = ((log.map Prod.snd).drop (sliceBound log.length a 0)).take
        (sliceBound log.length b log.length - sliceBound log.length a 0) ∧
      (step w1 (.slice sid a b)).1 = w1 := by
  intro w0 sid w1 log
  obtain ⟨sv, hv, hsv, hc, _⟩ := world_reads_appended w h hwf m ops hops
  have hw : WF sv := by rw [hsv]; exact wf_srun _ _ (wf_new m)
  have hfr : sv.frames = log.map Prod.snd := by
    rw [show log = sv.contents from hc.symm]
    simp only [Store.contents]
    rw [List.map_snd_zip]
    rw [hw.1]
  have hlen : sv.times.length = log.length := by
    rw [show log = sv.contents from hc.symm]
    simp [Store.contents, hw.1]
  obtain ⟨l, hl1, hl2, _⟩ := getSlice_eq sv hw a b
  obtain ⟨e1, e2⟩ := slice_world w1 sid a b sv hv
  refine ⟨l, by rw [e1, hl1], ?_, e2⟩
  rw [hl2, hfr, hlen]

/-- **`storage.view_field(fid)[i]`, observed through the operations themselves** (review list item 3 composed
with the specification log): for a storage created in any reachable world, after any safe continuation, whenever the
view read returns a field, `storage[i]` returns the collection field `fi` holding the `i`-th logged data, and the
view's field is member `j` of it - the member `extract_field` selects for the same id -: description
`memberInfo fi mem`, data `sliceFrame fi j` of the logged data (the data at the moment of appending) -/
theorem world_view_read_returns_appended (w : World K) (h : w.Inv) (hwf : w.AllWF) (m : Mode)
    (ops : List (Op K)) (hops : ∀ op ∈ ops, op.safe = true) (fid : FieldId) :
    let w0 := (step w (.newStore m)).1
    let sid := w.stores.length
    let w1 := run w0 ops
    let log := (runBoth (Store.new m) (Spec.init m) (wtraceL sid w0 ops)).2.log
    ∀ i (hi : i < log.length) (mi : FieldInfo) (vals : List K),
      (step w1 (.viewRead sid fid (i : Int))).2 = .ok (.field mi vals) →
      ∃ fi j mem sv, (step w1 (.read sid (i : Int))).2 = .ok (.field fi (log[i]).2) ∧
        w1.view sid = some sv ∧ extractFieldPlan sv fid none = .ok (fi, j, memberInfo fi mem none) ∧
        mi = memberInfo fi mem none ∧ vals = sliceFrame fi j (log[i]).2 := by
  intro w0 sid w1 log i hi mi vals hobs
  obtain ⟨sv, hv, hsv, _, _⟩ := world_reads_appended w h hwf m ops hops
  have hr := read_returns_appended_in_order (K := K) (F := List K) m (wtraceL sid w0 ops)
  simp only at hr
  rw [← hsv] at hr
  obtain ⟨_, _, hnat, _, _⟩ := hr
  obtain ⟨fi', _, hg⟩ := hnat i hi
  rw [view_field_world w1 sid fid _ sv hv] at hobs
  cases hc : viewCreate sv fid with
  | error e => rw [hc] at hobs; cases hobs
  | ok fidx =>
    rw [hc] at hobs
    simp only at hobs
    cases hvg : viewGet sv fidx (i : Int) with
    | error e => rw [hvg] at hobs; cases hobs
    | ok r =>
      obtain ⟨fi, f, j, mem⟩ := r
      rw [hvg] at hobs
      simp only [Except.ok.injEq, Obs.field.injEq] at hobs
      obtain ⟨g1, g2⟩ := view_field_consistent sv fid fidx _ fi f j mem hc hvg
      rw [hg] at g1
      simp only [Except.ok.injEq, Prod.mk.injEq] at g1
      obtain ⟨rfl, rfl⟩ := g1
      refine ⟨fi', j, mem, sv, ?_, hv, g2, hobs.1.symm, hobs.2.symm⟩
      rw [read_world w1 sid _ sv hv, hg]

end composed

/-- the hypothesis of `world_view_read_returns_appended` is satisfiable: a collection storage created in a world
that already holds a field; `view_field(1)[0]` returns the vector member's rows of the appended data, also after
the source field was overwritten -/
def exViewWorld : World Rat :=
  run (step (run World.empty [.newField exColl [1, 2, 3, 4, 5, 6]]) (.newStore .truncateOnce)).1
    [.start 0 0, .append 0 0 (some 0) true, .setField 0 [9, 9, 9, 9, 9, 9]]

example : (match (step exViewWorld (.viewRead 0 (.idx 1) 0)).2 with
    | .ok (.field mi vals) => some (mi.label, vals)
    | _ => none) = some (some "v", [3, 4, 5, 6]) := by decide +kernel

example : (match (step exViewWorld (.slice 0 (some (-1)) none)).2 with
    | .ok (.fields l) => some (l.map Prod.snd)
    | _ => none) = some [[1, 2, 3, 4, 5, 6]] := by decide +kernel

/-! ### `view_field(fid).items()` in the world -/

section viewItems
variable {K : Type} [Add K] [Sub K] [Mul K] [Neg K] [NatCast K] [LT K] [DecidableLT K] [LE K] [DecidableLE K]

/-- one item of `StorageView.items()`: `(t_k, storage[k][field_index])` on a storage whose frames are values -/
def viewItem (sv : Store K (List K)) (fidx : Int) (p : K × Nat) : Except Err (K × FieldInfo × List K) :=
  match viewGet sv fidx (p.2 : Int) with
  | .error e => .error e
  | .ok (fi, vals, j, m) => .ok (p.1, memberInfo fi m none, sliceFrame fi j vals)

/-- `list(storage.view_field(fid).items())` in the world (the one reading operation without a world-level
statement so far): the returned list is, for every stored time in order, the time and the member's slice of the
CURRENT content of that frame - `viewGet` on the storage as a reader sees it -; the first failing item decides
the error; the world is unchanged -/
theorem view_items_world (w : World K) (sid : Nat) (fid : FieldId) (sv : Store K (List K))
    (hv : w.view sid = some sv) :
    (step w (.viewItems sid fid)).2 =
      (match viewCreate sv fid with
       | .error e => .error e
       | .ok fidx =>
         match sv.times.zipIdx.mapM (viewItem sv fidx) with
         | .error e => .error e
         | .ok l => .ok (.items l)) ∧
    (step w (.viewItems sid fid)).1 = w := by
  obtain ⟨s, hs, rfl⟩ := view_some w sid sv hv
  simp only [step, hs, mapFrames_viewCreate]
  cases viewCreate s fid with
  | error e => exact ⟨rfl, rfl⟩
  | ok fidx =>
    simp only
    have ht : (s.mapFrames w.deref).times = s.times := rfl
    rw [ht]
    split
    · rename_i e h
      have h2 : List.mapM (viewItem (s.mapFrames w.deref) fidx) s.times.zipIdx = .error e := by
        refine Eq.trans (congrArg (fun f => List.mapM f s.times.zipIdx) (funext fun p => ?_)) h
        unfold viewItem
        rw [mapFrames_viewGet]
        cases viewGet s fidx (p.2 : Int) <;> rfl
      rw [h2]; exact ⟨rfl, rfl⟩
    · rename_i l h
      have h2 : List.mapM (viewItem (s.mapFrames w.deref) fidx) s.times.zipIdx = .ok l := by
        refine Eq.trans (congrArg (fun f => List.mapM f s.times.zipIdx) (funext fun p => ?_)) h
        unfold viewItem
        rw [mapFrames_viewGet]
        cases viewGet s fidx (p.2 : Int) <;> rfl
      rw [h2]; exact ⟨rfl, rfl⟩

end viewItems

/-- `view_items_world` on the example world: both items' worth of the vector member (here one frame) -/
example : (match (step exViewWorld (.viewItems 0 (.name "v"))).2 with
    | .ok (.items l) => some (l.map (fun r => (r.1, r.2.2)))
    | _ => none) = some [(0, [3, 4, 5, 6])] := by decide +kernel

end PdeVerif.Storage
