import PdeVerif.Model.Matrix
import PdeVerif.Lemmas.Basic
import Mathlib.Algebra.BigOperators.Group.Finset.Basic
import Mathlib.Algebra.BigOperators.Ring.Finset
import Mathlib.Algebra.BigOperators.Group.List.Basic
import Mathlib.Tactic.NormNum
import Mathlib.Tactic.LinearCombination
import Mathlib.Tactic.Positivity
/-
C18 - Poisson/Laplace solvers return solutions of the discrete problem.
Theorems about `PdeVerif.Matrix` (model of the scipy `_get_laplace_matrix` assembly loops): the
assembled `M x + v` *is* the discrete Laplacian (stencil model of C01) applied to the array whose
ghost cells follow the boundary-condition law (model of C02) - for any number of cells, any
condition per side, any values.  Hence the residual the solver checks is the residual of feeding
the solution back into the Laplacian.
-/
namespace PdeVerif.Matrix
open PdeVerif PdeVerif.BC PdeVerif.Stencil

section
variable {K : Type} [Field K] [CharZero K]

/-- row times vector over `n` columns -/
def matvec (n : Nat) (ops : List (Op K)) (x : Nat → K) : K :=
  ∑ c ∈ Finset.range n, rowEntry ops c * x c

/-- contribution of a row program read as a list of terms `v * x[col]` -/
def progSum (ops : List (Op K)) (x : Nat → K) : K :=
  (ops.map fun op => match op with
    | .add k v => v * x k
    | .set k v => v * x k).sum

/-- `ghost = const + Σ factor_k x_k` -/
def BCData.eval (b : BCData K) (x : Nat → K) : K :=
  b.const + (b.entries.map fun e => e.2 * x e.1).sum

theorem rowEntry_append_add (ops : List (Op K)) (k : Nat) (v : K) (c : Nat) :
    rowEntry (ops ++ [.add k v]) c = rowEntry ops c + if k = c then v else 0 := by
  unfold rowEntry
  simp only [List.foldl_append, List.foldl_cons, List.foldl_nil]
  split_ifs <;> simp

theorem rowEntry_append_set_fresh (ops : List (Op K)) (k : Nat) (v : K) (c : Nat)
    (hfresh : rowEntry ops k = 0) :
    rowEntry (ops ++ [.set k v]) c = rowEntry (ops ++ [.add k v]) c := by
  unfold rowEntry at hfresh ⊢
  simp only [List.foldl_append, List.foldl_cons, List.foldl_nil]
  split_ifs with h
  · subst h; rw [hfresh]; simp
  · rfl

/-- **accumulating programs are sums of their terms**: for a program of `+=` operations into
columns `< n`, the row-vector product is the sum of the terms -/
theorem rowEntry_add_only (n : Nat) (ops : List (Op K)) (x : Nat → K)
    (hadd : ∀ op ∈ ops, ∃ k v, op = .add k v ∧ k < n) :
    matvec n ops x = progSum ops x := by
  induction ops using List.reverseRecOn with
  | nil => simp [matvec, progSum, rowEntry]
  | append_singleton ops op ih =>
    obtain ⟨k, v, rfl, hk⟩ := hadd op (by simp)
    have ih' := ih (fun o ho => hadd o (by simp [ho]))
    unfold matvec progSum at ih' ⊢
    simp only [rowEntry_append_add, add_mul, Finset.sum_add_distrib, List.map_append, List.sum_append,
      List.map_cons, List.map_nil, List.sum_cons, List.sum_nil, add_zero]
    rw [ih']
    congr 1
    simp only [ite_mul, zero_mul]
    rw [Finset.sum_ite_eq]
    simp [hk]

/-- `setdiag` / assignment on a fresh entry followed by accumulations: same as accumulating -/
theorem matvec_set_first (n : Nat) (k : Nat) (v : K) (ops : List (Op K)) (x : Nat → K) :
    matvec n (Op.set k v :: ops) x = matvec n (Op.add k v :: ops) x := by
  unfold matvec rowEntry
  simp only [List.foldl_cons]
  apply Finset.sum_congr rfl
  intro c _
  congr 2
  split_ifs <;> simp

/-! ### the boundary data is the ghost-cell law of C02 -/

theorem bcData_ghost (N : Nat) (s : Side) (dx : K) (c : PCond K) (x : Nat → K) :
    (bcData N s dx c).eval x =
      match c with
      | .dirichlet v => ghost1 (vpDirichlet v) (x (near0 N s))
      | .neumann d => ghost1 (vpNeumann dx d) (x (near0 N s))
      | .mixed g b => ghost1 (vpMixed dx g b) (x (near0 N s))
      | .curvature k => ghost2 (vpCurvature dx k) (x (near0 N s)) (x (near20 N s))
      | .periodic flip => ghost1 (vpPeriodic flip) (x (opp0 N s)) := by
  cases c <;> simp [bcData, BCData.eval, ghost1, ghost2] <;> ring

/-! ### the generic three-point row with virtual points -/

/-- value of the lower / upper neighbour of cell `i`: a valid cell, or the virtual point -/
def nbLo (i : Nat) (lo : BCData K) (y : Nat → K) : K := if i = 0 then lo.eval y else y (i - 1)
def nbHi (N i : Nat) (hi : BCData K) (y : Nat → K) : K := if i = N - 1 then hi.eval y else y (i + 1)

theorem map_add_progSum (es : List (Nat × K)) (w : K) (col : Nat → Nat) (x : Nat → K) :
    progSum (es.map fun e => Op.add (col e.1) (e.2 * w)) x = w * (es.map fun e => e.2 * x (col e.1)).sum := by
  induction es with
  | nil => simp [progSum]
  | cons e es ih =>
    unfold progSum at ih ⊢
    simp only [List.map_cons, List.sum_cons, List.map_map] at ih ⊢
    rw [ih]; ring

theorem progSum_append (a b : List (Op K)) (x : Nat → K) :
    progSum (a ++ b) x = progSum a x + progSum b x := by
  unfold progSum; simp

theorem progSum_single_add (k : Nat) (v : K) (x : Nat → K) : progSum [Op.add k v] x = v * x k := by
  unfold progSum; simp

/-- **row = stencil on the ghost-extended line**: the terms of `axisOps` plus its vector entry are
`wl * (lower neighbour or virtual point) + wh * (upper neighbour or virtual point)` -/
theorem axisOps_apply (N i : Nat) (wl wh : K) (lo hi : BCData K) (col : Nat → Nat) (x : Nat → K) :
    progSum (axisOps N i wl wh lo hi col).2 x + (axisOps N i wl wh lo hi col).1 =
      wl * nbLo i lo (fun k => x (col k)) + wh * nbHi N i hi (fun k => x (col k)) := by
  have e1 := map_add_progSum lo.entries wl col x
  have e2 := map_add_progSum hi.entries wh col x
  unfold axisOps nbLo nbHi BCData.eval
  by_cases h0 : i = 0
  · by_cases hN : i = N - 1
    · simp only [if_pos h0, if_pos hN, progSum_append, e1, e2]; ring
    · simp only [if_pos h0, if_neg hN, progSum_append, progSum_single_add, e1]; push_cast; ring
  · by_cases hN : i = N - 1
    · simp only [if_neg h0, if_pos hN, progSum_append, progSum_single_add, e2]; push_cast; ring
    · simp only [if_neg h0, if_neg hN, progSum_append, progSum_single_add]; push_cast; ring

/-! ### the assembled rows are the discrete Laplacian with the boundary conditions -/

/-- 1-d Cartesian: `(M x + v)_i = (lo-neighbour - 2 x_i + hi-neighbour)/dx²`, i.e. the 3-point Laplacian
of C01 on the line whose virtual points follow the condition's `get_sparse_matrix_data` -/
theorem cart1_row_apply (N : Nat) (dx : K) (lo hi : BCData K) (i : Nat) (x : Nat → K) :
    progSum (cart1Row N dx lo hi i).2 x + (cart1Row N dx lo hi i).1 =
      (nbLo i lo x - 2 * x i + nbHi N i hi x) / (dx * dx) := by
  have h := axisOps_apply N i (1 / (dx * dx)) (1 / (dx * dx)) lo hi id x
  unfold cart1Row
  simp only [id] at h ⊢
  unfold progSum at h ⊢
  simp only [List.map_cons, List.sum_cons]
  push_cast at h ⊢
  linear_combination h

/-- the same statement against the stencil model: for a padded array `a` whose valid cells hold `x`
and whose ghost cells hold the virtual-point values, the row is `cartLaplace` at cell `i+1` -/
theorem cart1_matrix_eq_laplace_with_bc (N : Nat) (dx : K) (lo hi : BCData K) (i : Nat) (hi' : i < N)
    (x : Nat → K) (a : Arr K)
    (hval : ∀ k : Nat, k < N → a [(k:Int) + 1] = x k)
    (hlo : a [0] = lo.eval x) (hhi : a [(N:Int) + 1] = hi.eval x) :
    progSum (cart1Row N dx lo hi i).2 x + (cart1Row N dx lo hi i).1 = cartLaplace [dx] a [] [(i:Int) + 1] := by
  rw [cart1_row_apply]
  have hl : a [(i:Int) + 1 + -1] = nbLo i lo x := by
    unfold nbLo
    split_ifs with h0
    · subst h0; simpa using hlo
    · have := hval (i - 1) (by omega)
      have e : ((i - 1 : Nat) : Int) + 1 = (i:Int) + 1 + -1 := by omega
      rw [← e, this]
  have hh : a [(i:Int) + 1 + 1] = nbHi N i hi x := by
    unfold nbHi
    split_ifs with hN
    · have e : (i:Int) + 1 + 1 = (N:Int) + 1 := by omega
      rw [e, hhi]
    · have := hval (i + 1) (by omega)
      have e : ((i + 1 : Nat) : Int) + 1 = (i:Int) + 1 + 1 := by omega
      rw [← e, this]
  simp only [cartLaplace, lsum, d2, shift, List.length_cons, List.length_nil, List.range_succ, List.range_zero,
    List.nil_append, List.map_cons, List.map_nil, List.foldr_cons, List.foldr_nil, List.getD_cons_zero,
    List.set_cons_zero, zero_add, Nat.cast_zero, add_zero]
  rw [hl, hh, hval i hi']
  push_cast
  ring

/-- polar grid, regular rows (annulus, or any row but the first of a disk) -/
theorem polar_row_apply (N : Nat) (r : Int → K) (dr : K) (lo hi : BCData K) (i : Nat) (x : Nat → K) :
    progSum (polarRow N r dr false lo hi i).2 x + (polarRow N r dr false lo hi i).1 =
      (nbLo i lo x - 2 * x i + nbHi N i hi x) / (dr * dr)
        + (nbHi N i hi x - nbLo i lo x) / (2 * r ((i:Int) + 1) * dr) := by
  have h := axisOps_apply N i (1 / (dr * dr) - 1 / (2 * r ((i:Int) + 1) * dr))
    (1 / (dr * dr) + 1 / (2 * r ((i:Int) + 1) * dr)) lo hi id x
  unfold polarRow
  simp only [Bool.false_eq_true, and_false, if_false, id] at h ⊢
  unfold progSum at h ⊢
  simp only [List.map_cons, List.sum_cons]
  push_cast at h ⊢
  linear_combination h

/-- **polar grid, every boundary condition on either side, also two-point (curvature) conditions at
the inner radius of an annulus** (the case repaired by fix F5): the assembled row equals the polar
Laplacian of C01 on the ghost-extended line -/
theorem polar_matrix_eq_laplace_with_bc (N : Nat) (r : Int → K) (dr : K) (lo hi : BCData K) (i : Nat)
    (hi' : i < N) (x : Nat → K) (a : Arr K)
    (hval : ∀ k : Nat, k < N → a [(k:Int) + 1] = x k)
    (hlo : a [0] = lo.eval x) (hhi : a [(N:Int) + 1] = hi.eval x) :
    progSum (polarRow N r dr false lo hi i).2 x + (polarRow N r dr false lo hi i).1 =
      polarLaplace r dr a ((i:Int) + 1) := by
  rw [polar_row_apply N r dr lo hi i x]
  have hl : a [(i:Int) + 1 - 1] = nbLo i lo x := by
    unfold nbLo
    split_ifs with h0
    · subst h0; simpa using hlo
    · have := hval (i - 1) (by omega)
      have e : ((i - 1 : Nat) : Int) + 1 = (i:Int) + 1 - 1 := by omega
      rw [← e, this]
  have hh : a [(i:Int) + 1 + 1] = nbHi N i hi x := by
    unfold nbHi
    split_ifs with hN
    · have e : (i:Int) + 1 + 1 = (N:Int) + 1 := by omega
      rw [e, hhi]
    · have := hval (i + 1) (by omega)
      have e : ((i + 1 : Nat) : Int) + 1 = (i:Int) + 1 + 1 := by omega
      rw [← e, this]
  unfold polarLaplace
  rw [hl, hh, hval i hi']
  push_cast
  ring

/-- full disk (`r_min = 0`): the first row needs no inner boundary condition - skipping the inner
virtual point (as the source does) gives the polar Laplacian at the first cell (`r = dr/2`) for
*every* value of the inner ghost cell, also on a one-cell grid where the outer neighbour is a
virtual point -/
theorem polar_rmin0_row_eq_laplace (N : Nat) (r : Int → K) (dr : K) (hdr : dr ≠ 0) (lo hi : BCData K)
    (hr : r 1 = dr / 2) (x : Nat → K) (a : Arr K) (h0 : a [1] = x 0)
    (h1 : a [2] = nbHi N 0 hi x) :
    progSum (polarRow N r dr true lo hi 0).2 x + (polarRow N r dr true lo hi 0).1 = polarLaplace r dr a 1 := by
  have h := axisOps_apply N 0 (1 / (dr * dr) - 1 / (2 * r 1 * dr))
    (1 / (dr * dr) + 1 / (2 * r 1 * dr)) (noBC : BCData K) hi id x
  have hlo : nbLo 0 (noBC : BCData K) (fun k => x (id k)) = 0 := by
    simp [nbLo, noBC, BCData.eval]
  rw [hlo] at h
  have hrow : progSum (polarRow N r dr true lo hi 0).2 x + (polarRow N r dr true lo hi 0).1
      = (-2 * (1 / (dr * dr))) * x 0
        + (progSum (axisOps N 0 (1 / (dr * dr) - 1 / (2 * r 1 * dr)) (1 / (dr * dr) + 1 / (2 * r 1 * dr))
            (noBC : BCData K) hi id).2 x
          + (axisOps N 0 (1 / (dr * dr) - 1 / (2 * r 1 * dr)) (1 / (dr * dr) + 1 / (2 * r 1 * dr))
            (noBC : BCData K) hi id).1) := by
    unfold polarRow
    simp only [and_self, if_true, Nat.cast_zero, zero_add]
    unfold progSum
    simp only [List.map_cons, List.sum_cons]
    push_cast
    ring
  rw [hrow, h]
  unfold polarLaplace
  have e3 : ((1:Int) + 1) = 2 := by norm_num
  have e4 : ((1:Int) - 1) = 0 := by norm_num
  rw [e3, e4, h0, h1, hr]
  simp only [id]
  push_cast
  field_simp
  ring

/-- spherical grid (always the conservative stencil), regular rows -/
theorem sph_matrix_eq_laplace_with_bc (N : Nat) (r : Int → K) (dr : K) (lo hi : BCData K) (i : Nat)
    (hi' : i < N) (x : Nat → K) (a : Arr K)
    (hval : ∀ k : Nat, k < N → a [(k:Int) + 1] = x k)
    (hlo : a [0] = lo.eval x) (hhi : a [(N:Int) + 1] = hi.eval x) :
    progSum (sphRow N r dr false lo hi i).2 x + (sphRow N r dr false lo hi i).1 =
      sphLaplace true r dr a ((i:Int) + 1) := by
  have hl : a [(i:Int) + 1 - 1] = nbLo i lo x := by
    unfold nbLo
    split_ifs with h0
    · subst h0; simpa using hlo
    · have := hval (i - 1) (by omega)
      have e : ((i - 1 : Nat) : Int) + 1 = (i:Int) + 1 - 1 := by omega
      rw [← e, this]
  have hh : a [(i:Int) + 1 + 1] = nbHi N i hi x := by
    unfold nbHi
    split_ifs with hN
    · have e : (i:Int) + 1 + 1 = (N:Int) + 1 := by omega
      rw [e, hhi]
    · have := hval (i + 1) (by omega)
      have e : ((i + 1 : Nat) : Int) + 1 = (i:Int) + 1 + 1 := by omega
      rw [← e, this]
  unfold sphRow sphLaplace
  simp only [Bool.false_eq_true, and_false, if_false, if_true]
  have h := axisOps_apply N i
    ((r ((i:Int) + 1) - dr / ((2:Nat):K)) * (r ((i:Int) + 1) - dr / ((2:Nat):K)) /
      (dr * shellThird (r ((i:Int) + 1) - dr / ((2:Nat):K)) (r ((i:Int) + 1) + dr / ((2:Nat):K))))
    ((r ((i:Int) + 1) + dr / ((2:Nat):K)) * (r ((i:Int) + 1) + dr / ((2:Nat):K)) /
      (dr * shellThird (r ((i:Int) + 1) - dr / ((2:Nat):K)) (r ((i:Int) + 1) + dr / ((2:Nat):K)))) lo hi id x
  simp only [id] at h
  unfold progSum at h ⊢
  simp only [List.map_cons, List.sum_cons]
  rw [hl, hh, hval i hi']
  linear_combination h

/-! ### two axes: Cartesian 2-d and cylindrical rows -/

/-- 2-d Cartesian: the row of cell `(x, y)` (flat index `x*ny + y`, `setdiag` first) applied to `u`
is the 5-point stencil with virtual points on all four faces; conditions may vary along the faces -/
theorem cart2_row_apply (nx ny : Nat) (dx dy : K) (xlo xhi ylo yhi : Nat → BCData K) (cx cy : Nat)
    (u : Nat → K) :
    progSum (cart2Row nx ny dx dy xlo xhi ylo yhi cx cy).2 u + (cart2Row nx ny dx dy xlo xhi ylo yhi cx cy).1 =
      (nbLo cx (xlo cy) (fun k => u (k * ny + cy)) - 2 * u (cx * ny + cy)
          + nbHi nx cx (xhi cy) (fun k => u (k * ny + cy))) / (dx * dx)
      + (nbLo cy (ylo cx) (fun k => u (cx * ny + k)) - 2 * u (cx * ny + cy)
          + nbHi ny cy (yhi cx) (fun k => u (cx * ny + k))) / (dy * dy) := by
  have h1 := axisOps_apply nx cx (1 / (dx * dx)) (1 / (dx * dx)) (xlo cy) (xhi cy) (fun k => k * ny + cy) u
  have h2 := axisOps_apply ny cy (1 / (dy * dy)) (1 / (dy * dy)) (ylo cx) (yhi cx) (fun k => cx * ny + k) u
  unfold cart2Row
  simp only [progSum_append] at h1 h2 ⊢
  have e : ∀ (k : Nat) (v : K) (ops : List (Op K)), progSum (Op.set k v :: ops) u = v * u k + progSum ops u := by
    intro k v ops; unfold progSum; simp
  simp only [e, progSum_append]
  push_cast at h1 h2 ⊢
  linear_combination h1 + h2

/-- 3-d Cartesian: the row of cell `(x, y, z)` (flat index `(x*ny + y)*nz + z`) is the 7-point stencil
with virtual points on all six faces -/
theorem cart3_row_apply (nx ny nz : Nat) (dx dy dz : K) (xlo xhi ylo yhi zlo zhi : Nat → Nat → BCData K)
    (cx cy cz : Nat) (u : Nat → K) :
    progSum (cart3Row nx ny nz dx dy dz xlo xhi ylo yhi zlo zhi cx cy cz).2 u
        + (cart3Row nx ny nz dx dy dz xlo xhi ylo yhi zlo zhi cx cy cz).1 =
      (nbLo cx (xlo cy cz) (fun k => u ((k * ny + cy) * nz + cz)) - 2 * u ((cx * ny + cy) * nz + cz)
          + nbHi nx cx (xhi cy cz) (fun k => u ((k * ny + cy) * nz + cz))) / (dx * dx)
      + (nbLo cy (ylo cx cz) (fun k => u ((cx * ny + k) * nz + cz)) - 2 * u ((cx * ny + cy) * nz + cz)
          + nbHi ny cy (yhi cx cz) (fun k => u ((cx * ny + k) * nz + cz))) / (dy * dy)
      + (nbLo cz (zlo cx cy) (fun k => u ((cx * ny + cy) * nz + k)) - 2 * u ((cx * ny + cy) * nz + cz)
          + nbHi nz cz (zhi cx cy) (fun k => u ((cx * ny + cy) * nz + k))) / (dz * dz) := by
  have h1 := axisOps_apply nx cx (1 / (dx * dx)) (1 / (dx * dx)) (xlo cy cz) (xhi cy cz)
    (fun k => (k * ny + cy) * nz + cz) u
  have h2 := axisOps_apply ny cy (1 / (dy * dy)) (1 / (dy * dy)) (ylo cx cz) (yhi cx cz)
    (fun k => (cx * ny + k) * nz + cz) u
  have h3 := axisOps_apply nz cz (1 / (dz * dz)) (1 / (dz * dz)) (zlo cx cy) (zhi cx cy)
    (fun k => (cx * ny + cy) * nz + k) u
  unfold cart3Row
  have e : ∀ (k : Nat) (v : K) (ops : List (Op K)), progSum (Op.set k v :: ops) u = v * u k + progSum ops u := by
    intro k v ops; unfold progSum; simp
  simp only [e, progSum_append]
  push_cast at h1 h2 h3 ⊢
  linear_combination h1 + h2 + h3

/-- cylindrical: radial weights `1/dr² ∓ 1/(2 r dr)`, axial weight `1/dz²` - the row is the
cylindrical Laplacian of C01 with virtual points on the radial and axial faces -/
theorem cyl_row_apply (nr nz : Nat) (r : Int → K) (dr dz : K) (rlo rhi zlo zhi : Nat → BCData K)
    (cx cz : Nat) (u : Nat → K) :
    progSum (cylRow nr nz r dr dz rlo rhi zlo zhi cx cz).2 u + (cylRow nr nz r dr dz rlo rhi zlo zhi cx cz).1 =
      (nbLo cx (rlo cz) (fun k => u (k * nz + cz)) - 2 * u (cx * nz + cz)
          + nbHi nr cx (rhi cz) (fun k => u (k * nz + cz))) / (dr * dr)
      + (nbHi nr cx (rhi cz) (fun k => u (k * nz + cz)) - nbLo cx (rlo cz) (fun k => u (k * nz + cz)))
          / (2 * r ((cx:Int) + 1) * dr)
      + (nbLo cz (zlo cx) (fun k => u (cx * nz + k)) - 2 * u (cx * nz + cz)
          + nbHi nz cz (zhi cx) (fun k => u (cx * nz + k))) / (dz * dz) := by
  have h1 := axisOps_apply nr cx (1 / (dr * dr) - 1 / (2 * r ((cx:Int) + 1) * dr))
    (1 / (dr * dr) + 1 / (2 * r ((cx:Int) + 1) * dr)) (rlo cz) (rhi cz) (fun k => k * nz + cz) u
  have h2 := axisOps_apply nz cz (1 / (dz * dz)) (1 / (dz * dz)) (zlo cx) (zhi cx) (fun k => cx * nz + k) u
  unfold cylRow
  have e : ∀ (k : Nat) (v : K) (ops : List (Op K)), progSum (Op.set k v :: ops) u = v * u k + progSum ops u := by
    intro k v ops; unfold progSum; simp
  simp only [e, progSum_append]
  push_cast at h1 h2 ⊢
  linear_combination h1 + h2

/-- the terms of a 1-d row really are the row-vector product of the assembled matrix, provided the
boundary data refer to existing cells (which `get_sparse_matrix_data` guarantees) -/
theorem cart1_matvec_eq_progSum (N : Nat) (dx : K) (lo hi : BCData K) (i : Nat) (hi' : i < N)
    (hlo : ∀ e ∈ lo.entries, e.1 < N) (hhi : ∀ e ∈ hi.entries, e.1 < N) (x : Nat → K) :
    matvec N (cart1Row N dx lo hi i).2 x = progSum (cart1Row N dx lo hi i).2 x := by
  apply rowEntry_add_only
  intro op hop
  unfold cart1Row axisOps at hop
  simp only [id, List.mem_cons, List.mem_append] at hop
  rcases hop with rfl | hop | hop
  · exact ⟨i, _, rfl, hi'⟩
  · split_ifs at hop with h0
    · simp only [List.mem_map] at hop
      obtain ⟨e, he, rfl⟩ := hop
      exact ⟨e.1, _, rfl, hlo e he⟩
    · simp only [List.mem_singleton] at hop
      subst hop
      exact ⟨i - 1, _, rfl, by omega⟩
  · split_ifs at hop with hN
    · simp only [List.mem_map] at hop
      obtain ⟨e, he, rfl⟩ := hop
      exact ⟨e.1, _, rfl, hhi e he⟩
    · simp only [List.mem_singleton] at hop
      subst hop
      exact ⟨i + 1, _, rfl, by omega⟩

/-! ### non-vacuity: a concrete assembled row -/
example : rowEntry (cart1Row 3 (1/2 : Rat) (bcData 3 .lower (1/2) (.neumann 3)) (bcData 3 .upper (1/2) (.dirichlet 1)) 0).2 0 = -4 := by
  decide +kernel
example : (cart1Row 3 (1/2 : Rat) (bcData 3 .lower (1/2) (.neumann 3)) (bcData 3 .upper (1/2) (.dirichlet 1)) 0).1 = 6 := by
  decide +kernel

/-! ### consequences for the solvers -/

/-- the residual the solver checks (`M x - (rhs - v)`) is the residual of feeding the solution back
into the discrete Laplacian with the same boundary conditions -/
theorem residual_identity (Mx v lap rhs : K) (h : Mx + v = lap) : Mx - (rhs - v) = lap - rhs := by
  rw [← h]; ring

/-- a curvature condition makes the boundary row of the 1-d Cartesian matrix independent of the
unknowns (all entries cancel): the problem is solvable only if the right-hand side of that row
equals the prescribed curvature - otherwise the solver has to report an error -/
theorem curvature_row_degenerate (N : Nat) (hN : 3 ≤ N) (dx k : K) (hdx : dx ≠ 0) (hi : BCData K) (x : Nat → K) :
    progSum (cart1Row N dx (bcData N .lower dx (.curvature k)) hi 0).2 x
      + (cart1Row N dx (bcData N .lower dx (.curvature k)) hi 0).1 = k := by
  rw [cart1_row_apply]
  have h0 : (0:Nat) ≠ N - 1 := by omega
  unfold nbLo nbHi
  simp only [if_true, if_neg h0]
  rw [bcData_ghost]
  simp only [ghost2, vpCurvature, near0, near20]
  push_cast
  field_simp
  ring

end

end PdeVerif.Matrix
