import PdeVerif.Model.Matrix
import PdeVerif.Lemmas.Basic
import Mathlib.Algebra.BigOperators.Group.Finset.Basic
import Mathlib.Algebra.BigOperators.Ring.Finset
import Mathlib.Algebra.BigOperators.Group.List.Basic
import Mathlib.Tactic.NormNum
import Mathlib.Tactic.LinearCombination
import Mathlib.Tactic.Positivity
/-
C18 - Poisson/Laplace solvers return solutions of the discrete problem.
Theorems about `PdeVerif.Matrix` (model of the scipy `_get_laplace_matrix` assembly loops): the
assembled `M x + v` *is* the discrete Laplacian (stencil model of C01) applied to the array whose
ghost cells follow the boundary-condition law (model of C02) - for any number of cells, any
condition per side, any values.  Hence the residual the solver checks is the residual of feeding
the solution back into the Laplacian.

Layers (each for Cartesian 1/2/3-d, polar, spherical, cylindrical):
* `*_row_apply`, `*_matrix_eq_laplace_with_bc`, `polar_disk_*`, `sph_ball_*`: the *terms* of a row program (`progSum`) plus the
  vector entry are the stencil of C01 on the ghost-extended array (all rows, also for `r_min = 0`);
* `*_matvec_eq_progSum`: the row-vector product of the *assembled entries* (`rowEntry`, the function `Drv/C18.lean`
  evaluates and the harness compares with the real dense matrix) is that sum of terms - this is where assignment (`=`,
  `setdiag`) versus accumulation (`+=`) matters;
* `*_assembled_eq_laplace`: the composition, with the boundary data `bcData` of `get_sparse_matrix_data`.
-/
namespace PdeVerif.Matrix
open PdeVerif PdeVerif.BC PdeVerif.Stencil

section
variable {K : Type} [Field K] [CharZero K]

/-- row times vector over `n` columns -/
def matvec (n : Nat) (ops : List (Op K)) (x : Nat → K) : K :=
  ∑ c ∈ Finset.range n, rowEntry ops c * x c

/-- contribution of a row program read as a list of terms `v * x[col]` -/
def progSum (ops : List (Op K)) (x : Nat → K) : K :=
  (ops.map fun op => match op with
    | .add k v => v * x k
    | .set k v => v * x k).sum

/-- `ghost = const + Σ factor_k x_k` -/
def BCData.eval (b : BCData K) (x : Nat → K) : K :=
  b.const + (b.entries.map fun e => e.2 * x e.1).sum

theorem rowEntry_append_add (ops : List (Op K)) (k : Nat) (v : K) (c : Nat) :
    rowEntry (ops ++ [.add k v]) c = rowEntry ops c + if k = c then v else 0 := by
  unfold rowEntry
  simp only [List.foldl_append, List.foldl_cons, List.foldl_nil]
  split_ifs <;> simp

theorem rowEntry_append_set_fresh (ops : List (Op K)) (k : Nat) (v : K) (c : Nat)
    (hfresh : rowEntry ops k = 0) :
    rowEntry (ops ++ [.set k v]) c = rowEntry (ops ++ [.add k v]) c := by
  unfold rowEntry at hfresh ⊢
  simp only [List.foldl_append, List.foldl_cons, List.foldl_nil]
  split_ifs with h
  · subst h; rw [hfresh]; simp
  · rfl

/-- **accumulating programs are sums of their terms**: for a program of `+=` operations into
columns `< n`, the row-vector product is the sum of the terms -/
theorem rowEntry_add_only (n : Nat) (ops : List (Op K)) (x : Nat → K)
    (hadd : ∀ op ∈ ops, ∃ k v, op = .add k v ∧ k < n) :
    matvec n ops x = progSum ops x := by
  induction ops using List.reverseRecOn with
  | nil => simp [matvec, progSum, rowEntry]
  | append_singleton ops op ih =>
    obtain ⟨k, v, rfl, hk⟩ := hadd op (by simp)
    have ih' := ih (fun o ho => hadd o (by simp [ho]))
    unfold matvec progSum at ih' ⊢
    simp only [rowEntry_append_add, add_mul, Finset.sum_add_distrib, List.map_append, List.sum_append,
      List.map_cons, List.map_nil, List.sum_cons, List.sum_nil, add_zero]
    rw [ih']
    congr 1
    simp only [ite_mul, zero_mul]
    rw [Finset.sum_ite_eq]
    simp [hk]

/-- `setdiag` / assignment on a fresh entry followed by accumulations: same as accumulating -/
theorem matvec_set_first (n : Nat) (k : Nat) (v : K) (ops : List (Op K)) (x : Nat → K) :
    matvec n (Op.set k v :: ops) x = matvec n (Op.add k v :: ops) x := by
  unfold matvec rowEntry
  simp only [List.foldl_cons]
  apply Finset.sum_congr rfl
  intro c _
  congr 2
  split_ifs <;> simp

/-! ### the boundary data is the ghost-cell law of C02 -/

theorem bcData_ghost (N : Nat) (s : Side) (dx : K) (c : PCond K) (x : Nat → K) :
    (bcData N s dx c).eval x =
      match c with
      | .dirichlet v => ghost1 (vpDirichlet v) (x (near0 N s))
      | .neumann d => ghost1 (vpNeumann dx d) (x (near0 N s))
      | .mixed g b => ghost1 (vpMixed dx g b) (x (near0 N s))
      | .curvature k => ghost2 (vpCurvature dx k) (x (near0 N s)) (x (near20 N s))
      | .periodic flip => ghost1 (vpPeriodic flip) (x (opp0 N s)) := by
  cases c <;> simp [bcData, BCData.eval, ghost1, ghost2] <;> ring

/-! ### the generic three-point row with virtual points -/

/-- value of the lower / upper neighbour of cell `i`: a valid cell, or the virtual point -/
def nbLo (i : Nat) (lo : BCData K) (y : Nat → K) : K := if i = 0 then lo.eval y else y (i - 1)
def nbHi (N i : Nat) (hi : BCData K) (y : Nat → K) : K := if i = N - 1 then hi.eval y else y (i + 1)

theorem map_add_progSum (es : List (Nat × K)) (w : K) (col : Nat → Nat) (x : Nat → K) :
    progSum (es.map fun e => Op.add (col e.1) (e.2 * w)) x = w * (es.map fun e => e.2 * x (col e.1)).sum := by
  induction es with
  | nil => simp [progSum]
  | cons e es ih =>
    unfold progSum at ih ⊢
    simp only [List.map_cons, List.sum_cons, List.map_map] at ih ⊢
    rw [ih]; ring

theorem progSum_append (a b : List (Op K)) (x : Nat → K) :
    progSum (a ++ b) x = progSum a x + progSum b x := by
  unfold progSum; simp

theorem progSum_single_add (k : Nat) (v : K) (x : Nat → K) : progSum [Op.add k v] x = v * x k := by
  unfold progSum; simp

/-- **row = stencil on the ghost-extended line**: the terms of `axisOps` plus its vector entry are
`wl * (lower neighbour or virtual point) + wh * (upper neighbour or virtual point)` -/
theorem axisOps_apply (N i : Nat) (wl wh : K) (lo hi : BCData K) (col : Nat → Nat) (x : Nat → K) :
    progSum (axisOps N i wl wh lo hi col).2 x + (axisOps N i wl wh lo hi col).1 =
      wl * nbLo i lo (fun k => x (col k)) + wh * nbHi N i hi (fun k => x (col k)) := by
  have e1 := map_add_progSum lo.entries wl col x
  have e2 := map_add_progSum hi.entries wh col x
  unfold axisOps nbLo nbHi BCData.eval
  by_cases h0 : i = 0
  · by_cases hN : i = N - 1
    · simp only [if_pos h0, if_pos hN, progSum_append, e1, e2]; ring
    · simp only [if_pos h0, if_neg hN, progSum_append, progSum_single_add, e1]; push_cast; ring
  · by_cases hN : i = N - 1
    · simp only [if_neg h0, if_pos hN, progSum_append, progSum_single_add, e2]; push_cast; ring
    · simp only [if_neg h0, if_neg hN, progSum_append, progSum_single_add]; push_cast; ring

/-! ### the assembled rows are the discrete Laplacian with the boundary conditions -/

/-- 1-d Cartesian: `(M x + v)_i = (lo-neighbour - 2 x_i + hi-neighbour)/dx²`, i.e. the 3-point Laplacian
of C01 on the line whose virtual points follow the condition's `get_sparse_matrix_data` -/
theorem cart1_row_apply (N : Nat) (dx : K) (lo hi : BCData K) (i : Nat) (x : Nat → K) :
    progSum (cart1Row N dx lo hi i).2 x + (cart1Row N dx lo hi i).1 =
      (nbLo i lo x - 2 * x i + nbHi N i hi x) / (dx * dx) := by
  have h := axisOps_apply N i (1 / (dx * dx)) (1 / (dx * dx)) lo hi id x
  unfold cart1Row
  simp only [id] at h ⊢
  unfold progSum at h ⊢
  simp only [List.map_cons, List.sum_cons]
  push_cast at h ⊢
  linear_combination h

/-- the same statement against the stencil model: for a padded array `a` whose valid cells hold `x`
and whose ghost cells hold the virtual-point values, the row is `cartLaplace` at cell `i+1` -/
theorem cart1_matrix_eq_laplace_with_bc (N : Nat) (dx : K) (lo hi : BCData K) (i : Nat) (hi' : i < N)
    (x : Nat → K) (a : Arr K)
    (hval : ∀ k : Nat, k < N → a [(k:Int) + 1] = x k)
    (hlo : a [0] = lo.eval x) (hhi : a [(N:Int) + 1] = hi.eval x) :
    progSum (cart1Row N dx lo hi i).2 x + (cart1Row N dx lo hi i).1 = cartLaplace [dx] a [] [(i:Int) + 1] := by
  rw [cart1_row_apply]
  have hl : a [(i:Int) + 1 + -1] = nbLo i lo x := by
    unfold nbLo
    split_ifs with h0
    · subst h0; simpa using hlo
    · have := hval (i - 1) (by omega)
      have e : ((i - 1 : Nat) : Int) + 1 = (i:Int) + 1 + -1 := by omega
      rw [← e, this]
  have hh : a [(i:Int) + 1 + 1] = nbHi N i hi x := by
    unfold nbHi
    split_ifs with hN
    · have e : (i:Int) + 1 + 1 = (N:Int) + 1 := by omega
      rw [e, hhi]
    · have := hval (i + 1) (by omega)
      have e : ((i + 1 : Nat) : Int) + 1 = (i:Int) + 1 + 1 := by omega
      rw [← e, this]
  simp only [cartLaplace, lsum, d2, shift, List.length_cons, List.length_nil, List.range_succ, List.range_zero,
    List.nil_append, List.map_cons, List.map_nil, List.foldr_cons, List.foldr_nil, List.getD_cons_zero,
    List.set_cons_zero, zero_add, Nat.cast_zero, add_zero]
  rw [hl, hh, hval i hi']
  push_cast
  ring

/-- polar grid, regular rows (annulus, or any row but the first of a disk) -/
theorem polar_row_apply (N : Nat) (r : Int → K) (dr : K) (lo hi : BCData K) (i : Nat) (x : Nat → K) :
    progSum (polarRow N r dr false lo hi i).2 x + (polarRow N r dr false lo hi i).1 =
      (nbLo i lo x - 2 * x i + nbHi N i hi x) / (dr * dr)
        + (nbHi N i hi x - nbLo i lo x) / (2 * r ((i:Int) + 1) * dr) := by
  have h := axisOps_apply N i (1 / (dr * dr) - 1 / (2 * r ((i:Int) + 1) * dr))
    (1 / (dr * dr) + 1 / (2 * r ((i:Int) + 1) * dr)) lo hi id x
  unfold polarRow
  simp only [Bool.false_eq_true, and_false, if_false, id] at h ⊢
  unfold progSum at h ⊢
  simp only [List.map_cons, List.sum_cons]
  push_cast at h ⊢
  linear_combination h

/-- **polar grid, every boundary condition on either side, also two-point (curvature) conditions at
the inner radius of an annulus** (the case repaired by fix F5): the assembled row equals the polar
Laplacian of C01 on the ghost-extended line -/
theorem polar_matrix_eq_laplace_with_bc (N : Nat) (r : Int → K) (dr : K) (lo hi : BCData K) (i : Nat)
    (hi' : i < N) (x : Nat → K) (a : Arr K)
    (hval : ∀ k : Nat, k < N → a [(k:Int) + 1] = x k)
    (hlo : a [0] = lo.eval x) (hhi : a [(N:Int) + 1] = hi.eval x) :
    progSum (polarRow N r dr false lo hi i).2 x + (polarRow N r dr false lo hi i).1 =
      polarLaplace r dr a ((i:Int) + 1) := by
  rw [polar_row_apply N r dr lo hi i x]
  have hl : a [(i:Int) + 1 - 1] = nbLo i lo x := by
    unfold nbLo
    split_ifs with h0
    · subst h0; simpa using hlo
    · have := hval (i - 1) (by omega)
      have e : ((i - 1 : Nat) : Int) + 1 = (i:Int) + 1 - 1 := by omega
      rw [← e, this]
  have hh : a [(i:Int) + 1 + 1] = nbHi N i hi x := by
    unfold nbHi
    split_ifs with hN
    · have e : (i:Int) + 1 + 1 = (N:Int) + 1 := by omega
      rw [e, hhi]
    · have := hval (i + 1) (by omega)
      have e : ((i + 1 : Nat) : Int) + 1 = (i:Int) + 1 + 1 := by omega
      rw [← e, this]
  unfold polarLaplace
  rw [hl, hh, hval i hi']
  push_cast
  ring

/-- full disk (`r_min = 0`): the first row needs no inner boundary condition - skipping the inner
virtual point (as the source does) gives the polar Laplacian at the first cell (`r = dr/2`) for
*every* value of the inner ghost cell, also on a one-cell grid where the outer neighbour is a
virtual point -/
theorem polar_rmin0_row_eq_laplace (N : Nat) (r : Int → K) (dr : K) (hdr : dr ≠ 0) (lo hi : BCData K)
    (hr : r 1 = dr / 2) (x : Nat → K) (a : Arr K) (h0 : a [1] = x 0)
    (h1 : a [2] = nbHi N 0 hi x) :
    progSum (polarRow N r dr true lo hi 0).2 x + (polarRow N r dr true lo hi 0).1 = polarLaplace r dr a 1 := by
  have h := axisOps_apply N 0 (1 / (dr * dr) - 1 / (2 * r 1 * dr))
    (1 / (dr * dr) + 1 / (2 * r 1 * dr)) (noBC : BCData K) hi id x
  have hlo : nbLo 0 (noBC : BCData K) (fun k => x (id k)) = 0 := by
    simp [nbLo, noBC, BCData.eval]
  rw [hlo] at h
  have hrow : progSum (polarRow N r dr true lo hi 0).2 x + (polarRow N r dr true lo hi 0).1
      = (-2 * (1 / (dr * dr))) * x 0
        + (progSum (axisOps N 0 (1 / (dr * dr) - 1 / (2 * r 1 * dr)) (1 / (dr * dr) + 1 / (2 * r 1 * dr))
            (noBC : BCData K) hi id).2 x
          + (axisOps N 0 (1 / (dr * dr) - 1 / (2 * r 1 * dr)) (1 / (dr * dr) + 1 / (2 * r 1 * dr))
            (noBC : BCData K) hi id).1) := by
    unfold polarRow
    simp only [and_self, if_true, Nat.cast_zero, zero_add]
    unfold progSum
    simp only [List.map_cons, List.sum_cons]
    push_cast
    ring
  rw [hrow, h]
  unfold polarLaplace
  have e3 : ((1:Int) + 1) = 2 := by norm_num
  have e4 : ((1:Int) - 1) = 0 := by norm_num
  rw [e3, e4, h0, h1, hr]
  simp only [id]
  push_cast
  field_simp
  ring

/-- spherical grid (always the conservative stencil), regular rows -/
theorem sph_matrix_eq_laplace_with_bc (N : Nat) (r : Int → K) (dr : K) (lo hi : BCData K) (i : Nat)
    (hi' : i < N) (x : Nat → K) (a : Arr K)
    (hval : ∀ k : Nat, k < N → a [(k:Int) + 1] = x k)
    (hlo : a [0] = lo.eval x) (hhi : a [(N:Int) + 1] = hi.eval x) :
    progSum (sphRow N r dr false lo hi i).2 x + (sphRow N r dr false lo hi i).1 =
      sphLaplace true r dr a ((i:Int) + 1) := by
  have hl : a [(i:Int) + 1 - 1] = nbLo i lo x := by
    unfold nbLo
    split_ifs with h0
    · subst h0; simpa using hlo
    · have := hval (i - 1) (by omega)
      have e : ((i - 1 : Nat) : Int) + 1 = (i:Int) + 1 - 1 := by omega
      rw [← e, this]
  have hh : a [(i:Int) + 1 + 1] = nbHi N i hi x := by
    unfold nbHi
    split_ifs with hN
    · have e : (i:Int) + 1 + 1 = (N:Int) + 1 := by omega
      rw [e, hhi]
    · have := hval (i + 1) (by omega)
      have e : ((i + 1 : Nat) : Int) + 1 = (i:Int) + 1 + 1 := by omega
      rw [← e, this]
  unfold sphRow sphLaplace
  simp only [Bool.false_eq_true, and_false, if_false, if_true]
  have h := axisOps_apply N i
    ((r ((i:Int) + 1) - dr / ((2:Nat):K)) * (r ((i:Int) + 1) - dr / ((2:Nat):K)) /
      (dr * shellThird (r ((i:Int) + 1) - dr / ((2:Nat):K)) (r ((i:Int) + 1) + dr / ((2:Nat):K))))
    ((r ((i:Int) + 1) + dr / ((2:Nat):K)) * (r ((i:Int) + 1) + dr / ((2:Nat):K)) /
      (dr * shellThird (r ((i:Int) + 1) - dr / ((2:Nat):K)) (r ((i:Int) + 1) + dr / ((2:Nat):K)))) lo hi id x
  simp only [id] at h
  unfold progSum at h ⊢
  simp only [List.map_cons, List.sum_cons]
  rw [hl, hh, hval i hi']
  linear_combination h

/-! ### two axes: Cartesian 2-d and cylindrical rows -/

/-- 2-d Cartesian: the row of cell `(x, y)` (flat index `x*ny + y`, `setdiag` first) applied to `u`
is the 5-point stencil with virtual points on all four faces; conditions may vary along the faces -/
theorem cart2_row_apply (nx ny : Nat) (dx dy : K) (xlo xhi ylo yhi : Nat → BCData K) (cx cy : Nat)
    (u : Nat → K) :
    progSum (cart2Row nx ny dx dy xlo xhi ylo yhi cx cy).2 u + (cart2Row nx ny dx dy xlo xhi ylo yhi cx cy).1 =
      (nbLo cx (xlo cy) (fun k => u (k * ny + cy)) - 2 * u (cx * ny + cy)
          + nbHi nx cx (xhi cy) (fun k => u (k * ny + cy))) / (dx * dx)
      + (nbLo cy (ylo cx) (fun k => u (cx * ny + k)) - 2 * u (cx * ny + cy)
          + nbHi ny cy (yhi cx) (fun k => u (cx * ny + k))) / (dy * dy) := by
  have h1 := axisOps_apply nx cx (1 / (dx * dx)) (1 / (dx * dx)) (xlo cy) (xhi cy) (fun k => k * ny + cy) u
  have h2 := axisOps_apply ny cy (1 / (dy * dy)) (1 / (dy * dy)) (ylo cx) (yhi cx) (fun k => cx * ny + k) u
  unfold cart2Row
  simp only [progSum_append] at h1 h2 ⊢
  have e : ∀ (k : Nat) (v : K) (ops : List (Op K)), progSum (Op.set k v :: ops) u = v * u k + progSum ops u := by
    intro k v ops; unfold progSum; simp
  simp only [e, progSum_append]
  push_cast at h1 h2 ⊢
  linear_combination h1 + h2

/-- 3-d Cartesian: the row of cell `(x, y, z)` (flat index `(x*ny + y)*nz + z`) is the 7-point stencil
with virtual points on all six faces -/
theorem cart3_row_apply (nx ny nz : Nat) (dx dy dz : K) (xlo xhi ylo yhi zlo zhi : Nat → Nat → BCData K)
    (cx cy cz : Nat) (u : Nat → K) :
    progSum (cart3Row nx ny nz dx dy dz xlo xhi ylo yhi zlo zhi cx cy cz).2 u
        + (cart3Row nx ny nz dx dy dz xlo xhi ylo yhi zlo zhi cx cy cz).1 =
      (nbLo cx (xlo cy cz) (fun k => u ((k * ny + cy) * nz + cz)) - 2 * u ((cx * ny + cy) * nz + cz)
          + nbHi nx cx (xhi cy cz) (fun k => u ((k * ny + cy) * nz + cz))) / (dx * dx)
      + (nbLo cy (ylo cx cz) (fun k => u ((cx * ny + k) * nz + cz)) - 2 * u ((cx * ny + cy) * nz + cz)
          + nbHi ny cy (yhi cx cz) (fun k => u ((cx * ny + k) * nz + cz))) / (dy * dy)
      + (nbLo cz (zlo cx cy) (fun k => u ((cx * ny + cy) * nz + k)) - 2 * u ((cx * ny + cy) * nz + cz)
          + nbHi nz cz (zhi cx cy) (fun k => u ((cx * ny + cy) * nz + k))) / (dz * dz) := by
  have h1 := axisOps_apply nx cx (1 / (dx * dx)) (1 / (dx * dx)) (xlo cy cz) (xhi cy cz)
    (fun k => (k * ny + cy) * nz + cz) u
  have h2 := axisOps_apply ny cy (1 / (dy * dy)) (1 / (dy * dy)) (ylo cx cz) (yhi cx cz)
    (fun k => (cx * ny + k) * nz + cz) u
  have h3 := axisOps_apply nz cz (1 / (dz * dz)) (1 / (dz * dz)) (zlo cx cy) (zhi cx cy)
    (fun k => (cx * ny + cy) * nz + k) u
  unfold cart3Row
  have e : ∀ (k : Nat) (v : K) (ops : List (Op K)), progSum (Op.set k v :: ops) u = v * u k + progSum ops u := by
    intro k v ops; unfold progSum; simp
  simp only [e, progSum_append]
  push_cast at h1 h2 h3 ⊢
  linear_combination h1 + h2 + h3

/-- cylindrical: radial weights `1/dr² ∓ 1/(2 r dr)`, axial weight `1/dz²` - the row is the
cylindrical Laplacian of C01 with virtual points on the radial and axial faces -/
theorem cyl_row_apply (nr nz : Nat) (r : Int → K) (dr dz : K) (rlo rhi zlo zhi : Nat → BCData K)
    (cx cz : Nat) (u : Nat → K) :
    progSum (cylRow nr nz r dr dz rlo rhi zlo zhi cx cz).2 u + (cylRow nr nz r dr dz rlo rhi zlo zhi cx cz).1 =
      (nbLo cx (rlo cz) (fun k => u (k * nz + cz)) - 2 * u (cx * nz + cz)
          + nbHi nr cx (rhi cz) (fun k => u (k * nz + cz))) / (dr * dr)
      + (nbHi nr cx (rhi cz) (fun k => u (k * nz + cz)) - nbLo cx (rlo cz) (fun k => u (k * nz + cz)))
          / (2 * r ((cx:Int) + 1) * dr)
      + (nbLo cz (zlo cx) (fun k => u (cx * nz + k)) - 2 * u (cx * nz + cz)
          + nbHi nz cz (zhi cx) (fun k => u (cx * nz + k))) / (dz * dz) := by
  have h1 := axisOps_apply nr cx (1 / (dr * dr) - 1 / (2 * r ((cx:Int) + 1) * dr))
    (1 / (dr * dr) + 1 / (2 * r ((cx:Int) + 1) * dr)) (rlo cz) (rhi cz) (fun k => k * nz + cz) u
  have h2 := axisOps_apply nz cz (1 / (dz * dz)) (1 / (dz * dz)) (zlo cx) (zhi cx) (fun k => cx * nz + k) u
  unfold cylRow
  have e : ∀ (k : Nat) (v : K) (ops : List (Op K)), progSum (Op.set k v :: ops) u = v * u k + progSum ops u := by
    intro k v ops; unfold progSum; simp
  simp only [e, progSum_append]
  push_cast at h1 h2 ⊢
  linear_combination h1 + h2

/-- the terms of a 1-d row really are the row-vector product of the assembled matrix, provided the
boundary data refer to existing cells (which `get_sparse_matrix_data` guarantees) -/
theorem cart1_matvec_eq_progSum (N : Nat) (dx : K) (lo hi : BCData K) (i : Nat) (hi' : i < N)
    (hlo : ∀ e ∈ lo.entries, e.1 < N) (hhi : ∀ e ∈ hi.entries, e.1 < N) (x : Nat → K) :
    matvec N (cart1Row N dx lo hi i).2 x = progSum (cart1Row N dx lo hi i).2 x := by
  apply rowEntry_add_only
  intro op hop
  unfold cart1Row axisOps at hop
  simp only [id, List.mem_cons, List.mem_append] at hop
  rcases hop with rfl | hop | hop
  · exact ⟨i, _, rfl, hi'⟩
  · split_ifs at hop with h0
    · simp only [List.mem_map] at hop
      obtain ⟨e, he, rfl⟩ := hop
      exact ⟨e.1, _, rfl, hlo e he⟩
    · simp only [List.mem_singleton] at hop
      subst hop
      exact ⟨i - 1, _, rfl, by omega⟩
  · split_ifs at hop with hN
    · simp only [List.mem_map] at hop
      obtain ⟨e, he, rfl⟩ := hop
      exact ⟨e.1, _, rfl, hhi e he⟩
    · simp only [List.mem_singleton] at hop
      subst hop
      exact ⟨i + 1, _, rfl, by omega⟩

/-! ### non-vacuity: a concrete assembled row -/
example : rowEntry (cart1Row 3 (1/2 : Rat) (bcData 3 .lower (1/2) (.neumann 3)) (bcData 3 .upper (1/2) (.dirichlet 1)) 0).2 0 = -4 := by
  decide +kernel
example : (cart1Row 3 (1/2 : Rat) (bcData 3 .lower (1/2) (.neumann 3)) (bcData 3 .upper (1/2) (.dirichlet 1)) 0).1 = 6 := by
  decide +kernel

/-! ### consequences for the solvers -/

/-- the residual the solver checks (`M x - (rhs - v)`) is the residual of feeding the solution back
into the discrete Laplacian with the same boundary conditions -/
theorem residual_identity (Mx v lap rhs : K) (h : Mx + v = lap) : Mx - (rhs - v) = lap - rhs := by
  rw [← h]; ring

/-- a curvature condition makes the boundary row of the 1-d Cartesian matrix independent of the
unknowns (all entries cancel): the problem is solvable only if the right-hand side of that row
equals the prescribed curvature - otherwise the solver has to report an error -/
theorem curvature_row_degenerate (N : Nat) (hN : 2 ≤ N) (dx k : K) (hdx : dx ≠ 0) (hi : BCData K) (x : Nat → K) :
    progSum (cart1Row N dx (bcData N .lower dx (.curvature k)) hi 0).2 x
      + (cart1Row N dx (bcData N .lower dx (.curvature k)) hi 0).1 = k := by
  rw [cart1_row_apply]
  have h0 : (0:Nat) ≠ N - 1 := by omega
  unfold nbLo nbHi
  simp only [if_true, if_neg h0]
  rw [bcData_ghost]
  simp only [ghost2, vpCurvature, near0, near20]
  push_cast
  field_simp
  ring

theorem progSum_set_cons (k : Nat) (v : K) (ops : List (Op K)) (x : Nat → K) :
    progSum (Op.set k v :: ops) x = progSum (Op.add k v :: ops) x := by
  unfold progSum; simp

/-- a row program `first :: rest` whose first operation assigns or accumulates a fresh entry and whose other
operations accumulate, all into existing columns: the row-vector product of the assembled matrix row
(`rowEntry`, what the driver evaluates) is the sum of the terms -/
theorem matvec_set_cons_eq_progSum (n k : Nat) (v : K) (ops : List (Op K)) (x : Nat → K) (hk : k < n)
    (hadd : ∀ op ∈ ops, ∃ k v, op = .add k v ∧ k < n) :
    matvec n (Op.set k v :: ops) x = progSum (Op.set k v :: ops) x := by
  rw [matvec_set_first, progSum_set_cons]
  apply rowEntry_add_only
  intro op hop
  rcases List.mem_cons.mp hop with rfl | h
  · exact ⟨k, v, rfl, hk⟩
  · exact hadd op h

theorem matvec_add_cons_eq_progSum (n k : Nat) (v : K) (ops : List (Op K)) (x : Nat → K) (hk : k < n)
    (hadd : ∀ op ∈ ops, ∃ k v, op = .add k v ∧ k < n) :
    matvec n (Op.add k v :: ops) x = progSum (Op.add k v :: ops) x := by
  apply rowEntry_add_only
  intro op hop
  rcases List.mem_cons.mp hop with rfl | h
  · exact ⟨k, v, rfl, hk⟩
  · exact hadd op h

/-- the operations of the generic three-point row accumulate into existing columns, provided the column map sends
the cells of the axis to existing columns and the boundary data refer to cells of the axis -/
theorem axisOps_adds (n N i : Nat) (wl wh : K) (lo hi : BCData K) (col : Nat → Nat) (hi' : i < N)
    (hcol : ∀ k, k < N → col k < n) (hlo : ∀ e ∈ lo.entries, e.1 < N) (hhi : ∀ e ∈ hi.entries, e.1 < N) :
    ∀ op ∈ (axisOps N i wl wh lo hi col).2, ∃ k v, op = Op.add k v ∧ k < n := by
  intro op hop
  unfold axisOps at hop
  simp only [List.mem_append] at hop
  rcases hop with hop | hop
  · split_ifs at hop with h0
    · simp only [List.mem_map] at hop
      obtain ⟨e, he, rfl⟩ := hop
      exact ⟨col e.1, _, rfl, hcol _ (hlo e he)⟩
    · simp only [List.mem_singleton] at hop
      subst hop
      exact ⟨col (i - 1), _, rfl, hcol _ (by omega)⟩
  · split_ifs at hop with hN
    · simp only [List.mem_map] at hop
      obtain ⟨e, he, rfl⟩ := hop
      exact ⟨col e.1, _, rfl, hcol _ (hhi e he)⟩
    · simp only [List.mem_singleton] at hop
      subst hop
      exact ⟨col (i + 1), _, rfl, hcol _ (by omega)⟩

/-- `get_sparse_matrix_data` refers to existing cells of its axis (two cells suffice for every condition class) -/
theorem bcData_entries_lt (N : Nat) (hN : 2 ≤ N) (s : Side) (dx : K) (c : PCond K) :
    ∀ e ∈ (bcData N s dx c).entries, e.1 < N := by
  intro e he
  cases c <;> cases s <;> simp [bcData, near0, near20, opp0] at he <;> (try rcases he with rfl | rfl) <;>
    simp <;> omega

theorem noBC_entries_lt (N : Nat) : ∀ e ∈ (noBC : BCData K).entries, e.1 < N := by
  intro e he; simp [noBC] at he

/-! ### what the driver evaluates (`rowEntry`, hence `matvec`) is the sum of the terms, for every row program -/

theorem polar_matvec_eq_progSum (N : Nat) (r : Int → K) (dr : K) (rmin0 : Bool) (lo hi : BCData K) (i : Nat) (hi' : i < N)
    (hlo : ∀ e ∈ lo.entries, e.1 < N) (hhi : ∀ e ∈ hi.entries, e.1 < N) (x : Nat → K) :
    matvec N (polarRow N r dr rmin0 lo hi i).2 x = progSum (polarRow N r dr rmin0 lo hi i).2 x := by
  unfold polarRow
  apply matvec_add_cons_eq_progSum N i _ _ x hi'
  apply axisOps_adds N N i _ _ _ hi id hi' (fun k hk => hk) _ hhi
  split_ifs
  · exact noBC_entries_lt N
  · exact hlo

theorem sph_matvec_eq_progSum (N : Nat) (r : Int → K) (dr : K) (rmin0 : Bool) (lo hi : BCData K) (i : Nat) (hi' : i < N)
    (hlo : ∀ e ∈ lo.entries, e.1 < N) (hhi : ∀ e ∈ hi.entries, e.1 < N) (x : Nat → K) :
    matvec N (sphRow N r dr rmin0 lo hi i).2 x = progSum (sphRow N r dr rmin0 lo hi i).2 x := by
  unfold sphRow
  apply matvec_add_cons_eq_progSum N i _ _ x hi'
  apply axisOps_adds N N i _ _ _ hi id hi' (fun k hk => hk) _ hhi
  split_ifs
  · exact noBC_entries_lt N
  · exact hlo

theorem flat2_lt {nx ny a b : Nat} (ha : a < nx) (hb : b < ny) : a * ny + b < nx * ny := by
  calc a * ny + b < a * ny + ny := by omega
    _ = (a + 1) * ny := by ring
    _ ≤ nx * ny := Nat.mul_le_mul_right ny ha

theorem flat3_lt {nx ny nz a b c : Nat} (ha : a < nx) (hb : b < ny) (hc : c < nz) :
    (a * ny + b) * nz + c < nx * ny * nz := flat2_lt (flat2_lt ha hb) hc

theorem cart2_matvec_eq_progSum (nx ny : Nat) (dx dy : K) (xlo xhi ylo yhi : Nat → BCData K) (cx cy : Nat)
    (hx : cx < nx) (hy : cy < ny)
    (hxlo : ∀ e ∈ (xlo cy).entries, e.1 < nx) (hxhi : ∀ e ∈ (xhi cy).entries, e.1 < nx)
    (hylo : ∀ e ∈ (ylo cx).entries, e.1 < ny) (hyhi : ∀ e ∈ (yhi cx).entries, e.1 < ny) (u : Nat → K) :
    matvec (nx * ny) (cart2Row nx ny dx dy xlo xhi ylo yhi cx cy).2 u
      = progSum (cart2Row nx ny dx dy xlo xhi ylo yhi cx cy).2 u := by
  unfold cart2Row
  apply matvec_set_cons_eq_progSum (nx * ny) _ _ _ u (flat2_lt hx hy)
  intro op hop
  rcases List.mem_append.mp hop with h | h
  · exact axisOps_adds (nx * ny) nx cx _ _ _ _ _ hx (fun k hk => flat2_lt hk hy) hxlo hxhi op h
  · exact axisOps_adds (nx * ny) ny cy _ _ _ _ _ hy (fun k hk => flat2_lt hx hk) hylo hyhi op h

theorem cart3_matvec_eq_progSum (nx ny nz : Nat) (dx dy dz : K) (xlo xhi ylo yhi zlo zhi : Nat → Nat → BCData K)
    (cx cy cz : Nat) (hx : cx < nx) (hy : cy < ny) (hz : cz < nz)
    (hxlo : ∀ e ∈ (xlo cy cz).entries, e.1 < nx) (hxhi : ∀ e ∈ (xhi cy cz).entries, e.1 < nx)
    (hylo : ∀ e ∈ (ylo cx cz).entries, e.1 < ny) (hyhi : ∀ e ∈ (yhi cx cz).entries, e.1 < ny)
    (hzlo : ∀ e ∈ (zlo cx cy).entries, e.1 < nz) (hzhi : ∀ e ∈ (zhi cx cy).entries, e.1 < nz) (u : Nat → K) :
    matvec (nx * ny * nz) (cart3Row nx ny nz dx dy dz xlo xhi ylo yhi zlo zhi cx cy cz).2 u
      = progSum (cart3Row nx ny nz dx dy dz xlo xhi ylo yhi zlo zhi cx cy cz).2 u := by
  unfold cart3Row
  apply matvec_set_cons_eq_progSum (nx * ny * nz) _ _ _ u (flat3_lt hx hy hz)
  intro op hop
  rcases List.mem_append.mp hop with h | h
  · rcases List.mem_append.mp h with h | h
    · exact axisOps_adds (nx * ny * nz) nx cx _ _ _ _ _ hx (fun k hk => flat3_lt hk hy hz) hxlo hxhi op h
    · exact axisOps_adds (nx * ny * nz) ny cy _ _ _ _ _ hy (fun k hk => flat3_lt hx hk hz) hylo hyhi op h
  · exact axisOps_adds (nx * ny * nz) nz cz _ _ _ _ _ hz (fun k hk => flat3_lt hx hy hk) hzlo hzhi op h

theorem cyl_matvec_eq_progSum (nr nz : Nat) (r : Int → K) (dr dz : K) (rlo rhi zlo zhi : Nat → BCData K) (cx cz : Nat)
    (hx : cx < nr) (hz : cz < nz)
    (hrlo : ∀ e ∈ (rlo cz).entries, e.1 < nr) (hrhi : ∀ e ∈ (rhi cz).entries, e.1 < nr)
    (hzlo : ∀ e ∈ (zlo cx).entries, e.1 < nz) (hzhi : ∀ e ∈ (zhi cx).entries, e.1 < nz) (u : Nat → K) :
    matvec (nr * nz) (cylRow nr nz r dr dz rlo rhi zlo zhi cx cz).2 u
      = progSum (cylRow nr nz r dr dz rlo rhi zlo zhi cx cz).2 u := by
  unfold cylRow
  apply matvec_set_cons_eq_progSum (nr * nz) _ _ _ u (flat2_lt hx hz)
  intro op hop
  rcases List.mem_append.mp hop with h | h
  · exact axisOps_adds (nr * nz) nr cx _ _ _ _ _ hx (fun k hk => flat2_lt hk hz) hrlo hrhi op h
  · exact axisOps_adds (nr * nz) nz cz _ _ _ _ _ hz (fun k hk => flat2_lt hx hk) hzlo hzhi op h

/-! ### the rows against the stencils of C01 on the ghost-extended array -/

/-- neighbour values read from a padded line `g` (index 0 and `N+1` = virtual points) -/
theorem nbLo_of_line (N i : Nat) (lo : BCData K) (y : Nat → K) (g : Int → K) (hi' : i < N)
    (hval : ∀ k : Nat, k < N → g ((k:Int) + 1) = y k) (hlo : i = 0 → g 0 = lo.eval y) :
    g ((i:Int) + 1 - 1) = nbLo i lo y := by
  unfold nbLo
  split_ifs with h0
  · subst h0; simpa using hlo rfl
  · have := hval (i - 1) (by omega)
    have e : ((i - 1 : Nat) : Int) + 1 = (i:Int) + 1 - 1 := by omega
    rw [← e, this]

theorem nbHi_of_line (N i : Nat) (hi : BCData K) (y : Nat → K) (g : Int → K) (hi' : i < N)
    (hval : ∀ k : Nat, k < N → g ((k:Int) + 1) = y k) (hhi : g ((N:Int) + 1) = hi.eval y) :
    g ((i:Int) + 1 + 1) = nbHi N i hi y := by
  unfold nbHi
  split_ifs with hN
  · have e : (i:Int) + 1 + 1 = (N:Int) + 1 := by omega
    rw [e, hhi]
  · have := hval (i + 1) (by omega)
    have e : ((i + 1 : Nat) : Int) + 1 = (i:Int) + 1 + 1 := by omega
    rw [← e, this]

/-- **full disk, every row**: for `r_min = 0` the rows of the polar matrix equal the polar Laplacian of C01 on the padded
line for every value of the inner ghost cell `a [0]` (row 0 skips the inner virtual point, whose weight vanishes at
`r = dr/2`; the other rows do not touch it) -/
theorem polar_disk_matrix_eq_laplace (N : Nat) (r : Int → K) (dr : K) (hdr : dr ≠ 0) (lo hi : BCData K)
    (hr : r 1 = dr / 2) (i : Nat) (hi' : i < N) (x : Nat → K) (a : Arr K)
    (hval : ∀ k : Nat, k < N → a [(k:Int) + 1] = x k) (hhi : a [(N:Int) + 1] = hi.eval x) :
    progSum (polarRow N r dr true lo hi i).2 x + (polarRow N r dr true lo hi i).1 = polarLaplace r dr a ((i:Int) + 1) := by
  have hh := nbHi_of_line N i hi x (fun k => a [k]) hi' hval hhi
  by_cases h0 : i = 0
  · subst h0
    apply polar_rmin0_row_eq_laplace N r dr hdr lo hi hr x a
    · simpa using hval 0 hi'
    · simpa using hh
  · have hrow : polarRow N r dr true lo hi i = polarRow N r dr false lo hi i := by
      unfold polarRow; simp [h0]
    have hl := nbLo_of_line N i lo x (fun k => a [k]) hi' hval (fun h => absurd h h0)
    rw [hrow, polar_row_apply N r dr lo hi i x]
    unfold polarLaplace
    rw [hl, hh, hval i hi']
    push_cast
    ring

/-- **full ball, every row** (`r_min = 0`, conservative stencil): the rows of the spherical matrix equal the spherical
Laplacian of C01 on the padded line for every value of the inner ghost cell (the inner face of the first cell has radius 0,
so its flux weight `rl²/(dr vol)` vanishes - the source sets `factor_l[0] = 0`) -/
theorem sph_ball_matrix_eq_laplace (N : Nat) (r : Int → K) (dr : K) (lo hi : BCData K)
    (hr : r 1 = dr / 2) (i : Nat) (hi' : i < N) (x : Nat → K) (a : Arr K)
    (hval : ∀ k : Nat, k < N → a [(k:Int) + 1] = x k) (hhi : a [(N:Int) + 1] = hi.eval x) :
    progSum (sphRow N r dr true lo hi i).2 x + (sphRow N r dr true lo hi i).1 = sphLaplace true r dr a ((i:Int) + 1) := by
  have hh := nbHi_of_line N i hi x (fun k => a [k]) hi' hval hhi
  by_cases h0 : i = 0
  · subst h0
    unfold sphRow sphLaplace
    simp only [and_self, if_true, Nat.cast_zero, zero_add]
    have h := axisOps_apply N 0
      ((r 1 - dr / ((2:Nat):K)) * (r 1 - dr / ((2:Nat):K)) /
        (dr * shellThird (r 1 - dr / ((2:Nat):K)) (r 1 + dr / ((2:Nat):K))))
      ((r 1 + dr / ((2:Nat):K)) * (r 1 + dr / ((2:Nat):K)) /
        (dr * shellThird (r 1 - dr / ((2:Nat):K)) (r 1 + dr / ((2:Nat):K)))) (noBC : BCData K) hi id x
    have hlo : nbLo 0 (noBC : BCData K) (fun k => x (id k)) = 0 := by
      simp [nbLo, noBC, BCData.eval]
    rw [hlo] at h
    simp only [id] at h
    unfold progSum at h ⊢
    simp only [List.map_cons, List.sum_cons]
    have e3 : ((1:Int) + 1) = 2 := by norm_num
    have e4 : ((1:Int) - 1) = 0 := by norm_num
    have hh' : a [2] = nbHi N 0 hi x := by simpa using hh
    have h00 := hval 0 hi'
    simp only [Nat.cast_zero, zero_add] at h00
    rw [e3, e4, hh', h00]
    have hz : r 1 - dr / ((2:Nat):K) = 0 := by rw [hr]; push_cast; ring
    rw [hz] at h ⊢
    linear_combination h
  · have hrow : sphRow N r dr true lo hi i = sphRow N r dr false lo hi i := by
      unfold sphRow; simp [h0]
    rw [hrow]
    -- the regular-row theorem on the array whose inner ghost cell is given the virtual-point value
    let a' : Arr K := fun idx => if idx = [0] then lo.eval x else a idx
    have hne : ∀ k : Int, 0 < k → a' [k] = a [k] := by
      intro k hk
      have : ([k] : List Int) ≠ [0] := by simp; omega
      simp [a', this]
    have := sph_matrix_eq_laplace_with_bc N r dr lo hi i hi' x a'
      (fun k hk => by rw [hne _ (by omega)]; exact hval k hk) (by simp [a'])
      (by rw [hne _ (by omega)]; exact hhi)
    rw [this]
    unfold sphLaplace
    simp only [if_true]
    rw [hne _ (by omega), hne _ (by omega), hne _ (by omega)]

/-- **2-d Cartesian**: the assembled row of cell `(cx, cy)` is the 5-point Laplacian of C01 (`cartLaplace [dx, dy]`) at the
padded position `(cx+1, cy+1)` of the array whose valid cells hold `u` and whose ghost cells on the four faces through the
cell hold the virtual-point values of the conditions (which may vary along the faces) -/
theorem cart2_matrix_eq_laplace_with_bc (nx ny : Nat) (dx dy : K) (xlo xhi ylo yhi : Nat → BCData K) (cx cy : Nat)
    (hx : cx < nx) (hy : cy < ny) (u : Nat → K) (a : Arr K)
    (hval : ∀ p q : Nat, p < nx → q < ny → a [(p:Int) + 1, (q:Int) + 1] = u (p * ny + q))
    (hxlo : a [0, (cy:Int) + 1] = (xlo cy).eval (fun k => u (k * ny + cy)))
    (hxhi : a [(nx:Int) + 1, (cy:Int) + 1] = (xhi cy).eval (fun k => u (k * ny + cy)))
    (hylo : a [(cx:Int) + 1, 0] = (ylo cx).eval (fun k => u (cx * ny + k)))
    (hyhi : a [(cx:Int) + 1, (ny:Int) + 1] = (yhi cx).eval (fun k => u (cx * ny + k))) :
    progSum (cart2Row nx ny dx dy xlo xhi ylo yhi cx cy).2 u + (cart2Row nx ny dx dy xlo xhi ylo yhi cx cy).1
      = cartLaplace [dx, dy] a [] [(cx:Int) + 1, (cy:Int) + 1] := by
  rw [cart2_row_apply]
  have hxl := nbLo_of_line nx cx (xlo cy) (fun k => u (k * ny + cy)) (fun k => a [k, (cy:Int) + 1]) hx
    (fun k hk => hval k cy hk hy) (fun _ => hxlo)
  have hxh := nbHi_of_line nx cx (xhi cy) (fun k => u (k * ny + cy)) (fun k => a [k, (cy:Int) + 1]) hx
    (fun k hk => hval k cy hk hy) hxhi
  have hyl := nbLo_of_line ny cy (ylo cx) (fun k => u (cx * ny + k)) (fun k => a [(cx:Int) + 1, k]) hy
    (fun k hk => hval cx k hx hk) (fun _ => hylo)
  have hyh := nbHi_of_line ny cy (yhi cx) (fun k => u (cx * ny + k)) (fun k => a [(cx:Int) + 1, k]) hy
    (fun k hk => hval cx k hx hk) hyhi
  simp only [cartLaplace, lsum, d2, shift, List.length_cons, List.length_nil, List.range_succ, List.range_zero,
    List.nil_append, List.map_cons, List.map_nil, List.foldr_cons, List.foldr_nil,
    List.getD_cons_zero, List.getD_cons_succ, List.set_cons_zero, List.set_cons_succ, zero_add, Nat.cast_zero, add_zero,
    List.cons_append, ← sub_eq_add_neg]
  rw [hxl, hxh, hyl, hyh, hval cx cy hx hy]
  push_cast
  ring

/-- **3-d Cartesian**: the assembled row of cell `(cx, cy, cz)` is the 7-point Laplacian of C01 at the padded position -/
theorem cart3_matrix_eq_laplace_with_bc (nx ny nz : Nat) (dx dy dz : K) (xlo xhi ylo yhi zlo zhi : Nat → Nat → BCData K)
    (cx cy cz : Nat) (hx : cx < nx) (hy : cy < ny) (hz : cz < nz) (u : Nat → K) (a : Arr K)
    (hval : ∀ p q s : Nat, p < nx → q < ny → s < nz → a [(p:Int) + 1, (q:Int) + 1, (s:Int) + 1] = u ((p * ny + q) * nz + s))
    (hxlo : a [0, (cy:Int) + 1, (cz:Int) + 1] = (xlo cy cz).eval (fun k => u ((k * ny + cy) * nz + cz)))
    (hxhi : a [(nx:Int) + 1, (cy:Int) + 1, (cz:Int) + 1] = (xhi cy cz).eval (fun k => u ((k * ny + cy) * nz + cz)))
    (hylo : a [(cx:Int) + 1, 0, (cz:Int) + 1] = (ylo cx cz).eval (fun k => u ((cx * ny + k) * nz + cz)))
    (hyhi : a [(cx:Int) + 1, (ny:Int) + 1, (cz:Int) + 1] = (yhi cx cz).eval (fun k => u ((cx * ny + k) * nz + cz)))
    (hzlo : a [(cx:Int) + 1, (cy:Int) + 1, 0] = (zlo cx cy).eval (fun k => u ((cx * ny + cy) * nz + k)))
    (hzhi : a [(cx:Int) + 1, (cy:Int) + 1, (nz:Int) + 1] = (zhi cx cy).eval (fun k => u ((cx * ny + cy) * nz + k))) :
    progSum (cart3Row nx ny nz dx dy dz xlo xhi ylo yhi zlo zhi cx cy cz).2 u
        + (cart3Row nx ny nz dx dy dz xlo xhi ylo yhi zlo zhi cx cy cz).1
      = cartLaplace [dx, dy, dz] a [] [(cx:Int) + 1, (cy:Int) + 1, (cz:Int) + 1] := by
  rw [cart3_row_apply]
  have hxl := nbLo_of_line nx cx (xlo cy cz) (fun k => u ((k * ny + cy) * nz + cz)) (fun k => a [k, (cy:Int) + 1, (cz:Int) + 1]) hx
    (fun k hk => hval k cy cz hk hy hz) (fun _ => hxlo)
  have hxh := nbHi_of_line nx cx (xhi cy cz) (fun k => u ((k * ny + cy) * nz + cz)) (fun k => a [k, (cy:Int) + 1, (cz:Int) + 1]) hx
    (fun k hk => hval k cy cz hk hy hz) hxhi
  have hyl := nbLo_of_line ny cy (ylo cx cz) (fun k => u ((cx * ny + k) * nz + cz)) (fun k => a [(cx:Int) + 1, k, (cz:Int) + 1]) hy
    (fun k hk => hval cx k cz hx hk hz) (fun _ => hylo)
  have hyh := nbHi_of_line ny cy (yhi cx cz) (fun k => u ((cx * ny + k) * nz + cz)) (fun k => a [(cx:Int) + 1, k, (cz:Int) + 1]) hy
    (fun k hk => hval cx k cz hx hk hz) hyhi
  have hzl := nbLo_of_line nz cz (zlo cx cy) (fun k => u ((cx * ny + cy) * nz + k)) (fun k => a [(cx:Int) + 1, (cy:Int) + 1, k]) hz
    (fun k hk => hval cx cy k hx hy hk) (fun _ => hzlo)
  have hzh := nbHi_of_line nz cz (zhi cx cy) (fun k => u ((cx * ny + cy) * nz + k)) (fun k => a [(cx:Int) + 1, (cy:Int) + 1, k]) hz
    (fun k hk => hval cx cy k hx hy hk) hzhi
  simp only [cartLaplace, lsum, d2, shift, List.length_cons, List.length_nil, List.range_succ, List.range_zero,
    List.nil_append, List.map_cons, List.map_nil, List.foldr_cons, List.foldr_nil,
    List.getD_cons_zero, List.getD_cons_succ, List.set_cons_zero, List.set_cons_succ, zero_add, Nat.cast_zero, add_zero,
    List.cons_append, ← sub_eq_add_neg]
  rw [hxl, hxh, hyl, hyh, hzl, hzh, hval cx cy cz hx hy hz]
  push_cast
  ring

/-- **cylindrical**: the assembled row of cell `(cx, cz)` is the cylindrical Laplacian of C01 at the padded position, with
virtual points on the radial and axial faces (for `r_min = 0` the inner radial condition is the symmetry condition the
grid imposes - the assembly has no special branch) -/
theorem cyl_matrix_eq_laplace_with_bc (nr nz : Nat) (r : Int → K) (dr dz : K) (rlo rhi zlo zhi : Nat → BCData K)
    (cx cz : Nat) (hx : cx < nr) (hz : cz < nz) (u : Nat → K) (a : Arr K)
    (hval : ∀ p q : Nat, p < nr → q < nz → a [(p:Int) + 1, (q:Int) + 1] = u (p * nz + q))
    (hrlo : a [0, (cz:Int) + 1] = (rlo cz).eval (fun k => u (k * nz + cz)))
    (hrhi : a [(nr:Int) + 1, (cz:Int) + 1] = (rhi cz).eval (fun k => u (k * nz + cz)))
    (hzlo : a [(cx:Int) + 1, 0] = (zlo cx).eval (fun k => u (cx * nz + k)))
    (hzhi : a [(cx:Int) + 1, (nz:Int) + 1] = (zhi cx).eval (fun k => u (cx * nz + k))) :
    progSum (cylRow nr nz r dr dz rlo rhi zlo zhi cx cz).2 u + (cylRow nr nz r dr dz rlo rhi zlo zhi cx cz).1
      = cylLaplace r dr dz a ((cx:Int) + 1) ((cz:Int) + 1) := by
  rw [cyl_row_apply]
  have hrl := nbLo_of_line nr cx (rlo cz) (fun k => u (k * nz + cz)) (fun k => a [k, (cz:Int) + 1]) hx
    (fun k hk => hval k cz hk hz) (fun _ => hrlo)
  have hrh := nbHi_of_line nr cx (rhi cz) (fun k => u (k * nz + cz)) (fun k => a [k, (cz:Int) + 1]) hx
    (fun k hk => hval k cz hk hz) hrhi
  have hzl := nbLo_of_line nz cz (zlo cx) (fun k => u (cx * nz + k)) (fun k => a [(cx:Int) + 1, k]) hz
    (fun k hk => hval cx k hx hk) (fun _ => hzlo)
  have hzh := nbHi_of_line nz cz (zhi cx) (fun k => u (cx * nz + k)) (fun k => a [(cx:Int) + 1, k]) hz
    (fun k hk => hval cx k hx hk) hzhi
  unfold cylLaplace
  rw [hrl, hrh, hzl, hzh, hval cx cz hx hz]
  push_cast
  ring

/-! ### composition: the matrix the driver evaluates, with the boundary data of `get_sparse_matrix_data`

`Drv/C18.lean` builds every row from `bcData` of the parsed conditions and reports `rowEntry ops col` for every column,
which is what the harness compares with the real dense matrix.  `matvec n ops x = Σ_col rowEntry ops col * x col` is the
row-vector product of exactly these entries.  The theorems below state `M x + v = Laplacian of C01 on the ghost-extended
array` for that product, for every grid class; `bcData_ghost` identifies the ghost values with the ghost-cell law of C02.
At least two cells per axis (the quantifier of the property): a curvature condition refers to two cells. -/

theorem cart1_assembled_eq_laplace (N : Nat) (hN : 2 ≤ N) (dx : K) (cl ch : PCond K) (i : Nat) (hi' : i < N)
    (x : Nat → K) (a : Arr K) (hval : ∀ k : Nat, k < N → a [(k:Int) + 1] = x k)
    (hlo : a [0] = (bcData N .lower dx cl).eval x) (hhi : a [(N:Int) + 1] = (bcData N .upper dx ch).eval x) :
    matvec N (cart1Row N dx (bcData N .lower dx cl) (bcData N .upper dx ch) i).2 x
        + (cart1Row N dx (bcData N .lower dx cl) (bcData N .upper dx ch) i).1 = cartLaplace [dx] a [] [(i:Int) + 1] := by
  rw [cart1_matvec_eq_progSum N dx _ _ i hi' (bcData_entries_lt N hN _ dx cl) (bcData_entries_lt N hN _ dx ch)]
  exact cart1_matrix_eq_laplace_with_bc N dx _ _ i hi' x a hval hlo hhi

theorem polar_assembled_eq_laplace (N : Nat) (hN : 2 ≤ N) (r : Int → K) (dr : K) (cl ch : PCond K) (i : Nat) (hi' : i < N)
    (x : Nat → K) (a : Arr K) (hval : ∀ k : Nat, k < N → a [(k:Int) + 1] = x k)
    (hlo : a [0] = (bcData N .lower dr cl).eval x) (hhi : a [(N:Int) + 1] = (bcData N .upper dr ch).eval x) :
    matvec N (polarRow N r dr false (bcData N .lower dr cl) (bcData N .upper dr ch) i).2 x
        + (polarRow N r dr false (bcData N .lower dr cl) (bcData N .upper dr ch) i).1 = polarLaplace r dr a ((i:Int) + 1) := by
  rw [polar_matvec_eq_progSum N r dr false _ _ i hi' (bcData_entries_lt N hN _ dr cl) (bcData_entries_lt N hN _ dr ch)]
  exact polar_matrix_eq_laplace_with_bc N r dr _ _ i hi' x a hval hlo hhi

theorem polar_disk_assembled_eq_laplace (N : Nat) (hN : 2 ≤ N) (r : Int → K) (dr : K) (hdr : dr ≠ 0) (hr : r 1 = dr / 2)
    (cl ch : PCond K) (i : Nat) (hi' : i < N)
    (x : Nat → K) (a : Arr K) (hval : ∀ k : Nat, k < N → a [(k:Int) + 1] = x k)
    (hhi : a [(N:Int) + 1] = (bcData N .upper dr ch).eval x) :
    matvec N (polarRow N r dr true (bcData N .lower dr cl) (bcData N .upper dr ch) i).2 x
        + (polarRow N r dr true (bcData N .lower dr cl) (bcData N .upper dr ch) i).1 = polarLaplace r dr a ((i:Int) + 1) := by
  rw [polar_matvec_eq_progSum N r dr true _ _ i hi' (bcData_entries_lt N hN _ dr cl) (bcData_entries_lt N hN _ dr ch)]
  exact polar_disk_matrix_eq_laplace N r dr hdr _ _ hr i hi' x a hval hhi

theorem sph_assembled_eq_laplace (N : Nat) (hN : 2 ≤ N) (r : Int → K) (dr : K) (cl ch : PCond K) (i : Nat) (hi' : i < N)
    (x : Nat → K) (a : Arr K) (hval : ∀ k : Nat, k < N → a [(k:Int) + 1] = x k)
    (hlo : a [0] = (bcData N .lower dr cl).eval x) (hhi : a [(N:Int) + 1] = (bcData N .upper dr ch).eval x) :
    matvec N (sphRow N r dr false (bcData N .lower dr cl) (bcData N .upper dr ch) i).2 x
        + (sphRow N r dr false (bcData N .lower dr cl) (bcData N .upper dr ch) i).1 = sphLaplace true r dr a ((i:Int) + 1) := by
  rw [sph_matvec_eq_progSum N r dr false _ _ i hi' (bcData_entries_lt N hN _ dr cl) (bcData_entries_lt N hN _ dr ch)]
  exact sph_matrix_eq_laplace_with_bc N r dr _ _ i hi' x a hval hlo hhi

theorem sph_ball_assembled_eq_laplace (N : Nat) (hN : 2 ≤ N) (r : Int → K) (dr : K) (hr : r 1 = dr / 2)
    (cl ch : PCond K) (i : Nat) (hi' : i < N)
    (x : Nat → K) (a : Arr K) (hval : ∀ k : Nat, k < N → a [(k:Int) + 1] = x k)
    (hhi : a [(N:Int) + 1] = (bcData N .upper dr ch).eval x) :
    matvec N (sphRow N r dr true (bcData N .lower dr cl) (bcData N .upper dr ch) i).2 x
        + (sphRow N r dr true (bcData N .lower dr cl) (bcData N .upper dr ch) i).1 = sphLaplace true r dr a ((i:Int) + 1) := by
  rw [sph_matvec_eq_progSum N r dr true _ _ i hi' (bcData_entries_lt N hN _ dr cl) (bcData_entries_lt N hN _ dr ch)]
  exact sph_ball_matrix_eq_laplace N r dr _ _ hr i hi' x a hval hhi

/-- 2-d Cartesian; `cxl y`, `cxh y`, `cyl x`, `cyh x` are the conditions at the face points -/
theorem cart2_assembled_eq_laplace (nx ny : Nat) (hnx : 2 ≤ nx) (hny : 2 ≤ ny) (dx dy : K)
    (cxl cxh cyl cyh : Nat → PCond K) (cx cy : Nat) (hx : cx < nx) (hy : cy < ny) (u : Nat → K) (a : Arr K)
    (hval : ∀ p q : Nat, p < nx → q < ny → a [(p:Int) + 1, (q:Int) + 1] = u (p * ny + q))
    (hxlo : a [0, (cy:Int) + 1] = (bcData nx .lower dx (cxl cy)).eval (fun k => u (k * ny + cy)))
    (hxhi : a [(nx:Int) + 1, (cy:Int) + 1] = (bcData nx .upper dx (cxh cy)).eval (fun k => u (k * ny + cy)))
    (hylo : a [(cx:Int) + 1, 0] = (bcData ny .lower dy (cyl cx)).eval (fun k => u (cx * ny + k)))
    (hyhi : a [(cx:Int) + 1, (ny:Int) + 1] = (bcData ny .upper dy (cyh cx)).eval (fun k => u (cx * ny + k))) :
    matvec (nx * ny) (cart2Row nx ny dx dy (fun y => bcData nx .lower dx (cxl y)) (fun y => bcData nx .upper dx (cxh y))
        (fun x => bcData ny .lower dy (cyl x)) (fun x => bcData ny .upper dy (cyh x)) cx cy).2 u
      + (cart2Row nx ny dx dy (fun y => bcData nx .lower dx (cxl y)) (fun y => bcData nx .upper dx (cxh y))
        (fun x => bcData ny .lower dy (cyl x)) (fun x => bcData ny .upper dy (cyh x)) cx cy).1
      = cartLaplace [dx, dy] a [] [(cx:Int) + 1, (cy:Int) + 1] := by
  rw [cart2_matvec_eq_progSum nx ny dx dy _ _ _ _ cx cy hx hy (bcData_entries_lt nx hnx _ dx _)
    (bcData_entries_lt nx hnx _ dx _) (bcData_entries_lt ny hny _ dy _) (bcData_entries_lt ny hny _ dy _)]
  exact cart2_matrix_eq_laplace_with_bc nx ny dx dy _ _ _ _ cx cy hx hy u a hval hxlo hxhi hylo hyhi

theorem cart3_assembled_eq_laplace (nx ny nz : Nat) (hnx : 2 ≤ nx) (hny : 2 ≤ ny) (hnz : 2 ≤ nz) (dx dy dz : K)
    (cxl cxh cyl cyh czl czh : Nat → Nat → PCond K) (cx cy cz : Nat) (hx : cx < nx) (hy : cy < ny) (hz : cz < nz)
    (u : Nat → K) (a : Arr K)
    (hval : ∀ p q s : Nat, p < nx → q < ny → s < nz → a [(p:Int) + 1, (q:Int) + 1, (s:Int) + 1] = u ((p * ny + q) * nz + s))
    (hxlo : a [0, (cy:Int) + 1, (cz:Int) + 1] = (bcData nx .lower dx (cxl cy cz)).eval (fun k => u ((k * ny + cy) * nz + cz)))
    (hxhi : a [(nx:Int) + 1, (cy:Int) + 1, (cz:Int) + 1] = (bcData nx .upper dx (cxh cy cz)).eval (fun k => u ((k * ny + cy) * nz + cz)))
    (hylo : a [(cx:Int) + 1, 0, (cz:Int) + 1] = (bcData ny .lower dy (cyl cx cz)).eval (fun k => u ((cx * ny + k) * nz + cz)))
    (hyhi : a [(cx:Int) + 1, (ny:Int) + 1, (cz:Int) + 1] = (bcData ny .upper dy (cyh cx cz)).eval (fun k => u ((cx * ny + k) * nz + cz)))
    (hzlo : a [(cx:Int) + 1, (cy:Int) + 1, 0] = (bcData nz .lower dz (czl cx cy)).eval (fun k => u ((cx * ny + cy) * nz + k)))
    (hzhi : a [(cx:Int) + 1, (cy:Int) + 1, (nz:Int) + 1] = (bcData nz .upper dz (czh cx cy)).eval (fun k => u ((cx * ny + cy) * nz + k))) :
    matvec (nx * ny * nz) (cart3Row nx ny nz dx dy dz (fun y z => bcData nx .lower dx (cxl y z)) (fun y z => bcData nx .upper dx (cxh y z))
        (fun x z => bcData ny .lower dy (cyl x z)) (fun x z => bcData ny .upper dy (cyh x z))
        (fun x y => bcData nz .lower dz (czl x y)) (fun x y => bcData nz .upper dz (czh x y)) cx cy cz).2 u
      + (cart3Row nx ny nz dx dy dz (fun y z => bcData nx .lower dx (cxl y z)) (fun y z => bcData nx .upper dx (cxh y z))
        (fun x z => bcData ny .lower dy (cyl x z)) (fun x z => bcData ny .upper dy (cyh x z))
        (fun x y => bcData nz .lower dz (czl x y)) (fun x y => bcData nz .upper dz (czh x y)) cx cy cz).1
      = cartLaplace [dx, dy, dz] a [] [(cx:Int) + 1, (cy:Int) + 1, (cz:Int) + 1] := by
  rw [cart3_matvec_eq_progSum nx ny nz dx dy dz _ _ _ _ _ _ cx cy cz hx hy hz (bcData_entries_lt nx hnx _ dx _)
    (bcData_entries_lt nx hnx _ dx _) (bcData_entries_lt ny hny _ dy _) (bcData_entries_lt ny hny _ dy _)
    (bcData_entries_lt nz hnz _ dz _) (bcData_entries_lt nz hnz _ dz _)]
  exact cart3_matrix_eq_laplace_with_bc nx ny nz dx dy dz _ _ _ _ _ _ cx cy cz hx hy hz u a hval hxlo hxhi hylo hyhi hzlo hzhi

theorem cyl_assembled_eq_laplace (nr nz : Nat) (hnr : 2 ≤ nr) (hnz : 2 ≤ nz) (r : Int → K) (dr dz : K)
    (crl crh czl czh : Nat → PCond K) (cx cz : Nat) (hx : cx < nr) (hz : cz < nz) (u : Nat → K) (a : Arr K)
    (hval : ∀ p q : Nat, p < nr → q < nz → a [(p:Int) + 1, (q:Int) + 1] = u (p * nz + q))
    (hrlo : a [0, (cz:Int) + 1] = (bcData nr .lower dr (crl cz)).eval (fun k => u (k * nz + cz)))
    (hrhi : a [(nr:Int) + 1, (cz:Int) + 1] = (bcData nr .upper dr (crh cz)).eval (fun k => u (k * nz + cz)))
    (hzlo : a [(cx:Int) + 1, 0] = (bcData nz .lower dz (czl cx)).eval (fun k => u (cx * nz + k)))
    (hzhi : a [(cx:Int) + 1, (nz:Int) + 1] = (bcData nz .upper dz (czh cx)).eval (fun k => u (cx * nz + k))) :
    matvec (nr * nz) (cylRow nr nz r dr dz (fun z => bcData nr .lower dr (crl z)) (fun z => bcData nr .upper dr (crh z))
        (fun x => bcData nz .lower dz (czl x)) (fun x => bcData nz .upper dz (czh x)) cx cz).2 u
      + (cylRow nr nz r dr dz (fun z => bcData nr .lower dr (crl z)) (fun z => bcData nr .upper dr (crh z))
        (fun x => bcData nz .lower dz (czl x)) (fun x => bcData nz .upper dz (czh x)) cx cz).1
      = cylLaplace r dr dz a ((cx:Int) + 1) ((cz:Int) + 1) := by
  rw [cyl_matvec_eq_progSum nr nz r dr dz _ _ _ _ cx cz hx hz (bcData_entries_lt nr hnr _ dr _)
    (bcData_entries_lt nr hnr _ dr _) (bcData_entries_lt nz hnz _ dz _) (bcData_entries_lt nz hnz _ dz _)]
  exact cyl_matrix_eq_laplace_with_bc nr nz r dr dz _ _ _ _ cx cz hx hz u a hval hrlo hrhi hzlo hzhi

/-! ### the hypotheses are satisfiable: a ghost-extended array exists for every data -/

theorem padded_line_exists (N : Nat) (lo hi : BCData K) (x : Nat → K) :
    ∃ a : Arr K, (∀ k : Nat, k < N → a [(k:Int) + 1] = x k) ∧ a [0] = lo.eval x ∧ a [(N:Int) + 1] = hi.eval x := by
  refine ⟨fun idx => match idx with
    | [k] => if k = 0 then lo.eval x else if k = (N:Int) + 1 then hi.eval x else x (k - 1).toNat
    | _ => 0, ?_, ?_, ?_⟩
  · intro k hk
    have h1 : ¬ ((k:Int) + 1 = 0) := by omega
    have h2 : ¬ ((k:Int) + 1 = (N:Int) + 1) := by omega
    simp [h1, h2]
  · simp
  · have h1 : ¬ ((N:Int) + 1 = 0) := by omega
    simp [h1]

theorem padded_plane_exists (nx ny : Nat) (xlo xhi ylo yhi : Nat → BCData K) (u : Nat → K) :
    ∃ a : Arr K, (∀ p q : Nat, p < nx → q < ny → a [(p:Int) + 1, (q:Int) + 1] = u (p * ny + q))
      ∧ (∀ cy : Nat, cy < ny → a [0, (cy:Int) + 1] = (xlo cy).eval (fun k => u (k * ny + cy))
          ∧ a [(nx:Int) + 1, (cy:Int) + 1] = (xhi cy).eval (fun k => u (k * ny + cy)))
      ∧ (∀ cx : Nat, cx < nx → a [(cx:Int) + 1, 0] = (ylo cx).eval (fun k => u (cx * ny + k))
          ∧ a [(cx:Int) + 1, (ny:Int) + 1] = (yhi cx).eval (fun k => u (cx * ny + k))) := by
  refine ⟨fun idx => match idx with
    | [p, q] =>
      if p = 0 then (xlo (q - 1).toNat).eval (fun k => u (k * ny + (q - 1).toNat))
      else if p = (nx:Int) + 1 then (xhi (q - 1).toNat).eval (fun k => u (k * ny + (q - 1).toNat))
      else if q = 0 then (ylo (p - 1).toNat).eval (fun k => u ((p - 1).toNat * ny + k))
      else if q = (ny:Int) + 1 then (yhi (p - 1).toNat).eval (fun k => u ((p - 1).toNat * ny + k))
      else u ((p - 1).toNat * ny + (q - 1).toNat)
    | _ => 0, ?_, ?_, ?_⟩
  · intro p q hp hq
    have h1 : ¬ ((p:Int) + 1 = 0) := by omega
    have h2 : ¬ ((p:Int) + 1 = (nx:Int) + 1) := by omega
    have h3 : ¬ ((q:Int) + 1 = 0) := by omega
    have h4 : ¬ ((q:Int) + 1 = (ny:Int) + 1) := by omega
    simp [h1, h2, h3, h4]
  · intro cy _
    have h1 : ¬ ((nx:Int) + 1 = 0) := by omega
    constructor <;> simp [h1]
  · intro cx hcx
    have h1 : ¬ ((cx:Int) + 1 = 0) := by omega
    have h2 : ¬ ((cx:Int) + 1 = (nx:Int) + 1) := by omega
    have h3 : ¬ ((ny:Int) + 1 = 0) := by omega
    constructor <;> simp [h1, h2, h3]

/-! ### curvature conditions make boundary rows vanish: such systems are singular -/

theorem progSum_zero (ops : List (Op K)) : progSum ops (fun _ => 0) = 0 := by
  induction ops with
  | nil => simp [progSum]
  | cons op ops ih =>
    unfold progSum at ih ⊢
    simp only [mul_zero] at ih ⊢
    cases op <;> simp [ih]

/-- upper-side companion of `curvature_row_degenerate` -/
theorem curvature_row_degenerate_upper (N : Nat) (hN : 2 ≤ N) (dx k : K) (hdx : dx ≠ 0) (lo : BCData K) (x : Nat → K) :
    progSum (cart1Row N dx lo (bcData N .upper dx (.curvature k)) (N - 1)).2 x
      + (cart1Row N dx lo (bcData N .upper dx (.curvature k)) (N - 1)).1 = k := by
  rw [cart1_row_apply]
  have h0 : ¬ (N - 1 = 0) := by omega
  unfold nbLo nbHi
  simp only [if_true, if_neg h0]
  rw [bcData_ghost]
  simp only [ghost2, vpCurvature, near0, near20]
  have e : N - 1 - 1 = N - 2 := by omega
  rw [e]
  push_cast
  field_simp
  ring

/-- hence the matrix row of a cell next to a curvature condition vanishes identically (all entries cancel, only the
vector entry `k` remains): **every 1-d Cartesian problem with a curvature condition is singular**; it has a solution iff
the right-hand side of that row equals the prescribed curvature.  For such problems the property demands an error if
the right-hand side is incompatible and a solution otherwise (the monitor classifies by exact rank and range). -/
theorem curvature_row_vanishes (N : Nat) (hN : 2 ≤ N) (dx k : K) (hdx : dx ≠ 0) (hi : BCData K) (x : Nat → K) :
    progSum (cart1Row N dx (bcData N .lower dx (.curvature k)) hi 0).2 x = 0 := by
  have h1 := curvature_row_degenerate N hN dx k hdx hi x
  have h2 := curvature_row_degenerate N hN dx k hdx hi (fun _ => 0)
  rw [progSum_zero, zero_add] at h2
  rw [h2] at h1
  linear_combination h1

theorem curvature_row_vanishes_upper (N : Nat) (hN : 2 ≤ N) (dx k : K) (hdx : dx ≠ 0) (lo : BCData K) (x : Nat → K) :
    progSum (cart1Row N dx lo (bcData N .upper dx (.curvature k)) (N - 1)).2 x = 0 := by
  have h1 := curvature_row_degenerate_upper N hN dx k hdx lo x
  have h2 := curvature_row_degenerate_upper N hN dx k hdx lo (fun _ => 0)
  rw [progSum_zero, zero_add] at h2
  rw [h2] at h1
  linear_combination h1

end

end PdeVerif.Matrix
