import PdeVerif.Props.C06
/-
C06 - theorems that need no ordered field: the end of an adaptive call in ANY arithmetic (IEEE doubles included),
the fixed-step loop over any field (complex-valued runs; the driver's Gaussian rationals), and the stage times of
whole fixed-step calls for every stepper.

All definitions mentioned (`adaptiveStepper`, `eulerAdaptiveStepper`, `fixedStepper`, `stepCount`, `fixpointLoop`,
`implicitStep`, `cnStep`, `eulerStep`, `rk4Step rk4Tab`) are the ones `Drv/C06.lean` evaluates against the real
steppers on every run (`c06.fixed` at `Rat` and at the Gaussian rationals `CQ`, `c06.adaptive` and `c06.steps` at
`Float`).

(1) `adaptive_end_any_arithmetic`, `adaptive_clipped_end_exact`, `dtStep_clipped`, `landT_clipped`, `landT_cases`
(2) `stepCount_pos`, `fixpointLoop_spec_any`, `fixpointLoop_none_any`, `fixedStepper_is_iterate_field`,
    `euler_loop_amp_field`, `rk4_loop_amp_field`, `fixedStepper_euler_field`, `fixedStepper_rk4_field`,
    `RealPart`, `roundHE_ofR`, `stepCount_ofR`, `fixedStepper_euler_complexLike`, `fixedStepper_rk4_complexLike`
(3) `fixedLoop_congr`, `fixedStepper_stage_times`, `mem_callTimes`, `fixedStepper_callTimes`, `fixedStepper_euler_stage_times`, `fixedStepper_rk4_stage_times`,
    `fixedStepper_implicit_cn_stage_times`, `ab2Stepper_stage_times`
(4) termination of the adaptive loops (ordered Archimedean field): `Shrinks`, `adjustDt_shrinks`, `adaptive_terminates`,
    `adaptive_finishes_exact_or_floor`, `eulerAdaptive_finishes_exact_or_floor`, `shrinks_ctlOf`, `adaptive_terminates_ctlOf`
(5) whole adaptive calls depend on the rate only at the stage times of the iterations they record (any arithmetic):
    `AOut.state`, `adaptiveLoop_succ`, `adaptiveLoop_trace_mono`, `adaptiveLoop_stage_times`, `adaptiveStepper_stage_times`,
    `eulerAdaptiveLoop_succ`, `eulerAdaptiveLoop_trace_mono`, `eulerAdaptiveLoop_stage_times`, `eulerAdaptiveStepper_stage_times`,
    `adaptiveStepper_rkf45_stage_times`, `adaptiveStepper_richardson_stage_times`
-/
set_option linter.unusedSimpArgs false
set_option linter.unusedSectionVars false
set_option linter.unusedVariables false

namespace PdeVerif.Solvers
open PdeVerif

/-! ## (1) the end of an adaptive call in ANY arithmetic -/

section anyArithmetic
variable {K : Type} [Add K] [Sub K] [Mul K] [Div K] [Neg K] [NatCast K] [IntCast K]
variable [LT K] [DecidableLT K] [LE K] [DecidableLE K]

/-- a step that was clipped to the remaining interval lands on `t_end` itself, whatever `t + (t_end - t)` is -/
theorem landT_clipped (tEnd t : K) (hirr : ¬ (tEnd - t) < (tEnd - t)) : landT tEnd t (tEnd - t) = tEnd := by
  unfold landT
  rw [if_neg hirr, if_neg hirr]

theorem landT_cases (tEnd t h : K) :
    landT tEnd t h = tEnd ∨ (landT tEnd t h = t + h ∧ (h < tEnd - t ∨ tEnd - t < h)) := by
  unfold landT
  split_ifs with h1 h2
  · exact Or.inr ⟨rfl, Or.inl h1⟩
  · exact Or.inr ⟨rfl, Or.inr h2⟩
  · exact Or.inl rfl

/-- what is known about the last iteration of a finished adaptive call when nothing is assumed about
the arithmetic -/
structure LastStepRaw (C : Ctl K) (tEnd : K) (r : AState K) : Prop where
  ex : ∃ rec : Rec K, r.trace.head? = some rec ∧ rec.accepted = true ∧ r.t = landT tEnd rec.t rec.dt
        ∧ rec.dt = dtStep C r.dtOpt tEnd rec.t ∧ rec.t < tEnd ∧ ¬ r.t < tEnd

theorem adaptiveLoop_last_raw (C : Ctl K) (est : List K → K → K → List K × K) (tEnd : K) :
    ∀ (fuel : Nat) (s r : AState K), s.t < tEnd → adaptiveLoop C est tEnd fuel s = .done r →
      LastStepRaw C tEnd r := by
  intro fuel
  induction fuel with
  | zero => intro s r _ h; simp [adaptiveLoop] at h
  | succ n ih =>
    intro s r hs h
    unfold adaptiveLoop at h
    by_cases hacc : (est s.us s.t (dtStep C s.dtOpt tEnd s.t)).2 / C.tol ≤ ((1 : Nat) : K)
    · simp only [hacc, decide_true, ↓reduceIte] at h
      split_ifs at h with hcont
      · split at h
        · exact ih _ _ hcont h
        · simp at h
      · simp only [AOut.done.injEq] at h
        subst h
        exact ⟨⟨_, rfl, rfl, rfl, rfl, hs, hcont⟩⟩
    · simp only [hacc, decide_false, Bool.false_eq_true, ↓reduceIte, hs] at h
      split at h
      · exact ih _ _ (by exact hs) h
      · simp at h

theorem eulerAdaptiveLoop_last_raw (C : Ctl K) (f : Rate K) (tEnd : K) :
    ∀ (fuel : Nat) (e : EState K) (r : AState K), e.s.t < tEnd →
      eulerAdaptiveLoop C f tEnd fuel e = .done r → LastStepRaw C tEnd r := by
  intro fuel
  induction fuel with
  | zero => intro e r _ h; simp [eulerAdaptiveLoop] at h
  | succ n ih =>
    intro e r hs h
    unfold eulerAdaptiveLoop at h
    dsimp only at h
    generalize hE : maxAbs (List.zipWith (· - ·)
        (List.zipWith (fun u r => u + dtStep C e.s.dtOpt tEnd e.s.t * r) e.s.us e.rate)
        (List.map (fun x => x + ((1 : Nat) : K) / ((2 : Nat) : K) * dtStep C e.s.dtOpt tEnd e.s.t
            * f x (e.s.t + ((1 : Nat) : K) / ((2 : Nat) : K) * dtStep C e.s.dtOpt tEnd e.s.t))
          (List.zipWith (fun u r => u + ((1 : Nat) : K) / ((2 : Nat) : K) * dtStep C e.s.dtOpt tEnd e.s.t * r)
            e.s.us e.rate))) / C.tol = errRel at h
    by_cases hacc : errRel ≤ ((1 : Nat) : K)
    · simp only [hacc, decide_true, ↓reduceIte] at h
      split_ifs at h with hcont
      · split at h
        · exact ih _ _ hcont h
        · simp at h
      · simp only [AOut.done.injEq] at h
        subst h
        exact ⟨⟨_, rfl, rfl, rfl, rfl, hs, hcont⟩⟩
    · simp only [hacc, decide_false, Bool.false_eq_true, ↓reduceIte, hs] at h
      split at h
      · exact ih _ _ (by exact hs) h
      · simp at h

/-- **The end of a finished adaptive call in any arithmetic** (no property of `+ - * /` or of the order is
used: the statement holds verbatim for IEEE doubles, for complex-valued states, for any controller, estimator
and `pow`): the returned time is not before `t_end`, the last iteration was an accepted step that started before
`t_end`, and the returned time is `t_end` ITSELF unless that step's size compares different from the remaining
interval - in particular it is `t_end` itself whenever the last step was clipped to the remaining interval
(`adaptive_clipped_end_exact`).  This is the repair of finding F-b (`t = t_end if dt_step == t_end - t else
t + dt_step`): before it the returned time was `t + (t_end - t)`, which in IEEE arithmetic can be the double
below `t_end`. -/
theorem adaptive_end_any_arithmetic (C : Ctl K) (est : List K → K → K → List K × K) (f : Rate K)
    (fuel : Nat) (us : List K) (tStart tEnd dt0 : K) (r : AState K) (hstart : tStart < tEnd)
    (h : adaptiveStepper C est fuel us tStart tEnd dt0 = .done r
      ∨ eulerAdaptiveStepper C f fuel us tStart tEnd dt0 = .done r) :
    ¬ r.t < tEnd ∧ ∃ rec : Rec K, r.trace.head? = some rec ∧ rec.accepted = true ∧ rec.t < tEnd
      ∧ rec.dt = dtStep C r.dtOpt tEnd rec.t
      ∧ (r.t = tEnd ∨ (r.t = rec.t + rec.dt ∧ (rec.dt < tEnd - rec.t ∨ tEnd - rec.t < rec.dt))) := by
  have hl : LastStepRaw C tEnd r := by
    rcases h with h | h
    · exact adaptiveLoop_last_raw C est tEnd fuel _ r hstart h
    · exact eulerAdaptiveLoop_last_raw C f tEnd fuel _ r hstart h
  obtain ⟨rec, h1, h2, ht, hdt, hlt, hge⟩ := hl.ex
  refine ⟨hge, rec, h1, h2, hlt, hdt, ?_⟩
  rw [ht]
  exact landT_cases tEnd rec.t rec.dt

/-- **exact end whenever the last step was clipped**, in any arithmetic with an irreflexive `<` -/
theorem adaptive_clipped_end_exact (C : Ctl K) (est : List K → K → K → List K × K) (f : Rate K)
    (fuel : Nat) (us : List K) (tStart tEnd dt0 : K) (r : AState K) (hstart : tStart < tEnd)
    (hirr : ∀ x : K, ¬ x < x)
    (h : adaptiveStepper C est fuel us tStart tEnd dt0 = .done r
      ∨ eulerAdaptiveStepper C f fuel us tStart tEnd dt0 = .done r)
    (hclip : ∀ rec : Rec K, r.trace.head? = some rec → rec.dt = tEnd - rec.t) :
    r.t = tEnd := by
  obtain ⟨_, rec, h1, _, _, _, hc⟩ := adaptive_end_any_arithmetic C est f fuel us tStart tEnd dt0 r hstart h
  rcases hc with hc | ⟨_, hc⟩
  · exact hc
  · rw [hclip rec h1] at hc
    rcases hc with hc | hc <;> exact absurd hc (hirr _)

/-- when is the step clipped: the remaining interval is smaller than the proposed step and not smaller than `dt_min`
(Python's `max(min(dt_opt, t_end - t), dt_min)`) -/
theorem dtStep_clipped (C : Ctl K) (dtOpt tEnd t : K) (h1 : tEnd - t < dtOpt) (h2 : ¬ (tEnd - t) < C.dtMin) :
    dtStep C dtOpt tEnd t = tEnd - t := by
  unfold dtStep pmax pmin
  rw [if_pos h1, if_neg h2]

end anyArithmetic

/-! ## (2) the fixed-step loop over any field (complex-valued runs)

`Props/C06.lean` states the loop theorems over a linearly ordered field with floor.  The driver also runs the
model over the Gaussian rationals (complex test equations): a field whose `<`, `≤`, `floor` look at the real
part only, which is NOT an ordered field.  The loop theorems do not need the order: -/

section anyArith2
variable {K : Type} [Add K] [Sub K] [Mul K] [Div K] [Neg K] [NatCast K] [IntCast K]
variable [LT K] [DecidableLT K] [LE K] [DecidableLE K] [HasFloor K]

/-- at least one step, whatever the arithmetic and the rounding -/
theorem stepCount_pos (dt ts te : K) : 1 ≤ stepCount dt ts te := by
  unfold stepCount
  simp only
  split_ifs with h <;> omega

variable [HasNormSq K]

/-- `fixpointLoop_spec` for any number type, any norm and any comparison -/
theorem fixpointLoop_spec_any (it : List K → List K) (e : K) :
    ∀ (m : Nat) (xs : List K) (n : Nat) (ys : List K) (n' : Nat),
      fixpointLoop it e m xs n = some (ys, n') →
      ∃ j : Nat, j < m ∧ n' = n + j + 1 ∧ ys = it^[j + 1] xs
        ∧ msqDiff (it^[j + 1] xs) (it^[j] xs) < e
        ∧ ∀ i < j, ¬ msqDiff (it^[i + 1] xs) (it^[i] xs) < e := by
  intro m
  induction m with
  | zero => intro xs n ys n' h; simp [fixpointLoop] at h
  | succ m ih =>
    intro xs n ys n' h
    simp only [fixpointLoop] at h
    split_ifs at h with hc
    · simp only [Option.some.injEq, Prod.mk.injEq] at h
      refine ⟨0, Nat.succ_pos m, by omega, by simp [h.1], by simpa using hc, by simp⟩
    · obtain ⟨j, hj, hn, hy, hconv, hnot⟩ := ih (it xs) (n + 1) ys n' h
      refine ⟨j + 1, by omega, by omega, ?_, ?_, ?_⟩
      · rw [hy]; simp [Function.iterate_succ_apply]
      · simpa [Function.iterate_succ_apply] using hconv
      · intro i hi
        cases i with
        | zero => simpa using hc
        | succ i =>
          have := hnot i (by omega)
          simpa [Function.iterate_succ_apply] using this

/-- `fixpointLoop_none` for any number type -/
theorem fixpointLoop_none_any (it : List K → List K) (e : K) :
    ∀ (m : Nat) (xs : List K) (n : Nat), fixpointLoop it e m xs n = none →
      ∀ i < m, ¬ msqDiff (it^[i + 1] xs) (it^[i] xs) < e := by
  intro m
  induction m with
  | zero => intro xs n _ i hi; omega
  | succ m ih =>
    intro xs n h i hi
    simp only [fixpointLoop] at h
    split_ifs at h with hc
    cases i with
    | zero => simpa using hc
    | succ i =>
      have := ih (it xs) (n + 1) h i (by omega)
      simpa [Function.iterate_succ_apply] using this

end anyArith2

section anyField
variable {K : Type} [Field K] [LT K] [DecidableLT K] [LE K] [DecidableLE K] [HasFloor K]

theorem iterSteps_front_field {σ : Type} (step : σ → K → Option σ) (dt ts : K) :
    ∀ (n i0 : Nat) (s : σ), iterSteps step dt ts i0 (n + 1) s
      = (step s (ts + ((i0 : Nat) : K) * dt)).bind (iterSteps step dt ts (i0 + 1) n) := by
  intro n
  induction n with
  | zero => intro i0 s; simp [iterSteps]
  | succ n ih =>
    intro i0 s
    rw [iterSteps, ih]
    cases h : step s (ts + ((i0 : Nat) : K) * dt) with
    | none => simp
    | some s1 =>
      simp only [Option.bind_some]
      rw [iterSteps]
      have : i0 + 1 + n = i0 + (n + 1) := by omega
      rw [this]

theorem fixedLoop_eq_iterSteps_field {σ : Type} (step : σ → K → Option σ) (dt ts : K) :
    ∀ (n i : Nat) (s : σ), fixedLoop step dt ts n i s = iterSteps step dt ts i n s := by
  intro n
  induction n with
  | zero => intro i s; rfl
  | succ n ih =>
    intro i s
    rw [iterSteps_front_field, fixedLoop]
    cases step s (ts + ((i : Nat) : K) * dt) with
    | none => rfl
    | some s1 => simp [ih]

/-- **`fixedStepper_is_iterate` over any field** with any comparison and any floor (Gaussian rationals, complex
numbers): the call is the `stepCount`-fold composition of the one-step map started at `t_start + i dt`, the
returned time is `t_start + steps dt`, failing steps propagate -/
theorem fixedStepper_is_iterate_field {σ : Type} (step : σ → K → Option σ) (dt ts te : K) (s : σ) :
    fixedStepper step dt ts te s
      = (iterSteps step dt ts 0 (stepCount dt ts te) s).map
          (fun s' => (s', ts + (stepCount dt ts te : K) * dt)) := by
  unfold fixedStepper
  simp only
  rw [fixedLoop_eq_iterSteps_field]
  have h1 : 1 ≤ stepCount dt ts te := stepCount_pos dt ts te
  have ht : ts + (((stepCount dt ts te - 1 : Nat) : Nat) : K) * dt + dt = ts + (stepCount dt ts te : K) * dt := by
    have : ((stepCount dt ts te - 1 : Nat) : K) = (stepCount dt ts te : K) - 1 := by
      rw [Nat.cast_sub h1]; simp
    rw [this]; ring
  cases iterSteps step dt ts 0 (stepCount dt ts te) s with
  | none => rfl
  | some s' => simp [ht]

omit [LT K] [DecidableLT K] [LE K] [DecidableLE K] [HasFloor K] in
/-- Euler over a whole call on `u' = a u`, any field (complex `a`, `u`): `n` steps multiply by `(1+z)^n` -/
theorem euler_loop_amp_field [CharZero K] (a dt ts u : K) (n : Nat) :
    iterSteps (fun x t => some (eulerStep (linear a) dt x t)) dt ts 0 n u = some ((1 + a * dt) ^ n * u) := by
  induction n with
  | zero => simp [iterSteps]
  | succ n ih => rw [iterSteps, ih]; simp only [Option.bind_some, euler_amp]; congr 1; rw [pow_succ]; ring

omit [LT K] [DecidableLT K] [LE K] [DecidableLE K] [HasFloor K] in
/-- Runge-Kutta over a whole call on `u' = a u`, any field of characteristic 0 -/
theorem rk4_loop_amp_field [CharZero K] (a dt ts u : K) (n : Nat) :
    iterSteps (fun x t => some (rk4Step rk4Tab (linear a) dt x t)) dt ts 0 n u
      = some ((1 + a * dt + (a * dt) ^ 2 / 2 + (a * dt) ^ 3 / 6 + (a * dt) ^ 4 / 24) ^ n * u) := by
  induction n with
  | zero => simp [iterSteps]
  | succ n ih => rw [iterSteps, ih]; simp only [Option.bind_some, rk4_amp]; congr 1; rw [pow_succ]; ring

/-- **a whole fixed-step Euler call over any field**: state `(1 + a dt)^steps u`, time `t_start + steps dt` -/
theorem fixedStepper_euler_field [CharZero K] (a dt ts te u : K) :
    fixedStepper (fun x t => some (eulerStep (linear a) dt x t)) dt ts te u
      = some ((1 + a * dt) ^ stepCount dt ts te * u, ts + (stepCount dt ts te : K) * dt) := by
  rw [fixedStepper_is_iterate_field, euler_loop_amp_field]; rfl

/-- **a whole fixed-step Runge-Kutta call over any field of characteristic 0** -/
theorem fixedStepper_rk4_field [CharZero K] (a dt ts te u : K) :
    fixedStepper (fun x t => some (rk4Step rk4Tab (linear a) dt x t)) dt ts te u
      = some ((1 + a * dt + (a * dt) ^ 2 / 2 + (a * dt) ^ 3 / 6 + (a * dt) ^ 4 / 24) ^ stepCount dt ts te * u,
          ts + (stepCount dt ts te : K) * dt) := by
  rw [fixedStepper_is_iterate_field, rk4_loop_amp_field]; rfl

end anyField

/-! ### the step count of a complex-valued run is the step count of its real times -/

section complexLike
variable {R K : Type} [Field R] [LinearOrder R] [IsStrictOrderedRing R] [FloorRing R]
variable [Field K] [LT K] [DecidableLT K] [LE K] [DecidableLE K] [HasFloor K]

/-- `K` carries the order and the floor of its "real part" (`Drv/C06.lean` `CQ`: Gaussian rationals over `Rat`;
the complex numbers over the reals) -/
structure RealPart (R K : Type) [Field R] [LinearOrder R] [FloorRing R] [Field K] [LT K] [HasFloor K] where
  ofR : R →+* K
  re : K → R
  re_ofR : ∀ r, re (ofR r) = r
  lt_iff : ∀ x y : K, x < y ↔ re x < re y
  floor_eq : ∀ x : K, HasFloor.floor x = Int.floor (re x)

theorem roundHE_ofR (P : RealPart R K) (x : R) : roundHE (P.ofR x) = roundHE x := by
  unfold roundHE
  simp only [P.floor_eq, P.re_ofR, floor_def]
  have e1 : P.ofR x - ((⌊x⌋ : Int) : K) = P.ofR (x - ((⌊x⌋ : Int) : R)) := by
    rw [map_sub, map_intCast]
  have e2 : (((1 : Nat) : K) / ((2 : Nat) : K)) = P.ofR (((1 : Nat) : R) / ((2 : Nat) : R)) := by
    rw [map_div₀, map_natCast, map_natCast]
  rw [e1, e2]
  simp only [P.lt_iff, P.re_ofR]

/-- the number of steps of a run whose times are real is decided by the real numbers alone -/
theorem stepCount_ofR (P : RealPart R K) (dt ts te : R) :
    stepCount (P.ofR dt) (P.ofR ts) (P.ofR te) = stepCount dt ts te := by
  unfold stepCount
  have : (P.ofR te - P.ofR ts) / P.ofR dt = P.ofR ((te - ts) / dt) := by
    rw [map_div₀, map_sub]
  simp only [this, roundHE_ofR]

/-- **a complex-valued Euler run with real times**: `steps = max(1, round((t_end - t_start)/dt))` computed in the
reals (so `fixedStepper_steps` applies to it), state `(1 + a dt)^steps u`, returned time `t_start + steps dt` -/
theorem fixedStepper_euler_complexLike [CharZero K] (P : RealPart R K) (a u : K) (dt ts te : R) :
    fixedStepper (fun x t => some (eulerStep (linear a) (P.ofR dt) x t)) (P.ofR dt) (P.ofR ts) (P.ofR te) u
      = some ((1 + a * P.ofR dt) ^ stepCount dt ts te * u, P.ofR (ts + (stepCount dt ts te : R) * dt)) := by
  rw [fixedStepper_euler_field, stepCount_ofR]
  simp only [map_add, map_mul, map_natCast]

/-- the same for Runge-Kutta -/
theorem fixedStepper_rk4_complexLike [CharZero K] (P : RealPart R K) (a u : K) (dt ts te : R) :
    fixedStepper (fun x t => some (rk4Step rk4Tab (linear a) (P.ofR dt) x t)) (P.ofR dt) (P.ofR ts) (P.ofR te) u
      = some ((1 + a * P.ofR dt + (a * P.ofR dt) ^ 2 / 2 + (a * P.ofR dt) ^ 3 / 6 + (a * P.ofR dt) ^ 4 / 24)
                ^ stepCount dt ts te * u,
          P.ofR (ts + (stepCount dt ts te : R) * dt)) := by
  rw [fixedStepper_rk4_field, stepCount_ofR]
  simp only [map_add, map_mul, map_natCast]

end complexLike

/-! ## (3) the stage times of a whole fixed-step call -/

section loopTimes
variable {K : Type} [Add K] [Sub K] [Mul K] [Div K] [Neg K] [NatCast K] [IntCast K]
variable [LT K] [DecidableLT K] [LE K] [DecidableLE K] [HasFloor K]

/-- the loop looks at the one-step map at the lattice times `t_start + j dt`, `i ≤ j < i + n`, only -/
theorem fixedLoop_congr {σ : Type} (step step' : σ → K → Option σ) (dt ts : K) :
    ∀ (n i : Nat) (s : σ),
      (∀ j, i ≤ j → j < i + n → ∀ x, step x (ts + ((j : Nat) : K) * dt) = step' x (ts + ((j : Nat) : K) * dt)) →
      fixedLoop step dt ts n i s = fixedLoop step' dt ts n i s := by
  intro n
  induction n with
  | zero => intro i s _; rfl
  | succ n ih =>
    intro i s h
    simp only [fixedLoop]
    rw [h i (le_refl i) (by omega) s]
    cases step' s (ts + ((i : Nat) : K) * dt) with
    | none => rfl
    | some s1 => exact ih (i + 1) s1 (fun j hj hj' x => h j (by omega) (by omega) x)

/-- **the stage times of a whole fixed-step call, every stepper**: if the single step built from a rate evaluates
it at the times `stage t` only, the call evaluates the rate at the stage times of the steps started at
`t_start + j dt`, `j < steps`, and nowhere else (any arithmetic: also the IEEE and the complex instantiation) -/
theorem fixedStepper_stage_times {σ ρ : Type} (mk : ρ → σ → K → Option σ) (agree : ρ → ρ → K → Prop)
    (hmk : ∀ f g t, agree f g t → ∀ x, mk f x t = mk g x t) (f g : ρ) (dt ts te : K)
    (h : ∀ j, j < stepCount dt ts te → agree f g (ts + ((j : Nat) : K) * dt)) (s : σ) :
    fixedStepper (mk f) dt ts te s = fixedStepper (mk g) dt ts te s := by
  unfold fixedStepper
  simp only
  rw [fixedLoop_congr (mk f) (mk g) dt ts (stepCount dt ts te) 0 s
    (fun j _ hj x => hmk f g _ (h j (by omega)) x)]

theorem mem_callTimes (stage : K → K → List K) (dt ts : K) (n j : Nat) (hj : j < n) (s : K)
    (hs : s ∈ stage (ts + ((j : Nat) : K) * dt) dt) : s ∈ callTimes stage dt ts n := by
  unfold callTimes
  exact List.mem_flatMap.mpr ⟨j, List.mem_range.mpr hj, hs⟩

/-- **the same in terms of `callTimes`** - the list of rate-evaluation times the driver reports for a call and the check
compares with the times the recording rate function sees in the real stepper: a call depends on the rate only through
its values at these times -/
theorem fixedStepper_callTimes {σ : Type} (dt : K) (mk : Rate K → σ → K → Option σ) (stage : K → K → List K)
    (hmk : ∀ f g t, AgreeAt f g (stage t dt) → ∀ x, mk f x t = mk g x t) (f g : Rate K) (ts te : K)
    (h : AgreeAt f g (callTimes stage dt ts (stepCount dt ts te))) (s : σ) :
    fixedStepper (mk f) dt ts te s = fixedStepper (mk g) dt ts te s :=
  fixedStepper_stage_times mk (fun f g t => AgreeAt f g (stage t dt)) hmk f g dt ts te
    (fun j hj s' hs' => h s' (mem_callTimes stage dt ts _ j hj s' hs')) s

end loopTimes

section loopTimesField
variable {K : Type} [Field K] [CharZero K] [LT K] [DecidableLT K] [LE K] [DecidableLE K] [HasFloor K]

/-- instance: a fixed-step Euler call evaluates the rate at the lattice times only -/
theorem fixedStepper_euler_stage_times (f g : Rate K) (dt ts te : K) (us : List K)
    (h : ∀ j, j < stepCount dt ts te → AgreeAt f g [ts + (j : K) * dt]) :
    fixedStepper (fun (s : List K) t => some (s.map (fun u => eulerStep f dt u t))) dt ts te us
      = fixedStepper (fun (s : List K) t => some (s.map (fun u => eulerStep g dt u t))) dt ts te us :=
  fixedStepper_stage_times (fun (f : Rate K) (s : List K) t => some (s.map (fun u => eulerStep f dt u t)))
    (fun f g t => AgreeAt f g [t])
    (fun f g t hfg x => by simp only [euler_stage_times f g dt _ t hfg]) f g dt ts te h us

/-- instance: a fixed-step Runge-Kutta call evaluates the rate at `t_j`, `t_j + dt/2`, `t_j + dt` only -/
theorem fixedStepper_rk4_stage_times (f g : Rate K) (dt ts te : K) (us : List K)
    (h : ∀ j, j < stepCount dt ts te →
      AgreeAt f g [ts + (j : K) * dt, ts + (j : K) * dt + dt / 2, ts + (j : K) * dt + dt]) :
    fixedStepper (fun (s : List K) t => some (s.map (fun u => rk4Step rk4Tab f dt u t))) dt ts te us
      = fixedStepper (fun (s : List K) t => some (s.map (fun u => rk4Step rk4Tab g dt u t))) dt ts te us :=
  fixedStepper_stage_times (fun (f : Rate K) (s : List K) t => some (s.map (fun u => rk4Step rk4Tab f dt u t)))
    (fun f g t => AgreeAt f g [t, t + dt / 2, t + dt])
    (fun f g t hfg x => by simp only [rk4_stage_times f g dt _ t hfg]) f g dt ts te h us

/-- instance: implicit Euler and Crank-Nicolson calls evaluate the rate at `t_j` and `t_j + dt` only -/
theorem fixedStepper_implicit_cn_stage_times [HasNormSq K] (α : K) (f g : Rate K) (maxiter : Nat) (maxerror dt ts te : K)
    (us : List K) (h : ∀ j, j < stepCount dt ts te → AgreeAt f g [ts + (j : K) * dt, ts + (j : K) * dt + dt]) :
    fixedStepper (fun (s : List K) t => (implicitStep f maxiter maxerror dt s t).map (·.1)) dt ts te us
      = fixedStepper (fun (s : List K) t => (implicitStep g maxiter maxerror dt s t).map (·.1)) dt ts te us
    ∧ fixedStepper (fun (s : List K) t => (cnStep α f maxiter maxerror dt s t).map (·.1)) dt ts te us
      = fixedStepper (fun (s : List K) t => (cnStep α g maxiter maxerror dt s t).map (·.1)) dt ts te us :=
  ⟨fixedStepper_stage_times (fun (f : Rate K) (s : List K) t => (implicitStep f maxiter maxerror dt s t).map (·.1))
      (fun f g t => AgreeAt f g [t, t + dt])
      (fun f g t hfg x => by simp only [implicit_stage_times f g maxiter maxerror dt x t hfg]) f g dt ts te h us,
   fixedStepper_stage_times (fun (f : Rate K) (s : List K) t => (cnStep α f maxiter maxerror dt s t).map (·.1))
      (fun f g t => AgreeAt f g [t, t + dt])
      (fun f g t hfg x => by simp only [cn_stage_times α f g maxiter maxerror dt x t hfg]) f g dt ts te h us⟩


/-- instance: an Adams-Bashforth call (interpreted and compiled coefficients) evaluates the rate at `t_start` (first
call: initialisation of the previous state), at the lattice times and one step before them only -/
theorem ab2Stepper_stage_times (f g : Rate K) (dt ts te : K) (s : AB2State K) (h0 : AgreeAt f g [ts])
    (h : ∀ j, j < stepCount dt ts te → AgreeAt f g [ts + (j : K) * dt - dt, ts + (j : K) * dt]) :
    ab2Stepper ab2Tab f dt ts te s = ab2Stepper ab2Tab g dt ts te s
    ∧ ab2Stepper ab2TabNumba f dt ts te s = ab2Stepper ab2TabNumba g dt ts te s := by
  have key : ab2Stepper ab2Tab f dt ts te s = ab2Stepper ab2Tab g dt ts te s := by
    have e0 : ab2Init ab2Tab f dt ts = ab2Init ab2Tab g dt ts := by
      funext u; exact ab2Init_stage_times ab2Tab f g dt ts u h0
    have hfs : ∀ x, fixedStepper (ab2StepAll ab2Tab f dt) dt ts te x = fixedStepper (ab2StepAll ab2Tab g dt) dt ts te x :=
      fun x => fixedStepper_stage_times (fun (f : Rate K) => ab2StepAll ab2Tab f dt) (fun f g t => AgreeAt f g [t - dt, t])
        (fun f g t hfg x => by
          have e : ab2Step ab2Tab f dt t = ab2Step ab2Tab g dt t := by
            funext u p; exact (ab2_stage_times f g dt t u p hfg).1
          simp only [ab2StepAll, e]) f g dt ts te h x
    simp only [ab2Stepper, e0, hfs]
  exact ⟨key, by rw [ab2_numba_same]; exact key⟩

end loopTimesField

/-! ## (4) termination of the adaptive loops -/

section termination
variable {K : Type} [Field K] [LinearOrder K] [IsStrictOrderedRing K] [FloorRing K]

/-- what the termination of the adaptive loops needs from the controller: after a rejected step (`error_rel > 1`)
the proposal shrinks at least by the factor `ρ < 1` (for the constants of the source: `ρ = 0.9`, provided
`pow e (-0.2) ≤ 1` for `e > 1`) -/
structure Shrinks (C : Ctl K) (ρ : K) : Prop where
  rho_nonneg : 0 ≤ ρ
  rho_lt : ρ < 1
  dtMin_pos : 0 < C.dtMin
  dtMin_le : C.dtMin ≤ C.dtMax
  small_le : C.small ≤ 1
  nan_le : C.nan ≤ ρ
  down_le : C.down ≤ ρ
  pow_le : ∀ e, 1 < e → C.safety * C.pow e C.expo ≤ ρ

theorem adjustDt_shrinks (C : Ctl K) (ρ : K) (hS : Shrinks C ρ) (dt e d : K) (hdt : 0 ≤ dt)
    (he : ¬ e ≤ ((1 : Nat) : K)) (h : adjustDt C dt e = .ok d) : d ≤ ρ * dt := by
  have he1 : (1 : K) < e := by simpa using he
  have hns : ¬ e < C.small := not_lt.mpr (le_trans hS.small_le he1.le)
  unfold adjustDt at h
  simp only [hns, if_false] at h
  have hdt1 : (if C.isNan e = true then dt * C.nan else dt * pmax (C.safety * C.pow e C.expo) C.down) ≤ ρ * dt := by
    split_ifs
    · rw [mul_comm]; exact mul_le_mul_of_nonneg_right hS.nan_le hdt
    · rw [mul_comm, pmax_eq_max]
      exact mul_le_mul_of_nonneg_right (max_le (hS.pow_le e he1) hS.down_le) hdt
  generalize (if C.isNan e = true then dt * C.nan else dt * pmax (C.safety * C.pow e C.expo) C.down) = dt1 at h hdt1
  split_ifs at h with h1 h2 <;> simp only [Except.ok.injEq, reduceCtorEq] at h
  · subst h; exact le_trans h1.le hdt1
  · subst h; exact hdt1

theorem dtStep_le_of_ge (C : Ctl K) (d tEnd t : K) (hd : C.dtMin ≤ d) : dtStep C d tEnd t ≤ d := by
  rw [dtStep_eq]; exact max_le (min_le_left _ _) hd

theorem adaptiveLoop_terminates_aux (C : Ctl K) (est : List K → K → K → List K × K) (tEnd ρ : K) (R : Nat)
    (hS : Shrinks C ρ) (hR : C.dtMax * ρ ^ R < C.dtMin) :
    ∀ (a k fuel : Nat) (s : AState K), a * (R + 1) + k ≤ fuel → s.t < tEnd → tEnd - s.t ≤ (a : K) * C.dtMin →
      dtStep C s.dtOpt tEnd s.t * ρ ^ k < C.dtMin → ∀ r, adaptiveLoop C est tEnd fuel s ≠ .fuel r := by
  intro a
  induction a with
  | zero =>
    intro k fuel s _ hs hrem _ r
    simp at hrem; linarith
  | succ a iha =>
    intro k
    induction k with
    | zero =>
      intro fuel s _ _ _ hk r
      have := (dtStep_bounds C s.dtOpt tEnd s.t).1
      simp at hk; linarith
    | succ k ihk =>
      intro fuel s hfuel hs hrem hk r h
      cases fuel with
      | zero => omega
      | succ n =>
        have hge := (dtStep_bounds C s.dtOpt tEnd s.t).1
        have hpos : 0 ≤ dtStep C s.dtOpt tEnd s.t := le_trans hS.dtMin_pos.le hge
        unfold adaptiveLoop at h
        simp only [landT_eq] at h
        by_cases hacc : (est s.us s.t (dtStep C s.dtOpt tEnd s.t)).2 / C.tol ≤ ((1 : Nat) : K)
        · simp only [hacc, decide_true, ↓reduceIte] at h
          split_ifs at h with hcont
          · split at h
            · next d heq =>
              have hd := adjustDt_range C hS.dtMin_le _ _ d heq
              refine iha R n _ ?_ hcont ?_ ?_ r h
              · have : (a + 1) * (R + 1) = a * (R + 1) + R + 1 := by ring
                omega
              · simp only
                push_cast at hrem
                linarith
              · simp only
                have h1 : dtStep C d tEnd (s.t + dtStep C s.dtOpt tEnd s.t) ≤ C.dtMax :=
                  le_trans (dtStep_le_of_ge C d tEnd _ hd.1) hd.2
                exact lt_of_le_of_lt (mul_le_mul_of_nonneg_right h1 (pow_nonneg hS.rho_nonneg R)) hR
            · simp at h
        · simp only [hacc, decide_false, Bool.false_eq_true, ↓reduceIte, hs] at h
          split at h
          · next d heq =>
            have hd := adjustDt_range C hS.dtMin_le _ _ d heq
            have hsh := adjustDt_shrinks C ρ hS _ _ d hpos hacc heq
            refine ihk n _ (by omega) ?_ ?_ ?_ r h
            · exact hs
            · exact hrem
            have h1 : dtStep C d tEnd s.t ≤ ρ * dtStep C s.dtOpt tEnd s.t :=
              le_trans (dtStep_le_of_ge C d tEnd _ hd.1) hsh
            calc dtStep C d tEnd s.t * ρ ^ k ≤ ρ * dtStep C s.dtOpt tEnd s.t * ρ ^ k :=
                  mul_le_mul_of_nonneg_right h1 (pow_nonneg hS.rho_nonneg k)
              _ = dtStep C s.dtOpt tEnd s.t * ρ ^ (k + 1) := by rw [pow_succ]; ring
              _ < C.dtMin := hk
          · simp at h

theorem eulerAdaptiveLoop_terminates_aux (C : Ctl K) (f : Rate K) (tEnd ρ : K) (R : Nat)
    (hS : Shrinks C ρ) (hR : C.dtMax * ρ ^ R < C.dtMin) :
    ∀ (a k fuel : Nat) (e : EState K), a * (R + 1) + k ≤ fuel → e.s.t < tEnd → tEnd - e.s.t ≤ (a : K) * C.dtMin →
      dtStep C e.s.dtOpt tEnd e.s.t * ρ ^ k < C.dtMin → ∀ r, eulerAdaptiveLoop C f tEnd fuel e ≠ .fuel r := by
  intro a
  induction a with
  | zero =>
    intro k fuel e _ hs hrem _ r
    simp at hrem; linarith
  | succ a iha =>
    intro k
    induction k with
    | zero =>
      intro fuel e _ _ _ hk r
      have := (dtStep_bounds C e.s.dtOpt tEnd e.s.t).1
      simp at hk; linarith
    | succ k ihk =>
      intro fuel e hfuel hs hrem hk r h
      cases fuel with
      | zero => omega
      | succ n =>
        have hge := (dtStep_bounds C e.s.dtOpt tEnd e.s.t).1
        have hpos : 0 ≤ dtStep C e.s.dtOpt tEnd e.s.t := le_trans hS.dtMin_pos.le hge
        unfold eulerAdaptiveLoop at h
        simp only [landT_eq] at h
        generalize hE : maxAbs (List.zipWith (· - ·)
            (List.zipWith (fun u r => u + dtStep C e.s.dtOpt tEnd e.s.t * r) e.s.us e.rate)
            (List.map (fun x => x + ((1 : Nat) : K) / ((2 : Nat) : K) * dtStep C e.s.dtOpt tEnd e.s.t
                * f x (e.s.t + ((1 : Nat) : K) / ((2 : Nat) : K) * dtStep C e.s.dtOpt tEnd e.s.t))
              (List.zipWith (fun u r => u + ((1 : Nat) : K) / ((2 : Nat) : K) * dtStep C e.s.dtOpt tEnd e.s.t * r)
                e.s.us e.rate))) / C.tol = errRel at h
        by_cases hacc : errRel ≤ ((1 : Nat) : K)
        · simp only [hacc, decide_true, ↓reduceIte] at h
          split_ifs at h with hcont
          · split at h
            · next d heq =>
              have hd := adjustDt_range C hS.dtMin_le _ _ d heq
              refine iha R n _ ?_ ?_ ?_ ?_ r h
              · have : (a + 1) * (R + 1) = a * (R + 1) + R + 1 := by ring
                omega
              · exact hcont
              · simp only
                push_cast at hrem
                linarith
              · simp only
                have h1 : dtStep C d tEnd (e.s.t + dtStep C e.s.dtOpt tEnd e.s.t) ≤ C.dtMax :=
                  le_trans (dtStep_le_of_ge C d tEnd _ hd.1) hd.2
                exact lt_of_le_of_lt (mul_le_mul_of_nonneg_right h1 (pow_nonneg hS.rho_nonneg R)) hR
            · simp at h
        · simp only [hacc, decide_false, Bool.false_eq_true, ↓reduceIte, hs] at h
          split at h
          · next d heq =>
            have hd := adjustDt_range C hS.dtMin_le _ _ d heq
            have hsh := adjustDt_shrinks C ρ hS _ _ d hpos hacc heq
            refine ihk n _ (by omega) ?_ ?_ ?_ r h
            · exact hs
            · exact hrem
            have h1 : dtStep C d tEnd e.s.t ≤ ρ * dtStep C e.s.dtOpt tEnd e.s.t :=
              le_trans (dtStep_le_of_ge C d tEnd _ hd.1) hsh
            calc dtStep C d tEnd e.s.t * ρ ^ k ≤ ρ * dtStep C e.s.dtOpt tEnd e.s.t * ρ ^ k :=
                  mul_le_mul_of_nonneg_right h1 (pow_nonneg hS.rho_nonneg k)
              _ = dtStep C e.s.dtOpt tEnd e.s.t * ρ ^ (k + 1) := by rw [pow_succ]; ring
              _ < C.dtMin := hk
          · simp at h

/-- **Termination of the adaptive loops**: with a controller that shrinks a rejected step (`Shrinks`), every call
`adaptive_stepper(state, t_start, t_end)` finishes: there is a number `N` of loop iterations - depending on the
interval, `dt_min`, `dt_max`, the carried step and `ρ` only, NOT on the rate, the estimator or the state - within
which the loop has returned or raised (`dt below dt_min`); the model's fuel is never exhausted beyond `N`.
(At most `(t_end - t_start)/dt_min` accepted steps, at most `log(dt_max/dt_min)/log(1/ρ)` rejections in a row.) -/
theorem adaptive_terminates [Archimedean K] (C : Ctl K) (ρ : K) (hS : Shrinks C ρ)
    (est : List K → K → K → List K × K) (f : Rate K) (us : List K) (tStart tEnd dt0 : K) (hstart : tStart < tEnd) :
    ∃ N : Nat, ∀ fuel, N ≤ fuel → ∀ r,
      adaptiveStepper C est fuel us tStart tEnd dt0 ≠ .fuel r
      ∧ eulerAdaptiveStepper C f fuel us tStart tEnd dt0 ≠ .fuel r := by
  have hmax : 0 ≤ C.dtMax := le_trans hS.dtMin_pos.le hS.dtMin_le
  obtain ⟨R, hR⟩ := exists_geometric_lt ρ C.dtMax C.dtMin hS.rho_lt hmax hS.dtMin_pos
  have h0 : 0 ≤ dtStep C dt0 tEnd tStart := le_trans hS.dtMin_pos.le (dtStep_bounds C dt0 tEnd tStart).1
  obtain ⟨k0, hk0⟩ := exists_geometric_lt ρ (dtStep C dt0 tEnd tStart) C.dtMin hS.rho_lt h0 hS.dtMin_pos
  obtain ⟨a0, ha0⟩ := exists_nat_ge ((tEnd - tStart) / C.dtMin)
  have hrem : tEnd - tStart ≤ (a0 : K) * C.dtMin := by
    rw [div_le_iff₀ hS.dtMin_pos] at ha0; exact ha0
  rw [mul_comm] at hR hk0
  refine ⟨a0 * (R + 1) + k0, fun fuel hfuel r => ⟨?_, ?_⟩⟩
  · exact adaptiveLoop_terminates_aux C est tEnd ρ R hS hR a0 k0 fuel _ hfuel hstart hrem hk0 r
  · exact eulerAdaptiveLoop_terminates_aux C f tEnd ρ R hS hR a0 k0 fuel _ hfuel hstart hrem hk0 r

/-- **every adaptive call finishes, and where**: with enough fuel (`adaptive_terminates`) the call either raises the
`dt below dt_min` error of `adjust_dt` or returns - at `t_end` exactly, or (only if less than `dt_min` remained
before the last accepted step) less than `dt_min` beyond it.  This removes the "finished calls only" restriction of
`adaptive_end_exact_or_floor`. -/
theorem adaptive_finishes_exact_or_floor [Archimedean K] (C : Ctl K) (ρ : K) (hS : Shrinks C ρ)
    (est : List K → K → K → List K × K) (us : List K) (tStart tEnd dt0 : K) (hstart : tStart < tEnd) :
    ∃ N : Nat, ∀ fuel, N ≤ fuel →
      (∃ e r, adaptiveStepper C est fuel us tStart tEnd dt0 = .error e r)
      ∨ ∃ r, adaptiveStepper C est fuel us tStart tEnd dt0 = .done r
          ∧ (r.t = tEnd ∨ (tEnd < r.t ∧ r.t < tEnd + C.dtMin)) := by
  obtain ⟨N, hN⟩ := adaptive_terminates C ρ hS est (fun _ _ => 0) us tStart tEnd dt0 hstart
  refine ⟨N, fun fuel hfuel => ?_⟩
  cases hres : adaptiveStepper C est fuel us tStart tEnd dt0 with
  | fuel r => exact absurd hres (hN fuel hfuel r).1
  | error e r => exact Or.inl ⟨e, r, rfl⟩
  | done r =>
    refine Or.inr ⟨r, rfl, ?_⟩
    rcases adaptive_end_exact_or_floor C est (fun _ _ => 0) fuel us tStart tEnd dt0 r hstart hS.dtMin_pos (Or.inl hres) with h | h
    · exact Or.inl h
    · exact Or.inr ⟨h.1, h.2.1⟩

/-- the same for the specialised adaptive Euler loop -/
theorem eulerAdaptive_finishes_exact_or_floor [Archimedean K] (C : Ctl K) (ρ : K) (hS : Shrinks C ρ)
    (f : Rate K) (us : List K) (tStart tEnd dt0 : K) (hstart : tStart < tEnd) :
    ∃ N : Nat, ∀ fuel, N ≤ fuel →
      (∃ e r, eulerAdaptiveStepper C f fuel us tStart tEnd dt0 = .error e r)
      ∨ ∃ r, eulerAdaptiveStepper C f fuel us tStart tEnd dt0 = .done r
          ∧ (r.t = tEnd ∨ (tEnd < r.t ∧ r.t < tEnd + C.dtMin)) := by
  obtain ⟨N, hN⟩ := adaptive_terminates C ρ hS (fun us _ _ => (us, 0)) f us tStart tEnd dt0 hstart
  refine ⟨N, fun fuel hfuel => ?_⟩
  cases hres : eulerAdaptiveStepper C f fuel us tStart tEnd dt0 with
  | fuel r => exact absurd hres (hN fuel hfuel r).2
  | error e r => exact Or.inl ⟨e, r, rfl⟩
  | done r =>
    refine Or.inr ⟨r, rfl, ?_⟩
    rcases adaptive_end_exact_or_floor C (fun us _ _ => (us, 0)) f fuel us tStart tEnd dt0 r hstart hS.dtMin_pos (Or.inr hres) with h | h
    · exact Or.inl h
    · exact Or.inr ⟨h.1, h.2.1⟩

/-- the hypotheses are satisfiable: the controller constants as written in the source (`0.00057665, 4, 0.25, 0.9, -0.2,
0.1`), `ρ = 9/10`, tolerance 1, `dt_min = 1e-10`, `dt_max = 1e10` and a `pow` that is at most 1 (as `e ** -0.2` is for
`e > 1`) -/
example : Shrinks (K := ℝ) ⟨1, 1 / 10 ^ 10, 10 ^ 10, 57665 / 10 ^ 8, 4, 1 / 4, 9 / 10, -1 / 5, 1 / 10, fun _ _ => 1, fun _ => false⟩
    (9 / 10) := by
  refine ⟨by norm_num, by norm_num, ?_, ?_, ?_, ?_, ?_, ?_⟩ <;> norm_num

/-- **the controller of the source shrinks rejected steps**: with the extracted constants (through `ctl_constants_sane`
only), any `0 < dt_min ≤ dt_max`, any tolerance and any `pow` with `e ** expo ≤ 1` for `e > 1` (true of the real power
function, the exponent being negative), `ρ = max(nan factor, safety factor)` (`= 0.9`) -/
theorem shrinks_ctlOf (tol dtMin dtMax : K) (pow : K → K → K) (isNan : K → Bool)
    (hmin : 0 < dtMin) (hle : dtMin ≤ dtMax) (hpow : ∀ e, 1 < e → pow e Generated.ctl_expo ≤ 1) :
    Shrinks (ctlOf tol dtMin dtMax pow isNan) (max Generated.ctl_nan Generated.ctl_safety) := by
  obtain ⟨_, hs1, _, hn0, hn1, hd0, hds, hsf1, _, _, _, _⟩ := ctl_constants_sane (K := K)
  have hsf0 : (0 : K) < Generated.ctl_safety := lt_trans hd0 hds
  refine ⟨le_trans hn0.le (le_max_left _ _), max_lt hn1 hsf1, hmin, hle, hs1.le, le_max_left _ _,
    le_trans hds.le (le_max_right _ _), ?_⟩
  intro e he
  simp only [ctlOf]
  calc Generated.ctl_safety * pow e Generated.ctl_expo ≤ Generated.ctl_safety * 1 :=
        mul_le_mul_of_nonneg_left (hpow e he) hsf0.le
    _ = Generated.ctl_safety := mul_one _
    _ ≤ max Generated.ctl_nan Generated.ctl_safety := le_max_right _ _

/-- **every adaptive call of the solvers as configured by the source finishes** (generic loop with any estimator and the
specialised Euler loop): instance of `adaptive_terminates` for `ctlOf` -/
theorem adaptive_terminates_ctlOf [Archimedean K] (tol dtMin dtMax : K) (pow : K → K → K) (isNan : K → Bool)
    (hmin : 0 < dtMin) (hle : dtMin ≤ dtMax) (hpow : ∀ e, 1 < e → pow e Generated.ctl_expo ≤ 1)
    (est : List K → K → K → List K × K) (f : Rate K) (us : List K) (tStart tEnd dt0 : K) (hstart : tStart < tEnd) :
    ∃ N : Nat, ∀ fuel, N ≤ fuel → ∀ r,
      adaptiveStepper (ctlOf tol dtMin dtMax pow isNan) est fuel us tStart tEnd dt0 ≠ .fuel r
      ∧ eulerAdaptiveStepper (ctlOf tol dtMin dtMax pow isNan) f fuel us tStart tEnd dt0 ≠ .fuel r :=
  adaptive_terminates _ _ (shrinks_ctlOf tol dtMin dtMax pow isNan hmin hle hpow) est f us tStart tEnd dt0 hstart

example : ∀ e : ℝ, 1 < e → (fun _ _ => (1 : ℝ)) e (Generated.ctl_expo : ℝ) ≤ 1 := fun _ _ => le_rfl

end termination

/-! ## (5) the stage times of a whole adaptive call -/

section adaptiveTimes
variable {K : Type} [Add K] [Sub K] [Mul K] [Div K] [Neg K] [NatCast K] [IntCast K]
variable [LT K] [DecidableLT K] [LE K] [DecidableLE K]

/-- the loop variables an adaptive call ends with (returned, out of fuel, or raised) -/
def AOut.state : AOut K → AState K
  | .done s => s
  | .fuel s => s
  | .error _ s => s

/-- one pass of `adaptiveLoop` (the body of the `while` loop) -/
theorem adaptiveLoop_succ (C : Ctl K) (est : List K → K → K → List K × K) (tEnd : K) (n : Nat) (s : AState K) :
    adaptiveLoop C est tEnd (n + 1) s =
      (let h := dtStep C s.dtOpt tEnd s.t
       let r := est s.us s.t h
       let errRel := r.2 / C.tol
       let acc : Bool := errRel ≤ ((1:Nat) : K)
       let us' := if acc then r.1 else s.us
       let t' := if acc then landT tEnd s.t h else s.t
       let steps' := if acc then s.steps + 1 else s.steps
       let tr := ⟨s.t, h, errRel, acc⟩ :: s.trace
       if t' < tEnd then
         match adjustDt C h errRel with
         | .ok d => adaptiveLoop C est tEnd n ⟨us', t', d, steps', tr⟩
         | .error e => .error e ⟨us', t', s.dtOpt, steps', tr⟩
       else .done ⟨us', t', s.dtOpt, steps', tr⟩) := rfl

/-- the trace only grows -/
theorem adaptiveLoop_trace_mono (C : Ctl K) (est : List K → K → K → List K × K) (tEnd : K) :
    ∀ (fuel : Nat) (s : AState K) (rec : Rec K), rec ∈ s.trace →
      rec ∈ (adaptiveLoop C est tEnd fuel s).state.trace := by
  intro fuel
  induction fuel with
  | zero => intro s rec h; exact h
  | succ n ih =>
    intro s rec h
    rw [adaptiveLoop_succ]
    dsimp only
    split_ifs
    all_goals first
      | exact List.mem_cons_of_mem _ h
      | (split <;> first
          | exact ih _ rec (List.mem_cons_of_mem _ h)
          | exact List.mem_cons_of_mem _ h)

/-- **the stage times of a whole adaptive call** (generic loop: Runge-Kutta-Fehlberg, step doubling): if the
error-estimating step built from a rate evaluates it at the times `stage t h` only, the call - every accepted and
rejected iteration, the step-size control, the result - depends on the rate only through its values at the stage
times of the iterations it records (`trace`: start time and step size of every iteration) -/
theorem adaptiveLoop_stage_times (C : Ctl K) (mk : Rate K → List K → K → K → List K × K) (stage : K → K → List K)
    (hmk : ∀ f g us t h, AgreeAt f g (stage t h) → mk f us t h = mk g us t h) (f g : Rate K) (tEnd : K) :
    ∀ (fuel : Nat) (s : AState K),
      (∀ rec ∈ (adaptiveLoop C (mk f) tEnd fuel s).state.trace, AgreeAt f g (stage rec.t rec.dt)) →
      adaptiveLoop C (mk g) tEnd fuel s = adaptiveLoop C (mk f) tEnd fuel s := by
  intro fuel
  induction fuel with
  | zero => intro s _; rfl
  | succ n ih =>
    intro s H
    have key : mk g s.us s.t (dtStep C s.dtOpt tEnd s.t) = mk f s.us s.t (dtStep C s.dtOpt tEnd s.t) := by
      refine (hmk f g _ _ _ ?_).symm
      have hrec := H ⟨s.t, dtStep C s.dtOpt tEnd s.t,
        (mk f s.us s.t (dtStep C s.dtOpt tEnd s.t)).2 / C.tol,
        decide ((mk f s.us s.t (dtStep C s.dtOpt tEnd s.t)).2 / C.tol ≤ ((1:Nat) : K))⟩ ?_
      · exact hrec
      · rw [adaptiveLoop_succ]
        dsimp only
        split_ifs
        all_goals first
          | exact List.mem_cons_self ..
          | (split <;> first
              | exact adaptiveLoop_trace_mono C (mk f) tEnd n _ _ (List.mem_cons_self ..)
              | exact List.mem_cons_self ..)
    rw [adaptiveLoop_succ, adaptiveLoop_succ] at *
    dsimp only at H ⊢
    rw [key]
    split_ifs at H ⊢
    all_goals first
      | rfl
      | (split
         · next d hd =>
           rw [hd] at H
           exact ih _ H
         · rfl)

/-- the same for a call of the stepper (empty trace at the start) -/
theorem adaptiveStepper_stage_times (C : Ctl K) (mk : Rate K → List K → K → K → List K × K) (stage : K → K → List K)
    (hmk : ∀ f g us t h, AgreeAt f g (stage t h) → mk f us t h = mk g us t h) (f g : Rate K)
    (fuel : Nat) (us : List K) (tStart tEnd dt0 : K)
    (H : ∀ rec ∈ (adaptiveStepper C (mk f) fuel us tStart tEnd dt0).state.trace, AgreeAt f g (stage rec.t rec.dt)) :
    adaptiveStepper C (mk g) fuel us tStart tEnd dt0 = adaptiveStepper C (mk f) fuel us tStart tEnd dt0 :=
  adaptiveLoop_stage_times C mk stage hmk f g tEnd fuel _ H

/-- one pass of `eulerAdaptiveLoop` -/
theorem eulerAdaptiveLoop_succ (C : Ctl K) (f : Rate K) (tEnd : K) (n : Nat) (e : EState K) :
    eulerAdaptiveLoop C f tEnd (n + 1) e =
      (let s := e.s
       let half : K := ((1:Nat) : K) / ((2:Nat) : K)
       let h := dtStep C s.dtOpt tEnd s.t
       let large := List.zipWith (fun u r => u + h * r) s.us e.rate
       let small0 := List.zipWith (fun u r => u + half * h * r) s.us e.rate
       let small := small0.map (fun x => x + half * h * f x (s.t + half * h))
       let errRel := maxAbs (List.zipWith (· - ·) large small) / C.tol
       let acc : Bool := errRel ≤ ((1:Nat) : K)
       let rate' := if acc then small.map (fun x => f x (s.t + h)) else e.rate
       let us' := if acc then small else s.us
       let t' := if acc then landT tEnd s.t h else s.t
       let steps' := if acc then s.steps + 1 else s.steps
       let tr := ⟨s.t, h, errRel, acc⟩ :: s.trace
       if t' < tEnd then
         match adjustDt C h errRel with
         | .ok d => eulerAdaptiveLoop C f tEnd n ⟨⟨us', t', d, steps', tr⟩, rate'⟩
         | .error err => .error err ⟨us', t', s.dtOpt, steps', tr⟩
       else .done ⟨us', t', s.dtOpt, steps', tr⟩) := rfl

theorem eulerAdaptiveLoop_trace_mono (C : Ctl K) (f : Rate K) (tEnd : K) :
    ∀ (fuel : Nat) (e : EState K) (rec : Rec K), rec ∈ e.s.trace →
      rec ∈ (eulerAdaptiveLoop C f tEnd fuel e).state.trace := by
  intro fuel
  induction fuel with
  | zero => intro e rec h; exact h
  | succ n ih =>
    intro e rec h
    rw [eulerAdaptiveLoop_succ]
    dsimp only
    split_ifs
    all_goals first
      | exact List.mem_cons_of_mem _ h
      | (split <;> first
          | exact ih _ rec (List.mem_cons_of_mem _ h)
          | exact List.mem_cons_of_mem _ h)

/-- **the stage times of a whole adaptive Euler call** (`euler.py` adaptive loop and its compiled copy): beyond the
rate it starts with, the loop depends on the rate only through its values at `t_i + h_i/2` and `t_i + h_i` of the
iterations `(t_i, h_i)` it performs - the rate of an accepted state is taken at the NEW time (fix F33) -/
theorem eulerAdaptiveLoop_stage_times (C : Ctl K) (f g : Rate K) (tEnd : K) :
    ∀ (fuel : Nat) (e : EState K),
      (∀ rec ∈ (eulerAdaptiveLoop C f tEnd fuel e).state.trace,
        AgreeAt f g [rec.t + ((1:Nat) : K) / ((2:Nat) : K) * rec.dt, rec.t + rec.dt]) →
      eulerAdaptiveLoop C g tEnd fuel e = eulerAdaptiveLoop C f tEnd fuel e := by
  intro fuel
  induction fuel with
  | zero => intro e _; rfl
  | succ n ih =>
    intro e H
    have hag : AgreeAt f g [e.s.t + ((1:Nat) : K) / ((2:Nat) : K) * dtStep C e.s.dtOpt tEnd e.s.t,
        e.s.t + dtStep C e.s.dtOpt tEnd e.s.t] := by
      have hmem : ∀ (er : K) (ac : Bool), (⟨e.s.t, dtStep C e.s.dtOpt tEnd e.s.t, er, ac⟩ : Rec K)
          ∈ (eulerAdaptiveLoop C f tEnd (n + 1) e).state.trace →
          AgreeAt f g [e.s.t + ((1:Nat) : K) / ((2:Nat) : K) * dtStep C e.s.dtOpt tEnd e.s.t,
            e.s.t + dtStep C e.s.dtOpt tEnd e.s.t] := fun er ac hm => H _ hm
      rw [eulerAdaptiveLoop_succ] at hmem
      dsimp only at hmem
      generalize hE : maxAbs (List.zipWith (· - ·)
          (List.zipWith (fun u r => u + dtStep C e.s.dtOpt tEnd e.s.t * r) e.s.us e.rate)
          (List.map (fun x => x + ((1 : Nat) : K) / ((2 : Nat) : K) * dtStep C e.s.dtOpt tEnd e.s.t
              * f x (e.s.t + ((1 : Nat) : K) / ((2 : Nat) : K) * dtStep C e.s.dtOpt tEnd e.s.t))
            (List.zipWith (fun u r => u + ((1 : Nat) : K) / ((2 : Nat) : K) * dtStep C e.s.dtOpt tEnd e.s.t * r)
              e.s.us e.rate))) / C.tol = errRel at hmem
      refine hmem errRel (decide (errRel ≤ ((1 : Nat) : K))) ?_
      split_ifs
      all_goals first
        | exact List.mem_cons_self ..
        | (split <;> first
            | exact eulerAdaptiveLoop_trace_mono C f tEnd n _ _ (List.mem_cons_self ..)
            | exact List.mem_cons_self ..)
    have k1 : ∀ x, g x (e.s.t + ((1:Nat) : K) / ((2:Nat) : K) * dtStep C e.s.dtOpt tEnd e.s.t)
        = f x (e.s.t + ((1:Nat) : K) / ((2:Nat) : K) * dtStep C e.s.dtOpt tEnd e.s.t) :=
      fun x => (hag _ (by simp) x).symm
    have k2 : ∀ x, g x (e.s.t + dtStep C e.s.dtOpt tEnd e.s.t) = f x (e.s.t + dtStep C e.s.dtOpt tEnd e.s.t) :=
      fun x => (hag _ (by simp) x).symm
    rw [eulerAdaptiveLoop_succ, eulerAdaptiveLoop_succ] at *
    dsimp only at H ⊢
    simp only [k1, k2]
    split_ifs at H ⊢
    all_goals first
      | rfl
      | (split
         · next d hd =>
           rw [hd] at H
           exact ih _ H
         · rfl)

/-- the same for a call of the adaptive Euler stepper: additionally the rate at `t_start` -/
theorem eulerAdaptiveStepper_stage_times (C : Ctl K) (f g : Rate K) (fuel : Nat) (us : List K) (tStart tEnd dt0 : K)
    (h0 : AgreeAt f g [tStart])
    (H : ∀ rec ∈ (eulerAdaptiveStepper C f fuel us tStart tEnd dt0).state.trace,
      AgreeAt f g [rec.t + ((1:Nat) : K) / ((2:Nat) : K) * rec.dt, rec.t + rec.dt]) :
    eulerAdaptiveStepper C g fuel us tStart tEnd dt0 = eulerAdaptiveStepper C f fuel us tStart tEnd dt0 := by
  have e0 : (fun u => g u tStart) = (fun u => f u tStart) := by
    funext u; exact (h0 tStart (by simp) u).symm
  unfold eulerAdaptiveStepper at H ⊢
  rw [e0]
  exact eulerAdaptiveLoop_stage_times C f g tEnd fuel _ H

end adaptiveTimes

section adaptiveTimesField
variable {K : Type} [Field K] [CharZero K] [LT K] [DecidableLT K] [LE K] [DecidableLE K]

/-- instance: **adaptive Runge-Kutta-Fehlberg** (any tableau `T`, in particular the extracted one, whose times are
`rkfTimes_extracted`): a call depends on the rate only at `t_i + a_j h_i` for the iterations `(t_i, h_i)` it performs -/
theorem adaptiveStepper_rkf45_stage_times (C : Ctl K) (T : RKFTab K) (f g : Rate K)
    (fuel : Nat) (us : List K) (tStart tEnd dt0 : K)
    (H : ∀ rec ∈ (adaptiveStepper C (rkf45Est T f) fuel us tStart tEnd dt0).state.trace,
      AgreeAt f g (rkfTimes T rec.t rec.dt)) :
    adaptiveStepper C (rkf45Est T g) fuel us tStart tEnd dt0 = adaptiveStepper C (rkf45Est T f) fuel us tStart tEnd dt0 :=
  adaptiveStepper_stage_times C (fun f => rkf45Est T f) (rkfTimes T)
    (fun f g us t h hfg => by
      have e : (fun u => rkf45Step T f h u t) = (fun u => rkf45Step T g h u t) := by
        funext u; exact (rkf45_stage_times_tab T f g h u t hfg).1
      simp only [rkf45Est, e]) f g fuel us tStart tEnd dt0 H

/-- instance: **step doubling with Euler steps** (`AdaptiveSolverBase`): rates at `t_i` and `t_i + h_i/2` only -/
theorem adaptiveStepper_richardson_stage_times (C : Ctl K) (f g : Rate K)
    (fuel : Nat) (us : List K) (tStart tEnd dt0 : K)
    (H : ∀ rec ∈ (adaptiveStepper C (eulerRichardson f) fuel us tStart tEnd dt0).state.trace,
      AgreeAt f g [rec.t, rec.t + rec.dt / 2]) :
    adaptiveStepper C (eulerRichardson g) fuel us tStart tEnd dt0
      = adaptiveStepper C (eulerRichardson f) fuel us tStart tEnd dt0 :=
  adaptiveStepper_stage_times C (fun f => eulerRichardson f) (fun t h => [t, t + h / 2])
    (fun f g us t h hfg => eulerRichardson_stage_times f g us t h hfg) f g fuel us tStart tEnd dt0 H

end adaptiveTimesField

end PdeVerif.Solvers
