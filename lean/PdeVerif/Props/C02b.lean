import PdeVerif.Props.C02
/-
C02, the complete setter of a grid (gap round): `setBoundaries` = `BoundariesList.set_ghost_cells`
with the list of faces *generated from the grid* (`boundaryFaces`: every axis in order, upper side
before lower side, any number of axes) instead of an arbitrary `Compatible` list.

* `boundaryFaces_mem` (which faces are generated), `boundaryFaces_compatible` (the generated list
  satisfies the hypotheses of `setGhostAll_holds` whenever every axis has a cell and axes with a
  curvature condition have two),
* **`setBoundaries_holds`**: after the full setter the defining equation of every axis / side holds
  at every face point of the FINAL array (1, 2, 3, .. axes; a later face's write never destroys an
  earlier face's relation), `setBoundaries_fixed`, `setBoundaries_frame` (valid cells, edges,
  corners untouched), `setBoundaries_order_irrelevant` (any processing order of the same faces),
* spelled out for every condition type: `setBoundaries_value`, `_derivative`, `_robin`,
  `_curvature`, `_periodic`, `_exprMixed`.
-/
set_option linter.unusedSectionVars false
namespace PdeVerif.BC
open PdeVerif

section
variable {K : Type} [Field K] [CharZero K]

/-- the face of axis `ax`, side `sd` that `boundaryFaces` generates from the axis data `s` -/
def AxisSpec.face (s : AxisSpec K) (shape : List Nat) (rank ax : Nat) (sd : Side) : Face × K × Cond K :=
  match sd with
  | .upper => ({ shape := shape, rank := rank, axis := ax, side := .upper, normal := s.hi.1 }, s.dx, s.hi.2)
  | .lower => ({ shape := shape, rank := rank, axis := ax, side := .lower, normal := s.lo.1 }, s.dx, s.lo.2)

theorem axisFaces_eq (shape : List Nat) (rank ax : Nat) (s : AxisSpec K) :
    axisFaces shape rank ax s = [s.face shape rank ax .upper, s.face shape rank ax .lower] := rfl

/-- the generated faces are exactly the two sides of every axis that has data -/
theorem boundaryFacesFrom_mem (shape : List Nat) (rank k : Nat) (specs : List (AxisSpec K))
    (fc : Face × K × Cond K) :
    fc ∈ boundaryFacesFrom shape rank k specs ↔
      ∃ (i : Nat) (s : AxisSpec K) (sd : Side), specs[i]? = some s ∧ fc = s.face shape rank (k + i) sd := by
  induction specs generalizing k with
  | nil => simp [boundaryFacesFrom]
  | cons s ss ih =>
    simp only [boundaryFacesFrom, List.mem_append, axisFaces_eq, List.mem_cons, List.not_mem_nil,
      or_false, ih]
    constructor
    · rintro ((h | h) | ⟨i, t, sd, ht, h⟩)
      · exact ⟨0, s, .upper, by simp, by simpa using h⟩
      · exact ⟨0, s, .lower, by simp, by simpa using h⟩
      · exact ⟨i + 1, t, sd, by simpa using ht, by rw [h]; congr 1; omega⟩
    · rintro ⟨i, t, sd, ht, h⟩
      cases i with
      | zero =>
        simp only [List.getElem?_cons_zero, Option.some.injEq] at ht
        subst ht
        left
        cases sd
        · right; simpa using h
        · left; simpa using h
      | succ j =>
        right
        exact ⟨j, t, sd, by simpa using ht, by rw [h]; congr 1; omega⟩

theorem boundaryFaces_mem (shape : List Nat) (rank : Nat) (specs : List (AxisSpec K))
    (fc : Face × K × Cond K) :
    fc ∈ boundaryFaces shape rank specs ↔
      ∃ (ax : Nat) (s : AxisSpec K) (sd : Side), specs[ax]? = some s ∧ fc = s.face shape rank ax sd := by
  unfold boundaryFaces
  rw [boundaryFacesFrom_mem]
  simp only [Nat.zero_add]

@[simp] theorem AxisSpec.face_shape (s : AxisSpec K) (shape : List Nat) (rank ax : Nat) (sd : Side) :
    (s.face shape rank ax sd).1.shape = shape := by cases sd <;> rfl
@[simp] theorem AxisSpec.face_rank (s : AxisSpec K) (shape : List Nat) (rank ax : Nat) (sd : Side) :
    (s.face shape rank ax sd).1.rank = rank := by cases sd <;> rfl
@[simp] theorem AxisSpec.face_axis (s : AxisSpec K) (shape : List Nat) (rank ax : Nat) (sd : Side) :
    (s.face shape rank ax sd).1.axis = ax := by cases sd <;> rfl
@[simp] theorem AxisSpec.face_side (s : AxisSpec K) (shape : List Nat) (rank ax : Nat) (sd : Side) :
    (s.face shape rank ax sd).1.side = sd := by cases sd <;> rfl
@[simp] theorem AxisSpec.face_dx (s : AxisSpec K) (shape : List Nat) (rank ax : Nat) (sd : Side) :
    (s.face shape rank ax sd).2.1 = s.dx := by cases sd <;> rfl

/-- the condition on side `sd` -/
def AxisSpec.cond (s : AxisSpec K) : Side → Cond K
  | .upper => s.hi.2
  | .lower => s.lo.2
@[simp] theorem AxisSpec.face_cond (s : AxisSpec K) (shape : List Nat) (rank ax : Nat) (sd : Side) :
    (s.face shape rank ax sd).2.2 = s.cond sd := by cases sd <;> rfl

/-- no two generated faces share (axis, side) -/
theorem boundaryFacesFrom_pairwise (shape : List Nat) (rank k : Nat) (specs : List (AxisSpec K)) :
    (boundaryFacesFrom shape rank k specs).Pairwise
      (fun fc gc => ¬ (fc.1.axis = gc.1.axis ∧ fc.1.side = gc.1.side)) := by
  induction specs generalizing k with
  | nil => simp [boundaryFacesFrom]
  | cons s ss ih =>
    simp only [boundaryFacesFrom, axisFaces_eq]
    rw [List.pairwise_append]
    refine ⟨?_, ih (k + 1), ?_⟩
    · simp
    · intro fc hfc gc hgc
      rw [boundaryFacesFrom_mem] at hgc
      obtain ⟨i, t, sd, _, rfl⟩ := hgc
      simp only [List.mem_cons, List.not_mem_nil, or_false] at hfc
      rcases hfc with rfl | rfl <;> simp <;> omega

/-- a grid on which the setter is defined: data for every axis, at least one cell per axis, two
cells along an axis that carries a curvature condition (the code reads `N-2`) -/
structure GridOK (shape : List Nat) (specs : List (AxisSpec K)) : Prop where
  len : specs.length = shape.length
  cells : ∀ n ∈ shape, 1 ≤ n
  curv : ∀ ax s sd k, specs[ax]? = some s → s.cond sd = .curvature k → 2 ≤ shape.getD ax 0

/-- **the faces generated from a grid form a `Compatible` list** (any number of axes) -/
theorem boundaryFaces_compatible (shape : List Nat) (rank : Nat) (specs : List (AxisSpec K))
    (h : GridOK shape specs) : Compatible (boundaryFaces shape rank specs) := by
  refine ⟨?_, ?_, boundaryFacesFrom_pairwise shape rank 0 specs, ?_⟩
  · intro fc hfc gc hgc
    rw [boundaryFaces_mem] at hfc hgc
    obtain ⟨_, _, _, _, rfl⟩ := hfc
    obtain ⟨_, _, _, _, rfl⟩ := hgc
    simp
  · intro fc hfc
    rw [boundaryFaces_mem] at hfc
    obtain ⟨ax, s, sd, hs, rfl⟩ := hfc
    have hax : ax < shape.length := by
      rw [← h.len]; exact (List.getElem?_eq_some_iff.mp hs).1
    refine ⟨by simpa using hax, ?_⟩
    unfold Face.N
    simp only [AxisSpec.face_shape, AxisSpec.face_axis]
    have : shape.getD ax 0 = shape[ax] := by simp [List.getD, hax]
    rw [this]
    exact h.cells _ (List.getElem_mem hax)
  · intro fc hfc k hk
    rw [boundaryFaces_mem] at hfc
    obtain ⟨ax, s, sd, hs, rfl⟩ := hfc
    unfold Face.N
    simp only [AxisSpec.face_shape, AxisSpec.face_axis]
    exact h.curv ax s sd k hs (by simpa using hk)

/-- **C02 for the complete setter of a grid**: after `setBoundaries` (all axes, both sides, applied
one after the other to the same padded array) the defining equation of the condition of *every*
axis and side holds at *every* point of that face in the final array - for any number of axes,
any shape, any rank, any mixture of condition types and any field contents -/
theorem setBoundaries_holds (shape : List Nat) (rank : Nat) (specs : List (AxisSpec K))
    (h : GridOK shape specs) (a : List Int → K) (ax : Nat) (s : AxisSpec K) (sd : Side)
    (hs : specs[ax]? = some s) (idx : List Int)
    (hw : (s.face shape rank ax sd).1.writes idx = true) (hdx : s.dx ≠ 0)
    (hreg : RegularAt (s.face shape rank ax sd).1 s.dx (s.cond sd) idx) :
    HoldsAt (s.face shape rank ax sd).1 s.dx (s.cond sd) (setBoundaries shape rank specs a) idx := by
  have hmem : s.face shape rank ax sd ∈ boundaryFaces shape rank specs :=
    (boundaryFaces_mem shape rank specs _).mpr ⟨ax, s, sd, hs, rfl⟩
  have := setGhostAll_holds (boundaryFaces shape rank specs)
    (boundaryFaces_compatible shape rank specs h) a idx _ hmem hw (by simpa using hdx)
    (by simpa using hreg)
  simpa [setBoundaries] using this

/-- the final array is a fixed point of every face of the grid: each ghost entry equals the value
its condition computes from the final array -/
theorem setBoundaries_fixed (shape : List Nat) (rank : Nat) (specs : List (AxisSpec K))
    (h : GridOK shape specs) (a : List Int → K) (ax : Nat) (s : AxisSpec K) (sd : Side)
    (hs : specs[ax]? = some s) (idx : List Int)
    (hw : (s.face shape rank ax sd).1.writes idx = true) :
    setBoundaries shape rank specs a idx
      = ghostValue (s.face shape rank ax sd).1 s.dx (s.cond sd) (setBoundaries shape rank specs a) idx := by
  have hmem : s.face shape rank ax sd ∈ boundaryFaces shape rank specs :=
    (boundaryFaces_mem shape rank specs _).mpr ⟨ax, s, sd, hs, rfl⟩
  have := setGhostAll_fixed (boundaryFaces shape rank specs)
    (boundaryFaces_compatible shape rank specs h) a idx _ hmem hw
  simpa [setBoundaries] using this

/-- and the value is the one computed from the valid cells of the ORIGINAL array -/
theorem setBoundaries_written (shape : List Nat) (rank : Nat) (specs : List (AxisSpec K))
    (h : GridOK shape specs) (a : List Int → K) (ax : Nat) (s : AxisSpec K) (sd : Side)
    (hs : specs[ax]? = some s) (idx : List Int)
    (hw : (s.face shape rank ax sd).1.writes idx = true) :
    setBoundaries shape rank specs a idx
      = ghostValue (s.face shape rank ax sd).1 s.dx (s.cond sd) a idx := by
  have hmem : s.face shape rank ax sd ∈ boundaryFaces shape rank specs :=
    (boundaryFaces_mem shape rank specs _).mpr ⟨ax, s, sd, hs, rfl⟩
  have := setGhostAll_written (boundaryFaces shape rank specs)
    (boundaryFaces_compatible shape rank specs h) a idx _ hmem hw
  simpa [setBoundaries] using this

/-- entries that no face of the grid writes (valid cells, edges, corners, the other components
under `normal_*` conditions) keep their value -/
theorem setBoundaries_frame (shape : List Nat) (rank : Nat) (specs : List (AxisSpec K))
    (a : List Int → K) (idx : List Int)
    (h : ∀ (ax : Nat) (s : AxisSpec K) (sd : Side), specs[ax]? = some s →
      (s.face shape rank ax sd).1.writes idx = false) :
    setBoundaries shape rank specs a idx = a idx := by
  apply setGhostAll_frame
  intro fc hfc
  rw [boundaryFaces_mem] at hfc
  obtain ⟨ax, s, sd, hs, rfl⟩ := hfc
  exact h ax s sd hs

/-- normal-only conditions on a grid: a ghost entry of a component whose last tensor index differs
from the axis of every `normal_*` face that could write it (and that no other face writes) keeps its
value - the other components' virtual points are untouched by the complete setter -/
theorem setBoundaries_normal_untouched (shape : List Nat) (rank : Nat) (specs : List (AxisSpec K))
    (a : List Int → K) (idx : List Int)
    (h : ∀ (ax : Nat) (s : AxisSpec K) (sd : Side), specs[ax]? = some s →
      ((s.face shape rank ax sd).1.normal = true ∧ (idx.take rank).getD (rank - 1) 0 ≠ (ax : Int)) ∨
        (s.face shape rank ax sd).1.writes idx = false) :
    setBoundaries shape rank specs a idx = a idx := by
  apply setGhostAll_normal_untouched
  intro fc hfc
  rw [boundaryFaces_mem] at hfc
  obtain ⟨ax, s, sd, hs, rfl⟩ := hfc
  simpa using h ax s sd hs

/-- valid cells are never changed by the setter -/
theorem setBoundaries_valid_unchanged (shape : List Nat) (rank : Nat) (specs : List (AxisSpec K))
    (hlen : specs.length = shape.length) (a : List Int → K) (idx : List Int)
    (hv : ∀ j, j < shape.length → 1 ≤ (idx.drop rank).getD j 0 ∧
      (idx.drop rank).getD j 0 ≤ (shape.getD j 0 : Int)) :
    setBoundaries shape rank specs a idx = a idx := by
  apply setBoundaries_frame
  intro ax s sd hs
  have hax : ax < shape.length := by rw [← hlen]; exact (List.getElem?_eq_some_iff.mp hs).1
  apply Face.not_writes_of_valid
  have := hv ax hax
  simpa [Face.N] using this

/-- the order in which the faces of the grid are processed is irrelevant: any permutation of the
generated list (e.g. lower side first, axes reversed, the order of the compiled setter) gives the
same padded array -/
theorem setBoundaries_order_irrelevant (shape : List Nat) (rank : Nat) (specs : List (AxisSpec K))
    (h : GridOK shape specs) (faces' : List (Face × K × Cond K))
    (hp : (boundaryFaces shape rank specs).Perm faces') (a : List Int → K) :
    setGhostAll faces' a = setBoundaries shape rank specs a := by
  have hc := boundaryFaces_compatible shape rank specs h
  have hc' : Compatible faces' :=
    ⟨fun x hx y hy => hc.same x (hp.mem_iff.mpr hx) y (hp.mem_iff.mpr hy),
     fun x hx => hc.wf x (hp.mem_iff.mpr hx),
     (hp.pairwise_iff (fun {x y} hxy => by
        intro ⟨h1, h2⟩; exact hxy ⟨h1.symm, h2.symm⟩)).mp hc.distinct,
     fun x hx => hc.curv x (hp.mem_iff.mpr hx)⟩
  exact (setGhostAll_perm _ _ hp hc hc' a).symm

/-! ### spelled out per condition type -/

section spelled
variable (shape : List Nat) (rank : Nat) (specs : List (AxisSpec K)) (h : GridOK shape specs)
  (a : List Int → K) (ax : Nat) (s : AxisSpec K) (sd : Side) (hs : specs[ax]? = some s)
  (idx : List Int) (hw : (s.face shape rank ax sd).1.writes idx = true) (hdx : s.dx ≠ 0)
include h hs hw hdx

/-- value condition: `(ghost + cell)/2 = v` on every face of the grid, in the final array -/
theorem setBoundaries_value (v : List Int → K) (hc : s.cond sd = .dirichlet v) :
    let A := setBoundaries shape rank specs a
    let f := (s.face shape rank ax sd).1
    (A idx + A (f.at idx (nearIdx f.N sd))) / 2 = v (f.valueIdx idx) := by
  have := setBoundaries_holds shape rank specs h a ax s sd hs idx hw hdx (by rw [hc]; trivial)
  rw [hc] at this
  simpa [HoldsAt] using this

/-- derivative condition: `(ghost - cell)/dx = d` -/
theorem setBoundaries_derivative (d : List Int → K) (hc : s.cond sd = .neumann d) :
    let A := setBoundaries shape rank specs a
    let f := (s.face shape rank ax sd).1
    (A idx - A (f.at idx (nearIdx f.N sd))) / s.dx = d (f.valueIdx idx) := by
  have := setBoundaries_holds shape rank specs h a ax s sd hs idx hw hdx (by rw [hc]; trivial)
  rw [hc] at this
  simpa [HoldsAt] using this

/-- curvature condition: `(ghost - 2 c₁ + c₂)/dx² = k` -/
theorem setBoundaries_curvature (k : List Int → K) (hc : s.cond sd = .curvature k) :
    let A := setBoundaries shape rank specs a
    let f := (s.face shape rank ax sd).1
    (A idx - 2 * A (f.at idx (nearIdx f.N sd)) + A (f.at idx (near2Idx f.N sd))) / (s.dx * s.dx)
      = k (f.valueIdx idx) := by
  have := setBoundaries_holds shape rank specs h a ax s sd hs idx hw hdx (by rw [hc]; trivial)
  rw [hc] at this
  simpa [HoldsAt] using this

/-- (anti-)periodic condition: ghost = ± the valid cell at the opposite end, in the final array -/
theorem setBoundaries_periodic (flip : Bool) (hc : s.cond sd = .periodic flip) :
    let A := setBoundaries shape rank specs a
    let f := (s.face shape rank ax sd).1
    A idx = (if flip then -1 else 1) * A (f.at idx (oppIdx f.N sd)) := by
  have := setBoundaries_holds shape rank specs h a ax s sd hs idx hw hdx (by rw [hc]; trivial)
  rw [hc] at this
  simpa [HoldsAt] using this

/-- `MixedBC` with the coefficients as the user gives them: the Robin equation wherever the
coefficient is finite and regular, boundary value 0 wherever it is infinite -/
theorem setBoundaries_robin [DecidableEq K] (g : List Int → Coef K) (b : List Int → K)
    (hc : s.cond sd = Cond.robin s.dx g b) :
    let A := setBoundaries shape rank specs a
    let f := (s.face shape rank ax sd).1
    let cell := A (f.at idx (nearIdx f.N sd))
    (∀ γ, g (f.valueIdx idx) = .fin γ → 2 + s.dx * γ ≠ 0 →
        (A idx - cell) / s.dx + γ * ((A idx + cell) / 2) = b (f.valueIdx idx)) ∧
    (g (f.valueIdx idx) = .inf → (A idx + cell) / 2 = 0) := by
  intro A f cell
  have hfix := setBoundaries_fixed shape rank specs h a ax s sd hs idx hw
  rw [hc] at hfix
  constructor
  · intro γ hγ hreg
    have hh := holdsAt_of_fixed f s.dx hdx (Cond.robin s.dx g b) A idx
      (by simp [RegularAt, Cond.robin, f, hγ, Coef.val, hreg]) hfix
    simpa [HoldsAt, Cond.robin, f, hγ, Coef.nonFinite, Coef.val, hreg] using hh
  · intro hγ
    have hh := holdsAt_of_fixed f s.dx hdx (Cond.robin s.dx g b) A idx
      (by simp [RegularAt, Cond.robin, f, hγ, Coef.nonFinite]) hfix
    simpa [HoldsAt, Cond.robin, f, hγ, Coef.nonFinite] using hh

/-- expression-mixed condition (`{"type": "mixed_expression", ..}`) on any face of the grid: the
Robin equation with the expression values at the face point, wherever the expression does not
divide by zero -/
theorem setBoundaries_exprMixed (g b : List Int → K) (hc : s.cond sd = .exprMixed g b)
    (hreg : g ((s.face shape rank ax sd).1.valueIdx idx) * s.dx + 2 ≠ 0) :
    let A := setBoundaries shape rank specs a
    let f := (s.face shape rank ax sd).1
    let cell := A (f.at idx (nearIdx f.N sd))
    (A idx - cell) / s.dx + g (f.valueIdx idx) * ((A idx + cell) / 2) = b (f.valueIdx idx) := by
  have := setBoundaries_holds shape rank specs h a ax s sd hs idx hw hdx (by rw [hc]; exact hreg)
  rw [hc] at this
  simpa [HoldsAt] using this

end spelled
end

/-! ### linked values: what is imposed is decided by the memory at the time of the call -/

section linked
variable {K : Type} [Field K] [CharZero K] [DecidableEq K]

/-- the faces (geometry, `normal` flag) do not depend on the linked memory -/
theorem LAxisSpec.resolve_face_geom (s : LAxisSpec K) (st st' : Store K) (shape : List Nat)
    (rank ax : Nat) (sd : Side) :
    ((s.resolve st).face shape rank ax sd).1 = ((s.resolve st').face shape rank ax sd).1 := by
  cases sd <;> rfl

/-- **C02 with linked values**: the setter called while the external memory is `st` leaves an
array in which every face satisfies its condition *with the values `st` holds at that moment*
(composed over all axes and sides like `setBoundaries_holds`) -/
theorem setBoundariesLinked_holds (shape : List Nat) (rank : Nat) (specs : List (LAxisSpec K))
    (st : Store K) (h : GridOK shape (specs.map (·.resolve st))) (a : List Int → K) (ax : Nat)
    (s : LAxisSpec K) (sd : Side) (hs : specs[ax]? = some s) (idx : List Int)
    (hw : ((s.resolve st).face shape rank ax sd).1.writes idx = true) (hdx : s.dx ≠ 0)
    (hreg : RegularAt ((s.resolve st).face shape rank ax sd).1 s.dx ((s.resolve st).cond sd) idx) :
    HoldsAt ((s.resolve st).face shape rank ax sd).1 s.dx ((s.resolve st).cond sd)
      (setBoundariesLinked shape rank specs st a) idx := by
  have hs' : (specs.map (·.resolve st))[ax]? = some (s.resolve st) := by simp [hs]
  exact setBoundaries_holds shape rank _ h a ax (s.resolve st) sd hs' idx hw hdx hreg

/-- spelled out for a linked value condition: `(ghost + cell)/2` equals the CURRENT content of the
linked array -/
theorem setBoundariesLinked_value (shape : List Nat) (rank : Nat) (specs : List (LAxisSpec K))
    (st : Store K) (h : GridOK shape (specs.map (·.resolve st))) (a : List Int → K) (ax : Nat)
    (s : LAxisSpec K) (sd : Side) (hs : specs[ax]? = some s) (idx : List Int) (slot : Nat)
    (hc : (match sd with | .upper => s.hi.2 | .lower => s.lo.2) = .dirichlet (.linked slot))
    (hw : ((s.resolve st).face shape rank ax sd).1.writes idx = true) (hdx : s.dx ≠ 0) :
    let A := setBoundariesLinked shape rank specs st a
    let f := ((s.resolve st).face shape rank ax sd).1
    (A idx + A (f.at idx (nearIdx f.N sd))) / 2 = st.val slot (f.valueIdx idx) := by
  have hs' : (specs.map (·.resolve st))[ax]? = some (s.resolve st) := by simp [hs]
  have hcond : (s.resolve st).cond sd = .dirichlet (st.val slot) := by
    cases sd <;> simp only at hc <;>
      simp [AxisSpec.cond, LAxisSpec.resolve, hc, LCond.resolve, ValRef.val]
  exact setBoundaries_value shape rank _ h a ax (s.resolve st) sd hs' idx hw hdx _ hcond

/-- the written entries depend only on the valid cells of the array the setter is applied to -/
theorem setBoundaries_congr_valid (shape : List Nat) (rank : Nat) (specs : List (AxisSpec K))
    (h : GridOK shape specs) (a b : List Int → K)
    (hab : ∀ idx, (∀ j, j < shape.length → 1 ≤ (idx.drop rank).getD j 0 ∧
      (idx.drop rank).getD j 0 ≤ (shape.getD j 0 : Int)) → a idx = b idx)
    (ax : Nat) (s : AxisSpec K) (sd : Side) (hs : specs[ax]? = some s) (idx : List Int)
    (hw : (s.face shape rank ax sd).1.writes idx = true) :
    setBoundaries shape rank specs a idx = setBoundaries shape rank specs b idx := by
  rw [setBoundaries_written shape rank specs h a ax s sd hs idx hw,
    setBoundaries_written shape rank specs h b ax s sd hs idx hw]
  have hmem : s.face shape rank ax sd ∈ boundaryFaces shape rank specs :=
    (boundaryFaces_mem shape rank specs _).mpr ⟨ax, s, sd, hs, rfl⟩
  have hc := boundaryFaces_compatible shape rank specs h
  have hwf := hc.wf _ hmem
  have hcu := hc.curv _ hmem
  apply ghostValue_congr _ _ _ _ _ _ hw hwf (by simpa using hcu)
  intro cc h1 h2
  apply hab
  intro j hj
  obtain ⟨_, hlen⟩ := Face.writes_ghost _ idx hw
  have hex := setGhost_writes_exactly_face _ idx hw
  simp only [AxisSpec.face_rank, AxisSpec.face_shape, AxisSpec.face_axis] at hlen hex
  have hrank : rank ≤ idx.length := by omega
  have hd : ((s.face shape rank ax sd).1.at idx cc).drop rank
      = setAt (idx.drop rank) ax cc := by
    have := Face.drop_at (s.face shape rank ax sd).1 idx cc (by simpa using hrank)
    simpa using this
  rw [hd]
  by_cases hja : ax = j
  · subst hja
    rw [getD_setAt_same _ _ _ (by simp; omega)]
    have : (s.face shape rank ax sd).1.N = shape.getD ax 0 := by simp [Face.N]
    rw [this] at h2
    exact ⟨h1, h2⟩
  · rw [getD_setAt_other _ _ _ _ hja]
    exact hex.2 j hj (Ne.symm hja)

/-- **no memory of earlier linked values**: imposing with memory `st₁`, overwriting the linked
arrays (now `st₂`) and imposing again gives exactly the array that imposing with `st₂` alone gives -
nothing of the earlier values survives in the ghost cells, nothing is frozen -/
theorem setBoundariesLinked_current (shape : List Nat) (rank : Nat) (specs : List (LAxisSpec K))
    (st₁ st₂ : Store K) (h₂ : GridOK shape (specs.map (·.resolve st₂))) (a : List Int → K) :
    setBoundariesLinked shape rank specs st₂ (setBoundariesLinked shape rank specs st₁ a)
      = setBoundariesLinked shape rank specs st₂ a := by
  funext idx
  unfold setBoundariesLinked
  have hlen : specs.length = shape.length := by simpa using h₂.len
  by_cases hex : ∃ (ax : Nat) (s : LAxisSpec K) (sd : Side), specs[ax]? = some s ∧
      ((s.resolve st₂).face shape rank ax sd).1.writes idx = true
  · obtain ⟨ax, s, sd, hs, hw⟩ := hex
    have hs' : (specs.map (·.resolve st₂))[ax]? = some (s.resolve st₂) := by simp [hs]
    apply setBoundaries_congr_valid shape rank _ h₂ _ _ _ ax (s.resolve st₂) sd hs' idx hw
    intro i hv
    exact setBoundaries_valid_unchanged shape rank _ (by simpa using hlen) a i hv
  · have hnone : ∀ (st : Store K) (ax : Nat) (t : AxisSpec K) (sd : Side),
        (specs.map (·.resolve st))[ax]? = some t → (t.face shape rank ax sd).1.writes idx = false := by
      intro st ax t sd ht
      simp only [List.getElem?_map, Option.map_eq_some_iff] at ht
      obtain ⟨s, hs, rfl⟩ := ht
      rw [LAxisSpec.resolve_face_geom s st st₂]
      by_contra hcon
      exact hex ⟨ax, s, sd, hs, by simpa using hcon⟩
    rw [setBoundaries_frame shape rank _ _ idx (hnone st₂), setBoundaries_frame shape rank _ _ idx (hnone st₂),
      setBoundaries_frame shape rank _ _ idx (hnone st₁)]

end linked

/-! ### non-vacuity: a 2-axis grid (3 x 2 cells) with four different conditions -/

/-- x: value 3 below, Robin (γ = -2 regular for dx = 1/2, β = 1) above; y: periodic -/
def exSpecs : List (AxisSpec Rat) :=
  [⟨1/2, (false, .dirichlet (fun _ => 3)), (false, Cond.robin (1/2) (fun _ => .fin (-2)) (fun _ => 1))⟩,
   ⟨1, (false, .periodic false), (false, .periodic false)⟩]

example : GridOK [3, 2] exSpecs :=
  ⟨rfl, by simp, by
    intro ax s sd k hs hc
    match ax, hs with
    | 0, hs =>
      simp only [exSpecs, List.getElem?_cons_zero, Option.some.injEq] at hs
      subst hs; cases sd <;> simp [AxisSpec.cond, Cond.robin] at hc
    | 1, hs =>
      simp only [exSpecs, List.getElem?_cons_succ, List.getElem?_cons_zero, Option.some.injEq] at hs
      subst hs; cases sd <;> simp [AxisSpec.cond] at hc
    | n + 2, hs => simp [exSpecs] at hs⟩

/-- the field `10 i + j` on the padded 5 x 4 array -/
def exField : List Int → Rat := fun i => 10 * (i.getD 0 0 : Rat) + (i.getD 1 0 : Rat)

-- lower x face (value 3): ghost = 6 - cell
example : setBoundaries [3, 2] 0 exSpecs exField [0, 1] = 6 - 11 := by decide +kernel
-- upper x face (Robin): ghost = 1 + 3 * cell
example : setBoundaries [3, 2] 0 exSpecs exField [4, 2] = 1 + 3 * 32 := by decide +kernel
-- y faces (periodic): ghost = opposite valid cell
example : setBoundaries [3, 2] 0 exSpecs exField [2, 0] = 22 := by decide +kernel
example : setBoundaries [3, 2] 0 exSpecs exField [2, 3] = 21 := by decide +kernel
-- a corner is not written
example : setBoundaries [3, 2] 0 exSpecs exField [0, 0] = 0 := by decide +kernel


/-- a vector field (rank 1) on 2 x 2 cells with `normal_value = 1` on all four sides: at the lower x
face the x component gets `2 - cell`, the y component's virtual point is untouched -/
def exNormal : List (AxisSpec Rat) :=
  [⟨1, (true, .dirichlet (fun _ => 1)), (true, .dirichlet (fun _ => 1))⟩,
   ⟨1, (true, .dirichlet (fun _ => 1)), (true, .dirichlet (fun _ => 1))⟩]
def exVec : List Int → Rat := fun i => 100 * (i.getD 0 0 : Rat) + 10 * (i.getD 1 0 : Rat) + (i.getD 2 0 : Rat)
example : setBoundaries [2, 2] 1 exNormal exVec [0, 0, 1] = 2 - 11 := by decide +kernel
example : setBoundaries [2, 2] 1 exNormal exVec [1, 0, 1] = exVec [1, 0, 1] := by decide +kernel
example : setBoundaries [2, 2] 1 exNormal exVec [1, 1, 0] = 2 - 111 := by decide +kernel

/-- linked value: the lower x condition reads slot 0; memory first holds 3, then 5 -/
def exLSpecs : List (LAxisSpec Rat) :=
  [⟨1/2, (false, .dirichlet (.linked 0)), (false, .robin (.own (fun _ => -2) (fun _ => false)) (fun _ => 1))⟩,
   ⟨1, (false, .fixed (.periodic false)), (false, .fixed (.periodic false))⟩]
def exStore (v : Rat) : Store Rat := ⟨fun _ _ => v, fun _ _ => false⟩
example : setBoundariesLinked [3, 2] 0 exLSpecs (exStore 3) exField [0, 1] = 6 - 11 := by decide +kernel
example : setBoundariesLinked [3, 2] 0 exLSpecs (exStore 5)
    (setBoundariesLinked [3, 2] 0 exLSpecs (exStore 3) exField) [0, 1] = 10 - 11 := by decide +kernel

end PdeVerif.BC

/-! ## specifications: the statements about single layers lifted to the whole `parse` -/
namespace PdeVerif.BCParse

/-- **whole-parse statement for the dictionary format**: an accepted dictionary yields, on every
axis, exactly what `get_boundary_axis` makes of the two *most specific* entries for the two sides
(`pick` = declarative precedence: named boundary > `axis±` > axis > `*`, falsy values skipped),
read from the dictionary after the synonym replacement -/
theorem parse_dict_axis (g : GridNames) (d : Data) (r : List AxisBC) (h : parse g (.dict d) = .ok r) :
    ∃ d', renameAlt g.alt d = .ok d' ∧ ∀ ax, ax < g.axes.length →
      ∃ b, r[ax]? = some b ∧
        axisOfSides (g.periodic.getD ax false) (pick g d' ax false) (pick g d' ax true) = .ok b := by
  unfold parse at h
  simp only [bind, Except.bind] at h
  cases hd : renameAlt g.alt d with
  | error e => rw [hd] at h; cases h
  | ok d' =>
    rw [hd] at h
    refine ⟨d', rfl, ?_⟩
    intro ax hax
    obtain ⟨y, hy1, hy2⟩ := mapM_except_getElem _ _ _ h ax (by simpa using hax)
    simp only [List.getElem_range] at hy1
    rw [parse_most_specific_wins, parse_most_specific_wins] at hy1
    exact ⟨y, hy2, hy1⟩

/-- two different local conditions for the two sides of a non-periodic axis - in whichever of
the formats they were written (`{"x-": A, "x+": B}`, named boundaries, wildcard + override, ..) -
end up as the pair (class of A with A's value, class of B with B's value) -/
theorem parse_dict_pair (g : GridNames) (d d' : Data) (r : List AxisBC)
    (h : parse g (.dict d) = .ok r) (hd : renameAlt g.alt d = .ok d') (ax : Nat)
    (hax : ax < g.axes.length) (n1 n2 : String) (v1 v2 : Nat)
    (hlo : pick g d' ax false = some (.one (.named n1 v1)))
    (hhi : pick g d' ax true = some (.one (.named n2 v2))) (hne : (n1, v1) ≠ (n2, v2)) :
    ∃ k1 k2, kindOf n1 = some k1 ∧ kindOf n2 = some k2 ∧ r[ax]? = some (.pair (k1, v1) (k2, v2)) ∧
      g.periodic.getD ax false = false := by
  obtain ⟨d'', hd'', hall⟩ := parse_dict_axis g d r h
  rw [hd] at hd''
  cases hd''
  obtain ⟨b, hb, hax'⟩ := hall ax hax
  rw [hlo, hhi] at hax'
  have hne' : (some (Entry.one (Spec.named n1 v1)) : Option Entry) ≠ some (Entry.one (Spec.named n2 v2)) := by
    intro hc
    simp only [Option.some.injEq, Entry.one.injEq, Spec.named.injEq] at hc
    exact hne (by rw [hc.1, hc.2])
  generalize g.periodic.getD ax false = per at hax' ⊢
  simp only [axisOfSides, hne', ↓reduceIte, Entry.isPeriodic, Bool.false_eq_true, or_self,
    Entry.asSide, pairOf, sideBC] at hax'
  cases hk1 : kindOf n1 with
  | none => simp [hk1] at hax'
  | some k1 =>
    cases hk2 : kindOf n2 with
    | none =>
      simp only [hk1, hk2] at hax'
      split at hax' <;> simp at hax'
    | some k2 =>
      simp only [hk1, hk2] at hax'
      cases per with
      | true => simp at hax'
      | false =>
        simp only [Bool.false_eq_true, ↓reduceIte, Except.ok.injEq] at hax'
        exact ⟨k1, k2, rfl, rfl, by rw [hb, hax'], rfl⟩

/-- `{"low": A, "high": B}` or `(A, B)` under an axis key is the same as writing the two sides:
lifted to a whole dictionary with one entry on a one-axis grid without synonyms -/
example : parse ⟨["x"], [], [], [false]⟩
      (.dict [("x", .lowHigh (some (.named "value" 1)) (some (.named "derivative" 2)) false)])
    = parse ⟨["x"], [], [], [false]⟩ (.dict [("x-", .one (.named "value" 1)), ("x+", .one (.named "derivative" 2))]) ∧
  parse ⟨["x"], [], [], [false]⟩ (.dict [("x", .seq [.named "value" 1, .named "derivative" 2])])
    = .ok [.pair (.dirichlet, 1) (.neumann, 2)] ∧
  parse ⟨["x"], [], [], [false]⟩
      (.dict [("x", .lowHigh (some (.named "value" 1)) (some (.named "derivative" 2)) true)])
    = .error .bcdata := by decide +kernel

end PdeVerif.BCParse
