import PdeVerif.Model.Grid
import PdeVerif.Model.Volume
import PdeVerif.Model.GridCoords
import PdeVerif.Lemmas.Basic
import Mathlib.Algebra.BigOperators.Intervals
import Mathlib.Algebra.BigOperators.Field
import Mathlib.Algebra.Order.ToIntervalMod
import Mathlib.Data.Rat.Floor
import Mathlib.Tactic.Positivity
import Mathlib.Tactic.NormNum
/-
C12 - grid geometry and coordinate transformations are self-consistent.
Property theorems about `PdeVerif.Grids` (model of pde/grids/{base,cartesian,spherical,
cylindrical}.py, pde/grids/coordinates/*.py, pde/tools/cuboid.py and of
`ScalarField.project`).  Every statement holds for an arbitrary ordered field with floor, every
number of cells, every inner radius, every dimension of a Cartesian grid and every axis subset;
`pi` is an arbitrary element of the field (all volume statements are linear in it).
-/
set_option linter.unusedSectionVars false
namespace PdeVerif.Grids
open PdeVerif

section
variable {K : Type} [Field K] [LinearOrder K] [IsStrictOrderedRing K] [FloorRing K]

/-! ### 1. discretisation: `dx = (hi - lo)/N`, centres at `lo + (i + 1/2) dx` -/

theorem half_eq : (half : K) = 1 / 2 := by unfold half; push_cast; rfl

/-- **C12** `dx = (x_max - x_min) / N` -/
theorem dx_def (lo hi : K) (n : ℕ) : dx lo hi n = (hi - lo) / (n : K) := rfl

/-- **C12** the centre of cell `i` lies at `x_min + (i + 1/2) dx` -/
theorem centres (lo hi : K) (n i : ℕ) :
    centre lo hi n i = lo + ((i : K) + 1 / 2) * ((hi - lo) / (n : K)) := by
  unfold centre dx; rw [half_eq]; ring

/-- the whole coordinate array: `N` entries, entry `i` is the centre of cell `i` -/
theorem centres_list (lo hi : K) (n : ℕ) :
    (centreList lo hi n).length = n ∧
      ∀ i (h : i < (centreList lo hi n).length),
        (centreList lo hi n)[i] = lo + ((i : K) + 1 / 2) * ((hi - lo) / (n : K)) := by
  refine ⟨by simp [centreList], ?_⟩
  intro i h
  simp only [centreList, List.getElem_map, List.getElem_range]
  exact centres lo hi n i

/-- the faces the volume code uses (`rs ± dr/2`) are the grid lines `lo + i dx` -/
theorem cellLo_eq_face (lo hi : K) (n i : ℕ) : cellLo lo hi n i = face lo hi n i := by
  unfold cellLo face centre; rw [half_eq]; ring

theorem cellHi_eq_face (lo hi : K) (n i : ℕ) : cellHi lo hi n i = face lo hi n (i + 1) := by
  unfold cellHi face centre; rw [half_eq]; push_cast; ring

theorem face_zero (lo hi : K) (n : ℕ) : face lo hi n 0 = lo := by
  unfold face; simp

theorem face_last (lo hi : K) (n : ℕ) (hn : n ≠ 0) : face lo hi n n = hi := by
  have : (n : K) ≠ 0 := Nat.cast_ne_zero.mpr hn
  unfold face dx; field_simp; ring

theorem dx_pos (lo hi : K) (n : ℕ) (h : lo < hi) (hn : n ≠ 0) : 0 < dx lo hi n := by
  have : (0 : K) < n := Nat.cast_pos.mpr (Nat.pos_of_ne_zero hn)
  unfold dx; exact div_pos (sub_pos.mpr h) this

/-- the centre lies strictly inside its cell and cells are ordered -/
theorem centre_in_cell (lo hi : K) (n i : ℕ) (h : lo < hi) (hn : n ≠ 0) :
    face lo hi n i < centre lo hi n i ∧ centre lo hi n i < face lo hi n (i + 1) := by
  have hd := dx_pos lo hi n h hn
  unfold face centre; rw [half_eq]; push_cast
  constructor <;> nlinarith

/-- every centre lies inside the bounds -/
theorem centre_in_bounds (lo hi : K) (n i : ℕ) (h : lo < hi) (hi' : i < n) :
    lo < centre lo hi n i ∧ centre lo hi n i < hi := by
  have hn : n ≠ 0 := by omega
  have hd := dx_pos lo hi n h hn
  have hN : (0 : K) < n := Nat.cast_pos.mpr (Nat.pos_of_ne_zero hn)
  have e : hi = lo + (n : K) * dx lo hi n := by unfold dx; field_simp; ring
  have hin : (i : K) + 1 ≤ n := by exact_mod_cast hi'
  have hi0 : (0 : K) ≤ i := Nat.cast_nonneg i
  unfold centre; rw [half_eq]
  constructor
  · nlinarith
  · rw [e] at *
    have : ((i : K) + 1 / 2) * dx lo (lo + ↑n * dx lo hi n) n < ↑n * dx lo hi n := by
      have e2 : dx lo (lo + ↑n * dx lo hi n) n = dx lo hi n := by
        unfold dx; field_simp; ring
      rw [e2]; nlinarith
    linarith

/-- `UnitGrid` is the Cartesian grid with bounds `(0, N)`: literal `dx = 1`, centres `i + 1/2` -/
theorem unit_eq_cartesian (n i : ℕ) (hn : n ≠ 0) :
    (unitDx : K) = dx ((0 : ℕ) : K) (n : K) n ∧ (unitCentre i : K) = centre ((0 : ℕ) : K) (n : K) n i := by
  have : (n : K) ≠ 0 := Nat.cast_ne_zero.mpr hn
  unfold unitDx unitCentre centre dx
  rw [half_eq]
  push_cast
  constructor
  · field_simp; ring
  · field_simp; ring

/-- `Cuboid` orders reversed bounds -/
theorem cuboidBounds_eq (lo hi : K) : cuboidBounds lo hi = (min lo hi, max lo hi) := by
  unfold cuboidBounds
  simp only [Nat.cast_zero]
  split_ifs with h
  · have : hi < lo := by linarith
    rw [min_eq_right this.le, max_eq_left this.le]; ext <;> simp
  · have : lo ≤ hi := by linarith
    rw [min_eq_left this, max_eq_right this]; ext <;> simp

/-! ### 2. cell volumes, their sum, integration and projection -/

theorem sumN_eq_sum (n : ℕ) (f : ℕ → K) : sumN n f = ∑ i ∈ Finset.range n, f i := by
  induction n with
  | zero => simp [sumN]
  | succ n ih => rw [sumN, ih, Finset.sum_range_succ]

theorem sumN_congr (n : ℕ) (f g : ℕ → K) (h : ∀ i < n, f i = g i) : sumN n f = sumN n g := by
  rw [sumN_eq_sum, sumN_eq_sum]
  exact Finset.sum_congr rfl fun i hi => h i (Finset.mem_range.mp hi)

theorem sumN_mul (n : ℕ) (f : ℕ → K) (c : K) : sumN n (fun i => f i * c) = sumN n f * c := by
  rw [sumN_eq_sum, sumN_eq_sum, Finset.sum_mul]

theorem sumN_add (n : ℕ) (f g : ℕ → K) : sumN n (fun i => f i + g i) = sumN n f + sumN n g := by
  rw [sumN_eq_sum, sumN_eq_sum, sumN_eq_sum, Finset.sum_add_distrib]

theorem sumN_comm (n m : ℕ) (f : ℕ → ℕ → K) :
    sumN n (fun i => sumN m (fun j => f i j)) = sumN m (fun j => sumN n (fun i => f i j)) := by
  simp only [sumN_eq_sum]
  exact Finset.sum_comm

/-- telescoping sum -/
theorem sumN_telescope (n : ℕ) (F : ℕ → K) : sumN n (fun i => F (i + 1) - F i) = F n - F 0 := by
  rw [sumN_eq_sum, Finset.sum_range_sub]

/-- the measure primitive of an axis: the exact measure of the part `[a, b]` of the axis (with the
full range of the symmetric angles) is `prim b - prim a`.  Length for Cartesian axes and `z`,
`pi r^2` for polar and cylindrical `r`, `4/3 pi r^3` for spherical `r`. -/
def prim (pi : K) (c : GridClass) (ax : ℕ) (x : K) : K :=
  match c with
  | .unit | .cartesian => x
  | .polar => pi * x ^ 2
  | .spherical => 4 / 3 * pi * x ^ 3
  | .cylindrical => if ax = 0 then pi * x ^ 2 else x

/-- exact measure of an axis between its bounds -/
def axisMeasure (pi : K) (c : GridClass) (ax : ℕ) (a : Axis K) : K := prim pi c ax a.hi - prim pi c ax a.lo

/-- well-formed axis: at least one cell, `lo < hi`; a `UnitGrid` axis is `(0, N)` -/
def Axis.WF (c : GridClass) (a : Axis K) : Prop :=
  a.n ≠ 0 ∧ a.lo < a.hi ∧ (c = .unit → a.lo = 0 ∧ a.hi = (a.n : K))

/-- **C12** `2 pi dr r_i = pi ((r_i + dr/2)^2 - (r_i - dr/2)^2)`: the cylindrical formula is the
exact annulus area -/
theorem cyl_volume_identity (pi r dr : K) :
    2 * pi * dr * r = pi * ((r + dr / 2) ^ 2 - (r - dr / 2) ^ 2) := by ring

/-- **C12** every entry of `cell_volume_data` is the exact measure of its cell
`[lo + i dx, lo + (i+1) dx]` in the grid's coordinate system, for every grid class -/
theorem cell_volumes_exact (pi : K) (g : Grid K) (ax : ℕ) (a : Axis K) (i : ℕ) (h : a.WF g.cls) :
    g.volFactor pi ax a i
      = prim pi g.cls ax (face a.lo a.hi a.n (i + 1)) - prim pi g.cls ax (face a.lo a.hi a.n i) := by
  obtain ⟨hn, _, hu⟩ := h
  have hN : (a.n : K) ≠ 0 := Nat.cast_ne_zero.mpr hn
  unfold Grid.volFactor prim
  cases hc : g.cls <;> simp only
  · -- unit
    obtain ⟨h0, h1⟩ := hu hc
    simp only [Grid.dxOf, hc, unitDx, face, dx, h0, h1]
    push_cast; field_simp; ring
  · simp only [Grid.dxOf, hc, face]; push_cast; ring
  · rw [cellHi_eq_face, cellLo_eq_face]; simp only [ballVolume]; ring
  · rw [cellHi_eq_face, cellLo_eq_face]; simp only [ballVolume]; push_cast; ring
  · split_ifs with h0
    · simp only [face, centre]; rw [half_eq]; push_cast; ring
    · simp only [face]; push_cast; ring

/-- **C12** the volume factors of one axis sum to the exact measure of the axis (telescoping; any
`N`, any inner radius) -/
theorem axis_volumes_sum (pi : K) (g : Grid K) (ax : ℕ) (a : Axis K) (h : a.WF g.cls) :
    sumN a.n (g.volFactor pi ax a) = axisMeasure pi g.cls ax a := by
  have e : ∀ i, g.volFactor pi ax a i
      = (fun j => prim pi g.cls ax (face a.lo a.hi a.n j)) (i + 1)
        - (fun j => prim pi g.cls ax (face a.lo a.hi a.n j)) i :=
    fun i => cell_volumes_exact pi g ax a i h
  rw [sumN_congr _ _ _ (fun i _ => e i)]
  refine (sumN_telescope a.n (fun j => prim pi g.cls ax (face a.lo a.hi a.n j))).trans ?_
  simp only [face_zero, face_last _ _ _ h.1, axisMeasure]

/-- product of the measures of the selected axes of an abstract axis list -/
def selMeasure : List (AxisVol K) → K
  | [] => 1
  | a :: rest => (if a.sel then sumN a.n a.vol else 1) * selMeasure rest

/-- integrating a constant over the selected axes gives the constant times their measures,
whatever the retained multi-index -/
theorem integrate_const (avs : List (AxisVol K)) (c : K) (ret : List ℕ) :
    integrate avs (fun _ => c) ret = selMeasure avs * c := by
  induction avs generalizing ret with
  | nil => simp [integrate, selMeasure]
  | cons a rest ih =>
    unfold integrate selMeasure
    split_ifs with hs
    · simp only [ih]
      rw [show (fun i => a.vol i * (selMeasure rest * c)) = fun i => a.vol i * (selMeasure rest * c) from rfl,
        sumN_mul]
      ring
    · rw [ih]; ring

/-- product of the exact measures of the selected axes of a grid (`enumerate`d from `k`) -/
def selMeasureFrom (pi : K) (c : GridClass) : ℕ → List (Axis K) → List Bool → K
  | k, a :: as, s :: ss => (if s then axisMeasure pi c k a else 1) * selMeasureFrom pi c (k + 1) as ss
  | _, _, _ => 1

/-- `axisVols` written as a recursion over the axes (position counted from `k`) -/
def axisVolsFrom (pi : K) (g : Grid K) : ℕ → List (Axis K) → List Bool → List (AxisVol K)
  | k, a :: as, s :: ss => ⟨a.n, g.volFactor pi k a, s⟩ :: axisVolsFrom pi g (k + 1) as ss
  | _, _, _ => []

theorem axisVols_eq_from_aux (pi : K) (g : Grid K) (k : ℕ) (as : List (Axis K)) (ss : List Bool) :
    (enumFrom k as).zipWith (fun (p : ℕ × Axis K) s => (⟨p.2.n, g.volFactor pi p.1 p.2, s⟩ : AxisVol K)) ss
      = axisVolsFrom pi g k as ss := by
  induction as generalizing k ss with
  | nil => cases ss <;> simp [enumFrom, axisVolsFrom]
  | cons a as ih =>
    cases ss with
    | nil => simp [enumFrom, axisVolsFrom]
    | cons s ss => simp [enumFrom, axisVolsFrom, ih]

theorem axisVols_eq_from (pi : K) (g : Grid K) (sel : List Bool) :
    g.axisVols pi sel = axisVolsFrom pi g 0 g.axes sel :=
  axisVols_eq_from_aux pi g 0 g.axes sel

theorem selMeasure_axisVolsFrom (pi : K) (g : Grid K) (k : ℕ) (as : List (Axis K)) (ss : List Bool)
    (h : ∀ a ∈ as, a.WF g.cls) :
    selMeasure (axisVolsFrom pi g k as ss) = selMeasureFrom pi g.cls k as ss := by
  induction as generalizing k ss with
  | nil => cases ss <;> simp [axisVolsFrom, selMeasure, selMeasureFrom]
  | cons a as ih =>
    cases ss with
    | nil => simp [axisVolsFrom, selMeasure, selMeasureFrom]
    | cons s ss =>
      simp only [axisVolsFrom, selMeasure, selMeasureFrom]
      rw [ih (k + 1) ss (fun b hb => h b (List.mem_cons_of_mem _ hb)),
        axis_volumes_sum pi g k a (h a List.mem_cons_self)]

/-- well-formed grid: every axis is well formed and the class has its number of axes -/
def Grid.WF (g : Grid K) : Prop :=
  (∀ a ∈ g.axes, a.WF g.cls) ∧
    (match g.cls with
     | .polar | .spherical => g.axes.length = 1 ∧ ∀ a ∈ g.axes, 0 ≤ a.lo
     | .cylindrical => g.axes.length = 2 ∧ ∀ a ∈ g.axes.head?, 0 ≤ a.lo
     | _ => True)

/-- **C12** integrating the constant 1 over any subset of the axes (`sel`) returns the product of
the exact measures of the selected axes, at every retained multi-index; all axes selected gives
the measure of the whole grid -/
theorem integrate_one_eq_measure (pi : K) (g : Grid K) (sel : List Bool) (ret : List ℕ)
    (h : ∀ a ∈ g.axes, a.WF g.cls) :
    g.integrateSel pi sel (fun _ => 1) ret = selMeasureFrom pi g.cls 0 g.axes sel := by
  unfold Grid.integrateSel
  rw [integrate_const, axisVols_eq_from, selMeasure_axisVolsFrom pi g 0 g.axes sel h, mul_one]

/-- sum of an array over all multi-indices of a shape -/
def sumIdx : List ℕ → (List ℕ → K) → K
  | [], f => f []
  | n :: ns, f => sumN n (fun i => sumIdx ns (fun idx => f (i :: idx)))

theorem sumIdx_mul_left (ns : List ℕ) (c : K) (f : List ℕ → K) :
    c * sumIdx ns f = sumIdx ns (fun idx => c * f idx) := by
  induction ns generalizing f with
  | nil => simp [sumIdx]
  | cons n ns ih =>
    simp only [sumIdx, sumN_eq_sum, Finset.mul_sum]
    exact Finset.sum_congr rfl fun i _ => ih _

/-- `integrate` over all axes is literally `(data * cell_volumes).sum()`: the sum over all cells of
the product of the per-axis factors times the data -/
theorem integrate_all_eq_sumIdx (avs : List (AxisVol K)) (hall : ∀ a ∈ avs, a.sel = true)
    (data : List ℕ → K) (ret : List ℕ) :
    integrate avs data ret = sumIdx (avs.map (·.n)) (fun idx => prodAt avs idx * data idx) := by
  induction avs generalizing data ret with
  | nil => simp [integrate, sumIdx, prodAt]
  | cons a rest ih =>
    have ha : a.sel = true := hall a List.mem_cons_self
    have hr : ∀ b ∈ rest, b.sel = true := fun b hb => hall b (List.mem_cons_of_mem _ hb)
    simp only [integrate, ha, if_true, List.map_cons, sumIdx]
    refine sumN_congr _ _ _ fun i _ => ?_
    rw [ih hr, sumIdx_mul_left]
    simp only [prodAt, List.headD_cons, List.tail_cons, mul_assoc]

theorem selMeasureFrom_cart (pi : K) (c : GridClass) (hc : c = .unit ∨ c = .cartesian) (k : ℕ)
    (as : List (Axis K)) :
    selMeasureFrom pi c k as (as.map fun _ => true)
      = as.foldr (fun a acc => (a.hi - a.lo) * acc) 1 := by
  induction as generalizing k with
  | nil => simp [selMeasureFrom]
  | cons a as ih =>
    simp only [List.map_cons, selMeasureFrom, if_true, List.foldr_cons, ih]
    rcases hc with rfl | rfl <;> simp [axisMeasure, prim]

/-- `grid.volume` (the closed formula of every class) is the product of the exact measures of the
axes -/
theorem volume_eq_measure (pi : K) (g : Grid K) (h : g.WF) :
    g.volume pi = selMeasureFrom pi g.cls 0 g.axes (g.axes.map fun _ => true) := by
  obtain ⟨_, hc⟩ := h
  unfold Grid.volume
  rcases g with ⟨cls, axes⟩
  cases cls
  · simp only [Nat.cast_one]; exact (selMeasureFrom_cart pi _ (Or.inl rfl) 0 axes).symm
  · simp only [Nat.cast_one]; exact (selMeasureFrom_cart pi _ (Or.inr rfl) 0 axes).symm
  · simp only at hc
    obtain ⟨hl, h0⟩ := hc
    match axes, hl with
    | [a], _ =>
      have ha : 0 ≤ a.lo := h0 a List.mem_cons_self
      simp only [Nat.cast_zero, List.map_cons, List.map_nil, selMeasureFrom, if_true, axisMeasure, prim,
        ballVolume, mul_one]
      split_ifs with hp
      · ring
      · have : a.lo = 0 := le_antisymm (not_lt.mp hp) ha
        rw [this]; ring
  · simp only at hc
    obtain ⟨hl, h0⟩ := hc
    match axes, hl with
    | [a], _ =>
      have ha : 0 ≤ a.lo := h0 a List.mem_cons_self
      simp only [Nat.cast_zero, List.map_cons, List.map_nil, selMeasureFrom, if_true, axisMeasure, prim,
        ballVolume, mul_one]
      push_cast
      split_ifs with hp
      · ring
      · have : a.lo = 0 := le_antisymm (not_lt.mp hp) ha
        rw [this]; ring
  · simp only at hc
    obtain ⟨hl, _⟩ := hc
    match axes, hl with
    | [r, z], _ =>
      simp only [List.map_cons, List.map_nil, selMeasureFrom, if_true, axisMeasure, prim, mul_one]
      simp; ring

theorem axisVolsFrom_all_sel (pi : K) (g : Grid K) (k : ℕ) (as : List (Axis K)) :
    ∀ a ∈ axisVolsFrom pi g k as (as.map fun _ => true), a.sel = true := by
  induction as generalizing k with
  | nil => simp [axisVolsFrom]
  | cons b bs ih =>
    intro a ha
    simp only [List.map_cons, axisVolsFrom, List.mem_cons] at ha
    rcases ha with rfl | ha
    · rfl
    · exact ih (k + 1) a ha

theorem axisVolsFrom_map_n (pi : K) (g : Grid K) (k : ℕ) (as : List (Axis K)) :
    (axisVolsFrom pi g k as (as.map fun _ => true)).map (·.n) = as.map (·.n) := by
  induction as generalizing k with
  | nil => simp [axisVolsFrom]
  | cons b bs ih => simp only [List.map_cons, axisVolsFrom, ih]

/-- **C12** the cell volumes of every grid class sum to the grid volume: `integrate(1)`,
i.e. `cell_volumes.sum()`, equals the closed formula `grid.volume`, for any number of cells and
any inner radius -/
theorem cell_volumes_sum_eq_volume (pi : K) (g : Grid K) (h : g.WF) :
    g.integrateAll pi (fun _ => 1) = g.volume pi ∧
      sumIdx g.shape (g.cellVolume pi) = g.volume pi := by
  have h1 : g.integrateAll pi (fun _ => 1) = g.volume pi := by
    rw [volume_eq_measure pi g h]
    exact integrate_one_eq_measure pi g _ [] h.1
  refine ⟨h1, ?_⟩
  rw [← h1]
  unfold Grid.integrateAll Grid.cellVolume
  have hall : ∀ a ∈ g.axisVolsAll pi, a.sel = true := by
    unfold Grid.axisVolsAll; rw [axisVols_eq_from]; exact axisVolsFrom_all_sel pi g 0 g.axes
  rw [integrate_all_eq_sumIdx _ hall]
  have hshape : (g.axisVolsAll pi).map (·.n) = g.shape := by
    unfold Grid.axisVolsAll Grid.shape; rw [axisVols_eq_from]; exact axisVolsFrom_map_n pi g 0 g.axes
  rw [hshape]
  simp only [mul_one]

/-! #### projection (Fubini for the weighted sums) -/

theorem integrate_linear (avs : List (AxisVol K)) (n : ℕ) (c : ℕ → K) (F : ℕ → List ℕ → K)
    (ret : List ℕ) :
    integrate avs (fun idx => sumN n (fun i => c i * F i idx)) ret
      = sumN n (fun i => c i * integrate avs (F i) ret) := by
  induction avs generalizing F ret with
  | nil => simp [integrate]
  | cons a rest ih =>
    unfold integrate
    split_ifs with hs
    · simp only [ih]
      simp only [sumN_eq_sum, Finset.mul_sum]
      rw [Finset.sum_comm]
      refine Finset.sum_congr rfl fun i _ => Finset.sum_congr rfl fun j _ => ?_
      ring
    · exact ih _ _

/-- the axes that survive a projection, as the sliced grid integrates over them -/
def retainedAll (avs : List (AxisVol K)) : List (AxisVol K) :=
  (avs.filter fun a => !a.sel).map fun a => { a with sel := true }

/-- the same axes, all selected -/
def allSel (avs : List (AxisVol K)) : List (AxisVol K) := avs.map fun a => { a with sel := true }

/-- integrating the projection over the retained axes gives the integral over all axes -/
theorem integrate_fubini (avs : List (AxisVol K)) (data : List ℕ → K) :
    integrate (retainedAll avs) (fun ret => integrate avs data ret) []
      = integrate (allSel avs) data [] := by
  induction avs generalizing data with
  | nil => simp [retainedAll, allSel, integrate]
  | cons a rest ih =>
    by_cases hs : a.sel = true
    · have e1 : retainedAll (a :: rest) = retainedAll rest := by simp [retainedAll, hs]
      rw [e1]
      simp only [integrate, hs, if_true, allSel, List.map_cons]
      rw [integrate_linear]
      refine sumN_congr _ _ _ fun i _ => ?_
      rw [ih]; rfl
    · have hs' : a.sel = false := by simpa using hs
      have e1 : retainedAll (a :: rest) = { a with sel := true } :: retainedAll rest := by
        simp [retainedAll, hs']
      rw [e1]
      simp only [integrate, hs', if_true, allSel, List.map_cons, Bool.false_eq_true, if_false,
        List.headD_cons, List.tail_cons]
      refine sumN_congr _ _ _ fun i _ => ?_
      rw [ih]; rfl

theorem allSel_axisVolsFrom (pi : K) (g : Grid K) (k : ℕ) (as : List (Axis K)) (ss : List Bool)
    (hl : ss.length = as.length) :
    allSel (axisVolsFrom pi g k as ss) = axisVolsFrom pi g k as (as.map fun _ => true) := by
  induction as generalizing k ss with
  | nil => cases ss <;> simp [axisVolsFrom, allSel]
  | cons a as ih =>
    cases ss with
    | nil => simp at hl
    | cons s ss =>
      simp only [axisVolsFrom, allSel, List.map_cons, List.cons.injEq, true_and]
      exact ih (k + 1) ss (by simpa using hl)

/-- for Cartesian classes the retained axes are exactly the axes of the sliced grid -/
theorem retained_cart (pi : K) (g g' : Grid K) (hc : g.cls = .unit ∨ g.cls = .cartesian)
    (hc' : g'.cls = g.cls) (k k' : ℕ) (as : List (Axis K)) (rem : List Bool)
    (hl : rem.length = as.length) :
    retainedAll (axisVolsFrom pi g k as rem)
      = axisVolsFrom pi g' k' (keep as (rem.map (!·))) ((keep as (rem.map (!·))).map fun _ => true) := by
  have hv : ∀ j j' a, g.volFactor pi j a = g'.volFactor pi j' a := by
    intro j j' a
    funext i
    unfold Grid.volFactor Grid.dxOf
    rw [hc']
    rcases hc with h | h <;> simp [h]
  induction as generalizing k k' rem with
  | nil => cases rem <;> simp [axisVolsFrom, retainedAll, keep]
  | cons a as ih =>
    cases rem with
    | nil => simp at hl
    | cons s ss =>
      have hl' : ss.length = as.length := by simpa using hl
      cases s
      · simp only [axisVolsFrom, retainedAll, List.filter_cons, Bool.not_false, if_true, List.map_cons, keep,
          Bool.not_false]
        have := ih (k + 1) (k' + 1) ss hl'
        simp only [retainedAll] at this
        rw [this, hv k k' a]
      · simp only [axisVolsFrom, retainedAll, List.filter_cons, Bool.not_true, Bool.false_eq_true, if_false,
          List.map_cons, keep]
        have := ih (k + 1) k' ss hl'
        simp only [retainedAll] at this
        exact this

/-- **C12** projecting a field (integrating out the axes flagged in `remove`) preserves its
integral: the integral of the projected field over the sliced grid equals the integral of the
field over the grid.  Cartesian grids of any dimension and any axis subset; cylindrical grids
projected onto `r` (a polar grid: uses `cyl_volume_identity`) or onto `z`. -/
theorem project_preserves_integral (pi : K) (g : Grid K) (remove : List Bool) (data : List ℕ → K)
    (hl : remove.length = g.axes.length)
    (hc : g.cls = .unit ∨ g.cls = .cartesian ∨
      (g.cls = .cylindrical ∧ g.axes.length = 2 ∧ (remove = [false, true] ∨ remove = [true, false]))) :
    (g.slice (remove.map (!·))).integrateAll pi (g.project pi remove data) = g.integrateAll pi data := by
  unfold Grid.integrateAll Grid.project Grid.integrateSel
  have hfull : g.axisVolsAll pi = allSel (g.axisVols pi remove) := by
    unfold Grid.axisVolsAll
    rw [axisVols_eq_from, axisVols_eq_from, allSel_axisVolsFrom pi g 0 g.axes remove hl]
  rw [hfull, ← integrate_fubini]
  have hret : (g.slice (remove.map (!·))).axisVolsAll pi = retainedAll (g.axisVols pi remove) := by
    unfold Grid.axisVolsAll
    rw [axisVols_eq_from, axisVols_eq_from]
    rcases hc with hc | hc | ⟨hc, hl2, hr⟩
    · have hs : g.slice (remove.map (!·)) = ⟨g.cls, keep g.axes (remove.map (!·))⟩ := by
        unfold Grid.slice; rw [hc]
      rw [retained_cart pi g (g.slice (remove.map (!·))) (Or.inl hc) (by rw [hs]) 0 0 g.axes remove hl, hs]
    · have hs : g.slice (remove.map (!·)) = ⟨g.cls, keep g.axes (remove.map (!·))⟩ := by
        unfold Grid.slice; rw [hc]
      rw [retained_cart pi g (g.slice (remove.map (!·))) (Or.inr hc) (by rw [hs]) 0 0 g.axes remove hl, hs]
    · rcases g with ⟨cls, axes⟩
      simp only at hc hl2
      subst hc
      match axes, hl2 with
      | [r, z], _ =>
        rcases hr with rfl | rfl
        · -- remove z, keep r: polar grid
          simp only [Grid.slice, List.map_cons, List.map_nil, Bool.not_false, Bool.not_true, keep, if_true,
            axisVolsFrom, retainedAll, List.filter_cons, List.filter_nil, Bool.false_eq_true, if_false,
            List.cons.injEq, and_true]
          congr 1
          funext i
          simp only [Grid.volFactor, ballVolume, cellHi, cellLo, if_true]
          rw [half_eq]; push_cast; ring
        · -- remove r, keep z: Cartesian grid
          simp only [Grid.slice, List.map_cons, List.map_nil, Bool.not_false, Bool.not_true, keep, if_true,
            axisVolsFrom, retainedAll, List.filter_cons, List.filter_nil, Bool.false_eq_true, if_false,
            List.cons.injEq, and_true]
          congr 1
  rw [hret]

end
end PdeVerif.Grids
