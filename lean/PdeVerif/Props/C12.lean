import PdeVerif.Model.Grid
import PdeVerif.Model.Volume
import PdeVerif.Model.GridCoords
import PdeVerif.Lemmas.Basic
import PdeVerif.Lemmas.Grid
import Mathlib.Algebra.BigOperators.Intervals
import Mathlib.Algebra.BigOperators.Field
import Mathlib.Algebra.Order.ToIntervalMod
import Mathlib.Data.Rat.Floor
import Mathlib.Tactic.Positivity
import Mathlib.Tactic.NormNum
import Mathlib.Analysis.SpecialFunctions.Integrals.Basic
/-
C12 - grid geometry and coordinate transformations are self-consistent.
Property theorems about `PdeVerif.Grids` (model of pde/grids/{base,cartesian,spherical,
cylindrical}.py, pde/grids/coordinates/*.py, pde/tools/cuboid.py and of
`ScalarField.project`).  Every statement holds for an arbitrary ordered field with floor, every
number of cells, every inner radius, every dimension of a Cartesian grid and every axis subset;
`pi` is an arbitrary element of the field (all volume statements are linear in it).
-/
set_option linter.unusedSectionVars false
namespace PdeVerif.Grids
open PdeVerif

section
variable {K : Type} [Field K] [LinearOrder K] [IsStrictOrderedRing K] [FloorRing K]

/-! ### 1. discretisation: `dx = (hi - lo)/N`, centres at `lo + (i + 1/2) dx` -/

/-- **C12** `dx = (x_max - x_min) / N` -/
theorem dx_def (lo hi : K) (n : ℕ) : dx lo hi n = (hi - lo) / (n : K) := rfl

/-- **C12** the centre of cell `i` lies at `x_min + (i + 1/2) dx` -/
theorem centres (lo hi : K) (n i : ℕ) :
    centre lo hi n i = lo + ((i : K) + 1 / 2) * ((hi - lo) / (n : K)) := by
  unfold centre dx; rw [half_eq]; ring

/-- the whole coordinate array of one axis: `N` entries, entry `i` is the centre of cell `i`
(`centreList`; the grid-level statement about `Grid.axesCoords` / `Grid.discretization`, which is what
the driver evaluates for every class incl. `UnitGrid`, is `grid_centres_and_dx` in section 5b) -/
theorem centres_list (lo hi : K) (n : ℕ) :
    (centreList lo hi n).length = n ∧
      ∀ i (h : i < (centreList lo hi n).length),
        (centreList lo hi n)[i] = lo + ((i : K) + 1 / 2) * ((hi - lo) / (n : K)) := by
  refine ⟨by simp [centreList], ?_⟩
  intro i h
  simp only [centreList, List.getElem_map, List.getElem_range]
  exact centres lo hi n i

/-- the centre lies strictly inside its cell and cells are ordered -/
theorem centre_in_cell (lo hi : K) (n i : ℕ) (h : lo < hi) (hn : n ≠ 0) :
    face lo hi n i < centre lo hi n i ∧ centre lo hi n i < face lo hi n (i + 1) := by
  have hd := dx_pos lo hi n h hn
  unfold face centre; rw [half_eq]; push_cast
  constructor <;> nlinarith

/-- every centre lies inside the bounds -/
theorem centre_in_bounds (lo hi : K) (n i : ℕ) (h : lo < hi) (hi' : i < n) :
    lo < centre lo hi n i ∧ centre lo hi n i < hi := by
  have hn : n ≠ 0 := by omega
  have hd := dx_pos lo hi n h hn
  have hN : (0 : K) < n := Nat.cast_pos.mpr (Nat.pos_of_ne_zero hn)
  have e : hi = lo + (n : K) * dx lo hi n := by unfold dx; field_simp; ring
  have hin : (i : K) + 1 ≤ n := by exact_mod_cast hi'
  have hi0 : (0 : K) ≤ i := Nat.cast_nonneg i
  unfold centre; rw [half_eq]
  constructor
  · nlinarith
  · rw [e] at *
    have : ((i : K) + 1 / 2) * dx lo (lo + ↑n * dx lo hi n) n < ↑n * dx lo hi n := by
      have e2 : dx lo (lo + ↑n * dx lo hi n) n = dx lo hi n := by
        unfold dx; field_simp; ring
      rw [e2]; nlinarith
    linarith

/-- `UnitGrid` is the Cartesian grid with bounds `(0, N)`: literal `dx = 1`, centres `i + 1/2` -/
theorem unit_eq_cartesian (n i : ℕ) (hn : n ≠ 0) :
    (unitDx : K) = dx ((0 : ℕ) : K) (n : K) n ∧ (unitCentre i : K) = centre ((0 : ℕ) : K) (n : K) n i := by
  have : (n : K) ≠ 0 := Nat.cast_ne_zero.mpr hn
  unfold unitDx unitCentre centre dx
  rw [half_eq]
  push_cast
  constructor
  · field_simp; ring
  · field_simp; ring

/-- `Cuboid` orders reversed bounds -/
theorem cuboidBounds_eq (lo hi : K) : cuboidBounds lo hi = (min lo hi, max lo hi) := by
  unfold cuboidBounds
  simp only [Nat.cast_zero]
  split_ifs with h
  · have : hi < lo := by linarith
    rw [min_eq_right this.le, max_eq_left this.le]; ext <;> simp
  · have : lo ≤ hi := by linarith
    rw [min_eq_left this, max_eq_right this]; ext <;> simp

/-! ### 2. cell volumes, their sum, integration and projection -/

/-- the measure primitive of an axis: the exact measure of the part `[a, b]` of the axis (with the
full range of the symmetric angles) is `prim b - prim a`.  Length for Cartesian axes and `z`,
`pi r^2` for polar and cylindrical `r`, `4/3 pi r^3` for spherical `r`. -/
def prim (pi : K) (c : GridClass) (ax : ℕ) (x : K) : K :=
  match c with
  | .unit | .cartesian => x
  | .polar => pi * x ^ 2
  | .spherical => 4 / 3 * pi * x ^ 3
  | .cylindrical => if ax = 0 then pi * x ^ 2 else x

/-- exact measure of an axis between its bounds -/
def axisMeasure (pi : K) (c : GridClass) (ax : ℕ) (a : Axis K) : K := prim pi c ax a.hi - prim pi c ax a.lo

/-- well-formed axis: at least one cell, `lo < hi`; a `UnitGrid` axis is `(0, N)` -/
def Axis.WF (c : GridClass) (a : Axis K) : Prop :=
  a.n ≠ 0 ∧ a.lo < a.hi ∧ (c = .unit → a.lo = 0 ∧ a.hi = (a.n : K))

/-- **C12** `2 pi dr r_i = pi ((r_i + dr/2)^2 - (r_i - dr/2)^2)`: the cylindrical formula is the
exact annulus area -/
theorem cyl_volume_identity (pi r dr : K) :
    2 * pi * dr * r = pi * ((r + dr / 2) ^ 2 - (r - dr / 2) ^ 2) := by ring

/-- **C12** every entry of `cell_volume_data` is the exact measure of its cell
`[lo + i dx, lo + (i+1) dx]` in the grid's coordinate system, for every grid class -/
theorem cell_volumes_exact (pi : K) (g : Grid K) (ax : ℕ) (a : Axis K) (i : ℕ) (h : a.WF g.cls) :
    g.volFactor pi ax a i
      = prim pi g.cls ax (face a.lo a.hi a.n (i + 1)) - prim pi g.cls ax (face a.lo a.hi a.n i) := by
  obtain ⟨hn, _, hu⟩ := h
  have hN : (a.n : K) ≠ 0 := Nat.cast_ne_zero.mpr hn
  unfold Grid.volFactor prim
  cases hc : g.cls <;> simp only
  · -- unit
    obtain ⟨h0, h1⟩ := hu hc
    simp only [Grid.dxOf, hc, unitDx, face, dx, h0, h1]
    push_cast; field_simp; ring
  · simp only [Grid.dxOf, hc, face]; push_cast; ring
  · rw [cellHi_eq_face, cellLo_eq_face]; simp only [ballVolume]; ring
  · rw [cellHi_eq_face, cellLo_eq_face]; simp only [ballVolume]; push_cast; ring
  · split_ifs with h0
    · simp only [face, centre]; rw [half_eq]; push_cast; ring
    · simp only [face]; push_cast; ring

/-- **C12** the volume factors of one axis sum to the exact measure of the axis (telescoping; any
`N`, any inner radius) -/
theorem axis_volumes_sum (pi : K) (g : Grid K) (ax : ℕ) (a : Axis K) (h : a.WF g.cls) :
    sumN a.n (g.volFactor pi ax a) = axisMeasure pi g.cls ax a := by
  have e : ∀ i, g.volFactor pi ax a i
      = (fun j => prim pi g.cls ax (face a.lo a.hi a.n j)) (i + 1)
        - (fun j => prim pi g.cls ax (face a.lo a.hi a.n j)) i :=
    fun i => cell_volumes_exact pi g ax a i h
  rw [sumN_congr _ _ _ (fun i _ => e i)]
  refine (sumN_telescope a.n (fun j => prim pi g.cls ax (face a.lo a.hi a.n j))).trans ?_
  simp only [face_zero, face_last _ _ _ h.1, axisMeasure]

/-- product of the measures of the selected axes of an abstract axis list -/
def selMeasure : List (AxisVol K) → K
  | [] => 1
  | a :: rest => (if a.sel then sumN a.n a.vol else 1) * selMeasure rest

/-- integrating a constant over the selected axes gives the constant times their measures,
whatever the retained multi-index -/
theorem integrate_const (avs : List (AxisVol K)) (c : K) (ret : List ℕ) :
    integrate avs (fun _ => c) ret = selMeasure avs * c := by
  induction avs generalizing ret with
  | nil => simp [integrate, selMeasure]
  | cons a rest ih =>
    unfold integrate selMeasure
    split_ifs with hs
    · simp only [ih]
      rw [show (fun i => a.vol i * (selMeasure rest * c)) = fun i => a.vol i * (selMeasure rest * c) from rfl,
        sumN_mul]
      ring
    · rw [ih]; ring

/-- product of the exact measures of the selected axes of a grid (`enumerate`d from `k`) -/
def selMeasureFrom (pi : K) (c : GridClass) : ℕ → List (Axis K) → List Bool → K
  | k, a :: as, s :: ss => (if s then axisMeasure pi c k a else 1) * selMeasureFrom pi c (k + 1) as ss
  | _, _, _ => 1

/-- `axisVols` written as a recursion over the axes (position counted from `k`) -/
def axisVolsFrom (pi : K) (g : Grid K) : ℕ → List (Axis K) → List Bool → List (AxisVol K)
  | k, a :: as, s :: ss => ⟨a.n, g.volFactor pi k a, s⟩ :: axisVolsFrom pi g (k + 1) as ss
  | _, _, _ => []

theorem axisVols_eq_from_aux (pi : K) (g : Grid K) (k : ℕ) (as : List (Axis K)) (ss : List Bool) :
    (enumFrom k as).zipWith (fun (p : ℕ × Axis K) s => (⟨p.2.n, g.volFactor pi p.1 p.2, s⟩ : AxisVol K)) ss
      = axisVolsFrom pi g k as ss := by
  induction as generalizing k ss with
  | nil => cases ss <;> simp [enumFrom, axisVolsFrom]
  | cons a as ih =>
    cases ss with
    | nil => simp [enumFrom, axisVolsFrom]
    | cons s ss => simp [enumFrom, axisVolsFrom, ih]

theorem axisVols_eq_from (pi : K) (g : Grid K) (sel : List Bool) :
    g.axisVols pi sel = axisVolsFrom pi g 0 g.axes sel :=
  axisVols_eq_from_aux pi g 0 g.axes sel

theorem selMeasure_axisVolsFrom (pi : K) (g : Grid K) (k : ℕ) (as : List (Axis K)) (ss : List Bool)
    (h : ∀ a ∈ as, a.WF g.cls) :
    selMeasure (axisVolsFrom pi g k as ss) = selMeasureFrom pi g.cls k as ss := by
  induction as generalizing k ss with
  | nil => cases ss <;> simp [axisVolsFrom, selMeasure, selMeasureFrom]
  | cons a as ih =>
    cases ss with
    | nil => simp [axisVolsFrom, selMeasure, selMeasureFrom]
    | cons s ss =>
      simp only [axisVolsFrom, selMeasure, selMeasureFrom]
      rw [ih (k + 1) ss (fun b hb => h b (List.mem_cons_of_mem _ hb)),
        axis_volumes_sum pi g k a (h a List.mem_cons_self)]

/-- well-formed grid: every axis is well formed and the class has its number of axes -/
def Grid.WF (g : Grid K) : Prop :=
  (∀ a ∈ g.axes, a.WF g.cls) ∧
    (match g.cls with
     | .polar | .spherical => g.axes.length = 1 ∧ ∀ a ∈ g.axes, 0 ≤ a.lo
     | .cylindrical => g.axes.length = 2 ∧ ∀ a ∈ g.axes.head?, 0 ≤ a.lo
     | _ => True)

/-- **C12** integrating the constant 1 over any subset of the axes (`sel`) returns the product of
the exact measures of the selected axes, at every retained multi-index; all axes selected gives
the measure of the whole grid -/
theorem integrate_one_eq_measure (pi : K) (g : Grid K) (sel : List Bool) (ret : List ℕ)
    (h : ∀ a ∈ g.axes, a.WF g.cls) :
    g.integrateSel pi sel (fun _ => 1) ret = selMeasureFrom pi g.cls 0 g.axes sel := by
  unfold Grid.integrateSel
  rw [integrate_const, axisVols_eq_from, selMeasure_axisVolsFrom pi g 0 g.axes sel h, mul_one]

/-- sum of an array over all multi-indices of a shape -/
def sumIdx : List ℕ → (List ℕ → K) → K
  | [], f => f []
  | n :: ns, f => sumN n (fun i => sumIdx ns (fun idx => f (i :: idx)))

theorem sumIdx_mul_left (ns : List ℕ) (c : K) (f : List ℕ → K) :
    c * sumIdx ns f = sumIdx ns (fun idx => c * f idx) := by
  induction ns generalizing f with
  | nil => simp [sumIdx]
  | cons n ns ih =>
    simp only [sumIdx, sumN_eq_sum, Finset.mul_sum]
    exact Finset.sum_congr rfl fun i _ => ih _

/-- `integrate` over all axes is literally `(data * cell_volumes).sum()`: the sum over all cells of
the product of the per-axis factors times the data -/
theorem integrate_all_eq_sumIdx (avs : List (AxisVol K)) (hall : ∀ a ∈ avs, a.sel = true)
    (data : List ℕ → K) (ret : List ℕ) :
    integrate avs data ret = sumIdx (avs.map (·.n)) (fun idx => prodAt avs idx * data idx) := by
  induction avs generalizing data ret with
  | nil => simp [integrate, sumIdx, prodAt]
  | cons a rest ih =>
    have ha : a.sel = true := hall a List.mem_cons_self
    have hr : ∀ b ∈ rest, b.sel = true := fun b hb => hall b (List.mem_cons_of_mem _ hb)
    simp only [integrate, ha, if_true, List.map_cons, sumIdx]
    refine sumN_congr _ _ _ fun i _ => ?_
    rw [ih hr, sumIdx_mul_left]
    simp only [prodAt, List.headD_cons, List.tail_cons, mul_assoc]

theorem selMeasureFrom_cart (pi : K) (c : GridClass) (hc : c = .unit ∨ c = .cartesian) (k : ℕ)
    (as : List (Axis K)) :
    selMeasureFrom pi c k as (as.map fun _ => true)
      = as.foldr (fun a acc => (a.hi - a.lo) * acc) 1 := by
  induction as generalizing k with
  | nil => simp [selMeasureFrom]
  | cons a as ih =>
    simp only [List.map_cons, selMeasureFrom, if_true, List.foldr_cons, ih]
    rcases hc with rfl | rfl <;> simp [axisMeasure, prim]

/-- `grid.volume` (the closed formula of every class) is the product of the exact measures of the
axes -/
theorem volume_eq_measure (pi : K) (g : Grid K) (h : g.WF) :
    g.volume pi = selMeasureFrom pi g.cls 0 g.axes (g.axes.map fun _ => true) := by
  obtain ⟨_, hc⟩ := h
  unfold Grid.volume
  rcases g with ⟨cls, axes⟩
  cases cls
  · simp only [Nat.cast_one]; exact (selMeasureFrom_cart pi _ (Or.inl rfl) 0 axes).symm
  · simp only [Nat.cast_one]; exact (selMeasureFrom_cart pi _ (Or.inr rfl) 0 axes).symm
  · simp only at hc
    obtain ⟨hl, h0⟩ := hc
    match axes, hl with
    | [a], _ =>
      have ha : 0 ≤ a.lo := h0 a List.mem_cons_self
      simp only [Nat.cast_zero, List.map_cons, List.map_nil, selMeasureFrom, if_true, axisMeasure, prim,
        ballVolume, mul_one]
      split_ifs with hp
      · ring
      · have : a.lo = 0 := le_antisymm (not_lt.mp hp) ha
        rw [this]; ring
  · simp only at hc
    obtain ⟨hl, h0⟩ := hc
    match axes, hl with
    | [a], _ =>
      have ha : 0 ≤ a.lo := h0 a List.mem_cons_self
      simp only [Nat.cast_zero, List.map_cons, List.map_nil, selMeasureFrom, if_true, axisMeasure, prim,
        ballVolume, mul_one]
      push_cast
      split_ifs with hp
      · ring
      · have : a.lo = 0 := le_antisymm (not_lt.mp hp) ha
        rw [this]; ring
  · simp only at hc
    obtain ⟨hl, _⟩ := hc
    match axes, hl with
    | [r, z], _ =>
      simp only [List.map_cons, List.map_nil, selMeasureFrom, if_true, axisMeasure, prim, mul_one]
      simp; ring

theorem axisVolsFrom_all_sel (pi : K) (g : Grid K) (k : ℕ) (as : List (Axis K)) :
    ∀ a ∈ axisVolsFrom pi g k as (as.map fun _ => true), a.sel = true := by
  induction as generalizing k with
  | nil => simp [axisVolsFrom]
  | cons b bs ih =>
    intro a ha
    simp only [List.map_cons, axisVolsFrom, List.mem_cons] at ha
    rcases ha with rfl | ha
    · rfl
    · exact ih (k + 1) a ha

theorem axisVolsFrom_map_n (pi : K) (g : Grid K) (k : ℕ) (as : List (Axis K)) :
    (axisVolsFrom pi g k as (as.map fun _ => true)).map (·.n) = as.map (·.n) := by
  induction as generalizing k with
  | nil => simp [axisVolsFrom]
  | cons b bs ih => simp only [List.map_cons, axisVolsFrom, ih]

/-- **C12** the cell volumes of every grid class sum to the grid volume: `integrate(1)`,
i.e. `cell_volumes.sum()`, equals the closed formula `grid.volume`, for any number of cells and
any inner radius -/
theorem cell_volumes_sum_eq_volume (pi : K) (g : Grid K) (h : g.WF) :
    g.integrateAll pi (fun _ => 1) = g.volume pi ∧
      sumIdx g.shape (g.cellVolume pi) = g.volume pi := by
  have h1 : g.integrateAll pi (fun _ => 1) = g.volume pi := by
    rw [volume_eq_measure pi g h]
    exact integrate_one_eq_measure pi g _ [] h.1
  refine ⟨h1, ?_⟩
  rw [← h1]
  unfold Grid.integrateAll Grid.cellVolume
  have hall : ∀ a ∈ g.axisVolsAll pi, a.sel = true := by
    unfold Grid.axisVolsAll; rw [axisVols_eq_from]; exact axisVolsFrom_all_sel pi g 0 g.axes
  rw [integrate_all_eq_sumIdx _ hall]
  have hshape : (g.axisVolsAll pi).map (·.n) = g.shape := by
    unfold Grid.axisVolsAll Grid.shape; rw [axisVols_eq_from]; exact axisVolsFrom_map_n pi g 0 g.axes
  rw [hshape]
  simp only [mul_one]

/-! #### projection (Fubini for the weighted sums) -/

theorem integrate_linear (avs : List (AxisVol K)) (n : ℕ) (c : ℕ → K) (F : ℕ → List ℕ → K)
    (ret : List ℕ) :
    integrate avs (fun idx => sumN n (fun i => c i * F i idx)) ret
      = sumN n (fun i => c i * integrate avs (F i) ret) := by
  induction avs generalizing F ret with
  | nil => simp [integrate]
  | cons a rest ih =>
    unfold integrate
    split_ifs with hs
    · simp only [ih]
      simp only [sumN_eq_sum, Finset.mul_sum]
      rw [Finset.sum_comm]
      refine Finset.sum_congr rfl fun i _ => Finset.sum_congr rfl fun j _ => ?_
      ring
    · exact ih _ _

/-- the axes that survive a projection, as the sliced grid integrates over them -/
def retainedAll (avs : List (AxisVol K)) : List (AxisVol K) :=
  (avs.filter fun a => !a.sel).map fun a => { a with sel := true }

/-- the same axes, all selected -/
def allSel (avs : List (AxisVol K)) : List (AxisVol K) := avs.map fun a => { a with sel := true }

/-- integrating the projection over the retained axes gives the integral over all axes -/
theorem integrate_fubini (avs : List (AxisVol K)) (data : List ℕ → K) :
    integrate (retainedAll avs) (fun ret => integrate avs data ret) []
      = integrate (allSel avs) data [] := by
  induction avs generalizing data with
  | nil => simp [retainedAll, allSel, integrate]
  | cons a rest ih =>
    by_cases hs : a.sel = true
    · have e1 : retainedAll (a :: rest) = retainedAll rest := by simp [retainedAll, hs]
      rw [e1]
      simp only [integrate, hs, if_true, allSel, List.map_cons]
      rw [integrate_linear]
      refine sumN_congr _ _ _ fun i _ => ?_
      rw [ih]; rfl
    · have hs' : a.sel = false := by simpa using hs
      have e1 : retainedAll (a :: rest) = { a with sel := true } :: retainedAll rest := by
        simp [retainedAll, hs']
      rw [e1]
      simp only [integrate, hs', if_true, allSel, List.map_cons, Bool.false_eq_true, if_false,
        List.headD_cons, List.tail_cons]
      refine sumN_congr _ _ _ fun i _ => ?_
      rw [ih]; rfl

theorem allSel_axisVolsFrom (pi : K) (g : Grid K) (k : ℕ) (as : List (Axis K)) (ss : List Bool)
    (hl : ss.length = as.length) :
    allSel (axisVolsFrom pi g k as ss) = axisVolsFrom pi g k as (as.map fun _ => true) := by
  induction as generalizing k ss with
  | nil => cases ss <;> simp [axisVolsFrom, allSel]
  | cons a as ih =>
    cases ss with
    | nil => simp at hl
    | cons s ss =>
      simp only [axisVolsFrom, allSel, List.map_cons, List.cons.injEq, true_and]
      exact ih (k + 1) ss (by simpa using hl)

/-- for Cartesian classes the retained axes are exactly the axes of the sliced grid -/
theorem retained_cart (pi : K) (g g' : Grid K) (hc : g.cls = .unit ∨ g.cls = .cartesian)
    (hc' : g'.cls = g.cls) (k k' : ℕ) (as : List (Axis K)) (rem : List Bool)
    (hl : rem.length = as.length) :
    retainedAll (axisVolsFrom pi g k as rem)
      = axisVolsFrom pi g' k' (keep as (rem.map (!·))) ((keep as (rem.map (!·))).map fun _ => true) := by
  have hv : ∀ j j' a, g.volFactor pi j a = g'.volFactor pi j' a := by
    intro j j' a
    funext i
    unfold Grid.volFactor Grid.dxOf
    rw [hc']
    rcases hc with h | h <;> simp [h]
  induction as generalizing k k' rem with
  | nil => cases rem <;> simp [axisVolsFrom, retainedAll, keep]
  | cons a as ih =>
    cases rem with
    | nil => simp at hl
    | cons s ss =>
      have hl' : ss.length = as.length := by simpa using hl
      cases s
      · simp only [axisVolsFrom, retainedAll, List.filter_cons, Bool.not_false, if_true, List.map_cons, keep,
          Bool.not_false]
        have := ih (k + 1) (k' + 1) ss hl'
        simp only [retainedAll] at this
        rw [this, hv k k' a]
      · simp only [axisVolsFrom, retainedAll, List.filter_cons, Bool.not_true, Bool.false_eq_true, if_false,
          List.map_cons, keep]
        have := ih (k + 1) k' ss hl'
        simp only [retainedAll] at this
        exact this

/-- **C12** projecting a field (integrating out the axes flagged in `remove`) preserves its
integral: the integral of the projected field over the sliced grid equals the integral of the
field over the grid.  Cartesian grids of any dimension and any axis subset; cylindrical grids
projected onto `r` (a polar grid: uses `cyl_volume_identity`) or onto `z`. -/
theorem project_preserves_integral (pi : K) (g : Grid K) (remove : List Bool) (data : List ℕ → K)
    (hl : remove.length = g.axes.length)
    (hc : g.cls = .unit ∨ g.cls = .cartesian ∨
      (g.cls = .cylindrical ∧ g.axes.length = 2 ∧ (remove = [false, true] ∨ remove = [true, false]))) :
    (g.slice (remove.map (!·))).integrateAll pi (g.project pi remove data) = g.integrateAll pi data := by
  unfold Grid.integrateAll Grid.project Grid.integrateSel
  have hfull : g.axisVolsAll pi = allSel (g.axisVols pi remove) := by
    unfold Grid.axisVolsAll
    rw [axisVols_eq_from, axisVols_eq_from, allSel_axisVolsFrom pi g 0 g.axes remove hl]
  rw [hfull, ← integrate_fubini]
  have hret : (g.slice (remove.map (!·))).axisVolsAll pi = retainedAll (g.axisVols pi remove) := by
    unfold Grid.axisVolsAll
    rw [axisVols_eq_from, axisVols_eq_from]
    rcases hc with hc | hc | ⟨hc, hl2, hr⟩
    · have hs : g.slice (remove.map (!·)) = ⟨g.cls, keep g.axes (remove.map (!·))⟩ := by
        unfold Grid.slice; rw [hc]
      rw [retained_cart pi g (g.slice (remove.map (!·))) (Or.inl hc) (by rw [hs]) 0 0 g.axes remove hl, hs]
    · have hs : g.slice (remove.map (!·)) = ⟨g.cls, keep g.axes (remove.map (!·))⟩ := by
        unfold Grid.slice; rw [hc]
      rw [retained_cart pi g (g.slice (remove.map (!·))) (Or.inr hc) (by rw [hs]) 0 0 g.axes remove hl, hs]
    · rcases g with ⟨cls, axes⟩
      simp only at hc hl2
      subst hc
      match axes, hl2 with
      | [r, z], _ =>
        rcases hr with rfl | rfl
        · -- remove z, keep r: polar grid
          simp only [Grid.slice, List.map_cons, List.map_nil, Bool.not_false, Bool.not_true, keep, if_true,
            axisVolsFrom, retainedAll, List.filter_cons, List.filter_nil, Bool.false_eq_true, if_false,
            List.cons.injEq, and_true]
          congr 1
          funext i
          simp only [Grid.volFactor, ballVolume, cellHi, cellLo, if_true]
          rw [half_eq]; push_cast; ring
        · -- remove r, keep z: Cartesian grid
          simp only [Grid.slice, List.map_cons, List.map_nil, Bool.not_false, Bool.not_true, keep, if_true,
            axisVolsFrom, retainedAll, List.filter_cons, List.filter_nil, Bool.false_eq_true, if_false,
            List.cons.injEq, and_true]
          congr 1
  rw [hret]

/-! ### 3. conversions between cell, grid and Cartesian coordinates -/

/-- **C12** cell -> grid and grid -> cell are mutually inverse along an axis -/
theorem cell_grid_inverse (lo d : K) (hd : d ≠ 0) (c x : K) :
    gridToCell1 lo d (cellToGrid1 lo d c) = c ∧ cellToGrid1 lo d (gridToCell1 lo d x) = x := by
  unfold gridToCell1 cellToGrid1
  constructor <;> field_simp <;> ring

theorem Grid.dxOf_ne_zero (g : Grid K) (a : Axis K) (h : a.WF g.cls) : g.dxOf a ≠ 0 := by
  unfold Grid.dxOf
  cases hc : g.cls <;> simp only
  · simp [unitDx]
  all_goals exact (dx_pos a.lo a.hi a.n h.2.1 h.1).ne'

/-- the same for whole points on a grid of any class and dimension -/
theorem cell_grid_inverse_points (g : Grid K) (h : ∀ a ∈ g.axes, a.WF g.cls) (p : List K)
    (hl : p.length = g.axes.length) :
    g.gridToCell (g.cellToGrid p) = p ∧ g.cellToGrid (g.gridToCell p) = p := by
  unfold Grid.gridToCell Grid.cellToGrid
  generalize g.axes = as at h hl
  induction as generalizing p with
  | nil => cases p <;> simp_all
  | cons a as ih =>
    cases p with
    | nil => simp at hl
    | cons x xs =>
      have hd := g.dxOf_ne_zero a (h a List.mem_cons_self)
      obtain ⟨i1, i2⟩ := ih xs (fun b hb => h b (List.mem_cons_of_mem _ hb)) (by simpa using hl)
      obtain ⟨e1, e2⟩ := cell_grid_inverse a.lo (g.dxOf a) hd x x
      simp only [List.zipWith_cons_cons, i1, i2, e1, e2, and_self]

/-- **C12** the centre of cell `i` has cell coordinate `i + 1/2` -/
theorem centre_maps_to_half_integer (lo hi : K) (n i : ℕ) (h : lo < hi) (hn : n ≠ 0) :
    gridToCell1 lo (dx lo hi n) (centre lo hi n i) = (i : K) + 1 / 2 := by
  have hd := (dx_pos lo hi n h hn).ne'
  unfold gridToCell1 centre; rw [half_eq]; field_simp; ring

/-- the same through `grid.transform` of every class (also `UnitGrid`'s literal centres) -/
theorem centre_maps_to_half_integer_grid (g : Grid K) (a : Axis K) (i : ℕ) (h : a.WF g.cls) :
    gridToCell1 a.lo (g.dxOf a) (g.centreOf a i) = (i : K) + 1 / 2 := by
  unfold Grid.dxOf Grid.centreOf
  cases hc : g.cls <;> simp only
  · obtain ⟨h0, _⟩ := h.2.2 hc
    unfold gridToCell1 unitDx unitCentre; rw [half_eq, h0]; simp
  all_goals exact centre_maps_to_half_integer a.lo a.hi a.n i h.2.1 h.1

/-- **C12** algebraic part of polar <-> Cartesian: the image of `(r, φ)` has squared norm `r^2` -/
theorem cart_polar_roundtrip (r c s : K) (h : c ^ 2 + s ^ 2 = 1) :
    normSq (polarToCart r c s) = r ^ 2 := by
  simp only [polarToCart, normSq]; push_cast
  have : r * c * (r * c) + (r * s * (r * s) + 0) = r ^ 2 * (c ^ 2 + s ^ 2) := by ring
  rw [this, h, mul_one]

theorem cart_cyl_roundtrip (r c s z : K) (h : c ^ 2 + s ^ 2 = 1) :
    normSq ((cylToCart r c s z).take 2) = r ^ 2 ∧ (cylToCart r c s z).drop 2 = [z] := by
  refine ⟨?_, rfl⟩
  simp only [cylToCart, List.take, normSq]; push_cast
  have : r * c * (r * c) + (r * s * (r * s) + 0) = r ^ 2 * (c ^ 2 + s ^ 2) := by ring
  rw [this, h, mul_one]

theorem cart_sph_roundtrip (r ct st cp sp : K) (h1 : ct ^ 2 + st ^ 2 = 1) (h2 : cp ^ 2 + sp ^ 2 = 1) :
    normSq (sphToCart r ct st cp sp) = r ^ 2 := by
  simp only [sphToCart, normSq]; push_cast
  have : r * st * cp * (r * st * cp) + (r * st * sp * (r * st * sp) + (r * ct * (r * ct) + 0))
      = r ^ 2 * (st ^ 2 * (cp ^ 2 + sp ^ 2) + ct ^ 2) := by ring
  rw [this, h2, mul_one, add_comm, h1, mul_one]

/-- a non-negative number is determined by its square (what `hypot`/`norm` must return) -/
theorem radius_unique (r r' : K) (h : 0 ≤ r) (h' : 0 ≤ r') (e : r' ^ 2 = r ^ 2) : r' = r := by
  exact (sq_eq_sq₀ h' h).mp e

/-- grid -> Cartesian -> grid is the identity on the symmetric grids (radius `≥ 0`), for any
`r'` the external `hypot`/`norm` can return (`r' ≥ 0`, `r'^2 = x^2+y^2(+z^2)`) -/
theorem grid_cart_grid (g : Grid K) (r z r' : K) (hr : 0 ≤ r) (hr' : 0 ≤ r') :
    (g.cls = .polar → r' ^ 2 = g.radiusSq (g.toCartesian [r]) →
        g.fromCartesian r' (g.toCartesian [r]) = [r]) ∧
    (g.cls = .spherical → r' ^ 2 = g.radiusSq (g.toCartesian [r]) →
        g.fromCartesian r' (g.toCartesian [r]) = [r]) ∧
    (g.cls = .cylindrical → r' ^ 2 = g.radiusSq (g.toCartesian [r, z]) →
        g.fromCartesian r' (g.toCartesian [r, z]) = [r, z]) := by
  refine ⟨?_, ?_, ?_⟩ <;> intro hc e <;>
    simp only [Grid.toCartesian, Grid.radiusSq, Grid.fromCartesian, hc, polarToCart, sphToCart, cylToCart,
      List.take, normSq, List.drop, List.headD_cons] at e ⊢ <;>
    push_cast at e <;>
    · have : r' = r := radius_unique r r' hr hr' (by rw [e]; ring)
      rw [this]

/-- Cartesian -> grid -> Cartesian is the symmetry projection: it keeps the radius (and `z`) -/
theorem cart_grid_cart (g : Grid K) (x : List K) (r' : K) (e : r' ^ 2 = g.radiusSq x) :
    (g.cls = .polar → g.radiusSq (g.toCartesian (g.fromCartesian r' x)) = g.radiusSq x) ∧
    (g.cls = .spherical → g.radiusSq (g.toCartesian (g.fromCartesian r' x)) = g.radiusSq x) ∧
    (g.cls = .cylindrical → g.radiusSq (g.toCartesian (g.fromCartesian r' x)) = g.radiusSq x ∧
        (g.toCartesian (g.fromCartesian r' x)).drop 2 = [(x.drop 2).headD 0]) ∧
    (g.cls = .unit ∨ g.cls = .cartesian → g.toCartesian (g.fromCartesian r' x) = x) := by
  refine ⟨?_, ?_, ?_, ?_⟩
  · intro hc; rw [← e]
    simp only [Grid.toCartesian, Grid.radiusSq, Grid.fromCartesian, hc, polarToCart, List.take, normSq]
    push_cast; ring
  · intro hc; rw [← e]
    simp only [Grid.toCartesian, Grid.radiusSq, Grid.fromCartesian, hc, sphToCart, List.take, normSq]
    push_cast; ring
  · intro hc; rw [← e]
    simp only [Grid.toCartesian, Grid.radiusSq, Grid.fromCartesian, hc, cylToCart, List.take, normSq,
      List.drop]
    push_cast
    exact ⟨by ring, rfl⟩
  · rintro (hc | hc) <;> simp [Grid.toCartesian, Grid.fromCartesian, hc]

/-! #### containment and random points -/

theorem containsCell_iff (ns : List ℕ) (cs : List K) (hl : cs.length = ns.length) :
    containsCell ns cs = true ↔ ∀ p ∈ ns.zip cs, (0 : K) ≤ p.2 ∧ p.2 ≤ (p.1 : K) := by
  induction ns generalizing cs with
  | nil => cases cs <;> simp [containsCell]
  | cons n ns ih =>
    cases cs with
    | nil => simp at hl
    | cons c cs =>
      simp only [containsCell, Bool.and_eq_true, decide_eq_true_eq, Nat.cast_zero, List.zip_cons_cons,
        List.mem_cons, forall_eq_or_imp, ih cs (by simpa using hl)]

/-- a coordinate within the bounds has a cell coordinate in `[0, N]` -/
theorem cell_coord_in_range (lo hi : K) (n : ℕ) (h : lo < hi) (hn : n ≠ 0) (x : K)
    (h1 : lo ≤ x) (h2 : x ≤ hi) :
    0 ≤ gridToCell1 lo (dx lo hi n) x ∧ gridToCell1 lo (dx lo hi n) x ≤ (n : K) := by
  have hd := dx_pos lo hi n h hn
  have hN : (0 : K) < n := Nat.cast_pos.mpr (Nat.pos_of_ne_zero hn)
  have e : (n : K) * dx lo hi n = hi - lo := by unfold dx; field_simp
  unfold gridToCell1
  constructor
  · exact div_nonneg (by linarith) hd.le
  · rw [div_le_iff₀ hd]; linarith

theorem cell_coord_in_range_grid (g : Grid K) (a : Axis K) (hw : a.WF g.cls) (x : K)
    (h1 : a.lo ≤ x) (h2 : x ≤ a.hi) :
    0 ≤ gridToCell1 a.lo (g.dxOf a) x ∧ gridToCell1 a.lo (g.dxOf a) x ≤ (a.n : K) := by
  have key := cell_coord_in_range a.lo a.hi a.n hw.2.1 hw.1 x h1 h2
  unfold Grid.dxOf
  cases hc : g.cls <;> simp only
  · obtain ⟨h0, h1'⟩ := hw.2.2 hc
    have : (unitDx : K) = dx a.lo a.hi a.n := by
      have := (unit_eq_cartesian (K := K) a.n 0 hw.1).1
      rw [h0, h1']; simpa using this
    rw [this]; exact key
  all_goals exact key

/-- points whose grid coordinates lie within the bounds are contained (every class, every
dimension) -/
theorem contains_of_in_bounds (g : Grid K) (h : ∀ a ∈ g.axes, a.WF g.cls) (p : List K)
    (hl : p.length = g.axes.length) (hb : ∀ q ∈ g.axes.zip p, q.1.lo ≤ q.2 ∧ q.2 ≤ q.1.hi) :
    g.containsGrid p = true := by
  unfold Grid.containsGrid Grid.shape Grid.gridToCell
  generalize g.axes = as at h hl hb
  induction as generalizing p with
  | nil => cases p <;> simp [containsCell]
  | cons a as ih =>
    cases p with
    | nil => simp at hl
    | cons x xs =>
      have hw := h a List.mem_cons_self
      have hx := hb (a, x) (by simp)
      have hrec := ih xs (fun b hb' => h b (List.mem_cons_of_mem _ hb')) (by simpa using hl)
        (fun q hq => hb q (by simp only [List.zip_cons_cons, List.mem_cons]; exact Or.inr hq))
      have key := cell_coord_in_range_grid g a hw x hx.1 hx.2
      simp only [List.map_cons, List.zipWith_cons_cons, containsCell, Bool.and_eq_true, decide_eq_true_eq,
        Nat.cast_zero, hrec, and_true]
      exact key

/-- the Cartesian draw `pos + u * size` of the buffered cuboid respects the boundary distance -/
theorem randomCoord_in_bounds (lo hi b u : K) (hb : 0 ≤ b) (h2 : 2 * b < hi - lo) (hu0 : 0 ≤ u)
    (hu1 : u ≤ 1) :
    lo + b ≤ randomCoord lo hi b u ∧ randomCoord lo hi b u ≤ hi - b := by
  unfold randomCoord; push_cast
  constructor <;> nlinarith

theorem uniformDraw_in_bounds (a b u : K) (hab : a ≤ b) (hu0 : 0 ≤ u) (hu1 : u ≤ 1) :
    a ≤ uniformDraw a b u ∧ uniformDraw a b u ≤ b := by
  unfold uniformDraw
  constructor <;> nlinarith

/-- the radial draw: `r = uniform(r_min^d, r_max^d)^(1/d)`, i.e. any `r ≥ 0` whose `d`-th power is
the uniform draw, lies in `[r_min, r_max]` -/
theorem radial_draw_in_bounds (d : ℕ) (hd : d ≠ 0) (rmin rmax r u : K) (h0 : 0 ≤ rmin)
    (hle : rmin ≤ rmax) (hr : 0 ≤ r) (hu0 : 0 ≤ u) (hu1 : u ≤ 1)
    (e : r ^ d = uniformDraw (rmin ^ d) (rmax ^ d) u) : rmin ≤ r ∧ r ≤ rmax := by
  have hp : rmin ^ d ≤ rmax ^ d := pow_le_pow_left₀ h0 hle d
  obtain ⟨h1, h2⟩ := uniformDraw_in_bounds _ _ u hp hu0 hu1
  rw [← e] at h1 h2
  exact ⟨(pow_le_pow_iff_left₀ h0 hr hd).mp h1, (pow_le_pow_iff_left₀ hr (h0.trans hle) hd).mp h2⟩

/-- **C12** points generated by `get_random_point` are contained in the grid.
Cartesian grids (any dimension): the point `pos + u * size` of the buffered cuboid.
Radial axes: the drawn radius lies in `[r_min, r_max] ⊆ [r_inner, r_outer]`, hence (with
`contains_of_in_bounds`) the point is contained. -/
theorem random_point_contained (g : Grid K) (h : ∀ a ∈ g.axes, a.WF g.cls) (b : K) (us : List K)
    (hb : 0 ≤ b) (hsz : ∀ a ∈ g.axes, 2 * b < a.hi - a.lo) (hl : us.length = g.axes.length)
    (hu : ∀ u ∈ us, 0 ≤ u ∧ u ≤ 1) :
    g.containsGrid (g.axes.zipWith (fun a u => randomCoord a.lo a.hi b u) us) = true := by
  apply contains_of_in_bounds g h
  · simp [hl]
  · intro q hq
    generalize g.axes = as at hsz hl hq
    induction as generalizing us with
    | nil => simp at hq
    | cons a as ih =>
      cases us with
      | nil => simp at hl
      | cons u us =>
        simp only [List.zipWith_cons_cons, List.zip_cons_cons, List.mem_cons] at hq
        rcases hq with rfl | hq
        · obtain ⟨h1, h2⟩ := randomCoord_in_bounds a.lo a.hi b u hb (hsz a List.mem_cons_self)
            (hu u List.mem_cons_self).1 (hu u List.mem_cons_self).2
          constructor <;> simp only <;> linarith
        · exact ih us (fun v hv => hu v (List.mem_cons_of_mem _ hv))
            (fun c hc => hsz c (List.mem_cons_of_mem _ hc)) (by simpa using hl) hq

/-- radial version: a radius drawn by the spherical / cylindrical `get_random_point` is contained -/
theorem random_radius_contained (a : Axis K) (c : GridClass) (hw : a.WF c) (hnu : c ≠ .unit)
    (h0 : 0 ≤ a.lo) (d : ℕ) (hd : d ≠ 0) (b r u : K) (avoid : Bool) (hb : 0 ≤ b)
    (hr : 0 ≤ r) (hu0 : 0 ≤ u) (hu1 : u ≤ 1)
    (hle : (randomRadialBounds a.lo a.hi b avoid).1 ≤ (randomRadialBounds a.lo a.hi b avoid).2)
    (e : r ^ d = uniformDraw ((randomRadialBounds a.lo a.hi b avoid).1 ^ d)
      ((randomRadialBounds a.lo a.hi b avoid).2 ^ d) u) :
    0 ≤ gridToCell1 a.lo (dx a.lo a.hi a.n) r ∧ gridToCell1 a.lo (dx a.lo a.hi a.n) r ≤ (a.n : K) := by
  have hmin : a.lo ≤ (randomRadialBounds a.lo a.hi b avoid).1 := by
    unfold randomRadialBounds; cases avoid <;> simp [hb]
  have hmax : (randomRadialBounds a.lo a.hi b avoid).2 ≤ a.hi := by
    unfold randomRadialBounds; simp [hb]
  obtain ⟨h1, h2⟩ := radial_draw_in_bounds d hd _ _ r u (h0.trans hmin) hle hr hu0 hu1 e
  exact cell_coord_in_range a.lo a.hi a.n hw.2.1 hw.1 r (hmin.trans h1) (h2.trans hmax)

/-- the whole point returned by the polar / spherical / cylindrical `get_random_point`
(`coords="grid"`): radius from the `d`-th root of a uniform draw (`d = 2, 3, 2`), `z` uniform in
`[z_min + b, z_max - b]`; it is contained in the grid -/
theorem random_point_contained_radial (g : Grid K) (h : g.WF) (b r u uz : K) (avoid : Bool)
    (hb : 0 ≤ b) (hr : 0 ≤ r) (hu0 : 0 ≤ u) (hu1 : u ≤ 1) (hz0 : 0 ≤ uz) (hz1 : uz ≤ 1) :
    (∀ a, (g.cls = .polar ∨ g.cls = .spherical) → g.axes = [a] →
      (randomRadialBounds a.lo a.hi b avoid).1 ≤ (randomRadialBounds a.lo a.hi b avoid).2 →
      r ^ g.dim = uniformDraw ((randomRadialBounds a.lo a.hi b avoid).1 ^ g.dim)
        ((randomRadialBounds a.lo a.hi b avoid).2 ^ g.dim) u →
      g.containsGrid [r] = true) ∧
    (∀ a z, g.cls = .cylindrical → g.axes = [a, z] →
      (randomRadialBounds a.lo a.hi b avoid).1 ≤ (randomRadialBounds a.lo a.hi b avoid).2 →
      z.lo + b ≤ z.hi - b →
      r ^ 2 = uniformDraw ((randomRadialBounds a.lo a.hi b avoid).1 ^ 2)
        ((randomRadialBounds a.lo a.hi b avoid).2 ^ 2) u →
      g.containsGrid [r, uniformDraw (z.lo + b) (z.hi - b) uz] = true) := by
  obtain ⟨hw, hc⟩ := h
  have radial : ∀ (a : Axis K) (d : ℕ), d ≠ 0 → a.WF g.cls → 0 ≤ a.lo →
      (randomRadialBounds a.lo a.hi b avoid).1 ≤ (randomRadialBounds a.lo a.hi b avoid).2 →
      r ^ d = uniformDraw ((randomRadialBounds a.lo a.hi b avoid).1 ^ d)
        ((randomRadialBounds a.lo a.hi b avoid).2 ^ d) u → a.lo ≤ r ∧ r ≤ a.hi := by
    intro a d hd _ h0 hle e
    have hmin : a.lo ≤ (randomRadialBounds a.lo a.hi b avoid).1 := by
      unfold randomRadialBounds; cases avoid <;> simp [hb]
    have hmax : (randomRadialBounds a.lo a.hi b avoid).2 ≤ a.hi := by
      unfold randomRadialBounds; simp [hb]
    obtain ⟨h1, h2⟩ := radial_draw_in_bounds d hd _ _ r u (h0.trans hmin) hle hr hu0 hu1 e
    exact ⟨hmin.trans h1, h2.trans hmax⟩
  constructor
  · intro a hcls hax hle e
    have ha : a ∈ g.axes := by rw [hax]; simp
    have h0 : 0 ≤ a.lo := by
      rcases hcls with hc' | hc' <;> rw [hc'] at hc <;> exact hc.2 a ha
    have hd : g.dim ≠ 0 := by
      unfold Grid.dim GridClass.dim; rcases hcls with hc' | hc' <;> rw [hc'] <;> simp
    obtain ⟨h1, h2⟩ := radial a _ hd (hw a ha) h0 hle e
    apply contains_of_in_bounds g hw
    · rw [hax]; rfl
    · intro q hq
      rw [hax] at hq
      simp only [List.zip_cons_cons, List.zip_nil_right, List.mem_cons, List.not_mem_nil, or_false] at hq
      rw [hq]; exact ⟨h1, h2⟩
  · intro a z hcls hax hle hzle e
    have ha : a ∈ g.axes := by rw [hax]; simp
    have hz : z ∈ g.axes := by rw [hax]; simp
    have h0 : 0 ≤ a.lo := by
      rw [hcls] at hc; exact hc.2 a (by rw [hax]; simp)
    obtain ⟨h1, h2⟩ := radial a 2 (by norm_num) (hw a ha) h0 hle e
    obtain ⟨z1, z2⟩ := uniformDraw_in_bounds (z.lo + b) (z.hi - b) uz hzle hz0 hz1
    apply contains_of_in_bounds g hw
    · rw [hax]; rfl
    · intro q hq
      rw [hax] at hq
      simp only [List.zip_cons_cons, List.zip_nil_right, List.mem_cons, List.not_mem_nil, or_false] at hq
      rcases hq with rfl | rfl
      · exact ⟨h1, h2⟩
      · exact ⟨by simp only; linarith, by simp only; linarith⟩

/-! ### 4. normalize_point: periodic wrap and reflection -/

/-- the model's `x % L` is Mathlib's `toIcoMod` with base point 0 -/
theorem pymod_eq_toIcoMod (x L : K) (hL : 0 < L) : pymod x L = toIcoMod hL 0 x := by
  unfold pymod toIcoMod
  rw [toIcoDiv_eq_floor, floor_def, sub_zero, zsmul_eq_mul, mul_comm]

theorem pymod_range (x L : K) (hL : 0 < L) : 0 ≤ pymod x L ∧ pymod x L < L := by
  rw [pymod_eq_toIcoMod x L hL]
  have := toIcoMod_mem_Ico hL 0 x
  rw [zero_add] at this
  exact this

theorem pymod_add_period (x L : K) (hL : 0 < L) (k : ℤ) : pymod (x + k * L) L = pymod x L := by
  rw [pymod_eq_toIcoMod _ L hL, pymod_eq_toIcoMod _ L hL, ← zsmul_eq_mul, toIcoMod_add_zsmul]

/-- characterisation: the unique representative in `[0, L)` -/
theorem pymod_eq_iff (x L c : K) (hL : 0 < L) :
    pymod x L = c ↔ (0 ≤ c ∧ c < L) ∧ ∃ z : ℤ, x = c + z * L := by
  rw [pymod_eq_toIcoMod x L hL, toIcoMod_eq_iff, zero_add]
  simp only [Set.mem_Ico, zsmul_eq_mul]

/-- on a periodic axis `normalize_point` is `toIcoMod` onto `[lo, hi)` -/
theorem normalize_eq_toIcoMod (lo hi x : K) (h : lo < hi) (reflect : Bool) :
    normAxis lo hi true reflect x = toIcoMod (sub_pos.mpr h) lo x := by
  unfold normAxis
  rw [if_pos rfl, pymod_eq_toIcoMod _ _ (sub_pos.mpr h), toIcoMod_sub_eq_sub, zero_add, sub_add_cancel]

/-- **C12** a normalised coordinate of a periodic axis lies in the domain `[lo, hi)` -/
theorem normalize_in_domain (lo hi x : K) (h : lo < hi) (reflect : Bool) :
    lo ≤ normAxis lo hi true reflect x ∧ normAxis lo hi true reflect x < hi := by
  rw [normalize_eq_toIcoMod lo hi x h]
  have := toIcoMod_mem_Ico (sub_pos.mpr h) lo x
  rw [add_sub_cancel] at this
  exact this

/-- **C12** normalising twice is normalising once -/
theorem normalize_idempotent (lo hi x : K) (h : lo < hi) (reflect : Bool) :
    normAxis lo hi true reflect (normAxis lo hi true reflect x) = normAxis lo hi true reflect x := by
  rw [normalize_eq_toIcoMod lo hi _ h, normalize_eq_toIcoMod lo hi x h, toIcoMod_toIcoMod]

/-- **C12** normalising moves a coordinate by a whole number of periods -/
theorem normalize_moves_by_periods (lo hi x : K) (h : lo < hi) (reflect : Bool) :
    ∃ k : ℤ, normAxis lo hi true reflect x = x + k * (hi - lo) := by
  rw [normalize_eq_toIcoMod lo hi x h]
  refine ⟨-toIcoDiv (sub_pos.mpr h) lo x, ?_⟩
  have := self_sub_toIcoMod (sub_pos.mpr h) lo x
  rw [zsmul_eq_mul] at this
  push_cast; linarith

/-- points of the domain are not moved, and period images are identified -/
theorem normalize_fixes_domain (lo hi x : K) (h : lo < hi) (reflect : Bool) (h1 : lo ≤ x) (h2 : x < hi) :
    normAxis lo hi true reflect x = x := by
  rw [normalize_eq_toIcoMod lo hi x h, toIcoMod_eq_self]
  exact ⟨h1, by rw [add_sub_cancel]; exact h2⟩

theorem normalize_period_shift (lo hi x : K) (h : lo < hi) (reflect : Bool) (k : ℤ) :
    normAxis lo hi true reflect (x + k * (hi - lo)) = normAxis lo hi true reflect x := by
  rw [normalize_eq_toIcoMod lo hi _ h, normalize_eq_toIcoMod lo hi x h, ← zsmul_eq_mul, toIcoMod_add_zsmul]

/-- without periodicity and without `reflect` nothing happens -/
theorem normalize_noop (lo hi x : K) : normAxis lo hi false false x = x := by
  simp [normAxis]

theorem absK_eq_abs (x : K) : absK x = |x| := by
  unfold absK
  simp only [Nat.cast_zero]
  split_ifs with h
  · exact (abs_of_neg h).symm
  · exact (abs_of_nonneg (not_lt.mp h)).symm

/-- **C12** a reflected coordinate lies in the closed domain `[lo, hi]` -/
theorem reflect_in_domain (lo hi x : K) (h : lo < hi) :
    lo ≤ normAxis lo hi false true x ∧ normAxis lo hi false true x ≤ hi := by
  have hL : 0 < 2 * (hi - lo) := by linarith
  obtain ⟨h1, h2⟩ := pymod_range (x - hi) (2 * (hi - lo)) hL
  simp only [normAxis, Bool.false_eq_true, if_false, if_true, absK_eq_abs, Nat.cast_ofNat]
  have : |pymod (x - hi) (2 * (hi - lo)) - (hi - lo)| ≤ hi - lo := by
    rw [abs_le]; constructor <;> linarith
  constructor
  · linarith [abs_nonneg (pymod (x - hi) (2 * (hi - lo)) - (hi - lo))]
  · linarith

/-- points of the closed domain are not moved by the reflection -/
theorem reflect_fixes_domain (lo hi x : K) (h : lo < hi) (h1 : lo ≤ x) (h2 : x ≤ hi) :
    normAxis lo hi false true x = x := by
  have hL : 0 < 2 * (hi - lo) := by linarith
  simp only [normAxis, Bool.false_eq_true, if_false, if_true, absK_eq_abs, Nat.cast_ofNat]
  rcases eq_or_lt_of_le h2 with rfl | hlt
  · have : pymod (x - x) (2 * (x - lo)) = 0 := by
      rw [pymod_eq_iff _ _ _ hL]; exact ⟨⟨le_refl _, hL⟩, 0, by simp⟩
    rw [this, zero_sub, abs_neg, abs_of_pos (by linarith)]; ring
  · have : pymod (x - hi) (2 * (hi - lo)) = x - hi + 2 * (hi - lo) := by
      rw [pymod_eq_iff _ _ _ hL]
      exact ⟨⟨by linarith, by linarith⟩, -1, by push_cast; ring⟩
    rw [this, abs_of_nonneg (by linarith)]; ring

/-- **C12** reflecting twice is reflecting once -/
theorem reflect_idempotent (lo hi x : K) (h : lo < hi) :
    normAxis lo hi false true (normAxis lo hi false true x) = normAxis lo hi false true x := by
  obtain ⟨h1, h2⟩ := reflect_in_domain lo hi x h
  exact reflect_fixes_domain lo hi _ h h1 h2

/-- the reflected coordinate is the image of `x` under a translation by an even number of domain
lengths, possibly composed with the reflection about `lo` (mirror images of the domain) -/
theorem reflect_moves_by_reflections (lo hi x : K) :
    ∃ k : ℤ, normAxis lo hi false true x = x + k * (2 * (hi - lo)) ∨
      normAxis lo hi false true x = 2 * lo - x + k * (2 * (hi - lo)) := by
  simp only [normAxis, Bool.false_eq_true, if_false, if_true, absK_eq_abs, Nat.cast_ofNat, pymod, floor_def]
  set f : ℤ := ⌊(x - hi) / (2 * (hi - lo))⌋ with hf
  by_cases hy : 0 ≤ x - hi - 2 * (hi - lo) * (f : K) - (hi - lo)
  · refine ⟨-1 - f, Or.inl ?_⟩
    rw [abs_of_nonneg hy]; push_cast; ring
  · refine ⟨1 + f, Or.inr ?_⟩
    rw [abs_of_neg (not_le.mp hy)]; push_cast; ring

/-- whole points: `grid.normalize_point` puts every periodic coordinate into `[lo, hi)`, every
other coordinate into `[lo, hi]` when `reflect` is set, and leaves the rest alone -/
theorem normalizePoint_in_domain (g : Grid K) (h : ∀ a ∈ g.axes, a.lo < a.hi) (reflect : Bool)
    (p : List K) :
    ∀ q ∈ g.axes.zip (g.normalizePoint reflect p),
      (q.1.periodic = true → q.1.lo ≤ q.2 ∧ q.2 < q.1.hi) ∧
      (q.1.periodic = false → reflect = true → q.1.lo ≤ q.2 ∧ q.2 ≤ q.1.hi) := by
  unfold Grid.normalizePoint
  generalize g.axes = as at h
  induction as generalizing p with
  | nil => simp
  | cons a as ih =>
    cases p with
    | nil => simp
    | cons x xs =>
      intro q hq
      simp only [List.zipWith_cons_cons, List.zip_cons_cons, List.mem_cons] at hq
      rcases hq with rfl | hq
      · have hlt := h a List.mem_cons_self
        refine ⟨fun hp => ?_, fun hp hr => ?_⟩
        · have hp' : a.periodic = true := hp
          show a.lo ≤ normAxis a.lo a.hi a.periodic reflect x ∧ normAxis a.lo a.hi a.periodic reflect x < a.hi
          rw [hp']; exact normalize_in_domain a.lo a.hi x hlt reflect
        · have hp' : a.periodic = false := hp
          show a.lo ≤ normAxis a.lo a.hi a.periodic reflect x ∧ normAxis a.lo a.hi a.periodic reflect x ≤ a.hi
          rw [hp', hr]; exact reflect_in_domain a.lo a.hi x hlt
      · exact ih xs (fun b hb => h b (List.mem_cons_of_mem _ hb)) q hq

theorem normAxis_idem (lo hi x : K) (h : lo < hi) (per reflect : Bool) :
    normAxis lo hi per reflect (normAxis lo hi per reflect x) = normAxis lo hi per reflect x := by
  cases per
  · cases reflect
    · simp [normAxis]
    · exact reflect_idempotent lo hi x h
  · exact normalize_idempotent lo hi x h reflect

/-- whole points: normalising is idempotent on every grid (any class, dimension, flags) -/
theorem normalizePoint_idempotent (g : Grid K) (h : ∀ a ∈ g.axes, a.lo < a.hi) (reflect : Bool)
    (p : List K) :
    g.normalizePoint reflect (g.normalizePoint reflect p) = g.normalizePoint reflect p := by
  unfold Grid.normalizePoint
  generalize g.axes = as at h
  induction as generalizing p with
  | nil => simp
  | cons a as ih =>
    cases p with
    | nil => simp
    | cons x xs =>
      simp only [List.zipWith_cons_cons, normAxis_idem a.lo a.hi x (h a List.mem_cons_self),
        ih xs (fun b hb => h b (List.mem_cons_of_mem _ hb))]

/-! ### 5. wrapped differences and distances -/

theorem wrap_def (d L : K) : wrap d L = pymod (d + L / 2) L - L / 2 := by
  unfold wrap; push_cast; rfl

theorem wrap_range (d L : K) (hL : 0 < L) : -(L / 2) ≤ wrap d L ∧ wrap d L < L / 2 := by
  obtain ⟨h1, h2⟩ := pymod_range (d + L / 2) L hL
  rw [wrap_def]; constructor <;> linarith

/-- **C12** a wrapped difference never uses more than half a period -/
theorem wrap_abs_le_half_period (d L : K) (hL : 0 < L) : |wrap d L| ≤ L / 2 := by
  obtain ⟨h1, h2⟩ := wrap_range d L hL
  rw [abs_le]; exact ⟨h1, h2.le⟩

/-- the wrapped difference is the raw difference modulo the period -/
theorem wrap_moves_by_periods (d L : K) : ∃ k : ℤ, wrap d L = d + k * L := by
  refine ⟨-⌊(d + L / 2) / L⌋, ?_⟩
  rw [wrap_def]; unfold pymod; rw [floor_def]; push_cast; ring

/-- the wrapped difference is the *unique* representative in `[-L/2, L/2)` -/
theorem wrap_unique (d L w : K) (hL : 0 < L) (h1 : -(L / 2) ≤ w) (h2 : w < L / 2) (k : ℤ)
    (e : w = d + k * L) : wrap d L = w := by
  have : pymod (d + L / 2) L = w + L / 2 := by
    rw [pymod_eq_iff _ _ _ hL]
    exact ⟨⟨by linarith, by linarith⟩, -k, by rw [e]; push_cast; ring⟩
  rw [wrap_def, this]; ring

/-- **C12** the wrapped difference is invariant under period shifts (of either point) -/
theorem wrap_invariant_under_period_shift (d L : K) (hL : 0 < L) (k : ℤ) :
    wrap (d + k * L) L = wrap d L := by
  rw [wrap_def, wrap_def, show d + k * L + L / 2 = (d + L / 2) + k * L by ring, pymod_add_period _ _ hL]

theorem wrap_of_small (d L : K) (hL : 0 < L) (h1 : -(L / 2) ≤ d) (h2 : d < L / 2) : wrap d L = d :=
  wrap_unique d L d hL h1 h2 0 (by simp)

/-- the tie: a raw difference of exactly half a period wraps to `-L/2` in both directions -/
theorem wrap_tie (L : K) (hL : 0 < L) : wrap (L / 2) L = -(L / 2) ∧ wrap (-(L / 2)) L = -(L / 2) :=
  ⟨wrap_unique _ L _ hL (le_refl _) (by linarith) (-1) (by push_cast; ring),
   wrap_of_small _ L hL (le_refl _) (by linarith)⟩

/-- swapping the two points negates the wrapped difference except at the tie, where both are
`-L/2`; the square (hence the distance) is always the same -/
theorem wrap_neg_sq (d L : K) (hL : 0 < L) : wrap (-d) L * wrap (-d) L = wrap d L * wrap d L := by
  obtain ⟨h1, h2⟩ := wrap_range d L hL
  obtain ⟨k, hk⟩ := wrap_moves_by_periods d L
  have e : -d = -wrap d L + k * L := by rw [hk]; ring
  rw [e, wrap_invariant_under_period_shift _ L hL]
  rcases eq_or_lt_of_le h1 with h | h
  · rw [← h, neg_neg, (wrap_tie L hL).1]
  · rw [wrap_of_small _ L hL (by linarith) (by linarith)]; ring

/-- minimum image: no period image of the raw difference is shorter than the wrapped one -/
theorem wrap_min_image (d L : K) (hL : 0 < L) (k : ℤ) : |wrap d L| ≤ |d + k * L| := by
  obtain ⟨k0, hk⟩ := wrap_moves_by_periods d L
  have hw := wrap_abs_le_half_period d L hL
  by_cases hm : k = k0
  · rw [hm, ← hk]
  · have hm' : k - k0 ≠ 0 := sub_ne_zero.mpr hm
    have h1 : (1 : K) ≤ |((k - k0 : ℤ) : K)| := by
      rw [← Int.cast_abs]; exact_mod_cast Int.one_le_abs hm'
    have e : d + k * L = wrap d L + ((k - k0 : ℤ) : K) * L := by rw [hk]; push_cast; ring
    have h2 : |((k - k0 : ℤ) : K) * L| ≤ |d + k * L| + |wrap d L| := by
      have := abs_sub (d + k * L) (wrap d L)
      rw [e, add_sub_cancel_left] at this
      rw [e]; exact this
    rw [abs_mul, abs_of_pos hL] at h2
    nlinarith

theorem normSq_neg (ds : List K) : normSq (ds.map Neg.neg) = normSq ds := by
  induction ds with
  | nil => rfl
  | cons d ds ih => simp only [List.map_cons, normSq, ih]; ring

theorem wrapComponents_neg (ps : List Bool) (bs : List (K × K)) (ds : List K)
    (hb : ∀ b ∈ bs, b.1 < b.2) :
    normSq (wrapComponents ps bs (ds.map Neg.neg)) = normSq (wrapComponents ps bs ds) := by
  induction ps generalizing bs ds with
  | nil => simp only [wrapComponents]; exact normSq_neg ds
  | cons per ps ih =>
    cases bs with
    | nil => simp only [wrapComponents]; exact normSq_neg ds
    | cons b bs =>
      cases ds with
      | nil => simp [wrapComponents]
      | cons d ds =>
        have hL : 0 < b.2 - b.1 := sub_pos.mpr (hb b List.mem_cons_self)
        simp only [List.map_cons, wrapComponents, normSq,
          ih bs ds (fun c hc => hb c (List.mem_cons_of_mem _ hc))]
        cases per
        · simp
        · simp only [if_true]; rw [wrap_neg_sq d _ hL]

theorem zipWith_sub_swap (x1 x2 : List K) :
    List.zipWith (fun b a => b - a) x1 x2 = (List.zipWith (fun b a => b - a) x2 x1).map Neg.neg := by
  induction x1 generalizing x2 with
  | nil => simp
  | cons a as ih =>
    cases x2 with
    | nil => simp
    | cons b bs => simp only [List.zipWith_cons_cons, List.map_cons, ih bs, neg_sub]

theorem Grid.diffBounds_pos (g : Grid K) (h : ∀ a ∈ g.axes, a.lo < a.hi) :
    ∀ b ∈ g.diffBounds, b.1 < b.2 := by
  unfold Grid.diffBounds
  split
  · rename_i r z hcls haxes
    intro b hb
    have hz : z.lo < z.hi := h z (by rw [haxes]; simp)
    simp only [List.mem_cons, List.not_mem_nil, or_false, or_self] at hb
    rw [hb]; exact hz
  · intro b hb
    obtain ⟨a, ha, rfl⟩ := List.mem_map.mp hb
    exact h a ha

/-- **C12** distances are symmetric, on every grid class, in every dimension, for every pair of
points - including the tie where the raw difference is exactly half a period (`wrap_tie`) -/
theorem distance_symmetric (g : Grid K) (h : ∀ a ∈ g.axes, a.lo < a.hi) (x1 x2 : List K) :
    g.distSq x1 x2 = g.distSq x2 x1 ∧ g.distSqGrid x1 x2 = g.distSqGrid x2 x1 := by
  have key : ∀ y1 y2 : List K, g.distSq y1 y2 = g.distSq y2 y1 := by
    intro y1 y2
    unfold Grid.distSq Grid.differenceVector diffVec
    rw [zipWith_sub_swap y2 y1, wrapComponents_neg _ _ _ (g.diffBounds_pos h)]
  exact ⟨key x1 x2, key _ _⟩

/-- shift the components that are flagged periodic by whole multiples of their periods -/
def shiftPeriodic : List Bool → List (K × K) → List ℤ → List K → List K
  | per :: ps, b :: bs, k :: ks, d :: ds =>
    (if per then d + (k : K) * (b.2 - b.1) else d) :: shiftPeriodic ps bs ks ds
  | _, _, _, ds => ds

theorem wrapComponents_shift (ps : List Bool) (bs : List (K × K)) (ks : List ℤ) (ds : List K)
    (hb : ∀ b ∈ bs, b.1 < b.2) :
    wrapComponents ps bs (shiftPeriodic ps bs ks ds) = wrapComponents ps bs ds := by
  induction ps generalizing bs ks ds with
  | nil => simp [shiftPeriodic]
  | cons per ps ih =>
    cases bs with
    | nil => simp [shiftPeriodic]
    | cons b bs =>
      cases ks with
      | nil => simp [shiftPeriodic]
      | cons k ks =>
        cases ds with
        | nil => simp [shiftPeriodic]
        | cons d ds =>
          have hL : 0 < b.2 - b.1 := sub_pos.mpr (hb b List.mem_cons_self)
          simp only [shiftPeriodic, wrapComponents, ih bs ks ds (fun c hc => hb c (List.mem_cons_of_mem _ hc))]
          cases per
          · simp
          · simp only [if_true]; rw [wrap_invariant_under_period_shift d _ hL k]

theorem zipWith_sub_shift (ps : List Bool) (bs : List (K × K)) (ks : List ℤ) (x2 x1 : List K) :
    List.zipWith (fun b a => b - a) (shiftPeriodic ps bs ks x2) x1
      = shiftPeriodic ps bs ks (List.zipWith (fun b a => b - a) x2 x1) := by
  induction ps generalizing bs ks x2 x1 with
  | nil => simp [shiftPeriodic]
  | cons per ps ih =>
    cases bs with
    | nil => simp [shiftPeriodic]
    | cons b bs =>
      cases ks with
      | nil => simp [shiftPeriodic]
      | cons k ks =>
        cases x2 with
        | nil => simp [shiftPeriodic]
        | cons d ds =>
          cases x1 with
          | nil => simp [shiftPeriodic]
          | cons e es =>
            simp only [shiftPeriodic, List.zipWith_cons_cons, ih bs ks ds es]
            cases per
            · simp
            · simp only [if_true]; congr 1; ring

/-- **C12** distances and difference vectors are invariant under period shifts of either point
(any whole number of periods along every periodic Cartesian component at once) -/
theorem distance_invariant_under_period_shift (g : Grid K) (h : ∀ a ∈ g.axes, a.lo < a.hi)
    (x1 x2 : List K) (ks : List ℤ) :
    g.differenceVector x1 (shiftPeriodic g.diffFlags g.diffBounds ks x2) = g.differenceVector x1 x2 ∧
    g.distSq x1 (shiftPeriodic g.diffFlags g.diffBounds ks x2) = g.distSq x1 x2 ∧
    g.distSq (shiftPeriodic g.diffFlags g.diffBounds ks x1) x2 = g.distSq x1 x2 := by
  have key : ∀ y1 y2 : List K,
      g.differenceVector y1 (shiftPeriodic g.diffFlags g.diffBounds ks y2) = g.differenceVector y1 y2 := by
    intro y1 y2
    unfold Grid.differenceVector diffVec
    rw [zipWith_sub_shift, wrapComponents_shift _ _ _ _ (g.diffBounds_pos h)]
  refine ⟨key x1 x2, ?_, ?_⟩
  · unfold Grid.distSq; rw [key]
  · rw [(distance_symmetric g h _ x2).1, (distance_symmetric g h x1 x2).1]
    unfold Grid.distSq; rw [key]

/-- component `j` of the wrap loop: wrapped iff flag `j` is set (and bound `j` exists), with the
period taken from bound `j` - flags, bounds and components are paired by position -/
theorem wrapComponents_getElem? (ps : List Bool) (bs : List (K × K)) (ds : List K) (j : ℕ) :
    (wrapComponents ps bs ds)[j]? = (ds[j]?).map (fun d =>
      match ps[j]?, bs[j]? with
      | some true, some b => wrap d (b.2 - b.1)
      | _, _ => d) := by
  induction ps generalizing bs ds j with
  | nil => simp [wrapComponents]
  | cons per ps ih =>
    cases bs with
    | nil =>
      simp only [wrapComponents, List.getElem?_nil]
      cases ds[j]? <;> simp
    | cons b bs =>
      cases ds with
      | nil => simp [wrapComponents]
      | cons d ds =>
        cases j with
        | zero => cases per <;> simp [wrapComponents]
        | succ j => simp only [wrapComponents, List.getElem?_cons_succ, ih bs ds j]

/-- the grid axis whose own coordinate is the Cartesian component `j`: axis `j` on Cartesian
grids, the axial axis (1) for the third component of a cylindrical grid, none otherwise -/
def axisOfComponent (c : GridClass) (j : ℕ) : Option ℕ :=
  match c with
  | .unit | .cartesian => some j
  | .cylindrical => if j = 2 then some 1 else none
  | .polar | .spherical => none

/-- **C12** on every grid class the Cartesian component that is wrapped is the component of a
periodic grid axis, and it is wrapped with the period of *that* axis; every other component is
the plain difference.  In particular the periodic axial direction of a cylindrical grid wraps the
third Cartesian component with the `z` period (fix F3 of the real code). -/
theorem periodic_flag_pairs_with_its_axis (g : Grid K)
    (hs : (g.cls = .polar ∨ g.cls = .spherical → g.axes.length = 1) ∧
      (g.cls = .cylindrical → g.axes.length = 2))
    (x1 x2 : List K) (j : ℕ) :
    (g.differenceVector x1 x2)[j]? = ((List.zipWith (fun b a => b - a) x2 x1)[j]?).map (fun d =>
      match (axisOfComponent g.cls j).bind (fun ax => g.axes[ax]?) with
      | some a => if a.periodic then wrap d (a.hi - a.lo) else d
      | none => d) := by
  unfold Grid.differenceVector diffVec
  rw [wrapComponents_getElem?]
  congr 1
  funext d
  rcases g with ⟨cls, axes⟩
  obtain ⟨hs1, hs2⟩ := hs
  simp only at hs1 hs2
  cases cls
  · -- unit
    simp only [Grid.diffFlags, Grid.diffBounds, axisOfComponent, List.getElem?_map, Option.bind_some]
    cases axes[j]? with
    | none => simp
    | some a => cases hp : a.periodic <;> simp [hp]
  · -- cartesian
    simp only [Grid.diffFlags, Grid.diffBounds, axisOfComponent, List.getElem?_map, Option.bind_some]
    cases axes[j]? with
    | none => simp
    | some a => cases hp : a.periodic <;> simp [hp]
  · -- polar
    have hl := hs1 (Or.inl rfl)
    match axes, hl with
    | [a], _ =>
      simp only [Grid.diffFlags, Grid.diffBounds, axisOfComponent, GridClass.dim, Option.bind_none]
      rcases j with _ | _ | j <;> simp [List.replicate]
  · -- spherical
    have hl := hs1 (Or.inr rfl)
    match axes, hl with
    | [a], _ =>
      simp only [Grid.diffFlags, Grid.diffBounds, axisOfComponent, GridClass.dim, Option.bind_none]
      rcases j with _ | _ | _ | j <;> simp [List.replicate]
  · -- cylindrical
    have hl := hs2 rfl
    match axes, hl with
    | [r, z], _ =>
      simp only [Grid.diffFlags, Grid.diffBounds, axisOfComponent]
      rcases j with _ | _ | _ | j
      · simp
      · simp
      · cases hp : z.periodic <;> simp [hp]
      · simp

/-- readable special case: the three components of a cylindrical difference vector -/
theorem cyl_difference_vector (r z : Axis K) (a1 b1 c1 a2 b2 c2 : K) :
    (⟨.cylindrical, [r, z]⟩ : Grid K).differenceVector [a1, b1, c1] [a2, b2, c2]
      = [a2 - a1, b2 - b1, if z.periodic then wrap (c2 - c1) (z.hi - z.lo) else c2 - c1] := by
  simp [Grid.differenceVector, diffVec, Grid.diffFlags, Grid.diffBounds, wrapComponents]

/-- along every periodic axis of every grid class the difference vector uses at most half a
period, and it is a minimum image -/
theorem difference_component_le_half_period (g : Grid K) (h : ∀ a ∈ g.axes, a.lo < a.hi)
    (hs : (g.cls = .polar ∨ g.cls = .spherical → g.axes.length = 1) ∧
      (g.cls = .cylindrical → g.axes.length = 2))
    (x1 x2 : List K) (j ax : ℕ) (a : Axis K) (c : K)
    (hax : axisOfComponent g.cls j = some ax) (ha : g.axes[ax]? = some a) (hp : a.periodic = true)
    (hc : (g.differenceVector x1 x2)[j]? = some c) :
    |c| ≤ (a.hi - a.lo) / 2 ∧
      ∃ d, (List.zipWith (fun b a => b - a) x2 x1)[j]? = some d ∧ ∀ k : ℤ, |c| ≤ |d + k * (a.hi - a.lo)| := by
  rw [periodic_flag_pairs_with_its_axis g hs x1 x2 j, hax] at hc
  simp only [Option.bind_some, ha, hp, if_true] at hc
  have hL : 0 < a.hi - a.lo := sub_pos.mpr (h a (List.mem_of_getElem? ha))
  cases hd : (List.zipWith (fun b a => b - a) x2 x1)[j]? with
  | none => rw [hd] at hc; simp at hc
  | some d =>
    rw [hd] at hc
    simp only [Option.map_some, Option.some.injEq] at hc
    subst hc
    exact ⟨wrap_abs_le_half_period d _ hL, d, rfl, fun k => wrap_min_image d _ hL k⟩

/-! ### 5b. grid-level statements and compositions: the definitions the driver evaluates

#### `grid.discretization` and `grid.axes_coords` -/

theorem Grid.dxOf_eq (g : Grid K) (a : Axis K) (h : a.WF g.cls) :
    g.dxOf a = (a.hi - a.lo) / (a.n : K) := by
  unfold Grid.dxOf
  cases hc : g.cls <;> simp only
  · obtain ⟨h0, h1⟩ := h.2.2 hc
    have hn : (a.n : K) ≠ 0 := Nat.cast_ne_zero.mpr h.1
    rw [h0, h1, sub_zero, div_self hn]; simp [unitDx]
  all_goals rfl

theorem Grid.centreOf_eq (g : Grid K) (a : Axis K) (i : ℕ) (h : a.WF g.cls) :
    g.centreOf a i = a.lo + ((i : K) + 1 / 2) * ((a.hi - a.lo) / (a.n : K)) := by
  unfold Grid.centreOf
  cases hc : g.cls <;> simp only
  · obtain ⟨h0, h1⟩ := h.2.2 hc
    have hn : (a.n : K) ≠ 0 := Nat.cast_ne_zero.mpr h.1
    rw [h0, h1, sub_zero, div_self hn]; unfold unitCentre; rw [half_eq]; ring
  all_goals exact centres a.lo a.hi a.n i

/-- **C12** grid level (what `grid.discretization` and `grid.axes_coords` return, every class
including `UnitGrid`'s literals): axis `ax` has spacing `(hi - lo)/N` and `N` centres, centre `i`
at `lo + (i + 1/2) dx` -/
theorem grid_centres_and_dx (g : Grid K) (h : ∀ a ∈ g.axes, a.WF g.cls) (ax : ℕ) (a : Axis K)
    (ha : g.axes[ax]? = some a) :
    g.discretization[ax]? = some ((a.hi - a.lo) / (a.n : K)) ∧
      ∃ cs, g.axesCoords[ax]? = some cs ∧ cs.length = a.n ∧
        ∀ i (hi : i < cs.length), cs[i] = a.lo + ((i : K) + 1 / 2) * ((a.hi - a.lo) / (a.n : K)) := by
  have hw := h a (List.mem_of_getElem? ha)
  refine ⟨?_, (List.range a.n).map (g.centreOf a), ?_, by simp, ?_⟩
  · simp only [Grid.discretization, List.getElem?_map, ha, Option.map_some, g.dxOf_eq a hw]
  · simp only [Grid.axesCoords, List.getElem?_map, ha, Option.map_some]
  · intro i hi
    simp only [List.getElem_map, List.getElem_range]
    exact g.centreOf_eq a i hw


/-! #### compositions cell <-> Cartesian -/

/-- grid -> Cartesian -> grid is the identity for whole points of every class (list level) -/
theorem grid_cart_grid_points (g : Grid K) (h : g.WF) (p : List K) (hl : p.length = g.axes.length)
    (hr : (g.cls = .unit ∨ g.cls = .cartesian) ∨ ∀ r ∈ p.head?, 0 ≤ r) (r' : K) (hr' : 0 ≤ r')
    (e : r' ^ 2 = g.radiusSq (g.toCartesian p)) :
    g.fromCartesian r' (g.toCartesian p) = p := by
  obtain ⟨_, hc⟩ := h
  cases hcls : g.cls
  · simp [Grid.toCartesian, Grid.fromCartesian, hcls]
  · simp [Grid.toCartesian, Grid.fromCartesian, hcls]
  · rw [hcls] at hc
    have h1 : p.length = 1 := by rw [hl]; exact hc.1
    match p, h1 with
    | [r], _ =>
      have hr0 : 0 ≤ r := by
        rcases hr with (hu | hu) | hr
        · rw [hcls] at hu; cases hu
        · rw [hcls] at hu; cases hu
        · exact hr r (by simp)
      exact (grid_cart_grid g r 0 r' hr0 hr').1 hcls e
  · rw [hcls] at hc
    have h1 : p.length = 1 := by rw [hl]; exact hc.1
    match p, h1 with
    | [r], _ =>
      have hr0 : 0 ≤ r := by
        rcases hr with (hu | hu) | hr
        · rw [hcls] at hu; cases hu
        · rw [hcls] at hu; cases hu
        · exact hr r (by simp)
      exact (grid_cart_grid g r 0 r' hr0 hr').2.1 hcls e
  · rw [hcls] at hc
    have h2 : p.length = 2 := by rw [hl]; exact hc.1
    match p, h2 with
    | [r, z], _ =>
      have hr0 : 0 ≤ r := by
        rcases hr with (hu | hu) | hr
        · rw [hcls] at hu; cases hu
        · rw [hcls] at hu; cases hu
        · exact hr r (by simp)
      exact (grid_cart_grid g r z r' hr0 hr').2.2 hcls e

/-- **C12** cell -> Cartesian -> cell is the identity (every class; on the symmetric grids for
cell coordinates whose radius is `≥ 0`, for any value `r' ≥ 0` with the right square that the
external `hypot`/`norm` returns) -/
theorem cell_cart_cell (g : Grid K) (h : g.WF) (c : List K) (hl : c.length = g.axes.length)
    (hr : (g.cls = .unit ∨ g.cls = .cartesian) ∨ ∀ r ∈ (g.cellToGrid c).head?, 0 ≤ r) (r' : K)
    (hr' : 0 ≤ r') (e : r' ^ 2 = g.radiusSq (g.cellToCartesian c)) :
    g.cartesianToCell r' (g.cellToCartesian c) = c := by
  unfold Grid.cartesianToCell Grid.cellToCartesian at *
  have hl' : (g.cellToGrid c).length = g.axes.length := by simp [Grid.cellToGrid, hl]
  rw [grid_cart_grid_points g h _ hl' hr r' hr' e]
  exact (cell_grid_inverse_points g h.1 c hl).1

/-- **C12** Cartesian -> cell -> Cartesian is Cartesian -> grid -> Cartesian, i.e. the symmetry
projection of `cart_grid_cart` (identity on Cartesian grids): the detour through cell
coordinates loses nothing -/
theorem cart_cell_cart (g : Grid K) (h : g.WF) (x : List K) (r' : K)
    (hx : g.cls = .unit ∨ g.cls = .cartesian → x.length = g.axes.length) :
    g.cellToCartesian (g.cartesianToCell r' x) = g.toCartesian (g.fromCartesian r' x) := by
  unfold Grid.cartesianToCell Grid.cellToCartesian
  have hl : (g.fromCartesian r' x).length = g.axes.length := by
    obtain ⟨_, hc⟩ := h
    cases hcls : g.cls <;> rw [hcls] at hc <;> simp only [Grid.fromCartesian, hcls]
    · exact hx (Or.inl hcls)
    · exact hx (Or.inr hcls)
    · simp [hc.1]
    · simp [hc.1]
    · simp [hc.1]
  rw [(cell_grid_inverse_points g h.1 _ hl).2]

/-- the radius (and `z`) survive Cartesian -> cell -> Cartesian -/
theorem cart_cell_cart_radius (g : Grid K) (h : g.WF) (x : List K) (r' : K)
    (hx : g.cls = .unit ∨ g.cls = .cartesian → x.length = g.axes.length)
    (e : r' ^ 2 = g.radiusSq x) :
    g.radiusSq (g.cellToCartesian (g.cartesianToCell r' x)) = g.radiusSq x ∧
      (g.cls = .cylindrical →
        (g.cellToCartesian (g.cartesianToCell r' x)).drop 2 = [(x.drop 2).headD 0]) ∧
      (g.cls = .unit ∨ g.cls = .cartesian → g.cellToCartesian (g.cartesianToCell r' x) = x) := by
  rw [cart_cell_cart g h x r' hx]
  obtain ⟨h1, h2, h3, h4⟩ := cart_grid_cart g x r' e
  refine ⟨?_, fun hc => (h3 hc).2, h4⟩
  cases hcls : g.cls
  · rw [h4 (Or.inl hcls)]
  · rw [h4 (Or.inr hcls)]
  · exact h1 hcls
  · exact h2 hcls
  · exact (h3 hcls).1


/-! #### containment in the three coordinate systems, normalised points -/

/-- `contains_point(coords="cell")` of the cell coordinates of a point is `contains_point(coords=
"grid")` of the point, and conversely -/
theorem contains_cell_iff_grid (g : Grid K) (h : ∀ a ∈ g.axes, a.WF g.cls) (p c : List K)
    (hc : c.length = g.axes.length) :
    g.containsCellPoint (g.gridToCell p) = g.containsGrid p ∧
      g.containsGrid (g.cellToGrid c) = g.containsCellPoint c := by
  refine ⟨rfl, ?_⟩
  unfold Grid.containsGrid Grid.containsCellPoint
  rw [(cell_grid_inverse_points g h c hc).1]

/-- the Cartesian image of a grid point under ANY angles (`c^2 + s^2 = 1`) is mapped back to that
grid point: `point_from_cartesian ∘ pos_to_cart` drops the angles -/
theorem from_cart_any_angle (g : Grid K) (r z r' c s ct st : K) (hr : 0 ≤ r) (hr' : 0 ≤ r')
    (hcs : c ^ 2 + s ^ 2 = 1) (hts : ct ^ 2 + st ^ 2 = 1) :
    (g.cls = .polar → r' ^ 2 = g.radiusSq (polarToCart r c s) →
        g.fromCartesian r' (polarToCart r c s) = [r]) ∧
    (g.cls = .spherical → r' ^ 2 = g.radiusSq (sphToCart r ct st c s) →
        g.fromCartesian r' (sphToCart r ct st c s) = [r]) ∧
    (g.cls = .cylindrical → r' ^ 2 = g.radiusSq (cylToCart r c s z) →
        g.fromCartesian r' (cylToCart r c s z) = [r, z]) := by
  refine ⟨?_, ?_, ?_⟩
  · intro hc e
    have e2 : g.radiusSq (polarToCart r c s) = r ^ 2 := by
      simp only [Grid.radiusSq, hc, polarToCart, List.take]; exact cart_polar_roundtrip r c s hcs
    rw [e2] at e
    simp only [Grid.fromCartesian, hc, radius_unique r r' hr hr' e]
  · intro hc e
    have e2 : g.radiusSq (sphToCart r ct st c s) = r ^ 2 := by
      simp only [Grid.radiusSq, hc, sphToCart, List.take]; exact cart_sph_roundtrip r ct st c s hts hcs
    rw [e2] at e
    simp only [Grid.fromCartesian, hc, radius_unique r r' hr hr' e]
  · intro hc e
    have e2 : g.radiusSq (cylToCart r c s z) = r ^ 2 := by
      simp only [Grid.radiusSq, hc]; exact (cart_cyl_roundtrip r c s z hcs).1
    rw [e2] at e
    simp only [Grid.fromCartesian, hc, radius_unique r r' hr hr' e, cylToCart, List.drop, List.headD_cons]

/-- **C12** a point that is contained in grid coordinates is contained in the API's default
Cartesian coordinates, whatever the angles of its Cartesian image, and in cell coordinates
(`get_random_point(coords="cartesian" | "cell")` of every class) -/
theorem contained_in_all_coords (g : Grid K) (r z r' c s ct st : K) (hr : 0 ≤ r) (hr' : 0 ≤ r')
    (hcs : c ^ 2 + s ^ 2 = 1) (hts : ct ^ 2 + st ^ 2 = 1) :
    (g.cls = .polar → r' ^ 2 = g.radiusSq (polarToCart r c s) → g.containsGrid [r] = true →
        g.containsCartesian r' (polarToCart r c s) = true ∧ g.containsCellPoint (g.gridToCell [r]) = true) ∧
    (g.cls = .spherical → r' ^ 2 = g.radiusSq (sphToCart r ct st c s) → g.containsGrid [r] = true →
        g.containsCartesian r' (sphToCart r ct st c s) = true ∧ g.containsCellPoint (g.gridToCell [r]) = true) ∧
    (g.cls = .cylindrical → r' ^ 2 = g.radiusSq (cylToCart r c s z) → g.containsGrid [r, z] = true →
        g.containsCartesian r' (cylToCart r c s z) = true ∧ g.containsCellPoint (g.gridToCell [r, z]) = true) ∧
    (g.cls = .unit ∨ g.cls = .cartesian → ∀ p : List K, g.containsGrid p = true →
        g.containsCartesian r' p = true ∧ g.containsCellPoint (g.gridToCell p) = true) := by
  obtain ⟨h1, h2, h3⟩ := from_cart_any_angle g r z r' c s ct st hr hr' hcs hts
  refine ⟨?_, ?_, ?_, ?_⟩
  · intro hc e hp; unfold Grid.containsCartesian; rw [h1 hc e]; exact ⟨hp, hp⟩
  · intro hc e hp; unfold Grid.containsCartesian; rw [h2 hc e]; exact ⟨hp, hp⟩
  · intro hc e hp; unfold Grid.containsCartesian; rw [h3 hc e]; exact ⟨hp, hp⟩
  · rintro (hc | hc) p hp <;> refine ⟨?_, hp⟩ <;>
      simpa [Grid.containsCartesian, Grid.fromCartesian, hc] using hp

/-- **C12** a normalised point is contained in the grid: every axis is periodic or `reflect` is
set (`normalize_point` followed by `contains_point(coords="grid")`, every class and dimension) -/
theorem normalizePoint_contained (g : Grid K) (h : ∀ a ∈ g.axes, a.WF g.cls) (reflect : Bool)
    (p : List K) (hl : p.length = g.axes.length)
    (hper : ∀ a ∈ g.axes, a.periodic = true ∨ reflect = true) :
    g.containsGrid (g.normalizePoint reflect p) = true := by
  apply contains_of_in_bounds g h
  · simp [Grid.normalizePoint, hl]
  · intro q hq
    have hd := normalizePoint_in_domain g (fun a ha => (h a ha).2.1) reflect p q hq
    have hmem : q.1 ∈ g.axes := (List.of_mem_zip hq).1
    cases hp : q.1.periodic
    · have hrf : reflect = true := by
        rcases hper q.1 hmem with h' | h'
        · rw [hp] at h'; cases h'
        · exact h'
      exact hd.2 hp hrf
    · obtain ⟨a1, a2⟩ := hd.1 hp
      exact ⟨a1, a2.le⟩


/-! #### period shifts in grid and in cell coordinates -/

/-- shift the grid coordinate of every periodic axis by a whole number of its periods -/
def shiftAxes : List (Axis K) → List ℤ → List K → List K
  | a :: as, k :: ks, x :: xs =>
    (if a.periodic then x + (k : K) * (a.hi - a.lo) else x) :: shiftAxes as ks xs
  | _, _, xs => xs

/-- the same in cell coordinates: a period is `N` cells -/
def shiftAxesCell : List (Axis K) → List ℤ → List K → List K
  | a :: as, k :: ks, c :: cs =>
    (if a.periodic then c + (k : K) * (a.n : K) else c) :: shiftAxesCell as ks cs
  | _, _, cs => cs

theorem shiftAxes_eq_shiftPeriodic (as : List (Axis K)) (ks : List ℤ) (xs : List K) :
    shiftAxes as ks xs
      = shiftPeriodic (as.map (·.periodic)) (as.map fun a => (a.lo, a.hi)) ks xs := by
  induction as generalizing ks xs with
  | nil => simp [shiftAxes, shiftPeriodic]
  | cons a as ih =>
    cases ks with
    | nil => simp [shiftAxes, shiftPeriodic]
    | cons k ks =>
      cases xs with
      | nil => simp [shiftAxes, shiftPeriodic]
      | cons x xs => simp only [shiftAxes, List.map_cons, shiftPeriodic, ih ks xs]

/-- the radial axis of a symmetric grid is never periodic (the constructors pass
`periodic=[False]` / `[False, periodic_z]`) -/
def Grid.RadialNotPeriodic (g : Grid K) : Prop :=
  (g.cls = .polar ∨ g.cls = .spherical ∨ g.cls = .cylindrical) → ∀ a ∈ g.axes.head?, a.periodic = false

/-- a period shift of the grid coordinates is a period shift of the wrapped Cartesian components -/
theorem toCartesian_shiftAxes (g : Grid K) (h : g.WF) (hnp : g.RadialNotPeriodic) (ks : List ℤ)
    (p : List K) (hl : p.length = g.axes.length) :
    ∃ ks' : List ℤ, g.toCartesian (shiftAxes g.axes ks p)
      = shiftPeriodic g.diffFlags g.diffBounds ks' (g.toCartesian p) := by
  obtain ⟨_, hc⟩ := h
  rcases g with ⟨cls, axes⟩
  simp only at hc hl
  unfold Grid.RadialNotPeriodic at hnp
  simp only at hnp
  cases cls
  · exact ⟨ks, by simp [Grid.toCartesian, Grid.diffFlags, Grid.diffBounds, shiftAxes_eq_shiftPeriodic]⟩
  · exact ⟨ks, by simp [Grid.toCartesian, Grid.diffFlags, Grid.diffBounds, shiftAxes_eq_shiftPeriodic]⟩
  · -- polar: nothing is shifted, nothing is wrapped
    match axes, hc.1, p, hl with
    | [a], _, [r], _ =>
      have ha : a.periodic = false := hnp (Or.inl rfl) a (by simp)
      refine ⟨[], ?_⟩
      cases ks <;> simp [shiftAxes, ha, shiftPeriodic]
  · match axes, hc.1, p, hl with
    | [a], _, [r], _ =>
      have ha : a.periodic = false := hnp (Or.inr (Or.inl rfl)) a (by simp)
      refine ⟨[], ?_⟩
      cases ks <;> simp [shiftAxes, ha, shiftPeriodic]
  · match axes, hc.1, p, hl with
    | [a, z], _, [r, pz], _ =>
      have ha : a.periodic = false := hnp (Or.inr (Or.inr rfl)) a (by simp)
      match ks with
      | [] => exact ⟨[], by simp [shiftAxes, shiftPeriodic]⟩
      | [k0] => exact ⟨[], by simp [shiftAxes, ha, shiftPeriodic]⟩
      | k0 :: k1 :: _ =>
        refine ⟨[0, 0, k1], ?_⟩
        cases hz : z.periodic <;>
          simp [shiftAxes, ha, hz, shiftPeriodic, Grid.toCartesian, Grid.diffFlags, Grid.diffBounds, cylToCart]

/-- **C12** distances and difference vectors are invariant under period shifts of either point
given in GRID coordinates (`coords="grid"`, the API default; every class, any whole number of
periods along every periodic axis at once) -/
theorem distance_invariant_under_period_shift_grid (g : Grid K) (h : g.WF) (hnp : g.RadialNotPeriodic)
    (p1 p2 : List K) (ks : List ℤ) (hl1 : p1.length = g.axes.length) (hl2 : p2.length = g.axes.length) :
    g.differenceVectorGrid p1 (shiftAxes g.axes ks p2) = g.differenceVectorGrid p1 p2 ∧
    g.distSqGrid p1 (shiftAxes g.axes ks p2) = g.distSqGrid p1 p2 ∧
    g.distSqGrid (shiftAxes g.axes ks p1) p2 = g.distSqGrid p1 p2 := by
  have hlt : ∀ a ∈ g.axes, a.lo < a.hi := fun a ha => (h.1 a ha).2.1
  obtain ⟨k2, e2⟩ := toCartesian_shiftAxes g h hnp ks p2 hl2
  obtain ⟨k1, e1⟩ := toCartesian_shiftAxes g h hnp ks p1 hl1
  unfold Grid.distSqGrid Grid.differenceVectorGrid
  rw [e2, e1]
  obtain ⟨a, b, _⟩ := distance_invariant_under_period_shift g hlt (g.toCartesian p1) (g.toCartesian p2) k2
  obtain ⟨_, _, c⟩ := distance_invariant_under_period_shift g hlt (g.toCartesian p1) (g.toCartesian p2) k1
  exact ⟨a, b, c⟩

theorem Grid.n_mul_dxOf (g : Grid K) (a : Axis K) (h : a.WF g.cls) : (a.n : K) * g.dxOf a = a.hi - a.lo := by
  have hn : (a.n : K) ≠ 0 := Nat.cast_ne_zero.mpr h.1
  rw [g.dxOf_eq a h]; field_simp

/-- a shift by `k N` cells is a shift by `k` periods of the grid coordinate -/
theorem cellToGrid_shiftAxesCell (g : Grid K) (h : ∀ a ∈ g.axes, a.WF g.cls) (ks : List ℤ) (c : List K) :
    g.cellToGrid (shiftAxesCell g.axes ks c) = shiftAxes g.axes ks (g.cellToGrid c) := by
  unfold Grid.cellToGrid
  generalize g.axes = as at h
  induction as generalizing ks c with
  | nil => simp [shiftAxesCell, shiftAxes]
  | cons a as ih =>
    cases ks with
    | nil => simp [shiftAxesCell, shiftAxes]
    | cons k ks =>
      cases c with
      | nil => simp [shiftAxesCell, shiftAxes]
      | cons x xs =>
        have e := g.n_mul_dxOf a (h a List.mem_cons_self)
        simp only [shiftAxesCell, List.zipWith_cons_cons, shiftAxes,
          ih ks xs (fun b hb => h b (List.mem_cons_of_mem _ hb))]
        congr 1
        cases a.periodic
        · simp
        · simp only [if_true, cellToGrid1]; rw [← e]; ring

/-- **C12** the same for points given in CELL coordinates (`coords="cell"`): a shift by a whole
number of periods is a shift by `k N` cells -/
theorem distance_invariant_under_period_shift_cell (g : Grid K) (h : g.WF) (hnp : g.RadialNotPeriodic)
    (c1 c2 : List K) (ks : List ℤ) (hl1 : c1.length = g.axes.length) (hl2 : c2.length = g.axes.length) :
    g.differenceVectorCell c1 (shiftAxesCell g.axes ks c2) = g.differenceVectorCell c1 c2 ∧
    g.distSqCell c1 (shiftAxesCell g.axes ks c2) = g.distSqCell c1 c2 ∧
    g.distSqCell (shiftAxesCell g.axes ks c1) c2 = g.distSqCell c1 c2 := by
  have l1 : (g.cellToGrid c1).length = g.axes.length := by simp [Grid.cellToGrid, hl1]
  have l2 : (g.cellToGrid c2).length = g.axes.length := by simp [Grid.cellToGrid, hl2]
  obtain ⟨a, b, c⟩ := distance_invariant_under_period_shift_grid g h hnp _ _ ks l1 l2
  unfold Grid.distSqCell Grid.differenceVectorCell
  rw [cellToGrid_shiftAxesCell g h.1, cellToGrid_shiftAxesCell g h.1]
  exact ⟨a, b, c⟩

/-- distances are symmetric in cell coordinates as well -/
theorem distance_symmetric_cell (g : Grid K) (h : ∀ a ∈ g.axes, a.lo < a.hi) (c1 c2 : List K) :
    g.distSqCell c1 c2 = g.distSqCell c2 c1 :=
  (distance_symmetric g h (g.cellToGrid c1) (g.cellToGrid c2)).2

/-! #### period images (mirror points) -/

theorem normSq_wrapComponents_zero (ps : List Bool) (bs : List (K × K)) (ds : List K)
    (hb : ∀ b ∈ bs, b.1 < b.2) (hd : ∀ d ∈ ds, d = 0) : normSq (wrapComponents ps bs ds) = 0 := by
  have hz : ∀ ds : List K, (∀ d ∈ ds, d = 0) → normSq ds = 0 := by
    intro ds hd
    induction ds with
    | nil => simp [normSq]
    | cons d ds ih =>
      simp only [normSq, hd d List.mem_cons_self, ih (fun e he => hd e (List.mem_cons_of_mem _ he))]
      ring
  induction ps generalizing bs ds with
  | nil => simp only [wrapComponents]; exact hz ds hd
  | cons per ps ih =>
    cases bs with
    | nil => simp only [wrapComponents]; exact hz ds hd
    | cons b bs =>
      cases ds with
      | nil => simp [wrapComponents, normSq]
      | cons d ds =>
        have hL : 0 < b.2 - b.1 := sub_pos.mpr (hb b List.mem_cons_self)
        have h0 : d = 0 := hd d List.mem_cons_self
        have hw : wrap (0 : K) (b.2 - b.1) = 0 := wrap_of_small 0 _ hL (by linarith) (by linarith)
        simp only [wrapComponents, normSq, h0, hw, ite_self,
          ih bs ds (fun c hc => hb c (List.mem_cons_of_mem _ hc)) (fun e he => hd e (List.mem_cons_of_mem _ he))]
        ring

theorem zipWith_sub_self (x : List K) : ∀ d ∈ List.zipWith (fun b a => b - a) x x, d = 0 := by
  induction x with
  | nil => simp
  | cons a as ih =>
    intro d hd
    simp only [List.zipWith_cons_cons, List.mem_cons] at hd
    rcases hd with rfl | hd
    · exact sub_self a
    · exact ih d hd

/-- **C12** every period image of a point (any whole multiples of the periods along the periodic
Cartesian components: the points `iter_mirror_points` has to produce) is at distance 0 from it -/
theorem period_image_at_distance_zero (g : Grid K) (h : ∀ a ∈ g.axes, a.lo < a.hi) (x : List K)
    (ks : List ℤ) :
    g.distSq x x = 0 ∧ g.distSq x (shiftPeriodic g.diffFlags g.diffBounds ks x) = 0 := by
  have h0 : g.distSq x x = 0 := by
    unfold Grid.distSq Grid.differenceVector diffVec
    exact normSq_wrapComponents_zero _ _ _ (g.diffBounds_pos h) (zipWith_sub_self x)
  exact ⟨h0, by rw [(distance_invariant_under_period_shift g h x x ks).2.1, h0]⟩

/-! ### 6. concrete witnesses: hypotheses are satisfiable, regression of defect F3 -/

/-- an annular cylinder, periodic in `z`: `CylindricalSymGrid((1,3), (0,10), (4,5), periodic_z=True)` -/
def exCyl : Grid K := ⟨.cylindrical, [⟨1, 3, 4, false⟩, ⟨0, 10, 5, true⟩]⟩
/-- `CartesianGrid([(0,2),(0,16)], [2,4], periodic=True)`: two different periods -/
def exCart : Grid K := ⟨.cartesian, [⟨0, 2, 2, true⟩, ⟨0, 16, 4, true⟩]⟩
/-- `SphericalSymGrid((1,2), 3)` -/
def exSph : Grid K := ⟨.spherical, [⟨1, 2, 3, false⟩]⟩

theorem exCyl_wf : (exCyl : Grid K).WF := by
  refine ⟨?_, ?_⟩
  · intro a ha
    simp only [exCyl, List.mem_cons, List.not_mem_nil, or_false] at ha
    rcases ha with rfl | rfl <;> exact ⟨by simp, by norm_num, by simp [exCyl]⟩
  · simp [exCyl]

theorem exSph_wf : (exSph : Grid K).WF := by
  refine ⟨?_, ?_⟩
  · intro a ha
    simp only [exSph, List.mem_cons, List.not_mem_nil, or_false] at ha
    rcases ha with rfl; exact ⟨by simp, by norm_num, by simp [exSph]⟩
  · simp [exSph]

theorem exCart_wf : (exCart : Grid K).WF := by
  refine ⟨?_, ?_⟩
  · intro a ha
    simp only [exCart, List.mem_cons, List.not_mem_nil, or_false] at ha
    rcases ha with rfl | rfl <;> exact ⟨by simp, by norm_num, by simp [exCart]⟩
  · simp [exCart]

/-- regression of defect F3: across the periodic `z` seam of the cylinder the wrapped distance is
1 (squared: 1), not 9 -/
theorem cyl_seam_distance_fixed : (exCyl : Grid K).distSqGrid [2, 1 / 2] [2, 19 / 2] = 1 := by
  have hw : wrap ((19 : K) / 2 - 1 / 2) (10 - 0) = -1 :=
    wrap_unique _ _ _ (by norm_num) (by norm_num) (by norm_num) (-1) (by norm_num)
  simp only [Grid.distSqGrid, Grid.differenceVectorGrid, Grid.toCartesian, exCyl, cylToCart]
  rw [cyl_difference_vector]
  simp only [if_true, hw, normSq]
  norm_num

/-- the pairing used before the fix (two flags against three Cartesian components: the `y`
difference is wrapped with the `z` period, the `z` difference is not wrapped) gives 9 (squared: 81) -/
theorem cyl_seam_distance_old_pairing_wrong :
    cylOldDistSq (⟨1, 3, 4, false⟩ : Axis K) ⟨0, 10, 5, true⟩ [2, 0, 1 / 2] [2, 0, 19 / 2] = 81 := by
  have hw : wrap ((0 : K) - 0) (10 - 0) = 0 :=
    wrap_unique _ _ _ (by norm_num) (by norm_num) (by norm_num) 0 (by norm_num)
  simp only [cylOldDistSq, diffVec, List.zipWith_cons_cons, List.zipWith_nil_right, wrapComponents,
    Bool.false_eq_true, if_false, if_true, hw, normSq]
  norm_num

/-- two different periods on a 2-d grid: each component is wrapped with its own period -/
theorem two_periods_example :
    (exCart : Grid K).differenceVector [1 / 4, 1] [7 / 4, 15] = [-1 / 2, -2] := by
  have h1 : wrap ((7 : K) / 4 - 1 / 4) (2 - 0) = -1 / 2 :=
    wrap_unique _ _ _ (by norm_num) (by norm_num) (by norm_num) (-1) (by norm_num)
  have h2 : wrap ((15 : K) - 1) (16 - 0) = -2 :=
    wrap_unique _ _ _ (by norm_num) (by norm_num) (by norm_num) (-1) (by norm_num)
  simp only [Grid.differenceVector, diffVec, Grid.diffFlags, Grid.diffBounds, exCart, wrapComponents,
    List.zipWith_cons_cons, List.zipWith_nil_right, List.map_cons, List.map_nil, if_true, h1, h2]

/-- the tie `L/2` on a concrete grid: both directions give `-L/2`, the distance is symmetric -/
theorem tie_example :
    (exCart : Grid K).differenceVector [0, 0] [1, 0] = [-1, 0] ∧
      (exCart : Grid K).differenceVector [1, 0] [0, 0] = [-1, 0] := by
  have h1 : wrap ((1 : K) - 0) (2 - 0) = -1 :=
    wrap_unique _ _ _ (by norm_num) (by norm_num) (by norm_num) (-1) (by norm_num)
  have h2 : wrap ((0 : K) - 1) (2 - 0) = -1 :=
    wrap_unique _ _ _ (by norm_num) (by norm_num) (by norm_num) 0 (by norm_num)
  have h3 : wrap ((0 : K) - 0) (16 - 0) = 0 :=
    wrap_unique _ _ _ (by norm_num) (by norm_num) (by norm_num) 0 (by norm_num)
  constructor <;>
    simp only [Grid.differenceVector, diffVec, Grid.diffFlags, Grid.diffBounds, exCart, wrapComponents,
      List.zipWith_cons_cons, List.zipWith_nil_right, List.map_cons, List.map_nil, if_true, h1, h2, h3]

/-- the spherical shell volumes of `exSph` telescope to `4/3 pi (2^3 - 1^3)` for every `pi` -/
theorem exSph_volume (pi : K) :
    (exSph : Grid K).integrateAll pi (fun _ => 1) = 4 / 3 * pi * 7 := by
  rw [(cell_volumes_sum_eq_volume pi exSph exSph_wf).1]
  simp [Grid.volume, exSph, ballVolume]; ring

/-- normalisation and reflection on a concrete axis `[-1, 3)` -/
theorem normalize_example : normAxis (-1 : K) 3 true false (7 / 2) = -1 / 2 := by
  rw [normalize_eq_toIcoMod (-1 : K) 3 _ (by norm_num), toIcoMod_eq_iff]
  exact ⟨⟨by norm_num, by norm_num⟩, 1, by norm_num⟩

theorem reflect_example : normAxis (-1 : K) 3 false true (7 / 2) = 5 / 2 := by
  have : pymod ((7 : K) / 2 - 3) (2 * (3 - -1)) = 1 / 2 := by
    rw [pymod_eq_iff _ _ _ (by norm_num)]
    exact ⟨⟨by norm_num, by norm_num⟩, 0, by norm_num⟩
  simp only [normAxis, Bool.false_eq_true, if_false, if_true, absK_eq_abs, Nat.cast_ofNat, this]
  rw [abs_of_neg (by norm_num)]; norm_num

/-- the radial axes of the witnesses are not periodic -/
theorem ex_radial_not_periodic :
    (exCyl : Grid K).RadialNotPeriodic ∧ (exSph : Grid K).RadialNotPeriodic ∧ (exCart : Grid K).RadialNotPeriodic := by
  refine ⟨?_, ?_, ?_⟩
  · intro _ a ha; simp [exCyl] at ha; rw [← ha]
  · intro _ a ha; simp [exSph] at ha; rw [← ha]
  · intro h; simp [exCart] at h

/-- the seam distance of `cyl_seam_distance_fixed` after shifting the second point by three `z`
periods in grid coordinates (`z = 19/2 + 30`) and in cell coordinates (`19/4 + 15` cells) -/
theorem cyl_seam_distance_shifted :
    (exCyl : Grid K).distSqGrid [2, 1 / 2] [2, 19 / 2 + 30] = 1 ∧
      (exCyl : Grid K).distSqCell [2, 1 / 4] [2, 19 / 4 + 15] = 1 := by
  have hg := (distance_invariant_under_period_shift_grid (exCyl : Grid K) exCyl_wf ex_radial_not_periodic.1
    [2, 1 / 2] [2, 19 / 2] [0, 3] rfl rfl).2.1
  have e1 : shiftAxes (exCyl : Grid K).axes [0, 3] [2, 19 / 2] = [2, 19 / 2 + 30] := by
    simp [shiftAxes, exCyl]; norm_num
  rw [e1, cyl_seam_distance_fixed] at hg
  refine ⟨hg, ?_⟩
  have hc : (exCyl : Grid K).cellToGrid [2, 1 / 4] = [2, 1 / 2] ∧
      (exCyl : Grid K).cellToGrid [2, 19 / 4 + 15] = [2, 19 / 2 + 30] := by
    constructor <;> simp [Grid.cellToGrid, exCyl, cellToGrid1, Grid.dxOf, dx] <;> norm_num
  unfold Grid.distSqCell Grid.differenceVectorCell
  rw [hc.1, hc.2]
  exact hg

/-- cell -> Cartesian -> cell on the annular cylinder: `hypot` returns 2 for the image of `r = 2` -/
theorem cell_cart_cell_example :
    (exCyl : Grid K).cartesianToCell 2 ((exCyl : Grid K).cellToCartesian [2, 1 / 4]) = [2, 1 / 4] := by
  apply cell_cart_cell _ exCyl_wf _ rfl
  · right; intro r hr
    simp [Grid.cellToGrid, exCyl, cellToGrid1, Grid.dxOf, dx] at hr
    rw [← hr]; norm_num
  · norm_num
  · simp [Grid.cellToCartesian, Grid.cellToGrid, exCyl, cellToGrid1, Grid.dxOf, dx, Grid.toCartesian,
      cylToCart, Grid.radiusSq, normSq]
    norm_num

end

/-- the hypotheses are satisfiable in a concrete field: all of the above at `K = ℚ` -/
example : (exCyl : Grid ℚ).WF ∧ (exSph : Grid ℚ).WF ∧ (exCart : Grid ℚ).WF ∧
    (exCyl : Grid ℚ).distSqGrid [2, 1 / 2] [2, 19 / 2] = 1 :=
  ⟨exCyl_wf, exSph_wf, exCart_wf, cyl_seam_distance_fixed⟩

/-- the hypotheses of the grid-level theorems of section 5b are satisfiable at `K = ℚ`:
`grid_centres_and_dx` on the spherical witness (axis 0 = `(1, 2, 3)`), `normalizePoint_contained`
on the fully periodic `exCart`, the period shift on the cylinder -/
example : ((exSph : Grid ℚ).discretization[0]? = some ((2 - 1) / ((3 : ℕ) : ℚ))) ∧
    (exCart : Grid ℚ).containsGrid ((exCart : Grid ℚ).normalizePoint false [7, -100]) = true ∧
    (exCyl : Grid ℚ).RadialNotPeriodic ∧
    (exCyl : Grid ℚ).distSqGrid [2, 1 / 2] [2, 19 / 2 + 30] = 1 :=
  ⟨(grid_centres_and_dx exSph exSph_wf.1 0 ⟨1, 2, 3, false⟩ rfl).1,
   normalizePoint_contained exCart exCart_wf.1 false [7, -100] rfl
     (by intro a ha; simp [exCart] at ha; rcases ha with rfl | rfl <;> simp),
   ex_radial_not_periodic.1, cyl_seam_distance_shifted.1⟩

/-! ### 7. the closed forms are the integrals of the volume factors (`K = ℝ`, `pi = π`)

`prim` was introduced above as "the exact measure of `[a, b]` is `prim b - prim a`".  Over the
reals this is a theorem about the coordinate systems of pde/grids/coordinates: the measure is the
integral of `_volume_factor` (`r` for polar and cylindrical, `r^2 sin θ` for spherical
coordinates) over the cell, the symmetric angles running over their full range. -/

section
open MeasureTheory intervalIntegral Real

/-- annulus: polar volume factor `r` over `φ ∈ [0, 2π]`, `r ∈ [a, b]` -/
theorem polar_measure_is_integral (a b : ℝ) :
    prim π .polar 0 b - prim π .polar 0 a = ∫ _φ in (0:ℝ)..(2 * π), ∫ r in a..b, r := by
  simp only [prim, integral_id, intervalIntegral.integral_const, smul_eq_mul]
  ring

/-- spherical shell: volume factor `r^2 sin θ` over `φ ∈ [0, 2π]`, `θ ∈ [0, π]`, `r ∈ [a, b]` -/
theorem spherical_measure_is_integral (a b : ℝ) :
    prim π .spherical 0 b - prim π .spherical 0 a
      = ∫ _φ in (0:ℝ)..(2 * π), ∫ θ in (0:ℝ)..π, ∫ r in a..b, r ^ 2 * Real.sin θ := by
  simp only [prim, intervalIntegral.integral_mul_const, integral_pow, integral_sin,
    intervalIntegral.integral_const_mul, intervalIntegral.integral_const, smul_eq_mul, Real.cos_pi,
    Real.cos_zero]
  ring

/-- cylindrical shell: volume factor `r` over `φ ∈ [0, 2π]`, `z ∈ [z1, z2]`, `r ∈ [a, b]` is the
product of the measures of the two axes -/
theorem cylindrical_measure_is_integral (a b z1 z2 : ℝ) :
    (prim π .cylindrical 0 b - prim π .cylindrical 0 a) * (prim π .cylindrical 1 z2 - prim π .cylindrical 1 z1)
      = ∫ _φ in (0:ℝ)..(2 * π), ∫ _z in z1..z2, ∫ r in a..b, r := by
  simp only [prim, if_true, one_ne_zero, if_false, integral_id, intervalIntegral.integral_const, smul_eq_mul]
  ring

/-- Cartesian axis: length -/
theorem cartesian_measure_is_integral (a b : ℝ) (ax : ℕ) :
    prim π .cartesian ax b - prim π .cartesian ax a = ∫ _x in a..b, (1 : ℝ) := by
  simp [prim]

end

end PdeVerif.Grids
