import PdeVerif.Model.Grid
import PdeVerif.Model.Volume
import PdeVerif.Model.GridCoords
import PdeVerif.Lemmas.Basic
/-
C12 - grid geometry and coordinate transformations are self-consistent.
-/
namespace PdeVerif.Grids
open PdeVerif

section
variable {K : Type} [Field K] [LinearOrder K] [IsStrictOrderedRing K] [FloorRing K]

theorem dx_def (lo hi : K) (n : Nat) : dx lo hi n = (hi - lo) / n := rfl

end
end PdeVerif.Grids
