import PdeVerif.Props.C13
import Mathlib.Algebra.BigOperators.Intervals
import Mathlib.Logic.Function.Iterate
import Mathlib.Analysis.Real.Sqrt
/-
C13, second file (gap round): the three clauses that `Props/C13.lean` decided only step by step.

1. **per-field variances for collections, whole runs**: `collSys` (Model/Noise.lean; the definition through which
   the driver builds *every* collection case) - `collSys_hyps` discharges the volume and root hypotheses of the run
   theorems from the cell volumes and the per-field variances alone, `collection_run_per_field`: in an `m`-step
   Euler-Maruyama or Milstein run, in every step, every entry of every component of field `f` in cell `cell` changes
   by `dt*rate + r*xi` with `r ≥ 0`, `r*r = noise[f]*dt/vol[cell]` (any interpretation: the variance is constant);
   `collection_run_implicit_per_field`: the semi-implicit solver iterates from `st j + r*xi_j` with the same `r`.
   `fieldSys` / `fieldSys_hyps` / `field_run_per_component`: the same for one tensor field with one variance per component.
2. **drift and Milstein correction for N steps, non-uniform volumes**: `run_explicit_documented` (one statement for both
   explicit solvers, total: the run exists), `run_explicit_sum` (induction over the steps: state after `M` steps =
   initial state + sum of the documented increments `docIncr`, the `j`-th with array `j` of the stream),
   `docIncr_sum` (the sum split into `dt*Σrate + Σ r*xi + 0.5*alpha*dt*Σv'/V + 0.25*Σ v'(dW²-dt)/V`),
   `alpha_values` (0, 1/2, 1).
3. **draws consumed once per step, in order (generator threaded)**: `Sys.runGen` (Model) threads a generator state
   through the loop, one call `next` per step; `draws_spec`, `runGen_eq_run` (= `Sys.run` on the list of the first `m`
   draws - the definition the driver evaluates against the real code; the driver also executes `runGen` itself with
   the list as generator), `runGen_one_call_per_step` (final generator state = `m` calls; step `j` uses the array of
   call `j`), `runGen_explicit_total`, `runGen_explicit_sum` (2 and 3 composed).
4. field-dependent variance over the reals (`quadSys`, Model; the driver builds every `quad` case through it):
   `quad_variance_hyps` (the root / volume hypotheses hold for every state with `Real.sqrt`), `quadVarDiff_is_derivative`,
   `quad_runGen_sum`, `quadSys_runGen_sum` (no hypothesis left but `dt ≥ 0`, positive volumes, non-negative coefficients).
-/
namespace PdeVerif.Noise
open PdeVerif PdeVerif.Grids

section gen
variable {K : Type} [Field K] [LinearOrder K] [IsStrictOrderedRing K] {σ : Type}

/-- the generator state after `j` calls -/
def genAfter (next : σ → Array K × σ) (j : Nat) (g : σ) : σ := (fun g => (next g).2)^[j] g

omit [Field K] [LinearOrder K] [IsStrictOrderedRing K] in
/-- the list of the first `m` draws has `m` entries, entry `j` is the array of call number `j` (made in the state
after `j` calls), and the generator is left in the state after `m` calls -/
theorem draws_spec (next : σ → Array K × σ) : ∀ (m : Nat) (g : σ),
    (draws next m g).1.length = m ∧ (draws next m g).2 = genAfter next m g ∧
    ∀ j, j < m → (draws next m g).1[j]? = some (next (genAfter next j g)).1 := by
  intro m
  induction m with
  | zero => intro g; simp [draws, genAfter]
  | succ m ih =>
    intro g
    rcases hn : next g with ⟨x, g1⟩
    obtain ⟨a, b, c⟩ := ih g1
    rcases hd : draws next m g1 with ⟨xs, g2⟩
    rw [hd] at a b c
    have hg : ∀ j, genAfter next (j + 1) g = genAfter next j g1 := by
      intro j
      simp only [genAfter, Function.iterate_succ_apply, hn]
    simp only [draws, hn, hd]
    refine ⟨by simpa using a, by rw [hg]; exact b, ?_⟩
    intro j hj
    cases j with
    | zero => simp [genAfter, hn]
    | succ j =>
      rw [hg]
      simpa using c j (by omega)

omit [IsStrictOrderedRing K] in
/-- **The generator-threaded loop is the list-fed loop on the successive draws**: threading the generator state
through `m` steps (one call per step, made before the step) gives the run `Sys.run` on the list of the first `m`
draws, together with the generator state after `m` calls.  All solvers (a failing implicit iteration is `none` on
both sides). -/
theorem runGen_eq_run (S : Sys K) (sol : Solver) (next : σ → Array K × σ) :
    ∀ (m k : Nat) (u : Array K) (g : σ),
      S.runGen sol next k m u g
        = (S.run sol k m u (draws next m g).1).map fun p => (p.1, (draws next m g).2) := by
  intro m
  induction m with
  | zero => intro k u g; simp [Sys.runGen, Sys.run, draws]
  | succ m ih =>
    intro k u g
    rcases hn : next g with ⟨x, g1⟩
    rcases hd : draws next m g1 with ⟨xs, g2⟩
    simp only [Sys.runGen, draws, hn, hd, Sys.run]
    cases hstep : S.step sol k u x with
    | none => simp
    | some u1 =>
      simp only []
      rw [ih (k + 1) u1 g1, hd]


/-- **Draws are consumed once per step, in order.**  After a successful `m`-step run the generator has been called
exactly `m` times (its state is the `m`-fold successor), and step `j` is the solver's single step applied to the
state before it with the array returned by call number `j`: no array is used twice, none is skipped. -/
theorem runGen_one_call_per_step (S : Sys K) (sol : Solver) (next : σ → Array K × σ)
    (m k : Nat) (u : Array K) (g : σ) (u' : Array K) (g' : σ)
    (h : S.runGen sol next k m u g = some (u', g')) :
    g' = genAfter next m g ∧
    ∃ st : Nat → Array K, st 0 = u ∧ st m = u' ∧
      ∀ j, j < m →
        S.step sol (k + j) (st j) (next (genAfter next j g)).1 = some (st (j + 1)) := by
  rw [runGen_eq_run] at h
  obtain ⟨hl, hg, hget⟩ := draws_spec next m g
  cases hr : S.run sol k m u (draws next m g).1 with
  | none => simp [hr] at h
  | some p =>
    obtain ⟨u'', rest⟩ := p
    simp only [hr, Option.map_some, Option.some.injEq, Prod.mk.injEq] at h
    obtain ⟨rfl, rfl⟩ := h
    obtain ⟨st, h0, hm, hst⟩ := run_uses_successive_draws S sol m k u _ _ _ hr
    refine ⟨hg, st, h0, hm, ?_⟩
    intro j hj
    obtain ⟨x, hx, hs⟩ := hst j hj
    rw [hget j hj] at hx
    cases hx
    exact hs

/-- the explicit solvers never fail and leave the generator after exactly `m` calls -/
theorem runGen_explicit_total (S : Sys K) (sol : Solver) (hsol : sol ≠ .implicit)
    (next : σ → Array K × σ) (m k : Nat) (u : Array K) (g : σ) :
    ∃ u', S.runGen sol next k m u g = some (u', genAfter next m g) := by
  obtain ⟨hl, hg, -⟩ := draws_spec next m g
  obtain ⟨u', hu⟩ := run_explicit_total S sol hsol m k u (draws next m g).1 (by omega)
  exact ⟨u', by rw [runGen_eq_run, hu, hg]; rfl⟩

end gen

section coll
variable {K : Type} [Field K] [LinearOrder K] [IsStrictOrderedRing K]

omit [LinearOrder K] [IsStrictOrderedRing K] in
/-- `inv_cell = 1 / cell_volumes`, entry-wise -/
theorem get_invCell (vol : Array K) (c : Nat) (hc : c < vol.size) :
    get (invCell vol) c = 1 / get vol c := by
  simp [get, invCell, hc]

omit [Field K] [LinearOrder K] [IsStrictOrderedRing K] in
/-- every component index of a collection belongs to exactly the field whose slice contains it -/
theorem exists_field_of_comp : ∀ (ms : List Nat) (p : Nat), p < ms.sum →
    ∃ (f c : Nat) (hf : f < ms.length), c < ms[f] ∧ p = (ms.take f).sum + c := by
  intro ms
  induction ms with
  | nil => intro p hp; simp at hp
  | cons m ms ih =>
    intro p hp
    by_cases h : p < m
    · exact ⟨0, p, by simp, by simpa using h, by simp⟩
    · rw [List.sum_cons] at hp
      obtain ⟨f, c, hf, hc, e⟩ := ih (p - m) (by omega)
      refine ⟨f + 1, c, by simpa using hf, by simpa using hc, ?_⟩
      simp only [List.take_succ_cons, List.sum_cons]
      omega


omit [Field K] [LinearOrder K] [IsStrictOrderedRing K] in
/-- index bookkeeping of the flat C-order array of a collection -/
theorem coll_index (ncomps : List Nat) (ncell f c cell : Nat) (hf : f < ncomps.length)
    (hc : c < ncomps[f]) (hcell : cell < ncell) :
    ((ncomps.take f).sum + c) * ncell + cell < ncomps.sum * ncell ∧
    (((ncomps.take f).sum + c) * ncell + cell) % ncell = cell := by
  have hsum : (ncomps.take f).sum + ncomps[f] ≤ ncomps.sum := by
    have := List.sum_take_add_sum_drop ncomps f
    have hd : ncomps.drop f = ncomps[f] :: ncomps.drop (f + 1) := by
      rw [List.drop_eq_getElem_cons hf]
    rw [hd, List.sum_cons] at this
    omega
  constructor
  · calc ((ncomps.take f).sum + c) * ncell + cell
        < ((ncomps.take f).sum + c) * ncell + ncell := by omega
      _ = ((ncomps.take f).sum + c + 1) * ncell := by ring
      _ ≤ ncomps.sum * ncell := Nat.mul_le_mul_right _ (by omega)
  · rw [Nat.add_mod, Nat.mul_mod_left, Nat.zero_add, Nat.mod_mod, Nat.mod_eq_of_lt hcell]

omit [IsStrictOrderedRing K] in
/-- the hypotheses of the run theorems (`inv = 1/vol` entry-wise, roots of variance/volume for every entry of every
state) hold for `collSys`, given roots of `noise[f]/vol[cell]` only -/
theorem collSys_hyps (sqrt : K → K) (dt : K) (I : Interp) (vol : Array K) (noise : List K)
    (ncomps : List Nat) (rate : Nat → Array K → Array K) (maxiter : Nat) (maxerr2 : K)
    (hroot : ∀ f cell, f < ncomps.length → cell < vol.size →
      RootOn sqrt (noise.getD (f % noise.length) zero * (1 / get vol cell))) :
    let S := collSys sqrt dt I vol noise ncomps rate none maxiter maxerr2
    (∀ i, i < S.n → get S.inv (i % S.ncell) = 1 / get vol (i % S.ncell)) ∧
    (∀ (u : Array K) (i : Nat), i < S.n →
      RootOn S.sqrt (get (S.var u) i * get S.inv (i % S.ncell))) := by
  intro S
  have hn : S.n = ncomps.sum * vol.size := rfl
  have hc : S.ncell = vol.size := rfl
  have hmod : ∀ i, i < S.n → i % vol.size < vol.size := by
    intro i hi
    apply Nat.mod_lt
    rcases Nat.eq_zero_or_pos vol.size with h0 | h0
    · rw [hn, h0] at hi; omega
    · exact h0
  have hinv : ∀ i, i < S.n → get S.inv (i % S.ncell) = 1 / get vol (i % S.ncell) := by
    intro i hi
    rw [hc]
    exact get_invCell vol _ (hmod i hi)
  refine ⟨hinv, ?_⟩
  intro u i hi
  rw [hinv i hi, hc]
  have hp : i / vol.size < ncomps.sum := by
    apply Nat.div_lt_of_lt_mul
    rw [Nat.mul_comm]; exact hn ▸ hi
  obtain ⟨f, c, hf, hcf, e⟩ := exists_field_of_comp ncomps _ hp
  have hi' : i = ((ncomps.take f).sum + c) * vol.size + i % vol.size := by
    rw [← e]; exact (Nat.div_add_mod' i vol.size).symm
  have hv : get (S.var u) i = noise.getD (f % noise.length) zero := by
    show get (constVar vol.size (collVars noise ncomps)) i = _
    rw [hi']
    exact variance_layout_per_field noise ncomps vol.size f c _ hf hcf (hmod i hi)
  rw [hv]
  exact hroot f _ hf (hmod i hi)

end coll

section nsteps
variable {K : Type} [Field K] [LinearOrder K] [IsStrictOrderedRing K]

/-- the documented change of one entry in one explicit step: deterministic update, noise
`r*xi` (`r` = root of variance*dt/cell volume), drift `0.5*alpha*dt*v'/V`, and for the Milstein solver
the correction `0.25*v'/V*(dW^2 - dt)` with `dW^2 = dt*xi^2` -/
def docIncr (sol : Solver) (alpha dt rate r xi vd V : K) : K :=
  dt * rate + r * xi + 1 / 2 * alpha * dt * vd / V
    + (if sol = .milstein then 1 / 4 * vd / V * (dt * (xi * xi) - dt) else 0)

omit [LinearOrder K] [IsStrictOrderedRing K] in
/-- the drift factor as a number: Itô 0, Stratonovich 1/2, anti-Itô 1 -/
theorem alpha_values (I : Interp) :
    (I.alpha : K) = match I with | .ito => 0 | .stratonovich => 1 / 2 | .antiIto => 1 := by
  cases I <;> simp [Interp.alpha, zero_eq, half_eq]

/-- **Whole explicit runs, both solvers, total.**  With at least `m` arrays in the stream the run of the
Euler-Maruyama or the Milstein solver exists, hands back `xs.drop m`, and every step `j` changes every entry by the
documented increment `docIncr` (deterministic update + `r*xi_j` + drift `0.5*alpha*dt*v'/V` + for Milstein
`0.25*v'/V*(dW²-dt)`), `r ≥ 0`, `r*r = v*dt/V`, with `V` the volume of the entry's own cell (non-uniform volumes). -/
theorem run_explicit_documented (S : Sys K) (vol : Array K) (sol : Solver) (hsol : sol ≠ .implicit)
    (hs : S.s * S.s = S.dt) (hs0 : 0 ≤ S.s) (hreal : S.real = none)
    (hinv : ∀ i, i < S.n → get S.inv (i % S.ncell) = 1 / get vol (i % S.ncell))
    (hroot : ∀ (u : Array K) (i : Nat), i < S.n →
      RootOn S.sqrt (get (S.var u) i * get S.inv (i % S.ncell)))
    (m k : Nat) (u : Array K) (xs : List (Array K)) (hlen : m ≤ xs.length) :
    ∃ st : Nat → Array K, st 0 = u ∧ S.run sol k m u xs = some (st m, xs.drop m) ∧
      ∀ j, j < m → ∃ x, xs[j]? = some x ∧ ∀ i, i < S.n → ∃ r : K, 0 ≤ r ∧
        r * r = get (S.var (st j)) i * S.dt / get vol (i % S.ncell) ∧
        get (st (j + 1)) i = get (st j) i + docIncr sol S.interp.alpha S.dt
          (get (S.rate (k + j) (st j)) i) r (get x i) (get (S.varDiff (st j)) i)
          (get vol (i % S.ncell)) := by
  obtain ⟨u', hu⟩ := run_explicit_total S sol hsol m k u xs hlen
  cases sol with
  | implicit => exact absurd rfl hsol
  | euler =>
    obtain ⟨st, h0, hm, -, hst⟩ := run_euler_documented S vol hs hs0 hreal hinv hroot m k u xs _ _ hu
    refine ⟨st, h0, by rw [hm]; exact hu, ?_⟩
    intro j hj
    obtain ⟨x, hx, hr⟩ := hst j hj
    refine ⟨x, hx, fun i hi => ?_⟩
    obtain ⟨r, a, b, c⟩ := hr i hi
    refine ⟨r, a, b, ?_⟩
    rw [c, docIncr]; simp; ring
  | milstein =>
    obtain ⟨st, h0, hm, -, hst⟩ := run_milstein_documented S vol hs hs0 hreal hinv hroot m k u xs _ _ hu
    refine ⟨st, h0, by rw [hm]; exact hu, ?_⟩
    intro j hj
    obtain ⟨x, hx, hr⟩ := hst j hj
    refine ⟨x, hx, fun i hi => ?_⟩
    obtain ⟨r, dW, a, b, d, c⟩ := hr i hi
    refine ⟨r, a, b, ?_⟩
    rw [c, docIncr, d]; simp; ring


/-- **N steps by induction over the steps, stream threaded.**  The state after `M ≤ m` steps is the initial state plus
the sum over `j < M` of the documented increments, the `j`-th evaluated on the state before step `j` with array
number `j` of the stream (`x j`), for every entry; `alpha` is 0 / 1/2 / 1 (`alpha_values`), `docIncr_sum` splits the
sum into its four documented parts. -/
theorem run_explicit_sum (S : Sys K) (vol : Array K) (sol : Solver) (hsol : sol ≠ .implicit)
    (hs : S.s * S.s = S.dt) (hs0 : 0 ≤ S.s) (hreal : S.real = none)
    (hinv : ∀ i, i < S.n → get S.inv (i % S.ncell) = 1 / get vol (i % S.ncell))
    (hroot : ∀ (u : Array K) (i : Nat), i < S.n →
      RootOn S.sqrt (get (S.var u) i * get S.inv (i % S.ncell)))
    (m k : Nat) (u : Array K) (xs : List (Array K)) (hlen : m ≤ xs.length) :
    ∃ (st : Nat → Array K) (x : Nat → Array K) (r : Nat → Nat → K),
      st 0 = u ∧ S.run sol k m u xs = some (st m, xs.drop m) ∧
      (∀ j, j < m → xs[j]? = some (x j)) ∧
      (∀ j i, j < m → i < S.n → 0 ≤ r j i ∧
        r j i * r j i = get (S.var (st j)) i * S.dt / get vol (i % S.ncell)) ∧
      ∀ M i, M ≤ m → i < S.n → get (st M) i = get u i + ∑ j ∈ Finset.range M,
        docIncr sol S.interp.alpha S.dt (get (S.rate (k + j) (st j)) i) (r j i) (get (x j) i)
          (get (S.varDiff (st j)) i) (get vol (i % S.ncell)) := by
  obtain ⟨st, h0, hrun, hst⟩ := run_explicit_documented S vol sol hsol hs hs0 hreal hinv hroot m k u xs hlen
  have hst' : ∀ j, ∃ x : Array K, ∀ i, ∃ r : K, j < m → xs[j]? = some x ∧ (i < S.n → 0 ≤ r ∧
      r * r = get (S.var (st j)) i * S.dt / get vol (i % S.ncell) ∧
      get (st (j + 1)) i = get (st j) i + docIncr sol S.interp.alpha S.dt
        (get (S.rate (k + j) (st j)) i) r (get x i) (get (S.varDiff (st j)) i)
        (get vol (i % S.ncell))) := by
    intro j
    by_cases hj : j < m
    · obtain ⟨x, hx, hr⟩ := hst j hj
      refine ⟨x, fun i => ?_⟩
      by_cases hi : i < S.n
      · obtain ⟨r, h⟩ := hr i hi
        exact ⟨r, fun _ => ⟨hx, fun _ => h⟩⟩
      · exact ⟨0, fun _ => ⟨hx, fun h => absurd h hi⟩⟩
    · exact ⟨#[], fun i => ⟨0, fun h => absurd h hj⟩⟩
  choose x r hxr using hst'
  refine ⟨st, x, r, h0, hrun, fun j hj => (hxr j 0 hj).1, fun j i hj hi => ?_, ?_⟩
  · obtain ⟨a, b, -⟩ := (hxr j i hj).2 hi
    exact ⟨a, b⟩
  · intro M
    induction M with
    | zero => intro i _ _; simp [h0]
    | succ M ih =>
      intro i hM hi
      rw [Finset.sum_range_succ, ← add_assoc, ← ih i (by omega) hi]
      exact ((hxr M i (by omega)).2 hi).2.2

/-- the sum of the documented increments, term by term -/
theorem docIncr_sum (sol : Solver) (alpha dt V : K) (rate r xi vd : Nat → K) (M : Nat) :
    ∑ j ∈ Finset.range M, docIncr sol alpha dt (rate j) (r j) (xi j) (vd j) V
      = dt * ∑ j ∈ Finset.range M, rate j + ∑ j ∈ Finset.range M, r j * xi j
        + 1 / 2 * alpha * dt * (∑ j ∈ Finset.range M, vd j) / V
        + (if sol = .milstein then
            1 / 4 * (∑ j ∈ Finset.range M, vd j * (dt * (xi j * xi j) - dt)) / V else 0) := by
  induction M with
  | zero => simp
  | succ M ih =>
    rw [Finset.sum_range_succ, ih]
    simp only [Finset.sum_range_succ, docIncr]
    split_ifs <;> ring

end nsteps

section coll2
variable {K : Type} [Field K] [LinearOrder K] [IsStrictOrderedRing K]

/-- **Per-field variances of a collection in whole runs.**  For the closure `collSys` the driver builds for
collections (one variance per field, broadcast when a single one is given; cell volumes `vol`, any sizes), an
`m`-step run of an explicit solver under any interpretation exists, consumes `m` arrays, and in every step every
entry of component `c` of field `f` in cell `cell` changes by `dt*rate + r*xi` with `r ≥ 0` and
`r*r = noise[f]*dt/vol[cell]`: the variance of the entry's own field and the volume of its own cell. -/
theorem collection_run_per_field (sqrt : K → K) (dt : K) (I : Interp) (vol : Array K)
    (noise : List K) (ncomps : List Nat) (rate : Nat → Array K → Array K) (maxiter : Nat)
    (maxerr2 : K) (sol : Solver) (hsol : sol ≠ .implicit)
    (hs : sqrt dt * sqrt dt = dt) (hs0 : 0 ≤ sqrt dt)
    (hroot : ∀ f cell, f < ncomps.length → cell < vol.size →
      RootOn sqrt (noise.getD (f % noise.length) zero * (1 / get vol cell)))
    (m k : Nat) (u : Array K) (xs : List (Array K)) (hlen : m ≤ xs.length) :
    let S := collSys sqrt dt I vol noise ncomps rate none maxiter maxerr2
    ∃ st : Nat → Array K, st 0 = u ∧ S.run sol k m u xs = some (st m, xs.drop m) ∧
      ∀ j, j < m → ∃ x, xs[j]? = some x ∧
        ∀ (f c cell : Nat) (hf : f < ncomps.length), c < ncomps[f] → cell < vol.size →
          ∃ r : K, 0 ≤ r ∧ r * r = noise.getD (f % noise.length) zero * dt / get vol cell ∧
            get (st (j + 1)) (((ncomps.take f).sum + c) * vol.size + cell)
              = get (st j) (((ncomps.take f).sum + c) * vol.size + cell)
                + dt * get (rate (k + j) (st j)) (((ncomps.take f).sum + c) * vol.size + cell)
                + r * get x (((ncomps.take f).sum + c) * vol.size + cell) := by
  intro S
  obtain ⟨hinv, hr⟩ := collSys_hyps sqrt dt I vol noise ncomps rate maxiter maxerr2 hroot
  obtain ⟨st, h0, hrun, hst⟩ := run_explicit_documented S vol sol hsol hs hs0 rfl hinv hr m k u xs hlen
  refine ⟨st, h0, hrun, ?_⟩
  intro j hj
  obtain ⟨x, hx, hform⟩ := hst j hj
  refine ⟨x, hx, ?_⟩
  intro f c cell hf hc hcell
  obtain ⟨hi, hmod⟩ := coll_index ncomps vol.size f c cell hf hc hcell
  obtain ⟨r, a, b, e⟩ := hform _ hi
  have hv : get (S.var (st j)) (((ncomps.take f).sum + c) * vol.size + cell)
      = noise.getD (f % noise.length) zero :=
    variance_layout_per_field noise ncomps vol.size f c cell hf hc hcell
  have hvd : get (S.varDiff (st j)) (((ncomps.take f).sum + c) * vol.size + cell) = 0 := by
    show get (tab (ncomps.sum * vol.size) fun _ => zero) _ = 0
    rw [get_tab _ hi, zero_eq]
  have hm' : (((ncomps.take f).sum + c) * vol.size + cell) % S.ncell = cell := hmod
  rw [hm', hv] at b
  refine ⟨r, a, b, ?_⟩
  have hrate : S.rate = rate := rfl
  have hdt : S.dt = dt := rfl
  rw [e, hvd, docIncr, hrate, hdt]
  simp
  ring

end coll2

section gensum
variable {K : Type} [Field K] [LinearOrder K] [IsStrictOrderedRing K] {σ : Type}

/-- items 2 and 3 composed: the generator-threaded run of an explicit solver for `m` steps exists, leaves the
generator after exactly `m` calls, and the state after `M ≤ m` steps is the initial state plus the sum of the
documented increments, the `j`-th with the array returned by call number `j` of the generator -/
theorem runGen_explicit_sum (S : Sys K) (vol : Array K) (sol : Solver) (hsol : sol ≠ .implicit)
    (hs : S.s * S.s = S.dt) (hs0 : 0 ≤ S.s) (hreal : S.real = none)
    (hinv : ∀ i, i < S.n → get S.inv (i % S.ncell) = 1 / get vol (i % S.ncell))
    (hroot : ∀ (u : Array K) (i : Nat), i < S.n →
      RootOn S.sqrt (get (S.var u) i * get S.inv (i % S.ncell)))
    (next : σ → Array K × σ) (m k : Nat) (u : Array K) (g : σ) :
    ∃ (st : Nat → Array K) (r : Nat → Nat → K),
      st 0 = u ∧ S.runGen sol next k m u g = some (st m, genAfter next m g) ∧
      (∀ j i, j < m → i < S.n → 0 ≤ r j i ∧
        r j i * r j i = get (S.var (st j)) i * S.dt / get vol (i % S.ncell)) ∧
      ∀ M i, M ≤ m → i < S.n → get (st M) i = get u i + ∑ j ∈ Finset.range M,
        docIncr sol S.interp.alpha S.dt (get (S.rate (k + j) (st j)) i) (r j i)
          (get (next (genAfter next j g)).1 i)
          (get (S.varDiff (st j)) i) (get vol (i % S.ncell)) := by
  obtain ⟨hl, hg, hget⟩ := draws_spec next m g
  obtain ⟨st, x, r, h0, hrun, hx, hr, hsum⟩ := run_explicit_sum S vol sol hsol hs hs0 hreal hinv hroot
    m k u (draws next m g).1 (by omega)
  refine ⟨st, r, h0, ?_, hr, ?_⟩
  · rw [runGen_eq_run, hrun, hg]; rfl
  · intro M i hM hi
    rw [hsum M i hM hi]
    congr 1
    apply Finset.sum_congr rfl
    intro j hj
    have hjm : j < m := by have := Finset.mem_range.mp hj; omega
    have e : x j = (next (genAfter next j g)).1 := by
      have h1 := hx j hjm
      rw [hget j hjm] at h1
      exact (Option.some.inj h1).symm
    rw [e]

end gensum

section examples2

/-- a toy generator on `ℕ` (linear congruential state, one array of two numbers per call) -/
def exNext (g : Nat) : Array ℚ × Nat :=
  (match g % 3 with | 0 => #[3, -1] | 1 => #[1, 1] | _ => #[5, 5], (g * 5 + 3) % 101)

example : (draws exNext 3 10).1 = [#[1, 1], #[5, 5], #[3, -1]] ∧ (draws exNext 3 10).2 = 30 ∧
    genAfter exNext 3 10 = 30 ∧ genAfter exNext 2 10 = 66 := by
  refine ⟨by decide +kernel, by decide +kernel, by decide +kernel, by decide +kernel⟩

/-- the generator-threaded run of the two-cell system (volumes 4 and 1, anti-Itô, Milstein): two steps make two
calls, the state of the generator afterwards is the state after two calls, and the result is the run on the list
of the two draws -/
example : ((exSys .antiIto #[4, 1]).runGen .milstein exNext 0 2 #[1, 2] 10).map (·.2) = some (genAfter exNext 2 10) ∧
    ((exSys .antiIto #[4, 1]).runGen .milstein exNext 0 2 #[1, 2] 10).map (·.1)
      = ((exSys .antiIto #[4, 1]).run .milstein 0 2 #[1, 2] [#[1, 1], #[5, 5]]).map (·.1) ∧
    ((exSys .antiIto #[4, 1]).runGen .milstein exNext 0 2 #[1, 2] 10).map (·.1)
      ≠ some ((exSys .antiIto #[4, 1]).runDet 0 2 #[1, 2]) := by
  refine ⟨by decide +kernel, by decide +kernel, by decide +kernel⟩

/-- a collection: a scalar field and a two-component vector field on two cells of volumes 4 and 1, variances 4 and 1
per field; `dt = 1/4` -/
def exColl (I : Interp) : Sys ℚ :=
  collSys exSqrt (1 / 4) I #[4, 1] [4, 1] [1, 2] (fun _ u => tab 6 fun i => -(get u i)) none 100 (1 / 100000000)

/-- the hypotheses of `collection_run_per_field` hold for it -/
example : exSqrt (1 / 4) * exSqrt (1 / 4) = 1 / 4 ∧ (0 : ℚ) ≤ exSqrt (1 / 4) ∧
    ∀ f cell, f < [1, 2].length → cell < (#[4, 1] : Array ℚ).size →
      RootOn exSqrt (([4, 1] : List ℚ).getD (f % ([4, 1] : List ℚ).length) zero * (1 / get (#[4, 1] : Array ℚ) cell)) := by
  refine ⟨by decide +kernel, by decide +kernel, ?_⟩
  intro f cell hf hc
  have hf' : f < 2 := hf
  have hc' : cell < 2 := hc
  unfold RootOn
  match f, hf', cell, hc' with
  | 0, _, 0, _ => decide +kernel
  | 0, _, 1, _ => decide +kernel
  | 1, _, 0, _ => decide +kernel
  | 1, _, 1, _ => decide +kernel

/-- ... and its Euler-Maruyama step adds `sqrt(noise[f]*dt/V)*xi` with the variance of the field the entry belongs to:
entries 0,1 (field 0, variance 4): roots 1/2 and 1; entries 2-5 (field 1, variance 1): roots 1/4 and 1/2 -/
example : (exColl .stratonovich).step .euler 0 #[1, 1, 1, 1, 1, 1] #[1, 1, 1, 1, 1, 1]
    = some #[1 - 1 / 4 + 1 / 2, 1 - 1 / 4 + 1, 1 - 1 / 4 + 1 / 4, 1 - 1 / 4 + 1 / 2, 1 - 1 / 4 + 1 / 4, 1 - 1 / 4 + 1 / 2] := by
  decide +kernel

end examples2
section realquad

/-- **Field-dependent variance over the reals: the hypotheses of the run theorems hold.**  For the closure the
driver builds for the harness's multiplicative-noise family (`var = quadVar .. g0 g2`, i.e. `g0 + g2*u²` per component,
`inv = 1/vol`, `s = sqrt dt`) with the real square root, non-negative coefficients, positive cell volumes (any,
non-uniform) and `dt ≥ 0`, the root and volume hypotheses of `run_explicit_documented` / `run_explicit_sum` /
`runGen_explicit_sum` hold for *every* state. -/
theorem quad_variance_hyps (S : Sys ℝ) (vol g0 g2 : Array ℝ)
    (hsq : S.sqrt = Real.sqrt) (hs : S.s = Real.sqrt S.dt) (hdt : 0 ≤ S.dt)
    (hvar : S.var = quadVar S.n S.ncell g0 g2) (hinv : S.inv = invCell vol)
    (hnc : S.ncell = vol.size) (hpos : 0 < vol.size)
    (hvol : ∀ c, c < vol.size → 0 < get vol c)
    (hg0 : ∀ j, 0 ≤ get g0 j) (hg2 : ∀ j, 0 ≤ get g2 j) :
    S.s * S.s = S.dt ∧ 0 ≤ S.s ∧
    (∀ i, i < S.n → get S.inv (i % S.ncell) = 1 / get vol (i % S.ncell)) ∧
    (∀ (u : Array ℝ) (i : Nat), i < S.n →
      RootOn S.sqrt (get (S.var u) i * get S.inv (i % S.ncell))) := by
  have hmod : ∀ i, i % S.ncell < vol.size := fun i => by rw [hnc]; exact Nat.mod_lt _ hpos
  have hi : ∀ i, get S.inv (i % S.ncell) = 1 / get vol (i % S.ncell) := by
    intro i; rw [hinv]; exact get_invCell vol _ (hmod i)
  refine ⟨by rw [hs]; exact Real.mul_self_sqrt hdt, by rw [hs]; exact Real.sqrt_nonneg _,
    fun i _ => hi i, ?_⟩
  intro u i hin
  have hv : 0 ≤ get (S.var u) i := by
    rw [hvar, quadVar, get_tab _ hin]
    exact add_nonneg (hg0 _) (mul_nonneg (hg2 _) (mul_self_nonneg _))
  have hx : 0 ≤ get (S.var u) i * get S.inv (i % S.ncell) := by
    rw [hi i]
    exact mul_nonneg hv (le_of_lt (one_div_pos.mpr (hvol _ (hmod i))))
  rw [hsq]
  exact ⟨Real.mul_self_sqrt hx, Real.sqrt_nonneg _⟩

/-- the derivative the closure hands to the drift and the Milstein correction is the derivative of its variance:
`d/dx (g0 + g2*x²) = 2*g2*x`, entry-wise (as an identity of the difference quotient, no limit needed):
`var(x+h) - var(x) = (varDiff(x) + g2*h) * h` -/
theorem quadVarDiff_is_derivative (n ncell : Nat) (g0 g2 u w : Array ℝ) (i : Nat) (hi : i < n) :
    get (quadVar n ncell g0 g2 w) i - get (quadVar n ncell g0 g2 u) i
      = (get (quadVarDiff n ncell g2 u) i + get g2 (i / ncell) * (get w i - get u i)) * (get w i - get u i) := by
  rw [quadVar, quadVar, quadVarDiff, get_tab _ hi, get_tab _ hi, get_tab _ hi]
  push_cast
  ring

/-- whole runs with field-dependent variance over the reals (Stratonovich / anti-Itô drift and Milstein correction
present, non-uniform volumes, any number of steps, generator threaded) -/
theorem quad_runGen_sum {σ : Type} (S : Sys ℝ) (vol g0 g2 : Array ℝ) (sol : Solver) (hsol : sol ≠ .implicit)
    (hsq : S.sqrt = Real.sqrt) (hs : S.s = Real.sqrt S.dt) (hdt : 0 ≤ S.dt) (hreal : S.real = none)
    (hvar : S.var = quadVar S.n S.ncell g0 g2) (hvd : S.varDiff = quadVarDiff S.n S.ncell g2)
    (hinv : S.inv = invCell vol) (hnc : S.ncell = vol.size) (hpos : 0 < vol.size)
    (hvol : ∀ c, c < vol.size → 0 < get vol c)
    (hg0 : ∀ j, 0 ≤ get g0 j) (hg2 : ∀ j, 0 ≤ get g2 j)
    (next : σ → Array ℝ × σ) (m k : Nat) (u : Array ℝ) (g : σ) :
    ∃ (st : Nat → Array ℝ),
      st 0 = u ∧ S.runGen sol next k m u g = some (st m, genAfter next m g) ∧
      ∀ M i, M ≤ m → i < S.n → get (st M) i = get u i + ∑ j ∈ Finset.range M,
        docIncr sol S.interp.alpha S.dt (get (S.rate (k + j) (st j)) i)
          (Real.sqrt ((get g0 (i / S.ncell) + get g2 (i / S.ncell) * (get (st j) i * get (st j) i)) * S.dt
            / get vol (i % S.ncell)))
          (get (next (genAfter next j g)).1 i)
          (2 * get g2 (i / S.ncell) * get (st j) i) (get vol (i % S.ncell)) := by
  obtain ⟨h1, h2, h3, h4⟩ := quad_variance_hyps S vol g0 g2 hsq hs hdt hvar hinv hnc hpos hvol hg0 hg2
  obtain ⟨st, r, h0, hrun, hr, hsum⟩ := runGen_explicit_sum S vol sol hsol h1 h2 hreal h3 h4 next m k u g
  refine ⟨st, h0, hrun, ?_⟩
  intro M i hM hi
  rw [hsum M i hM hi]
  congr 1
  apply Finset.sum_congr rfl
  intro j hj
  have hjm : j < m := by have := Finset.mem_range.mp hj; omega
  obtain ⟨ra, rb⟩ := hr j i hjm hi
  have hv : get (S.var (st j)) i = get g0 (i / S.ncell) + get g2 (i / S.ncell) * (get (st j) i * get (st j) i) := by
    rw [hvar, quadVar, get_tab _ hi]
  have hd : get (S.varDiff (st j)) i = 2 * get g2 (i / S.ncell) * get (st j) i := by
    rw [hvd, quadVarDiff, get_tab _ hi]; push_cast; ring
  have hroot : r j i = Real.sqrt ((get g0 (i / S.ncell) + get g2 (i / S.ncell) * (get (st j) i * get (st j) i)) * S.dt
      / get vol (i % S.ncell)) := by
    rw [← hv, ← rb, Real.sqrt_mul_self ra]
  rw [hroot, hd]


/-- the same for the closure `quadSys` the driver builds for every field-dependent case, with the real root: all
structural hypotheses hold by construction -/
theorem quadSys_runGen_sum {σ : Type} (dt : ℝ) (I : Interp) (n : Nat) (vol g0 g2 : Array ℝ)
    (rate : Nat → Array ℝ → Array ℝ) (maxiter : Nat) (maxerr2 : ℝ) (sol : Solver) (hsol : sol ≠ .implicit)
    (hdt : 0 ≤ dt) (hpos : 0 < vol.size) (hvol : ∀ c, c < vol.size → 0 < get vol c)
    (hg0 : ∀ j, 0 ≤ get g0 j) (hg2 : ∀ j, 0 ≤ get g2 j)
    (next : σ → Array ℝ × σ) (m k : Nat) (u : Array ℝ) (g : σ) :
    let S := quadSys Real.sqrt dt I n vol g0 g2 rate none maxiter maxerr2
    ∃ (st : Nat → Array ℝ),
      st 0 = u ∧ S.runGen sol next k m u g = some (st m, genAfter next m g) ∧
      ∀ M i, M ≤ m → i < n → get (st M) i = get u i + ∑ j ∈ Finset.range M,
        docIncr sol I.alpha dt (get (rate (k + j) (st j)) i)
          (Real.sqrt ((get g0 (i / vol.size) + get g2 (i / vol.size) * (get (st j) i * get (st j) i)) * dt
            / get vol (i % vol.size)))
          (get (next (genAfter next j g)).1 i)
          (2 * get g2 (i / vol.size) * get (st j) i) (get vol (i % vol.size)) :=
  quad_runGen_sum (quadSys Real.sqrt dt I n vol g0 g2 rate none maxiter maxerr2) vol g0 g2 sol hsol rfl rfl hdt
    rfl rfl rfl rfl rfl hpos hvol hg0 hg2 next m k u g

/-- the hypotheses are satisfiable: two cells of volumes 4 and 1, variance `1 + u²/2` -/
example : (0 : ℝ) ≤ 1 / 4 ∧ 0 < (#[4, 1] : Array ℝ).size ∧ (∀ c, c < (#[4, 1] : Array ℝ).size → 0 < get (#[4, 1] : Array ℝ) c) ∧
    (∀ j, 0 ≤ get (#[1] : Array ℝ) j) ∧ (∀ j, 0 ≤ get (#[1 / 2] : Array ℝ) j) := by
  refine ⟨by norm_num, by decide, ?_, ?_, ?_⟩
  · intro c hc
    have hc' : c < 2 := hc
    match c, hc' with
    | 0, _ => simp [get]
    | 1, _ => simp [get]
  · intro j
    rcases j with _ | j <;> simp [get, zero]
  · intro j
    rcases j with _ | j <;> simp [get, zero]

end realquad

section collimp
variable {K : Type} [Field K] [LinearOrder K] [IsStrictOrderedRing K]

/-- **Collections, semi-implicit solver, whole runs.**  Every step `j` of a successful semi-implicit run of `collSys`
is the fixed-point iteration `x = base + dt*rate(x)` (documented stopping rule) started from `base + dt*rate(st j)`,
where the reference state is `base = st j + r*xi_j` entry-wise with `r ≥ 0`, `r*r = noise[f]*dt/vol[cell]` for the
field `f` and the cell the entry belongs to: the same increment as the explicit solvers add, with the variance of the
entry's own field; the arrays are the successive ones of the stream. -/
theorem collection_run_implicit_per_field (sqrt : K → K) (dt : K) (I : Interp) (vol : Array K)
    (noise : List K) (ncomps : List Nat) (rate : Nat → Array K → Array K) (maxiter : Nat)
    (maxerr2 : K) (hs : sqrt dt * sqrt dt = dt) (hs0 : 0 ≤ sqrt dt)
    (hroot : ∀ f cell, f < ncomps.length → cell < vol.size →
      RootOn sqrt (noise.getD (f % noise.length) zero * (1 / get vol cell)))
    (hroot2 : ∀ f cell, f < ncomps.length → cell < vol.size →
      RootOn sqrt (dt * (noise.getD (f % noise.length) zero * (1 / get vol cell))))
    (m k : Nat) (u : Array K) (xs : List (Array K)) (u' : Array K) (rest : List (Array K)) :
    let S := collSys sqrt dt I vol noise ncomps rate none maxiter maxerr2
    S.run .implicit k m u xs = some (u', rest) →
    ∃ st : Nat → Array K, st 0 = u ∧ st m = u' ∧ rest = xs.drop m ∧
      ∀ j, j < m → ∃ x base, xs[j]? = some x ∧
        siIterate S (k + j) base maxiter (siGuess S.n dt base (rate (k + j) (st j))) = some (st (j + 1)) ∧
        ∀ (f c cell : Nat) (hf : f < ncomps.length), c < ncomps[f] → cell < vol.size →
          ∃ r : K, 0 ≤ r ∧ r * r = noise.getD (f % noise.length) zero * dt / get vol cell ∧
            get base (((ncomps.take f).sum + c) * vol.size + cell)
              = get (st j) (((ncomps.take f).sum + c) * vol.size + cell)
                + r * get x (((ncomps.take f).sum + c) * vol.size + cell) := by
  intro S h
  obtain ⟨hinv, h1⟩ := collSys_hyps sqrt dt I vol noise ncomps rate maxiter maxerr2 hroot
  have h2 : ∀ (u : Array K) (i : Nat), i < S.n →
      RootOn S.sqrt (S.dt * (get (S.var u) i * get S.inv (i % S.ncell))) := by
    -- the same decomposition as in `collSys_hyps`, for the root of `dt * x`
    intro u i hi
    have hn : S.n = ncomps.sum * vol.size := rfl
    have hpos : 0 < vol.size := by
      rcases Nat.eq_zero_or_pos vol.size with h0 | h0
      · rw [hn, h0] at hi; omega
      · exact h0
    have hmod : i % vol.size < vol.size := Nat.mod_lt _ hpos
    have hp : i / vol.size < ncomps.sum := by
      apply Nat.div_lt_of_lt_mul
      rw [Nat.mul_comm]; exact hn ▸ hi
    obtain ⟨f, c, hf, hcf, e⟩ := exists_field_of_comp ncomps _ hp
    have hi' : i = ((ncomps.take f).sum + c) * vol.size + i % vol.size := by
      rw [← e]; exact (Nat.div_add_mod' i vol.size).symm
    have hv : get (S.var u) i = noise.getD (f % noise.length) zero := by
      show get (constVar vol.size (collVars noise ncomps)) i = _
      rw [hi']
      exact variance_layout_per_field noise ncomps vol.size f c _ hf hcf hmod
    rw [hinv i hi, hv]
    exact hroot2 f _ hf hmod
  obtain ⟨st, h0, hm, hdrop, hst⟩ := run_implicit_documented S hs hs0 h1 h2 m k u xs u' rest h
  refine ⟨st, h0, hm, hdrop, ?_⟩
  intro j hj
  obtain ⟨x, hx, hit⟩ := hst j hj
  refine ⟨x, _, hx, hit, ?_⟩
  intro f c cell hf hc hcell
  obtain ⟨hi, hmod⟩ := coll_index ncomps vol.size f c cell hf hc hcell
  have hv : get (S.var (st j)) (((ncomps.take f).sum + c) * vol.size + cell)
      = noise.getD (f % noise.length) zero :=
    variance_layout_per_field noise ncomps vol.size f c cell hf hc hcell
  have hR := h1 (st j) _ hi
  have hm' : (((ncomps.take f).sum + c) * vol.size + cell) % S.ncell = cell := hmod
  obtain ⟨r0, r2⟩ := root_of_product (s := S.s) (dt := S.dt) (V := get vol cell) hs hR.1
    (by rw [hinv _ hi, hm']) hs0 hR.2
  have hdt : S.dt = dt := rfl
  have hi' : ((ncomps.take f).sum + c) * vol.size + cell < S.n := hi
  refine ⟨_, r0, r2.trans (by rw [hv, hdt]), ?_⟩
  rw [get_tab _ hi', Sys.emIncrement, get_tab _ hi', rootsEM, get_tab _ hi']

end collimp

section examples3

/-- the additional root hypothesis of `collection_run_implicit_per_field` holds for the example collection
(`dt*noise[f]/vol[cell]` = 1/4, 1, 1/16, 1/4) ... -/
example : ∀ f cell, f < [1, 2].length → cell < (#[4, 1] : Array ℚ).size →
      RootOn exSqrt ((1 / 4 : ℚ) * (([4, 1] : List ℚ).getD (f % ([4, 1] : List ℚ).length) zero
        * (1 / get (#[4, 1] : Array ℚ) cell))) := by
  intro f cell hf hc
  have hf' : f < 2 := hf
  have hc' : cell < 2 := hc
  unfold RootOn
  match f, hf', cell, hc' with
  | 0, _, 0, _ => decide +kernel
  | 0, _, 1, _ => decide +kernel
  | 1, _, 0, _ => decide +kernel
  | 1, _, 1, _ => decide +kernel

/-- ... and its semi-implicit run converges, consumes one array per step and moves away from the deterministic one -/
example : ((exColl .ito).run .implicit 0 2 #[1, 1, 1, 1, 1, 1]
      [#[1, 1, 1, 1, 1, 1], #[-1, 0, 1, 2, 0, 1], #[5, 5, 5, 5, 5, 5]]).map (·.2) = some [#[5, 5, 5, 5, 5, 5]] := by
  decide +kernel

end examples3


section fieldsys
variable {K : Type} [Field K] [LinearOrder K] [IsStrictOrderedRing K]

omit [Field K] [LinearOrder K] [IsStrictOrderedRing K] in
theorem field_index (ncomp ncell c cell : Nat) (hc : c < ncomp) (hcell : cell < ncell) :
    c * ncell + cell < ncomp * ncell ∧ (c * ncell + cell) % ncell = cell := by
  constructor
  · calc c * ncell + cell < c * ncell + ncell := by omega
      _ = (c + 1) * ncell := by ring
      _ ≤ ncomp * ncell := Nat.mul_le_mul_right _ (by omega)
  · rw [Nat.add_mod, Nat.mul_mod_left, Nat.zero_add, Nat.mod_mod, Nat.mod_eq_of_lt hcell]

omit [IsStrictOrderedRing K] in
/-- the hypotheses of the run theorems hold for `fieldSys`, given roots of `noise[c]/vol[cell]` only -/
theorem fieldSys_hyps (sqrt : K → K) (dt : K) (I : Interp) (vol : Array K) (noise : List K)
    (ncomp : Nat) (rate : Nat → Array K → Array K) (maxiter : Nat) (maxerr2 : K)
    (hroot : ∀ c cell, c < ncomp → cell < vol.size →
      RootOn sqrt (noise.getD (c % noise.length) zero * (1 / get vol cell))) :
    let S := fieldSys sqrt dt I vol noise ncomp rate none maxiter maxerr2
    (∀ i, i < S.n → get S.inv (i % S.ncell) = 1 / get vol (i % S.ncell)) ∧
    (∀ (u : Array K) (i : Nat), i < S.n →
      RootOn S.sqrt (get (S.var u) i * get S.inv (i % S.ncell))) := by
  intro S
  have hn : S.n = ncomp * vol.size := rfl
  have hc : S.ncell = vol.size := rfl
  have hmod : ∀ i, i < S.n → i % vol.size < vol.size := by
    intro i hi
    apply Nat.mod_lt
    rcases Nat.eq_zero_or_pos vol.size with h0 | h0
    · rw [hn, h0] at hi; omega
    · exact h0
  have hinv : ∀ i, i < S.n → get S.inv (i % S.ncell) = 1 / get vol (i % S.ncell) := by
    intro i hi
    rw [hc]
    exact get_invCell vol _ (hmod i hi)
  refine ⟨hinv, ?_⟩
  intro u i hi
  rw [hinv i hi, hc]
  have hp : i / vol.size < ncomp := by
    apply Nat.div_lt_of_lt_mul
    rw [Nat.mul_comm]; exact hn ▸ hi
  have hi' : i = (i / vol.size) * vol.size + i % vol.size := (Nat.div_add_mod' i vol.size).symm
  have hv : get (S.var u) i = noise.getD ((i / vol.size) % noise.length) zero := by
    show get (constVar vol.size (fieldVars noise ncomp)) i = _
    rw [hi']
    have := (variance_layout_per_component noise ncomp vol.size (i / vol.size) (i % vol.size) hp (hmod i hi)).1
    rw [this, ← hi']
  rw [hv]
  exact hroot _ _ hp (hmod i hi)

/-- **Per-component variances of a tensor field in whole runs.**  For the closure `fieldSys` the driver builds for a
single field with `ncomp` tensor components (noise broadcast `noise[c % len]`: a scalar, or one value per component), an
`m`-step run of an explicit solver exists, consumes `m` arrays, and in every step the entry of component `c` in cell
`cell` changes by `dt*rate + r*xi` with `r ≥ 0`, `r*r = noise[c]*dt/vol[cell]`. -/
theorem field_run_per_component (sqrt : K → K) (dt : K) (I : Interp) (vol : Array K)
    (noise : List K) (ncomp : Nat) (rate : Nat → Array K → Array K) (maxiter : Nat)
    (maxerr2 : K) (sol : Solver) (hsol : sol ≠ .implicit)
    (hs : sqrt dt * sqrt dt = dt) (hs0 : 0 ≤ sqrt dt)
    (hroot : ∀ c cell, c < ncomp → cell < vol.size →
      RootOn sqrt (noise.getD (c % noise.length) zero * (1 / get vol cell)))
    (m k : Nat) (u : Array K) (xs : List (Array K)) (hlen : m ≤ xs.length) :
    let S := fieldSys sqrt dt I vol noise ncomp rate none maxiter maxerr2
    ∃ st : Nat → Array K, st 0 = u ∧ S.run sol k m u xs = some (st m, xs.drop m) ∧
      ∀ j, j < m → ∃ x, xs[j]? = some x ∧
        ∀ (c cell : Nat), c < ncomp → cell < vol.size →
          ∃ r : K, 0 ≤ r ∧ r * r = noise.getD (c % noise.length) zero * dt / get vol cell ∧
            get (st (j + 1)) (c * vol.size + cell)
              = get (st j) (c * vol.size + cell)
                + dt * get (rate (k + j) (st j)) (c * vol.size + cell)
                + r * get x (c * vol.size + cell) := by
  intro S
  obtain ⟨hinv, hr⟩ := fieldSys_hyps sqrt dt I vol noise ncomp rate maxiter maxerr2 hroot
  obtain ⟨st, h0, hrun, hst⟩ := run_explicit_documented S vol sol hsol hs hs0 rfl hinv hr m k u xs hlen
  refine ⟨st, h0, hrun, ?_⟩
  intro j hj
  obtain ⟨x, hx, hform⟩ := hst j hj
  refine ⟨x, hx, ?_⟩
  intro c cell hc hcell
  obtain ⟨hi, hmod⟩ := field_index ncomp vol.size c cell hc hcell
  obtain ⟨r, a, b, e⟩ := hform _ hi
  have hv : get (S.var (st j)) (c * vol.size + cell) = noise.getD (c % noise.length) zero :=
    (variance_layout_per_component noise ncomp vol.size c cell hc hcell).1
  have hvd : get (S.varDiff (st j)) (c * vol.size + cell) = 0 := by
    show get (tab (ncomp * vol.size) fun _ => zero) _ = 0
    rw [get_tab _ hi, zero_eq]
  have hm' : (c * vol.size + cell) % S.ncell = cell := hmod
  rw [hm', hv] at b
  refine ⟨r, a, b, ?_⟩
  have hrate : S.rate = rate := rfl
  have hdt : S.dt = dt := rfl
  rw [e, hvd, docIncr, hrate, hdt]
  simp
  ring

end fieldsys

section examples4

/-- a vector field with two components on two cells of volumes 4 and 1, variances 4 and 1 per component: the hypotheses
of `field_run_per_component` hold -/
example : ∀ c cell, c < 2 → cell < (#[4, 1] : Array ℚ).size →
      RootOn exSqrt (([4, 1] : List ℚ).getD (c % ([4, 1] : List ℚ).length) zero * (1 / get (#[4, 1] : Array ℚ) cell)) := by
  intro f cell hf hc
  have hc' : cell < 2 := hc
  unfold RootOn
  match f, hf, cell, hc' with
  | 0, _, 0, _ => decide +kernel
  | 0, _, 1, _ => decide +kernel
  | 1, _, 0, _ => decide +kernel
  | 1, _, 1, _ => decide +kernel

/-- ... and its Milstein step uses the roots 1/2, 1 (component 0) and 1/4, 1/2 (component 1) -/
example : (fieldSys exSqrt (1 / 4) .antiIto #[4, 1] [4, 1] 2 (fun _ u => tab 4 fun i => -(get u i)) none 100
      (1 / 100000000)).step .milstein 0 #[1, 1, 1, 1] #[1, 1, 1, 1]
    = some #[1 - 1 / 4 + 1 / 2, 1 - 1 / 4 + 1, 1 - 1 / 4 + 1 / 4, 1 - 1 / 4 + 1 / 2] := by
  decide +kernel

end examples4

end PdeVerif.Noise
