import PdeVerif.Props.C16
import PdeVerif.Lemmas.InterpEps
/-
C16 at the clipping constant of the real code.

`get_axis_data` replaces a weight below `1e-15` by 0 (`eps` in the model).  The value theorems of
`Props/C16.lean` whose statement fixes exact weights are stated for inert clipping (`eps ≤ 0`).  This
file lifts them to every `0 ≤ eps ≤ 1/2` (in particular the code's `1e-15`, which is what the driver
evaluates) with explicit error terms:

* `clipping_error`, `clipping_error2`, `clipping_error3` - the interpolator with clipping constant
  `eps` rejects exactly the points the exact one (`eps = 0`) rejects, and on every accepted point the
  two values differ by at most `eps·M`, `2·eps·M`, `3·eps·M` (`M` a bound of `|data|` on the cells of
  the - in ghost-cell mode padded - array).  Every mode (plain, periodic, ghost cells, cell
  coordinates), every point.  So **every** value theorem proved for `eps = 0` holds for the real
  constant up to `axes · eps · max|data|`; `real_eps_of_exact`, `..2`, `..3` are this composition
  (hypothesis: the exact interpolator returns `v0`; conclusion: the real one returns a value within
  the bound, whatever the fill value).
* the composition spelled out for the clauses of the property: `multilinear_between_centres_eps`,
  `..2_eps`, `..3_eps`, `exact_on_affine_eps`, `..2_eps`, `..3_eps`, `within_data_range_eps`,
  `..2_eps`, `..3_eps`, `periodic_seam_eps`, `boundary_strip_nearest_eps`,
  `ghost_mode_linear_to_bc_value_eps`, `ghost_mode_dirichlet_value_eps`.
* `insert_compiled_integral`, `..2`, `..3` (any `eps`): the compiled inserter raises the integral by
  `(Σ weights) · amount`; `insert_conserves_compiled_eps`, `..2_eps`, `..3_eps`: for `0 ≤ eps ≤ 1/2`
  that is within `eps·|amount|`, `2 eps |amount|`, `3 eps |amount|` of `amount`.
* `insert_compiled_ghost_integral`, `..2`, `insert_conserves_compiled_ghost_eps`, `..ghost2_eps`: the same
  for the ghost-cell variant of the compiled inserter (1 and 2 axes) when the support cells are valid cells.
* `insert_interpreted_eq_compiled_eps`, `..2_eps`, `..3_eps`: interpreted `insert` (which does not
  clip) and compiled inserter differ in a cell of volume `vol` by at most
  `axes · eps · |amount / vol|`.
-/
set_option linter.unusedSectionVars false
namespace PdeVerif.Interp
open PdeVerif

section
variable {K : Type} [Field K] [LinearOrder K] [IsStrictOrderedRing K] [FloorRing K]

/-! ## the interpolators: real clipping constant against exact weights -/

/-- **clipping error, 1 axis** -/
theorem clipping_error {eps : K} (h0 : 0 ≤ eps) (h1 : eps ≤ 1/2) (ghost cc : Bool) (ax : Axis K)
    (hs : 1 ≤ ax.size) (data : Idx → K) {M : K}
    (hM : ∀ i, 0 ≤ i → i < ax.size + 2 * shift ghost → |data [i]| ≤ M) (px : K) :
    (∀ fill, interp1 eps ghost cc fill ax data px = fill ∧ interp1 0 ghost cc fill ax data px = fill) ∨
    ∃ v v0, (∀ fill, interp1 eps ghost cc fill ax data px = some v) ∧
      (∀ fill, interp1 0 ghost cc fill ax data px = some v0) ∧ |v - v0| ≤ eps * M := by
  rcases axisData_clipRel eps ghost cc ax px with ⟨hn, hn0⟩ | ⟨a, a0, ha, ha0, hr⟩
  · exact Or.inl fun fill => ⟨interp1_none hn, interp1_none hn0⟩
  · obtain ⟨⟨l0, l1⟩, ⟨u0, u1⟩⟩ := axisData_indices_any hs ha0
    exact Or.inr ⟨_, _, fun fill => interp1_some ha, fun fill => interp1_some ha0,
      axisApply_clip_error hr h0 h1 (fun i => data [i]) (hM _ l0 l1) (hM _ u0 u1)⟩

/-- **clipping error, 2 axes** -/
theorem clipping_error2 {eps : K} (h0 : 0 ≤ eps) (h1 : eps ≤ 1/2) (ghost cc : Bool) (ax ay : Axis K)
    (hsx : 1 ≤ ax.size) (hsy : 1 ≤ ay.size) (data : Idx → K) {M : K}
    (hM : ∀ i j, 0 ≤ i → i < ax.size + 2 * shift ghost → 0 ≤ j → j < ay.size + 2 * shift ghost →
      |data [i, j]| ≤ M) (px py : K) :
    (∀ fill, interp2 eps ghost cc fill ax ay data px py = fill ∧
        interp2 0 ghost cc fill ax ay data px py = fill) ∨
    ∃ v v0, (∀ fill, interp2 eps ghost cc fill ax ay data px py = some v) ∧
      (∀ fill, interp2 0 ghost cc fill ax ay data px py = some v0) ∧ |v - v0| ≤ 2 * eps * M := by
  rcases axisData_clipRel eps ghost cc ax px with ⟨hn, hn0⟩ | ⟨a, a0, ha, ha0, hra⟩
  · exact Or.inl fun fill => ⟨interp2_none (Or.inl hn), interp2_none (Or.inl hn0)⟩
  rcases axisData_clipRel eps ghost cc ay py with ⟨hn, hn0⟩ | ⟨b, b0, hb, hb0, hrb⟩
  · exact Or.inl fun fill => ⟨interp2_none (Or.inr hn), interp2_none (Or.inr hn0)⟩
  obtain ⟨⟨al0, al1⟩, ⟨au0, au1⟩⟩ := axisData_indices_any hsx ha0
  obtain ⟨⟨bl0, bl1⟩, ⟨bu0, bu1⟩⟩ := axisData_indices_any hsy hb0
  refine Or.inr ⟨_, _, fun fill => interp2_some ha hb, fun fill => interp2_some ha0 hb0,
    nest2_clip_error hra hrb h0 h1 (fun i j => data [i, j]) ?_⟩
  intro i hi j hj
  rcases hi with rfl | rfl <;> rcases hj with rfl | rfl <;> apply hM <;> assumption

/-- **clipping error, 3 axes** -/
theorem clipping_error3 {eps : K} (h0 : 0 ≤ eps) (h1 : eps ≤ 1/2) (ghost cc : Bool)
    (ax ay az : Axis K) (hsx : 1 ≤ ax.size) (hsy : 1 ≤ ay.size) (hsz : 1 ≤ az.size)
    (data : Idx → K) {M : K}
    (hM : ∀ i j k, 0 ≤ i → i < ax.size + 2 * shift ghost → 0 ≤ j → j < ay.size + 2 * shift ghost →
      0 ≤ k → k < az.size + 2 * shift ghost → |data [i, j, k]| ≤ M) (px py pz : K) :
    (∀ fill, interp3 eps ghost cc fill ax ay az data px py pz = fill ∧
        interp3 0 ghost cc fill ax ay az data px py pz = fill) ∨
    ∃ v v0, (∀ fill, interp3 eps ghost cc fill ax ay az data px py pz = some v) ∧
      (∀ fill, interp3 0 ghost cc fill ax ay az data px py pz = some v0) ∧
      |v - v0| ≤ 3 * eps * M := by
  rcases axisData_clipRel eps ghost cc ax px with ⟨hn, hn0⟩ | ⟨a, a0, ha, ha0, hra⟩
  · exact Or.inl fun fill => ⟨interp3_none (Or.inl hn), interp3_none (Or.inl hn0)⟩
  rcases axisData_clipRel eps ghost cc ay py with ⟨hn, hn0⟩ | ⟨b, b0, hb, hb0, hrb⟩
  · exact Or.inl fun fill => ⟨interp3_none (Or.inr (Or.inl hn)), interp3_none (Or.inr (Or.inl hn0))⟩
  rcases axisData_clipRel eps ghost cc az pz with ⟨hn, hn0⟩ | ⟨c, c0, hc, hc0, hrc⟩
  · exact Or.inl fun fill => ⟨interp3_none (Or.inr (Or.inr hn)), interp3_none (Or.inr (Or.inr hn0))⟩
  obtain ⟨⟨al0, al1⟩, ⟨au0, au1⟩⟩ := axisData_indices_any hsx ha0
  obtain ⟨⟨bl0, bl1⟩, ⟨bu0, bu1⟩⟩ := axisData_indices_any hsy hb0
  obtain ⟨⟨cl0, cl1⟩, ⟨cu0, cu1⟩⟩ := axisData_indices_any hsz hc0
  refine Or.inr ⟨_, _, fun fill => interp3_some ha hb hc, fun fill => interp3_some ha0 hb0 hc0,
    nest3_clip_error hra hrb hrc h0 h1 (fun i j k => data [i, j, k]) ?_⟩
  intro i hi j hj k hk
  rcases hi with rfl | rfl <;> rcases hj with rfl | rfl <;> rcases hk with rfl | rfl <;>
    apply hM <;> assumption

/-- composition with any value theorem of the exact interpolator, 1 axis: where the interpolator
with inert clipping returns `v0`, the real one returns a value within `eps·M`, whatever the fill -/
theorem real_eps_of_exact {eps : K} (h0 : 0 ≤ eps) (h1 : eps ≤ 1/2) (ghost cc : Bool) (ax : Axis K)
    (hs : 1 ≤ ax.size) (data : Idx → K) {M : K}
    (hM : ∀ i, 0 ≤ i → i < ax.size + 2 * shift ghost → |data [i]| ≤ M) (px : K) {v0 : K}
    (hx : interp1 0 ghost cc none ax data px = some v0) :
    ∃ v, (∀ fill, interp1 eps ghost cc fill ax data px = some v) ∧ |v - v0| ≤ eps * M := by
  rcases clipping_error h0 h1 ghost cc ax hs data hM px with hrej | ⟨v, v0', hv, hv0, hb⟩
  · rw [(hrej none).2] at hx; exact absurd hx (by simp)
  · have e : v0' = v0 := by have := hv0 none; rw [hx] at this; exact (Option.some.inj this).symm
    subst e; exact ⟨v, hv, hb⟩

theorem real_eps_of_exact2 {eps : K} (h0 : 0 ≤ eps) (h1 : eps ≤ 1/2) (ghost cc : Bool)
    (ax ay : Axis K) (hsx : 1 ≤ ax.size) (hsy : 1 ≤ ay.size) (data : Idx → K) {M : K}
    (hM : ∀ i j, 0 ≤ i → i < ax.size + 2 * shift ghost → 0 ≤ j → j < ay.size + 2 * shift ghost →
      |data [i, j]| ≤ M) (px py : K) {v0 : K}
    (hx : interp2 0 ghost cc none ax ay data px py = some v0) :
    ∃ v, (∀ fill, interp2 eps ghost cc fill ax ay data px py = some v) ∧ |v - v0| ≤ 2 * eps * M := by
  rcases clipping_error2 h0 h1 ghost cc ax ay hsx hsy data hM px py with hrej | ⟨v, v0', hv, hv0, hb⟩
  · rw [(hrej none).2] at hx; exact absurd hx (by simp)
  · have e : v0' = v0 := by have := hv0 none; rw [hx] at this; exact (Option.some.inj this).symm
    subst e; exact ⟨v, hv, hb⟩

theorem real_eps_of_exact3 {eps : K} (h0 : 0 ≤ eps) (h1 : eps ≤ 1/2) (ghost cc : Bool)
    (ax ay az : Axis K) (hsx : 1 ≤ ax.size) (hsy : 1 ≤ ay.size) (hsz : 1 ≤ az.size)
    (data : Idx → K) {M : K}
    (hM : ∀ i j k, 0 ≤ i → i < ax.size + 2 * shift ghost → 0 ≤ j → j < ay.size + 2 * shift ghost →
      0 ≤ k → k < az.size + 2 * shift ghost → |data [i, j, k]| ≤ M) (px py pz : K) {v0 : K}
    (hx : interp3 0 ghost cc none ax ay az data px py pz = some v0) :
    ∃ v, (∀ fill, interp3 eps ghost cc fill ax ay az data px py pz = some v) ∧
      |v - v0| ≤ 3 * eps * M := by
  rcases clipping_error3 h0 h1 ghost cc ax ay az hsx hsy hsz data hM px py pz with
    hrej | ⟨v, v0', hv, hv0, hb⟩
  · rw [(hrej none).2] at hx; exact absurd hx (by simp)
  · have e : v0' = v0 := by have := hv0 none; rw [hx] at this; exact (Option.some.inj this).symm
    subst e; exact ⟨v, hv, hb⟩

/-! ## the clauses of the property at the real clipping constant -/

/-- **multilinear between centres** with the code's clipping: within `eps·M` of the linear
interpolant of the two neighbouring cells -/
theorem multilinear_between_centres_eps {eps : K} (h0 : 0 ≤ eps) (h1 : eps ≤ 1/2) (ghost : Bool)
    (ax : Axis K) (hdx : ax.dx ≠ 0) (data : Idx → K) {M : K}
    (hM : ∀ i, 0 ≤ i → i < ax.size + 2 * shift ghost → |data [i]| ≤ M)
    (i : Int) (hi0 : 0 ≤ i) (hi1 : i + 1 < ax.size) {t : K} (ht0 : 0 ≤ t) (ht1 : t < 1) :
    ∃ v, (∀ fill, interp1 eps ghost false fill ax data (centre ax i + t * ax.dx) = some v) ∧
      |v - lerp t (data [i + shift ghost]) (data [i + 1 + shift ghost])| ≤ eps * M :=
  real_eps_of_exact h0 h1 ghost false ax (by omega) data hM _
    (multilinear_between_centres (le_refl 0) ghost none ax hdx data i hi0 hi1 ht0 ht1)

theorem multilinear_between_centres2_eps {eps : K} (h0 : 0 ≤ eps) (h1 : eps ≤ 1/2) (ghost : Bool)
    (ax ay : Axis K) (hdx : ax.dx ≠ 0) (hdy : ay.dx ≠ 0) (data : Idx → K) {M : K}
    (hM : ∀ i j, 0 ≤ i → i < ax.size + 2 * shift ghost → 0 ≤ j → j < ay.size + 2 * shift ghost →
      |data [i, j]| ≤ M)
    (i j : Int) (hi0 : 0 ≤ i) (hi1 : i + 1 < ax.size) (hj0 : 0 ≤ j) (hj1 : j + 1 < ay.size)
    {t u : K} (ht0 : 0 ≤ t) (ht1 : t < 1) (hu0 : 0 ≤ u) (hu1 : u < 1) :
    ∃ v, (∀ fill, interp2 eps ghost false fill ax ay data (centre ax i + t * ax.dx)
        (centre ay j + u * ay.dx) = some v) ∧
      |v - lerp t
          (lerp u (data [i + shift ghost, j + shift ghost]) (data [i + shift ghost, j + 1 + shift ghost]))
          (lerp u (data [i + 1 + shift ghost, j + shift ghost])
            (data [i + 1 + shift ghost, j + 1 + shift ghost]))| ≤ 2 * eps * M :=
  real_eps_of_exact2 h0 h1 ghost false ax ay (by omega) (by omega) data hM _ _
    (multilinear_between_centres2 (le_refl 0) ghost none ax ay hdx hdy data i j hi0 hi1 hj0 hj1
      ht0 ht1 hu0 hu1)

theorem multilinear_between_centres3_eps {eps : K} (h0 : 0 ≤ eps) (h1 : eps ≤ 1/2) (ghost : Bool)
    (ax ay az : Axis K) (hdx : ax.dx ≠ 0) (hdy : ay.dx ≠ 0) (hdz : az.dx ≠ 0) (data : Idx → K) {M : K}
    (hM : ∀ i j k, 0 ≤ i → i < ax.size + 2 * shift ghost → 0 ≤ j → j < ay.size + 2 * shift ghost →
      0 ≤ k → k < az.size + 2 * shift ghost → |data [i, j, k]| ≤ M)
    (i j k : Int) (hi0 : 0 ≤ i) (hi1 : i + 1 < ax.size) (hj0 : 0 ≤ j) (hj1 : j + 1 < ay.size)
    (hk0 : 0 ≤ k) (hk1 : k + 1 < az.size)
    {t u w : K} (ht0 : 0 ≤ t) (ht1 : t < 1) (hu0 : 0 ≤ u) (hu1 : u < 1) (hw0 : 0 ≤ w) (hw1 : w < 1) :
    ∃ v, (∀ fill, interp3 eps ghost false fill ax ay az data (centre ax i + t * ax.dx)
        (centre ay j + u * ay.dx) (centre az k + w * az.dx) = some v) ∧
      |v - (let s := shift ghost
            lerp t
              (lerp u (lerp w (data [i + s, j + s, k + s]) (data [i + s, j + s, k + 1 + s]))
                (lerp w (data [i + s, j + 1 + s, k + s]) (data [i + s, j + 1 + s, k + 1 + s])))
              (lerp u (lerp w (data [i + 1 + s, j + s, k + s]) (data [i + 1 + s, j + s, k + 1 + s]))
                (lerp w (data [i + 1 + s, j + 1 + s, k + s])
                  (data [i + 1 + s, j + 1 + s, k + 1 + s]))))| ≤ 3 * eps * M :=
  real_eps_of_exact3 h0 h1 ghost false ax ay az (by omega) (by omega) (by omega) data hM _ _ _
    (multilinear_between_centres3 (le_refl 0) ghost none ax ay az hdx hdy hdz data i j k
      hi0 hi1 hj0 hj1 hk0 hk1 ht0 ht1 hu0 hu1 hw0 hw1)

/-- **affine fields** with the code's clipping: reproduced up to `eps·M` -/
theorem exact_on_affine_eps {eps : K} (h0 : 0 ≤ eps) (h1 : eps ≤ 1/2) (ax : Axis K)
    (hs : 1 ≤ ax.size) (hdx : 0 < ax.dx) (data : Idx → K) (α β : K)
    (hd : ∀ i, 0 ≤ i → i < ax.size → data [i] = α + β * centre ax i) {M : K}
    (hM : ∀ i, 0 ≤ i → i < ax.size → |data [i]| ≤ M)
    (px : K) (hp1 : centre ax 0 ≤ px) (hp2 : px ≤ centre ax (ax.size - 1)) :
    ∃ v, (∀ fill, interp1 eps false false fill ax data px = some v) ∧
      |v - (α + β * px)| ≤ eps * M :=
  real_eps_of_exact h0 h1 false false ax hs data
    (fun i a b => hM i a (by simpa [shift] using b)) px
    (exact_on_affine (le_refl 0) none ax hs hdx data α β hd px hp1 hp2)

theorem exact_on_affine2_eps {eps : K} (h0 : 0 ≤ eps) (h1 : eps ≤ 1/2) (ax ay : Axis K)
    (hsx : 1 ≤ ax.size) (hsy : 1 ≤ ay.size) (hdx : 0 < ax.dx) (hdy : 0 < ay.dx) (data : Idx → K)
    (α βx βy : K)
    (hd : ∀ i j, 0 ≤ i → i < ax.size → 0 ≤ j → j < ay.size →
      data [i, j] = α + βx * centre ax i + βy * centre ay j) {M : K}
    (hM : ∀ i j, 0 ≤ i → i < ax.size → 0 ≤ j → j < ay.size → |data [i, j]| ≤ M)
    (px py : K) (hx1 : centre ax 0 ≤ px) (hx2 : px ≤ centre ax (ax.size - 1))
    (hy1 : centre ay 0 ≤ py) (hy2 : py ≤ centre ay (ay.size - 1)) :
    ∃ v, (∀ fill, interp2 eps false false fill ax ay data px py = some v) ∧
      |v - (α + βx * px + βy * py)| ≤ 2 * eps * M :=
  real_eps_of_exact2 h0 h1 false false ax ay hsx hsy data
    (fun i j a b c d => hM i j a (by simpa [shift] using b) c (by simpa [shift] using d)) px py
    (exact_on_affine2 (le_refl 0) none ax ay hsx hsy hdx hdy data α βx βy hd px py hx1 hx2 hy1 hy2)

theorem exact_on_affine3_eps {eps : K} (h0 : 0 ≤ eps) (h1 : eps ≤ 1/2) (ax ay az : Axis K)
    (hsx : 1 ≤ ax.size) (hsy : 1 ≤ ay.size) (hsz : 1 ≤ az.size)
    (hdx : 0 < ax.dx) (hdy : 0 < ay.dx) (hdz : 0 < az.dx) (data : Idx → K) (α βx βy βz : K)
    (hd : ∀ i j k, 0 ≤ i → i < ax.size → 0 ≤ j → j < ay.size → 0 ≤ k → k < az.size →
      data [i, j, k] = α + βx * centre ax i + βy * centre ay j + βz * centre az k) {M : K}
    (hM : ∀ i j k, 0 ≤ i → i < ax.size → 0 ≤ j → j < ay.size → 0 ≤ k → k < az.size →
      |data [i, j, k]| ≤ M)
    (px py pz : K) (hx1 : centre ax 0 ≤ px) (hx2 : px ≤ centre ax (ax.size - 1))
    (hy1 : centre ay 0 ≤ py) (hy2 : py ≤ centre ay (ay.size - 1))
    (hz1 : centre az 0 ≤ pz) (hz2 : pz ≤ centre az (az.size - 1)) :
    ∃ v, (∀ fill, interp3 eps false false fill ax ay az data px py pz = some v) ∧
      |v - (α + βx * px + βy * py + βz * pz)| ≤ 3 * eps * M :=
  real_eps_of_exact3 h0 h1 false false ax ay az hsx hsy hsz data
    (fun i j k a b c d e f => hM i j k a (by simpa [shift] using b) c (by simpa [shift] using d) e
      (by simpa [shift] using f)) px py pz
    (exact_on_affine3 (le_refl 0) none ax ay az hsx hsy hsz hdx hdy hdz data α βx βy βz hd px py pz
      hx1 hx2 hy1 hy2 hz1 hz2)

/-- **range** with the code's clipping: an accepted point gets a value between the smallest and the
largest cell value, up to `eps·B` (`B` a bound of `|data|`) -/
theorem within_data_range_eps {eps : K} (h0 : 0 ≤ eps) (h1 : eps ≤ 1/2) (cc : Bool) (ax : Axis K)
    (hs : 1 ≤ ax.size) (data : Idx → K) {m M B : K}
    (hd : ∀ i, 0 ≤ i → i < ax.size → m ≤ data [i] ∧ data [i] ≤ M)
    (hB : ∀ i, 0 ≤ i → i < ax.size → |data [i]| ≤ B) (px v : K)
    (h : interp1 eps false cc none ax data px = some v) : m - eps * B ≤ v ∧ v ≤ M + eps * B := by
  rcases clipping_error h0 h1 false cc ax hs data
    (fun i a b => hB i a (by simpa [shift] using b)) px with hrej | ⟨v', v0, hv, hv0, hb⟩
  · rw [(hrej none).1] at h; exact absurd h (by simp)
  · have e : v' = v := by have := hv none; rw [h] at this; exact (Option.some.inj this).symm
    subst e
    rcases within_data_range (le_refl 0) cc none ax hs data hd px v0 (hv0 none) with ⟨-, hf⟩ | hr
    · exact absurd hf (by simp)
    · obtain ⟨b1, b2⟩ := abs_le.mp hb
      constructor <;> linarith [hr.1, hr.2]

theorem within_data_range2_eps {eps : K} (h0 : 0 ≤ eps) (h1 : eps ≤ 1/2) (cc : Bool) (ax ay : Axis K)
    (hsx : 1 ≤ ax.size) (hsy : 1 ≤ ay.size) (data : Idx → K) {m M B : K}
    (hd : ∀ i j, 0 ≤ i → i < ax.size → 0 ≤ j → j < ay.size → m ≤ data [i, j] ∧ data [i, j] ≤ M)
    (hB : ∀ i j, 0 ≤ i → i < ax.size → 0 ≤ j → j < ay.size → |data [i, j]| ≤ B) (px py v : K)
    (h : interp2 eps false cc none ax ay data px py = some v) :
    m - 2 * eps * B ≤ v ∧ v ≤ M + 2 * eps * B := by
  rcases clipping_error2 h0 h1 false cc ax ay hsx hsy data
    (fun i j a b c d => hB i j a (by simpa [shift] using b) c (by simpa [shift] using d)) px py with
    hrej | ⟨v', v0, hv, hv0, hb⟩
  · rw [(hrej none).1] at h; exact absurd h (by simp)
  · have e : v' = v := by have := hv none; rw [h] at this; exact (Option.some.inj this).symm
    subst e
    rcases within_data_range2 (le_refl 0) cc none ax ay hsx hsy data hd px py v0 (hv0 none) with
      ⟨-, hf⟩ | hr
    · exact absurd hf (by simp)
    · obtain ⟨b1, b2⟩ := abs_le.mp hb
      constructor <;> linarith [hr.1, hr.2]

theorem within_data_range3_eps {eps : K} (h0 : 0 ≤ eps) (h1 : eps ≤ 1/2) (cc : Bool)
    (ax ay az : Axis K) (hsx : 1 ≤ ax.size) (hsy : 1 ≤ ay.size) (hsz : 1 ≤ az.size)
    (data : Idx → K) {m M B : K}
    (hd : ∀ i j k, 0 ≤ i → i < ax.size → 0 ≤ j → j < ay.size → 0 ≤ k → k < az.size →
      m ≤ data [i, j, k] ∧ data [i, j, k] ≤ M)
    (hB : ∀ i j k, 0 ≤ i → i < ax.size → 0 ≤ j → j < ay.size → 0 ≤ k → k < az.size →
      |data [i, j, k]| ≤ B) (px py pz v : K)
    (h : interp3 eps false cc none ax ay az data px py pz = some v) :
    m - 3 * eps * B ≤ v ∧ v ≤ M + 3 * eps * B := by
  rcases clipping_error3 h0 h1 false cc ax ay az hsx hsy hsz data
    (fun i j k a b c d e f => hB i j k a (by simpa [shift] using b) c (by simpa [shift] using d) e
      (by simpa [shift] using f)) px py pz with hrej | ⟨v', v0, hv, hv0, hb⟩
  · rw [(hrej none).1] at h; exact absurd h (by simp)
  · have e : v' = v := by have := hv none; rw [h] at this; exact (Option.some.inj this).symm
    subst e
    rcases within_data_range3 (le_refl 0) cc none ax ay az hsx hsy hsz data hd px py pz v0
      (hv0 none) with ⟨-, hf⟩ | hr
    · exact absurd hf (by simp)
    · obtain ⟨b1, b2⟩ := abs_le.mp hb
      constructor <;> linarith [hr.1, hr.2]

/-- **periodic seam** with the code's clipping -/
theorem periodic_seam_eps {eps : K} (h0 : 0 ≤ eps) (h1 : eps ≤ 1/2) (ghost cc : Bool) (ax : Axis K)
    (hper : ax.periodic = true) (hs : 1 ≤ ax.size) (data : Idx → K) {M : K}
    (hM : ∀ i, 0 ≤ i → i < ax.size + 2 * shift ghost → |data [i]| ≤ M) (px : K) :
    ∃ v, (∀ fill, interp1 eps ghost cc fill ax data px = some v) ∧
      |v - (let x := cellCoord cc ax px
            let ext : Int → K := fun k => data [k % ax.size + shift ghost]
            lerp (x - ⌊x⌋) (ext ⌊x⌋) (ext (⌊x⌋ + 1)))| ≤ eps * M :=
  real_eps_of_exact h0 h1 ghost cc ax hs data hM px
    (periodic_seam (le_refl 0) ghost cc none ax hper data px)

/-- **boundary strip** with the code's clipping: within `eps·M` of the nearest cell's value -/
theorem boundary_strip_nearest_eps {eps : K} (h0 : 0 ≤ eps) (h1 : eps ≤ 1/2) (ax : Axis K)
    (hok : ax.ok) (data : Idx → K) {M : K} (hM : ∀ i, 0 ≤ i → i < ax.size → |data [i]| ≤ M)
    (px : K) :
    (inLowerStrip ax px → ∃ v, (∀ fill, interp1 eps false false fill ax data px = some v) ∧
        |v - data [0]| ≤ eps * M) ∧
    (inUpperStrip ax px → ∃ v, (∀ fill, interp1 eps false false fill ax data px = some v) ∧
        |v - data [ax.size - 1]| ≤ eps * M) :=
  ⟨fun h => real_eps_of_exact h0 h1 false false ax hok.1 data
      (fun i a b => hM i a (by simpa [shift] using b)) px
      ((boundary_strip_nearest (le_refl 0) none ax hok data px).1 h),
   fun h => real_eps_of_exact h0 h1 false false ax hok.1 data
      (fun i a b => hM i a (by simpa [shift] using b)) px
      ((boundary_strip_nearest (le_refl 0) none ax hok data px).2 h)⟩

/-- **ghost mode** with the code's clipping: from the face to the first / last centre the
interpolant is within `eps·M` of `ghostLine` -/
theorem ghost_mode_linear_to_bc_value_eps {eps : K} (h0 : 0 ≤ eps) (h1 : eps ≤ 1/2) (ax : Axis K)
    (hper : ax.periodic = false) (hs : 1 ≤ ax.size) (hdx : ax.dx ≠ 0) (data : Idx → K) {M : K}
    (hM : ∀ i, 0 ≤ i → i < ax.size + 2 → |data [i]| ≤ M) {τ : K} (t0 : 0 ≤ τ) (t1 : τ ≤ 1) :
    (∃ v, (∀ fill, interp1 eps true false fill ax data (ax.lo + τ * (ax.dx / 2)) = some v) ∧
        |v - ghostLine (data [0]) (data [1]) τ| ≤ eps * M) ∧
    (∃ v, (∀ fill, interp1 eps true false fill ax data (upperEnd ax - τ * (ax.dx / 2)) = some v) ∧
        |v - ghostLine (data [ax.size + 1]) (data [ax.size]) τ| ≤ eps * M) :=
  ⟨real_eps_of_exact h0 h1 true false ax hs data (fun i a b => hM i a (by simpa [shift] using b)) _
      (ghost_mode_linear_to_bc_value (le_refl 0) none ax hper hs hdx data t0 t1).1,
   real_eps_of_exact h0 h1 true false ax hs data (fun i a b => hM i a (by simpa [shift] using b)) _
      (ghost_mode_linear_to_bc_value (le_refl 0) none ax hper hs hdx data t0 t1).2⟩

/-- Dirichlet value `v` at the lower face (ghost cell `2 v - cell`, property C02): with the code's
clipping the interpolant is within `eps·M` of the line from `v` on the face to the first cell -/
theorem ghost_mode_dirichlet_value_eps {eps : K} (h0 : 0 ≤ eps) (h1 : eps ≤ 1/2) (ax : Axis K)
    (hper : ax.periodic = false) (hs : 1 ≤ ax.size) (hdx : ax.dx ≠ 0) (data : Idx → K) (v : K)
    (hbc : data [0] = 2 * v - data [1]) {M : K}
    (hM : ∀ i, 0 ≤ i → i < ax.size + 2 → |data [i]| ≤ M) {τ : K} (t0 : 0 ≤ τ) (t1 : τ ≤ 1) :
    ∃ w, (∀ fill, interp1 eps true false fill ax data (ax.lo + τ * (ax.dx / 2)) = some w) ∧
      |w - (v + τ * (data [1] - v))| ≤ eps * M :=
  real_eps_of_exact h0 h1 true false ax hs data (fun i a b => hM i a (by simpa [shift] using b)) _
    (ghost_mode_dirichlet_value (le_refl 0) none ax hper hs hdx data v hbc t0 t1)

/-! ## the compiled inserter at the real clipping constant -/

/-- **compiled inserter, 1 axis, any clipping constant**: the integral rises by the sum of the two
weights times the amount -/
theorem insert_compiled_integral (eps : K) (ax : Axis K) (hs : 1 ≤ ax.size)
    (vol data : Idx → K) (px amount : K) (hvol : ∀ i, 0 ≤ i → i < ax.size → vol [i] ≠ 0)
    (data' : Idx → K) (h : insertComp1 eps false ax vol data px amount = some data') :
    ∃ a, axisData eps false false ax px = some a ∧
      integral [ax.size] vol data' = integral [ax.size] vol data + (a.wl + a.wh) * amount := by
  unfold insertComp1 at h
  cases ha : axisData eps false false ax px with
  | none => rw [ha] at h; exact absurd h (by simp)
  | some a =>
    refine ⟨a, rfl, ?_⟩
    rw [ha] at h; simp only [Option.some.injEq, volIdx_false] at h; rw [← h]
    obtain ⟨l0, l1, u0, u1⟩ := axisDataX_indices hs ha
    rw [integral_deposit _ _ _ _ _ (validIdx1 u0 u1), integral_deposit _ _ _ _ _ (validIdx1 l0 l1)]
    have v1 := hvol _ l0 l1
    have v2 := hvol _ u0 u1
    field_simp
    ring

/-- **2 axes** -/
theorem insert_compiled_integral2 (eps : K) (ax ay : Axis K) (hsx : 1 ≤ ax.size)
    (hsy : 1 ≤ ay.size) (vol data : Idx → K) (px py amount : K)
    (hvol : ∀ i j, 0 ≤ i → i < ax.size → 0 ≤ j → j < ay.size → vol [i, j] ≠ 0)
    (data' : Idx → K) (h : insertComp2 eps false ax ay vol data px py amount = some data') :
    ∃ a b, axisData eps false false ax px = some a ∧ axisData eps false false ay py = some b ∧
      integral [ax.size, ay.size] vol data'
        = integral [ax.size, ay.size] vol data + (a.wl + a.wh) * (b.wl + b.wh) * amount := by
  unfold insertComp2 at h
  cases ha : axisData eps false false ax px with
  | none => rw [ha] at h; exact absurd h (by simp)
  | some a =>
    cases hb : axisData eps false false ay py with
    | none => rw [ha, hb] at h; exact absurd h (by simp)
    | some b =>
      refine ⟨a, b, rfl, rfl, ?_⟩
      rw [ha, hb] at h; simp only [Option.some.injEq, volIdx_false] at h; rw [← h]
      obtain ⟨al0, al1, ah0, ah1⟩ := axisDataX_indices hsx ha
      obtain ⟨bl0, bl1, bh0, bh1⟩ := axisDataX_indices hsy hb
      rw [integral_deposit _ _ _ _ _ (validIdx2 ah0 ah1 bh0 bh1),
        integral_deposit _ _ _ _ _ (validIdx2 ah0 ah1 bl0 bl1),
        integral_deposit _ _ _ _ _ (validIdx2 al0 al1 bh0 bh1),
        integral_deposit _ _ _ _ _ (validIdx2 al0 al1 bl0 bl1)]
      have v1 := hvol _ _ al0 al1 bl0 bl1
      have v2 := hvol _ _ al0 al1 bh0 bh1
      have v3 := hvol _ _ ah0 ah1 bl0 bl1
      have v4 := hvol _ _ ah0 ah1 bh0 bh1
      field_simp
      ring

/-- **3 axes** -/
theorem insert_compiled_integral3 (eps : K) (ax ay az : Axis K) (hsx : 1 ≤ ax.size)
    (hsy : 1 ≤ ay.size) (hsz : 1 ≤ az.size) (vol data : Idx → K) (px py pz amount : K)
    (hvol : ∀ i j k, 0 ≤ i → i < ax.size → 0 ≤ j → j < ay.size → 0 ≤ k → k < az.size →
      vol [i, j, k] ≠ 0)
    (data' : Idx → K) (h : insertComp3 eps false ax ay az vol data px py pz amount = some data') :
    ∃ a b c, axisData eps false false ax px = some a ∧ axisData eps false false ay py = some b ∧
      axisData eps false false az pz = some c ∧
      integral [ax.size, ay.size, az.size] vol data'
        = integral [ax.size, ay.size, az.size] vol data
          + (a.wl + a.wh) * (b.wl + b.wh) * (c.wl + c.wh) * amount := by
  unfold insertComp3 at h
  cases ha : axisData eps false false ax px with
  | none => rw [ha] at h; exact absurd h (by simp)
  | some a =>
    cases hb : axisData eps false false ay py with
    | none => rw [ha, hb] at h; exact absurd h (by simp)
    | some b =>
      cases hc : axisData eps false false az pz with
      | none => rw [ha, hb, hc] at h; exact absurd h (by simp)
      | some c =>
        refine ⟨a, b, c, rfl, rfl, rfl, ?_⟩
        rw [ha, hb, hc] at h; simp only [Option.some.injEq, volIdx_false] at h; rw [← h]
        obtain ⟨al0, al1, ah0, ah1⟩ := axisDataX_indices hsx ha
        obtain ⟨bl0, bl1, bh0, bh1⟩ := axisDataX_indices hsy hb
        obtain ⟨cl0, cl1, ch0, ch1⟩ := axisDataX_indices hsz hc
        rw [integral_deposit _ _ _ _ _ (validIdx3 ah0 ah1 bh0 bh1 ch0 ch1),
          integral_deposit _ _ _ _ _ (validIdx3 ah0 ah1 bh0 bh1 cl0 cl1),
          integral_deposit _ _ _ _ _ (validIdx3 ah0 ah1 bl0 bl1 ch0 ch1),
          integral_deposit _ _ _ _ _ (validIdx3 ah0 ah1 bl0 bl1 cl0 cl1),
          integral_deposit _ _ _ _ _ (validIdx3 al0 al1 bh0 bh1 ch0 ch1),
          integral_deposit _ _ _ _ _ (validIdx3 al0 al1 bh0 bh1 cl0 cl1),
          integral_deposit _ _ _ _ _ (validIdx3 al0 al1 bl0 bl1 ch0 ch1),
          integral_deposit _ _ _ _ _ (validIdx3 al0 al1 bl0 bl1 cl0 cl1)]
        have v1 := hvol _ _ _ al0 al1 bl0 bl1 cl0 cl1
        have v2 := hvol _ _ _ al0 al1 bl0 bl1 ch0 ch1
        have v3 := hvol _ _ _ al0 al1 bh0 bh1 cl0 cl1
        have v4 := hvol _ _ _ al0 al1 bh0 bh1 ch0 ch1
        have v5 := hvol _ _ _ ah0 ah1 bl0 bl1 cl0 cl1
        have v6 := hvol _ _ _ ah0 ah1 bl0 bl1 ch0 ch1
        have v7 := hvol _ _ _ ah0 ah1 bh0 bh1 cl0 cl1
        have v8 := hvol _ _ _ ah0 ah1 bh0 bh1 ch0 ch1
        field_simp
        ring

/-- the sum of the two clipped weights of an axis lies in `[1 - eps, 1]` -/
theorem weight_sum_bounds {eps : K} (h0 : 0 ≤ eps) (h1 : eps ≤ 1/2) {ghost cc : Bool} {ax : Axis K}
    {coord : K} {a : AxisData K} (h : axisData eps ghost cc ax coord = some a) :
    1 - eps ≤ a.wl + a.wh ∧ a.wl + a.wh ≤ 1 := by
  obtain ⟨-, -, hle, hge⟩ := weights_clipped eps ghost cc ax coord a h
  have := hge h1
  rw [max_eq_left h0] at this
  exact ⟨this, hle⟩

/-- **conservation with the code's clipping, 1 axis**: the integral rises by the amount up to
`eps·|amount|` -/
theorem insert_conserves_compiled_eps {eps : K} (h0 : 0 ≤ eps) (h1 : eps ≤ 1/2) (ax : Axis K)
    (hs : 1 ≤ ax.size) (vol data : Idx → K) (px amount : K)
    (hvol : ∀ i, 0 ≤ i → i < ax.size → vol [i] ≠ 0)
    (data' : Idx → K) (h : insertComp1 eps false ax vol data px amount = some data') :
    |integral [ax.size] vol data' - (integral [ax.size] vol data + amount)| ≤ eps * |amount| := by
  obtain ⟨a, ha, hi⟩ := insert_compiled_integral eps ax hs vol data px amount hvol data' h
  obtain ⟨w1, w2⟩ := weight_sum_bounds h0 h1 ha
  rw [hi, show integral [ax.size] vol data + (a.wl + a.wh) * amount
      - (integral [ax.size] vol data + amount) = -((1 - (a.wl + a.wh)) * amount) by ring,
    abs_neg, abs_mul, abs_of_nonneg (by linarith : (0:K) ≤ 1 - (a.wl + a.wh))]
  exact mul_le_mul_of_nonneg_right (by linarith) (abs_nonneg _)

/-- **2 axes**: up to `2·eps·|amount|` -/
theorem insert_conserves_compiled2_eps {eps : K} (h0 : 0 ≤ eps) (h1 : eps ≤ 1/2) (ax ay : Axis K)
    (hsx : 1 ≤ ax.size) (hsy : 1 ≤ ay.size) (vol data : Idx → K) (px py amount : K)
    (hvol : ∀ i j, 0 ≤ i → i < ax.size → 0 ≤ j → j < ay.size → vol [i, j] ≠ 0)
    (data' : Idx → K) (h : insertComp2 eps false ax ay vol data px py amount = some data') :
    |integral [ax.size, ay.size] vol data' - (integral [ax.size, ay.size] vol data + amount)|
      ≤ 2 * eps * |amount| := by
  obtain ⟨a, b, ha, hb, hi⟩ :=
    insert_compiled_integral2 eps ax ay hsx hsy vol data px py amount hvol data' h
  obtain ⟨a1, a2⟩ := weight_sum_bounds h0 h1 ha
  obtain ⟨b1, b2⟩ := weight_sum_bounds h0 h1 hb
  set A := a.wl + a.wh
  set B := b.wl + b.wh
  have hA0 : 0 ≤ A := by linarith
  have hB0 : 0 ≤ B := by linarith
  have hm := mass2_clip (A := A) (A0 := 1) (B := B) (B0 := 1) (eps := eps)
    ⟨hA0, a2, le_refl _, by linarith⟩ ⟨hB0, b2, le_refl _, by linarith⟩
  rw [hi, show integral [ax.size, ay.size] vol data + A * B * amount
      - (integral [ax.size, ay.size] vol data + amount) = -((1 * 1 - A * B) * amount) by ring,
    abs_neg, abs_mul, abs_of_nonneg (by linarith [hm.2.1] : (0:K) ≤ 1 * 1 - A * B)]
  exact mul_le_mul_of_nonneg_right hm.2.2.2 (abs_nonneg _)

/-- **3 axes**: up to `3·eps·|amount|` -/
theorem insert_conserves_compiled3_eps {eps : K} (h0 : 0 ≤ eps) (h1 : eps ≤ 1/2) (ax ay az : Axis K)
    (hsx : 1 ≤ ax.size) (hsy : 1 ≤ ay.size) (hsz : 1 ≤ az.size) (vol data : Idx → K)
    (px py pz amount : K)
    (hvol : ∀ i j k, 0 ≤ i → i < ax.size → 0 ≤ j → j < ay.size → 0 ≤ k → k < az.size →
      vol [i, j, k] ≠ 0)
    (data' : Idx → K) (h : insertComp3 eps false ax ay az vol data px py pz amount = some data') :
    |integral [ax.size, ay.size, az.size] vol data'
        - (integral [ax.size, ay.size, az.size] vol data + amount)| ≤ 3 * eps * |amount| := by
  obtain ⟨a, b, c, ha, hb, hc, hi⟩ :=
    insert_compiled_integral3 eps ax ay az hsx hsy hsz vol data px py pz amount hvol data' h
  obtain ⟨a1, a2⟩ := weight_sum_bounds h0 h1 ha
  obtain ⟨b1, b2⟩ := weight_sum_bounds h0 h1 hb
  obtain ⟨c1, c2⟩ := weight_sum_bounds h0 h1 hc
  set A := a.wl + a.wh
  set B := b.wl + b.wh
  set C := c.wl + c.wh
  have hA0 : 0 ≤ A := by linarith
  have hB0 : 0 ≤ B := by linarith
  have hC0 : 0 ≤ C := by linarith
  have hab := mass2_clip (A := A) (A0 := 1) (B := B) (B0 := 1) (eps := eps)
    ⟨hA0, a2, le_refl _, by linarith⟩ ⟨hB0, b2, le_refl _, by linarith⟩
  -- (1 - AB) ≤ 2 eps and (1 - C) ≤ eps give 1 - ABC ≤ 3 eps
  have hAB0 : 0 ≤ A * B := hab.1
  have hAB1 : A * B ≤ 1 := by linarith [hab.2.1]
  have e : 1 - A * B * C = (1 - A * B) + A * B * (1 - C) := by ring
  have t : A * B * (1 - C) ≤ 1 * eps := mul_le_mul hAB1 (by linarith) (by linarith) (by norm_num)
  have hnn : 0 ≤ 1 - A * B * C := by
    rw [e]; have := mul_nonneg hAB0 (by linarith : (0:K) ≤ 1 - C); linarith
  rw [hi, show integral [ax.size, ay.size, az.size] vol data + A * B * C * amount
      - (integral [ax.size, ay.size, az.size] vol data + amount) = -((1 - A * B * C) * amount) by ring,
    abs_neg, abs_mul, abs_of_nonneg hnn]
  refine mul_le_mul_of_nonneg_right ?_ (abs_nonneg _)
  rw [e]; linarith [hab.2.2.2]

/-- **compiled inserter with ghost cells, 1 axis, any clipping constant**: when both support points
are valid cells the integral over the valid cells rises by the sum of the weights times the amount -/
theorem insert_compiled_ghost_integral (eps : K) (ax : Axis K)
    (vol full : Idx → K) (px amount : K) (hvol : ∀ i, 0 ≤ i → i < ax.size → vol [i] ≠ 0)
    (a : AxisData K) (ha : axisData eps true false ax px = some a)
    (hin : 1 ≤ a.li ∧ a.li ≤ ax.size ∧ 1 ≤ a.hi ∧ a.hi ≤ ax.size)
    (full' : Idx → K) (h : insertComp1 eps true ax vol full px amount = some full') :
    integral [ax.size] vol (validView full')
      = integral [ax.size] vol (validView full) + (a.wl + a.wh) * amount := by
  unfold insertComp1 at h
  rw [ha] at h; simp only [Option.some.injEq] at h; rw [← h]
  obtain ⟨l0, l1, u0, u1⟩ := hin
  have e1 : volIdx true ax.size a.li = a.li - 1 := by
    unfold volIdx; simp only [if_true]; rw [if_neg (by omega), if_neg (by omega)]
  have e2 : volIdx true ax.size a.hi = a.hi - 1 := by
    unfold volIdx; simp only [if_true]; rw [if_neg (by omega), if_neg (by omega)]
  rw [validView_deposit, validView_deposit, e1, e2]
  simp only [List.map_cons, List.map_nil]
  rw [integral_deposit _ _ _ _ _ (validIdx1 (by omega) (by omega)),
    integral_deposit _ _ _ _ _ (validIdx1 (by omega) (by omega))]
  have v1 := hvol (a.li - 1) (by omega) (by omega)
  have v2 := hvol (a.hi - 1) (by omega) (by omega)
  field_simp
  ring

/-- with the code's clipping: up to `eps·|amount|` -/
theorem insert_conserves_compiled_ghost_eps {eps : K} (h0 : 0 ≤ eps) (h1 : eps ≤ 1/2) (ax : Axis K)
    (vol full : Idx → K) (px amount : K) (hvol : ∀ i, 0 ≤ i → i < ax.size → vol [i] ≠ 0)
    (a : AxisData K) (ha : axisData eps true false ax px = some a)
    (hin : 1 ≤ a.li ∧ a.li ≤ ax.size ∧ 1 ≤ a.hi ∧ a.hi ≤ ax.size)
    (full' : Idx → K) (h : insertComp1 eps true ax vol full px amount = some full') :
    |integral [ax.size] vol (validView full') - (integral [ax.size] vol (validView full) + amount)|
      ≤ eps * |amount| := by
  obtain ⟨w1, w2⟩ := weight_sum_bounds h0 h1 ha
  rw [insert_compiled_ghost_integral eps ax vol full px amount hvol a ha hin full' h,
    show integral [ax.size] vol (validView full) + (a.wl + a.wh) * amount
      - (integral [ax.size] vol (validView full) + amount) = -((1 - (a.wl + a.wh)) * amount) by ring,
    abs_neg, abs_mul, abs_of_nonneg (by linarith : (0:K) ≤ 1 - (a.wl + a.wh))]
  exact mul_le_mul_of_nonneg_right (by linarith) (abs_nonneg _)

/-- **compiled inserter with ghost cells, 2 axes, any clipping constant** -/
theorem insert_compiled_ghost_integral2 (eps : K) (ax ay : Axis K)
    (vol full : Idx → K) (px py amount : K)
    (hvol : ∀ i j, 0 ≤ i → i < ax.size → 0 ≤ j → j < ay.size → vol [i, j] ≠ 0)
    (a b : AxisData K) (ha : axisData eps true false ax px = some a)
    (hb : axisData eps true false ay py = some b)
    (hina : 1 ≤ a.li ∧ a.li ≤ ax.size ∧ 1 ≤ a.hi ∧ a.hi ≤ ax.size)
    (hinb : 1 ≤ b.li ∧ b.li ≤ ay.size ∧ 1 ≤ b.hi ∧ b.hi ≤ ay.size)
    (full' : Idx → K) (h : insertComp2 eps true ax ay vol full px py amount = some full') :
    integral [ax.size, ay.size] vol (validView full')
      = integral [ax.size, ay.size] vol (validView full)
        + (a.wl + a.wh) * (b.wl + b.wh) * amount := by
  unfold insertComp2 at h
  rw [ha, hb] at h; simp only [Option.some.injEq] at h; rw [← h]
  obtain ⟨al0, al1, ah0, ah1⟩ := hina
  obtain ⟨bl0, bl1, bh0, bh1⟩ := hinb
  have e1 : volIdx true ax.size a.li = a.li - 1 := by
    unfold volIdx; simp only [if_true]; rw [if_neg (by omega), if_neg (by omega)]
  have e2 : volIdx true ax.size a.hi = a.hi - 1 := by
    unfold volIdx; simp only [if_true]; rw [if_neg (by omega), if_neg (by omega)]
  have e3 : volIdx true ay.size b.li = b.li - 1 := by
    unfold volIdx; simp only [if_true]; rw [if_neg (by omega), if_neg (by omega)]
  have e4 : volIdx true ay.size b.hi = b.hi - 1 := by
    unfold volIdx; simp only [if_true]; rw [if_neg (by omega), if_neg (by omega)]
  rw [validView_deposit, validView_deposit, validView_deposit, validView_deposit, e1, e2, e3, e4]
  simp only [List.map_cons, List.map_nil]
  rw [integral_deposit _ _ _ _ _ (validIdx2 (by omega) (by omega) (by omega) (by omega)),
    integral_deposit _ _ _ _ _ (validIdx2 (by omega) (by omega) (by omega) (by omega)),
    integral_deposit _ _ _ _ _ (validIdx2 (by omega) (by omega) (by omega) (by omega)),
    integral_deposit _ _ _ _ _ (validIdx2 (by omega) (by omega) (by omega) (by omega))]
  have v1 := hvol (a.li - 1) (b.li - 1) (by omega) (by omega) (by omega) (by omega)
  have v2 := hvol (a.li - 1) (b.hi - 1) (by omega) (by omega) (by omega) (by omega)
  have v3 := hvol (a.hi - 1) (b.li - 1) (by omega) (by omega) (by omega) (by omega)
  have v4 := hvol (a.hi - 1) (b.hi - 1) (by omega) (by omega) (by omega) (by omega)
  field_simp
  ring

/-- with the code's clipping: up to `2·eps·|amount|` -/
theorem insert_conserves_compiled_ghost2_eps {eps : K} (h0 : 0 ≤ eps) (h1 : eps ≤ 1/2)
    (ax ay : Axis K) (vol full : Idx → K) (px py amount : K)
    (hvol : ∀ i j, 0 ≤ i → i < ax.size → 0 ≤ j → j < ay.size → vol [i, j] ≠ 0)
    (a b : AxisData K) (ha : axisData eps true false ax px = some a)
    (hb : axisData eps true false ay py = some b)
    (hina : 1 ≤ a.li ∧ a.li ≤ ax.size ∧ 1 ≤ a.hi ∧ a.hi ≤ ax.size)
    (hinb : 1 ≤ b.li ∧ b.li ≤ ay.size ∧ 1 ≤ b.hi ∧ b.hi ≤ ay.size)
    (full' : Idx → K) (h : insertComp2 eps true ax ay vol full px py amount = some full') :
    |integral [ax.size, ay.size] vol (validView full')
        - (integral [ax.size, ay.size] vol (validView full) + amount)| ≤ 2 * eps * |amount| := by
  obtain ⟨a1, a2⟩ := weight_sum_bounds h0 h1 ha
  obtain ⟨b1, b2⟩ := weight_sum_bounds h0 h1 hb
  rw [insert_compiled_ghost_integral2 eps ax ay vol full px py amount hvol a b ha hb hina hinb full' h]
  set A := a.wl + a.wh
  set B := b.wl + b.wh
  have hm := mass2_clip (A := A) (A0 := 1) (B := B) (B0 := 1) (eps := eps)
    ⟨by linarith, a2, le_refl _, by linarith⟩ ⟨by linarith, b2, le_refl _, by linarith⟩
  rw [show integral [ax.size, ay.size] vol (validView full) + A * B * amount
      - (integral [ax.size, ay.size] vol (validView full) + amount)
        = -((1 * 1 - A * B) * amount) by ring,
    abs_neg, abs_mul, abs_of_nonneg (by linarith [hm.2.1] : (0:K) ≤ 1 * 1 - A * B)]
  exact mul_le_mul_of_nonneg_right hm.2.2.2 (abs_nonneg _)

/-! ## interpreted `insert` against the compiled inserter at the real clipping constant -/

/-- **1 axis**: the interpreted `insert` does not clip, the compiled inserter does; for a point
inside the domain both succeed and the values they leave in a cell differ by at most
`eps·|amount / vol|` -/
theorem insert_interpreted_eq_compiled_eps {eps : K} (h0 : 0 ≤ eps) (h1 : eps ≤ 1/2) (ax : Axis K)
    (hok : ax.ok) (vol data : Idx → K) (px amount : K) (hin : insideAxis ax px) :
    ∃ dI dC, insertInterp [ax] vol data [px] amount = some dI ∧
      insertComp1 eps false ax vol data px amount = some dC ∧
      ∀ i, 0 ≤ i → i < ax.size → |dI [i] - dC [i]| ≤ eps * |amount / vol [i]| := by
  obtain ⟨dI, dC0, hI, hC0, heq⟩ :=
    insert_interpreted_eq_compiled (le_refl (0:K)) ax hok vol data px amount hin
  rcases axisData_clipRel eps false false ax px with ⟨-, hn0⟩ | ⟨a, a0, ha, ha0, hr⟩
  · unfold insertComp1 at hC0; rw [hn0] at hC0; exact absurd hC0 (by simp)
  · obtain ⟨d, hd, hcell⟩ := insertComp1_cell vol data amount ha
    obtain ⟨d0, hd0, hcell0⟩ := insertComp1_cell vol data amount ha0
    have e0 : d0 = dC0 := by rw [hd0] at hC0; exact Option.some.inj hC0
    subst e0
    refine ⟨dI, d, hI, hd, fun i hi0 hi1 => ?_⟩
    obtain ⟨m0, m1, m2, m3⟩ := axisMass_clip hr h0 h1 i
    rw [heq i hi0 hi1, hcell0, hcell,
      show data [i] + axisMass a0 i * (amount / vol [i]) - (data [i] + axisMass a i * (amount / vol [i]))
        = (axisMass a0 i - axisMass a i) * (amount / vol [i]) by ring,
      abs_mul, abs_of_nonneg (by linarith : (0:K) ≤ axisMass a0 i - axisMass a i)]
    exact mul_le_mul_of_nonneg_right m3 (abs_nonneg _)

/-- **2 axes**: at most `2·eps·|amount / vol|` -/
theorem insert_interpreted_eq_compiled2_eps {eps : K} (h0 : 0 ≤ eps) (h1 : eps ≤ 1/2)
    (ax ay : Axis K) (hx : ax.ok) (hy : ay.ok) (vol data : Idx → K) (px py amount : K)
    (hin : insideAxis ax px ∧ insideAxis ay py) :
    ∃ dI dC, insertInterp [ax, ay] vol data [px, py] amount = some dI ∧
      insertComp2 eps false ax ay vol data px py amount = some dC ∧
      ∀ i j, 0 ≤ i → i < ax.size → 0 ≤ j → j < ay.size →
        |dI [i, j] - dC [i, j]| ≤ 2 * eps * |amount / vol [i, j]| := by
  obtain ⟨dI, dC0, hI, hC0, heq⟩ :=
    insert_interpreted_eq_compiled2 (le_refl (0:K)) ax ay hx hy vol data px py amount hin
  rcases axisData_clipRel eps false false ax px with ⟨-, hn0⟩ | ⟨a, a0, ha, ha0, hra⟩
  · unfold insertComp2 at hC0; rw [hn0] at hC0; exact absurd hC0 (by simp)
  rcases axisData_clipRel eps false false ay py with ⟨-, hn0⟩ | ⟨b, b0, hb, hb0, hrb⟩
  · unfold insertComp2 at hC0; rw [ha0, hn0] at hC0; exact absurd hC0 (by simp)
  obtain ⟨d, hd, hcell⟩ := insertComp2_cell vol data amount ha hb
  obtain ⟨d0, hd0, hcell0⟩ := insertComp2_cell vol data amount ha0 hb0
  have e0 : d0 = dC0 := by rw [hd0] at hC0; exact Option.some.inj hC0
  subst e0
  refine ⟨dI, d, hI, hd, fun i j hi0 hi1 hj0 hj1 => ?_⟩
  obtain ⟨m0, m1, m2, m3⟩ := mass2_clip (axisMass_clip hra h0 h1 i) (axisMass_clip hrb h0 h1 j)
  rw [heq i j hi0 hi1 hj0 hj1, hcell0, hcell,
    show data [i, j] + axisMass a0 i * axisMass b0 j * (amount / vol [i, j])
        - (data [i, j] + axisMass a i * axisMass b j * (amount / vol [i, j]))
      = (axisMass a0 i * axisMass b0 j - axisMass a i * axisMass b j) * (amount / vol [i, j]) by ring,
    abs_mul, abs_of_nonneg (by linarith :
      (0:K) ≤ axisMass a0 i * axisMass b0 j - axisMass a i * axisMass b j)]
  exact mul_le_mul_of_nonneg_right m3 (abs_nonneg _)

/-- **3 axes**: at most `3·eps·|amount / vol|` -/
theorem insert_interpreted_eq_compiled3_eps {eps : K} (h0 : 0 ≤ eps) (h1 : eps ≤ 1/2)
    (ax ay az : Axis K) (hx : ax.ok) (hy : ay.ok) (hz : az.ok) (vol data : Idx → K)
    (px py pz amount : K) (hin : insideAxis ax px ∧ insideAxis ay py ∧ insideAxis az pz) :
    ∃ dI dC, insertInterp [ax, ay, az] vol data [px, py, pz] amount = some dI ∧
      insertComp3 eps false ax ay az vol data px py pz amount = some dC ∧
      ∀ i j k, 0 ≤ i → i < ax.size → 0 ≤ j → j < ay.size → 0 ≤ k → k < az.size →
        |dI [i, j, k] - dC [i, j, k]| ≤ 3 * eps * |amount / vol [i, j, k]| := by
  obtain ⟨dI, dC0, hI, hC0, heq⟩ :=
    insert_interpreted_eq_compiled3 (le_refl (0:K)) ax ay az hx hy hz vol data px py pz amount hin
  rcases axisData_clipRel eps false false ax px with ⟨-, hn0⟩ | ⟨a, a0, ha, ha0, hra⟩
  · unfold insertComp3 at hC0; rw [hn0] at hC0; exact absurd hC0 (by simp)
  rcases axisData_clipRel eps false false ay py with ⟨-, hn0⟩ | ⟨b, b0, hb, hb0, hrb⟩
  · unfold insertComp3 at hC0; rw [ha0, hn0] at hC0; exact absurd hC0 (by simp)
  rcases axisData_clipRel eps false false az pz with ⟨-, hn0⟩ | ⟨c, c0, hc, hc0, hrc⟩
  · unfold insertComp3 at hC0; rw [ha0, hb0, hn0] at hC0; exact absurd hC0 (by simp)
  obtain ⟨d, hd, hcell⟩ := insertComp3_cell vol data amount ha hb hc
  obtain ⟨d0, hd0, hcell0⟩ := insertComp3_cell vol data amount ha0 hb0 hc0
  have e0 : d0 = dC0 := by rw [hd0] at hC0; exact Option.some.inj hC0
  subst e0
  refine ⟨dI, d, hI, hd, fun i j k hi0 hi1 hj0 hj1 hk0 hk1 => ?_⟩
  have hab := mass2_clip (axisMass_clip hra h0 h1 i) (axisMass_clip hrb h0 h1 j)
  obtain ⟨c0', c1', c2', c3'⟩ := axisMass_clip hrc h0 h1 k
  obtain ⟨ab0, ab1, ab2, ab3⟩ := hab
  set AB := axisMass a i * axisMass b j
  set AB0 := axisMass a0 i * axisMass b0 j
  set C := axisMass c k
  set C0 := axisMass c0 k
  have e : AB0 * C0 - AB * C = (AB0 - AB) * C0 + AB * (C0 - C) := by ring
  have t1 : (AB0 - AB) * C0 ≤ (2 * eps) * 1 :=
    mul_le_mul ab3 c2' (le_trans c0' c1') (by linarith)
  have t2 : AB * (C0 - C) ≤ 1 * eps := mul_le_mul (le_trans ab1 ab2) c3' (by linarith) (by norm_num)
  have hnn : 0 ≤ AB0 * C0 - AB * C := by
    rw [e]
    have := mul_nonneg (by linarith : (0:K) ≤ AB0 - AB) (le_trans c0' c1')
    have := mul_nonneg ab0 (by linarith : (0:K) ≤ C0 - C)
    linarith
  rw [heq i j k hi0 hi1 hj0 hj1 hk0 hk1, hcell0, hcell,
    show data [i, j, k] + AB0 * C0 * (amount / vol [i, j, k])
        - (data [i, j, k] + AB * C * (amount / vol [i, j, k]))
      = (AB0 * C0 - AB * C) * (amount / vol [i, j, k]) by ring,
    abs_mul, abs_of_nonneg hnn]
  refine mul_le_mul_of_nonneg_right ?_ (abs_nonneg _)
  rw [e]; linarith

end
end PdeVerif.Interp

/-! ## non-vacuity at the code's constant `eps = 1e-15`; the driver's floor -/
namespace PdeVerif.Interp.Examples
open PdeVerif PdeVerif.Interp

/-- the driver evaluates the model over `Rat` with the `HasFloor Rat` instance of `Num.lean` (core
`Rat.floor`); the theorems speak about the floor of the `FloorRing ℚ`.  It is the same instance, so
the functions the driver evaluates are the functions of the theorems at `K = ℚ` -/
theorem driver_floor_instance_eq :
    (PdeVerif.instHasFloorRat : HasFloor ℚ) = instHasFloorOfFloorRing := rfl

/-- the code's constant satisfies the hypotheses of the `_eps` theorems -/
example : (0:ℚ) ≤ 1/10^15 ∧ (1/10^15 : ℚ) ≤ 1/2 := by norm_num

/-- with the code's `eps = 1e-15`: a quarter of the way from centre 1 to centre 2 of `ax4` (data
`i²`, bounded by 9) the value is within `9e-15` of `7/4` -/
example : ∃ v, (∀ fill, interp1 (1/10^15 : ℚ) false false fill ax4 sq (3/4 + 1/8) = some v) ∧
    |v - 7/4| ≤ 1/10^15 * 9 := by
  have hM : ∀ i : Int, 0 ≤ i → i < ax4.size + 2 * shift false → |sq [i]| ≤ 9 := by
    intro i h0 h1
    simp only [ax4, shift, Bool.false_eq_true, if_false] at h1
    have : i = 0 ∨ i = 1 ∨ i = 2 ∨ i = 3 := by omega
    rcases this with rfl | rfl | rfl | rfl <;> norm_num [sq]
  obtain ⟨v, hv, hb⟩ := multilinear_between_centres_eps (K := ℚ) (eps := 1/10^15) (by norm_num)
    (by norm_num) false ax4 (by norm_num [ax4]) sq hM 1 (by norm_num) (by norm_num [ax4])
    (t := 1/4) (by norm_num) (by norm_num)
  have e : centre ax4 1 + 1/4 * ax4.dx = 3/4 + 1/8 := by norm_num [centre, ax4]
  rw [e] at hv
  refine ⟨v, hv, ?_⟩
  have e2 : lerp (1/4 : ℚ) (sq [1 + shift false]) (sq [1 + 1 + shift false]) = 7/4 := by
    norm_num [lerp, shift, sq]
  rw [e2] at hb; exact hb


/-- inserting 5 in the lower boundary strip of `ax4` (cell volumes 1, 3, 5, 7) with the code's `eps`:
both inserters accept, their cell values differ by at most `1e-15·|5/vol|`, and the compiled one
raises the integral by 5 up to `5e-15` -/
example : ∃ dI dC, insertInterp [ax4] vol13 sq [1/10] 5 = some dI ∧
    insertComp1 (1/10^15 : ℚ) false ax4 vol13 sq (1/10) 5 = some dC ∧
    (∀ i, 0 ≤ i → i < ax4.size → |dI [i] - dC [i]| ≤ 1/10^15 * |5 / vol13 [i]|) ∧
    |integral [ax4.size] vol13 dC - (integral [ax4.size] vol13 sq + 5)| ≤ 1/10^15 * |5| := by
  have hin : insideAxis ax4 (1/10) := Or.inr ⟨by norm_num [ax4], by norm_num [ax4, upperEnd]⟩
  obtain ⟨dI, dC, hI, hC, hcl⟩ := insert_interpreted_eq_compiled_eps (K := ℚ) (eps := 1/10^15)
    (by norm_num) (by norm_num) ax4 (by unfold Axis.ok ax4; norm_num) vol13 sq (1/10) 5 hin
  refine ⟨dI, dC, hI, hC, hcl, ?_⟩
  refine insert_conserves_compiled_eps (by norm_num) (by norm_num) ax4 (by norm_num [ax4]) vol13 sq
    (1/10) 5 ?_ dC hC
  intro i h0 h1
  simp only [ax4] at h1
  have : i = 0 ∨ i = 1 ∨ i = 2 ∨ i = 3 := by omega
  rcases this with rfl | rfl | rfl | rfl <;> simp [vol13]

end PdeVerif.Interp.Examples
